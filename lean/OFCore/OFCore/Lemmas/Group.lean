import OFCore.Group
/-!
# Lemmas about the group model

Core Lean only (no Mathlib).  Sections: list utilities; `bincount`; member positions
(`posOf`, `membersIdx`); the stable insertion sort (`argsortN`/`argsortE`) is the unique
`Before`-sorted permutation; the ordered members map is the concatenation of the groups; masked
assignment of at most one value per group; closed forms of `groupSum`, `valueNth`, `reduce`
(`any/all/min/max`), `valueFromPerson` (and its refusal when a role is held twice), `project`;
double argsort = index in the sorted row; closed form, permutation and monotonicity of `getRank`;
projector chains; independence from the order `numpy.argsort` gives to equal keys
(`valueNthWith_eq`, `valueFromPersonWith_eq`, `getRankWith_eq_getRank`).
-/
namespace OFCore.Grp

/-! ## list utilities -/

theorem snoc_induction {α} {P : List α → Prop} (nil : P [])
    (snoc : ∀ l a, P l → P (l ++ [a])) : ∀ l, P l := by
  intro l
  have h : ∀ n, ∀ l : List α, l.length = n → P l := by
    intro n
    induction n with
    | zero =>
      intro l h
      have := List.eq_nil_of_length_eq_zero h
      subst this; exact nil
    | succ n ih =>
      intro l h
      rcases List.eq_nil_or_concat l with rfl | ⟨l', b, rfl⟩
      · exact nil
      · rw [List.concat_eq_append] at *
        apply snoc; apply ih
        simp at h; omega
  exact h _ l rfl

theorem range_map_spec {β} (n : Nat) (F : Nat → β) :
    ((List.range n).map F).length = n ∧ ∀ g, g < n → ((List.range n).map F)[g]? = some (F g) := by
  refine ⟨by simp, fun g hg => ?_⟩
  rw [List.getElem?_map, List.getElem?_range hg]; rfl

theorem maskSel_map {ι α} (l : List ι) (p : ι → Bool) (f : ι → α) :
    maskSel (l.map p) (l.map f) = (l.filter p).map f := by
  induction l with
  | nil => rfl
  | cons x xs ih =>
    simp only [List.map_cons, maskSel, List.filter_cons]
    split <;> simp [ih]

theorem whereL_map {ι α} (l : List ι) (p : ι → Bool) (f : ι → α) (d : α) :
    whereL (l.map p) (l.map f) d = l.map (fun x => if p x then f x else d) := by
  simp [whereL, List.zipWith_map, List.zipWith_self]

theorem zip_fst {α β} (xs : List α) (ys : List β) (h : ys.length = xs.length) :
    (xs.zip ys).map Prod.fst = xs := List.map_fst_zip (by omega)

theorem zip_snd {α β} (xs : List α) (ys : List β) (h : ys.length = xs.length) :
    (xs.zip ys).map Prod.snd = ys := List.map_snd_zip (by omega)

/-- selecting by index over `range` is filtering -/
theorem range_filter_map_getD {β} (l : List β) (q : β → Bool) (d : β) :
    ((List.range l.length).filter (fun i => q (l.getD i d))).map (fun i => l.getD i d) = l.filter q := by
  induction l using snoc_induction with
  | nil => rfl
  | snoc l a ih =>
    rw [List.length_append, List.length_singleton, List.range_succ, List.filter_append,
      List.map_append, List.filter_append]
    have h1 : (List.range l.length).filter (fun i => q ((l ++ [a]).getD i d))
        = (List.range l.length).filter (fun i => q (l.getD i d)) := by
      apply List.filter_congr
      intro i hi
      have : i < l.length := List.mem_range.mp hi
      simp [List.getD_eq_getElem?_getD, List.getElem?_append_left this]
    have h2 : ∀ i ∈ (List.range l.length).filter (fun i => q (l.getD i d)),
        (l ++ [a]).getD i d = l.getD i d := by
      intro i hi
      have : i < l.length := List.mem_range.mp (List.mem_filter.mp hi).1
      simp [List.getD_eq_getElem?_getD, List.getElem?_append_left this]
    rw [h1, List.map_congr_left h2, ih]
    congr 1
    have h3 : (l ++ [a]).getD l.length d = a := by simp [List.getD_eq_getElem?_getD]
    simp only [List.filter_cons, h3]
    split <;> simp

/-! ## bincount -/

theorem bcLoop_length (acc : List Int) (ids : List Nat) (w : List Int) :
    (bcLoop acc ids w).length = acc.length := by
  induction ids generalizing acc w with
  | nil => simp [bcLoop]
  | cons g gs ih =>
    cases w with
    | nil => simp [bcLoop]
    | cons x xs => simp only [bcLoop]; rw [ih, List.length_set]

theorem getD_set {α} (l : List α) (i j : Nat) (a d : α) (hi : i < l.length) :
    (l.set i a).getD j d = if i = j then a else l.getD j d := by
  simp only [List.getD_eq_getElem?_getD, List.getElem?_set]
  by_cases h : i = j
  · subst h; simp [hi]
  · simp [h]

theorem getD_set_of_ge {α} (l : List α) (i j : Nat) (a d : α) (hi : l.length ≤ i) :
    (l.set i a).getD j d = l.getD j d := by
  rw [List.set_eq_of_length_le hi]

theorem bcLoop_getD (acc : List Int) (ids : List Nat) (w : List Int) (g : Nat)
    (hgl : g < acc.length) : (bcLoop acc ids w).getD g 0
      = acc.getD g 0 + (((ids.zip w).filter (fun iw => iw.1 == g)).map (·.2)).sum := by
  induction ids generalizing acc w with
  | nil => simp [bcLoop]
  | cons i gs ih =>
    cases w with
    | nil => simp [bcLoop]
    | cons x xs =>
      simp only [bcLoop]
      rw [ih _ _ (by simpa using hgl)]
      simp only [List.zip_cons_cons, List.filter_cons]
      by_cases hg : i = g
      · subst hg
        rw [getD_set _ _ _ _ _ hgl]
        simp; omega
      · have hb : (i == g) = false := by simp [hg]
        by_cases hi : i < acc.length
        · rw [getD_set _ _ _ _ _ hi]; simp [hg, hb]
        · rw [getD_set_of_ge _ _ _ _ _ (by omega)]; simp [hb]

theorem bcLen_ge (ids : List Nat) (m : Nat) : m ≤ bcLen ids m := by
  unfold bcLen
  induction ids generalizing m with
  | nil => simp
  | cons g gs ih => simp only [List.foldl_cons]; exact Nat.le_trans (Nat.le_max_left _ _) (ih _)

theorem bcLen_eq (ids : List Nat) (m : Nat) (h : ∀ g ∈ ids, g < m) : bcLen ids m = m := by
  unfold bcLen
  induction ids generalizing m with
  | nil => simp
  | cons g gs ih =>
    simp only [List.foldl_cons]
    have hg : g < m := h g (by simp)
    have : Nat.max m (g + 1) = m := Nat.max_eq_left (by omega)
    rw [this]; exact ih m (fun x hx => h x (by simp [hx]))

theorem bincountW_length (ids : List Nat) (w : List Int) (m : Nat) (h : ∀ g ∈ ids, g < m) :
    (bincountW ids w m).length = m := by
  simp [bincountW, bcLoop_length, bcLen_eq ids m h]

theorem bincountW_eq (ids : List Nat) (w : List Int) (m : Nat) (h : ∀ g ∈ ids, g < m) :
    bincountW ids w m
      = (List.range m).map (fun g => (((ids.zip w).filter (fun iw => iw.1 == g)).map (·.2)).sum) := by
  apply List.ext_getElem
  · simp [bincountW_length ids w m h]
  · intro g h1 h2
    have hg : g < m := by simpa using h2
    have := bcLoop_getD (List.replicate (bcLen ids m) 0) ids w g (by simp [bcLen_eq ids m h, hg])
    unfold bincountW
    rw [List.getD_eq_getElem?_getD, List.getElem?_eq_getElem (by simpa [bincountW] using h1)] at this
    simp only [Option.getD_some] at this
    rw [this]
    simp [List.getD_eq_getElem?_getD, bcLen_eq ids m h, hg]

theorem zip_unzip_self {α β} (l : List (α × β)) : (l.map Prod.fst).zip (l.map Prod.snd) = l := by
  induction l with
  | nil => rfl
  | cons x xs ih => simp [ih]

/-- a population and a person-level array given as one list of (member, value) pairs -/
def popOf {α} (n : Nat) (l : List (Member × α)) : Pop := ⟨n, l.map Prod.fst⟩

@[simp] theorem popOf_n {α} (n : Nat) (l : List (Member × α)) : (popOf n l).n = n := rfl

theorem popOf_zip {α} (p : Pop) (a : List α) (h : a.length = p.ms.length) :
    popOf p.n (p.ms.zip a) = p ∧ (p.ms.zip a).map Prod.snd = a := by
  cases p with
  | mk n ms => exact ⟨by simp [popOf, zip_fst _ _ h], zip_snd _ _ h⟩

theorem valuesOf_popOf {α} (n : Nat) (l : List (Member × α)) (role : Option Role) (g : Nat) :
    valuesOf (popOf n l) role g (l.map Prod.snd)
      = (l.filter (fun ma => ma.1.group == g && roleOk role ma.1)).map Prod.snd := by
  simp [valuesOf, popOf, zip_unzip_self]

theorem popOf_ids {α} (n : Nat) (l : List (Member × α)) : (popOf n l).ids = l.map (·.1.group) := by
  simp [popOf, Pop.ids]

theorem popOf_hasRole {α} (n : Nat) (l : List (Member × α)) (r : Role) :
    (popOf n l).hasRole r = l.map (fun ma => r.holds ma.1) := by
  simp [popOf, Pop.hasRole]

theorem groupSum_popOf (n : Nat) (l : List (Member × Int)) (role : Option Role)
    (hg : ∀ ma ∈ l, ma.1.group < n) :
    groupSum (popOf n l) (l.map Prod.snd) role
      = .ok ((List.range n).map fun g => (valuesOf (popOf n l) role g (l.map Prod.snd)).sum) := by
  have hlen : ¬ (l.map Prod.snd).length ≠ (popOf n l).ms.length := by simp [popOf]
  unfold groupSum
  rw [if_neg hlen]
  cases role with
  | none =>
    simp only [valuesOf_popOf, popOf_ids]
    rw [bincountW_eq _ _ _ (by
      intro g hgm
      simp only [List.mem_map] at hgm
      obtain ⟨ma, hma, rfl⟩ := hgm
      exact hg ma hma)]
    simp [List.zip_map', List.filter_map, roleOk, Function.comp_def]
  | some r =>
    simp only [valuesOf_popOf, popOf_ids, popOf_hasRole, maskSel_map]
    rw [bincountW_eq _ _ _ (by
      intro g hgm
      simp only [List.mem_map, List.mem_filter] at hgm
      obtain ⟨ma, ⟨hma, _⟩, rfl⟩ := hgm
      exact hg ma hma)]
    simp [List.zip_map', List.filter_map, roleOk, Function.comp_def]

/-! ## member positions -/

theorem posLoop_length (cnt ids : List Nat) : (posLoop cnt ids).length = ids.length := by
  induction ids generalizing cnt with
  | nil => rfl
  | cons g gs ih => simp [posLoop, ih]

theorem posLoop_getD (cnt ids : List Nat) (h : ∀ g ∈ ids, g < cnt.length) (i : Nat)
    (hi : i < ids.length) :
    (posLoop cnt ids).getD i 0 = cnt.getD (ids.getD i 0) 0 + (ids.take i).count (ids.getD i 0) := by
  induction ids generalizing cnt i with
  | nil => simp at hi
  | cons g gs ih =>
    have hg : g < cnt.length := h g (by simp)
    cases i with
    | zero => simp [posLoop]
    | succ i =>
      have hi' : i < gs.length := by simpa using hi
      have := ih (cnt.set g (cnt.getD g 0 + 1)) (by
        intro x hx; rw [List.length_set]; exact h x (by simp [hx])) i hi'
      simp only [posLoop, List.getD_cons_succ, List.take_succ_cons, List.count_cons]
      rw [this, getD_set _ _ _ _ _ hg]
      generalize gs.getD i 0 = y
      by_cases hx : g = y
      · subst hx; simp; omega
      · have hb : (g == y) = false := by simp [hx]
        simp [hx, hb]

theorem le_foldl_max (l : List Nat) (init : Nat) :
    init ≤ l.foldl Nat.max init ∧ ∀ g ∈ l, g ≤ l.foldl Nat.max init := by
  induction l generalizing init with
  | nil => simp
  | cons x xs ih =>
    simp only [List.foldl_cons, List.mem_cons]
    have := ih (Nat.max init x)
    refine ⟨Nat.le_trans (Nat.le_max_left _ _) this.1, ?_⟩
    rintro g (rfl | hg)
    · exact Nat.le_trans (Nat.le_max_right _ _) this.1
    · exact this.2 g hg

theorem le_maxL (l : List Nat) (g : Nat) (h : g ∈ l) : g ≤ maxL l := (le_foldl_max l 0).2 g h

/-- closed form of a member's position: how many earlier persons are in the same group -/
def posOf (ids : List Nat) (i : Nat) : Nat := (ids.take i).count (ids.getD i 0)

theorem getD_replicate_zero (n y : Nat) : (List.replicate n 0).getD y 0 = 0 := by
  simp only [List.getD_eq_getElem?_getD, List.getElem?_replicate]
  split <;> rfl

theorem membersPosition_eq (ids : List Nat) (h : ids ≠ []) :
    membersPosition ids = .ok ((List.range ids.length).map (posOf ids)) := by
  unfold membersPosition
  have : ids.isEmpty = false := by cases ids <;> simp_all
  rw [this]
  simp only [Bool.false_eq_true, if_false]
  congr 1
  apply List.ext_getElem
  · simp [posLoop_length]
  · intro i h1 h2
    have hi : i < ids.length := by simpa [posLoop_length] using h1
    have := posLoop_getD (List.replicate (maxL ids + 1) 0) ids (by
      intro g hg; have := le_maxL ids g hg; simp; omega) i hi
    rw [List.getD_eq_getElem?_getD, List.getElem?_eq_getElem h1] at this
    simp only [Option.getD_some] at this
    rw [this, getD_replicate_zero]
    simp [posOf]

theorem membersPosition_empty : ∃ e, membersPosition [] = .error e := ⟨_, rfl⟩

/-- the persons (indices, increasing) of group `g` -/
def membersIdx (ids : List Nat) (g : Nat) : List Nat :=
  (List.range ids.length).filter (fun i => ids.getD i 0 == g)

theorem getD_append_left' {α} (l : List α) (a d : α) (i : Nat) (h : i < l.length) :
    (l ++ [a]).getD i d = l.getD i d := by
  simp [List.getD_eq_getElem?_getD, List.getElem?_append_left h]

theorem membersIdx_snoc (ids : List Nat) (x g : Nat) :
    membersIdx (ids ++ [x]) g = membersIdx ids g ++ (if x == g then [ids.length] else []) := by
  unfold membersIdx
  rw [List.length_append, List.length_singleton, List.range_succ, List.filter_append]
  congr 1
  · apply List.filter_congr
    intro i hi
    rw [getD_append_left' _ _ _ _ (List.mem_range.mp hi)]
  · have : (ids ++ [x]).getD ids.length 0 = x := by simp [List.getD_eq_getElem?_getD]
    simp [List.filter_cons]

theorem membersIdx_lt (ids : List Nat) (g i : Nat) (h : i ∈ membersIdx ids g) :
    i < ids.length ∧ ids.getD i 0 = g := by
  simp only [membersIdx, List.mem_filter, List.mem_range, beq_iff_eq] at h
  exact h

theorem mem_membersIdx (ids : List Nat) (g i : Nat) :
    i ∈ membersIdx ids g ↔ i < ids.length ∧ ids.getD i 0 = g := by
  simp [membersIdx]

theorem membersIdx_length (ids : List Nat) (g : Nat) : (membersIdx ids g).length = ids.count g := by
  have := congrArg List.length (range_filter_map_getD ids (fun x => x == g) 0)
  rw [List.length_map] at this
  rw [List.count_eq_length_filter]
  exact this

theorem posOf_snoc_lt (ids : List Nat) (x i : Nat) (h : i < ids.length) :
    posOf (ids ++ [x]) i = posOf ids i := by
  unfold posOf
  rw [getD_append_left' _ _ _ _ h, List.take_append_of_le_length (by omega)]

theorem posOf_snoc_last (ids : List Nat) (x : Nat) : posOf (ids ++ [x]) ids.length = ids.count x := by
  unfold posOf
  have : (ids ++ [x]).getD ids.length 0 = x := by simp [List.getD_eq_getElem?_getD]
  rw [this, List.take_append_length]

/-- within a group, the positions are 0, 1, 2, … in storage order -/
theorem membersIdx_map_posOf (ids : List Nat) (g : Nat) :
    (membersIdx ids g).map (posOf ids) = List.range (ids.count g) := by
  induction ids using snoc_induction with
  | nil => rfl
  | snoc ids x ih =>
    rw [membersIdx_snoc, List.map_append, List.count_append]
    have h1 : (membersIdx ids g).map (posOf (ids ++ [x])) = (membersIdx ids g).map (posOf ids) := by
      apply List.map_congr_left
      intro i hi
      exact posOf_snoc_lt ids x i (membersIdx_lt ids g i hi).1
    rw [h1, ih]
    by_cases hx : x = g
    · subst hx
      simp [posOf_snoc_last, List.range_succ]
    · have : (x == g) = false := by simp [hx]
      simp [this, hx]

/-! ## stable insertion sort: the unique `Before`-sorted permutation -/

/-- `i` comes strictly before `j` in the stable order of `le`: smaller key, or equal key and
smaller index -/
def Before (le : Nat → Nat → Bool) (i j : Nat) : Prop := le i j = true ∧ (le j i = true → i < j)

theorem mem_insertBy (le : Nat → Nat → Bool) (i : Nat) (l : List Nat) (x : Nat) :
    x ∈ insertBy le i l ↔ x = i ∨ x ∈ l := by
  induction l with
  | nil => simp [insertBy]
  | cons j l ih =>
    simp only [insertBy]
    split
    · simp
    · simp only [List.mem_cons, ih]
      constructor
      · rintro (h | h | h) <;> simp [h]
      · rintro (h | h | h) <;> simp [h]

theorem insertBy_perm (le : Nat → Nat → Bool) (i : Nat) (l : List Nat) :
    (insertBy le i l).Perm (i :: l) := by
  induction l with
  | nil => simp [insertBy]
  | cons j l ih =>
    simp only [insertBy]
    split
    · exact List.Perm.refl _
    · exact ((List.perm_cons j).mpr ih).trans (List.Perm.swap i j l)

theorem isort_perm (le : Nat → Nat → Bool) (l : List Nat) : (isort le l).Perm l := by
  induction l with
  | nil => exact List.Perm.refl _
  | cons i l ih => exact (insertBy_perm le i _).trans ((List.perm_cons i).mpr ih)

theorem insertBy_pairwise (le : Nat → Nat → Bool) (tot : ∀ a b, le a b = true ∨ le b a = true)
    (trans : ∀ a b c, le a b = true → le b c = true → le a c = true) (i : Nat) (l : List Nat)
    (hpw : l.Pairwise (Before le)) (hlt : ∀ j ∈ l, i < j) :
    (insertBy le i l).Pairwise (Before le) := by
  induction l with
  | nil => simp [insertBy]
  | cons j l ih =>
    rw [List.pairwise_cons] at hpw
    simp only [insertBy]
    split
    · rename_i hij
      rw [List.pairwise_cons]
      refine ⟨?_, List.pairwise_cons.mpr hpw⟩
      intro x hx
      rcases List.mem_cons.mp hx with rfl | hx
      · exact ⟨hij, fun _ => hlt _ (by simp)⟩
      · exact ⟨trans _ _ _ hij (hpw.1 x hx).1, fun _ => hlt x (by simp [hx])⟩
    · rename_i hij
      rw [List.pairwise_cons]
      refine ⟨?_, ih hpw.2 (fun x hx => hlt x (by simp [hx]))⟩
      intro x hx
      rcases (mem_insertBy le i l x).mp hx with rfl | hx
      · refine ⟨?_, fun h => absurd h hij⟩
        rcases tot x j with h | h
        · exact absurd h hij
        · exact h
      · exact hpw.1 x hx

theorem isort_pairwise (le : Nat → Nat → Bool) (tot : ∀ a b, le a b = true ∨ le b a = true)
    (trans : ∀ a b c, le a b = true → le b c = true → le a c = true) (l : List Nat)
    (hl : l.Pairwise (· < ·)) : (isort le l).Pairwise (Before le) := by
  induction l with
  | nil => simp [isort]
  | cons i l ih =>
    rw [List.pairwise_cons] at hl
    simp only [isort]
    apply insertBy_pairwise le tot trans i _ (ih hl.2)
    intro j hj
    exact hl.1 j ((isort_perm le l).mem_iff.mp hj)

theorem before_irrefl (le : Nat → Nat → Bool) (a : Nat) : ¬ Before le a a := by
  intro h; exact Nat.lt_irrefl a (h.2 h.1)

theorem before_asymm (le : Nat → Nat → Bool) (a b : Nat) (h1 : Before le a b) (h2 : Before le b a) :
    False := by
  have := h1.2 h2.1; have := h2.2 h1.1; omega

theorem sorted_unique (le : Nat → Nat → Bool) (l₁ l₂ : List Nat) (h1 : l₁.Pairwise (Before le))
    (h2 : l₂.Pairwise (Before le)) (hp : l₁.Perm l₂) : l₁ = l₂ :=
  List.Perm.eq_of_pairwise (le := Before le)
    (fun a b _ _ hab hba => (before_asymm le a b hab hba).elim) h1 h2 hp

theorem pairwise_before_nodup (le : Nat → Nat → Bool) (l : List Nat) (h : l.Pairwise (Before le)) :
    l.Nodup :=
  List.Pairwise.imp (fun {a b} hab (heq : a = b) => before_irrefl le a (by rw [← heq] at hab; exact hab)) h

/-- order by natural keys -/
def leN (v : List Nat) (i j : Nat) : Bool := decide (v.getD i 0 ≤ v.getD j 0)

theorem leN_tot (v : List Nat) (a b : Nat) : leN v a b = true ∨ leN v b a = true := by
  simp only [leN, decide_eq_true_eq]; omega

theorem leN_trans (v : List Nat) (a b c : Nat) (h1 : leN v a b = true) (h2 : leN v b c = true) :
    leN v a c = true := by
  simp only [leN, decide_eq_true_eq] at *; omega

theorem argsortN_perm (v : List Nat) : (argsortN v).Perm (List.range v.length) := isort_perm _ _

theorem argsortN_pairwise (v : List Nat) : (argsortN v).Pairwise (Before (leN v)) :=
  isort_pairwise (leN v) (leN_tot v) (leN_trans v) _ List.pairwise_lt_range

theorem argsortN_unique (v : List Nat) (l : List Nat) (hp : l.Perm (List.range v.length))
    (hs : l.Pairwise (Before (leN v))) : argsortN v = l :=
  sorted_unique (leN v) _ _ (argsortN_pairwise v) hs ((argsortN_perm v).trans hp.symm)

/-- order by extended-integer keys -/
def leE (v : List EInt) (i j : Nat) : Bool := (v.getD i .posInf).le (v.getD j .posInf)

theorem EInt.le_total (a b : EInt) : a.le b = true ∨ b.le a = true := by
  cases a <;> cases b <;> simp [EInt.le] <;> omega

theorem EInt.le_trans (a b c : EInt) (h1 : a.le b = true) (h2 : b.le c = true) : a.le c = true := by
  cases a <;> cases b <;> cases c <;> simp_all [EInt.le] <;> omega

theorem EInt.le_refl (a : EInt) : a.le a = true := by cases a <;> simp [EInt.le]

theorem EInt.le_antisymm (a b : EInt) (h1 : a.le b = true) (h2 : b.le a = true) : a = b := by
  cases a <;> cases b <;> simp_all [EInt.le] <;> omega

theorem argsortE_perm (v : List EInt) : (argsortE v).Perm (List.range v.length) := isort_perm _ _

theorem argsortE_pairwise (v : List EInt) : (argsortE v).Pairwise (Before (leE v)) :=
  isort_pairwise (leE v) (fun _ _ => EInt.le_total _ _) (fun _ _ _ => EInt.le_trans _ _ _) _
    List.pairwise_lt_range

/-! ## the ordered members map is the concatenation of the groups -/

theorem membersIdx_pairwise_lt (ids : List Nat) (g : Nat) : (membersIdx ids g).Pairwise (· < ·) :=
  List.Pairwise.filter _ List.pairwise_lt_range

theorem orderedMap_eq (ids : List Nat) (n : Nat) (h : ∀ g ∈ ids, g < n) :
    orderedMap ids = (List.range n).flatMap (membersIdx ids) := by
  apply argsortN_unique
  · -- same elements, no duplicate
    have hpw : ((List.range n).flatMap (membersIdx ids)).Pairwise (· ≠ ·) := by
      rw [List.pairwise_flatMap]
      refine ⟨fun g _ => List.Pairwise.imp (fun {a b} hab => Nat.ne_of_lt hab) (membersIdx_pairwise_lt ids g), ?_⟩
      refine List.Pairwise.imp ?_ (List.pairwise_lt_range (n := n))
      intro g1 g2 hlt x hx y hy hxy
      have h1 := (membersIdx_lt ids g1 x hx).2
      have h2 := (membersIdx_lt ids g2 y hy).2
      subst hxy; omega
    apply (List.perm_ext_iff_of_nodup hpw List.nodup_range).mpr
    intro i
    simp only [List.mem_flatMap, List.mem_range, mem_membersIdx]
    constructor
    · rintro ⟨g, _, hi, _⟩; exact hi
    · intro hi
      refine ⟨ids.getD i 0, h _ ?_, hi, rfl⟩
      simp [List.getD_eq_getElem?_getD, List.getElem?_eq_getElem hi]
  · rw [List.pairwise_flatMap]
    constructor
    · intro g _
      have hlt := membersIdx_pairwise_lt ids g
      have hmem : ∀ x ∈ membersIdx ids g, ids.getD x 0 = g := fun x hx => (membersIdx_lt ids g x hx).2
      -- equal keys, increasing indices
      revert hmem hlt
      generalize membersIdx ids g = l
      intro hlt hmem
      induction l with
      | nil => simp
      | cons a l ih =>
        rw [List.pairwise_cons] at hlt ⊢
        refine ⟨fun b hb => ?_, ih hlt.2 (fun x hx => hmem x (by simp [hx]))⟩
        have ha := hmem a (by simp)
        have hb' := hmem b (by simp [hb])
        exact ⟨by simp only [leN, decide_eq_true_eq]; omega, fun _ => hlt.1 b hb⟩
    · refine List.Pairwise.imp ?_ (List.pairwise_lt_range (n := n))
      intro g1 g2 hlt x hx y hy
      have h1 := (membersIdx_lt ids g1 x hx).2
      have h2 := (membersIdx_lt ids g2 y hy).2
      refine ⟨by simp only [leN, decide_eq_true_eq]; omega, fun hle => ?_⟩
      simp only [leN, decide_eq_true_eq] at hle; omega

/-! ## masked assignment of at most one value per group -/

theorem assignSeq_opts {γ α} (gs : List γ) (o : γ → Option α) (d : α) :
    assignSeq (List.replicate gs.length d) (gs.map fun g => (o g).isSome)
        (gs.flatMap fun g => (o g).toList) = gs.map (fun g => (o g).getD d)
    ∧ (gs.map fun g => (o g).isSome).count true = (gs.flatMap fun g => (o g).toList).length := by
  induction gs with
  | nil => simp [assignSeq]
  | cons g gs ih =>
    cases hg : o g with
    | none => simp [List.replicate_succ, assignSeq, hg, ih.1, ih.2]
    | some v => simp [List.replicate_succ, assignSeq, hg, ih.1, ih.2]

theorem maskedAssign_opts {γ α} (gs : List γ) (o : γ → Option α) (d : α) (mask : List Bool)
    (vals : List α) (hm : mask = gs.map fun g => (o g).isSome)
    (hv : vals = gs.flatMap fun g => (o g).toList) :
    maskedAssign (List.replicate gs.length d) mask vals = .ok (gs.map fun g => (o g).getD d) := by
  subst hm hv
  have h := assignSeq_opts gs o d
  unfold maskedAssign
  rw [if_neg (by simp), if_pos h.2, h.1]

/-! ## index form of `valuesOf` -/

theorem isSome_getElem?' {α} (l : List α) (k : Nat) : l[k]?.isSome = decide (k < l.length) := by
  by_cases h : k < l.length
  · simp [h]
  · simp [h]

theorem flatMap_congr' {γ β} (l : List γ) (f g : γ → List β) (h : ∀ x ∈ l, f x = g x) :
    l.flatMap f = l.flatMap g := by
  induction l with
  | nil => rfl
  | cons x xs ih =>
    simp only [List.flatMap_cons]
    rw [h x (by simp), ih (fun y hy => h y (by simp [hy]))]

theorem getD_map' {α β} (l : List α) (f : α → β) (i : Nat) (d : α) :
    (l.map f).getD i (f d) = f (l.getD i d) := by
  simp only [List.getD_eq_getElem?_getD, List.getElem?_map]
  cases l[i]? <;> rfl

theorem getD_zip {α β} (xs : List α) (ys : List β) (i : Nat) (dx : α) (dy : β)
    (h : ys.length = xs.length) (hi : i < xs.length) :
    (xs.zip ys).getD i (dx, dy) = (xs.getD i dx, ys.getD i dy) := by
  simp only [List.getD_eq_getElem?_getD]
  rw [List.getElem?_eq_getElem (by simp; omega), List.getElem?_eq_getElem hi,
    List.getElem?_eq_getElem (by omega)]
  simp [List.getElem_zip]

theorem valuesOf_eq_idx {α} (p : Pop) (a : List α) (d : α) (hlen : a.length = p.ms.length)
    (role : Option Role) (g : Nat) :
    valuesOf p role g a
      = ((membersIdx p.ids g).filter (fun i => roleOk role (p.ms.getD i default))).map
          (fun i => a.getD i d) := by
  have hN : (p.ms.zip a).length = p.ms.length := by simp; omega
  have hidl : p.ids.length = p.ms.length := by simp [Pop.ids]
  have key := range_filter_map_getD (p.ms.zip a)
    (fun ma => ma.1.group == g && roleOk role ma.1) (default, d)
  unfold valuesOf
  rw [← key, hN, List.map_map]
  unfold membersIdx
  rw [List.filter_filter, hidl]
  have hq : ∀ i ∈ List.range p.ms.length,
      ((fun ma : Member × α => ma.1.group == g && roleOk role ma.1) ((p.ms.zip a).getD i (default, d)))
      = (roleOk role (p.ms.getD i default) && (p.ids.getD i 0 == g)) := by
    intro i hi
    have hi' : i < p.ms.length := List.mem_range.mp hi
    rw [getD_zip _ _ _ _ _ hlen hi']
    have : p.ids.getD i 0 = (p.ms.getD i default).group := getD_map' p.ms (·.group) i default
    rw [this, Bool.and_comm]
  rw [List.filter_congr hq]
  apply List.map_congr_left
  intro i hi
  have hi' : i < p.ms.length := List.mem_range.mp (List.mem_filter.mp hi).1
  show ((p.ms.zip a).getD i (default, d)).2 = a.getD i d
  rw [getD_zip _ _ _ _ _ hlen hi']

theorem valuesOf_none_eq_idx {α} (p : Pop) (a : List α) (d : α) (hlen : a.length = p.ms.length)
    (g : Nat) : valuesOf p none g a = (membersIdx p.ids g).map (fun i => a.getD i d) := by
  rw [valuesOf_eq_idx p a d hlen none g]
  congr 1
  exact List.filter_eq_self.mpr (by simp [roleOk])

theorem valuesOf_length_none {α} (p : Pop) (a : List α) (hlen : a.length = p.ms.length) (g : Nat) :
    (valuesOf p none g a).length = p.ids.count g := by
  cases a with
  | nil =>
    have : p.ms = [] := List.eq_nil_of_length_eq_zero (by simpa using hlen.symm)
    simp [valuesOf, Pop.ids, this]
  | cons x xs => rw [valuesOf_none_eq_idx p _ x hlen g, List.length_map, membersIdx_length]

/-! ## unweighted bincount -/

theorem sum_ones_filter (ids : List Nat) (g : Nat) :
    (((ids.zip (ids.map fun _ => (1 : Int))).filter (fun iw => iw.1 == g)).map (·.2)).sum
      = (ids.count g : Int) := by
  induction ids with
  | nil => rfl
  | cons x xs ih =>
    simp only [List.map_cons, List.zip_cons_cons, List.filter_cons, List.count_cons]
    by_cases hx : x = g
    · subst hx; simp [ih]; omega
    · have : (x == g) = false := by simp [hx]
      simp [this, ih]

theorem bincount_eq (ids : List Nat) (n : Nat) (h : ∀ g ∈ ids, g < n) :
    bincount ids n = (List.range n).map (fun g => (ids.count g : Int)) := by
  unfold bincount
  rw [bincountW_eq _ _ _ h]
  apply List.map_congr_left
  intro g _
  exact sum_ones_filter ids g

/-! ## `value_nth_person` -/

theorem filter_eq_getElem? (l : List Nat) (f : Nat → Nat) (k : Nat)
    (h : l.map f = List.range l.length) : l.filter (fun i => f i == k) = l[k]?.toList := by
  induction l using snoc_induction with
  | nil => rfl
  | snoc l x ih =>
    rw [List.map_append, List.length_append, List.length_singleton, List.range_succ] at h
    have h' := List.append_inj h (by simp)
    have hfx : f x = l.length := by simpa using h'.2
    rw [List.filter_append, ih h'.1]
    by_cases hk : k < l.length
    · rw [List.getElem?_append_left hk]
      have : (f x == k) = false := by simp [hfx]; omega
      simp [this]
    · by_cases hk2 : k = l.length
      · subst hk2; simp [hfx]
      · have : (f x == k) = false := by simp [hfx]; omega
        rw [List.getElem?_eq_none (by omega), List.getElem?_eq_none (by simp; omega)]
        simp [this]

theorem ids_lt_of_ms (p : Pop) (hg : ∀ m ∈ p.ms, m.group < p.n) : ∀ g ∈ p.ids, g < p.n := by
  intro g hgm
  simp only [Pop.ids, List.mem_map] at hgm
  obtain ⟨m, hm, rfl⟩ := hgm
  exact hg m hm

theorem valueNth_eq {α} (p : Pop) (k : Nat) (a : List α) (d : α) (hlen : a.length = p.ms.length)
    (hne : p.ms ≠ []) (hg : ∀ m ∈ p.ms, m.group < p.n) :
    valueNth p k a d = .ok ((List.range p.n).map fun g => (valuesOf p none g a)[k]?.getD d) := by
  have hids := ids_lt_of_ms p hg
  have hidne : p.ids ≠ [] := by simpa [Pop.ids] using hne
  unfold valueNth valueNthWith
  rw [if_neg (by omega), membersPosition_eq _ hidne]
  simp only
  unfold valueNthCore
  rw [if_neg (by omega), if_neg (by simp [Pop.ids])]
  simp only
  rw [bincount_eq _ _ hids, orderedMap_eq _ _ hids]
  have key := maskedAssign_opts (List.range p.n) (fun g => (valuesOf p none g a)[k]?) d
    (((List.range p.n).map (fun g => (p.ids.count g : Int))).map fun c => decide ((k : Int) < c))
    (maskSel ((takeD ((List.range p.ids.length).map (posOf p.ids))
        ((List.range p.n).flatMap (membersIdx p.ids)) 0).map (· == k))
      (takeD a ((List.range p.n).flatMap (membersIdx p.ids)) d))
    (by
      rw [List.map_map]
      apply List.map_congr_left
      intro g _
      simp only [Function.comp, isSome_getElem?', valuesOf_length_none p a hlen g, Int.ofNat_lt])
    (by
      simp only [takeD, List.map_map]
      rw [maskSel_map, List.filter_flatMap, List.map_flatMap]
      apply flatMap_congr'
      intro g _
      have hpos : (membersIdx p.ids g).filter
          ((fun x => x == k) ∘ fun i => ((List.range p.ids.length).map (posOf p.ids)).getD i 0)
          = (membersIdx p.ids g).filter (fun i => posOf p.ids i == k) := by
        apply List.filter_congr
        intro i hi
        have hi' := (membersIdx_lt p.ids g i hi).1
        simp [List.getD_eq_getElem?_getD, hi']
      rw [hpos, filter_eq_getElem? _ _ k (by rw [membersIdx_map_posOf, membersIdx_length]),
        valuesOf_none_eq_idx p a d hlen g, List.getElem?_map]
      cases (membersIdx p.ids g)[k]? <;> rfl)
  rw [List.length_range] at key
  exact key

/-! ## (p, a) forms -/

theorem valuesOf_popOf_map {α β} (n : Nat) (l : List (Member × α)) (F : Member × α → β)
    (role : Option Role) (g : Nat) :
    valuesOf (popOf n l) role g (l.map F)
      = (l.filter (fun ma => ma.1.group == g && roleOk role ma.1)).map F := by
  simp [valuesOf, popOf, List.zip_map', List.filter_map, Function.comp_def]

theorem valuesOf_map {α β} (p : Pop) (role : Option Role) (g : Nat) (a : List α) (f : α → β) :
    valuesOf p role g (a.map f) = (valuesOf p role g a).map f := by
  simp [valuesOf, List.zip_map_right, List.filter_map, Function.comp_def]

theorem groupSum_eq (p : Pop) (a : List Int) (role : Option Role) (hlen : a.length = p.ms.length)
    (hg : ∀ m ∈ p.ms, m.group < p.n) :
    groupSum p a role = .ok ((List.range p.n).map fun g => (valuesOf p role g a).sum) := by
  have h := popOf_zip p a hlen
  have := groupSum_popOf p.n (p.ms.zip a) role (by
    intro ma hma
    exact hg ma.1 (List.of_mem_zip hma).1)
  rw [h.1, h.2] at this
  exact this

/-! ## `reduce` -/

theorem reduceUpTo_eq {α} (p : Pop) (f : List α) (op : α → α → α) (e : α)
    (hlen : f.length = p.ms.length) (hne : p.ms ≠ []) (hg : ∀ m ∈ p.ms, m.group < p.n)
    (hid : ∀ x, op x e = x) (m : Nat) :
    reduceUpTo p f op e m
      = .ok ((List.range p.n).map fun g => ((valuesOf p none g f).take m).foldl op e) := by
  induction m with
  | zero =>
    simp only [reduceUpTo, List.take_zero, List.foldl_nil]
    congr 1
    apply List.ext_getElem <;> simp
  | succ m ih =>
    simp only [reduceUpTo, ih, valueNth_eq p m f e hlen hne hg]
    congr 1
    rw [List.zipWith_map, List.zipWith_self]
    apply List.map_congr_left
    intro g _
    rw [List.take_add_one, List.foldl_append]
    cases (valuesOf p none g f)[m]? with
    | none => simp [hid]
    | some v => simp

theorem count_le_maxL_pos (ids : List Nat) (g : Nat) :
    ids.count g ≤ maxL ((List.range ids.length).map (posOf ids)) + 1 := by
  by_cases hc : ids.count g = 0
  · omega
  · have hL := membersIdx_length ids g
    have hk : ids.count g - 1 < (membersIdx ids g).length := by omega
    have h1 := congrArg (fun l => l[ids.count g - 1]?) (membersIdx_map_posOf ids g)
    simp only [List.getElem?_map, List.getElem?_eq_getElem hk, Option.map_some] at h1
    rw [List.getElem?_eq_getElem (by simp; omega)] at h1
    simp only [List.getElem_range, Option.some.injEq] at h1
    have hi := membersIdx_lt ids g _ (List.getElem_mem hk)
    have := le_maxL ((List.range ids.length).map (posOf ids)) (posOf ids (membersIdx ids g)[ids.count g - 1])
      (List.mem_map.mpr ⟨_, List.mem_range.mpr hi.1, rfl⟩)
    omega

theorem foldl_map_ite {ι α} (L : List ι) (q : ι → Bool) (f : ι → α) (op : α → α → α) (e : α)
    (hid : ∀ x, op x e = x) (init : α) :
    (L.map fun x => if q x then f x else e).foldl op init = ((L.filter q).map f).foldl op init := by
  induction L generalizing init with
  | nil => rfl
  | cons x xs ih =>
    simp only [List.map_cons, List.foldl_cons, List.filter_cons]
    cases hq : q x <;> simp [hid, ih]

theorem reduce_core {α} (n : Nat) (l : List (Member × α)) (op : α → α → α) (e : α)
    (role : Option Role) (hne : l ≠ []) (hg : ∀ ma ∈ l, ma.1.group < n) (hid : ∀ x, op x e = x) :
    reduceUpTo (popOf n l) (l.map (fun ma => if roleOk role ma.1 then ma.2 else e)) op e
        (maxL ((List.range (popOf n l).ids.length).map (posOf (popOf n l).ids)) + 1)
      = .ok ((List.range n).map fun g => (valuesOf (popOf n l) role g (l.map Prod.snd)).foldl op e) := by
  have hne' : (popOf n l).ms ≠ [] := by simpa [popOf] using hne
  have hg' : ∀ m ∈ (popOf n l).ms, m.group < (popOf n l).n := by
    intro m hm
    simp only [popOf, List.mem_map] at hm
    obtain ⟨ma, hma, rfl⟩ := hm
    exact hg ma hma
  rw [reduceUpTo_eq _ _ op e (by simp [popOf]) hne' hg' hid]
  congr 1
  apply List.map_congr_left
  intro g _
  have hlen2 : (l.map (fun ma => if roleOk role ma.1 then ma.2 else e)).length = (popOf n l).ms.length := by
    simp [popOf]
  rw [List.take_of_length_le (by
    rw [valuesOf_length_none _ _ hlen2 g]
    exact count_le_maxL_pos _ g)]
  rw [valuesOf_popOf_map, valuesOf_popOf, foldl_map_ite _ _ _ _ _ hid, List.filter_filter]
  congr 2
  apply List.filter_congr
  intro ma _
  simp [roleOk, Bool.and_comm]

theorem reduce_popOf {α} (n : Nat) (l : List (Member × α)) (op : α → α → α) (e : α)
    (role : Option Role) (hne : l ≠ []) (hg : ∀ ma ∈ l, ma.1.group < n) (hid : ∀ x, op x e = x) :
    reduce (popOf n l) (l.map Prod.snd) op e role
      = .ok ((List.range n).map fun g => (valuesOf (popOf n l) role g (l.map Prod.snd)).foldl op e) := by
  have hidne : (popOf n l).ids ≠ [] := by simpa [popOf, Pop.ids] using hne
  have core := reduce_core n l op e role hne hg hid
  unfold reduce
  rw [if_neg (by simp [popOf]), membersPosition_eq _ hidne]
  cases role with
  | none =>
    simp only
    simp only [roleOk, if_true] at core
    exact core
  | some r =>
    simp only [popOf_hasRole, whereL_map]
    exact core

theorem reduce_eq {α} (p : Pop) (a : List α) (op : α → α → α) (e : α) (role : Option Role)
    (hlen : a.length = p.ms.length) (hne : p.ms ≠ []) (hg : ∀ m ∈ p.ms, m.group < p.n)
    (hid : ∀ x, op x e = x) :
    reduce p a op e role = .ok ((List.range p.n).map fun g => (valuesOf p role g a).foldl op e) := by
  have h := popOf_zip p a hlen
  have := reduce_popOf p.n (p.ms.zip a) op e role (by
      intro hz
      have h0 : (p.ms.zip a).length = 0 := by rw [hz]; rfl
      have h1 : (p.ms.zip a).length = p.ms.length := by simp; omega
      exact hne (List.eq_nil_of_length_eq_zero (by omega)))
    (by intro ma hma; exact hg ma.1 (List.of_mem_zip hma).1) hid
  rw [h.1, h.2] at this
  exact this

/-! ## any / all / min / max -/

theorem sum_map_b2i (bs : List Bool) : (bs.map b2i).sum = ((bs.count true : Nat) : Int) := by
  induction bs with
  | nil => rfl
  | cons b bs ih => cases b <;> simp [b2i, ih] <;> omega

theorem count_true_pos (bs : List Bool) : decide ((0 : Int) < ((bs.count true : Nat) : Int)) = bs.any id := by
  induction bs with
  | nil => rfl
  | cons b bs ih =>
    cases b
    · simpa [List.count_cons] using ih
    · simp

theorem groupAny_eq (p : Pop) (b : List Bool) (role : Option Role) (hlen : b.length = p.ms.length)
    (hg : ∀ m ∈ p.ms, m.group < p.n) :
    groupAny p b role = .ok ((List.range p.n).map fun g => (valuesOf p role g b).any id) := by
  unfold groupAny groupAnyI
  rw [groupSum_eq p (b.map b2i) role (by simpa using hlen) hg]
  simp only [List.map_map]
  congr 1
  apply List.map_congr_left
  intro g _
  simp only [Function.comp, valuesOf_map, sum_map_b2i, count_true_pos]

theorem foldl_and (bs : List Bool) (init : Bool) :
    bs.foldl (fun x y => x && y) init = (init && bs.all id) := by
  induction bs generalizing init with
  | nil => simp
  | cons b bs ih => simp [ih, Bool.and_assoc]

theorem groupAll_eq (p : Pop) (b : List Bool) (role : Option Role) (hlen : b.length = p.ms.length)
    (hne : p.ms ≠ []) (hg : ∀ m ∈ p.ms, m.group < p.n) :
    groupAll p b role = .ok ((List.range p.n).map fun g => (valuesOf p role g b).all id) := by
  unfold groupAll
  rw [reduce_eq p b _ true role hlen hne hg (by simp)]
  congr 1
  apply List.map_congr_left
  intro g _
  rw [foldl_and]; simp

theorem EInt.min_posInf (x : EInt) : EInt.min x .posInf = x := by
  cases x <;> simp [EInt.min, EInt.le]

theorem EInt.max_negInf (x : EInt) : EInt.max x .negInf = x := by
  cases x <;> simp [EInt.max, EInt.le]

theorem groupMin_eq (p : Pop) (a : List Int) (role : Option Role) (hlen : a.length = p.ms.length)
    (hne : p.ms ≠ []) (hg : ∀ m ∈ p.ms, m.group < p.n) :
    groupMin p a role
      = .ok ((List.range p.n).map fun g => ((valuesOf p role g a).map EInt.fin).foldl EInt.min .posInf) := by
  unfold groupMin
  rw [reduce_eq p _ _ _ role (by simpa using hlen) hne hg EInt.min_posInf]
  simp only [valuesOf_map]

theorem groupMax_eq (p : Pop) (a : List Int) (role : Option Role) (hlen : a.length = p.ms.length)
    (hne : p.ms ≠ []) (hg : ∀ m ∈ p.ms, m.group < p.n) :
    groupMax p a role
      = .ok ((List.range p.n).map fun g => ((valuesOf p role g a).map EInt.fin).foldl EInt.max .negInf) := by
  unfold groupMax
  rw [reduce_eq p _ _ _ role (by simpa using hlen) hne hg EInt.max_negInf]
  simp only [valuesOf_map]

theorem foldl_min_fin (l : List Int) (m0 : Int) :
    ∃ m, (l.map EInt.fin).foldl EInt.min (.fin m0) = .fin m ∧ m ∈ m0 :: l ∧ ∀ x ∈ m0 :: l, m ≤ x := by
  induction l generalizing m0 with
  | nil => exact ⟨m0, rfl, by simp, by simp⟩
  | cons y ys ih =>
    simp only [List.map_cons, List.foldl_cons]
    by_cases h : m0 ≤ y
    · have : EInt.min (.fin m0) (.fin y) = .fin m0 := by simp [EInt.min, EInt.le, h]
      rw [this]
      obtain ⟨m, h1, h2, h3⟩ := ih m0
      refine ⟨m, h1, ?_, ?_⟩
      · rcases List.mem_cons.mp h2 with rfl | h2 <;> simp [*]
      · intro x hx
        rcases List.mem_cons.mp hx with rfl | hx
        · exact h3 _ (by simp)
        · rcases List.mem_cons.mp hx with rfl | hx
          · exact Int.le_trans (h3 m0 (by simp)) h
          · exact h3 x (by simp [hx])
    · have : EInt.min (.fin m0) (.fin y) = .fin y := by simp [EInt.min, EInt.le, h]
      rw [this]
      obtain ⟨m, h1, h2, h3⟩ := ih y
      refine ⟨m, h1, ?_, ?_⟩
      · rcases List.mem_cons.mp h2 with rfl | h2 <;> simp [*]
      · intro x hx
        rcases List.mem_cons.mp hx with rfl | hx
        · have := h3 y (by simp); omega
        · exact h3 x hx

theorem foldl_max_fin (l : List Int) (m0 : Int) :
    ∃ m, (l.map EInt.fin).foldl EInt.max (.fin m0) = .fin m ∧ m ∈ m0 :: l ∧ ∀ x ∈ m0 :: l, x ≤ m := by
  induction l generalizing m0 with
  | nil => exact ⟨m0, rfl, by simp, by simp⟩
  | cons y ys ih =>
    simp only [List.map_cons, List.foldl_cons]
    by_cases h : m0 ≤ y
    · have : EInt.max (.fin m0) (.fin y) = .fin y := by simp [EInt.max, EInt.le, h]
      rw [this]
      obtain ⟨m, h1, h2, h3⟩ := ih y
      refine ⟨m, h1, ?_, ?_⟩
      · rcases List.mem_cons.mp h2 with rfl | h2 <;> simp [*]
      · intro x hx
        rcases List.mem_cons.mp hx with rfl | hx
        · have := h3 y (by simp); omega
        · exact h3 x hx
    · have : EInt.max (.fin m0) (.fin y) = .fin m0 := by simp [EInt.max, EInt.le, h]
      rw [this]
      obtain ⟨m, h1, h2, h3⟩ := ih m0
      refine ⟨m, h1, ?_, ?_⟩
      · rcases List.mem_cons.mp h2 with rfl | h2 <;> simp [*]
      · intro x hx
        rcases List.mem_cons.mp hx with rfl | hx
        · exact h3 _ (by simp)
        · rcases List.mem_cons.mp hx with rfl | hx
          · have := h3 m0 (by simp); omega
          · exact h3 x (by simp [hx])

/-- the fold that `min` computes is the least element (`+inf` for no element) -/
theorem foldl_min_spec (l : List Int) :
    (l = [] → (l.map EInt.fin).foldl EInt.min .posInf = .posInf) ∧
    (l ≠ [] → ∃ m ∈ l, (l.map EInt.fin).foldl EInt.min .posInf = .fin m ∧ ∀ x ∈ l, m ≤ x) := by
  constructor
  · rintro rfl; rfl
  · intro h
    cases l with
    | nil => exact absurd rfl h
    | cons y ys =>
      obtain ⟨m, h1, h2, h3⟩ := foldl_min_fin ys y
      exact ⟨m, h2, by simpa [EInt.min, EInt.le] using h1, h3⟩

theorem foldl_max_spec (l : List Int) :
    (l = [] → (l.map EInt.fin).foldl EInt.max .negInf = .negInf) ∧
    (l ≠ [] → ∃ m ∈ l, (l.map EInt.fin).foldl EInt.max .negInf = .fin m ∧ ∀ x ∈ l, x ≤ m) := by
  constructor
  · rintro rfl; rfl
  · intro h
    cases l with
    | nil => exact absurd rfl h
    | cons y ys =>
      obtain ⟨m, h1, h2, h3⟩ := foldl_max_fin ys y
      exact ⟨m, h2, by simpa [EInt.max, EInt.le] using h1, h3⟩

/-! ## `project` -/

theorem project_eq {α} (p : Pop) (x : List α) (zero : α) (role : Option Role)
    (hx : x.length = p.n) (hg : ∀ m ∈ p.ms, m.group < p.n) :
    project p x zero role
      = .ok (p.ms.map fun m => if roleOk role m then x.getD m.group zero else zero) := by
  unfold project
  have hany : (p.ids.any fun g => decide (x.length ≤ g)) = false := by
    rw [List.any_eq_false]
    intro g hgm
    have := ids_lt_of_ms p hg g hgm
    simp; omega
  rw [if_neg (by omega), hany]
  simp only [Bool.false_eq_true, if_false]
  cases role with
  | none => simp [takeD, Pop.ids, roleOk]
  | some r =>
    simp only [takeD, Pop.ids, Pop.hasRole, List.map_map, roleOk]
    rw [whereL_map]
    rfl

/-! ## `value_from_person` -/

theorem list_eq_head?_toList {α} (l : List α) (h : l.length ≤ 1) : l = l.head?.toList := by
  match l, h with
  | [], _ => rfl
  | [x], _ => rfl
  | _ :: _ :: _, h => simp at h

theorem any_map_eq_head? {ι α} (L : List ι) (q : ι → Bool) (f : ι → α) :
    (L.map q).any id = ((L.filter q).map f).head?.isSome := by
  induction L with
  | nil => rfl
  | cons x xs ih =>
    simp only [List.map_cons, List.any_cons, List.filter_cons, id]
    cases hq : q x <;> simp [ih]

theorem hasRole_getD (p : Pop) (r : Role) (i : Nat) (hi : i < p.ms.length) :
    (p.hasRole r).getD i false = r.holds (p.ms.getD i default) := by
  simp [Pop.hasRole, List.getD_eq_getElem?_getD, List.getElem?_eq_getElem hi]

theorem valuesOf_some_eq_idx {α} (p : Pop) (a : List α) (d : α) (hlen : a.length = p.ms.length)
    (r : Role) (g : Nat) :
    valuesOf p (some r) g a
      = ((membersIdx p.ids g).filter (fun i => (p.hasRole r).getD i false)).map (fun i => a.getD i d) := by
  rw [valuesOf_eq_idx p a d hlen (some r) g]
  congr 1
  apply List.filter_congr
  intro i hi
  have hi' := (membersIdx_lt p.ids g i hi).1
  rw [hasRole_getD p r i (by simpa [Pop.ids] using hi')]
  rfl

theorem valueFromPerson_eq {α} (p : Pop) (a : List α) (r : Role) (d : α) (hmax : r.max = some 1)
    (hlen : a.length = p.ms.length) (hg : ∀ m ∈ p.ms, m.group < p.n)
    (hu : ∀ g, g < p.n → (valuesOf p (some r) g a).length ≤ 1) :
    valueFromPerson p a r d
      = .ok ((List.range p.n).map fun g => (valuesOf p (some r) g a).head?.getD d) := by
  have hids := ids_lt_of_ms p hg
  unfold valueFromPerson valueFromPersonWith
  rw [if_neg (by simp [hmax]), if_neg (by omega)]
  rw [groupAny_eq p (p.hasRole r) none (by simp [Pop.hasRole]) hg]
  simp only
  rw [orderedMap_eq _ _ hids]
  have key := maskedAssign_opts (List.range p.n) (fun g => (valuesOf p (some r) g a).head?) d
    ((List.range p.n).map fun g => (valuesOf p none g (p.hasRole r)).any id)
    (maskSel (takeD (p.hasRole r) ((List.range p.n).flatMap (membersIdx p.ids)) false)
      (takeD a ((List.range p.n).flatMap (membersIdx p.ids)) d))
    (by
      apply List.map_congr_left
      intro g _
      rw [valuesOf_none_eq_idx p (p.hasRole r) false (by simp [Pop.hasRole]) g,
        valuesOf_some_eq_idx p a d hlen r g]
      exact any_map_eq_head? _ _ _)
    (by
      simp only [takeD]
      rw [maskSel_map, List.filter_flatMap, List.map_flatMap]
      apply flatMap_congr'
      intro g hgm
      rw [← valuesOf_some_eq_idx p a d hlen r g]
      exact list_eq_head?_toList _ (hu g (List.mem_range.mp hgm)))
  rw [List.length_range] at key
  exact key

/-! ## double argsort = index in the sorted order -/

theorem map_idxOf_self (s : List Nat) (h : s.Nodup) : s.map (fun c => s.idxOf c) = List.range s.length := by
  apply List.ext_getElem
  · simp
  · intro i h1 h2
    simp only [List.getElem_map, List.getElem_range]
    exact h.idxOf_getElem i (by simpa using h1)

theorem getD_idxOf (s : List Nat) (c : Nat) (h : c ∈ s) : s.getD (s.idxOf c) 0 = c := by
  have hlt : s.idxOf c < s.length := List.idxOf_lt_length_iff.mpr h
  rw [List.getD_eq_getElem?_getD, List.getElem?_eq_getElem hlt]
  simp [List.getElem_idxOf hlt]

/-- for a permutation `s` of `0..m-1`, `argsort s` is the inverse permutation -/
theorem argsortN_inverse (s : List Nat) (hp : s.Perm (List.range s.length)) :
    argsortN s = (List.range s.length).map (fun c => s.idxOf c) := by
  have hnd : s.Nodup := hp.nodup_iff.mpr List.nodup_range
  apply argsortN_unique
  · have h1 : ((List.range s.length).map (fun c => s.idxOf c)).Perm (s.map (fun c => s.idxOf c)) :=
      hp.symm.map _
    rw [map_idxOf_self s hnd] at h1
    exact h1
  · rw [List.pairwise_map]
    refine List.Pairwise.imp_of_mem ?_ (List.pairwise_lt_range (n := s.length))
    intro a b ha hb hab
    have ha' : a ∈ s := hp.mem_iff.mpr ha
    have hb' : b ∈ s := hp.mem_iff.mpr hb
    refine ⟨?_, ?_⟩
    · simp only [leN, getD_idxOf s a ha', getD_idxOf s b hb', decide_eq_true_eq]; omega
    · intro hle
      simp only [leN, getD_idxOf s a ha', getD_idxOf s b hb', decide_eq_true_eq] at hle
      omega

theorem double_argsort' (s : List Nat) (hp : s.Perm (List.range s.length)) (c : Nat)
    (hc : c < s.length) : (argsortN s).getD c 0 = s.idxOf c := by
  rw [argsortN_inverse _ hp]
  simp [List.getD_eq_getElem?_getD, hc]

theorem double_argsort (v : List EInt) (c : Nat) (hc : c < v.length) :
    (argsortN (argsortE v)).getD c 0 = (argsortE v).idxOf c := by
  have hp := argsortE_perm v
  have hl : (argsortE v).length = v.length := by simpa using hp.length_eq
  exact double_argsort' _ (by rw [hl]; exact hp) c (by omega)

/-! ## generic facts on sorted lists and indices -/

theorem sorted_split {R : Nat → Nat → Prop} (q : Nat → Bool) (s : List Nat) (hs : s.Pairwise R)
    (hq : ∀ a b, q a = false → q b = true → ¬ R a b) :
    s = s.filter q ++ s.filter (fun c => !q c) := by
  induction s with
  | nil => rfl
  | cons a s ih =>
    rw [List.pairwise_cons] at hs
    cases ha : q a
    · have hnone : ∀ b ∈ s, q b = false := by
        intro b hb
        cases hqb : q b
        · rfl
        · exact absurd (hs.1 b hb) (hq a b ha hqb)
      have h1 : s.filter q = [] := List.filter_eq_nil_iff.mpr (by
        intro b hb; simp [hnone b hb])
      have h2 : s.filter (fun c => !q c) = s := List.filter_eq_self.mpr (by
        intro b hb; simp [hnone b hb])
      simp [ha, h1, h2]
    · simp only [List.filter_cons, ha, Bool.not_true, if_true, Bool.false_eq_true, if_false,
        List.cons_append]
      rw [← ih hs.2]

theorem idxOf_lt_of_pairwise {R : Nat → Nat → Prop} (s : List Nat) (hs : s.Pairwise R) (a b : Nat)
    (ha : a ∈ s) (hb : b ∈ s) (hne : a ≠ b) (hnr : ¬ R b a) : s.idxOf a < s.idxOf b := by
  have hia : s.idxOf a < s.length := List.idxOf_lt_length_iff.mpr ha
  have hib : s.idxOf b < s.length := List.idxOf_lt_length_iff.mpr hb
  rcases Nat.lt_trichotomy (s.idxOf a) (s.idxOf b) with h | h | h
  · exact h
  · exfalso
    have h1 := List.getElem_idxOf hia
    have h2 := List.getElem_idxOf hib
    simp only [h] at h1
    exact hne (h1.symm.trans h2)
  · exfalso
    have := List.pairwise_iff_getElem.mp hs _ _ hib hia h
    rw [List.getElem_idxOf hib, List.getElem_idxOf hia] at this
    exact hnr this

theorem map_idxOf_perm (F sfin : List Nat) (hnd : sfin.Nodup) (hp : F.Perm sfin) :
    (F.map fun c => sfin.idxOf c).Perm (List.range F.length) := by
  have h1 := hp.map (fun c => sfin.idxOf c)
  rw [map_idxOf_self sfin hnd, ← hp.length_eq] at h1
  exact h1

/-! ## `get_rank`: closed form -/

def filteredCrit (crit : List Int) (cond : List Bool) : List EInt :=
  whereL cond (crit.map .fin) .posInf

theorem filteredCrit_length (crit : List Int) (cond : List Bool) (h : cond.length = crit.length) :
    (filteredCrit crit cond).length = crit.length := by
  simp [filteredCrit, whereL, h]

theorem filteredCrit_getD (crit : List Int) (cond : List Bool) (h : cond.length = crit.length)
    (i : Nat) (hi : i < crit.length) :
    (filteredCrit crit cond).getD i .posInf
      = if cond.getD i false then .fin (crit.getD i 0) else .posInf := by
  have h1 : i < cond.length := by omega
  simp [filteredCrit, whereL, List.getD_eq_getElem?_getD, List.getElem?_zipWith,
    List.getElem?_eq_getElem h1, List.getElem?_eq_getElem hi]

/-- row `g` of the position matrix, `B` columns -/
def rowOf (p : Pop) (f : List EInt) (B g : Nat) : List EInt :=
  (List.range B).map (fun k => (valuesOf p none g f)[k]?.getD .posInf)

theorem rankCols_eq (p : Pop) (f : List EInt) (hlen : f.length = p.ms.length) (hne : p.ms ≠ [])
    (hg : ∀ m ∈ p.ms, m.group < p.n) (m : Nat) :
    rankCols p f m = .ok ((List.range m).map fun k =>
      (List.range p.n).map fun g => (valuesOf p none g f)[k]?.getD .posInf) := by
  induction m with
  | zero => rfl
  | succ m ih =>
    simp only [rankCols, ih, valueNth_eq p m f .posInf hlen hne hg, List.range_succ, List.map_append,
      List.map_cons, List.map_nil]

theorem rankRow_eq (p : Pop) (f : List EInt) (m g : Nat) (hg : g < p.n) :
    rankRow ((List.range m).map fun k =>
      (List.range p.n).map fun g => (valuesOf p none g f)[k]?.getD .posInf) g = rowOf p f m g := by
  simp only [rankRow, rowOf, List.map_map]
  apply List.map_congr_left
  intro k _
  simp [List.getD_eq_getElem?_getD, hg]

theorem list_eq_range_map_getD {α} (l : List α) (d : α) :
    l = (List.range l.length).map (fun i => l.getD i d) := by
  apply List.ext_getElem
  · simp
  · intro i h1 h2
    simp [List.getD_eq_getElem?_getD, List.getElem?_eq_getElem h1]

/-- number of columns of the position matrix -/
def biggest (p : Pop) : Nat := maxL ((List.range p.ids.length).map (posOf p.ids)) + 1

theorem posOf_lt_biggest (p : Pop) (i : Nat) (hi : i < p.ids.length) : posOf p.ids i < biggest p := by
  have := le_maxL ((List.range p.ids.length).map (posOf p.ids)) (posOf p.ids i)
    (List.mem_map.mpr ⟨i, List.mem_range.mpr hi, rfl⟩)
  unfold biggest; omega

/-- rank of person `i`: index of its column in the sorted row of its group -/
def rankOfWith (sort1 : List EInt → List Nat) (p : Pop) (f : List EInt) (i : Nat) : Nat :=
  (sort1 (rowOf p f (biggest p) (p.ids.getD i 0))).idxOf (posOf p.ids i)

def rankOf (p : Pop) (f : List EInt) (i : Nat) : Nat := rankOfWith argsortE p f i

theorem getRankWith_eq (sort1 : List EInt → List Nat)
    (hsort : ∀ row, (sort1 row).Perm (List.range row.length))
    (p : Pop) (crit : List Int) (cond : List Bool) (hc : crit.length = p.ms.length)
    (hb : cond.length = p.ms.length) (hne : p.ms ≠ []) (hg : ∀ m ∈ p.ms, m.group < p.n) :
    getRankWith sort1 p crit cond = .ok ((List.range p.ms.length).map fun i =>
      if cond.getD i false then (rankOfWith sort1 p (filteredCrit crit cond) i : Int) else -1) := by
  have hids := ids_lt_of_ms p hg
  have hidne : p.ids ≠ [] := by simpa [Pop.ids] using hne
  have hidl : p.ids.length = p.ms.length := by simp [Pop.ids]
  have hfl : (filteredCrit crit cond).length = p.ms.length := by
    rw [filteredCrit_length _ _ (by omega)]; exact hc
  unfold getRankWith
  rw [membersPosition_eq _ hidne]
  simp only
  rw [if_neg (by omega)]
  have hcols := rankCols_eq p (filteredCrit crit cond) hfl hne hg (biggest p)
  unfold filteredCrit biggest at hcols
  rw [hcols]
  simp only
  congr 1
  -- everything as a map over the person indices
  have hzip : p.ids.zip ((List.range p.ids.length).map (posOf p.ids))
      = (List.range p.ids.length).map (fun i => (p.ids.getD i 0, posOf p.ids i)) := by
    conv => lhs; lhs; rw [list_eq_range_map_getD p.ids 0]
    rw [List.zip_map']
  have hcond : cond = (List.range p.ids.length).map (fun i => cond.getD i false) := by
    have := list_eq_range_map_getD cond false
    rw [hb, ← hidl] at this
    exact this
  rw [hzip, List.map_map, List.map_map]
  conv => lhs; arg 1; rw [hcond]
  rw [whereL_map, ← hidl]
  apply List.map_congr_left
  intro i hi
  have hi' : i < p.ids.length := List.mem_range.mp hi
  have hgi : p.ids.getD i 0 < p.n := hids _ (by
    simp [List.getD_eq_getElem?_getD, List.getElem?_eq_getElem hi'])
  cases hci : cond.getD i false
  · simp
  · simp only [if_true, Function.comp]
    congr 1
    have h1 : ((List.range p.n).map fun g => argsortN (sort1 (rankRow
        ((List.range (maxL ((List.range p.ids.length).map (posOf p.ids)) + 1)).map fun k =>
          (List.range p.n).map fun g =>
            (valuesOf p none g (whereL cond (crit.map EInt.fin) EInt.posInf))[k]?.getD EInt.posInf) g))).getD
          (p.ids.getD i 0) []
        = argsortN (sort1 (rowOf p (filteredCrit crit cond) (biggest p) (p.ids.getD i 0))) := by
      rw [List.getD_eq_getElem?_getD, List.getElem?_map, List.getElem?_range hgi]
      simp only [Option.map_some, Option.getD_some]
      rw [rankRow_eq p _ _ _ hgi]
      rfl
    have hsp := hsort (rowOf p (filteredCrit crit cond) (biggest p) (p.ids.getD i 0))
    have hsl : (sort1 (rowOf p (filteredCrit crit cond) (biggest p) (p.ids.getD i 0))).length = biggest p := by
      simpa [rowOf] using hsp.length_eq
    rw [h1, double_argsort' _ (by rw [hsl]; simpa [rowOf] using hsp) _
      (by rw [hsl]; exact posOf_lt_biggest p i hi')]
    rfl

theorem getRank_eq (p : Pop) (crit : List Int) (cond : List Bool) (hc : crit.length = p.ms.length)
    (hb : cond.length = p.ms.length) (hne : p.ms ≠ []) (hg : ∀ m ∈ p.ms, m.group < p.n) :
    getRank p crit cond = .ok ((List.range p.ms.length).map fun i =>
      if cond.getD i false then (rankOf p (filteredCrit crit cond) i : Int) else -1) :=
  getRankWith_eq argsortE argsortE_perm p crit cond hc hb hne hg

/-! ## `get_rank`: permutation and monotonicity -/

theorem membersIdx_getElem_posOf (ids : List Nat) (g i : Nat) (hi : i ∈ membersIdx ids g) :
    (membersIdx ids g)[posOf ids i]? = some i := by
  obtain ⟨t, ht, hti⟩ := List.getElem_of_mem hi
  have h1 := congrArg (fun l => l[t]?) (membersIdx_map_posOf ids g)
  simp only [List.getElem?_map, List.getElem?_eq_getElem ht, Option.map_some] at h1
  rw [List.getElem?_range (by rw [← membersIdx_length]; exact ht)] at h1
  simp only [Option.some.injEq] at h1
  rw [← hti, h1, List.getElem?_eq_getElem ht]

theorem rowOf_length (p : Pop) (f : List EInt) (B g : Nat) : (rowOf p f B g).length = B := by
  simp [rowOf]

theorem rowOf_getD (p : Pop) (f : List EInt) (hlen : f.length = p.ms.length) (B g c : Nat) :
    (rowOf p f B g).getD c .posInf
      = if c < B then ((membersIdx p.ids g)[c]?.map (fun i => f.getD i .posInf)).getD .posInf
        else .posInf := by
  unfold rowOf
  by_cases hc : c < B
  · rw [if_pos hc, List.getD_eq_getElem?_getD, List.getElem?_map, List.getElem?_range hc]
    simp only [Option.map_some, Option.getD_some]
    rw [valuesOf_none_eq_idx p f .posInf hlen g, List.getElem?_map]
  · rw [if_neg hc, List.getD_eq_getElem?_getD, List.getElem?_eq_none (by simp; omega)]
    rfl

/-- the entry of a person in the row of its group is its (filtered) criterion -/
theorem rowOf_at_member (p : Pop) (f : List EInt) (hlen : f.length = p.ms.length) (g i : Nat)
    (hi : i ∈ membersIdx p.ids g) :
    (rowOf p f (biggest p) g).getD (posOf p.ids i) .posInf = f.getD i .posInf := by
  rw [rowOf_getD p f hlen, if_pos (posOf_lt_biggest p i (membersIdx_lt _ _ _ hi).1),
    membersIdx_getElem_posOf _ _ _ hi]
  rfl

theorem EInt.posInf_le (y : EInt) (h : EInt.le .posInf y = true) : y = .posInf := by
  cases y <;> simp_all [EInt.le]

section rank
variable (p : Pop) (crit : List Int) (cond : List Bool) (hc : crit.length = p.ms.length)
  (hb : cond.length = p.ms.length)

include hc hb in
theorem filtered_at (i : Nat) (hi : i < p.ids.length) :
    (filteredCrit crit cond).getD i .posInf
      = if cond.getD i false then .fin (crit.getD i 0) else .posInf := by
  have hidl : p.ids.length = p.ms.length := by simp [Pop.ids]
  exact filteredCrit_getD crit cond (by omega) i (by omega)

include hc hb in
/-- within a group, the ranks of the persons satisfying the condition are a permutation of
`0 .. k-1` -/
theorem rank_perm (g : Nat) :
    (((membersIdx p.ids g).filter (fun i => cond.getD i false)).map
        (rankOf p (filteredCrit crit cond))).Perm
      (List.range ((membersIdx p.ids g).filter (fun i => cond.getD i false)).length) := by
  have hidl : p.ids.length = p.ms.length := by simp [Pop.ids]
  have hfl : (filteredCrit crit cond).length = p.ms.length := by
    rw [filteredCrit_length _ _ (by omega)]; exact hc
  generalize hf : filteredCrit crit cond = f at *
  generalize hM : membersIdx p.ids g = M
  let row := rowOf p f (biggest p) g
  let s := argsortE row
  let isFin : Nat → Bool := fun c => row.getD c .posInf != .posInf
  let F := (M.filter (fun i => cond.getD i false)).map (posOf p.ids)
  have hsperm : s.Perm (List.range (biggest p)) := by
    have := argsortE_perm row
    rwa [rowOf_length] at this
  have hspw : s.Pairwise (Before (leE row)) := argsortE_pairwise row
  have hsnd : s.Nodup := hsperm.nodup_iff.mpr List.nodup_range
  -- the finite entries are exactly the columns of the persons satisfying the condition
  have hFnd : F.Nodup := by
    have hsub : F.Sublist (M.map (posOf p.ids)) := List.Sublist.map _ List.filter_sublist
    rw [← hM, membersIdx_map_posOf] at hsub
    exact List.Nodup.sublist hsub List.nodup_range
  have hmem : ∀ c, c ∈ s.filter isFin ↔ c ∈ F := by
    intro c
    simp only [List.mem_filter, hsperm.mem_iff, List.mem_range, F, List.mem_map]
    constructor
    · rintro ⟨hcB, hfin⟩
      have hrow := rowOf_getD p f hfl (biggest p) g c
      rw [if_pos hcB, hM] at hrow
      cases hMc : M[c]? with
      | none =>
        simp only [isFin, row, hrow, hMc, Option.map_none, Option.getD_none] at hfin
        simp at hfin
      | some i =>
        have hiM : i ∈ M := List.mem_of_getElem? hMc
        have hiM' : i ∈ membersIdx p.ids g := hM ▸ hiM
        have hilt := (membersIdx_lt _ _ _ hiM').1
        simp only [isFin, row, hrow, hMc, Option.map_some, Option.getD_some] at hfin
        rw [← hf, filtered_at p crit cond hc hb i hilt] at hfin
        have hci : cond.getD i false = true := by
          cases h : cond.getD i false
          · rw [h] at hfin; simp at hfin
          · rfl
        refine ⟨i, ⟨hiM, hci⟩, ?_⟩
        have := membersIdx_getElem_posOf _ _ _ hiM'
        rw [hM] at this
        -- both c and posOf i index i in the duplicate-free list M
        have hnd : M.Nodup := by
          rw [← hM]; exact List.Pairwise.imp (fun {a b} h => Nat.ne_of_lt h) (membersIdx_pairwise_lt _ _)
        have h1 : posOf p.ids i < M.length := (List.getElem?_eq_some_iff.mp this).1
        have h2 : c < M.length := (List.getElem?_eq_some_iff.mp hMc).1
        have e1 : M[posOf p.ids i] = i := (List.getElem?_eq_some_iff.mp this).2
        have e2 : M[c] = i := (List.getElem?_eq_some_iff.mp hMc).2
        exact (List.getElem_inj hnd).mp (e1.trans e2.symm)
    · rintro ⟨i, ⟨hiM, hci⟩, rfl⟩
      have hiM' : i ∈ membersIdx p.ids g := hM ▸ hiM
      have hilt := (membersIdx_lt _ _ _ hiM').1
      refine ⟨posOf_lt_biggest p i hilt, ?_⟩
      simp only [isFin, row]
      rw [rowOf_at_member p f hfl g i hiM', ← hf, filtered_at p crit cond hc hb i hilt, hci]
      simp
  have hperm : F.Perm (s.filter isFin) :=
    (List.perm_ext_iff_of_nodup hFnd (List.Nodup.sublist List.filter_sublist hsnd)).mpr
      (fun c => (hmem c).symm)
  have hsplit : s = s.filter isFin ++ s.filter (fun c => !isFin c) := by
    apply sorted_split isFin s hspw
    intro a b ha hb' hab
    have h1 : row.getD a .posInf = .posInf := by simpa [isFin] using ha
    have h2 := hab.1
    simp only [leE, h1] at h2
    have := EInt.posInf_le _ h2
    simp only [isFin] at hb'
    rw [this] at hb'
    simp at hb'
  have hidx : ∀ c ∈ F, s.idxOf c = (s.filter isFin).idxOf c := by
    intro c hcF
    have : s.idxOf c = (s.filter isFin ++ s.filter (fun c => !isFin c)).idxOf c := by rw [← hsplit]
    rw [this, List.idxOf_append, if_pos ((hmem c).mpr hcF)]
  have hmap : (M.filter (fun i => cond.getD i false)).map (rankOf p f)
      = F.map (fun c => (s.filter isFin).idxOf c) := by
    simp only [F, List.map_map]
    apply List.map_congr_left
    intro i hi
    have hiM : i ∈ M := (List.mem_filter.mp hi).1
    have hiM' : i ∈ membersIdx p.ids g := hM ▸ hiM
    have hgi := (membersIdx_lt _ _ _ hiM').2
    simp only [Function.comp]
    rw [← hidx (posOf p.ids i) (List.mem_map.mpr ⟨i, hi, rfl⟩)]
    simp only [rankOf, rankOfWith, hgi, s, row]
  rw [hmap]
  have := map_idxOf_perm F (s.filter isFin) (List.Nodup.sublist List.filter_sublist hsnd) hperm
  simpa [F] using this

include hc hb in
/-- the ranks follow the criterion -/
theorem rank_mono (i j : Nat) (hi : i < p.ms.length) (hj : j < p.ms.length)
    (hgrp : p.ids.getD i 0 = p.ids.getD j 0) (hci : cond.getD i false = true)
    (hcj : cond.getD j false = true) (hlt : crit.getD i 0 < crit.getD j 0) :
    rankOf p (filteredCrit crit cond) i < rankOf p (filteredCrit crit cond) j := by
  have hidl : p.ids.length = p.ms.length := by simp [Pop.ids]
  have hfl : (filteredCrit crit cond).length = p.ms.length := by
    rw [filteredCrit_length _ _ (by omega)]; exact hc
  have hiM : i ∈ membersIdx p.ids (p.ids.getD j 0) := (mem_membersIdx _ _ _).mpr ⟨by omega, hgrp⟩
  have hjM : j ∈ membersIdx p.ids (p.ids.getD j 0) := (mem_membersIdx _ _ _).mpr ⟨by omega, rfl⟩
  have ri := rowOf_at_member p _ hfl _ i hiM
  have rj := rowOf_at_member p _ hfl _ j hjM
  rw [filtered_at p crit cond hc hb i (by omega), hci] at ri
  rw [filtered_at p crit cond hc hb j (by omega), hcj] at rj
  simp only [if_true] at ri rj
  unfold rankOf rankOfWith
  rw [hgrp]
  generalize hrow : rowOf p (filteredCrit crit cond) (biggest p) (p.ids.getD j 0) = row at *
  have hsperm := argsortE_perm row
  have hrl : row.length = biggest p := by rw [← hrow, rowOf_length]
  apply idxOf_lt_of_pairwise _ (argsortE_pairwise row)
  · exact hsperm.mem_iff.mpr (List.mem_range.mpr (by rw [hrl]; exact posOf_lt_biggest p i (by omega)))
  · exact hsperm.mem_iff.mpr (List.mem_range.mpr (by rw [hrl]; exact posOf_lt_biggest p j (by omega)))
  · intro heq
    rw [heq, rj] at ri
    simp only [EInt.fin.injEq] at ri
    omega
  · intro hbef
    have := hbef.1
    simp only [leE, ri, rj, EInt.le, decide_eq_true_eq] at this
    omega

end rank

/-! ## projector chains -/

theorem bubbleUp_append {α} (p : World) (z : α) (ps qs : List Proj) (x : List α) :
    bubbleUp p z (ps ++ qs) x
      = match bubbleUp p z ps x with
        | .error e => .error e
        | .ok y => bubbleUp p z qs y := by
  induction ps generalizing x with
  | nil => rfl
  | cons pr ps ih =>
    simp only [List.cons_append, bubbleUp]
    cases transform p z pr x with
    | error e => rfl
    | ok y => exact ih y

theorem valuesOf_ms_map {β} (p : Pop) (role : Option Role) (g : Nat) (F : Member → β) :
    valuesOf p role g (p.ms.map F)
      = (p.ms.filter (fun m => m.group == g && roleOk role m)).map F := by
  have : p.ms.zip (p.ms.map F) = p.ms.map (fun m => (m, F m)) := by
    have := List.zip_map' (f := id) (g := F) (l := p.ms)
    simpa using this
  simp [valuesOf, this, List.filter_map, Function.comp_def]

theorem transform_toPerson {α} (w : World) (e : Nat) (p : Pop) (hp : w.pop e = p) (z : α) (x : List α)
    (hx : x.length = p.n) (hg : ∀ m ∈ p.ms, m.group < p.n) :
    transform w z (.toPerson e) x = .ok (p.ms.map fun m => x.getD m.group z) := by
  subst hp
  simp only [transform, project_eq (w.pop e) x z none hx hg, roleOk, if_true]

theorem transform_firstPerson {α} (w : World) (e : Nat) (p : Pop) (hp : w.pop e = p) (z : α) (y : List α)
    (hy : y.length = p.ms.length) (hne : p.ms ≠ []) (hg : ∀ m ∈ p.ms, m.group < p.n) :
    transform w z (.firstPerson e) y = .ok ((List.range p.n).map fun g => (valuesOf p none g y)[0]?.getD z) := by
  subst hp
  simp only [transform, valueFromFirst, valueNth_eq (w.pop e) 0 y z hy hne hg]

theorem transform_uniqueRole {α} (w : World) (e : Nat) (p : Pop) (hp : w.pop e = p) (z : α) (r : Role)
    (y : List α) (hmax : r.max = some 1)
    (hy : y.length = p.ms.length) (hg : ∀ m ∈ p.ms, m.group < p.n)
    (hu : ∀ g, g < p.n → (valuesOf p (some r) g y).length ≤ 1) :
    transform w z (.uniqueRole e r) y
      = .ok ((List.range p.n).map fun g => (valuesOf p (some r) g y).head?.getD z) := by
  subst hp
  simp only [transform, valueFromPerson_eq (w.pop e) y r z hmax hy hg hu]

/-- value read back on the group from one of its members after a broadcast: the group's own
value when such a member exists, the default otherwise -/
theorem head?_broadcast {α} (p : Pop) (role : Option Role) (g : Nat) (x : List α) (z : α) :
    (valuesOf p role g (p.ms.map fun m => x.getD m.group z)).head?.getD z
      = if (p.ms.any fun m => m.group == g && roleOk role m) then x.getD g z else z := by
  rw [valuesOf_ms_map]
  cases hf : p.ms.filter (fun m => m.group == g && roleOk role m) with
  | nil =>
    have : (p.ms.any fun m => m.group == g && roleOk role m) = false := by
      rw [List.any_eq_false]
      intro m hm hq
      have : m ∈ p.ms.filter (fun m => m.group == g && roleOk role m) := List.mem_filter.mpr ⟨hm, hq⟩
      rw [hf] at this; simp at this
    simp [this]
  | cons m ms' =>
    have hm : m ∈ p.ms.filter (fun m => m.group == g && roleOk role m) := by rw [hf]; simp
    have hm' := List.mem_filter.mp hm
    have : (p.ms.any fun m => m.group == g && roleOk role m) = true :=
      List.any_eq_true.mpr ⟨m, hm'.1, hm'.2⟩
    have hgm : m.group = g := by
      have := hm'.2; simp only [Bool.and_eq_true, beq_iff_eq] at this; exact this.1
    simp [this, hgm]

/-! ## any permutation sorting the persons by group gives the same results -/

theorem orderedMap_sorts (ids : List Nat) : SortsByGroup ids (orderedMap ids) := by
  refine ⟨argsortN_perm ids, ?_⟩
  refine List.Pairwise.imp ?_ (argsortN_pairwise ids)
  intro a b hab
  have := hab.1
  simpa [leN] using this

theorem filter_sorted_unique (ids l₁ l₂ : List Nat) (h1 : SortsByGroup ids l₁)
    (h2 : SortsByGroup ids l₂) (P : Nat → Bool)
    (hP : ∀ i j, i < ids.length → j < ids.length → P i = true → P j = true →
      ids.getD i 0 = ids.getD j 0 → i = j) :
    l₁.filter P = l₂.filter P := by
  apply List.Perm.eq_of_pairwise (le := fun i j => ids.getD i 0 ≤ ids.getD j 0)
  · intro a b ha hb hab hba
    have ha' := List.mem_filter.mp ha
    have hb' := List.mem_filter.mp hb
    exact hP a b (List.mem_range.mp (h1.1.mem_iff.mp ha'.1)) (List.mem_range.mp (h2.1.mem_iff.mp hb'.1))
      ha'.2 hb'.2 (Nat.le_antisymm hab hba)
  · exact List.Pairwise.filter _ h1.2
  · exact List.Pairwise.filter _ h2.2
  · exact (h1.1.trans h2.1.symm).filter P

theorem posOf_inj_in_group (ids : List Nat) (i j : Nat) (hi : i < ids.length) (hj : j < ids.length)
    (hp : posOf ids i = posOf ids j) (hgrp : ids.getD i 0 = ids.getD j 0) : i = j := by
  have hiM : i ∈ membersIdx ids (ids.getD j 0) := (mem_membersIdx _ _ _).mpr ⟨hi, hgrp⟩
  have hjM : j ∈ membersIdx ids (ids.getD j 0) := (mem_membersIdx _ _ _).mpr ⟨hj, rfl⟩
  have e1 := membersIdx_getElem_posOf _ _ _ hiM
  have e2 := membersIdx_getElem_posOf _ _ _ hjM
  rw [hp, e2] at e1
  exact (Option.some.inj e1).symm

theorem valueNthWith_eq {α} (p : Pop) (mp : List Nat) (hmp : SortsByGroup p.ids mp) (k : Nat)
    (a : List α) (d : α) : valueNthWith p mp k a d = valueNth p k a d := by
  unfold valueNth valueNthWith
  by_cases hlen : a.length ≠ p.ms.length
  · rw [if_pos hlen, if_pos hlen]
  · rw [if_neg hlen, if_neg hlen]
    by_cases hidne : p.ids = []
    · rw [hidne]; rfl
    · rw [membersPosition_eq _ hidne]
      simp only
      unfold valueNthCore
      rw [if_neg hlen, if_neg hlen, if_neg (by simp [Pop.ids]), if_neg (by simp [Pop.ids])]
      simp only
      have hv : ∀ mp : List Nat,
          maskSel ((takeD ((List.range p.ids.length).map (posOf p.ids)) mp 0).map (· == k)) (takeD a mp d)
          = (mp.filter (fun i => ((List.range p.ids.length).map (posOf p.ids)).getD i 0 == k)).map
              (fun i => a.getD i d) := by
        intro mp
        simp only [takeD, List.map_map]
        rw [maskSel_map]
        rfl
      rw [hv mp, hv (orderedMap p.ids)]
      rw [filter_sorted_unique p.ids mp (orderedMap p.ids) hmp (orderedMap_sorts p.ids)]
      intro i j hi hj hpi hpj hgrp
      have hpos : ∀ t, t < p.ids.length →
          ((List.range p.ids.length).map (posOf p.ids)).getD t 0 = posOf p.ids t := by
        intro t ht
        rw [List.getD_eq_getElem?_getD, List.getElem?_map, List.getElem?_range ht]; rfl
      rw [hpos i hi] at hpi
      rw [hpos j hj] at hpj
      exact posOf_inj_in_group p.ids i j hi hj
        ((beq_iff_eq.mp hpi).trans (beq_iff_eq.mp hpj).symm) hgrp

theorem valueFromPersonWith_eq {α} (p : Pop) (mp : List Nat) (hmp : SortsByGroup p.ids mp)
    (a : List α) (r : Role) (d : α) (hlen : a.length = p.ms.length)
    (hu : ∀ g, g < p.n → (valuesOf p (some r) g a).length ≤ 1)
    (hg : ∀ m ∈ p.ms, m.group < p.n) :
    valueFromPersonWith p mp a r d = valueFromPerson p a r d := by
  unfold valueFromPerson valueFromPersonWith
  by_cases hmax : r.max ≠ some 1
  · rw [if_pos hmax, if_pos hmax]
  · rw [if_neg hmax, if_neg hmax, if_neg (by omega), if_neg (by omega)]
    cases groupAny p (p.hasRole r) none with
    | error e => rfl
    | ok ef =>
      simp only
      have hv : ∀ mp : List Nat,
          maskSel (takeD (p.hasRole r) mp false) (takeD a mp d)
          = (mp.filter (fun i => (p.hasRole r).getD i false)).map (fun i => a.getD i d) := by
        intro mp
        simp only [takeD]
        rw [maskSel_map]
      rw [hv mp, hv (orderedMap p.ids)]
      rw [filter_sorted_unique p.ids mp (orderedMap p.ids) hmp (orderedMap_sorts p.ids)]
      intro i j hi hj hpi hpj hgrp
      -- both hold the role in the same group, which has at most one holder
      have hgj : p.ids.getD j 0 < p.n := ids_lt_of_ms p hg _ (by
        simp [List.getD_eq_getElem?_getD, List.getElem?_eq_getElem hj])
      have hlen1 := hu _ hgj
      cases a with
      | nil =>
        have : p.ids.length = 0 := by simp [Pop.ids] at hlen ⊢; exact List.eq_nil_of_length_eq_zero hlen.symm
        omega
      | cons x xs =>
        rw [valuesOf_some_eq_idx p _ x hlen r, List.length_map] at hlen1
        have hiM : i ∈ (membersIdx p.ids (p.ids.getD j 0)).filter (fun i => (p.hasRole r).getD i false) :=
          List.mem_filter.mpr ⟨(mem_membersIdx _ _ _).mpr ⟨hi, hgrp⟩, hpi⟩
        have hjM : j ∈ (membersIdx p.ids (p.ids.getD j 0)).filter (fun i => (p.hasRole r).getD i false) :=
          List.mem_filter.mpr ⟨(mem_membersIdx _ _ _).mpr ⟨hj, rfl⟩, hpj⟩
        generalize (membersIdx p.ids (p.ids.getD j 0)).filter (fun i => (p.hasRole r).getD i false) = L at *
        match L, hlen1, hiM, hjM with
        | [y], _, hiM, hjM =>
          rw [List.mem_singleton] at hiM hjM
          rw [hiM, hjM]

/-! ## `value_from_person` when the role is held twice in a group: refused -/

theorem count_le_sum {γ} (L : List γ) (c : γ → Nat) :
    (L.map fun g => decide (0 < c g)).count true ≤ (L.map c).sum := by
  induction L with
  | nil => simp
  | cons x xs ih =>
    simp only [List.map_cons, List.count_cons, List.sum_cons]
    by_cases h : 0 < c x
    · simp [h]; omega
    · simp [h]; omega

theorem le_sum_of_mem {γ} (L : List γ) (c : γ → Nat) (g0 : γ) (h : g0 ∈ L) : c g0 ≤ (L.map c).sum := by
  induction L with
  | nil => simp at h
  | cons x xs ih =>
    simp only [List.map_cons, List.sum_cons]
    rcases List.mem_cons.mp h with rfl | h
    · omega
    · have := ih h; omega

theorem count_lt_sum {γ} (L : List γ) (c : γ → Nat) (g0 : γ) (h : g0 ∈ L) (h2 : 2 ≤ c g0) :
    (L.map fun g => decide (0 < c g)).count true < (L.map c).sum := by
  induction L with
  | nil => simp at h
  | cons x xs ih =>
    simp only [List.map_cons, List.count_cons, List.sum_cons]
    rcases List.mem_cons.mp h with rfl | h
    · have := count_le_sum xs c
      have h0 : 0 < c g0 := by omega
      simp [h0]; omega
    · have := ih h
      by_cases h0 : 0 < c x
      · simp [h0]; omega
      · simp [h0]; omega

theorem head?_isSome_eq {α} (l : List α) : l.head?.isSome = decide (0 < l.length) := by
  cases l <;> simp

theorem valueFromPerson_nonunique {α} (p : Pop) (a : List α) (r : Role) (d : α)
    (hlen : a.length = p.ms.length) (hg : ∀ m ∈ p.ms, m.group < p.n) (g0 : Nat) (hg0 : g0 < p.n)
    (h2 : 2 ≤ (valuesOf p (some r) g0 a).length) :
    ∃ e, valueFromPerson p a r d = .error e := by
  have hids := ids_lt_of_ms p hg
  unfold valueFromPerson valueFromPersonWith
  by_cases hmax : r.max ≠ some 1
  · rw [if_pos hmax]; exact ⟨_, rfl⟩
  rw [if_neg hmax, if_neg (by omega)]
  rw [groupAny_eq p (p.hasRole r) none (by simp [Pop.hasRole]) hg]
  simp only
  rw [orderedMap_eq _ _ hids]
  have hmask : ((List.range p.n).map fun g => (valuesOf p none g (p.hasRole r)).any id)
      = (List.range p.n).map fun g => decide (0 < (valuesOf p (some r) g a).length) := by
    apply List.map_congr_left
    intro g _
    rw [valuesOf_none_eq_idx p (p.hasRole r) false (by simp [Pop.hasRole]) g,
      valuesOf_some_eq_idx p a d hlen r g, any_map_eq_head? _ _ (fun i => a.getD i d),
      head?_isSome_eq]
  have hvals : maskSel (takeD (p.hasRole r) ((List.range p.n).flatMap (membersIdx p.ids)) false)
      (takeD a ((List.range p.n).flatMap (membersIdx p.ids)) d)
      = (List.range p.n).flatMap (fun g => valuesOf p (some r) g a) := by
    simp only [takeD]
    rw [maskSel_map, List.filter_flatMap, List.map_flatMap]
    apply flatMap_congr'
    intro g _
    rw [← valuesOf_some_eq_idx p a d hlen r g]
  rw [hmask, hvals]
  have hmem : g0 ∈ List.range p.n := List.mem_range.mpr hg0
  have hlt := count_lt_sum (List.range p.n) (fun g => (valuesOf p (some r) g a).length) g0 hmem h2
  have hge := le_sum_of_mem (List.range p.n) (fun g => (valuesOf p (some r) g a).length) g0 hmem
  have hvl : ((List.range p.n).flatMap fun g => valuesOf p (some r) g a).length
      = ((List.range p.n).map fun g => (valuesOf p (some r) g a).length).sum := List.length_flatMap
  unfold maskedAssign
  rw [if_neg (by simp), if_neg (by rw [hvl]; omega)]
  generalize (List.range p.n).flatMap (fun g => valuesOf p (some r) g a) = vals at hvl
  match vals, hvl with
  | [], _ => exact ⟨_, rfl⟩
  | [v], hvl => simp at hvl; omega
  | _ :: _ :: _, _ => exact ⟨_, rfl⟩

/-! ## `get_rank`: the order among tied entries does not matter for distinct criteria -/

section ties
variable (p : Pop) (crit : List Int) (cond : List Bool) (hc : crit.length = p.ms.length)
  (hb : cond.length = p.ms.length)

include hc hb in
/-- a finite entry of a row is the criterion of a member of the group satisfying the condition -/
theorem finite_col (g c : Nat) (hcB : c < biggest p)
    (hfin : (rowOf p (filteredCrit crit cond) (biggest p) g).getD c .posInf ≠ .posInf) :
    ∃ i ∈ membersIdx p.ids g, cond.getD i false = true ∧ posOf p.ids i = c ∧
      (rowOf p (filteredCrit crit cond) (biggest p) g).getD c .posInf = .fin (crit.getD i 0) := by
  have hidl : p.ids.length = p.ms.length := by simp [Pop.ids]
  have hfl : (filteredCrit crit cond).length = p.ms.length := by
    rw [filteredCrit_length _ _ (by omega)]; exact hc
  have hrow := rowOf_getD p (filteredCrit crit cond) hfl (biggest p) g c
  rw [if_pos hcB] at hrow
  cases hMc : (membersIdx p.ids g)[c]? with
  | none =>
    rw [hrow, hMc] at hfin
    exact absurd rfl hfin
  | some i =>
    have hiM : i ∈ membersIdx p.ids g := List.mem_of_getElem? hMc
    have hilt := (membersIdx_lt _ _ _ hiM).1
    rw [hMc] at hrow
    simp only [Option.map_some, Option.getD_some] at hrow
    rw [filtered_at p crit cond hc hb i hilt] at hrow
    have hci : cond.getD i false = true := by
      cases h : cond.getD i false
      · rw [hrow, h] at hfin; exact absurd rfl hfin
      · rfl
    rw [hci] at hrow
    refine ⟨i, hiM, hci, ?_, hrow⟩
    have e := membersIdx_getElem_posOf _ _ _ hiM
    have hnd : (membersIdx p.ids g).Nodup :=
      List.Pairwise.imp (fun {a b} h => Nat.ne_of_lt h) (membersIdx_pairwise_lt _ _)
    have h1 := (List.getElem?_eq_some_iff.mp e).1
    have h2 := (List.getElem?_eq_some_iff.mp hMc).1
    have e1 := (List.getElem?_eq_some_iff.mp e).2
    have e2 := (List.getElem?_eq_some_iff.mp hMc).2
    exact (List.getElem_inj hnd).mp (e1.trans e2.symm)

include hc hb in
theorem rankOfWith_eq (sort1 : List EInt → List Nat) (hsort : ∀ row, SortsRow row (sort1 row))
    (hdist : ∀ i j, i < p.ms.length → j < p.ms.length → p.ids.getD i 0 = p.ids.getD j 0 →
      cond.getD i false = true → cond.getD j false = true → crit.getD i 0 = crit.getD j 0 → i = j)
    (i : Nat) (hi : i < p.ms.length) (hci : cond.getD i false = true) :
    rankOfWith sort1 p (filteredCrit crit cond) i = rankOf p (filteredCrit crit cond) i := by
  have hidl : p.ids.length = p.ms.length := by simp [Pop.ids]
  have hfl : (filteredCrit crit cond).length = p.ms.length := by
    rw [filteredCrit_length _ _ (by omega)]; exact hc
  unfold rankOf rankOfWith
  generalize hgdef : p.ids.getD i 0 = g
  have hiM : i ∈ membersIdx p.ids g := (mem_membersIdx _ _ _).mpr ⟨by omega, hgdef⟩
  have hrowi := rowOf_at_member p _ hfl g i hiM
  rw [filtered_at p crit cond hc hb i (by omega), hci] at hrowi
  simp only [if_true] at hrowi
  have hcB := posOf_lt_biggest p i (by omega : i < p.ids.length)
  have hfc := finite_col p crit cond hc hb g
  generalize hrow : rowOf p (filteredCrit crit cond) (biggest p) g = row at *
  have hrl : row.length = biggest p := by rw [← hrow, rowOf_length]
  generalize posOf p.ids i = c at *
  let isFin : Nat → Bool := fun c => row.getD c .posInf != .posInf
  have hcfin : isFin c = true := by
    show (row.getD c .posInf != .posInf) = true
    rw [hrowi]; simp
  -- finite entries are pairwise distinct
  have hinj : ∀ a b, a < biggest p → b < biggest p → isFin a = true → isFin b = true →
      row.getD a .posInf = row.getD b .posInf → a = b := by
    intro a b ha hb' hfa hfb hab
    obtain ⟨ia, hia, hca, hpa, hra⟩ := hfc a ha (by simpa [isFin] using hfa)
    obtain ⟨ib, hib, hcb, hpb, hrb⟩ := hfc b hb' (by simpa [isFin] using hfb)
    rw [hra, hrb] at hab
    have hia' := membersIdx_lt _ _ _ hia
    have hib' := membersIdx_lt _ _ _ hib
    have : ia = ib := hdist ia ib (by omega) (by omega) (hia'.2.trans hib'.2.symm) hca hcb
      (by simpa using hab)
    rw [← hpa, ← hpb, this]
  have split : ∀ s : List Nat, SortsRow row s → s.idxOf c = (s.filter isFin).idxOf c := by
    intro s hs
    have hsplit : s = s.filter isFin ++ s.filter (fun c => !isFin c) := by
      apply sorted_split isFin s hs.2
      intro a b ha hb' hab
      have h1 : row.getD a .posInf = .posInf := by simpa [isFin] using ha
      rw [h1] at hab
      have := EInt.posInf_le _ hab
      simp only [isFin] at hb'
      rw [this] at hb'
      simp at hb'
    have hmem : c ∈ s.filter isFin :=
      List.mem_filter.mpr ⟨hs.1.mem_iff.mpr (List.mem_range.mpr (by omega)), hcfin⟩
    have : s.idxOf c = (s.filter isFin ++ s.filter (fun c => !isFin c)).idxOf c := by rw [← hsplit]
    rw [this, List.idxOf_append, if_pos hmem]
  have hs1 := hsort row
  have hs2 : SortsRow row (argsortE row) := by
    refine ⟨argsortE_perm row, List.Pairwise.imp ?_ (argsortE_pairwise row)⟩
    intro a b hab
    exact hab.1
  rw [split _ hs1, split _ hs2]
  congr 1
  apply List.Perm.eq_of_pairwise
    (le := fun a b => (row.getD a .posInf).le (row.getD b .posInf) = true)
  · intro a b ha hb' hab hba
    have ha' := List.mem_filter.mp ha
    have hb'' := List.mem_filter.mp hb'
    exact hinj a b (by have := List.mem_range.mp (hs1.1.mem_iff.mp ha'.1); omega)
      (by have := List.mem_range.mp (hs2.1.mem_iff.mp hb''.1); omega) ha'.2 hb''.2
      (EInt.le_antisymm _ _ hab hba)
  · exact List.Pairwise.filter _ hs1.2
  · exact List.Pairwise.filter _ hs2.2
  · exact (hs1.1.trans hs2.1.symm).filter _

include hc hb in
theorem getRankWith_eq_getRank (sort1 : List EInt → List Nat)
    (hsort : ∀ row, SortsRow row (sort1 row)) (hne : p.ms ≠ []) (hg : ∀ m ∈ p.ms, m.group < p.n)
    (hdist : ∀ i j, i < p.ms.length → j < p.ms.length → p.ids.getD i 0 = p.ids.getD j 0 →
      cond.getD i false = true → cond.getD j false = true → crit.getD i 0 = crit.getD j 0 → i = j) :
    getRankWith sort1 p crit cond = getRank p crit cond := by
  rw [getRankWith_eq sort1 (fun row => (hsort row).1) p crit cond hc hb hne hg,
    getRank_eq p crit cond hc hb hne hg]
  congr 1
  apply List.map_congr_left
  intro i hi
  cases hci : cond.getD i false
  · rfl
  · simp only [if_true]
    rw [rankOfWith_eq p crit cond hc hb sort1 hsort hdist i (List.mem_range.mp hi) hci]

end ties

theorem argsortE_sortsRow (row : List EInt) : SortsRow row (argsortE row) :=
  ⟨argsortE_perm row, List.Pairwise.imp (fun {_ _} hab => hab.1) (argsortE_pairwise row)⟩

/-! ## assigned member positions -/

theorem membersOf_eq (p : Pop) (g : Nat) : membersOf p g = membersIdx p.ids g := by
  unfold membersOf membersIdx
  have hidl : p.ids.length = p.ms.length := by simp [Pop.ids]
  rw [hidl]
  apply List.filter_congr
  intro i _
  have : p.ids.getD i 0 = (p.ms.getD i default).group := getD_map' p.ms (·.group) i default
  rw [this]

theorem filter_eq_find? (M : List Nat) (q : Nat → Bool) (hnd : M.Nodup)
    (h : ∀ x ∈ M, ∀ y ∈ M, q x = true → q y = true → x = y) : M.filter q = (M.find? q).toList := by
  induction M with
  | nil => rfl
  | cons x xs ih =>
    rw [List.nodup_cons] at hnd
    by_cases hq : q x = true
    · have hnil : xs.filter q = [] := by
        rw [List.filter_eq_nil_iff]
        intro y hy hqy
        have := h x (by simp) y (by simp [hy]) hq hqy
        exact hnd.1 (this ▸ hy)
      simp [hq, hnil]
    · have hq' : q x = false := by simpa using hq
      rw [List.filter_cons, if_neg hq, List.find?_cons, hq']
      exact ih hnd.2 (fun a ha b hb => h a (by simp [ha]) b (by simp [hb]))

theorem nodup_map_inj (M : List Nat) (f : Nat → Nat) (h : (M.map f).Nodup) (x y : Nat) (hx : x ∈ M)
    (hy : y ∈ M) (hf : f x = f y) : x = y := by
  induction M with
  | nil => simp at hx
  | cons a l ih =>
    rw [List.map_cons, List.nodup_cons] at h
    rcases List.mem_cons.mp hx with rfl | hx' <;> rcases List.mem_cons.mp hy with rfl | hy'
    · rfl
    · exact absurd (List.mem_map.mpr ⟨y, hy', hf.symm⟩) h.1
    · exact absurd (List.mem_map.mpr ⟨x, hx', hf⟩) h.1
    · exact ih h.2 hx' hy'

theorem valueNthCore_assigned {α} (p : Pop) (pos mp : List Nat) (hv : ValidPositions p pos)
    (hmp : SortsByGroup p.ids mp) (k : Nat) (a : List α) (d : α) (hlen : a.length = p.ms.length)
    (hg : ∀ m ∈ p.ms, m.group < p.n) :
    valueNthCore p pos mp k a d = .ok ((List.range p.n).map fun g =>
      (((membersOf p g).find? fun i => pos.getD i 0 == k).map fun i => a.getD i d).getD d) := by
  have hids := ids_lt_of_ms p hg
  have hidl : p.ids.length = p.ms.length := by simp [Pop.ids]
  have hperm : ∀ g, ((membersIdx p.ids g).map fun i => pos.getD i 0).Perm
      (List.range (membersIdx p.ids g).length) := by
    intro g; have := hv.2 g; rwa [membersOf_eq] at this
  have hndM : ∀ g, (membersIdx p.ids g).Nodup := fun g =>
    List.Pairwise.imp (fun {a b} h => Nat.ne_of_lt h) (membersIdx_pairwise_lt _ _)
  have hinj : ∀ g, ∀ x ∈ membersIdx p.ids g, ∀ y ∈ membersIdx p.ids g,
      pos.getD x 0 = pos.getD y 0 → x = y := by
    intro g x hx y hy hxy
    exact nodup_map_inj _ (fun i => pos.getD i 0) ((hperm g).nodup_iff.mpr List.nodup_range) x y hx hy hxy
  unfold valueNthCore
  rw [if_neg (by omega), if_neg (by have := hv.1; omega)]
  simp only
  rw [bincount_eq _ _ hids]
  have hvals : ∀ mp : List Nat,
      maskSel ((takeD pos mp 0).map (· == k)) (takeD a mp d)
      = (mp.filter (fun i => pos.getD i 0 == k)).map (fun i => a.getD i d) := by
    intro mp
    simp only [takeD, List.map_map]
    rw [maskSel_map]
    rfl
  rw [hvals mp, filter_sorted_unique p.ids mp (orderedMap p.ids) hmp (orderedMap_sorts p.ids) _ (by
    intro i j hi hj hpi hpj hgrp
    exact hinj (p.ids.getD j 0) i ((mem_membersIdx _ _ _).mpr ⟨hi, hgrp⟩) j
      ((mem_membersIdx _ _ _).mpr ⟨hj, rfl⟩) ((beq_iff_eq.mp hpi).trans (beq_iff_eq.mp hpj).symm)),
    orderedMap_eq _ _ hids]
  have key := maskedAssign_opts (List.range p.n)
    (fun g => ((membersOf p g).find? fun i => pos.getD i 0 == k).map fun i => a.getD i d) d
    (((List.range p.n).map (fun g => (p.ids.count g : Int))).map fun c => decide ((k : Int) < c))
    ((((List.range p.n).flatMap (membersIdx p.ids)).filter (fun i => pos.getD i 0 == k)).map
      (fun i => a.getD i d))
    (by
      rw [List.map_map]
      apply List.map_congr_left
      intro g _
      simp only [Function.comp, Option.isSome_map, Int.ofNat_lt, membersOf_eq]
      rw [← membersIdx_length]
      by_cases hk : k < (membersIdx p.ids g).length
      · have hmem : k ∈ (membersIdx p.ids g).map fun i => pos.getD i 0 :=
          (hperm g).mem_iff.mpr (List.mem_range.mpr hk)
        obtain ⟨i, hi, hik⟩ := List.mem_map.mp hmem
        have : ((membersIdx p.ids g).find? fun i => pos.getD i 0 == k).isSome = true := by
          rw [List.find?_isSome]
          exact ⟨i, hi, beq_iff_eq.mpr hik⟩
        rw [this]; exact decide_eq_true hk
      · have : ((membersIdx p.ids g).find? fun i => pos.getD i 0 == k) = none := by
          rw [List.find?_eq_none]
          intro i hi hik
          have hmem : k ∈ (membersIdx p.ids g).map fun i => pos.getD i 0 :=
            List.mem_map.mpr ⟨i, hi, beq_iff_eq.mp hik⟩
          exact hk (List.mem_range.mp ((hperm g).mem_iff.mp hmem))
        rw [this]; exact decide_eq_false hk)
    (by
      rw [List.filter_flatMap, List.map_flatMap]
      apply flatMap_congr'
      intro g _
      rw [membersOf_eq, filter_eq_find? _ _ (hndM g) (by
        intro x hx y hy hqx hqy
        exact hinj g x hx y hy ((beq_iff_eq.mp hqx).trans (beq_iff_eq.mp hqy).symm))]
      cases (membersIdx p.ids g).find? fun i => pos.getD i 0 == k <;> rfl)
  rw [List.length_range] at key
  exact key

/-- the positions computed by the counter loop are valid -/
theorem computed_positions_valid (p : Pop) :
    ValidPositions p ((List.range p.ids.length).map (posOf p.ids)) := by
  have hidl : p.ids.length = p.ms.length := by simp [Pop.ids]
  refine ⟨by simp [hidl], fun g => ?_⟩
  rw [membersOf_eq]
  have h1 : ((membersIdx p.ids g).map fun i => ((List.range p.ids.length).map (posOf p.ids)).getD i 0)
      = (membersIdx p.ids g).map (posOf p.ids) := by
    apply List.map_congr_left
    intro i hi
    have := (membersIdx_lt _ _ _ hi).1
    rw [List.getD_eq_getElem?_getD, List.getElem?_map, List.getElem?_range this]; rfl
  rw [h1, membersIdx_map_posOf, membersIdx_length]

/-! ## `value_from_partner` -/

theorem select2_map {α} (ms : List Member) (c1 c2 : Member → Bool) (f1 f2 : Member → α) (zero : α) :
    select2 ms c1 c2 (ms.map f1) (ms.map f2) zero
      = ms.map fun m => if c1 m then f1 m else if c2 m then f2 m else zero := by
  unfold select2
  rw [List.zip_map']
  have : ms.zip (ms.map fun m => (f1 m, f2 m)) = ms.map fun m => (m, f1 m, f2 m) := by
    have := List.zip_map' (f := id) (g := fun m => (f1 m, f2 m)) (l := ms)
    simpa using this
  rw [this, List.map_map]
  rfl

theorem getD_range_map {β} (n g : Nat) (F : Nat → β) (z : β) (hg : g < n) :
    ((List.range n).map F).getD g z = F g := by
  rw [List.getD_eq_getElem?_getD, List.getElem?_map, List.getElem?_range hg]; rfl

theorem valueFromPartner_eq {α} (p : Pop) (a : List α) (role : Role) (zero : α) (s1 s2 : Nat)
    (hsubs : role.subs = [s1, s2]) (hlen : a.length = p.ms.length)
    (hg : ∀ m ∈ p.ms, m.group < p.n)
    (hu1 : ∀ g, g < p.n → (valuesOf p (some ⟨s1, [], some 1⟩) g a).length ≤ 1)
    (hu2 : ∀ g, g < p.n → (valuesOf p (some ⟨s2, [], some 1⟩) g a).length ≤ 1) :
    valueFromPartner p a role zero = .ok (p.ms.map fun m =>
      if (⟨s1, [], some 1⟩ : Role).holds m then
        (valuesOf p (some ⟨s2, [], some 1⟩) m.group a).head?.getD zero
      else if (⟨s2, [], some 1⟩ : Role).holds m then
        (valuesOf p (some ⟨s1, [], some 1⟩) m.group a).head?.getD zero
      else zero) := by
  unfold valueFromPartner
  rw [if_neg (by omega), hsubs]
  simp only
  rw [valueFromPerson_eq p a ⟨s1, [], some 1⟩ zero rfl hlen hg hu1]
  simp only
  rw [project_eq p _ zero none (by simp) hg]
  simp only
  rw [valueFromPerson_eq p a ⟨s2, [], some 1⟩ zero rfl hlen hg hu2]
  simp only
  rw [project_eq p _ zero none (by simp) hg]
  simp only [roleOk, if_true]
  rw [select2_map]
  congr 1
  apply List.map_congr_left
  intro m hm
  rw [getD_range_map _ _ _ _ (hg m hm), getD_range_map _ _ _ _ (hg m hm)]

/-! ## storage order does not matter; roles that partition the members; group-constant vectors -/

theorem perm_sum_int {l₁ l₂ : List Int} (h : l₁.Perm l₂) : l₁.sum = l₂.sum := by
  induction h with
  | nil => rfl
  | cons x _ ih => simp [ih]
  | swap x y l => simp only [List.sum_cons]; omega
  | trans _ _ ih1 ih2 => rw [ih1, ih2]

/-- the values of the members of a group, as a multiset, only depend on the (member, value)
pairs as a multiset -/
theorem valuesOf_perm {α} (p p' : Pop) (a a' : List α) (h : (p.ms.zip a).Perm (p'.ms.zip a'))
    (role : Option Role) (g : Nat) : (valuesOf p role g a).Perm (valuesOf p' role g a') :=
  (h.filter _).map _

theorem ms_perm_of_zip {α} (p p' : Pop) (a a' : List α) (ha : a.length = p.ms.length)
    (ha' : a'.length = p'.ms.length) (h : (p.ms.zip a).Perm (p'.ms.zip a')) : p.ms.Perm p'.ms := by
  have := h.map Prod.fst
  rwa [zip_fst _ _ ha, zip_fst _ _ ha'] at this

theorem perm_foldl_min {l₁ l₂ : List Int} (h : l₁.Perm l₂) :
    (l₁.map EInt.fin).foldl EInt.min .posInf = (l₂.map EInt.fin).foldl EInt.min .posInf := by
  by_cases he : l₁ = []
  · subst he
    rw [h.nil_eq]
  · have he2 : l₂ ≠ [] := fun h2 => he (by subst h2; exact h.eq_nil)
    obtain ⟨m1, hm1, e1, b1⟩ := (foldl_min_spec l₁).2 he
    obtain ⟨m2, hm2, e2, b2⟩ := (foldl_min_spec l₂).2 he2
    have := b1 m2 (h.mem_iff.mpr hm2)
    have := b2 m1 (h.mem_iff.mp hm1)
    rw [e1, e2]
    congr 1
    omega

theorem perm_foldl_max {l₁ l₂ : List Int} (h : l₁.Perm l₂) :
    (l₁.map EInt.fin).foldl EInt.max .negInf = (l₂.map EInt.fin).foldl EInt.max .negInf := by
  by_cases he : l₁ = []
  · subst he
    rw [h.nil_eq]
  · have he2 : l₂ ≠ [] := fun h2 => he (by subst h2; exact h.eq_nil)
    obtain ⟨m1, hm1, e1, b1⟩ := (foldl_max_spec l₁).2 he
    obtain ⟨m2, hm2, e2, b2⟩ := (foldl_max_spec l₂).2 he2
    have := b1 m2 (h.mem_iff.mpr hm2)
    have := b2 m1 (h.mem_iff.mp hm1)
    rw [e1, e2]
    congr 1
    omega

theorem sum_map_add_int {γ} (L : List γ) (f h : γ → Int) :
    (L.map fun r => f r + h r).sum = (L.map f).sum + (L.map h).sum := by
  induction L with
  | nil => rfl
  | cons r rs ih => simp only [List.map_cons, List.sum_cons, ih]; omega

theorem sum_map_ite_mul {γ} (L : List γ) (q : γ → Bool) (x : Int) :
    (L.map fun r => if q r then x else 0).sum = x * (L.map fun r => if q r then (1 : Int) else 0).sum := by
  induction L with
  | nil => simp
  | cons r rs ih =>
    simp only [List.map_cons, List.sum_cons, ih]
    cases q r <;> simp [Int.mul_add]

/-- roles of which every member of the population holds exactly one: summing over the roles the
sums restricted to each role gives the unrestricted sum -/
theorem sum_roles_partition (p : Pop) (a : List Int) (rs : List Role) (g : Nat)
    (hpart : ∀ m ∈ p.ms, (rs.map fun r => if r.holds m then (1 : Int) else 0).sum = 1) :
    (rs.map fun r => (valuesOf p (some r) g a).sum).sum = (valuesOf p none g a).sum := by
  unfold valuesOf
  have key : ∀ L : List (Member × Int), (∀ ma ∈ L, ma.1 ∈ p.ms) →
      (rs.map fun r => ((L.filter fun ma => ma.1.group == g && roleOk (some r) ma.1).map (·.2)).sum).sum
        = ((L.filter fun ma => ma.1.group == g && roleOk none ma.1).map (·.2)).sum := by
    intro L
    induction L with
    | nil =>
      intro _
      have : ∀ L : List Role, (L.map fun _ => (0 : Int)).sum = 0 := by
        intro L; induction L with
        | nil => rfl
        | cons _ _ ih => simp [ih]
      simpa using this rs
    | cons ma L ih =>
      intro hmem
      have ih' := ih (fun x hx => hmem x (List.mem_cons_of_mem _ hx))
      by_cases hgm : ma.1.group = g
      · have h1 : ∀ r : Role, ((List.filter (fun ma => ma.1.group == g && roleOk (some r) ma.1) (ma :: L)).map (·.2)).sum
            = (if r.holds ma.1 then ma.2 else 0)
              + ((List.filter (fun ma => ma.1.group == g && roleOk (some r) ma.1) L).map (·.2)).sum := by
          intro r
          simp only [List.filter_cons, hgm, beq_self_eq_true, Bool.true_and, roleOk]
          cases r.holds ma.1 <;> simp
        have h2 : ((List.filter (fun ma => ma.1.group == g && roleOk none ma.1) (ma :: L)).map (·.2)).sum
            = ma.2 + ((List.filter (fun ma => ma.1.group == g && roleOk none ma.1) L).map (·.2)).sum := by
          simp [hgm, roleOk]
        rw [h2, ← ih']
        rw [List.map_congr_left (fun r _ => h1 r), sum_map_add_int, sum_map_ite_mul,
          hpart ma.1 (hmem ma (List.mem_cons_self ..))]
        omega
      · have h1 : ∀ r : Role, (List.filter (fun ma => ma.1.group == g && roleOk (some r) ma.1) (ma :: L))
            = List.filter (fun ma => ma.1.group == g && roleOk (some r) ma.1) L := by
          intro r; simp [hgm]
        have h2 : (List.filter (fun ma => ma.1.group == g && roleOk none ma.1) (ma :: L))
            = List.filter (fun ma => ma.1.group == g && roleOk none ma.1) L := by
          simp [hgm]
        rw [h2, ← ih']
        congr 1
        apply List.map_congr_left
        intro r _
        rw [h1 r]
  exact key (p.ms.zip a) (fun ma hma => (List.of_mem_zip hma).1)

/-- the values a group-constant vector (the projection of a group-level array) has on the members
of a group: as many copies of the group's value as the group has members (holding the role) -/
theorem valuesOf_broadcast {α} (p : Pop) (role : Option Role) (g : Nat) (x : List α) (z : α) :
    valuesOf p role g (p.ms.map fun m => x.getD m.group z)
      = List.replicate (p.ms.filter fun m => m.group == g && roleOk role m).length (x.getD g z) := by
  rw [valuesOf_ms_map]
  apply List.eq_replicate_iff.mpr
  refine ⟨by simp, ?_⟩
  intro v hv
  obtain ⟨m, hm, rfl⟩ := List.mem_map.mp hv
  have := (List.mem_filter.mp hm).2
  simp only [Bool.and_eq_true, beq_iff_eq] at this
  rw [this.1]

theorem foldl_min_replicate (k : Nat) (v : Int) (hk : 0 < k) :
    ((List.replicate k v).map EInt.fin).foldl EInt.min .posInf = .fin v := by
  obtain ⟨m, hm, e, _⟩ := (foldl_min_spec (List.replicate k v)).2 (by
    intro h; have := congrArg List.length h; simp at this; omega)
  rw [e, (List.mem_replicate.mp hm).2]

theorem foldl_max_replicate (k : Nat) (v : Int) (hk : 0 < k) :
    ((List.replicate k v).map EInt.fin).foldl EInt.max .negInf = .fin v := by
  obtain ⟨m, hm, e, _⟩ := (foldl_max_spec (List.replicate k v)).2 (by
    intro h; have := congrArg List.length h; simp at this; omega)
  rw [e, (List.mem_replicate.mp hm).2]

theorem sum_replicate_int (k : Nat) (v : Int) : (List.replicate k v).sum = k * v := by
  induction k with
  | zero => simp
  | succ k ih => rw [List.replicate_succ, List.sum_cons, ih]; simp [Int.add_mul]; omega

/-! ## `get_rank`: the width of the position matrix does not matter beyond the biggest group -/

/-- closed form of `getRankWide`: as `getRankWith_eq`, with `biggest p + extra` columns -/
theorem getRankWide_eq (extra : Nat) (p : Pop) (crit : List Int) (cond : List Bool)
    (hc : crit.length = p.ms.length) (hb : cond.length = p.ms.length) (hne : p.ms ≠ [])
    (hg : ∀ m ∈ p.ms, m.group < p.n) :
    getRankWide extra p crit cond = .ok ((List.range p.ms.length).map fun i =>
      if cond.getD i false then
        (((argsortE (rowOf p (filteredCrit crit cond) (biggest p + extra) (p.ids.getD i 0))).idxOf
          (posOf p.ids i) : Nat) : Int)
      else -1) := by
  have hids := ids_lt_of_ms p hg
  have hidne : p.ids ≠ [] := by simpa [Pop.ids] using hne
  have hidl : p.ids.length = p.ms.length := by simp [Pop.ids]
  have hfl : (filteredCrit crit cond).length = p.ms.length := by
    rw [filteredCrit_length _ _ (by omega)]; exact hc
  unfold getRankWide
  rw [membersPosition_eq _ hidne]
  simp only
  rw [if_neg (by omega)]
  have hcols := rankCols_eq p (filteredCrit crit cond) hfl hne hg (biggest p + extra)
  unfold filteredCrit biggest at hcols
  rw [hcols]
  simp only
  congr 1
  have hzip : p.ids.zip ((List.range p.ids.length).map (posOf p.ids))
      = (List.range p.ids.length).map (fun i => (p.ids.getD i 0, posOf p.ids i)) := by
    conv => lhs; lhs; rw [list_eq_range_map_getD p.ids 0]
    rw [List.zip_map']
  have hcond : cond = (List.range p.ids.length).map (fun i => cond.getD i false) := by
    have := list_eq_range_map_getD cond false
    rw [hb, ← hidl] at this
    exact this
  rw [hzip, List.map_map, List.map_map]
  conv => lhs; arg 1; rw [hcond]
  rw [whereL_map, ← hidl]
  apply List.map_congr_left
  intro i hi
  have hi' : i < p.ids.length := List.mem_range.mp hi
  have hgi : p.ids.getD i 0 < p.n := hids _ (by
    simp [List.getD_eq_getElem?_getD, List.getElem?_eq_getElem hi'])
  cases hci : cond.getD i false
  · simp
  · simp only [if_true, Function.comp]
    congr 1
    have h1 : ((List.range p.n).map fun g => argsortN (argsortE (rankRow
        ((List.range (maxL ((List.range p.ids.length).map (posOf p.ids)) + 1 + extra)).map fun k =>
          (List.range p.n).map fun g =>
            (valuesOf p none g (whereL cond (crit.map EInt.fin) EInt.posInf))[k]?.getD EInt.posInf) g))).getD
          (p.ids.getD i 0) []
        = argsortN (argsortE (rowOf p (filteredCrit crit cond) (biggest p + extra) (p.ids.getD i 0))) := by
      rw [List.getD_eq_getElem?_getD, List.getElem?_map, List.getElem?_range hgi]
      simp only [Option.map_some, Option.getD_some]
      rw [rankRow_eq p _ _ _ hgi]
      rfl
    have hsp := argsortE_perm (rowOf p (filteredCrit crit cond) (biggest p + extra) (p.ids.getD i 0))
    have hsl : (argsortE (rowOf p (filteredCrit crit cond) (biggest p + extra) (p.ids.getD i 0))).length
        = biggest p + extra := by
      simpa [rowOf] using hsp.length_eq
    have hpos := posOf_lt_biggest p i hi'
    rw [h1, double_argsort' _ (by rw [hsl]; simpa [rowOf] using hsp) _ (by rw [hsl]; omega)]

/-- beyond the biggest group the row only holds the padding -/
theorem rowOf_wide (p : Pop) (f : List EInt) (hlen : f.length = p.ms.length) (extra g : Nat) :
    rowOf p f (biggest p + extra) g = rowOf p f (biggest p) g ++ List.replicate extra .posInf := by
  have hle : (valuesOf p none g f).length ≤ biggest p := by
    rw [valuesOf_length_none p f hlen g]
    exact count_le_maxL_pos p.ids g
  unfold rowOf
  rw [List.range_add, List.map_append, List.map_map]
  congr 1
  apply List.eq_replicate_iff.mpr
  refine ⟨by simp, ?_⟩
  intro v hv
  obtain ⟨k, _, rfl⟩ := List.mem_map.mp hv
  simp only [Function.comp]
  rw [List.getElem?_eq_none (by omega)]
  rfl

theorem getD_append_replicate_posInf (row : List EInt) (extra i : Nat) :
    (row ++ List.replicate extra EInt.posInf).getD i .posInf = row.getD i .posInf := by
  simp only [List.getD_eq_getElem?_getD]
  by_cases hi : i < row.length
  · rw [List.getElem?_append_left hi]
  · rw [List.getElem?_append_right (by omega), List.getElem?_eq_none (l := row) (by omega)]
    by_cases h2 : i - row.length < extra
    · rw [List.getElem?_replicate, if_pos h2]; rfl
    · rw [List.getElem?_replicate, if_neg h2]

theorem EInt.le_posInf (a : EInt) : a.le .posInf = true := by cases a <;> rfl

/-- stable sort of a row followed by paddings: the sorted row, then the paddings in their order -/
theorem argsortE_append_posInf (row : List EInt) (extra : Nat) :
    argsortE (row ++ List.replicate extra .posInf)
      = argsortE row ++ (List.range extra).map (row.length + ·) := by
  have hle : ∀ i j, leE (row ++ List.replicate extra .posInf) i j = leE row i j := by
    intro i j
    simp only [leE, getD_append_replicate_posInf]
  have hBefore : ∀ i j, Before (leE (row ++ List.replicate extra .posInf)) i j ↔ Before (leE row) i j := by
    intro i j; simp only [Before, hle]
  apply sorted_unique (leE (row ++ List.replicate extra .posInf))
  · exact argsortE_pairwise _
  · rw [List.pairwise_append]
    refine ⟨?_, ?_, ?_⟩
    · exact (argsortE_pairwise row).imp (fun {a b} h => (hBefore a b).mpr h)
    · rw [List.pairwise_map]
      refine List.Pairwise.imp (fun {a b} (h : a < b) => ?_) List.pairwise_lt_range
      rw [hBefore]
      have ha : row.getD (row.length + a) .posInf = .posInf := by
        simp [List.getD_eq_getElem?_getD]
      have hb' : row.getD (row.length + b) .posInf = .posInf := by
        simp [List.getD_eq_getElem?_getD]
      exact ⟨by simp only [leE, ha, hb']; rfl, fun _ => by omega⟩
    · intro a ha b hb'
      have ha' : a < row.length := by
        have := (argsortE_perm row).mem_iff.mp ha
        exact List.mem_range.mp this
      obtain ⟨k, _, rfl⟩ := List.mem_map.mp hb'
      rw [hBefore]
      have hbv : row.getD (row.length + k) .posInf = .posInf := by
        simp [List.getD_eq_getElem?_getD]
      exact ⟨by simp only [leE, hbv]; exact EInt.le_posInf _, fun _ => by omega⟩
  · have h1 := argsortE_perm (row ++ List.replicate extra .posInf)
    have h2 := argsortE_perm row
    refine h1.trans ?_
    rw [List.length_append, List.length_replicate, List.range_add]
    exact (h2.append (List.Perm.refl _)).symm

theorem idxOf_append_of_mem (s t : List Nat) (c : Nat) (h : c ∈ s) : (s ++ t).idxOf c = s.idxOf c := by
  induction s with
  | nil => cases h
  | cons x xs ih =>
    by_cases hx : x = c
    · subst hx; simp [List.idxOf_cons_self]
    · have hc : c ∈ xs := by
        rcases List.mem_cons.mp h with h | h
        · exact absurd h.symm hx
        · exact h
      have hb : (x == c) = false := by simpa using hx
      simp only [List.cons_append, List.idxOf_cons, hb, cond_false]
      rw [ih hc]

theorem getRankWide_eq_getRank (extra : Nat) (p : Pop) (crit : List Int) (cond : List Bool)
    (hc : crit.length = p.ms.length) (hb : cond.length = p.ms.length) (hne : p.ms ≠ [])
    (hg : ∀ m ∈ p.ms, m.group < p.n) :
    getRankWide extra p crit cond = getRank p crit cond := by
  have hidl : p.ids.length = p.ms.length := by simp [Pop.ids]
  have hfl : (filteredCrit crit cond).length = p.ms.length := by
    rw [filteredCrit_length _ _ (by omega)]; exact hc
  rw [getRankWide_eq extra p crit cond hc hb hne hg, getRank_eq p crit cond hc hb hne hg]
  congr 1
  apply List.map_congr_left
  intro i hi
  have hi' : i < p.ids.length := by rw [hidl]; exact List.mem_range.mp hi
  cases hci : cond.getD i false
  · rfl
  · simp only [if_true]
    congr 1
    unfold rankOf rankOfWith
    rw [rowOf_wide p _ hfl, argsortE_append_posInf]
    apply idxOf_append_of_mem
    apply (argsortE_perm _).mem_iff.mpr
    rw [rowOf_length]
    exact List.mem_range.mpr (posOf_lt_biggest p i hi')

/-- `nb_persons(role)` is the role-restricted sum of ones -/
theorem nbPersons_eq_sum_ones (p : Pop) (role : Option Role) (hg : ∀ m ∈ p.ms, m.group < p.n) :
    nbPersons p role = groupSum p (p.ms.map fun _ => 1) role := by
  rw [groupSum_eq p _ role (by simp) hg]
  have hcount : ∀ g, (valuesOf p role g (p.ms.map fun _ => (1 : Int))).sum
      = ((p.ms.filter fun m => m.group == g && roleOk role m).length : Int) := by
    intro g
    rw [valuesOf_ms_map]
    generalize p.ms.filter (fun m => m.group == g && roleOk role m) = L
    induction L with
    | nil => rfl
    | cons _ _ ih => simp only [List.map_cons, List.sum_cons, ih, List.length_cons]; omega
  simp only [hcount]
  cases role with
  | none =>
    unfold nbPersons
    simp only
    rw [bincount_eq _ _ (ids_lt_of_ms p hg)]
    congr 1
    apply List.map_congr_left
    intro g _
    simp [Pop.ids, List.count_eq_length_filter, List.filter_map, roleOk, Function.comp_def]
  | some r =>
    unfold nbPersons
    simp only
    rw [groupSum_eq p _ none (by simp [Pop.hasRole]) hg]
    congr 1
    apply List.map_congr_left
    intro g _
    rw [valuesOf_map, Pop.hasRole, valuesOf_ms_map, sum_map_b2i, List.count_eq_length_filter,
      List.filter_map, List.length_map, List.filter_filter]
    congr 2
    apply List.filter_congr
    intro m _
    simp [roleOk, Bool.and_comm]

end OFCore.Grp
