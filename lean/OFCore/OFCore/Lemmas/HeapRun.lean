import OFCore.Lemmas.HeapClone
import OFCore.PeriodSpec
/-!
# Histories: interleaved runs against runs of one side alone; footprints; reads of a clone
-/
set_option linter.unusedSimpArgs false
namespace OFCore.Heap
open HM

/-! ## interleaving -/

theorem sideId_other_ne {s c : Id} (hne : s.reg ≠ c.reg) {sd sd' : Side} (h : sd' ≠ sd) :
    (sideId s c sd').reg ≠ (sideId s c sd).reg := by
  cases sd <;> cases sd' <;> simp_all [sideId] <;> exact fun e => hne e.symm

/-- the interleaved history and the history of side `sd` alone keep the region of `sd` identical, and
return the same answers to the calls made on `sd` -/
theorem run_side_agree (sys : Sys) (fuel : Nat) (s c : Id) (hne : s.reg ≠ c.reg) (sd : Side) :
    ∀ (ops : List (Side × Op)) (hi ha : Heap), Closed s.reg hi → Closed c.reg hi →
      hi[(sideId s c sd).reg]? = ha[(sideId s c sd).reg]? →
      (runOps sys fuel s c ops hi)[(sideId s c sd).reg]?
          = (runSide sys fuel (sideId s c sd) (ops.filterMap (onSide sd)) ha)[(sideId s c sd).reg]?
        ∧ Closed (sideId s c sd).reg (runOps sys fuel s c ops hi)
        ∧ resultsOps sys fuel s c sd ops hi = resultsSide sys fuel (sideId s c sd) (ops.filterMap (onSide sd)) ha := by
  intro ops
  induction ops with
  | nil =>
    intro hi ha cs cc e
    refine ⟨e, ?_, rfl⟩
    cases sd
    · exact cs
    · exact cc
  | cons a rest ih =>
    intro hi ha cs cc e
    obtain ⟨sd', op⟩ := a
    have cx : ∀ sd'', Closed (sideId s c sd'').reg hi := fun sd'' => by
      cases sd''
      · exact cs
      · exact cc
    have L := step_loc sys fuel (x := sideId s c sd') rfl op
    have fr := L.frame hi (cx sd')
    by_cases hsd : sd' = sd
    · subst hsd
      have lc := L.loc hi ha (cx sd') e
      have cs' : Closed s.reg (step sys fuel (sideId s c sd') op hi).2 := by
        cases sd'
        · exact fr.1
        · exact cs.congr (fr.2.1 s.reg hne).symm
      have cc' : Closed c.reg (step sys fuel (sideId s c sd') op hi).2 := by
        cases sd'
        · exact cc.congr (fr.2.1 c.reg (Ne.symm hne)).symm
        · exact fr.1
      have := ih _ (step sys fuel (sideId s c sd') op ha).2 cs' cc' lc.2.symm
      simp only [runOps, List.filterMap_cons, onSide, if_true, runSide, resultsOps, resultsSide]
      refine ⟨this.1, this.2.1, ?_⟩
      rw [this.2.2, lc.1]
    · have hr := sideId_other_ne hne hsd
      have keep : (step sys fuel (sideId s c sd') op hi).2[(sideId s c sd).reg]? = hi[(sideId s c sd).reg]? :=
        fr.2.1 _ (Ne.symm hr)
      have cs' : Closed s.reg (step sys fuel (sideId s c sd') op hi).2 := by
        cases sd'
        · exact fr.1
        · exact cs.congr (fr.2.1 s.reg hne).symm
      have cc' : Closed c.reg (step sys fuel (sideId s c sd') op hi).2 := by
        cases sd'
        · exact cc.congr (fr.2.1 c.reg (Ne.symm hne)).symm
        · exact fr.1
      have := ih _ ha cs' cc' (keep.trans e)
      simp only [runOps, List.filterMap_cons, onSide, hsd, if_false, resultsOps]
      exact this

/-! ## interleaving of ARBITRARY region-local computations

`Loc r m` is a semantic property of a heap computation `m`: started in a heap whose region `r` is closed, it
keeps `r` closed, leaves every other region as it was, opens no region, and both its answer and what it makes of
region `r` depend on region `r` alone.  Every public call of `Op` has it (`step_loc`); so has anything composed of
local computations (`Loc.bind`, `Loc.ite`, `Loc.mapMH`, `Loc.tryFinally` …).  The interleaving theorem needs
nothing else of the operations. -/

/-- the heap after an interleaved history of arbitrary computations on the two sides -/
def runAny {α : Type} : List (Side × HM α) → Heap → Heap
  | [], h => h
  | (_, m) :: rest, h => runAny rest (m h).2

/-- the heap after the computations of one side, in order -/
def runAnySide {α : Type} : List (HM α) → Heap → Heap
  | [], h => h
  | m :: rest, h => runAnySide rest (m h).2

def resultsAnySide {α : Type} : List (HM α) → Heap → List (Except Err α)
  | [], _ => []
  | m :: rest, h => (m h).1 :: resultsAnySide rest (m h).2

def resultsAny {α : Type} (sd : Side) : List (Side × HM α) → Heap → List (Except Err α)
  | [], _ => []
  | (sd', m) :: rest, h => if sd' = sd then (m h).1 :: resultsAny sd rest (m h).2 else resultsAny sd rest (m h).2

def onSideAny {α : Type} (sd : Side) (e : Side × HM α) : Option (HM α) := if e.1 = sd then some e.2 else none

/-- frame rule + induction: an interleaved history of region-local computations and the history of side `sd`
alone keep the region of `sd` identical and give the same answers to the computations of `sd` -/
theorem run_any_agree {α : Type} (s c : Id) (hne : s.reg ≠ c.reg) (sd : Side) :
    ∀ (ops : List (Side × HM α)), (∀ e ∈ ops, Loc (sideId s c e.1).reg e.2 (fun _ => True)) →
      ∀ (hi ha : Heap), Closed s.reg hi → Closed c.reg hi →
      hi[(sideId s c sd).reg]? = ha[(sideId s c sd).reg]? →
      (runAny ops hi)[(sideId s c sd).reg]? = (runAnySide (ops.filterMap (onSideAny sd)) ha)[(sideId s c sd).reg]?
        ∧ Closed s.reg (runAny ops hi) ∧ Closed c.reg (runAny ops hi)
        ∧ resultsAny sd ops hi = resultsAnySide (ops.filterMap (onSideAny sd)) ha := by
  intro ops
  induction ops with
  | nil =>
    intro _ hi ha cs cc e
    exact ⟨e, cs, cc, rfl⟩
  | cons a rest ih =>
    intro hloc hi ha cs cc e
    obtain ⟨sd', m⟩ := a
    have cx : ∀ sd'', Closed (sideId s c sd'').reg hi := fun sd'' => by
      cases sd''
      · exact cs
      · exact cc
    have L : Loc (sideId s c sd').reg m (fun _ => True) := hloc (sd', m) (List.mem_cons_self ..)
    have hrest : ∀ e ∈ rest, Loc (sideId s c e.1).reg e.2 (fun _ => True) :=
      fun e he => hloc e (List.mem_cons_of_mem _ he)
    have fr := L.frame hi (cx sd')
    have cs' : Closed s.reg (m hi).2 := by
      cases sd'
      · exact fr.1
      · exact cs.congr (fr.2.1 s.reg hne).symm
    have cc' : Closed c.reg (m hi).2 := by
      cases sd'
      · exact cc.congr (fr.2.1 c.reg (Ne.symm hne)).symm
      · exact fr.1
    by_cases hsd : sd' = sd
    · subst hsd
      have lc := L.loc hi ha (cx sd') e
      have := ih hrest _ (m ha).2 cs' cc' lc.2.symm
      simp only [runAny, List.filterMap_cons, onSideAny, if_true, runAnySide, resultsAny, resultsAnySide]
      refine ⟨this.1, this.2.1, this.2.2.1, ?_⟩
      rw [this.2.2.2, lc.1]
    · have hr := sideId_other_ne hne hsd
      have keep : (m hi).2[(sideId s c sd).reg]? = hi[(sideId s c sd).reg]? := fr.2.1 _ (Ne.symm hr)
      have := ih hrest _ ha cs' cc' (keep.trans e)
      simp only [runAny, List.filterMap_cons, onSideAny, hsd, if_false, resultsAny]
      exact this

/-- what is observed of a simulation is a function of its (closed) region -/
theorem observe_region {r : Nat} {x : Id} (hx : x.reg = r) {h1 h2 : Heap} (c : Closed r h1) (e : h1[r]? = h2[r]?) :
    (observe x h2).1 = (observe x h1).1 := ((Loc.observe hx).loc h1 h2 c e).1

/-! ## footprints -/

theorem InReg.refs {r : Nat} {o : Obj} (hin : InReg r o) : ∀ q ∈ o.refs, q.reg = r := by
  intro q hq
  cases o with
  | sim o =>
    simp only [Obj.refs, List.mem_cons, List.mem_append, List.mem_map, Option.mem_toList] at hq
    rcases hq with rfl | rfl | rfl | ⟨e, he, rfl⟩ | hd
    · exact hin.1
    · exact hin.2.2.1
    · exact hin.2.2.2.1
    · exact hin.2.1 e he
    · exact hin.2.2.2.2 q hd
  | pop o =>
    simp only [Obj.refs, List.mem_cons, List.mem_append, List.mem_map, Option.mem_toList] at hq
    rcases hq with rfl | ⟨e, he, rfl⟩ | hd
    · exact hin.1
    · exact hin.2.1 e he
    · exact hin.2.2 q hd
  | holder o =>
    simp only [Obj.refs, List.mem_cons, Option.mem_toList] at hq
    rcases hq with rfl | rfl | rfl | hd
    · exact hin.1
    · exact hin.2.1
    · exact hin.2.2.1
    · exact hin.2.2.2 q hd
  | store o => simp [Obj.refs] at hq
  | disk o =>
    simp only [Obj.refs, List.mem_singleton] at hq
    subst hq
    exact hin
  | dir o => simp [Obj.refs] at hq
  | tracer o => simp [Obj.refs] at hq
  | inval o => simp [Obj.refs] at hq

theorem reach_region {r : Nat} {h : Heap} (cl : Closed r h) (n : Nat) :
    ∀ roots : List Id, (∀ p ∈ roots, p.reg = r) → ∀ p ∈ reach h n roots, p.reg = r := by
  induction n with
  | zero => intro roots hr p hp; exact hr p hp
  | succ n ih =>
    intro roots hr p hp
    simp only [reach, List.mem_append] at hp
    rcases hp with hp | hp
    · exact hr p hp
    · refine ih _ ?_ p hp
      intro q hq
      simp only [List.mem_flatMap] at hq
      obtain ⟨a, ha, hqa⟩ := hq
      unfold refsOf at hqa
      cases hg : h.get? a with
      | none => rw [hg] at hqa; cases hqa
      | some o =>
        rw [hg] at hqa
        exact (cl.get (hr a ha) hg).refs q hqa

/-! ## reading a clone -/

theorem bind_of_ok {α β : Type} {m : HM α} {f : α → HM β} {h h1 : Heap} {a : α} (e : m h = (.ok a, h1)) :
    (m >>= f) h = f a h1 := by rw [bind_apply, e]

theorem bind_of_error {α β : Type} {m : HM α} {f : α → HM β} {h h1 : Heap} {er : Err} (e : m h = (.error er, h1)) :
    (m >>= f) h = (.error er, h1) := by rw [bind_apply, e]

theorem ofOption_some {α : Type} (e : Err) (a : α) : ofOption e (some a) = pure a := rfl
theorem ofOption_none {α : Type} (e : Err) : ofOption e (none : Option α) = fail e := rfl
theorem pure_bind' {α β : Type} (a : α) (f : α → HM β) : (pure a >>= f) = f a := by funext h; rfl
theorem fail_bind' {α β : Type} (e : Err) (f : α → HM β) : (fail e >>= f) = fail e := by funext h; rfl

theorem rd_eq {h : Heap} {p : Id} {o : Obj} (e : h.get? p = some o) : rd p h = (.ok o, h) := by
  unfold rd; rw [e]

theorem rdSim_eq {h : Heap} {p : Id} {o : SimObj} (e : h.get? p = some (.sim o)) : rdSim p h = (.ok o, h) := by
  unfold rdSim; rw [bind_of_ok (rd_eq e)]; rfl
theorem rdPop_eq {h : Heap} {p : Id} {o : PopObj} (e : h.get? p = some (.pop o)) : rdPop p h = (.ok o, h) := by
  unfold rdPop; rw [bind_of_ok (rd_eq e)]; rfl
theorem rdHolder_eq {h : Heap} {p : Id} {o : HolderObj} (e : h.get? p = some (.holder o)) :
    rdHolder p h = (.ok o, h) := by
  unfold rdHolder; rw [bind_of_ok (rd_eq e)]; rfl
theorem rdStore_eq {h : Heap} {p : Id} {o : StoreObj} (e : h.get? p = some (.store o)) :
    rdStore p h = (.ok o, h) := by
  unfold rdStore; rw [bind_of_ok (rd_eq e)]; rfl

theorem alGet_rel₂ {κ α β : Type} [DecidableEq κ] {R : κ × α → κ × β → Prop} {L : List (κ × α)} {L' : List (κ × β)}
    (hrel : Rel₂ R L L') (hk : ∀ e e', R e e' → e.1 = e'.1) (k : κ) :
    (alGet L k = none ∧ alGet L' k = none) ∨ ∃ a a', alGet L k = some a ∧ alGet L' k = some a' ∧ R (k, a) (k, a') := by
  induction hrel with
  | nil => exact Or.inl ⟨rfl, rfl⟩
  | @cons e e' l l' hr _ ih =>
    obtain ⟨k1, a⟩ := e
    obtain ⟨k2, a'⟩ := e'
    have hkk : k1 = k2 := hk _ _ hr
    subst hkk
    unfold alGet
    by_cases h : k1 = k
    · subst h
      simp only [if_true]
      exact Or.inr ⟨a, a', rfl, rfl, hr⟩
    · simp only [h, if_false]
      exact ih

theorem alGet_filter_ne {β : Type} (l : List (Nat × β)) (k : Nat) (hk : k ≠ 0) :
    alGet (l.filter (fun e => e.1 ≠ 0)) k = alGet l k := by
  induction l with
  | nil => rfl
  | cons e t ih =>
    obtain ⟨k', b⟩ := e
    by_cases h0 : k' = 0
    · subst h0
      simp only [List.filter, ne_eq, not_true_eq_false, decide_false]
      rw [ih]
      conv => rhs; unfold alGet
      simp [Ne.symm hk]
    · simp only [List.filter, ne_eq, h0, not_false_eq_true, decide_true]
      unfold alGet
      rw [ih]

theorem Rel₂.keys {κ α β : Type} {R : κ × α → κ × β → Prop} {L : List (κ × α)} {L' : List (κ × β)}
    (hrel : Rel₂ R L L') (hk : ∀ e e', R e e' → e.1 = e'.1) : L'.map (fun e => e.1) = L.map (fun e => e.1) := by
  induction hrel with
  | nil => rfl
  | cons hr _ ih => simp only [List.map_cons, ih, hk _ _ hr]

/-- entity by entity, the populations of a clone are the clones of the original's populations -/
theorem SimCloned.popLookup {s c : Id} {tr dbg : Bool} {h h' : Heap} (sc : SimCloned s c tr dbg h h')
    (hl : ∀ so, h.get? s = some (.sim so) → alGet so.pops 0 = some so.persons) :
    ∃ so so', h.get? s = some (.sim so) ∧ h'.get? c = some (.sim so') ∧ ∀ k,
      (alGet so.pops k = none ∧ alGet so'.pops k = none)
      ∨ ∃ pid pid' p0, alGet so.pops k = some pid ∧ alGet so'.pops k = some pid'
          ∧ PopPair c.reg c p0 h h' (k, pid) (k, pid') := by
  obtain ⟨so, persons', groups', trc, inv, a1, a2, _, _, _, _, a7, a8, _⟩ := sc.ex
  refine ⟨so, _, a1, a2, fun k => ?_⟩
  by_cases hk : k = 0
  · subst hk
    refine Or.inr ⟨so.persons, persons', so.persons, hl so a1, ?_, a7⟩
    simp [alGet]
  · have := alGet_rel₂ a8 (fun e e' hp => hp.1) k
    rw [alGet_filter_ne _ _ hk] at this
    rcases this with ⟨h1, h2⟩ | ⟨a, a', h1, h2, h3⟩
    · refine Or.inl ⟨h1, ?_⟩
      simp only [alGet, Ne.symm hk, if_false]
      exact h2
    · refine Or.inr ⟨a, a', persons', h1, ?_, h3⟩
      simp only [alGet, Ne.symm hk, if_false]
      exact h2

theorem holderFind_pair {rc rs : Nat} {newPop sim : Id} {h h' : Heap} {e e' : Var × Id}
    (hp : HolderPair rc newPop sim h h' e e') (cl : Closed rs h) (he : e.2.reg = rs) (hr : h[rs]? = h'[rs]?) :
    ∃ ho ho', h.get? e.2 = some (.holder ho) ∧ h'.get? e'.2 = some (.holder ho')
      ∧ (∀ p, (holderFind ho' p h').1 = (holderFind ho p h).1)
      ∧ (knownPeriods ho' h').1 = (knownPeriods ho h).1 := by
  obtain ⟨_, ho, st, mem', a1, a2, a3, a4, _, _, _, _⟩ := hp
  have hin : InReg rs (.holder ho) := cl.get he a1
  refine ⟨ho, _, a1, a3, fun p => ?_, ?_⟩
  · unfold holderFind
    rw [bind_of_ok (rdStore_eq a4), bind_of_ok (rdStore_eq a2)]
    cases st.find p with
    | some v => rfl
    | none => exact ((Loc.diskLookup hin.2.2.2 p).loc h h' cl hr).1
  · unfold knownPeriods
    rw [bind_of_ok (rdStore_eq a4), bind_of_ok (rdStore_eq a2)]
    have := ((Loc.diskPeriods hin.2.2.2).loc h h' cl hr).1
    simp only [bind_apply]
    revert this
    cases diskPeriods ho.disk h' with
    | mk r1 g1 =>
      cases diskPeriods ho.disk h with
      | mk r2 g2 =>
        intro this
        simp only at this
        subst this
        cases r1 <;> rfl

/-! ## hypotheses of the property theorems, and how to check them on a concrete heap -/

/-- what is assumed of the simulation that gets cloned: its region is closed (everything it reaches is its
own), `persons` is the population listed under the person entity, that population has no `members` and is
bound to the simulation -/
structure WellFormed (h : Heap) (s : Id) : Prop where
  closed : Closed s.reg h
  listed : ∀ so, h.get? s = some (.sim so) → alGet so.pops 0 = some so.persons
  plain : ∀ so po m, h.get? s = some (.sim so) → h.get? so.persons = some (.pop po) → po.members = some m → False
  bound : ∀ so po, h.get? s = some (.sim so) → h.get? so.persons = some (.pop po) → po.sim = s

/-- memory-backed: no holder of the simulation's region has an on-disk storage and no temporary
directory has been made (`memory_config` unset, or set but not used yet) -/
structure MemoryBacked (h : Heap) (s : Id) : Prop where
  noDisk : NoDisk s.reg h
  noDir : ∀ so, h.get? s = some (.sim so) → so.dir = none

instance (o : Option Id) (P : Id → Prop) [DecidablePred P] : Decidable (∀ d, o = some d → P d) :=
  match o with
  | none => isTrue (fun _ e => by cases e)
  | some d => if h : P d then isTrue (fun _ e => by cases e; exact h) else isFalse (fun f => h (f d rfl))

instance (r : Nat) (o : Obj) : Decidable (InReg r o) := by
  cases o <;> unfold InReg <;> infer_instance

theorem Closed_iff (r : Nat) (h : Heap) : Closed r h ↔ ∀ o ∈ h[r]?.getD [], InReg r o := by
  unfold Closed
  simp only [get?_def]
  cases h[r]? with
  | none => simp
  | some l =>
    simp only [Option.bind_some, Option.getD_some]
    constructor
    · intro c o ho
      obtain ⟨i, hi, rfl⟩ := List.mem_iff_getElem.mp ho
      exact c i _ (List.getElem?_eq_getElem hi)
    · intro f i o hg
      exact f o (List.mem_of_getElem? hg)

instance (r : Nat) (h : Heap) : Decidable (Closed r h) := decidable_of_iff _ (Closed_iff r h).symm

def wellFormedB (h : Heap) (s : Id) : Bool :=
  decide (Closed s.reg h) &&
  match (h.get? s).bind Obj.sim? with
  | none => true
  | some so =>
    decide (alGet so.pops 0 = some so.persons) &&
    match (h.get? so.persons).bind Obj.pop? with
    | none => true
    | some po => po.members.isNone && decide (po.sim = s)

theorem WellFormed.ofB {h : Heap} {s : Id} (hb : wellFormedB h s = true) : WellFormed h s := by
  unfold wellFormedB at hb
  simp only [Bool.and_eq_true, decide_eq_true_eq] at hb
  obtain ⟨hc, hrest⟩ := hb
  refine ⟨hc, fun so hso => ?_, fun so po m hso hpo hm => ?_, fun so po hso hpo => ?_⟩
  · simp only [hso, Option.bind_some, Obj.sim?, Bool.and_eq_true, decide_eq_true_eq] at hrest
    exact hrest.1
  · simp only [hso, Option.bind_some, Obj.sim?, Bool.and_eq_true, decide_eq_true_eq, hpo, Obj.pop?, hm] at hrest
    exact absurd hrest.2.1 (by simp)
  · simp only [hso, Option.bind_some, Obj.sim?, Bool.and_eq_true, decide_eq_true_eq, hpo, Obj.pop?] at hrest
    exact hrest.2.2

def memoryBackedB (h : Heap) (s : Id) : Bool :=
  (h[s.reg]?.getD []).all (fun o => match o.holder? with | none => true | some ho => ho.disk.isNone)
  && match (h.get? s).bind Obj.sim? with
     | none => true
     | some so => so.dir.isNone

theorem MemoryBacked.ofB {h : Heap} {s : Id} (hb : memoryBackedB h s = true) : MemoryBacked h s := by
  unfold memoryBackedB at hb
  simp only [Bool.and_eq_true, List.all_eq_true] at hb
  obtain ⟨h1, h2⟩ := hb
  refine ⟨fun q ho hq hg => ?_, fun so hso => ?_⟩
  · rw [get?_def, hq] at hg
    cases hl : h[s.reg]? with
    | none => rw [hl] at hg; cases hg
    | some l =>
      rw [hl] at hg h1
      have := h1 _ (List.mem_of_getElem? hg)
      simp only [Obj.holder?] at this
      cases hd : ho.disk with
      | none => rfl
      | some d => rw [hd] at this; cases this
  · simp only [hso, Option.bind_some, Obj.sim?] at h2
    cases hd : so.dir with
    | none => rfl
    | some d => rw [hd] at h2; cases h2

/-- the two regions after `clone()`: distinct, and both closed when the original is memory-backed -/
theorem clone_regions {h : Heap} {s : Id} {tr dbg : Bool} {h' : Heap} {c : Id} (hwf : WellFormed h s)
    (hmem : MemoryBacked h s) (hc : cloneSim s tr dbg h = (.ok c, h')) :
    s.reg ≠ c.reg ∧ Closed s.reg h' ∧ Closed c.reg h' := by
  have sc := cloneSim_spec hwf.closed hc
  have hne : s.reg ≠ h.length := Nat.ne_of_lt sc.lt
  obtain ⟨so, _, _, _, _, a1, _, _, _, _, _, _, _, a9⟩ := sc.ex
  exact ⟨by rw [sc.reg]; exact hne, hwf.closed.others sc.others hne,
    fun i x hx => (a9 hmem.noDisk (hmem.noDir so a1) (fun po m hpo hm => hwf.plain so po m a1 hpo hm) i x hx).1⟩

/-! ## the example used beside the property theorems

Three persons in two groups; an input, a person formula, a group sum, an eternal input; the original
has an input and a cached value when it is cloned. -/

def vd (e : Nat) (u : DUnit) (d : Int) (f : Option (Int × List Term)) : VarDecl :=
  { entity := e, defPeriod := u, dflt := d, formula := f }
def exSys : Sys := [vd 0 .month 0 none, vd 0 .month 5 (some (3, [⟨2, 0, .same, .same⟩])),
  vd 1 .month 0 (some (0, [⟨1, 0, .members, .same⟩])), vd 0 .eternity 7 none,
  vd 1 .month 0 (some (0, [⟨1, 0, .membersRole [2], .same⟩, ⟨10, 0, .nbPersons [3], .same⟩])),
  vd 0 .month 0 (some (0, [⟨1, 0, .hasRole 1 [2], .same⟩]))]
/-- person 0 holds the first flattened role, person 1 the role `r1` (2), person 2 the role `r2` (3); in the
first group the positions were assigned against the order of appearance -/
def exSpec : SimSpec :=
  { persons := 3, memConfig := none,
    groups := [{ entity := 1, count := 2, membersEntityId := [0, 0, 1], roles := some [0, 2, 3],
                 positions := some [1, 0, 0] }] }
def exM1 : Period := ⟨.month, ⟨2018, 1, 1⟩, 1⟩
def exM2 : Period := ⟨.month, ⟨2018, 2, 1⟩, 1⟩
def exS : Id := ⟨0, 0⟩
def exC : Id := ⟨1, 0⟩
/-- the original when it is cloned -/
def exH : Heap := runSide exSys 40 exS [.setInput 0 exM1 [1, 2, 3], .calculate 1 exM1] (build exSpec []).2
/-- the heap after `clone()` -/
def exH' : Heap := (cloneSim exS false false exH).2
def exOps : List (Side × Op) :=
  [(.clone, .calculate 2 exM1), (.clone, .calculate 4 exM1), (.orig, .setInput 0 exM1 [4, 4, 4]),
   (.orig, .calculate 4 exM1), (.orig, .calculate 5 exM1), (.clone, .deleteArrays 0 none),
   (.orig, .calculate 1 exM2), (.clone, .setTrace true), (.clone, .calculate 3 exM2)]

/-- the same simulation with `MemoryConfig(max_memory_occupation=0)`: its input is stored on disk -/
def exDiskSys : Sys := [vd 0 .month 0 none]
def exDiskH : Heap := runSide exDiskSys 40 exS [.setInput 0 exM1 [1]] (build { persons := 1, groups := [], memConfig := some { priority := [] } } []).2
def exDiskH' : Heap := (cloneSim exS false false exDiskH).2

end OFCore.Heap
