import OFCore.Lemmas.EngineRanked
/-!
# Variable-ranked systems always have a meaning: `rk v + 1` units of fuel suffice
-/
set_option linter.unusedVariables false
set_option linter.unusedSectionVars false
namespace OFCore.Engine

variable {P : Type} [DecidableEq P]

/-- an expression is total once every node it reads is -/
theorem denE_total (sys : Sys P) (n : Nat) : ∀ (e : Expr P),
    (∀ k ∈ refs e, ∃ r, den sys n k.1 k.2 = some r) → ∃ r, denE sys n e = some r
  | .const c, _ => ⟨.ok c, by simp [denE]⟩
  | .bad, _ => ⟨.error .fault, by simp [denE]⟩
  | .ref v p, h => by
    obtain ⟨r, hr⟩ := h (v, p) (by simp [refs])
    exact ⟨r, by simp [denE, hr]⟩
  | .fail id a, h => by
    by_cases ha : sys.armed id = true
    · exact ⟨.error .fault, by simp [denE, ha]⟩
    · obtain ⟨r, hr⟩ := denE_total sys n a (fun k hk => h k (by simpa [refs] using hk))
      exact ⟨r, by simp [denE, ha, hr]⟩
  | .op1 o a, h => by
    obtain ⟨r, hr⟩ := denE_total sys n a (fun k hk => h k (by simpa [refs] using hk))
    cases r with
    | error e => exact ⟨.error e, by simp [denE, hr]⟩
    | ok x => exact ⟨.ok (sys.f1 o x), by simp [denE, hr]⟩
  | .op2 o a b, h => by
    obtain ⟨ra, hra⟩ := denE_total sys n a (fun k hk => h k (by simp [refs, hk]))
    obtain ⟨rb, hrb⟩ := denE_total sys n b (fun k hk => h k (by simp [refs, hk]))
    cases ra with
    | error e => exact ⟨.error e, by simp [denE, hra]⟩
    | ok x =>
      cases rb with
      | error e => exact ⟨.error e, by simp [denE, hra, hrb]⟩
      | ok y => exact ⟨.ok (sys.f2 o x y), by simp [denE, hra, hrb]⟩

/-- in a variable-ranked system every node has a meaning, reached with `rk v + 1` units of fuel -/
theorem den_total (sys : Sys P) (rk : Nat → Nat) (hr : VarRanked sys rk) :
    ∀ (m : Nat) (v : Nat) (p : P), rk v ≤ m → ∃ r, den sys (m + 1) v p = some r := by
  intro m
  induction m using Nat.strongRecOn with
  | _ m ih =>
    intro v p hv
    unfold den
    cases hin : sys.input v p with
    | some x => exact ⟨_, rfl⟩
    | none =>
      cases hf : sys.formula v p with
      | none => exact ⟨_, rfl⟩
      | some e =>
        have hrefs : ∀ k ∈ refs e, ∃ r, den sys m k.1 k.2 = some r := by
          intro k hk
          have hlt := hr v p e hf k hk
          cases m with
          | zero => omega
          | succ m' => exact ih m' (Nat.lt_succ_self m') k.1 k.2 (by omega)
        obtain ⟨r, hre⟩ := denE_total sys m e hrefs
        simp only [hre]
        cases r with
        | error er => exact ⟨_, rfl⟩
        | ok x => exact ⟨_, rfl⟩

end OFCore.Engine
