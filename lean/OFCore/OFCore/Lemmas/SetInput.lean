import OFCore.SetInput
import OFCore.Lemmas.Calendar
import Mathlib.Tactic.Ring
import Mathlib.Tactic.Linarith
import Mathlib.Tactic.FieldSimp
import Mathlib.Algebra.Order.Field.Rat
/-!
# Lemmas about the spreading of long-period inputs (C16)

Part 1: specification vocabulary (per-entity reading of a store, total of the known pieces,
number of unknown pieces, well-formedness, extensional equality of stores).
Part 2: stores and vectors. Part 3: the two loops (`dispatchOn`, `tally`, `divideOn`).
Part 4: several calls (order). Part 5: the calendar walk.
-/
namespace OFCore

/-! ## 1. specification vocabulary -/

/-- value of entity `i` in a vector (`0` outside) -/
def ent (v : Vec) (i : Nat) : Rat := v.getD i 0

/-- value of entity `i` for the piece `q`: what `calculate` returns (default `0` when unknown) -/
def entAt (s : Store) (q : Period) (i : Nat) : Rat :=
  match sget s q with
  | some v => ent v i
  | none => 0

/-- Σ over the pieces already known, entity `i` -/
def knownSum (s : Store) (subs : List Period) (i : Nat) : Rat :=
  (subs.map (fun q => entAt s q i)).sum

/-- number of pieces without a value -/
def unknownCount (s : Store) (subs : List Period) : Nat :=
  (subs.filter (fun q => (sget s q).isNone)).length

/-- every stored vector has one value per entity -/
def WF (n : Nat) (s : Store) : Prop := ∀ q v, sget s q = some v → v.length = n

/-- same observable content -/
def SameStore (s t : Store) : Prop := ∀ q, sget s q = sget t q

/-- `t` is `s` where every piece of `subs` that was unknown now holds `c` -/
def Filled (s : Store) (subs : List Period) (c : Vec) (t : Store) : Prop :=
  ∀ q, sget t q = match sget s q with
    | some v => some v
    | none => if q ∈ subs then some c else none

/-- several divide inputs in sequence, each on its own list of pieces -/
def runDivide (k : VKind) : Store → List (List Period × Vec) → Except String Store
  | s, [] => .ok s
  | s, (subs, a) :: r =>
    match divideOn k s subs a with
    | .ok s' => runDivide k s' r
    | .error e => .error e

/-- several dispatch inputs in sequence -/
def runDispatch : Store → List (List Period × Vec) → Store
  | s, [] => s
  | s, (subs, a) :: r => runDispatch (dispatchOn s subs a) r

/-! ## 2. stores and vectors -/

theorem sget_sput (s : Store) (p q : Period) (v : Vec) :
    sget (sput s p v) q = if p = q then some v else sget s q := by
  simp [sput, sget]

theorem ent_lt {v : Vec} {i : Nat} (h : i < v.length) : ent v i = v[i] := by
  simp [ent, List.getD, List.getElem?_eq_getElem h]

theorem ent_ge {v : Vec} {i : Nat} (h : v.length ≤ i) : ent v i = 0 := by
  simp [ent, List.getD, List.getElem?_eq_none h]

theorem vsub_length {a b : Vec} (h : a.length = b.length) : (vsub a b).length = a.length := by
  simp [vsub, h]

theorem vadd_length {a b : Vec} (h : a.length = b.length) : (vadd a b).length = a.length := by
  simp [vadd, h]

theorem ent_vsub {a b : Vec} (h : a.length = b.length) (i : Nat) :
    ent (vsub a b) i = ent a i - ent b i := by
  by_cases hi : i < a.length
  · have hb : i < b.length := h ▸ hi
    have hz : i < (vsub a b).length := by rw [vsub_length h]; exact hi
    rw [ent_lt hi, ent_lt hb, ent_lt hz]; simp [vsub]
  · have hi' : a.length ≤ i := Nat.le_of_not_lt hi
    have hb : b.length ≤ i := by omega
    have hz : (vsub a b).length ≤ i := by rw [vsub_length h]; exact hi'
    rw [ent_ge hi', ent_ge hb, ent_ge hz]; simp

theorem ent_vadd {a b : Vec} (h : a.length = b.length) (i : Nat) :
    ent (vadd a b) i = ent a i + ent b i := by
  by_cases hi : i < a.length
  · have hb : i < b.length := h ▸ hi
    have hz : i < (vadd a b).length := by rw [vadd_length h]; exact hi
    rw [ent_lt hi, ent_lt hb, ent_lt hz]; simp [vadd]
  · have hi' : a.length ≤ i := Nat.le_of_not_lt hi
    have hb : b.length ≤ i := by omega
    have hz : (vadd a b).length ≤ i := by rw [vadd_length h]; exact hi'
    rw [ent_ge hi', ent_ge hb, ent_ge hz]; simp

theorem vdivn_length (a : Vec) (n : Nat) : (vdivn a n).length = a.length := by simp [vdivn]

theorem ent_vdivn (a : Vec) (n i : Nat) : ent (vdivn a n) i = ent a i / (n : Rat) := by
  by_cases hi : i < a.length
  · rw [ent_lt hi, ent_lt (by rw [vdivn_length]; exact hi)]; simp [vdivn]
  · have hi' : a.length ≤ i := Nat.le_of_not_lt hi
    rw [ent_ge hi', ent_ge (by rw [vdivn_length]; exact hi')]; simp

theorem vzero_length (n : Nat) : (vzero n).length = n := by simp [vzero]

theorem ent_vzero (n i : Nat) : ent (vzero n) i = 0 := by
  by_cases hi : i < n
  · rw [ent_lt (by rw [vzero_length]; exact hi)]; simp [vzero]
  · exact ent_ge (by rw [vzero_length]; exact Nat.le_of_not_lt hi)

/-- two vectors of the same length with the same entities are equal -/
theorem vec_ext {a b : Vec} (h : a.length = b.length) (he : ∀ i, i < a.length → ent a i = ent b i) : a = b := by
  apply List.ext_getElem h
  intro i h1 h2
  have := he i h1
  rwa [ent_lt h1, ent_lt h2] at this

theorem all_zero_iff (v : Vec) : v.all (fun x => x == 0) = true ↔ ∀ i, i < v.length → ent v i = 0 := by
  constructor
  · intro h i hi
    rw [ent_lt hi]
    have := List.all_eq_true.mp h v[i] (List.getElem_mem hi)
    simpa using this
  · intro h
    apply List.all_eq_true.mpr
    intro x hx
    obtain ⟨i, hi, rfl⟩ := List.getElem_of_mem hx
    have := h i hi
    rw [ent_lt hi] at this
    simpa using this

end OFCore
