import OFCore.SetInput
import OFCore.Lemmas.Calendar
import Mathlib.Tactic.Ring
import Mathlib.Tactic.Linarith
import Mathlib.Tactic.FieldSimp
import Mathlib.Algebra.Order.Field.Rat
/-!
# Lemmas about the spreading of long-period inputs (C16)

Part 1: specification vocabulary (per-entity reading of a store, total of the known pieces,
number of unknown pieces, well-formedness, extensional equality of stores).
Part 2: stores and vectors. Part 3: the two loops (`dispatchOn`, `tally`, `divideOn`).
Part 4: several calls (order). Part 5: the calendar walk. Part 6 (round 2): whole histories
(`feedAll`), the builder's order, `calculate` piece by piece, the loops with `holder._set`, the week
family, order independence as a permutation statement.
-/
namespace OFCore

/-! ## 1. specification vocabulary -/

/-- value of entity `i` in a vector (`0` outside) -/
def ent (v : Vec) (i : Nat) : Rat := v.getD i 0

/-- value of entity `i` for the piece `q`: what `calculate` returns (default `0` when unknown) -/
def entAt (s : Store) (q : Period) (i : Nat) : Rat :=
  match sget s q with
  | some v => ent v i
  | none => 0

/-- Σ over the pieces already known, entity `i` -/
def knownSum (s : Store) (subs : List Period) (i : Nat) : Rat :=
  (subs.map (fun q => entAt s q i)).sum

/-- number of pieces without a value -/
def unknownCount (s : Store) (subs : List Period) : Nat :=
  (subs.filter (fun q => (sget s q).isNone)).length

/-- every stored vector has one value per entity -/
def WF (n : Nat) (s : Store) : Prop := ∀ q v, sget s q = some v → v.length = n

/-- same observable content -/
def SameStore (s t : Store) : Prop := ∀ q, sget s q = sget t q

/-- `t` is `s` where every piece of `subs` that was unknown now holds `c` -/
def Filled (s : Store) (subs : List Period) (c : Vec) (t : Store) : Prop :=
  ∀ q, sget t q = match sget s q with
    | some v => some v
    | none => if q ∈ subs then some c else none

/-- several divide inputs in sequence, each on its own list of pieces -/
def runDivide (k : VKind) : Store → List (List Period × Vec) → Except String Store
  | s, [] => .ok s
  | s, (subs, a) :: r =>
    match divideOn k s subs a with
    | .ok s' => runDivide k s' r
    | .error e => .error e

/-- several dispatch inputs in sequence -/
def runDispatch : Store → List (List Period × Vec) → Store
  | s, [] => s
  | s, (subs, a) :: r => runDispatch (dispatchOn s subs a) r

/-- helpers for the concrete examples: did it succeed, and with which store -/
def isOk {α : Type} (r : Except String α) : Bool := match r with | .ok _ => true | .error _ => false
def okStore (r : Except String Store) : Store := match r with | .ok t => t | .error _ => []

theorem ok_of_isOk {r : Except String Store} (h : isOk r = true) : r = .ok (okStore r) := by
  cases r with
  | ok t => rfl
  | error e => cases h

/-! ## 2. stores and vectors -/

theorem sget_sput (s : Store) (p q : Period) (v : Vec) :
    sget (sput s p v) q = if p = q then some v else sget s q := by
  simp [sput, sget]

theorem ent_lt {v : Vec} {i : Nat} (h : i < v.length) : ent v i = v[i] := by
  simp [ent, List.getD, List.getElem?_eq_getElem h]

theorem ent_ge {v : Vec} {i : Nat} (h : v.length ≤ i) : ent v i = 0 := by
  simp [ent, List.getD, List.getElem?_eq_none h]

theorem vsub_length {a b : Vec} (h : a.length = b.length) : (vsub a b).length = a.length := by
  simp [vsub, h]

theorem vadd_length {a b : Vec} (h : a.length = b.length) : (vadd a b).length = a.length := by
  simp [vadd, h]

theorem ent_vsub {a b : Vec} (h : a.length = b.length) (i : Nat) :
    ent (vsub a b) i = ent a i - ent b i := by
  by_cases hi : i < a.length
  · have hb : i < b.length := h ▸ hi
    have hz : i < (vsub a b).length := by rw [vsub_length h]; exact hi
    rw [ent_lt hi, ent_lt hb, ent_lt hz]; simp [vsub]
  · have hi' : a.length ≤ i := Nat.le_of_not_lt hi
    have hb : b.length ≤ i := by omega
    have hz : (vsub a b).length ≤ i := by rw [vsub_length h]; exact hi'
    rw [ent_ge hi', ent_ge hb, ent_ge hz]; simp

theorem ent_vadd {a b : Vec} (h : a.length = b.length) (i : Nat) :
    ent (vadd a b) i = ent a i + ent b i := by
  by_cases hi : i < a.length
  · have hb : i < b.length := h ▸ hi
    have hz : i < (vadd a b).length := by rw [vadd_length h]; exact hi
    rw [ent_lt hi, ent_lt hb, ent_lt hz]; simp [vadd]
  · have hi' : a.length ≤ i := Nat.le_of_not_lt hi
    have hb : b.length ≤ i := by omega
    have hz : (vadd a b).length ≤ i := by rw [vadd_length h]; exact hi'
    rw [ent_ge hi', ent_ge hb, ent_ge hz]; simp

theorem vdivn_length (a : Vec) (n : Nat) : (vdivn a n).length = a.length := by simp [vdivn]

theorem ent_vdivn (a : Vec) (n i : Nat) : ent (vdivn a n) i = ent a i / (n : Rat) := by
  by_cases hi : i < a.length
  · rw [ent_lt hi, ent_lt (by rw [vdivn_length]; exact hi)]; simp [vdivn]
  · have hi' : a.length ≤ i := Nat.le_of_not_lt hi
    rw [ent_ge hi', ent_ge (by rw [vdivn_length]; exact hi')]; simp

theorem vzero_length (n : Nat) : (vzero n).length = n := by simp [vzero]

theorem ent_vzero (n i : Nat) : ent (vzero n) i = 0 := by
  by_cases hi : i < n
  · rw [ent_lt (by rw [vzero_length]; exact hi)]; simp [vzero]
  · exact ent_ge (by rw [vzero_length]; exact Nat.le_of_not_lt hi)

/-- two vectors of the same length with the same entities are equal -/
theorem vec_ext {a b : Vec} (h : a.length = b.length) (he : ∀ i, i < a.length → ent a i = ent b i) : a = b := by
  apply List.ext_getElem h
  intro i h1 h2
  have := he i h1
  rwa [ent_lt h1, ent_lt h2] at this

theorem all_zero_iff (v : Vec) : v.all (fun x => x == 0) = true ↔ ∀ i, i < v.length → ent v i = 0 := by
  constructor
  · intro h i hi
    rw [ent_lt hi]
    have := List.all_eq_true.mp h v[i] (List.getElem_mem hi)
    simpa using this
  · intro h
    apply List.all_eq_true.mpr
    intro x hx
    obtain ⟨i, hi, rfl⟩ := List.getElem_of_mem hx
    have := h i hi
    rw [ent_lt hi] at this
    simpa using this

/-! ## 3. the two loops -/

theorem sget_dispatchOn (s : Store) (subs : List Period) (a : Vec) (q : Period) :
    sget (dispatchOn s subs a) q =
      match sget s q with
      | some v => some v
      | none => if q ∈ subs then some a else none := by
  induction subs generalizing s with
  | nil => simp only [dispatchOn, List.foldl_nil]; cases sget s q <;> simp
  | cons x xs ih =>
    have ih' := ih (fillStep a s x)
    simp only [dispatchOn, List.foldl_cons] at ih' ⊢
    rw [ih']
    unfold fillStep
    cases hx : sget s x with
    | none =>
      simp only [sget_sput]
      by_cases hxq : x = q
      · subst hxq; simp [hx]
      · have : ¬ q = x := fun e => hxq e.symm
        simp only [if_neg hxq, List.mem_cons, this, false_or]
    | some w =>
      simp only
      by_cases hxq : x = q
      · subst hxq; simp [hx]
      · have : ¬ q = x := fun e => hxq e.symm
        simp only [List.mem_cons, this, false_or]

theorem dispatchOn_filled (s : Store) (subs : List Period) (a : Vec) : Filled s subs a (dispatchOn s subs a) :=
  fun q => sget_dispatchOn s subs a q

theorem knownSum_nil (s : Store) (i : Nat) : knownSum s [] i = 0 := by simp [knownSum]

theorem knownSum_cons (s : Store) (x : Period) (xs : List Period) (i : Nat) :
    knownSum s (x :: xs) i = entAt s x i + knownSum s xs i := by simp [knownSum]

theorem unknownCount_nil (s : Store) : unknownCount s [] = 0 := by simp [unknownCount]

theorem unknownCount_cons_none (s : Store) (x : Period) (xs : List Period) (h : sget s x = none) :
    unknownCount s (x :: xs) = unknownCount s xs + 1 := by simp [unknownCount, h]

theorem unknownCount_cons_some (s : Store) (x : Period) (xs : List Period) (v : Vec) (h : sget s x = some v) :
    unknownCount s (x :: xs) = unknownCount s xs := by simp [unknownCount, h]

theorem entAt_none {s : Store} {q : Period} (h : sget s q = none) (i : Nat) : entAt s q i = 0 := by
  simp [entAt, h]

theorem entAt_some {s : Store} {q : Period} {v : Vec} (h : sget s q = some v) (i : Nat) : entAt s q i = ent v i := by
  simp [entAt, h]

theorem unknownCount_pos_iff (s : Store) (subs : List Period) :
    0 < unknownCount s subs ↔ ∃ q, q ∈ subs ∧ sget s q = none := by
  induction subs with
  | nil => simp [unknownCount]
  | cons x xs ih =>
    cases hx : sget s x with
    | none => rw [unknownCount_cons_none s x xs hx]; constructor
              · intro _; exact ⟨x, List.mem_cons_self, hx⟩
              · intro _; omega
    | some v =>
      rw [unknownCount_cons_some s x xs v hx, ih]
      constructor
      · rintro ⟨q, hq, h⟩; exact ⟨q, List.mem_cons_of_mem _ hq, h⟩
      · rintro ⟨q, hq, h⟩
        rcases List.mem_cons.mp hq with rfl | hq
        · rw [hx] at h; cases h
        · exact ⟨q, hq, h⟩

theorem unknownCount_zero_iff (s : Store) (subs : List Period) :
    unknownCount s subs = 0 ↔ ∀ q, q ∈ subs → sget s q ≠ none := by
  have := unknownCount_pos_iff s subs
  constructor
  · intro h q hq hn
    have : 0 < unknownCount s subs := this.mpr ⟨q, hq, hn⟩
    omega
  · intro h
    by_contra hne
    obtain ⟨q, hq, hn⟩ := this.mp (Nat.pos_of_ne_zero hne)
    exact h q hq hn

/-- the counting loop, from any accumulator -/
theorem tally_fold (n : Nat) (s : Store) (hwf : WF n s) (subs : List Period) (r : Vec) (c : Nat)
    (hr : r.length = n) :
    (subs.foldl (tallyStep s) (r, c)).1.length = n ∧
    (∀ i, ent (subs.foldl (tallyStep s) (r, c)).1 i = ent r i - knownSum s subs i) ∧
    (subs.foldl (tallyStep s) (r, c)).2 = c + unknownCount s subs := by
  induction subs generalizing r c with
  | nil => simp [knownSum_nil, unknownCount_nil, hr]
  | cons x xs ih =>
    simp only [List.foldl_cons]
    cases hx : sget s x with
    | none =>
      have e : tallyStep s (r, c) x = (r, c + 1) := by simp [tallyStep, hx]
      rw [e]
      obtain ⟨h1, h2, h3⟩ := ih r (c + 1) hr
      refine ⟨h1, ?_, ?_⟩
      · intro i; rw [h2 i, knownSum_cons, entAt_none hx]; ring
      · rw [h3, unknownCount_cons_none s x xs hx]; omega
    | some e' =>
      have e : tallyStep s (r, c) x = (vsub r e', c) := by simp [tallyStep, hx]
      rw [e]
      have hl : r.length = e'.length := by rw [hr, hwf x e' hx]
      obtain ⟨h1, h2, h3⟩ := ih (vsub r e') c (by rw [vsub_length hl, hr])
      refine ⟨h1, ?_, ?_⟩
      · intro i; rw [h2 i, knownSum_cons, entAt_some hx, ent_vsub hl]; ring
      · rw [h3, unknownCount_cons_some s x xs e' hx]

theorem tally_spec (s : Store) (subs : List Period) (a : Vec) (hwf : WF a.length s) :
    (tally s subs a).1.length = a.length ∧
    (∀ i, ent (tally s subs a).1 i = ent a i - knownSum s subs i) ∧
    (tally s subs a).2 = unknownCount s subs := by
  have := tally_fold a.length s hwf subs a 0 rfl
  simpa [tally] using this

/-- Σ over the pieces of "the known value, else `c`" -/
theorem sum_known_or (s : Store) (subs : List Period) (c : Rat) (i : Nat) :
    (subs.map (fun q => match sget s q with | some v => ent v i | none => c)).sum =
      knownSum s subs i + (unknownCount s subs : Rat) * c := by
  induction subs with
  | nil => simp [knownSum_nil, unknownCount_nil]
  | cons x xs ih =>
    simp only [List.map_cons, List.sum_cons, ih, knownSum_cons]
    cases hx : sget s x with
    | none => rw [unknownCount_cons_none s x xs hx, entAt_none hx]; push_cast; ring
    | some v => rw [unknownCount_cons_some s x xs v hx, entAt_some hx]; ring

/-- reading of a filled store, entity by entity -/
theorem entAt_filled {s t : Store} {subs : List Period} {c : Vec} (hf : Filled s subs c t) (q : Period)
    (hq : q ∈ subs) (i : Nat) :
    entAt t q i = match sget s q with | some v => ent v i | none => ent c i := by
  have := hf q
  cases hs : sget s q with
  | none => rw [hs] at this; simp only [hq, if_true] at this; simp [entAt, this]
  | some v => rw [hs] at this; simp [entAt, this]

theorem knownSum_filled {s t : Store} {subs : List Period} {c : Vec} (hf : Filled s subs c t) (i : Nat) :
    knownSum t subs i = knownSum s subs i + (unknownCount s subs : Rat) * ent c i := by
  rw [← sum_known_or]
  unfold knownSum
  congr 1
  apply List.map_congr_left
  intro q hq
  exact entAt_filled hf q hq i

theorem filled_known {s t : Store} {subs : List Period} {c : Vec} (hf : Filled s subs c t) (q : Period)
    (hq : q ∈ subs) : sget t q ≠ none := by
  have := hf q
  cases hs : sget s q <;> rw [hs] at this <;> simp [hq] at this <;> simp [this]

theorem filled_wf {n : Nat} {s t : Store} {subs : List Period} {c : Vec} (hf : Filled s subs c t)
    (hwf : WF n s) (hc : c.length = n) : WF n t := by
  intro q v hv
  have := hf q
  rw [hv] at this
  cases hs : sget s q with
  | none =>
    rw [hs] at this
    by_cases hq : q ∈ subs
    · simp [hq] at this; rw [this]; exact hc
    · simp [hq] at this
  | some w => rw [hs] at this; simp at this; rw [this]; exact hwf q w hs

/-- **specification of `divide`** (exact values): it succeeds exactly when some vector `c` satisfies
`amount = Σ known + #unknown · c` entity by entity, and then every unknown piece holds `c` -/
theorem divideOn_ok_spec {s t : Store} {subs : List Period} {a : Vec} (hwf : WF a.length s)
    (h : divideOn .num s subs a = .ok t) :
    ∃ c : Vec, c.length = a.length ∧ Filled s subs c t ∧
      (∀ i, ent a i = knownSum s subs i + (unknownCount s subs : Rat) * ent c i) ∧
      (0 < unknownCount s subs → ∀ i, ent c i = (ent a i - knownSum s subs i) / (unknownCount s subs : Rat)) := by
  obtain ⟨hl, he, hc⟩ := tally_spec s subs a hwf
  unfold divideOn at h
  simp only [hc] at h
  by_cases hu : unknownCount s subs > 0
  · rw [if_pos hu] at h
    injection h with h
    subst h
    have hne : (unknownCount s subs : Rat) ≠ 0 := by exact_mod_cast Nat.pos_iff_ne_zero.mp hu
    refine ⟨vdivn (tally s subs a).1 (unknownCount s subs), by rw [vdivn_length, hl], ?_, ?_, ?_⟩
    · exact dispatchOn_filled _ _ _
    · intro i; rw [ent_vdivn, he i]; field_simp; ring
    · intro _ i; rw [ent_vdivn, he i]
  · rw [if_neg hu] at h
    have hu0 : unknownCount s subs = 0 := by omega
    by_cases hz : (tally s subs a).1.all (fun x => x == 0) = true
    · rw [if_pos hz] at h
      injection h with h
      subst h
      refine ⟨a, rfl, ?_, ?_, fun h => absurd h hu⟩
      · intro q
        cases hs : sget s q with
        | some v => rfl
        | none =>
          by_cases hq : q ∈ subs
          · exact absurd hs ((unknownCount_zero_iff s subs).mp hu0 q hq)
          · simp [hq]
      · intro i
        rw [hu0]
        by_cases hi : i < a.length
        · have := (all_zero_iff _).mp hz i (by rw [hl]; exact hi)
          rw [he i] at this
          push_cast; linarith
        · have h0 := he i
          rw [ent_ge (v := (tally s subs a).1) (by rw [hl]; omega), ent_ge (v := a) (by omega)] at h0
          rw [ent_ge (v := a) (by omega)]
          push_cast; linarith
    · rw [if_neg hz] at h; cases h

theorem divideOn_of_spec {s : Store} {subs : List Period} {a c : Vec} (hwf : WF a.length s)
    (hcl : c.length = a.length)
    (hc : ∀ i, i < a.length → ent a i = knownSum s subs i + (unknownCount s subs : Rat) * ent c i) :
    ∃ t, divideOn .num s subs a = .ok t ∧ Filled s subs c t := by
  obtain ⟨hl, he, hcnt⟩ := tally_spec s subs a hwf
  unfold divideOn
  simp only [hcnt]
  by_cases hu : unknownCount s subs > 0
  · rw [if_pos hu]
    have hne : (unknownCount s subs : Rat) ≠ 0 := by exact_mod_cast Nat.pos_iff_ne_zero.mp hu
    have hsh : castVec .num (vdivn (tally s subs a).1 (unknownCount s subs)) = c := by
      apply vec_ext
      · simp [castVec, vdivn_length, hl, hcl]
      · intro i hi
        simp only [castVec, vdivn_length, hl] at hi ⊢
        rw [ent_vdivn, he i, hc i hi]; field_simp; ring
    rw [hsh]
    exact ⟨_, rfl, dispatchOn_filled _ _ _⟩
  · rw [if_neg hu]
    have hu0 : unknownCount s subs = 0 := by omega
    have hz : (tally s subs a).1.all (fun x => x == 0) = true := by
      apply (all_zero_iff _).mpr
      intro i hi
      rw [hl] at hi
      rw [he i, hc i hi, hu0]; push_cast; ring
    rw [if_pos hz]
    refine ⟨s, rfl, ?_⟩
    intro q
    cases hs : sget s q with
    | some v => rfl
    | none =>
      by_cases hq : q ∈ subs
      · exact absurd hs ((unknownCount_zero_iff s subs).mp hu0 q hq)
      · simp [hq]

/-- refusal: everything known and some entity's amount differs from the total -/
theorem divideOn_error_iff {s : Store} {subs : List Period} {a : Vec} (k : VKind) (hwf : WF a.length s) :
    (∃ e, divideOn k s subs a = .error e) ↔
      unknownCount s subs = 0 ∧ ∃ i, i < a.length ∧ ent a i ≠ knownSum s subs i := by
  obtain ⟨hl, he, hcnt⟩ := tally_spec s subs a hwf
  unfold divideOn
  simp only [hcnt]
  by_cases hu : unknownCount s subs > 0
  · rw [if_pos hu]
    constructor
    · rintro ⟨e, h⟩; cases h
    · rintro ⟨h0, _⟩; omega
  · rw [if_neg hu]
    have hu0 : unknownCount s subs = 0 := by omega
    by_cases hz : (tally s subs a).1.all (fun x => x == 0) = true
    · rw [if_pos hz]
      constructor
      · rintro ⟨e, h⟩; cases h
      · rintro ⟨_, i, hi, hne⟩
        have := (all_zero_iff _).mp hz i (by rw [hl]; exact hi)
        rw [he i] at this
        exact absurd (by linarith) hne
    · rw [if_neg hz]
      constructor
      · intro _
        refine ⟨hu0, ?_⟩
        by_contra hcon
        apply hz
        apply (all_zero_iff _).mpr
        intro i hi
        rw [hl] at hi
        rw [he i]
        by_contra hne
        exact hcon ⟨i, hi, fun h => hne (by linarith)⟩
      · intro _; exact ⟨_, rfl⟩

/-! ### the sum over the pieces (`calculate_add`) -/

theorem sget_fillStep (a : Vec) (s : Store) (x q : Period) :
    sget (fillStep a s x) q = match sget s q with
      | some v => some v
      | none => if q = x then some a else none := by
  have := sget_dispatchOn s [x] a q
  simpa [dispatchOn] using this

theorem fillStep_wf {n : Nat} {s : Store} (hwf : WF n s) (a : Vec) (ha : a.length = n) (x : Period) :
    WF n (fillStep a s x) := by
  intro q v hv
  rw [sget_fillStep] at hv
  cases hs : sget s q with
  | some w => rw [hs] at hv; simp at hv; rw [← hv]; exact hwf q w hs
  | none =>
    rw [hs] at hv
    by_cases hq : q = x
    · simp [hq] at hv; rw [← hv]; exact ha
    · simp [hq] at hv

theorem entAt_fillStep_zero (n : Nat) (s : Store) (x q : Period) (i : Nat) :
    entAt (fillStep (vzero n) s x) q i = entAt s q i := by
  unfold entAt
  rw [sget_fillStep]
  cases hs : sget s q with
  | some w => rfl
  | none => by_cases hq : q = x <;> simp [hq, ent_vzero]

theorem knownSum_fillStep_zero (n : Nat) (s : Store) (x : Period) (subs : List Period) (i : Nat) :
    knownSum (fillStep (vzero n) s x) subs i = knownSum s subs i := by
  unfold knownSum
  congr 1
  apply List.map_congr_left
  intro q _
  exact entAt_fillStep_zero n s x q i

theorem sumStep_eq (n : Nat) (r : Vec) (s : Store) (x : Period) :
    sumStep n (r, s) x = (vadd r ((sget s x).getD (vzero n)), fillStep (vzero n) s x) := by
  unfold sumStep fillStep
  cases sget s x <;> simp

theorem sumOver_fold (n : Nat) (subs : List Period) (s : Store) (hwf : WF n s) (r : Vec) (hr : r.length = n) :
    (subs.foldl (sumStep n) (r, s)).2 = dispatchOn s subs (vzero n) ∧
    (subs.foldl (sumStep n) (r, s)).1.length = n ∧
    ∀ i, ent (subs.foldl (sumStep n) (r, s)).1 i = ent r i + knownSum s subs i := by
  induction subs generalizing s r with
  | nil => simp [dispatchOn, knownSum_nil, hr]
  | cons x xs ih =>
    simp only [List.foldl_cons, sumStep_eq, dispatchOn]
    have hv : ((sget s x).getD (vzero n)).length = n := by
      cases hs : sget s x with
      | none => simp [vzero_length]
      | some w => simpa using hwf x w hs
    have hl : r.length = ((sget s x).getD (vzero n)).length := by rw [hr, hv]
    obtain ⟨h1, h2, h3⟩ := ih (fillStep (vzero n) s x) (fillStep_wf hwf _ (vzero_length n) x)
      (vadd r ((sget s x).getD (vzero n))) (by rw [vadd_length hl, hr])
    refine ⟨by simpa [dispatchOn] using h1, h2, ?_⟩
    intro i
    rw [h3 i, ent_vadd hl, knownSum_fillStep_zero, knownSum_cons]
    have : ent ((sget s x).getD (vzero n)) i = entAt s x i := by
      unfold entAt
      cases hs : sget s x <;> simp [ent_vzero]
    rw [this]; ring

/-- `calculate_add` over `subs`: entity by entity the sum of the stored values (default 0), and
the store in which the unknown pieces now hold the default -/
theorem sumOver_spec (n : Nat) (s : Store) (hwf : WF n s) (subs : List Period) :
    (sumOver n s subs).2 = dispatchOn s subs (vzero n) ∧ (sumOver n s subs).1.length = n ∧
    ∀ i, ent (sumOver n s subs).1 i = knownSum s subs i := by
  obtain ⟨h1, h2, h3⟩ := sumOver_fold n subs s hwf (vzero n) (vzero_length n)
  refine ⟨h1, h2, ?_⟩
  intro i
  have := h3 i
  rw [ent_vzero] at this
  simpa [sumOver] using this

theorem dispatchOn_all_known (s : Store) (subs : List Period) (a : Vec)
    (hk : ∀ q, q ∈ subs → sget s q ≠ none) : dispatchOn s subs a = s := by
  induction subs with
  | nil => rfl
  | cons x xs ih =>
    have hx : fillStep a s x = s := by
      unfold fillStep
      cases hs : sget s x with
      | none => exact absurd hs (hk x List.mem_cons_self)
      | some w => rfl
    simp only [dispatchOn, List.foldl_cons, hx]
    exact ih (fun q hq => hk q (List.mem_cons_of_mem _ hq))

/-! ## 4. several inputs: order -/

/-- `t` lies between `s` and the filling of `s` with `c` on `subs` -/
def Mid (s : Store) (subs : List Period) (c : Vec) (t : Store) : Prop :=
  ∀ q, sget t q = sget s q ∨ (sget s q = none ∧ q ∈ subs ∧ sget t q = some c)

theorem mid_refl (s : Store) (subs : List Period) (c : Vec) : Mid s subs c s := fun _ => Or.inl rfl

theorem mid_sum {s t : Store} {subs : List Period} {c : Vec} (hm : Mid s subs c t) (l : List Period) (i : Nat) :
    knownSum t l i + (unknownCount t l : Rat) * ent c i =
      knownSum s l i + (unknownCount s l : Rat) * ent c i := by
  induction l with
  | nil => simp [knownSum_nil, unknownCount_nil]
  | cons x xs ih =>
    rw [knownSum_cons, knownSum_cons]
    rcases hm x with h | ⟨hs, _, ht⟩
    · cases hsx : sget s x with
      | none =>
        have htx : sget t x = none := by rw [h, hsx]
        rw [unknownCount_cons_none s x xs hsx, unknownCount_cons_none t x xs htx,
          entAt_none hsx, entAt_none htx]
        push_cast; linarith
      | some v =>
        have htx : sget t x = some v := by rw [h, hsx]
        rw [unknownCount_cons_some s x xs v hsx, unknownCount_cons_some t x xs v htx,
          entAt_some hsx, entAt_some htx]
        linarith
    · rw [unknownCount_cons_none s x xs hs, unknownCount_cons_some t x xs c ht,
        entAt_none hs, entAt_some ht]
      push_cast; linarith

theorem knownSum_filled_sub {s t : Store} {subs : List Period} {c : Vec} (hf : Filled s subs c t)
    (l : List Period) (hl : ∀ q, q ∈ l → q ∈ subs) (i : Nat) :
    knownSum t l i = knownSum s l i + (unknownCount s l : Rat) * ent c i := by
  rw [← sum_known_or]
  unfold knownSum
  congr 1
  apply List.map_congr_left
  intro q hq
  exact entAt_filled hf q (hl q hq) i

theorem divideOn_all_known {k : VKind} {s t : Store} {subs : List Period} {a : Vec} (hwf : WF a.length s)
    (hu : unknownCount s subs = 0) (h : divideOn k s subs a = .ok t) : t = s := by
  obtain ⟨_, _, hcnt⟩ := tally_spec s subs a hwf
  unfold divideOn at h
  simp only [hcnt, hu, Nat.lt_irrefl, if_false] at h
  split at h
  · injection h with h; exact h.symm
  · cases h

theorem filled_mid {s t : Store} {subs : List Period} {c : Vec} (hf : Filled s subs c t) : Mid s subs c t := by
  intro q
  have := hf q
  cases hs : sget s q with
  | some v => rw [hs] at this; left; rw [this]
  | none =>
    rw [hs] at this
    by_cases hq : q ∈ subs
    · right; simp [hq] at this; exact ⟨rfl, hq, this⟩
    · left; simp [hq] at this; exact this

/-- an input consistent with the final store `s1`, given at an intermediate store, is accepted and
stays intermediate -/
theorem mid_step {n : Nat} {s s1 t : Store} {subs l : List Period} {c x : Vec} (hwt : WF n t)
    (hcl : c.length = n) (hx : x.length = n) (hf : Filled s subs c s1) (hm : Mid s subs c t)
    (hl : ∀ q, q ∈ l → q ∈ subs) (hcons : ∀ i, i < n → ent x i = knownSum s1 l i) :
    ∃ t', divideOn .num t l x = .ok t' ∧ Mid s subs c t' ∧ WF n t' := by
  have hspec : ∀ i, i < x.length → ent x i = knownSum t l i + (unknownCount t l : Rat) * ent c i := by
    intro i hi
    rw [hcons i (hx ▸ hi), knownSum_filled_sub hf l hl i, mid_sum hm l i]
  obtain ⟨t', hd, hft⟩ := divideOn_of_spec (s := t) (subs := l) (a := x) (c := c) (hx ▸ hwt) (by rw [hcl, hx]) hspec
  refine ⟨t', hd, ?_, filled_wf hft hwt hcl⟩
  intro q
  have h1 := hft q
  cases htq : sget t q with
  | some v =>
    rw [htq] at h1
    simp only at h1
    rcases hm q with h | ⟨hs, hq, ht⟩
    · left; rw [h1, ← h, htq]
    · right; exact ⟨hs, hq, by rw [h1, ← htq]; exact ht⟩
  | none =>
    rw [htq] at h1
    have hsq : sget s q = none := by
      rcases hm q with h | ⟨_, _, ht⟩
      · rw [← h, htq]
      · rw [htq] at ht; cases ht
    by_cases hq : q ∈ l
    · right; simp [hq] at h1; exact ⟨hsq, hl q hq, h1⟩
    · left; simp [hq] at h1; rw [h1, hsq]

/-- the long input given last, at an intermediate store, reproduces `s1` -/
theorem mid_final {s s1 t : Store} {subs : List Period} {c a : Vec} (hwt : WF a.length t)
    (hcl : c.length = a.length) (hf : Filled s subs c s1) (hm : Mid s subs c t)
    (ha : ∀ i, ent a i = knownSum s subs i + (unknownCount s subs : Rat) * ent c i) :
    ∃ t', divideOn .num t subs a = .ok t' ∧ SameStore t' s1 := by
  have hspec : ∀ i, i < a.length → ent a i = knownSum t subs i + (unknownCount t subs : Rat) * ent c i := by
    intro i _
    rw [ha i, mid_sum hm subs i]
  obtain ⟨t', hd, hft⟩ := divideOn_of_spec hwt hcl hspec
  refine ⟨t', hd, ?_⟩
  intro q
  rw [hft q, hf q]
  rcases hm q with h | ⟨hs, hq, ht⟩
  · rw [h]
  · rw [hs, ht]; simp [hq]

theorem runDivide_append (k : VKind) (s : Store) (c1 c2 : List (List Period × Vec)) :
    runDivide k s (c1 ++ c2) =
      match runDivide k s c1 with
      | .ok s' => runDivide k s' c2
      | .error e => .error e := by
  induction c1 generalizing s with
  | nil => simp [runDivide]
  | cons x xs ih =>
    obtain ⟨l, a⟩ := x
    simp only [List.cons_append, runDivide]
    cases divideOn k s l a with
    | ok s' => exact ih s'
    | error e => rfl

theorem divideOn_wf {n : Nat} {s t : Store} {subs : List Period} {a : Vec} (hwf : WF n s) (ha : a.length = n)
    (h : divideOn .num s subs a = .ok t) : WF n t := by
  subst ha
  obtain ⟨c, hcl, hf, _, _⟩ := divideOn_ok_spec hwf h
  exact filled_wf hf hwf hcl

theorem runDivide_wf {n : Nat} {s t : Store} {calls : List (List Period × Vec)} (hwf : WF n s)
    (hc : ∀ lx, lx ∈ calls → lx.2.length = n) (h : runDivide .num s calls = .ok t) : WF n t := by
  induction calls generalizing s with
  | nil => simp [runDivide] at h; rw [← h]; exact hwf
  | cons x xs ih =>
    obtain ⟨l, a⟩ := x
    simp only [runDivide] at h
    cases hd : divideOn .num s l a with
    | error e => rw [hd] at h; cases h
    | ok s' =>
      rw [hd] at h
      exact ih (divideOn_wf hwf (hc (l, a) List.mem_cons_self) hd)
        (fun lx hlx => hc lx (List.mem_cons_of_mem _ hlx)) h

/-- inputs inside a long period that was given first: accepted only if they change nothing, and then
the same inputs given *before* the long one are accepted too and lead to an intermediate store -/
theorem runDivide_after_long {n : Nat} {s s1 : Store} {subs : List Period} {c : Vec} (hcl : c.length = n)
    (hf : Filled s subs c s1) (hw1 : WF n s1) (calls : List (List Period × Vec))
    (hc : ∀ lx, lx ∈ calls → (∀ q, q ∈ lx.1 → q ∈ subs) ∧ lx.2.length = n)
    (s2 : Store) (h2 : runDivide .num s1 calls = .ok s2) (t : Store) (hwt : WF n t) (hm : Mid s subs c t) :
    s2 = s1 ∧ ∃ t', runDivide .num t calls = .ok t' ∧ Mid s subs c t' ∧ WF n t' := by
  induction calls generalizing t with
  | nil => simp [runDivide] at h2 ⊢; exact ⟨h2.symm, hm, hwt⟩
  | cons x xs ih =>
    obtain ⟨l, a⟩ := x
    obtain ⟨hl, hal⟩ := hc (l, a) List.mem_cons_self
    simp only at hl hal
    simp only [runDivide] at h2 ⊢
    cases hd : divideOn .num s1 l a with
    | error e => rw [hd] at h2; cases h2
    | ok s1' =>
      rw [hd] at h2
      have hu : unknownCount s1 l = 0 :=
        (unknownCount_zero_iff s1 l).mpr (fun q hq => filled_known hf q (hl q hq))
      have hw1' : WF a.length s1 := hal ▸ hw1
      have e : s1' = s1 := divideOn_all_known hw1' hu hd
      subst e
      obtain ⟨c', _, _, hsum, _⟩ := divideOn_ok_spec hw1' hd
      have hcons : ∀ i, i < n → ent a i = knownSum s1' l i := by
        intro i _
        rw [hsum i, hu]; push_cast; ring
      obtain ⟨t', hdt, hmt, hwt'⟩ := mid_step hwt hcl hal hf hm hl hcons
      rw [hdt]
      exact ih (fun lx hlx => hc lx (List.mem_cons_of_mem _ hlx)) h2 t' hwt' hmt

/-! ### any accepted order against shortest-first (laminar families) -/

theorem sameStore_refl (s : Store) : SameStore s s := fun _ => rfl
theorem sameStore_symm {s t : Store} (h : SameStore s t) : SameStore t s := fun q => (h q).symm
theorem sameStore_trans {s t u : Store} (h1 : SameStore s t) (h2 : SameStore t u) : SameStore s u :=
  fun q => (h1 q).trans (h2 q)

theorem wf_of_sameStore {n : Nat} {s t : Store} (h : SameStore s t) (hwf : WF n s) : WF n t :=
  fun q v hv => hwf q v (by rw [h q]; exact hv)

theorem tally_fold_congr (s s' : Store) (l : List Period) (hag : ∀ q, q ∈ l → sget s q = sget s' q)
    (acc : Vec × Nat) : l.foldl (tallyStep s) acc = l.foldl (tallyStep s') acc := by
  induction l generalizing acc with
  | nil => rfl
  | cons x xs ih =>
    simp only [List.foldl_cons]
    have e : tallyStep s acc x = tallyStep s' acc x := by
      unfold tallyStep; rw [hag x List.mem_cons_self]
    rw [e]
    exact ih (fun q hq => hag q (List.mem_cons_of_mem _ hq)) _

theorem tally_congr (s s' : Store) (l : List Period) (a : Vec) (hag : ∀ q, q ∈ l → sget s q = sget s' q) :
    tally s l a = tally s' l a := tally_fold_congr s s' l hag (a, 0)

theorem dispatchOn_congr {s s' : Store} (h : SameStore s s') (l : List Period) (c : Vec) :
    SameStore (dispatchOn s l c) (dispatchOn s' l c) := by
  intro q; rw [sget_dispatchOn, sget_dispatchOn, h q]

/-- `divide` only reads the store through `get_array` -/
theorem divideOn_congr {k : VKind} {s s' t : Store} {l : List Period} {a : Vec} (h : SameStore s s')
    (hd : divideOn k s l a = .ok t) : ∃ t', divideOn k s' l a = .ok t' ∧ SameStore t t' := by
  have e := tally_congr s s' l a (fun q _ => h q)
  unfold divideOn at hd ⊢
  simp only [← e] at hd ⊢
  split at hd
  · rename_i hpos
    rw [if_pos hpos]
    injection hd with hd; subst hd
    exact ⟨_, rfl, dispatchOn_congr h l _⟩
  · rename_i hpos
    rw [if_neg hpos]
    split at hd
    · rename_i hz
      rw [if_pos hz]
      injection hd with hd; subst hd
      exact ⟨_, rfl, h⟩
    · cases hd

theorem runDivide_congr {k : VKind} {s s' t : Store} {calls : List (List Period × Vec)} (h : SameStore s s')
    (hr : runDivide k s calls = .ok t) : ∃ t', runDivide k s' calls = .ok t' ∧ SameStore t t' := by
  induction calls generalizing s s' with
  | nil => simp only [runDivide] at hr ⊢; injection hr with hr; subst hr; exact ⟨_, rfl, h⟩
  | cons x xs ih =>
    obtain ⟨l, a⟩ := x
    simp only [runDivide] at hr ⊢
    cases hd : divideOn k s l a with
    | error e => rw [hd] at hr; cases hr
    | ok s1 =>
      rw [hd] at hr
      obtain ⟨s1', hd', hs1⟩ := divideOn_congr h hd
      rw [hd']
      exact ih hs1 hr

theorem knownSum_congr (s s' : Store) (l : List Period) (hag : ∀ q, q ∈ l → sget s q = sget s' q) (i : Nat) :
    knownSum s l i = knownSum s' l i := by
  unfold knownSum
  congr 1
  apply List.map_congr_left
  intro q hq
  unfold entAt; rw [hag q hq]

theorem unknownCount_congr (s s' : Store) (l : List Period) (hag : ∀ q, q ∈ l → sget s q = sget s' q) :
    unknownCount s l = unknownCount s' l := by
  unfold unknownCount
  congr 1
  apply List.filter_congr
  intro q hq
  rw [hag q hq]

theorem runDivide_two (k : VKind) (s t : Store) (l1 l2 : List Period) (a1 a2 : Vec) :
    runDivide k s [(l1, a1), (l2, a2)] = .ok t ↔
      ∃ s1, divideOn k s l1 a1 = .ok s1 ∧ divideOn k s1 l2 a2 = .ok t := by
  simp only [runDivide]
  cases h1 : divideOn k s l1 a1 with
  | error e => simp
  | ok s1 =>
    simp only
    cases h2 : divideOn k s1 l2 a2 with
    | error e => simp [h2]
    | ok s2 => simp [h2]

/-- two inputs on disjoint sets of pieces commute -/
theorem divide_swap_disjoint {n : Nat} {s t : Store} {l1 l2 : List Period} {a1 a2 : Vec} (hwf : WF n s)
    (h1 : a1.length = n) (h2 : a2.length = n) (hdis : ∀ q, q ∈ l1 → q ∉ l2)
    (hr : runDivide .num s [(l1, a1), (l2, a2)] = .ok t) :
    ∃ t', runDivide .num s [(l2, a2), (l1, a1)] = .ok t' ∧ SameStore t' t := by
  obtain ⟨s1, hd1, hd2⟩ := (runDivide_two _ _ _ _ _ _ _).mp hr
  subst h1
  obtain ⟨c1, hc1, hf1, hsum1, _⟩ := divideOn_ok_spec hwf hd1
  have hw1 : WF a1.length s1 := filled_wf hf1 hwf hc1
  obtain ⟨c2, hc2, hf2, hsum2, _⟩ := divideOn_ok_spec (h2 ▸ hw1) hd2
  have hag2 : ∀ q, q ∈ l2 → sget s1 q = sget s q := by
    intro q hq
    have hq1 : q ∉ l1 := fun h => hdis q h hq
    rw [hf1 q]; cases sget s q <;> simp [hq1]
  obtain ⟨s2, hd2', hf2'⟩ := divideOn_of_spec (s := s) (subs := l2) (a := a2) (c := c2) (h2 ▸ hwf) hc2
    (fun i _ => by rw [hsum2 i, knownSum_congr s1 s l2 hag2, unknownCount_congr s1 s l2 hag2])
  have hw2 : WF a1.length s2 := filled_wf hf2' hwf (by rw [hc2, h2])
  have hag1 : ∀ q, q ∈ l1 → sget s2 q = sget s q := by
    intro q hq
    have hq2 : q ∉ l2 := hdis q hq
    rw [hf2' q]; cases sget s q <;> simp [hq2]
  obtain ⟨s21, hd1', hf1'⟩ := divideOn_of_spec (s := s2) (subs := l1) (a := a1) (c := c1) hw2 hc1
    (fun i _ => by rw [hsum1 i, knownSum_congr s2 s l1 hag1, unknownCount_congr s2 s l1 hag1])
  refine ⟨s21, (runDivide_two _ _ _ _ _ _ _).mpr ⟨s2, hd2', hd1'⟩, ?_⟩
  intro q
  rw [hf1' q, hf2' q, hf2 q, hf1 q]
  cases sget s q with
  | some v => rfl
  | none =>
    by_cases hq1 : q ∈ l1
    · have hq2 : q ∉ l2 := hdis q hq1
      simp [hq1, hq2]
    · by_cases hq2 : q ∈ l2 <;> simp [hq1, hq2]

/-- an input on pieces inside a longer input given just before it: accepted in the other order too,
same store -/
theorem divide_swap_nested {n : Nat} {s t : Store} {L l : List Period} {a x : Vec} (hwf : WF n s)
    (h1 : a.length = n) (h2 : x.length = n) (hsub : ∀ q, q ∈ l → q ∈ L)
    (hr : runDivide .num s [(L, a), (l, x)] = .ok t) :
    ∃ t', runDivide .num s [(l, x), (L, a)] = .ok t' ∧ SameStore t' t := by
  obtain ⟨s1, hd1, hd2⟩ := (runDivide_two _ _ _ _ _ _ _).mp hr
  subst h1
  have hr' : runDivide .num s1 [(l, x)] = .ok t := by simp only [runDivide, hd2]
  have hc : ∀ lx, lx ∈ [(l, x)] → (∀ q, q ∈ lx.1 → q ∈ L) ∧ lx.2.length = a.length := by
    intro lx hlx
    rw [List.mem_singleton] at hlx; subst hlx; exact ⟨hsub, h2⟩
  obtain ⟨c, hcl, hf, hsum, _⟩ := divideOn_ok_spec hwf hd1
  have hw1 : WF a.length s1 := filled_wf hf hwf hcl
  obtain ⟨e, s3, hr3, hm, hw3⟩ := runDivide_after_long hcl hf hw1 [(l, x)] hc t hr' s hwf (mid_refl s L c)
  obtain ⟨s4, hd4, hsame⟩ := mid_final hw3 hcl hf hm hsum
  subst e
  have hdl : divideOn .num s l x = .ok s3 := by
    simp only [runDivide] at hr3
    cases hdl : divideOn .num s l x with
    | error e => rw [hdl] at hr3; cases hr3
    | ok s3' => rw [hdl] at hr3; simpa using hr3
  exact ⟨s4, (runDivide_two _ _ _ _ _ _ _).mpr ⟨s3, hdl, hd4⟩, hsame⟩

/-- stable insertion by number of pieces: `c` goes after every call with strictly fewer pieces -/
def insertCall (c : List Period × Vec) : List (List Period × Vec) → List (List Period × Vec)
  | [] => [c]
  | d :: r => if d.1.length < c.1.length then d :: insertCall c r else c :: d :: r

/-- shortest-first order (stable insertion sort by number of pieces) -/
def shortestFirst : List (List Period × Vec) → List (List Period × Vec)
  | [] => []
  | c :: r => insertCall c (shortestFirst r)

/-- nested-or-disjoint: a call with fewer pieces lies inside or apart from a call with more -/
def Laminar (calls : List (List Period × Vec)) : Prop :=
  ∀ c, c ∈ calls → ∀ d, d ∈ calls → d.1.length < c.1.length →
    (∀ q, q ∈ d.1 → q ∈ c.1) ∨ (∀ q, q ∈ c.1 → q ∉ d.1)

instance (calls : List (List Period × Vec)) : Decidable (Laminar calls) := by
  unfold Laminar; infer_instance

theorem mem_insertCall (c x : List Period × Vec) (l : List (List Period × Vec)) :
    x ∈ insertCall c l ↔ x = c ∨ x ∈ l := by
  induction l with
  | nil => simp [insertCall]
  | cons d r ih =>
    unfold insertCall
    split
    · simp only [List.mem_cons, ih]; tauto
    · simp only [List.mem_cons]

theorem mem_shortestFirst (x : List Period × Vec) (l : List (List Period × Vec)) :
    x ∈ shortestFirst l ↔ x ∈ l := by
  induction l with
  | nil => simp [shortestFirst]
  | cons c r ih => simp only [shortestFirst, mem_insertCall, ih, List.mem_cons]

theorem runDivide_cons2 (k : VKind) (s t : Store) (c d : List Period × Vec) (r : List (List Period × Vec)) :
    runDivide k s (c :: d :: r) = .ok t ↔ ∃ s2, runDivide k s [c, d] = .ok s2 ∧ runDivide k s2 r = .ok t := by
  obtain ⟨c1, c2⟩ := c
  obtain ⟨d1, d2⟩ := d
  simp only [runDivide]
  cases h1 : divideOn k s c1 c2 with
  | error e => simp
  | ok s1 =>
    simp only
    cases h2 : divideOn k s1 d1 d2 with
    | error e => simp
    | ok s2 => simp

/-- moving a call from the front to its shortest-first position -/
theorem runDivide_insertCall {n : Nat} (c : List Period × Vec) (hc : c.2.length = n)
    (r : List (List Period × Vec)) (hr : ∀ d, d ∈ r → d.2.length = n)
    (hlam : ∀ d, d ∈ r → d.1.length < c.1.length →
      (∀ q, q ∈ d.1 → q ∈ c.1) ∨ (∀ q, q ∈ c.1 → q ∉ d.1))
    (s t : Store) (hwf : WF n s) (h : runDivide .num s (c :: r) = .ok t) :
    ∃ t', runDivide .num s (insertCall c r) = .ok t' ∧ SameStore t' t := by
  induction r generalizing s t with
  | nil => exact ⟨t, h, sameStore_refl t⟩
  | cons d r ih =>
    unfold insertCall
    split
    · rename_i hlt
      obtain ⟨s2, h2, hrest⟩ := (runDivide_cons2 _ _ _ _ _ _).mp h
      have hd := hr d List.mem_cons_self
      obtain ⟨c1, c2⟩ := c
      obtain ⟨d1, d2⟩ := d
      simp only at hc hd hlt
      have hswap : ∃ s2', runDivide .num s [(d1, d2), (c1, c2)] = .ok s2' ∧ SameStore s2' s2 := by
        rcases hlam (d1, d2) List.mem_cons_self hlt with hin | hdis
        · exact divide_swap_nested hwf hc hd hin h2
        · exact divide_swap_disjoint hwf hc hd hdis h2
      obtain ⟨s2', hs2', hsame2⟩ := hswap
      obtain ⟨t2, ht2, hsamet⟩ := runDivide_congr (sameStore_symm hsame2) hrest
      obtain ⟨sd, hdd, hcc⟩ := (runDivide_two _ _ _ _ _ _ _).mp hs2'
      have hwd : WF n sd := divideOn_wf hwf hd hdd
      have hrun : runDivide .num sd ((c1, c2) :: r) = .ok t2 := by
        simp only [runDivide, hcc]; exact ht2
      obtain ⟨t3, ht3, hsame3⟩ := ih (fun x hx => hr x (List.mem_cons_of_mem _ hx))
        (fun x hx => hlam x (List.mem_cons_of_mem _ hx)) sd t2 hwd hrun
      refine ⟨t3, ?_, sameStore_trans hsame3 (sameStore_symm hsamet)⟩
      simp only [runDivide, hdd]
      exact ht3
    · exact ⟨t, h, sameStore_refl t⟩

/-- **any accepted order of a nested-or-disjoint family of divide inputs gives the same store as the
shortest-first order, which is accepted too** -/
theorem runDivide_shortestFirst {n : Nat} (calls : List (List Period × Vec))
    (hlen : ∀ d, d ∈ calls → d.2.length = n) (hlam : Laminar calls)
    (s t : Store) (hwf : WF n s) (h : runDivide .num s calls = .ok t) :
    ∃ t', runDivide .num s (shortestFirst calls) = .ok t' ∧ SameStore t' t := by
  induction calls generalizing s t with
  | nil => exact ⟨t, h, sameStore_refl t⟩
  | cons c r ih =>
    obtain ⟨c1, c2⟩ := c
    simp only [runDivide] at h
    cases hd : divideOn .num s c1 c2 with
    | error e => rw [hd] at h; cases h
    | ok s1 =>
      rw [hd] at h
      have hc := hlen (c1, c2) List.mem_cons_self
      have hw1 : WF n s1 := divideOn_wf hwf hc hd
      have hlam' : Laminar r := fun a ha b hb => hlam a (List.mem_cons_of_mem _ ha) b (List.mem_cons_of_mem _ hb)
      obtain ⟨t1, ht1, hsame1⟩ := ih (fun d hd => hlen d (List.mem_cons_of_mem _ hd)) hlam' s1 t hw1 h
      have hrun : runDivide .num s ((c1, c2) :: shortestFirst r) = .ok t1 := by
        simp only [runDivide, hd]; exact ht1
      obtain ⟨t2, ht2, hsame2⟩ := runDivide_insertCall (c1, c2) hc (shortestFirst r)
        (fun d hd => hlen d (List.mem_cons_of_mem _ ((mem_shortestFirst d r).mp hd)))
        (fun d hd hlt => hlam (c1, c2) List.mem_cons_self d
          (List.mem_cons_of_mem _ ((mem_shortestFirst d r).mp hd)) hlt)
        s t1 hwf hrun
      exact ⟨t2, ht2, sameStore_trans hsame2 hsame1⟩

/-- several dispatch inputs: the first input covering a piece decides its value -/
theorem sget_runDispatch (s : Store) (calls : List (List Period × Vec)) (q : Period) :
    sget (runDispatch s calls) q =
      match sget s q with
      | some v => some v
      | none => (calls.find? (fun lx => decide (q ∈ lx.1))).map (·.2) := by
  induction calls generalizing s with
  | nil => simp only [runDispatch, List.find?_nil, Option.map_none]; cases sget s q <;> rfl
  | cons x xs ih =>
    obtain ⟨l, a⟩ := x
    simp only [runDispatch]
    rw [ih, sget_dispatchOn]
    cases hs : sget s q with
    | some v => rfl
    | none =>
      by_cases hq : q ∈ l
      · simp [hq]
      · simp [hq]

/-! ### `Holder.set_input` unfolded -/

theorem setInput_divide_inv {var : VarSpec} {s t : Store} {p : Period} {v : Vec} (hr : var.rule = .divide)
    (hn : var.neutralized = false) (h : setInput var s p v = .ok t) :
    v.length = var.count ∧ var.defUnit ≠ .eternity ∧
    ∃ subs, walk var.defUnit p = .ok subs ∧ divideOn var.kind s subs (castVec var.kind v) = .ok t := by
  unfold setInput at h
  simp only [hn, Bool.false_eq_true, if_false] at h
  split at h
  · cases h
  · rw [hr] at h
    simp only [divideByPeriod, toArray] at h
    by_cases hl : v.length ≠ var.count
    · rw [if_pos hl] at h; cases h
    · rw [if_neg hl] at h
      by_cases he : var.defUnit = .eternity
      · simp [bind, Except.bind, he] at h
      · cases hw : walk var.defUnit p with
        | error e => simp [bind, Except.bind, he, hw] at h
        | ok subs =>
          simp [bind, Except.bind, he, hw] at h
          exact ⟨by simpa using hl, he, subs, rfl, h⟩

theorem setInput_dispatch_inv {var : VarSpec} {s t : Store} {p : Period} {v : Vec} (hr : var.rule = .dispatch)
    (hn : var.neutralized = false) (h : setInput var s p v = .ok t) :
    v.length = var.count ∧ var.defUnit ≠ .eternity ∧
    ∃ subs, walk var.defUnit p = .ok subs ∧ t = dispatchOn s subs (castVec var.kind v) := by
  unfold setInput at h
  simp only [hn, Bool.false_eq_true, if_false] at h
  split at h
  · cases h
  · rw [hr] at h
    simp only [dispatchByPeriod, toArray] at h
    by_cases hl : v.length ≠ var.count
    · rw [if_pos hl] at h; cases h
    · rw [if_neg hl] at h
      by_cases he : var.defUnit = .eternity
      · simp [bind, Except.bind, he] at h
      · cases hw : walk var.defUnit p with
        | error e => simp [bind, Except.bind, he, hw] at h
        | ok subs =>
          simp [bind, Except.bind, he, hw] at h
          exact ⟨by simpa using hl, he, subs, rfl, h.symm⟩

theorem setInput_of_walk {var : VarSpec} {s : Store} {p : Period} {v : Vec} {subs : List Period}
    (hl : v.length = var.count) (he : var.defUnit ≠ .eternity) (hp : p.unit ≠ .eternity)
    (hn : var.neutralized = false) (hw : walk var.defUnit p = .ok subs) :
    setInput var s p v =
      match var.rule with
      | .dispatch => .ok (dispatchOn s subs (castVec var.kind v))
      | .divide => divideOn var.kind s subs (castVec var.kind v)
      | .absent => holderSet var s p v := by
  unfold setInput
  rw [if_neg (fun h => hp h.1)]
  simp only [hn, Bool.false_eq_true, if_false]
  cases var.rule <;>
    simp [dispatchByPeriod, divideByPeriod, toArray, hl, he, hw, bind, Except.bind]

theorem castVec_length (k : VKind) (v : Vec) : (castVec k v).length = v.length := by
  cases k <;> simp [castVec]


/-! ## 5. the calendar walk -/

theorem dim_ge_28 (y m : Int) : 28 ≤ dim y m := by
  unfold dim; split <;> (try split) <;> omega

theorem addMonths_valid (c : Date) (hv : c.Valid) (n : Int) (hn : 0 ≤ n) : (addMonths c n).Valid := by
  obtain ⟨hy, hm1, hm12, hd1, hdd⟩ := hv
  have h28 := dim_ge_28 ((c.y * 12 + (c.m - 1) + n) / 12) ((c.y * 12 + (c.m - 1) + n) % 12 + 1)
  refine ⟨?_, ?_, ?_, ?_, ?_⟩ <;> simp only [addMonths] <;> omega

theorem addMonths_add (c : Date) (hd : c.d ≤ 28) (a b : Int) :
    addMonths (addMonths c a) b = addMonths c (a + b) := by
  have h1 := dim_ge_28 ((c.y * 12 + (c.m - 1) + a) / 12) ((c.y * 12 + (c.m - 1) + a) % 12 + 1)
  have h2 := dim_ge_28 ((c.y * 12 + (c.m - 1) + (a + b)) / 12) ((c.y * 12 + (c.m - 1) + (a + b)) % 12 + 1)
  have e1 : min c.d (dim ((c.y * 12 + (c.m - 1) + a) / 12) ((c.y * 12 + (c.m - 1) + a) % 12 + 1)) = c.d := by omega
  have e2 : min c.d (dim ((c.y * 12 + (c.m - 1) + (a + b)) / 12) ((c.y * 12 + (c.m - 1) + (a + b)) % 12 + 1)) = c.d := by omega
  have et : (c.y * 12 + (c.m - 1) + a) / 12 * 12 + ((c.y * 12 + (c.m - 1) + a) % 12 + 1 - 1) + b
      = c.y * 12 + (c.m - 1) + (a + b) := by omega
  simp only [addMonths, e1, et, e2]

theorem addMonths_zero (c : Date) (hv : c.Valid) : addMonths c 0 = c := by
  obtain ⟨hy, hm1, hm12, hd1, hdd⟩ := hv
  have e1 : (c.y * 12 + (c.m - 1) + 0) / 12 = c.y := by omega
  have e2 : (c.y * 12 + (c.m - 1) + 0) % 12 + 1 = c.m := by omega
  simp only [addMonths, e1, e2]
  have : min c.d (dim c.y c.m) = c.d := by omega
  rw [this]

theorem addMonths_lt_iff (c : Date) (hd : c.d ≤ 28) (a b : Int) :
    (addMonths c a).lt (addMonths c b) ↔ a < b := by
  have h1 := dim_ge_28 ((c.y * 12 + (c.m - 1) + a) / 12) ((c.y * 12 + (c.m - 1) + a) % 12 + 1)
  have h2 := dim_ge_28 ((c.y * 12 + (c.m - 1) + b) / 12) ((c.y * 12 + (c.m - 1) + b) % 12 + 1)
  have e1 : min c.d (dim ((c.y * 12 + (c.m - 1) + a) / 12) ((c.y * 12 + (c.m - 1) + a) % 12 + 1)) = c.d := by omega
  have e2 : min c.d (dim ((c.y * 12 + (c.m - 1) + b) / 12) ((c.y * 12 + (c.m - 1) + b) % 12 + 1)) = c.d := by omega
  simp only [Date.lt, addMonths, e1, e2]
  omega

theorem lt_iff_ord_lt (a b : Date) (ha : a.Valid) (hb : b.Valid) : a.lt b ↔ ord a < ord b := by
  constructor
  · intro h; exact ord_lt_of_lex a b ha hb h
  · intro h
    by_contra hn
    by_cases e : a = b
    · subst e; omega
    · have : b.lt a := by
        unfold Date.lt at hn ⊢
        have : ¬ (a.y = b.y ∧ a.m = b.m ∧ a.d = b.d) := by
          intro ⟨h1, h2, h3⟩; apply e; cases a; cases b; simp_all
        omega
      have := ord_lt_of_lex b a hb ha this
      omega

theorem ord_pos (c : Date) (hv : c.Valid) : 1 ≤ ord c := by
  have := (ord_bounds c hv).1
  have : 0 ≤ dby c.y := by have := hv.1; unfold dby; omega
  omega

theorem ord_addDays (c : Date) (hv : c.Valid) (n : Int) (hn : 0 ≤ n) :
    ord (addDays c n) = ord c + n ∧ (addDays c n).Valid := by
  have := ord_pos c hv
  exact ⟨ord_ofOrd _ (by omega), ofOrd_valid _ (by omega)⟩

theorem year_le_of_ord_le (a b : Date) (ha : a.Valid) (hb : b.Valid) (h : ord a ≤ ord b) : a.y ≤ b.y := by
  by_contra hn
  have : b.lt a := Or.inl (by omega)
  have := ord_lt_of_lex b a hb ha this
  omega

/-- consecutive pieces covering exactly the ordinals `lo … hi` -/
def Tiles : List Period → Int → Int → Prop
  | [], lo, hi => lo = hi + 1
  | q :: r, lo, hi => q.lo = lo ∧ q.lo ≤ q.hi ∧ Tiles r (q.hi + 1) hi

/-- the walk along a sequence of instants `f 0, f 1, …` that first reaches `after` at index `k` -/
theorem walkFrom_seq (u : DUnit) (after : Date) (f : Nat → Date) (k : Nat)
    (H1 : ∀ i, i < k → (f i).lt after)
    (H2 : ∀ i, i < k → Period.offset ⟨u, f i, 1⟩ (.n 1) none = .ok ⟨u, f (i + 1), 1⟩)
    (H3 : ¬ (f k).lt after)
    (H4 : ∀ i, i < k → (⟨u, f i, 1⟩ : Period).hi = ord (f (i + 1)) - 1)
    (H5 : ∀ i, i < k → ord (f i) < ord (f (i + 1))) :
    ∀ (d j fuel : Nat), j + d = k → d < fuel →
      ∃ qs, walkFrom after fuel ⟨u, f j, 1⟩ = .ok qs ∧ qs.length = d ∧
        (∀ q, q ∈ qs → q.unit = u ∧ q.size = 1) ∧ Tiles qs (ord (f j)) (ord (f k) - 1) ∧
        qs = (List.range' j d).map (fun i => (⟨u, f i, 1⟩ : Period)) := by
  intro d
  induction d with
  | zero =>
    intro j fuel hj hf
    have e : j = k := by omega
    subst e
    obtain ⟨fuel', rfl⟩ : ∃ m, fuel = m + 1 := ⟨fuel - 1, by omega⟩
    refine ⟨[], ?_, rfl, by simp, ?_, by simp⟩
    · simp only [walkFrom]; rw [if_neg H3]
    · simp only [Tiles]; omega
  | succ d ih =>
    intro j fuel hj hf
    have hjk : j < k := by omega
    obtain ⟨fuel', rfl⟩ : ∃ m, fuel = m + 1 := ⟨fuel - 1, by omega⟩
    obtain ⟨rest, hw, hlen, hu, ht, hexp⟩ := ih (j + 1) fuel' (by omega) (by omega)
    refine ⟨⟨u, f j, 1⟩ :: rest, ?_, by simp [hlen], ?_, ?_, by rw [hexp]; simp [List.range'_succ]⟩
    · simp only [walkFrom]
      rw [if_pos (H1 j hjk)]
      simp only [bind, Except.bind, H2 j hjk, hw]
    · intro q hq
      rcases List.mem_cons.mp hq with rfl | hq
      · exact ⟨rfl, rfl⟩
      · exact hu q hq
    · simp only [Tiles]
      have h4 := H4 j hjk
      have h5 := H5 j hjk
      refine ⟨rfl, ?_, ?_⟩
      · rw [h4]; simp only [Period.lo]; omega
      · rw [h4]; simpa using ht

theorem chk_ok (c : Date) (h1 : 1 ≤ c.y) (h2 : c.y ≤ 9999) : chk c = .ok c := by
  simp [chk, h1, h2]

theorem dateOk_of (c : Date) (hv : c.Valid) (hy : c.y ≤ 9999) : dateOk c = true := by
  simp [dateOk, hv, hy]

/-- the walk by days from `start` up to a later instant `after` -/
theorem walk_days (start after : Date) (hv : start.Valid) (ha : after.Valid) (hay : after.y ≤ 9999)
    (hle : ord start ≤ ord after) (fuel : Nat) (hf : (ord after - ord start).toNat < fuel) :
    ∃ qs, walkFrom after fuel ⟨.day, start, 1⟩ = .ok qs ∧ qs.length = (ord after - ord start).toNat ∧
      (∀ q, q ∈ qs → q.unit = .day ∧ q.size = 1) ∧ Tiles qs (ord start) (ord after - 1) ∧
      qs = (List.range (ord after - ord start).toNat).map (fun (i : Nat) => (⟨.day, addDays start (i : Int), 1⟩ : Period)) := by
  let f : Nat → Date := fun i => addDays start (i : Int)
  have hf0 : f 0 = start := by
    show addDays start ((0 : Nat) : Int) = start
    simp only [addDays, Int.natCast_zero, Int.add_zero]
    exact ofOrd_ord start hv
  have hord : ∀ i : Nat, ord (f i) = ord start + i ∧ (f i).Valid := fun i => ord_addDays start hv i (by omega)
  have hk : ord (f (ord after - ord start).toNat) = ord after := by rw [(hord _).1]; omega
  have hyear : ∀ i : Nat, i ≤ (ord after - ord start).toNat → (f i).y ≤ 9999 := by
    intro i hi
    have := year_le_of_ord_le (f i) after (hord i).2 ha (by rw [(hord i).1]; omega)
    omega
  have hstep : ∀ i : Nat, addDays (f i) 1 = f (i + 1) := by
    intro i
    show ofOrd (ord (f i) + 1) = ofOrd (ord start + ((i + 1 : Nat) : Int))
    rw [(hord i).1]; push_cast; rw [Int.add_assoc]
  have := walkFrom_seq .day after f (ord after - ord start).toNat
    (by intro i hi
        rw [lt_iff_ord_lt _ _ (hord i).2 ha, (hord i).1]; omega)
    (by intro i hi
        have h1 : dateOk (f i) = true := dateOk_of _ (hord i).2 (hyear i (by omega))
        have h2 : chk (f (i + 1)) = .ok (f (i + 1)) :=
          chk_ok _ (hord (i + 1)).2.1 (hyear (i + 1) (by omega))
        simp only [Period.offset, Option.getD_none, instOffset, h1, hstep, h2]
        simp [bind, Except.bind, Except.map])
    (by rw [lt_iff_ord_lt _ _ (hord _).2 ha, hk]; omega)
    (by intro i hi
        simp only [Period.hi]
        rw [(hord (i + 1)).1, (hord i).1]; push_cast; omega)
    (by intro i hi
        rw [(hord (i + 1)).1, (hord i).1]; push_cast; omega)
    (ord after - ord start).toNat 0 fuel (by omega) hf
  rw [hf0, hk, ← List.range_eq_range'] at this
  exact this

/-- the walk by months (`m = 1`) or years (`m = 12`) from a start whose day is at most 28 -/
theorem walk_months (u : DUnit) (m : Int) (hm : (u = .month ∧ m = 1) ∨ (u = .year ∧ m = 12))
    (start : Date) (hv : start.Valid) (hd : start.d ≤ 28) (N : Nat)
    (hay : (addMonths start (m * N)).y ≤ 9999) (fuel : Nat)
    (hf : (ord (addMonths start (m * N)) - ord start).toNat < fuel) :
    ∃ qs, walkFrom (addMonths start (m * N)) fuel ⟨u, start, 1⟩ = .ok qs ∧ qs.length = N ∧
      (∀ q, q ∈ qs → q.unit = u ∧ q.size = 1) ∧
      Tiles qs (ord start) (ord (addMonths start (m * N)) - 1) ∧
      qs = (List.range N).map (fun (i : Nat) => (⟨u, addMonths start (m * (i : Int)), 1⟩ : Period)) := by
  have hm0 : 0 < m := by rcases hm with ⟨_, rfl⟩ | ⟨_, rfl⟩ <;> omega
  let f : Nat → Date := fun i => addMonths start (m * (i : Int))
  have hf0 : f 0 = start := by
    show addMonths start (m * ((0 : Nat) : Int)) = start
    simp only [Int.natCast_zero, Int.mul_zero]
    exact addMonths_zero start hv
  have hval : ∀ i : Nat, (f i).Valid := fun i =>
    addMonths_valid start hv _ (Int.mul_nonneg (by omega) (by omega))
  have hlt : ∀ i j : Nat, (f i).lt (f j) ↔ i < j := by
    intro i j
    show (addMonths start (m * (i : Int))).lt (addMonths start (m * (j : Int))) ↔ i < j
    rw [addMonths_lt_iff start hd]
    constructor
    · intro h
      have := Int.lt_of_mul_lt_mul_left h (by omega : (0 : Int) ≤ m)
      omega
    · intro h
      exact Int.mul_lt_mul_of_pos_left (by omega) hm0
  have hmono : ∀ i : Nat, ord (f i) < ord (f (i + 1)) := fun i =>
    ord_lt_of_lex _ _ (hval i) (hval (i + 1)) ((hlt i (i + 1)).mpr (by omega))
  have hyear : ∀ i : Nat, i ≤ N → (f i).y ≤ 9999 := by
    intro i hi
    by_cases e : i = N
    · subst e; exact hay
    · have h1 : (f i).lt (f N) := (hlt i N).mpr (by omega)
      have := ord_lt_of_lex _ _ (hval i) (hval N) h1
      have := year_le_of_ord_le (f i) (f N) (hval i) (hval N) (by omega)
      have : (f N).y ≤ 9999 := hay
      omega
  have hstep : ∀ i : Nat, addMonths (f i) m = f (i + 1) := by
    intro i
    show addMonths (addMonths start (m * (i : Int))) m = addMonths start (m * ((i + 1 : Nat) : Int))
    rw [addMonths_add start hd]
    congr 1
    push_cast
    rw [Int.mul_add, Int.mul_one]
  have hgrow : ∀ i : Nat, ord start + i ≤ ord (f i) := by
    intro i
    induction i with
    | zero => rw [hf0]; omega
    | succ i ih => have := hmono i; push_cast; omega
  have hoff : ∀ i : Nat, i < N → Period.offset ⟨u, f i, 1⟩ (.n 1) none = .ok ⟨u, f (i + 1), 1⟩ := by
    intro i hi
    have h1 : dateOk (f i) = true := dateOk_of _ (hval i) (hyear i (by omega))
    have h2 : chk (f (i + 1)) = .ok (f (i + 1)) := chk_ok _ (hval (i + 1)).1 (hyear (i + 1) (by omega))
    rcases hm with ⟨rfl, rfl⟩ | ⟨rfl, rfl⟩
    · simp only [Period.offset, Option.getD_none, instOffset, h1, hstep, h2]
      simp [bind, Except.bind, Except.map]
    · have h3 : addMonths (f i) (12 * 1) = f (i + 1) := hstep i
      simp only [Period.offset, Option.getD_none, instOffset, h1, h3, h2]
      simp [bind, Except.bind, Except.map]
  have hhi : ∀ i : Nat, i < N → (⟨u, f i, 1⟩ : Period).hi = ord (f (i + 1)) - 1 := by
    intro i _
    rcases hm with ⟨rfl, rfl⟩ | ⟨rfl, rfl⟩
    · simp only [Period.hi]; rw [hstep i]
    · have h3 : addMonths (f i) (12 * 1) = f (i + 1) := hstep i
      simp only [Period.hi]; rw [h3]
  have := walkFrom_seq u (f N) f N
    (fun i hi => (hlt i N).mpr hi) hoff (fun h => by have := (hlt N N).mp h; omega) hhi (fun i _ => hmono i)
    N 0 fuel (by omega) (by
      have := hgrow N
      have e : f N = addMonths start (m * N) := rfl
      rw [e] at this
      omega)
  rw [hf0, ← List.range_eq_range'] at this
  exact this

theorem lt_addMonths (c : Date) (hv : c.Valid) (n : Int) (hn : 1 ≤ n) : c.lt (addMonths c n) := by
  obtain ⟨hy, hm1, hm12, hd1, hdd⟩ := hv
  simp only [Date.lt, addMonths]
  omega

theorem addMonths_year_ge (c : Date) (hv : c.Valid) (n : Int) (hn : 0 ≤ n) : c.y ≤ (addMonths c n).y := by
  obtain ⟨hy, hm1, hm12, hd1, hdd⟩ := hv
  simp only [addMonths]
  omega

/-- first instant after the period (`period.start.offset(period.size, period.unit)`) -/
def afterDate (p : Period) : Date :=
  match p.unit with
  | .year => addMonths p.start (12 * p.size)
  | .month => addMonths p.start p.size
  | _ => addDays p.start p.size

/-- the periods for which the walk is claimed to tile: day / month / year family, the period's unit at
least the definition unit, a valid start that month arithmetic never clips (day ≤ 28 — in particular
the 1st — whenever the definition unit is the month or the year), years within pendulum's range -/
def WalkDomain (p : Period) (defU : DUnit) : Prop :=
  p.start.Valid ∧ 1 ≤ p.size ∧ (afterDate p).y ≤ 9999 ∧
  ((defU = .day ∧ (p.unit = .day ∨ p.unit = .month ∨ p.unit = .year)) ∨
   (defU = .month ∧ (p.unit = .month ∨ p.unit = .year) ∧ p.start.d ≤ 28) ∨
   (defU = .year ∧ p.unit = .year ∧ p.start.d ≤ 28))

instance (p : Period) (defU : DUnit) : Decidable (WalkDomain p defU) := by
  unfold WalkDomain; infer_instance

/-- number of pieces the statement promises -/
def pieceCount (p : Period) (defU : DUnit) : Nat :=
  match defU, p.unit with
  | .day, _ => (ord (afterDate p) - ord p.start).toNat
  | .month, .year => (12 * p.size).toNat
  | _, _ => p.size.toNat

/-- start of the `i`-th piece -/
def stepDate (defU : DUnit) (c : Date) (i : Nat) : Date :=
  match defU with
  | .month => addMonths c (1 * (i : Int))
  | .year => addMonths c (12 * (i : Int))
  | _ => addDays c (i : Int)

/-- the pieces, in closed form -/
def pieces (p : Period) (defU : DUnit) : List Period :=
  (List.range (pieceCount p defU)).map (fun (i : Nat) => (⟨defU, stepDate defU p.start i, 1⟩ : Period))

theorem walk_tiles (p : Period) (defU : DUnit) (h : WalkDomain p defU) :
    ∃ qs, walk defU p = .ok qs ∧ qs.length = pieceCount p defU ∧ qs ≠ [] ∧
      (∀ q, q ∈ qs → q.unit = defU ∧ q.size = 1) ∧ Tiles qs p.lo p.hi ∧ qs = pieces p defU := by
  obtain ⟨u, start, size⟩ := p
  obtain ⟨hv, hs, hay, hcase⟩ := h
  simp only at hv hs hcase
  have hne : ∀ (qs : List Period) (n : Nat), qs.length = n → 0 < n → qs ≠ [] := by
    intro qs n h1 h2 e; subst e; simp at h1; omega
  rcases hcase with ⟨rfl, hu⟩ | ⟨rfl, hu, hd⟩ | ⟨rfl, rfl, hd⟩
  · -- pieces of one day
    rcases hu with rfl | rfl | rfl
    · simp only [afterDate] at hay
      obtain ⟨ho, hva⟩ := ord_addDays start hv size (by omega)
      have hsy : start.y ≤ 9999 := by
        have := year_le_of_ord_le start _ hv hva (by omega); omega
      obtain ⟨qs, hw, hl, hu, ht, hexp⟩ := walk_days start (addDays start size) hv hva hay (by omega)
        ((ord (addDays start size) - ord start).toNat + 1) (by omega)
      refine ⟨qs, ?_, by simpa [pieceCount, afterDate] using hl, hne qs _ hl (by omega), hu, ?_, by rw [hexp]; rfl⟩
      · simp only [walk, instOffset, dateOk_of start hv hsy, chk_ok _ hva.1 hay]
        simpa [bind, Except.bind, Except.map] using hw
      · simpa [Period.lo, Period.hi, ho, show ord start + size - 1 = ord start + size - 1 from rfl] using ht
    · simp only [afterDate] at hay
      have hva := addMonths_valid start hv size (by omega)
      have hlt := ord_lt_of_lex _ _ hv hva (lt_addMonths start hv size hs)
      have hsy : start.y ≤ 9999 := by have := addMonths_year_ge start hv size (by omega); omega
      obtain ⟨qs, hw, hl, hu, ht, hexp⟩ := walk_days start (addMonths start size) hv hva hay (by omega)
        ((ord (addMonths start size) - ord start).toNat + 1) (by omega)
      refine ⟨qs, ?_, by simpa [pieceCount, afterDate] using hl, hne qs _ hl (by omega), hu, ?_, by rw [hexp]; rfl⟩
      · simp only [walk, instOffset, dateOk_of start hv hsy, chk_ok _ hva.1 hay]
        simpa [bind, Except.bind, Except.map] using hw
      · simpa [Period.lo, Period.hi] using ht
    · simp only [afterDate] at hay
      have hva := addMonths_valid start hv (12 * size) (by omega)
      have hlt := ord_lt_of_lex _ _ hv hva (lt_addMonths start hv (12 * size) (by omega))
      have hsy : start.y ≤ 9999 := by have := addMonths_year_ge start hv (12 * size) (by omega); omega
      obtain ⟨qs, hw, hl, hu, ht, hexp⟩ := walk_days start (addMonths start (12 * size)) hv hva hay (by omega)
        ((ord (addMonths start (12 * size)) - ord start).toNat + 1) (by omega)
      refine ⟨qs, ?_, by simpa [pieceCount, afterDate] using hl, hne qs _ hl (by omega), hu, ?_, by rw [hexp]; rfl⟩
      · simp only [walk, instOffset, dateOk_of start hv hsy, chk_ok _ hva.1 hay]
        simpa [bind, Except.bind, Except.map] using hw
      · simpa [Period.lo, Period.hi] using ht
  · -- pieces of one month
    rcases hu with rfl | rfl
    · simp only [afterDate] at hay
      have e : (1 : Int) * ((size.toNat : Nat) : Int) = size := by omega
      have hva := addMonths_valid start hv size (by omega)
      have hsy : start.y ≤ 9999 := by have := addMonths_year_ge start hv size (by omega); omega
      have := walk_months .month 1 (Or.inl ⟨rfl, rfl⟩) start hv hd size.toNat (by rw [e]; exact hay)
        ((ord (addMonths start size) - ord start).toNat + 1) (by rw [e]; omega)
      rw [e] at this
      obtain ⟨qs, hw, hl, hu, ht, hexp⟩ := this
      refine ⟨qs, ?_, by simpa [pieceCount] using hl, hne qs _ hl (by omega), hu, ?_, by rw [hexp]; rfl⟩
      · simp only [walk, instOffset, dateOk_of start hv hsy, chk_ok _ hva.1 hay]
        simpa [bind, Except.bind, Except.map] using hw
      · simpa [Period.lo, Period.hi] using ht
    · simp only [afterDate] at hay
      have e : (1 : Int) * (((12 * size).toNat : Nat) : Int) = 12 * size := by omega
      have hva := addMonths_valid start hv (12 * size) (by omega)
      have hsy : start.y ≤ 9999 := by have := addMonths_year_ge start hv (12 * size) (by omega); omega
      have := walk_months .month 1 (Or.inl ⟨rfl, rfl⟩) start hv hd (12 * size).toNat (by rw [e]; exact hay)
        ((ord (addMonths start (12 * size)) - ord start).toNat + 1) (by rw [e]; omega)
      rw [e] at this
      obtain ⟨qs, hw, hl, hu, ht, hexp⟩ := this
      refine ⟨qs, ?_, by simpa [pieceCount] using hl, hne qs _ hl (by omega), hu, ?_, by rw [hexp]; rfl⟩
      · simp only [walk, instOffset, dateOk_of start hv hsy, chk_ok _ hva.1 hay]
        simpa [bind, Except.bind, Except.map] using hw
      · simpa [Period.lo, Period.hi] using ht
  · -- pieces of one year
    simp only [afterDate] at hay
    have e : (12 : Int) * ((size.toNat : Nat) : Int) = 12 * size := by omega
    have hva := addMonths_valid start hv (12 * size) (by omega)
    have hsy : start.y ≤ 9999 := by have := addMonths_year_ge start hv (12 * size) (by omega); omega
    have := walk_months .year 12 (Or.inr ⟨rfl, rfl⟩) start hv hd size.toNat (by rw [e]; exact hay)
      ((ord (addMonths start (12 * size)) - ord start).toNat + 1) (by rw [e]; omega)
    rw [e] at this
    obtain ⟨qs, hw, hl, hu, ht, hexp⟩ := this
    refine ⟨qs, ?_, by simpa [pieceCount] using hl, hne qs _ hl (by omega), hu, ?_, by rw [hexp]; rfl⟩
    · simp only [walk, instOffset, dateOk_of start hv hsy, chk_ok _ hva.1 hay]
      simpa [bind, Except.bind, Except.map] using hw
    · simpa [Period.lo, Period.hi] using ht

/-! ### the walk and `Period.get_subperiods` agree on aligned periods -/

theorem mapM_ok_map {α β : Type} (l : List α) (g : α → Except String β) (h : α → β)
    (H : ∀ x, x ∈ l → g x = .ok (h x)) : l.mapM g = .ok (l.map h) := by
  induction l with
  | nil => rfl
  | cons x xs ih =>
    rw [List.mapM_cons, H x List.mem_cons_self, ih (fun y hy => H y (List.mem_cons_of_mem _ hy))]
    rfl

theorem offsetsFrom_eq (base : Period) (u : DUnit) (n : Int) (h : Nat → Period)
    (H : ∀ i : Nat, i < n.toNat → base.offset (.n (Int.ofNat i)) (some u) = .ok (h i)) :
    offsetsFrom base u n = .ok ((List.range n.toNat).map h) := by
  unfold offsetsFrom
  exact mapM_ok_map _ _ _ (fun i hi => H i (List.mem_range.mp hi))

theorem addMonths_year_mono (c : Date) (a b : Int) (h : a ≤ b) : (addMonths c a).y ≤ (addMonths c b).y := by
  simp only [addMonths]; omega

/-- definition-unit alignment: months start on the 1st, years on 1 January -/
def Aligned (p : Period) (defU : DUnit) : Prop :=
  (defU = .month → p.start.d = 1) ∧ (defU = .year → p.start.d = 1 ∧ p.start.m = 1)

instance (p : Period) (defU : DUnit) : Decidable (Aligned p defU) := by unfold Aligned; infer_instance

theorem offset_months (u0 : DUnit) (start : Date) (hv : start.Valid) (hsy : start.y ≤ 9999) (i : Nat)
    (hy : (addMonths start (i : Int)).y ≤ 9999) :
    Period.offset ⟨u0, start, 1⟩ (.n (Int.ofNat i)) (some .month) = .ok ⟨u0, addMonths start (1 * (i : Int)), 1⟩ := by
  have hva := addMonths_valid start hv (i : Int) (by omega)
  simp only [Period.offset, Option.getD_some, instOffset, dateOk_of start hv hsy, Int.ofNat_eq_natCast,
    chk_ok _ hva.1 hy, Int.one_mul]
  simp [bind, Except.bind, Except.map]

theorem offset_years (u0 : DUnit) (start : Date) (hv : start.Valid) (hsy : start.y ≤ 9999) (i : Nat)
    (hy : (addMonths start (12 * (i : Int))).y ≤ 9999) :
    Period.offset ⟨u0, start, 1⟩ (.n (Int.ofNat i)) (some .year) = .ok ⟨u0, addMonths start (12 * (i : Int)), 1⟩ := by
  have hva := addMonths_valid start hv (12 * (i : Int)) (by omega)
  simp only [Period.offset, Option.getD_some, instOffset, dateOk_of start hv hsy, Int.ofNat_eq_natCast,
    chk_ok _ hva.1 hy]
  simp [bind, Except.bind, Except.map]

theorem offset_days (u0 : DUnit) (start : Date) (hv : start.Valid) (hsy : start.y ≤ 9999) (i : Nat)
    (hy : (addDays start (i : Int)).y ≤ 9999) :
    Period.offset ⟨u0, start, 1⟩ (.n (Int.ofNat i)) (some .day) = .ok ⟨u0, addDays start (i : Int), 1⟩ := by
  have hva := (ord_addDays start hv (i : Int) (by omega)).2
  simp only [Period.offset, Option.getD_some, instOffset, dateOk_of start hv hsy, Int.ofNat_eq_natCast,
    chk_ok _ hva.1 hy]
  simp [bind, Except.bind, Except.map]

/-- the days of `[start, after)` as `get_subperiods` lists them -/
theorem offsets_days (start after : Date) (hv : start.Valid) (ha : after.Valid) (hay : after.y ≤ 9999)
    (hle : ord start ≤ ord after) (n : Int) (hn : n = ord after - ord start) :
    offsetsFrom ⟨.day, start, 1⟩ .day n =
      .ok ((List.range (ord after - ord start).toNat).map (fun (i : Nat) => (⟨.day, addDays start (i : Int), 1⟩ : Period))) := by
  subst hn
  have hsy : start.y ≤ 9999 := by have := year_le_of_ord_le start after hv ha hle; omega
  apply offsetsFrom_eq
  intro i hi
  apply offset_days .day start hv hsy
  obtain ⟨ho, hvi⟩ := ord_addDays start hv (i : Int) (by omega)
  have := year_le_of_ord_le _ after hvi ha (by rw [ho]; omega)
  omega

theorem instOffset_n_month (c : Date) (hv : c.Valid) (hy : c.y ≤ 9999) (k : Int) (hk : 0 ≤ k)
    (hay : (addMonths c k).y ≤ 9999) : instOffset c (.n k) .month = .ok (some (addMonths c k)) := by
  have hva := addMonths_valid c hv k hk
  simp only [instOffset, dateOk_of c hv hy, chk_ok _ hva.1 hay]
  simp [Except.map]

theorem instOffset_n_year (c : Date) (hv : c.Valid) (hy : c.y ≤ 9999) (k : Int) (hk : 0 ≤ k)
    (hay : (addMonths c (12 * k)).y ≤ 9999) : instOffset c (.n k) .year = .ok (some (addMonths c (12 * k))) := by
  have hva := addMonths_valid c hv (12 * k) (by omega)
  simp only [instOffset, dateOk_of c hv hy, chk_ok _ hva.1 hay]
  simp [Except.map]

theorem instOffset_prev_day (c : Date) (hv : c.Valid) (hy : c.y ≤ 9999) (h2 : 2 ≤ ord c) :
    instOffset c (.n (-1)) .day = .ok (some (ofOrd (ord c - 1))) ∧ ord (ofOrd (ord c - 1)) = ord c - 1 := by
  have hlast : (ofOrd (ord c - 1)).Valid := ofOrd_valid _ (by omega)
  have hlo : ord (ofOrd (ord c - 1)) = ord c - 1 := ord_ofOrd _ (by omega)
  have hly : (ofOrd (ord c - 1)).y ≤ 9999 := by
    have := year_le_of_ord_le _ _ hlast hv (by rw [hlo]; omega); omega
  refine ⟨?_, hlo⟩
  have e : ord c + -1 = ord c - 1 := by omega
  simp only [instOffset, dateOk_of c hv hy, addDays, e, chk_ok _ hlast.1 hly]
  simp [Except.map]

theorem spanDays_month (start : Date) (n : Int) (hn : 1 ≤ n) (hv : start.Valid)
    (hay : (addMonths start n).y ≤ 9999) :
    Period.spanDays ⟨.month, start, n⟩ = .ok (ord (addMonths start n) - ord start) := by
  have hva := addMonths_valid start hv n (by omega)
  have hlt := ord_lt_of_lex _ _ hv hva (lt_addMonths start hv n hn)
  have hsy : start.y ≤ 9999 := by have := addMonths_year_ge start hv n (by omega); omega
  have h1 := ord_pos start hv
  have ha := instOffset_n_month start hv hsy n (by omega) hay
  obtain ⟨hb, hlo⟩ := instOffset_prev_day _ hva hay (by omega)
  simp only [Period.spanDays, ha, hb, bind, Except.bind, hlo]
  congr 1; omega

theorem spanDays_year (start : Date) (n : Int) (hn : 1 ≤ n) (hv : start.Valid)
    (hay : (addMonths start (12 * n)).y ≤ 9999) :
    Period.spanDays ⟨.year, start, n⟩ = .ok (ord (addMonths start (12 * n)) - ord start) := by
  have hva := addMonths_valid start hv (12 * n) (by omega)
  have hlt := ord_lt_of_lex _ _ hv hva (lt_addMonths start hv (12 * n) (by omega))
  have hsy : start.y ≤ 9999 := by have := addMonths_year_ge start hv (12 * n) (by omega); omega
  have h1 := ord_pos start hv
  have ha := instOffset_n_year start hv hsy n (by omega) hay
  obtain ⟨hb, hlo⟩ := instOffset_prev_day _ hva hay (by omega)
  simp only [Period.spanDays, ha, hb, bind, Except.bind, hlo]
  congr 1; omega

theorem offsets_months (start : Date) (hv : start.Valid) (hsy : start.y ≤ 9999) (n : Int)
    (hay : (addMonths start n).y ≤ 9999) :
    offsetsFrom ⟨.month, start, 1⟩ .month n =
      .ok ((List.range n.toNat).map (fun (i : Nat) => (⟨.month, addMonths start (1 * (i : Int)), 1⟩ : Period))) := by
  apply offsetsFrom_eq
  intro i hi
  apply offset_months .month start hv hsy
  have := addMonths_year_mono start (i : Int) n (by omega)
  omega

theorem offsets_years (start : Date) (hv : start.Valid) (hsy : start.y ≤ 9999) (n : Int)
    (hay : (addMonths start (12 * n)).y ≤ 9999) :
    offsetsFrom ⟨.year, start, 1⟩ .year n =
      .ok ((List.range n.toNat).map (fun (i : Nat) => (⟨.year, addMonths start (12 * (i : Int)), 1⟩ : Period))) := by
  apply offsetsFrom_eq
  intro i hi
  apply offset_years .year start hv hsy
  have := addMonths_year_mono start (12 * (i : Int)) (12 * n) (by omega)
  omega

/-- on aligned periods `Period.get_subperiods` returns the same pieces as the walk -/
theorem subperiods_eq_pieces (p : Period) (defU : DUnit) (h : WalkDomain p defU) (hal : Aligned p defU) :
    p.subperiods defU = .ok (pieces p defU) := by
  obtain ⟨u, start, size⟩ := p
  obtain ⟨hv, hs, hay, hcase⟩ := h
  obtain ⟨halm, haly⟩ := hal
  simp only at hv hs hcase halm haly
  rcases hcase with ⟨rfl, hu⟩ | ⟨rfl, hu, hd⟩ | ⟨rfl, rfl, hd⟩
  · rcases hu with rfl | rfl | rfl
    · simp only [afterDate] at hay
      obtain ⟨ho, hva⟩ := ord_addDays start hv size (by omega)
      have hw : ¬ (unitWeight DUnit.day < unitWeight DUnit.day) := by decide
      have := offsets_days start (addDays start size) hv hva hay (by omega) size (by omega)
      simp only [Period.subperiods, if_neg hw, Period.sizeInDays, Period.firstDay, bind, Except.bind, this]
      rfl
    · simp only [afterDate] at hay
      have hva := addMonths_valid start hv size (by omega)
      have hlt := ord_lt_of_lex _ _ hv hva (lt_addMonths start hv size hs)
      have hw : ¬ (unitWeight DUnit.month < unitWeight DUnit.day) := by decide
      have hsp := spanDays_month start size hs hv hay
      have := offsets_days start (addMonths start size) hv hva hay (by omega) _ rfl
      simp only [Period.subperiods, if_neg hw, Period.sizeInDays, Period.firstDay, bind, Except.bind, hsp, this]
      rfl
    · simp only [afterDate] at hay
      have hva := addMonths_valid start hv (12 * size) (by omega)
      have hlt := ord_lt_of_lex _ _ hv hva (lt_addMonths start hv (12 * size) (by omega))
      have hw : ¬ (unitWeight DUnit.year < unitWeight DUnit.day) := by decide
      have hsp := spanDays_year start size hs hv hay
      have := offsets_days start (addMonths start (12 * size)) hv hva hay (by omega) _ rfl
      simp only [Period.subperiods, if_neg hw, Period.sizeInDays, Period.firstDay, bind, Except.bind, hsp, this]
      rfl
  · have hd1 : start.d = 1 := halm rfl
    have hst : (⟨start.y, start.m, 1⟩ : Date) = start := by cases start; simp_all
    rcases hu with rfl | rfl
    · simp only [afterDate] at hay
      have hsy : start.y ≤ 9999 := by have := addMonths_year_ge start hv size (by omega); omega
      have hw : ¬ (unitWeight DUnit.month < unitWeight DUnit.month) := by decide
      have := offsets_months start hv hsy size hay
      simp only [Period.subperiods, if_neg hw, Period.firstMonth, instOffset, Period.sizeInMonths, hst,
        bind, Except.bind]
      simp
      rw [this]; rfl
    · simp only [afterDate] at hay
      have hsy : start.y ≤ 9999 := by have := addMonths_year_ge start hv (12 * size) (by omega); omega
      have hw : ¬ (unitWeight DUnit.year < unitWeight DUnit.month) := by decide
      have e : size * 12 = 12 * size := Int.mul_comm _ _
      have := offsets_months start hv hsy (12 * size) hay
      simp only [Period.subperiods, if_neg hw, Period.firstMonth, instOffset, Period.sizeInMonths, hst,
        bind, Except.bind, e]
      simp
      rw [this]; rfl
  · obtain ⟨hd1, hm1⟩ := haly rfl
    have hst : (⟨start.y, 1, 1⟩ : Date) = start := by cases start; simp_all
    simp only [afterDate] at hay
    have hsy : start.y ≤ 9999 := by have := addMonths_year_ge start hv (12 * size) (by omega); omega
    have hw : ¬ (unitWeight DUnit.year < unitWeight DUnit.year) := by decide
    have := offsets_years start hv hsy size hay
    simp only [Period.subperiods, if_neg hw, Period.thisYear, instOffset, hst, bind, Except.bind]
    simp
    rw [this]; rfl

/-- **the walk of `set_input` and the pieces summed by `calculate_add` are the same list** -/
theorem walk_eq_subperiods (p : Period) (defU : DUnit) (h : WalkDomain p defU) (hal : Aligned p defU) :
    walk defU p = p.subperiods defU := by
  obtain ⟨qs, hw, _, _, _, _, hq⟩ := walk_tiles p defU h
  rw [hw, hq, subperiods_eq_pieces p defU h hal]

/-! ## 6. whole histories of inputs (`feedAll`), the builder's order, `calculate` piece by piece -/

/-- the input is not dropped by the `end` test of `Simulation.set_input` / the builder -/
def Live (var : VarSpec) (p : Period) : Prop :=
  match var.endDate with
  | none => True
  | some e => dateOk p.start = true ∧ ¬ e.lt p.start

instance (var : VarSpec) (p : Period) : Decidable (Live var p) := by
  unfold Live; cases var.endDate <;> infer_instance

theorem simSetInput_live {var : VarSpec} {s : Store} {p : Period} {v : Vec} (h : Live var p) :
    simSetInput var s p v = setInput var s p v := by
  unfold simSetInput
  unfold Live at h
  cases he : var.endDate with
  | none => rfl
  | some e => rw [he] at h; simp [h.1, h.2]

/-- `Simulation.set_input` either drops the input, refuses the date, or is `Holder.set_input` -/
theorem simSetInput_cases (var : VarSpec) (s : Store) (p : Period) (v : Vec) :
    simSetInput var s p v = setInput var s p v ∨ simSetInput var s p v = .ok s ∨
      ∃ e, simSetInput var s p v = .error e := by
  unfold simSetInput
  cases var.endDate with
  | none => exact Or.inl rfl
  | some e =>
    simp only
    split
    · exact Or.inr (Or.inr ⟨_, rfl⟩)
    · split
      · exact Or.inr (Or.inl rfl)
      · exact Or.inl rfl

theorem divideOn_keeps {k : VKind} {s t : Store} {l : List Period} {a : Vec} (h : divideOn k s l a = .ok t)
    {q : Period} {w : Vec} (hq : sget s q = some w) : sget t q = some w := by
  unfold divideOn at h
  simp only at h
  split at h
  · injection h with h; subst h; rw [sget_dispatchOn, hq]
  · split at h
    · injection h with h; subst h; exact hq
    · cases h

/-- a variable declared with a rule never changes a value once it is set -/
theorem setInput_keeps {var : VarSpec} (hr : var.rule ≠ .absent) {s t : Store} {p : Period} {v : Vec}
    (h : setInput var s p v = .ok t) {q : Period} {w : Vec} (hq : sget s q = some w) : sget t q = some w := by
  by_cases hn : var.neutralized = true
  · unfold setInput at h
    simp only [hn, if_true] at h
    split at h
    · cases h
    · injection h with h; subst h; exact hq
  · have hn : var.neutralized = false := by simpa using hn
    cases hrule : var.rule with
    | absent => exact absurd hrule hr
    | dispatch =>
      obtain ⟨_, _, subs, _, rfl⟩ := setInput_dispatch_inv hrule hn h
      rw [sget_dispatchOn, hq]
    | divide =>
      obtain ⟨_, _, subs, _, hd⟩ := setInput_divide_inv hrule hn h
      exact divideOn_keeps hd hq

theorem simSetInput_keeps {var : VarSpec} (hr : var.rule ≠ .absent) {s t : Store} {p : Period} {v : Vec}
    (h : simSetInput var s p v = .ok t) {q : Period} {w : Vec} (hq : sget s q = some w) : sget t q = some w := by
  rcases simSetInput_cases var s p v with e | e | ⟨e', e⟩
  · rw [e] at h; exact setInput_keeps hr h hq
  · rw [e] at h; injection h with h; subst h; exact hq
  · rw [e] at h; cases h

theorem feedAll_keeps {var : VarSpec} (hr : var.rule ≠ .absent) {calls : List (Period × Vec)} {s t : Store}
    (h : feedAll var s calls = .ok t) {q : Period} {w : Vec} (hq : sget s q = some w) : sget t q = some w := by
  induction calls generalizing s with
  | nil => simp only [feedAll] at h; injection h with h; subst h; exact hq
  | cons x xs ih =>
    obtain ⟨p, v⟩ := x
    simp only [feedAll] at h
    cases hs : simSetInput var s p v with
    | error e => rw [hs] at h; cases h
    | ok s1 => rw [hs] at h; exact ih h (simSetInput_keeps hr hs hq)

/-- the store stays well formed along `Holder.set_input` (all rules, all value types) -/
theorem setInput_wf {var : VarSpec} {s t : Store} {p : Period} {v : Vec} (hwf : WF var.count s)
    (h : setInput var s p v = .ok t) : WF var.count t := by
  by_cases hn : var.neutralized = true
  · unfold setInput at h
    simp only [hn, if_true] at h
    split at h
    · cases h
    · injection h with h; subst h; exact hwf
  have hn : var.neutralized = false := by simpa using hn
  cases hr : var.rule with
  | dispatch =>
    obtain ⟨hl, _, subs, _, rfl⟩ := setInput_dispatch_inv hr hn h
    exact filled_wf (dispatchOn_filled s subs _) hwf (by rw [castVec_length, hl])
  | divide =>
    obtain ⟨hl, _, subs, _, hd⟩ := setInput_divide_inv hr hn h
    have hcl : (castVec var.kind v).length = var.count := by rw [castVec_length, hl]
    obtain ⟨h1, _, _⟩ := tally_spec s subs (castVec var.kind v) (hcl ▸ hwf)
    unfold divideOn at hd
    simp only at hd
    split at hd
    · injection hd with hd; subst hd
      exact filled_wf (dispatchOn_filled s subs _) hwf (by rw [castVec_length, vdivn_length, h1, hcl])
    · split at hd
      · injection hd with hd; subst hd; exact hwf
      · cases hd
  | absent =>
    unfold setInput at h
    simp only [hn, Bool.false_eq_true, if_false] at h
    split at h
    · cases h
    · rw [hr] at h
      simp only [holderSet, toArray] at h
      by_cases hl : v.length ≠ var.count
      · rw [if_pos hl] at h; cases h
      · rw [if_neg hl] at h
        have hcl : (castVec var.kind v).length = var.count := by rw [castVec_length]; simpa using hl
        have key : ∀ k, WF var.count (sput s k (castVec var.kind v)) := by
          intro k q w hq
          rw [sget_sput] at hq
          split at hq
          · injection hq with hq; rw [← hq]; exact hcl
          · exact hwf q w hq
        simp only [bind, Except.bind] at h
        split at h
        · split at h
          · cases h
          · injection h with h; subst h; exact key _
        · injection h with h; subst h; exact key _

theorem simSetInput_wf {var : VarSpec} {s t : Store} {p : Period} {v : Vec} (hwf : WF var.count s)
    (h : simSetInput var s p v = .ok t) : WF var.count t := by
  rcases simSetInput_cases var s p v with e | e | ⟨e', e⟩
  · rw [e] at h; exact setInput_wf hwf h
  · rw [e] at h; injection h with h; subst h; exact hwf
  · rw [e] at h; cases h

theorem feedAll_wf {var : VarSpec} {calls : List (Period × Vec)} {s t : Store} (hwf : WF var.count s)
    (h : feedAll var s calls = .ok t) : WF var.count t := by
  induction calls generalizing s with
  | nil => simp only [feedAll] at h; injection h with h; subst h; exact hwf
  | cons x xs ih =>
    obtain ⟨p, v⟩ := x
    simp only [feedAll] at h
    cases hs : simSetInput var s p v with
    | error e => rw [hs] at h; cases h
    | ok s1 => rw [hs] at h; exact ih (simSetInput_wf hwf hs) h

/-- an accepted divide input (exact values): afterwards every piece is known and the pieces sum to
the amount -/
theorem setInput_divide_known {var : VarSpec} {s t : Store} {p : Period} {v : Vec} (hr : var.rule = .divide)
    (hk : var.kind = .num) (hn : var.neutralized = false) (hwf : WF var.count s)
    (h : setInput var s p v = .ok t) :
    ∃ subs, walk var.defUnit p = .ok subs ∧ v.length = var.count ∧ (∀ q, q ∈ subs → sget t q ≠ none) ∧
      ∀ i, knownSum t subs i = ent v i := by
  obtain ⟨hl, _, subs, hw, hd⟩ := setInput_divide_inv hr hn h
  rw [hk] at hd
  simp only [castVec] at hd
  obtain ⟨c, _, hf, hsum, _⟩ := divideOn_ok_spec (hl ▸ hwf) hd
  exact ⟨subs, hw, hl, fun q hq => filled_known hf q hq, fun i => by rw [knownSum_filled hf, hsum i]⟩

/-- **every history.** Whatever inputs a divide variable receives, in whatever order (pieces, long
periods, overlapping, enclosing, repeated): if the history is accepted, then at its end the pieces of
EVERY input that was not dropped by the `end` test still sum to the amount of that input -/
theorem feedAll_conserves {var : VarSpec} (hr : var.rule = .divide) (hk : var.kind = .num)
    (hn : var.neutralized = false) {calls : List (Period × Vec)} {s t : Store} (hwf : WF var.count s)
    (h : feedAll var s calls = .ok t) {p : Period} {v : Vec} (hm : (p, v) ∈ calls) (hlive : Live var p) :
    ∃ subs, walk var.defUnit p = .ok subs ∧ v.length = var.count ∧ (∀ q, q ∈ subs → sget t q ≠ none) ∧
      ∀ i, knownSum t subs i = ent v i := by
  have hra : var.rule ≠ .absent := by rw [hr]; decide
  induction calls generalizing s with
  | nil => cases hm
  | cons x xs ih =>
    obtain ⟨p', v'⟩ := x
    simp only [feedAll] at h
    cases hs : simSetInput var s p' v' with
    | error e => rw [hs] at h; cases h
    | ok s1 =>
      rw [hs] at h
      rcases List.mem_cons.mp hm with e | hm'
      · injection e with e1 e2
        subst e1; subst e2
        rw [simSetInput_live hlive] at hs
        obtain ⟨subs, hw, hl, hkn, hsum⟩ := setInput_divide_known hr hk hn hwf hs
        have hsame : ∀ q, q ∈ subs → sget s1 q = sget t q := by
          intro q hq
          cases hq' : sget s1 q with
          | none => exact absurd hq' (hkn q hq)
          | some w => exact (feedAll_keeps hra h hq').symm
        refine ⟨subs, hw, hl, fun q hq => by rw [← hsame q hq]; exact hkn q hq, fun i => ?_⟩
        rw [← knownSum_congr s1 t subs hsame i]; exact hsum i
      · exact ih (simSetInput_wf hwf hs) h hm'

/-- the sum over pieces that are all known: the store is left as it is -/
theorem sumOver_all_known {n : Nat} {t : Store} (hwt : WF n t) {subs : List Period}
    (hkn : ∀ q, q ∈ subs → sget t q ≠ none) {v : Vec} (hl : v.length = n)
    (hsum : ∀ i, knownSum t subs i = ent v i) : sumOver n t subs = (v, t) := by
  obtain ⟨h1, h2, h3⟩ := sumOver_spec n t hwt subs
  have hstore : (sumOver n t subs).2 = t := by rw [h1]; exact dispatchOn_all_known t subs _ hkn
  have hval : (sumOver n t subs).1 = v := vec_ext (by rw [h2, hl]) (fun i _ => by rw [h3 i]; exact hsum i)
  exact Prod.ext hval hstore

/-- `calculate_add` over an aligned period whose pieces are all known and sum to `v` -/
theorem calcAdd_of_known {var : VarSpec} {t : Store} {p : Period} {v : Vec} {subs : List Period}
    (hn : var.neutralized = false) (hwt : WF var.count t) (hd : WalkDomain p var.defUnit)
    (hal : Aligned p var.defUnit) (hw : walk var.defUnit p = .ok subs) (hl : v.length = var.count)
    (hkn : ∀ q, q ∈ subs → sget t q ≠ none) (hsum : ∀ i, knownSum t subs i = ent v i) :
    calcAdd var t p = .ok (some v, t) := by
  obtain ⟨qs, hw', _, hne, _, _, _⟩ := walk_tiles p var.defUnit hd
  have hsub : p.subperiods var.defUnit = .ok subs := by rw [← walk_eq_subperiods p var.defUnit hd hal, hw]
  have hsubs_ne : subs.isEmpty = false := by
    rw [hw] at hw'; injection hw' with e; subst e
    cases subs with
    | nil => exact absurd rfl hne
    | cons _ _ => rfl
  have hweight : ¬ (unitWeight var.defUnit > unitWeight p.unit) := by
    obtain ⟨_, _, _, ⟨h1, h2 | h2 | h2⟩ | ⟨h1, h2 | h2, _⟩ | ⟨h1, h2, _⟩⟩ := hd <;> rw [h1, h2] <;> decide
  have hpu : ¬ (p.unit = .eternity) := by
    obtain ⟨_, _, _, ⟨_, h2 | h2 | h2⟩ | ⟨_, h2 | h2, _⟩ | ⟨_, h2, _⟩⟩ := hd <;> rw [h2] <;> decide
  have he : ¬ (var.defUnit = .eternity) := by
    obtain ⟨_, _, _, ⟨h1, _⟩ | ⟨h1, _⟩ | ⟨h1, _⟩⟩ := hd <;> rw [h1] <;> decide
  have hs := sumOver_all_known hwt hkn hl hsum
  simp only [calcAdd, if_neg hweight, if_neg he, if_neg hpu, hsub, bind, Except.bind, hsubs_ne, hs, hn,
    Bool.false_eq_true, if_false]

/-! ### the builder's order -/

theorem mem_insertKeyed (x y : Keyed) (l : List Keyed) : y ∈ insertKeyed x l ↔ y = x ∨ y ∈ l := by
  induction l with
  | nil => simp [insertKeyed]
  | cons d r ih =>
    unfold insertKeyed
    split
    · simp only [List.mem_cons]
    · simp only [List.mem_cons, ih]; tauto

theorem mem_sortKeyed (y : Keyed) (l : List Keyed) : y ∈ sortKeyed l ↔ y ∈ l := by
  induction l with
  | nil => simp [sortKeyed]
  | cons c r ih => simp only [sortKeyed, mem_insertKeyed, ih, List.mem_cons]

theorem length_insertKeyed (x : Keyed) (l : List Keyed) : (insertKeyed x l).length = l.length + 1 := by
  induction l with
  | nil => rfl
  | cons d r ih =>
    unfold insertKeyed
    split
    · simp
    · simp [ih]

theorem length_sortKeyed (l : List Keyed) : (sortKeyed l).length = l.length := by
  induction l with
  | nil => rfl
  | cons c r ih => simp [sortKeyed, length_insertKeyed, ih]

theorem keyLe_total (a b : Option Int × Int) : keyLe a b = true ∨ keyLe b a = true := by
  obtain ⟨a1, a2⟩ := a
  obtain ⟨b1, b2⟩ := b
  cases a1 <;> cases b1 <;> simp [keyLe] <;> omega

theorem keyLe_trans (a b c : Option Int × Int) (h1 : keyLe a b = true) (h2 : keyLe b c = true) :
    keyLe a c = true := by
  obtain ⟨a1, a2⟩ := a
  obtain ⟨b1, b2⟩ := b
  obtain ⟨c1, c2⟩ := c
  cases a1 <;> cases b1 <;> cases c1 <;> simp [keyLe] at h1 h2 ⊢ <;> omega

/-- consumed in non-decreasing key order -/
def KeySorted : List Keyed → Prop
  | [] => True
  | x :: r => (∀ y, y ∈ r → keyLe x.1 y.1 = true) ∧ KeySorted r

theorem keySorted_insert (x : Keyed) (l : List Keyed) (h : KeySorted l) : KeySorted (insertKeyed x l) := by
  induction l with
  | nil => simp [insertKeyed, KeySorted]
  | cons d r ih =>
    unfold insertKeyed
    split
    · rename_i hle
      refine ⟨?_, h⟩
      intro y hy
      rcases List.mem_cons.mp hy with rfl | hy
      · exact hle
      · exact keyLe_trans _ _ _ hle (h.1 y hy)
    · rename_i hle
      refine ⟨?_, ih h.2⟩
      intro y hy
      rcases (mem_insertKeyed x y r).mp hy with rfl | hy
      · rcases keyLe_total d.1 y.1 with h' | h'
        · exact h'
        · exact absurd h' hle
      · exact h.1 y hy

theorem keySorted_sort (l : List Keyed) : KeySorted (sortKeyed l) := by
  induction l with
  | nil => trivial
  | cons c r ih => exact keySorted_insert c _ ih

theorem keyAll_spec {doc : List (Period × Vec)} {ks : List Keyed} (h : keyAll doc = .ok ks) :
    ks.map (·.2) = doc ∧ ∀ x, x ∈ ks → feedKey x.2.1 = .ok x.1 := by
  induction doc generalizing ks with
  | nil => simp only [keyAll] at h; injection h with h; subst h; simp
  | cons pv r ih =>
    simp only [keyAll] at h
    cases hk : feedKey pv.1 with
    | error e => rw [hk] at h; cases h
    | ok k =>
      rw [hk] at h
      simp only at h
      cases hr : keyAll r with
      | error e => rw [hr] at h; cases h
      | ok ks' =>
        rw [hr] at h
        injection h with h
        subst h
        obtain ⟨h1, h2⟩ := ih hr
        refine ⟨by simp [h1], ?_⟩
        intro x hx
        rcases List.mem_cons.mp hx with rfl | hx
        · exact hk
        · exact h2 x hx

/-- what `finalize_variables_init` consumes is a rearrangement of the document -/
theorem builderFeed_inv {var : VarSpec} {s t : Store} {doc : List (Period × Vec)}
    (h : builderFeed var s doc = .ok t) :
    ∃ ks, keyAll doc = .ok ks ∧ feedAll var s ((sortKeyed ks).map (·.2)) = .ok t ∧
      (∀ pv, pv ∈ (sortKeyed ks).map (·.2) ↔ pv ∈ doc) ∧ KeySorted (sortKeyed ks) ∧
      ((sortKeyed ks).map (·.2)).length = doc.length := by
  unfold builderFeed at h
  cases hk : keyAll doc with
  | error e => rw [hk] at h; cases h
  | ok ks =>
    rw [hk] at h
    obtain ⟨h1, _⟩ := keyAll_spec hk
    refine ⟨ks, rfl, h, ?_, keySorted_sort ks, ?_⟩
    · intro pv
      rw [← h1]
      simp only [List.mem_map]
      constructor
      · rintro ⟨x, hx, rfl⟩; exact ⟨x, (mem_sortKeyed x ks).mp hx, rfl⟩
      · rintro ⟨x, hx, rfl⟩; exact ⟨x, (mem_sortKeyed x ks).mpr hx, rfl⟩
    · rw [List.length_map, length_sortKeyed, ← h1, List.length_map]

/-! ### `calculate` piece by piece -/

/-- on a piece of the variable's definition period `calculate` is one step of the sum of `calculate_add` -/
theorem calcOne_piece {var : VarSpec} (hn : var.neutralized = false) (he : var.defUnit ≠ .eternity)
    (s : Store) (q : Period) (hq : q.unit = var.defUnit ∧ q.size = 1) :
    calcOne var s q = .ok (match sget s q with | some v => v | none => vzero var.count,
      (sumStep var.count (vzero var.count, s) q).2) := by
  unfold calcOne
  rw [if_neg (by rintro ⟨_, h | h⟩ <;> [exact h hq.1; exact h hq.2])]
  simp only [getArray, hn, Bool.false_eq_true, if_false, skey, if_neg he, sumStep]
  cases sget s q <;> rfl

/-! ### the loops with `holder._set` -/

theorem truncR_int (n : Int) : truncR (n : Rat) = (n : Rat) := by
  simp [truncR]

theorem truncR_idem (x : Rat) : truncR (truncR x) = truncR x := by
  unfold truncR
  exact truncR_int _

theorem castVec_idem (k : VKind) (v : Vec) : castVec k (castVec k v) = castVec k v := by
  cases k
  · rfl
  · simp only [castVec, List.map_map]
    apply List.map_congr_left
    intro x _
    exact truncR_idem x
  · rfl

/-- `holder._set` on one definition period never raises for a vector of the right length: it stores the
converted vector -/
theorem holderSet_piece {var : VarSpec} (he : var.defUnit ≠ .eternity) (s : Store) (q : Period)
    (hq : q.unit = var.defUnit ∧ q.size = 1) (w : Vec) (hl : w.length = var.count) :
    holderSet var s q w = .ok (sput s q (castVec var.kind w)) := by
  unfold holderSet toArray
  have h1 : ¬ (w.length ≠ var.count) := by simpa using hl
  have h2 : ¬ (var.defUnit ≠ q.unit ∨ q.size > 1) := by
    rintro (h | h)
    · exact h hq.1.symm
    · omega
  simp only [if_neg h1, bind, Except.bind, if_pos he, if_neg h2]

/-- the loops of `dispatch` / `divide` written with `holder._set` (as in the code) are the pure loops of
the model: on pieces of one definition period `_set` cannot raise, and its second conversion to the
variable's dtype is where an `int` variable's share is truncated -/
theorem fillLoop_eq {var : VarSpec} (hn : var.neutralized = false) (he : var.defUnit ≠ .eternity)
    (w : Vec) (hl : w.length = var.count) (subs : List Period)
    (hu : ∀ q, q ∈ subs → q.unit = var.defUnit ∧ q.size = 1) (s : Store) :
    fillLoop var w s subs = .ok (dispatchOn s subs (castVec var.kind w)) := by
  induction subs generalizing s with
  | nil => rfl
  | cons q r ih =>
    have hq := hu q List.mem_cons_self
    have hstep : fillStepSet var w s q = .ok (fillStep (castVec var.kind w) s q) := by
      unfold fillStepSet fillStep
      simp only [getArray, hn, Bool.false_eq_true, if_false, skey, if_neg he]
      cases hs : sget s q with
      | none => exact holderSet_piece he s q hq w hl
      | some v => rfl
    simp only [fillLoop, hstep, dispatchOn, List.foldl_cons]
    exact ih (fun x hx => hu x (List.mem_cons_of_mem _ hx)) _

theorem offset_unit_size {p q : Period} {off : Off} {u : Option DUnit} (h : p.offset off u = .ok q) :
    q.unit = p.unit ∧ q.size = p.size := by
  unfold Period.offset at h
  cases hi : instOffset p.start off (u.getD p.unit) with
  | error e => simp [hi, bind, Except.bind] at h
  | ok o =>
    cases o with
    | none => simp [hi, bind, Except.bind] at h
    | some d =>
      simp only [hi, bind, Except.bind] at h
      injection h with h
      subst h
      exact ⟨rfl, rfl⟩

/-- every piece the walk visits is one definition period, whatever the input period -/
theorem walkFrom_units (after : Date) (fuel : Nat) (sub : Period) (qs : List Period)
    (h : walkFrom after fuel sub = .ok qs) : ∀ q, q ∈ qs → q.unit = sub.unit ∧ q.size = sub.size := by
  induction fuel generalizing sub qs with
  | zero => simp [walkFrom] at h
  | succ f ih =>
    simp only [walkFrom] at h
    split at h
    · cases ho : sub.offset (.n 1) none with
      | error e => simp [ho, bind, Except.bind] at h
      | ok nxt =>
        cases hr : walkFrom after f nxt with
        | error e => simp [ho, hr, bind, Except.bind] at h
        | ok rest =>
          simp only [ho, hr, bind, Except.bind] at h
          injection h with h
          subst h
          intro q hq
          rcases List.mem_cons.mp hq with rfl | hq
          · exact ⟨rfl, rfl⟩
          · obtain ⟨h1, h2⟩ := ih nxt rest hr q hq
            obtain ⟨h3, h4⟩ := offset_unit_size ho
            exact ⟨h1.trans h3, h2.trans h4⟩
    · injection h with h; subst h; intro q hq; cases hq

theorem walk_units {defU : DUnit} {p : Period} {subs : List Period} (h : walk defU p = .ok subs) :
    ∀ q, q ∈ subs → q.unit = defU ∧ q.size = 1 := by
  unfold walk at h
  cases hi : instOffset p.start (.n p.size) p.unit with
  | error e => simp [hi, bind, Except.bind] at h
  | ok o =>
    cases o with
    | none => simp [hi, bind, Except.bind] at h
    | some d =>
      simp only [hi, bind, Except.bind] at h
      exact walkFrom_units _ _ _ _ h

/-! ### `calculate` piece by piece -/

/-- `calculate` on every piece in turn, the results added up (what a caller does by hand) -/
def calcEach (var : VarSpec) : Vec × Store → List Period → Except String (Vec × Store)
  | acc, [] => .ok acc
  | acc, q :: r =>
    match calcOne var acc.2 q with
    | .ok (v, s') => calcEach var (vadd acc.1 v, s') r
    | .error e => .error e

theorem calcEach_eq_fold {var : VarSpec} (hn : var.neutralized = false) (he : var.defUnit ≠ .eternity)
    (subs : List Period) (hu : ∀ q, q ∈ subs → q.unit = var.defUnit ∧ q.size = 1) (acc : Vec × Store) :
    calcEach var acc subs = .ok (subs.foldl (sumStep var.count) acc) := by
  induction subs generalizing acc with
  | nil => rfl
  | cons q r ih =>
    have hq := hu q List.mem_cons_self
    have hc : ¬ (var.defUnit ≠ .eternity ∧ (q.unit ≠ var.defUnit ∨ q.size ≠ 1)) := by
      rintro ⟨_, h | h⟩
      · exact h hq.1
      · exact h hq.2
    simp only [calcEach, calcOne, if_neg hc, getArray, hn, Bool.false_eq_true, if_false, skey, if_neg he,
      List.foldl_cons]
    cases hs : sget acc.2 q with
    | none =>
      simp only [sumStep, hs]
      exact ih (fun x hx => hu x (List.mem_cons_of_mem _ hx)) _
    | some v =>
      simp only [sumStep, hs]
      exact ih (fun x hx => hu x (List.mem_cons_of_mem _ hx)) _

/-! ### the week family: pieces of one week, one weekday — and days inside week periods -/

/-- the walk by steps of `k` days: weeks (`k = 7`), days and weekdays (`k = 1`) -/
theorem walk_daysteps (u : DUnit) (k : Int) (hk : (u = .week ∧ k = 7) ∨ ((u = .day ∨ u = .weekday) ∧ k = 1))
    (start : Date) (hv : start.Valid) (N : Nat) (hay : (addDays start (k * N)).y ≤ 9999) (fuel : Nat)
    (hf : (k * N).toNat < fuel) :
    ∃ qs, walkFrom (addDays start (k * N)) fuel ⟨u, start, 1⟩ = .ok qs ∧ qs.length = N ∧
      (∀ q, q ∈ qs → q.unit = u ∧ q.size = 1) ∧ Tiles qs (ord start) (ord start + k * N - 1) ∧
      qs = (List.range N).map (fun (i : Nat) => (⟨u, addDays start (k * (i : Int)), 1⟩ : Period)) := by
  have hk1 : 1 ≤ k := by rcases hk with ⟨_, h⟩ | ⟨_, h⟩ <;> omega
  let f : Nat → Date := fun i => addDays start (k * (i : Int))
  have hnn : ∀ i : Nat, 0 ≤ k * (i : Int) := fun i => Int.mul_nonneg (by omega) (by omega)
  have hf0 : f 0 = start := by
    show addDays start (k * ((0 : Nat) : Int)) = start
    simp only [addDays, Int.natCast_zero, Int.mul_zero, Int.add_zero]
    exact ofOrd_ord start hv
  have hord : ∀ i : Nat, ord (f i) = ord start + k * i ∧ (f i).Valid := fun i => ord_addDays start hv _ (hnn i)
  have hmono : ∀ i j : Nat, i ≤ j → k * (i : Int) ≤ k * (j : Int) := by
    intro i j hij
    exact Int.mul_le_mul_of_nonneg_left (by omega) (by omega)
  have hsucc : ∀ i : Nat, k * ((i + 1 : Nat) : Int) = k * (i : Int) + k := by
    intro i; push_cast; rw [Int.mul_add, Int.mul_one]
  have hva : (addDays start (k * N)).Valid := (hord N).2
  have hyear : ∀ i : Nat, i ≤ N → (f i).y ≤ 9999 := by
    intro i hi
    have := year_le_of_ord_le (f i) (f N) (hord i).2 (hord N).2 (by rw [(hord i).1, (hord N).1]; have := hmono i N hi; omega)
    exact Int.le_trans this hay
  have hstep : ∀ i : Nat, addDays (f i) k = f (i + 1) := by
    intro i
    show ofOrd (ord (f i) + k) = ofOrd (ord start + k * ((i + 1 : Nat) : Int))
    rw [(hord i).1, hsucc i, Int.add_assoc]
  have key := walkFrom_seq u (addDays start (k * N)) f N
    (by intro i hi
        rw [lt_iff_ord_lt _ _ (hord i).2 hva]
        show ord (f i) < ord (f N)
        rw [(hord i).1, (hord N).1]
        have h1 := hmono (i + 1) N (by omega)
        have h2 := hsucc i
        omega)
    (by intro i hi
        have h1 : dateOk (f i) = true := dateOk_of _ (hord i).2 (hyear i (by omega))
        have h2 : chk (f (i + 1)) = .ok (f (i + 1)) := chk_ok _ (hord (i + 1)).2.1 (hyear (i + 1) (by omega))
        rcases hk with ⟨rfl, rfl⟩ | ⟨rfl | rfl, rfl⟩
        · have hs := hstep i
          simp only [Period.offset, Option.getD_none, instOffset, h1, Int.mul_one, hs, h2]
          simp [bind, Except.bind, Except.map]
        · have hs := hstep i
          simp only [Period.offset, Option.getD_none, instOffset, h1, hs, h2]
          simp [bind, Except.bind, Except.map]
        · have hs := hstep i
          simp only [Period.offset, Option.getD_none, instOffset, h1, hs, h2]
          simp [bind, Except.bind, Except.map])
    (by rw [lt_iff_ord_lt _ _ (hord N).2 hva]
        show ¬ (ord (f N) < ord (f N))
        omega)
    (by intro i hi
        have h2 := hsucc i
        rcases hk with ⟨rfl, rfl⟩ | ⟨rfl | rfl, rfl⟩ <;>
          (simp only [Period.hi]; rw [(hord (i + 1)).1, (hord i).1]; omega))
    (by intro i hi
        have h2 := hsucc i
        rw [(hord (i + 1)).1, (hord i).1]; omega)
    N 0 fuel (by omega) (by
      have : (k * (N : Int)).toNat ≥ N := by
        have h1 : (N : Int) ≤ k * N := by
          have := Int.mul_le_mul_of_nonneg_right hk1 (show (0 : Int) ≤ N by omega)
          omega
        omega
      omega)
  rw [hf0, ← List.range_eq_range'] at key
  obtain ⟨qs, h1, h2, h3, h4, h5⟩ := key
  refine ⟨qs, h1, h2, h3, ?_, h5⟩
  have : ord (f N) = ord start + k * N := (hord N).1
  rw [this] at h4
  exact h4

/-- length in days of a period of the week family (or a day range) -/
def spanW (p : Period) : Int := if p.unit = .week then 7 * p.size else p.size

/-- week and weekday variables, and day variables given week / weekday periods: any valid first day -/
def WeekDomain (p : Period) (defU : DUnit) : Prop :=
  p.start.Valid ∧ 1 ≤ p.size ∧ (addDays p.start (spanW p)).y ≤ 9999 ∧
  ((defU = .week ∧ p.unit = .week) ∨
   ((defU = .weekday ∨ defU = .day) ∧ (p.unit = .week ∨ p.unit = .weekday ∨ p.unit = .day)))

instance (p : Period) (defU : DUnit) : Decidable (WeekDomain p defU) := by
  unfold WeekDomain; infer_instance

theorem spanW_week (s : Date) (n : Int) : spanW ⟨.week, s, n⟩ = 7 * n := by simp [spanW]
theorem spanW_weekday (s : Date) (n : Int) : spanW ⟨.weekday, s, n⟩ = n := by simp [spanW]
theorem spanW_day (s : Date) (n : Int) : spanW ⟨.day, s, n⟩ = n := by simp [spanW]

def pieceCountW (p : Period) (defU : DUnit) : Nat :=
  if defU = .week then p.size.toNat else (spanW p).toNat

def piecesW (p : Period) (defU : DUnit) : List Period :=
  (List.range (pieceCountW p defU)).map (fun (i : Nat) =>
    (⟨defU, addDays p.start ((if defU = .week then 7 else 1) * (i : Int)), 1⟩ : Period))

theorem walk_tiles_week (p : Period) (defU : DUnit) (h : WeekDomain p defU) :
    ∃ qs, walk defU p = .ok qs ∧ qs.length = pieceCountW p defU ∧ qs ≠ [] ∧
      (∀ q, q ∈ qs → q.unit = defU ∧ q.size = 1) ∧ Tiles qs p.lo p.hi ∧ qs = piecesW p defU := by
  obtain ⟨u, start, size⟩ := p
  obtain ⟨hv, hs, hay, hcase⟩ := h
  simp only at hv hs hcase hay
  have hne : ∀ (qs : List Period) (n : Nat), qs.length = n → 0 < n → qs ≠ [] := by
    intro qs n h1 h2 e; subst e; simp at h1; omega
  -- the instant after the period
  have hspan : 1 ≤ spanW ⟨u, start, size⟩ := by unfold spanW; simp only; split <;> omega
  obtain ⟨hoa, hva⟩ := ord_addDays start hv (spanW ⟨u, start, size⟩) (by omega)
  have hsy : start.y ≤ 9999 := by
    have := year_le_of_ord_le start _ hv hva (by omega); omega
  have hoff : instOffset start (.n size) u = .ok (some (addDays start (spanW ⟨u, start, size⟩))) := by
    rcases hcase with ⟨_, rfl⟩ | ⟨_, rfl | rfl | rfl⟩
    · rw [spanW_week] at hay hva ⊢
      simp only [instOffset, dateOk_of start hv hsy, chk_ok _ hva.1 hay]
      simp [Except.map]
    · rw [spanW_week] at hay hva ⊢
      simp only [instOffset, dateOk_of start hv hsy, chk_ok _ hva.1 hay]
      simp [Except.map]
    · rw [spanW_weekday] at hay hva ⊢
      simp only [instOffset, dateOk_of start hv hsy, chk_ok _ hva.1 hay]
      simp [Except.map]
    · rw [spanW_day] at hay hva ⊢
      simp only [instOffset, dateOk_of start hv hsy, chk_ok _ hva.1 hay]
      simp [Except.map]
  have hfuel : ((ord (addDays start (spanW ⟨u, start, size⟩)) - ord start).toNat + 1) = (spanW ⟨u, start, size⟩).toNat + 1 := by
    rw [hoa]; congr 1; omega
  rcases hcase with ⟨rfl, rfl⟩ | ⟨hdu, hpu⟩
  · -- pieces of one week in a week period
    have e : (7 : Int) * ((size.toNat : Nat) : Int) = spanW ⟨.week, start, size⟩ := by simp [spanW]; omega
    have := walk_daysteps .week 7 (Or.inl ⟨rfl, rfl⟩) start hv size.toNat (by rw [e]; exact hay)
      ((spanW ⟨.week, start, size⟩).toNat + 1) (by rw [e]; omega)
    rw [e] at this
    obtain ⟨qs, hw, hl, hu, ht, hexp⟩ := this
    refine ⟨qs, ?_, by simpa [pieceCountW] using hl, hne qs _ hl (by omega), hu, ?_, ?_⟩
    · simp only [walk, hoff, bind, Except.bind, hfuel]; exact hw
    · simpa [Period.lo, Period.hi, spanW] using ht
    · rw [hexp]; simp [piecesW, pieceCountW]
  · -- pieces of one day / weekday
    have e : (1 : Int) * (((spanW ⟨u, start, size⟩).toNat : Nat) : Int) = spanW ⟨u, start, size⟩ := by omega
    have := walk_daysteps defU 1 (Or.inr ⟨by rcases hdu with h | h <;> simp [h], rfl⟩) start hv
      (spanW ⟨u, start, size⟩).toNat (by rw [e]; exact hay)
      ((spanW ⟨u, start, size⟩).toNat + 1) (by rw [e]; omega)
    rw [e] at this
    obtain ⟨qs, hw, hl, hu, ht, hexp⟩ := this
    have hdw : defU ≠ .week := by rcases hdu with h | h <;> rw [h] <;> decide
    refine ⟨qs, ?_, by simpa [pieceCountW, hdw] using hl, hne qs _ hl (by omega), hu, ?_, ?_⟩
    · simp only [walk, hoff, bind, Except.bind, hfuel]; exact hw
    · rcases hpu with rfl | rfl | rfl <;> simpa [Period.lo, Period.hi, spanW] using ht
    · rw [hexp]; simp [piecesW, pieceCountW, hdw]

theorem offset_weekdays (u0 : DUnit) (start : Date) (hv : start.Valid) (hsy : start.y ≤ 9999) (i : Nat)
    (hy : (addDays start (i : Int)).y ≤ 9999) :
    Period.offset ⟨u0, start, 1⟩ (.n (Int.ofNat i)) (some .weekday) = .ok ⟨u0, addDays start (i : Int), 1⟩ := by
  have hva := (ord_addDays start hv (i : Int) (by omega)).2
  simp only [Period.offset, Option.getD_some, instOffset, dateOk_of start hv hsy, Int.ofNat_eq_natCast,
    chk_ok _ hva.1 hy]
  simp [bind, Except.bind, Except.map]

theorem offset_weeks (u0 : DUnit) (start : Date) (hv : start.Valid) (hsy : start.y ≤ 9999) (i : Nat)
    (hy : (addDays start (7 * (i : Int))).y ≤ 9999) :
    Period.offset ⟨u0, start, 1⟩ (.n (Int.ofNat i)) (some .week) = .ok ⟨u0, addDays start (7 * (i : Int)), 1⟩ := by
  have hva := (ord_addDays start hv (7 * (i : Int)) (by omega)).2
  simp only [Period.offset, Option.getD_some, instOffset, dateOk_of start hv hsy, Int.ofNat_eq_natCast,
    chk_ok _ hva.1 hy]
  simp [bind, Except.bind, Except.map]

/-- years along a run of days stay below the year of its end -/
theorem addDays_year_le (start : Date) (hv : start.Valid) (a b : Int) (ha : 0 ≤ a) (hab : a ≤ b)
    (hy : (addDays start b).y ≤ 9999) : (addDays start a).y ≤ 9999 := by
  obtain ⟨h1, h2⟩ := ord_addDays start hv a ha
  obtain ⟨h3, h4⟩ := ord_addDays start hv b (by omega)
  have := year_le_of_ord_le _ _ h2 h4 (by rw [h1, h3]; omega)
  omega

/-- a week variable's pieces are the ISO weeks only when the period starts on a Monday -/
def AlignedW (p : Period) (defU : DUnit) : Prop := defU = .week → startOfWeek p.start = p.start

instance (p : Period) (defU : DUnit) : Decidable (AlignedW p defU) := by unfold AlignedW; infer_instance

theorem subperiods_eq_piecesW (p : Period) (defU : DUnit) (h : WeekDomain p defU) (hal : AlignedW p defU) :
    p.subperiods defU = .ok (piecesW p defU) := by
  obtain ⟨u, start, size⟩ := p
  obtain ⟨hv, hs, hay, hcase⟩ := h
  simp only at hv hs hcase hay
  have hspan : 1 ≤ spanW ⟨u, start, size⟩ := by unfold spanW; simp only; split <;> omega
  have hsy : start.y ≤ 9999 := by
    obtain ⟨hoa, hva⟩ := ord_addDays start hv (spanW ⟨u, start, size⟩) (by omega)
    have := year_le_of_ord_le start _ hv hva (by omega); omega
  rcases hcase with ⟨rfl, rfl⟩ | ⟨hdu, hpu⟩
  · have hmon : startOfWeek start = start := hal rfl
    rw [spanW_week] at hay
    have hw : ¬ (unitWeight DUnit.week < unitWeight DUnit.week) := by decide
    have hoff : offsetsFrom ⟨.week, start, 1⟩ .week size =
        .ok ((List.range size.toNat).map (fun (i : Nat) => (⟨.week, addDays start (7 * (i : Int)), 1⟩ : Period))) := by
      apply offsetsFrom_eq
      intro i hi
      apply offset_weeks .week start hv hsy
      exact addDays_year_le start hv _ _ (by omega) (by omega) hay
    simp only [Period.subperiods, if_neg hw, Period.firstWeek, instOffset, dateOk_of start hv hsy, hmon,
      chk_ok _ hv.1 hsy, Period.sizeInWeeks, bind, Except.bind, Except.map]
    simp
    rw [hoff]
    simp [piecesW, pieceCountW]
  · rcases hdu with rfl | rfl
    · -- weekday pieces
      have hoff : ∀ n : Int, n = spanW ⟨u, start, size⟩ → offsetsFrom ⟨.weekday, start, 1⟩ .weekday n =
          .ok ((List.range n.toNat).map (fun (i : Nat) => (⟨.weekday, addDays start (i : Int), 1⟩ : Period))) := by
        intro n hn
        apply offsetsFrom_eq
        intro i hi
        apply offset_weekdays .weekday start hv hsy
        exact addDays_year_le start hv _ _ (by omega) (by omega) hay
      rcases hpu with rfl | rfl | rfl
      · have hw : ¬ (unitWeight DUnit.week < unitWeight DUnit.weekday) := by decide
        have := hoff (size * 7) (by rw [spanW_week]; omega)
        simp only [Period.subperiods, if_neg hw, Period.firstWeekday, Period.sizeInWeekdays, bind, Except.bind, this]
        simp [piecesW, pieceCountW, spanW_week]
        congr 2; omega
      · have hw : ¬ (unitWeight DUnit.weekday < unitWeight DUnit.weekday) := by decide
        have := hoff size (by rw [spanW_weekday])
        simp only [Period.subperiods, if_neg hw, Period.firstWeekday, Period.sizeInWeekdays, bind, Except.bind, this]
        simp [piecesW, pieceCountW, spanW_weekday]
      · have hw : ¬ (unitWeight DUnit.day < unitWeight DUnit.weekday) := by decide
        have := hoff size (by rw [spanW_day])
        simp only [Period.subperiods, if_neg hw, Period.firstWeekday, Period.sizeInWeekdays, bind, Except.bind, this]
        simp [piecesW, pieceCountW, spanW_day]
    · -- day pieces
      have hoff : ∀ n : Int, n = spanW ⟨u, start, size⟩ → offsetsFrom ⟨.day, start, 1⟩ .day n =
          .ok ((List.range n.toNat).map (fun (i : Nat) => (⟨.day, addDays start (i : Int), 1⟩ : Period))) := by
        intro n hn
        apply offsetsFrom_eq
        intro i hi
        apply offset_days .day start hv hsy
        exact addDays_year_le start hv _ _ (by omega) (by omega) hay
      rcases hpu with rfl | rfl | rfl
      · have hw : ¬ (unitWeight DUnit.week < unitWeight DUnit.day) := by decide
        have := hoff (size * 7) (by rw [spanW_week]; omega)
        simp only [Period.subperiods, if_neg hw, Period.firstDay, Period.sizeInDays, bind, Except.bind, this]
        simp [piecesW, pieceCountW, spanW_week]
        congr 2; omega
      · have hw : ¬ (unitWeight DUnit.weekday < unitWeight DUnit.day) := by decide
        have := hoff size (by rw [spanW_weekday])
        simp only [Period.subperiods, if_neg hw, Period.firstDay, Period.sizeInDays, bind, Except.bind, this]
        simp [piecesW, pieceCountW, spanW_weekday]
      · have hw : ¬ (unitWeight DUnit.day < unitWeight DUnit.day) := by decide
        have := hoff size (by rw [spanW_day])
        simp only [Period.subperiods, if_neg hw, Period.firstDay, Period.sizeInDays, bind, Except.bind, this]
        simp [piecesW, pieceCountW, spanW_day]

theorem walk_eq_subperiodsW (p : Period) (defU : DUnit) (h : WeekDomain p defU) (hal : AlignedW p defU) :
    walk defU p = p.subperiods defU := by
  obtain ⟨qs, hw, _, _, _, _, hq⟩ := walk_tiles_week p defU h
  rw [hw, hq, subperiods_eq_piecesW p defU h hal]

/-! ### order independence as a permutation statement -/

abbrev DCall := List Period × Vec

/-- nested-or-disjoint families in which inputs with equally many pieces are on the SAME pieces or on
disjoint ones (always the case for the piece lists of periods of one tiling family: two different
periods with equally many pieces that overlap — calendar year 2018 and rolling year 2018-07 — are
excluded, and for them the order does matter) -/
def StrictLaminar (calls : List DCall) : Prop :=
  ∀ c, c ∈ calls → ∀ d, d ∈ calls → d.1.length ≤ c.1.length →
    (d.1.length < c.1.length ∧ ∀ q, q ∈ d.1 → q ∈ c.1) ∨ (∀ q, q ∈ c.1 → q ∉ d.1) ∨ d.1 = c.1

instance (calls : List DCall) : Decidable (StrictLaminar calls) := by
  unfold StrictLaminar; infer_instance

/-- the same pieces twice in a row: the second amount must repeat the first -/
theorem divide_same_twice {n : Nat} {s t : Store} {l : List Period} {a b : Vec} (hwf : WF n s)
    (h1 : a.length = n) (h2 : b.length = n) (hr : runDivide .num s [(l, a), (l, b)] = .ok t) : b = a := by
  obtain ⟨s1, hd1, hd2⟩ := (runDivide_two _ _ _ _ _ _ _).mp hr
  subst h1
  obtain ⟨c, hcl, hf, hsum, _⟩ := divideOn_ok_spec hwf hd1
  have hw1 : WF b.length s1 := h2 ▸ filled_wf hf hwf hcl
  have hu : unknownCount s1 l = 0 := (unknownCount_zero_iff s1 l).mpr (fun q hq => filled_known hf q hq)
  by_contra hne
  have herr : ∃ e, divideOn .num s1 l b = .error e := by
    apply (divideOn_error_iff .num hw1).mpr
    refine ⟨hu, ?_⟩
    by_contra hcon
    apply hne
    apply vec_ext h2
    intro i hi
    by_contra hd
    exact hcon ⟨i, hi, by rw [knownSum_filled hf, ← hsum i]; exact hd⟩
  obtain ⟨e, he⟩ := herr
  rw [he] at hd2; cases hd2

/-- an input moved from the front past inputs that have at most as many pieces -/
theorem runDivide_move_past {n : Nat} (c : DCall) (hc : c.2.length = n) (A B : List DCall)
    (hA : ∀ d, d ∈ A → d.2.length = n)
    (hlam : ∀ d, d ∈ A → (∀ q, q ∈ d.1 → q ∈ c.1) ∨ (∀ q, q ∈ c.1 → q ∉ d.1) ∨ d.1 = c.1)
    (s t : Store) (hwf : WF n s) (h : runDivide .num s (c :: (A ++ B)) = .ok t) :
    ∃ t', runDivide .num s (A ++ c :: B) = .ok t' ∧ SameStore t' t := by
  induction A generalizing s t with
  | nil => exact ⟨t, h, sameStore_refl t⟩
  | cons d r ih =>
    obtain ⟨s2, h2, hrest⟩ := (runDivide_cons2 _ _ _ _ _ _).mp h
    have hd := hA d List.mem_cons_self
    obtain ⟨c1, c2⟩ := c
    obtain ⟨d1, d2⟩ := d
    simp only at hc hd
    have hswap : ∃ s2', runDivide .num s [(d1, d2), (c1, c2)] = .ok s2' ∧ SameStore s2' s2 := by
      rcases hlam (d1, d2) List.mem_cons_self with hin | hdis | heq
      · exact divide_swap_nested hwf hc hd hin h2
      · exact divide_swap_disjoint hwf hc hd hdis h2
      · simp only at heq
        subst heq
        have := divide_same_twice hwf hc hd h2
        subst this
        exact ⟨s2, h2, sameStore_refl s2⟩
    obtain ⟨s2', hs2', hsame2⟩ := hswap
    obtain ⟨t2, ht2, hsamet⟩ := runDivide_congr (sameStore_symm hsame2) hrest
    obtain ⟨sd, hdd, hcc⟩ := (runDivide_two _ _ _ _ _ _ _).mp hs2'
    have hwd : WF n sd := divideOn_wf hwf hd hdd
    have hrun : runDivide .num sd ((c1, c2) :: (r ++ B)) = .ok t2 := by
      simp only [runDivide, hcc]; exact ht2
    obtain ⟨t3, ht3, hsame3⟩ := ih (fun x hx => hA x (List.mem_cons_of_mem _ hx))
      (fun x hx => hlam x (List.mem_cons_of_mem _ hx)) sd t2 hwd hrun
    refine ⟨t3, ?_, sameStore_trans hsame3 (sameStore_symm hsamet)⟩
    simp only [List.cons_append, runDivide, hdd]
    exact ht3

/-- non-decreasing number of pieces -/
def ByLength (l : List DCall) : Prop := l.Pairwise (fun c d => c.1.length ≤ d.1.length)

/-- **any accepted order against any shortest-first arrangement of the same inputs** -/
theorem runDivide_perm_sorted {n : Nat} (calls : List DCall) (hlen : ∀ d, d ∈ calls → d.2.length = n)
    (hlam : StrictLaminar calls) (s t : Store) (hwf : WF n s) (h : runDivide .num s calls = .ok t)
    (calls' : List DCall) (hp : calls'.Perm calls) (hs : ByLength calls') :
    ∃ t', runDivide .num s calls' = .ok t' ∧ SameStore t' t := by
  induction calls generalizing s t calls' with
  | nil =>
    have : calls' = [] := List.Perm.eq_nil hp
    subst this
    exact ⟨t, h, sameStore_refl t⟩
  | cons c r ih =>
    have hcm : c ∈ calls' := hp.symm.subset List.mem_cons_self
    obtain ⟨A, B, rfl⟩ := List.append_of_mem hcm
    have hp' : (A ++ B).Perm r := by
      have h1 : (c :: (A ++ B)).Perm (A ++ c :: B) := List.perm_middle.symm
      exact (h1.trans hp).cons_inv
    have hs' : ByLength (A ++ B) := by
      unfold ByLength at hs ⊢
      exact hs.sublist (List.Sublist.append (List.Sublist.refl A) (List.sublist_cons_self c B))
    obtain ⟨c1, c2⟩ := c
    simp only [runDivide] at h
    cases hd : divideOn .num s c1 c2 with
    | error e => rw [hd] at h; cases h
    | ok s1 =>
      rw [hd] at h
      have hc := hlen (c1, c2) List.mem_cons_self
      have hw1 : WF n s1 := divideOn_wf hwf hc hd
      have hlam' : StrictLaminar r := fun a ha b hb => hlam a (List.mem_cons_of_mem _ ha) b (List.mem_cons_of_mem _ hb)
      obtain ⟨t1, ht1, hsame1⟩ := ih (fun d hd => hlen d (List.mem_cons_of_mem _ hd)) hlam' s1 t hw1 h (A ++ B) hp' hs'
      have hrun : runDivide .num s ((c1, c2) :: (A ++ B)) = .ok t1 := by
        simp only [runDivide, hd]; exact ht1
      have hAmem : ∀ d, d ∈ A → d ∈ r := fun d hd => hp'.subset (List.mem_append_left B hd)
      have hAle : ∀ d, d ∈ A → d.1.length ≤ c1.length := by
        intro d hd
        unfold ByLength at hs
        rw [List.pairwise_append] at hs
        exact hs.2.2 d hd (c1, c2) List.mem_cons_self
      obtain ⟨t2, ht2, hsame2⟩ := runDivide_move_past (c1, c2) hc A B
        (fun d hd => hlen d (List.mem_cons_of_mem _ (hAmem d hd)))
        (fun d hd => by
          rcases hlam (c1, c2) List.mem_cons_self d (List.mem_cons_of_mem _ (hAmem d hd)) (hAle d hd) with h | h | h
          · exact Or.inl h.2
          · exact Or.inr (Or.inl h)
          · exact Or.inr (Or.inr h))
        s t1 hwf hrun
      exact ⟨t2, ht2, sameStore_trans hsame2 hsame1⟩

def lenLe (c d : DCall) : Bool := decide (c.1.length ≤ d.1.length)

/-- **order independence, as a permutation statement.** Two accepted histories made of the same inputs
(one a permutation of the other; a strictly laminar family) end in the same store. -/
theorem runDivide_perm {n : Nat} (calls1 calls2 : List DCall) (hp : calls2.Perm calls1)
    (hlen : ∀ d, d ∈ calls1 → d.2.length = n) (hlam : StrictLaminar calls1)
    (s t1 t2 : Store) (hwf : WF n s) (h1 : runDivide .num s calls1 = .ok t1)
    (h2 : runDivide .num s calls2 = .ok t2) : SameStore t1 t2 := by
  let srt := calls1.mergeSort lenLe
  have hperm1 : srt.Perm calls1 := List.mergeSort_perm calls1 lenLe
  have hsorted : ByLength srt := by
    have := List.pairwise_mergeSort (le := lenLe)
      (by intro a b c hab hbc; simp only [lenLe, decide_eq_true_eq] at *; omega)
      (by intro a b; simp only [lenLe, Bool.or_eq_true, decide_eq_true_eq]; omega) calls1
    unfold ByLength
    exact this.imp (by intro a b hab; simpa [lenLe] using hab)
  have hmem : ∀ d, d ∈ calls2 ↔ d ∈ calls1 := fun d => hp.mem_iff
  obtain ⟨u1, hu1, hs1⟩ := runDivide_perm_sorted calls1 hlen hlam s t1 hwf h1 srt hperm1 hsorted
  obtain ⟨u2, hu2, hs2⟩ := runDivide_perm_sorted calls2 (fun d hd => hlen d ((hmem d).mp hd))
    (fun c hc d hd => hlam c ((hmem c).mp hc) d ((hmem d).mp hd)) s t2 hwf h2 srt (hperm1.trans hp.symm) hsorted
  rw [hu1] at hu2
  injection hu2 with e
  subst e
  exact sameStore_trans (sameStore_symm hs1) hs2

/-- the pieces `set_input` visits for a period (empty when the walk fails) -/
def piecesOf (var : VarSpec) (p : Period) : List Period :=
  match walk var.defUnit p with
  | .ok l => l
  | .error _ => []

/-- a history of `Simulation.set_input` calls on a divide variable (exact values, no input dropped by the
`end` test) is the sequence of `divide` steps on the pieces of its periods -/
theorem feedAll_runDivide {var : VarSpec} (hr : var.rule = .divide) (hk : var.kind = .num)
    (hn : var.neutralized = false) {calls : List (Period × Vec)} (hlive : ∀ pv, pv ∈ calls → Live var pv.1)
    {s t : Store} (h : feedAll var s calls = .ok t) :
    runDivide .num s (calls.map (fun pv => (piecesOf var pv.1, pv.2))) = .ok t ∧
      ∀ pv, pv ∈ calls → pv.2.length = var.count := by
  induction calls generalizing s with
  | nil => simp only [feedAll] at h; exact ⟨by simpa [runDivide] using h, fun _ hx => by cases hx⟩
  | cons x xs ih =>
    obtain ⟨p, v⟩ := x
    simp only [feedAll] at h
    cases hs : simSetInput var s p v with
    | error e => rw [hs] at h; cases h
    | ok s1 =>
      rw [hs] at h
      rw [simSetInput_live (hlive (p, v) List.mem_cons_self)] at hs
      obtain ⟨hl, _, subs, hw, hd⟩ := setInput_divide_inv hr hn hs
      rw [hk] at hd
      simp only [castVec] at hd
      obtain ⟨h1, h2⟩ := ih (fun pv hpv => hlive pv (List.mem_cons_of_mem _ hpv)) h
      refine ⟨?_, ?_⟩
      · simp only [List.map_cons, runDivide, piecesOf, hw, hd]
        exact h1
      · intro pv hpv
        rcases List.mem_cons.mp hpv with rfl | hpv
        · exact hl
        · exact h2 pv hpv

/-- a history of `Simulation.set_input` calls on a dispatch variable is the sequence of `dispatch` steps on
the pieces of its periods, with the values converted to the variable's type -/
theorem feedAll_runDispatch {var : VarSpec} (hr : var.rule = .dispatch)
    (hn : var.neutralized = false) {calls : List (Period × Vec)} (hlive : ∀ pv, pv ∈ calls → Live var pv.1)
    {s t : Store} (h : feedAll var s calls = .ok t) :
    t = runDispatch s (calls.map (fun pv => (piecesOf var pv.1, castVec var.kind pv.2))) := by
  induction calls generalizing s with
  | nil => simp only [feedAll] at h; injection h with h; subst h; rfl
  | cons x xs ih =>
    obtain ⟨p, v⟩ := x
    simp only [feedAll] at h
    cases hs : simSetInput var s p v with
    | error e => rw [hs] at h; cases h
    | ok s1 =>
      rw [hs] at h
      rw [simSetInput_live (hlive (p, v) List.mem_cons_self)] at hs
      obtain ⟨_, _, subs, hw, rfl⟩ := setInput_dispatch_inv hr hn hs
      have := ih (fun pv hpv => hlive pv (List.mem_cons_of_mem _ hpv)) h
      simp only [List.map_cons, runDispatch, piecesOf, hw]
      exact this

theorem keySorted_after (A : List Keyed) (y : Keyed) (B : List Keyed) (h : KeySorted (A ++ y :: B)) :
    ∀ x, x ∈ B → keyLe y.1 x.1 = true := by
  induction A with
  | nil => exact fun x hx => h.1 x hx
  | cons a r ih => exact ih h.2

end OFCore
