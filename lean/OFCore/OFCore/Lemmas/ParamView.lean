import OFCore.ParamView
import OFCore.Lemmas.Param
/-!
# Helper lemmas for the parameter-reading model (C07)

* the memo invariant `MemoOK` (every memoised view is the snapshot of the current tree of the system
  it is keyed by) and its preservation by every operation;
* attribute paths commute with evaluation at an instant (`assoc_childrenAt`, `sdescend_atInstant`);
* the tracing wrapper (`tracedDescend`);
* stable insertion sort (`assoc_sortFields`, permutation, sortedness for a strict weak order);
* `homog ok → vectorise ok`; vector indexing row by row;
* as-of-date indexing: `nthAfter` on a chronologically sorted field list.
-/
set_option linter.unusedSimpArgs false
set_option linter.unusedVariables false

namespace OFCore.PView
open OFCore.Param

variable {V W α β : Type}

/-! ## The memo -/

/-- every reference held by a system designates an existing tree object -/
def RefsOK (w : World V) : Prop := ∀ r ∈ w.systems, ∀ i, r.tree = some i → i < w.heap.length

/-- the state is sound: references are valid, and every memo entry is keyed by an existing system and is
    the snapshot of that system's CURRENT tree -/
def MemoOK (w : World V) : Prop :=
  RefsOK w ∧ ∀ k v, (k, v) ∈ w.memo → k.sys < w.systems.length ∧ v = snapshot (w.treeOf k.sys) k.date

theorem memoFind_mem {k : Key} {m : List (Key × α)} {x : α} (h : memoFind k m = some x) : (k, x) ∈ m := by
  induction m with
  | nil => simp [memoFind] at h
  | cons p r ih =>
    obtain ⟨k', y⟩ := p
    simp only [memoFind] at h
    by_cases hk : k' = k
    · rw [if_pos hk] at h; cases h; subst hk; exact List.mem_cons_self ..
    · rw [if_neg hk] at h; exact List.mem_cons_of_mem _ (ih h)

theorem mem_memoErase {k : Key} {m : List (Key × α)} {p : Key × α} (h : p ∈ memoErase k m) : p ∈ m := by
  induction m with
  | nil => simp [memoErase] at h
  | cons q r ih =>
    obtain ⟨k', y⟩ := q
    simp only [memoErase] at h
    by_cases hk : k' = k
    · rw [if_pos hk] at h; exact List.mem_cons_of_mem _ (ih h)
    · rw [if_neg hk] at h
      rcases List.mem_cons.mp h with h | h
      · rw [h]; exact List.mem_cons_self ..
      · exact List.mem_cons_of_mem _ (ih h)

theorem mem_memoTouch {k : Key} {x : α} {m : List (Key × α)} {p : Key × α} (h : p ∈ memoTouch k x m) :
    p = (k, x) ∨ p ∈ m := by
  unfold memoTouch at h
  have h' := List.mem_of_mem_take h
  rcases List.mem_cons.mp h' with h' | h'
  · exact Or.inl h'
  · exact Or.inr (mem_memoErase h')

theorem lt_of_get {l : List α} {s : Nat} {r : α} (h : l[s]? = some r) : s < l.length := by
  by_cases hs : s < l.length
  · exact hs
  · rw [List.getElem?_eq_none (by omega)] at h; cases h

/-- the tree of a system depends on the systems and the objects only -/
theorem treeOf_congr {w w' : World V} (h1 : w'.systems = w.systems) (h2 : w'.heap = w.heap) (s : Nat) :
    w'.treeOf s = w.treeOf s := by
  unfold World.treeOf; rw [h1, h2]

theorem viewAt_frame {w w' : World V} {s form : Nat} {d : Int} {v : Option (Snap V)}
    (h : viewAt w s form d = some (w', v)) : w'.systems = w.systems ∧ w'.heap = w.heap := by
  unfold viewAt at h
  cases hr : w.systems[s]? with
  | none => rw [hr] at h; cases h
  | some r =>
    rw [hr] at h
    simp only at h
    cases hf : memoFind ⟨s, form, d⟩ w.memo with
    | some v0 => rw [hf] at h; cases h; exact ⟨rfl, rfl⟩
    | none => rw [hf] at h; cases h; exact ⟨rfl, rfl⟩

/-- a view read returns the snapshot of the current tree, whatever was read or changed before -/
theorem viewAt_spec {w w' : World V} {s form : Nat} {d : Int} {v : Option (Snap V)}
    (hw : MemoOK w) (h : viewAt w s form d = some (w', v)) :
    v = snapshot (w.treeOf s) d ∧ MemoOK w' ∧ w'.systems = w.systems ∧ w'.heap = w.heap := by
  obtain ⟨hf1, hf2⟩ := viewAt_frame h
  unfold viewAt at h
  cases hr : w.systems[s]? with
  | none => rw [hr] at h; cases h
  | some r =>
    rw [hr] at h
    simp only at h
    have hlt := lt_of_get hr
    have key : ∀ v0, v0 = snapshot (w.treeOf s) d →
        MemoOK ({ w with memo := memoTouch ⟨s, form, d⟩ v0 w.memo } : World V) := by
      intro v0 hv0
      refine ⟨hw.1, ?_⟩
      intro k x hkx
      rcases mem_memoTouch hkx with hkx | hkx
      · cases hkx; exact ⟨hlt, hv0⟩
      · exact hw.2 k x hkx
    cases hf : memoFind ⟨s, form, d⟩ w.memo with
    | some v0 =>
      rw [hf] at h
      simp only [Option.some.injEq, Prod.mk.injEq] at h
      obtain ⟨h1, h2⟩ := h
      have hv0 := (hw.2 _ _ (memoFind_mem hf)).2
      subst h1; subst h2
      exact ⟨hv0, key _ hv0, rfl, rfl⟩
    | none =>
      rw [hf] at h
      simp only [Option.some.injEq, Prod.mk.injEq] at h
      obtain ⟨h1, h2⟩ := h
      subst h1; subst h2
      exact ⟨rfl, key _ rfl, rfl, rfl⟩

theorem viewAt_isSome {w : World V} {s : Nat} (form : Nat) (d : Int) (hs : s < w.systems.length) :
    ∃ w' v, viewAt w s form d = some (w', v) := by
  unfold viewAt
  rw [List.getElem?_eq_getElem hs]
  simp only
  cases memoFind ⟨s, form, d⟩ w.memo with
  | some v0 => exact ⟨_, _, rfl⟩
  | none => exact ⟨_, _, rfl⟩

theorem memoOK_of_nil {w : World V} (hr : RefsOK w) (hm : w.memo = []) : MemoOK w := by
  refine ⟨hr, ?_⟩
  intro k v h; rw [hm] at h; cases h

theorem readViewOf_frame (w : World V) (s form : Nat) (d : Int) (path : List String) :
    (readViewOf w s form d path).1.systems = w.systems ∧ (readViewOf w s form d path).1.heap = w.heap := by
  unfold readViewOf
  cases hv : viewAt w s form d with
  | none => exact ⟨rfl, rfl⟩
  | some p => obtain ⟨w', root⟩ := p; exact viewAt_frame hv

theorem readViewOf_memoOK (w : World V) (hw : MemoOK w) (s form : Nat) (d : Int) (path : List String) :
    MemoOK (readViewOf w s form d path).1 := by
  unfold readViewOf
  cases hv : viewAt w s form d with
  | none => exact hw
  | some p => obtain ⟨w', root⟩ := p; exact (viewAt_spec hw hv).2.1

/-- a read changes nothing but the memo -/
theorem doRead_frame (w : World V) (rd : Read) :
    (doRead w rd).1.systems = w.systems ∧ (doRead w rd).1.heap = w.heap := by
  cases rd with
  | view s form d path => exact readViewOf_frame w s form d path
  | baseView s form d path => exact readViewOf_frame w _ form d path
  | tree s path d =>
    simp only [doRead]
    cases hr : w.systems[s]? with
    | none => exact ⟨rfl, rfl⟩
    | some r =>
      simp only
      cases w.treeOf s with
      | none => exact ⟨rfl, rfl⟩
      | some t => exact ⟨rfl, rfl⟩
  | formula s traced form d path =>
    simp only [doRead]
    cases hv : viewAt w s form d with
    | none => exact ⟨rfl, rfl⟩
    | some p =>
      obtain ⟨w', root⟩ := p
      simp only
      cases traced with
      | true => exact viewAt_frame hv
      | false => exact viewAt_frame hv

theorem doRead_systems (w : World V) (rd : Read) : (doRead w rd).1.systems = w.systems := (doRead_frame w rd).1

/-- a read keeps the state sound -/
theorem doRead_memoOK (w : World V) (hw : MemoOK w) (rd : Read) : MemoOK (doRead w rd).1 := by
  cases rd with
  | view s form d path => exact readViewOf_memoOK w hw s form d path
  | baseView s form d path => exact readViewOf_memoOK w hw _ form d path
  | tree s path d =>
    simp only [doRead]
    cases hr : w.systems[s]? with
    | none => exact hw
    | some r =>
      simp only
      cases w.treeOf s with
      | none => exact hw
      | some t => exact hw
  | formula s traced form d path =>
    simp only [doRead]
    cases hv : viewAt w s form d with
    | none => exact hw
    | some p =>
      obtain ⟨w', root⟩ := p
      simp only
      cases traced with
      | true => exact (viewAt_spec hw hv).2.1
      | false => exact (viewAt_spec hw hv).2.1

theorem runProg_frame (w : World V) (p : ModProg V) :
    (runProg w p).1.systems = w.systems ∧ (runProg w p).1.heap = w.heap := by
  induction p generalizing w with
  | ret r => exact ⟨rfl, rfl⟩
  | read rd k ih =>
    simp only [runProg]
    obtain ⟨h1, h2⟩ := ih (doRead w rd).2 (doRead w rd).1
    obtain ⟨h3, h4⟩ := doRead_frame w rd
    exact ⟨by rw [h1, h3], by rw [h2, h4]⟩

theorem runProg_systems (w : World V) (p : ModProg V) : (runProg w p).1.systems = w.systems := (runProg_frame w p).1

/-- whatever a user function reads while a modification is under way, the systems and the tree objects
    are untouched and the memo stays sound with respect to the trees in place (the FORMER tree of the
    system being modified) -/
theorem runProg_spec (w : World V) (hw : MemoOK w) (p : ModProg V) :
    MemoOK (runProg w p).1 ∧ (runProg w p).1.systems = w.systems := by
  induction p generalizing w with
  | ret r => exact ⟨hw, rfl⟩
  | read rd k ih =>
    simp only [runProg]
    obtain ⟨h1, h2⟩ := ih (doRead w rd).2 (doRead w rd).1 (doRead_memoOK w hw rd)
    exact ⟨h1, by rw [h2, doRead_systems]⟩

theorem refsOK_congr {w w' : World V} (h1 : w'.systems = w.systems) (h2 : w'.heap = w.heap) (h : RefsOK w) :
    RefsOK w' := by
  unfold RefsOK; rw [h1, h2]; exact h

/-! ## Installing a new tree object -/

theorem length_install (w : World V) (s : Nat) (t : PNode V) : (install w s t).systems.length = w.systems.length := by
  simp [install]

theorem refsOK_install (w : World V) (hr : RefsOK w) (s : Nat) (t : PNode V) : RefsOK (install w s t) := by
  intro r hr' i hi
  simp only [install, List.length_append, List.length_cons, List.length_nil] at *
  obtain ⟨j, hj, hrj⟩ := List.getElem_of_mem hr'
  rw [List.getElem_modify] at hrj
  by_cases hjs : s = j
  · rw [if_pos hjs] at hrj
    rw [← hrj] at hi
    simp only [Option.some.injEq] at hi
    omega
  · rw [if_neg hjs] at hrj
    have : i < w.heap.length := hr _ (List.getElem_mem _) i (by rw [hrj]; exact hi)
    omega

theorem memoOK_install (w : World V) (hr : RefsOK w) (s : Nat) (t : PNode V) : MemoOK (install w s t) :=
  memoOK_of_nil (refsOK_install w hr s t) rfl

theorem treeOf_install_eq (w : World V) (s : Nat) (t : PNode V) (h : s < w.systems.length) :
    (install w s t).treeOf s = some t := by
  unfold World.treeOf install
  simp only
  rw [List.getElem?_modify_eq, List.getElem?_eq_getElem h]
  simp

theorem treeOf_install_ne (w : World V) (hr : RefsOK w) (s s' : Nat) (t : PNode V) (h : s' ≠ s) :
    (install w s t).treeOf s' = w.treeOf s' := by
  unfold World.treeOf install
  simp only
  rw [List.getElem?_modify_ne _ _ (fun c => h c.symm)]
  cases hs : w.systems[s']? with
  | none => rfl
  | some r =>
    simp only
    cases hi : r.tree with
    | none => rfl
    | some i =>
      simp only
      have : i < w.heap.length := hr r (List.mem_of_getElem? hs) i hi
      rw [List.getElem?_append_left this]

theorem treeOf_append_of_lt (w : World V) (x : SysRec) {s : Nat} (hs : s < w.systems.length) :
    ({ w with systems := w.systems ++ [x] } : World V).treeOf s = w.treeOf s := by
  unfold World.treeOf
  simp only
  rw [List.getElem?_append_left hs]

/-- a new system on a new object: the others keep their trees -/
theorem treeOf_append_both (w : World V) (hr : RefsOK w) (t : PNode V) (x : SysRec) {s : Nat} (hs : s < w.systems.length) :
    ({ w with heap := w.heap ++ [t], systems := w.systems ++ [x] } : World V).treeOf s = w.treeOf s := by
  unfold World.treeOf
  simp only
  rw [List.getElem?_append_left hs, List.getElem?_eq_getElem hs]
  simp only
  cases hk : (w.systems[s]).tree with
  | none => rfl
  | some k =>
    simp only
    have : k < w.heap.length := hr _ (List.getElem_mem _) k hk
    rw [List.getElem?_append_left this]

/-- … and the new system reads the copy -/
theorem treeOf_append_new (w : World V) (t : PNode V) (b : Option Nat) :
    ({ w with heap := w.heap ++ [t], systems := w.systems ++ [⟨some w.heap.length, b⟩] } : World V).treeOf w.systems.length
      = some t := by
  unfold World.treeOf
  simp

/-! ## A copy of one's own -/

theorem ownCopy_systems_length (w : World V) (s i : Nat) : (ownCopy w s i).1.systems.length = w.systems.length := by
  unfold ownCopy
  cases w.heap[i]? with
  | none => rfl
  | some t => simp

theorem ownCopy_memo (w : World V) (s i : Nat) : (ownCopy w s i).1.memo = w.memo := by
  unfold ownCopy
  cases w.heap[i]? <;> rfl

theorem ownCopy_refsOK (w : World V) (hr : RefsOK w) (s i : Nat) (hi : i < w.heap.length) :
    RefsOK (ownCopy w s i).1 ∧ (ownCopy w s i).2 < (ownCopy w s i).1.heap.length := by
  unfold ownCopy
  rw [List.getElem?_eq_getElem hi]
  simp only [List.length_append, List.length_cons, List.length_nil]
  refine ⟨?_, by omega⟩
  intro r hr' k hk
  simp only [List.length_append, List.length_cons, List.length_nil]
  obtain ⟨j, hj, hrj⟩ := List.getElem_of_mem hr'
  rw [List.getElem_modify] at hrj
  by_cases hjs : s = j
  · rw [if_pos hjs] at hrj
    rw [← hrj] at hk
    simp only [Option.some.injEq] at hk
    omega
  · rw [if_neg hjs] at hrj
    have : k < w.heap.length := hr _ (List.getElem_mem _) k (by rw [hrj]; exact hk)
    omega

/-- the copy changes nobody else's tree, and not the value of one's own -/
theorem ownCopy_treeOf (w : World V) (hr : RefsOK w) (s i : Nat) (s' : Nat) (hs : s' ≠ s) :
    (ownCopy w s i).1.treeOf s' = w.treeOf s' := by
  unfold ownCopy
  cases hh : w.heap[i]? with
  | none => rfl
  | some t =>
    unfold World.treeOf
    simp only
    rw [List.getElem?_modify_ne _ _ (fun c => hs c.symm)]
    cases hs' : w.systems[s']? with
    | none => rfl
    | some r =>
      simp only
      cases hk : r.tree with
      | none => rfl
      | some k =>
        simp only
        have : k < w.heap.length := hr r (List.mem_of_getElem? hs') k hk
        rw [List.getElem?_append_left this]

/-- what the copy leaves of the other systems' references: they stay below the old number of objects -/
theorem ownCopy_ref_lt (w : World V) (hr : RefsOK w) (s i : Nat) (hi : i < w.heap.length) (s' : Nat) (hs : s' ≠ s)
    (r' : SysRec) (hr' : (ownCopy w s i).1.systems[s']? = some r') (k : Nat) (hk : r'.tree = some k) :
    k < (ownCopy w s i).2 ∧ w.systems[s']? = some r' := by
  unfold ownCopy at hr' ⊢
  rw [List.getElem?_eq_getElem hi] at hr' ⊢
  simp only at hr' ⊢
  rw [List.getElem?_modify_ne _ _ (fun c => hs c.symm)] at hr'
  exact ⟨hr r' (List.mem_of_getElem? hr') k hk, hr'⟩

theorem treeOf_set_ne (w : World V) (j : Nat) (t : PNode V) (m) (s' : Nat)
    (h : ∀ r, w.systems[s']? = some r → r.tree ≠ some j) :
    ({ w with heap := w.heap.set j t, memo := m } : World V).treeOf s' = w.treeOf s' := by
  unfold World.treeOf
  simp only
  cases hs' : w.systems[s']? with
  | none => rfl
  | some r =>
    simp only
    cases hk : r.tree with
    | none => rfl
    | some k =>
      simp only
      have : j ≠ k := fun c => h r hs' (by rw [hk, c])
      rw [List.getElem?_set_ne this]

/-! ## Every operation keeps the state sound -/

theorem step_memoOK (w : World V) (hw : MemoOK w) (op : Op V) : MemoOK (step w op).1 := by
  cases op with
  | readView s form d path => exact doRead_memoOK w hw _
  | readTree s path d => exact doRead_memoOK w hw _
  | readFormula s traced form d path => exact doRead_memoOK w hw _
  | read rd => exact doRead_memoOK w hw _
  | newReform b =>
    simp only [step]
    cases hr : w.systems[b]? with
    | none => exact hw
    | some r =>
      simp only
      refine ⟨?_, ?_⟩
      · intro r' hr' i hi
        simp only [List.mem_append, List.mem_cons, List.not_mem_nil, or_false] at hr'
        rcases hr' with hr' | hr'
        · exact hw.1 r' hr' i hi
        · rw [hr'] at hi
          exact hw.1 r (List.mem_of_getElem? hr) i hi
      · intro k v hkv
        obtain ⟨h1, h2⟩ := hw.2 k v hkv
        refine ⟨by simp only [List.length_append, List.length_cons, List.length_nil]; omega, ?_⟩
        rw [treeOf_append_of_lt w _ h1]; exact h2
  | modify s f =>
    simp only [step]
    cases hr : w.systems[s]? with
    | none => exact hw
    | some r =>
      simp only
      cases r.baseline with
      | none => exact hw
      | some b =>
        simp only
        cases w.treeOf s with
        | none => exact hw
        | some t =>
          simp only
          have hp := (runProg_spec w hw (f t)).1
          cases hrp : runProg w (f t) with
          | mk w1 res =>
            rw [hrp] at hp
            cases res with
            | error e => exact hp
            | ok t' =>
              simp only
              by_cases hn : isNode t' = true
              · rw [if_pos hn]; exact memoOK_install w1 hp.1 s t'
              · rw [if_neg hn]; exact hp
  | reload s cs hook =>
    simp only [step]
    cases hr : w.systems[s]? with
    | none => exact hw
    | some r =>
      simp only
      have hp := (runProg_spec w hw (hook (.node cs))).1
      cases hrp : runProg w (hook (.node cs)) with
      | mk w1 res =>
        rw [hrp] at hp
        cases res with
        | error e => exact hp
        | ok t' => exact memoOK_install w1 hp.1 s t'
  | extend s ext =>
    simp only [step]
    cases hr : w.systems[s]? with
    | none => exact hw
    | some r =>
      simp only
      cases hi : r.tree with
      | none => exact memoOK_of_nil hw.1 rfl
      | some i =>
        simp only
        have hil : i < w.heap.length := hw.1 r (List.mem_of_getElem? hr) i hi
        have hw1 : ∀ w1 j, (if isReform r = true then ownCopy w s i else (w, i)) = (w1, j) → RefsOK w1 := by
          intro w1 j h
          by_cases hsh : isReform r = true
          · rw [if_pos hsh] at h
            have := (ownCopy_refsOK w hw.1 s i hil).1
            rw [h] at this; exact this
          · rw [if_neg hsh] at h; cases h; exact hw.1
        cases hc : (if isReform r = true then ownCopy w s i else (w, i)) with
        | mk w1 j =>
          have hr1 := hw1 w1 j hc
          simp only
          cases hh : w1.heap[j]? with
          | none => exact memoOK_of_nil hr1 rfl
          | some t =>
            cases t with
            | param l => exact memoOK_of_nil hr1 rfl
            | scale m bs => exact memoOK_of_nil hr1 rfl
            | node cs =>
              refine memoOK_of_nil ?_ rfl
              intro r' hr' k hk
              simp only [List.length_set]
              exact hr1 r' hr' k hk
  | cloneSys s =>
    simp only [step]
    cases hr : w.systems[s]? with
    | none => exact hw
    | some r =>
      simp only
      cases ht : w.treeOf s with
      | none => exact hw
      | some t =>
        simp only
        refine ⟨?_, ?_⟩
        · intro r' hr' i hi
          simp only [List.mem_append, List.mem_cons, List.not_mem_nil, or_false] at hr'
          simp only [List.length_append, List.length_cons, List.length_nil]
          rcases hr' with hr' | hr'
          · have := hw.1 r' hr' i hi; omega
          · rw [hr'] at hi
            simp only [Option.some.injEq] at hi
            omega
        · intro k v hkv
          obtain ⟨h1, h2⟩ := hw.2 k v hkv
          refine ⟨by simp only [List.length_append, List.length_cons, List.length_nil]; omega, ?_⟩
          rw [treeOf_append_both w hw.1 t _ h1]; exact h2

theorem run_memoOK (w : World V) (hw : MemoOK w) (ops : List (Op V)) : MemoOK (run w ops) := by
  induction ops generalizing w with
  | nil => exact hw
  | cons op ops ih => exact ih _ (step_memoOK w hw op)

theorem init_memoOK : MemoOK (World.init : World V) := by
  refine memoOK_of_nil ?_ rfl
  intro r hr i hi
  simp only [World.init, List.mem_cons, List.not_mem_nil, or_false] at hr
  rw [hr] at hi; cases hi

/-! ## Which trees an operation can change -/

/-- the number of systems never decreases -/
theorem step_length_le (w : World V) (op : Op V) : w.systems.length ≤ (step w op).1.systems.length := by
  cases op with
  | readView s form d path => simp only [step, doRead_systems]; exact Nat.le_refl _
  | readTree s path d => simp only [step, doRead_systems]; exact Nat.le_refl _
  | readFormula s traced form d path => simp only [step, doRead_systems]; exact Nat.le_refl _
  | read rd => simp only [step, doRead_systems]; exact Nat.le_refl _
  | newReform b =>
    simp only [step]
    cases hr : w.systems[b]? with
    | none => exact Nat.le_refl _
    | some r => simp only [List.length_append, List.length_cons, List.length_nil]; omega
  | modify s f =>
    simp only [step]
    cases hr : w.systems[s]? with
    | none => exact Nat.le_refl _
    | some r =>
      simp only
      cases r.baseline with
      | none => exact Nat.le_refl _
      | some b =>
        simp only
        cases w.treeOf s with
        | none => exact Nat.le_refl _
        | some t =>
          simp only
          have hp := runProg_systems w (f t)
          cases hrp : runProg w (f t) with
          | mk w1 res =>
            rw [hrp] at hp
            simp only at hp
            cases res with
            | error e => simp only [hp]; exact Nat.le_refl _
            | ok t' =>
              simp only
              by_cases hn : isNode t' = true
              · rw [if_pos hn]; simp only [length_install, hp]; exact Nat.le_refl _
              · rw [if_neg hn]; simp only [hp]; exact Nat.le_refl _
  | reload s cs hook =>
    simp only [step]
    cases hr : w.systems[s]? with
    | none => exact Nat.le_refl _
    | some r =>
      simp only
      have hp := runProg_systems w (hook (.node cs))
      cases hrp : runProg w (hook (.node cs)) with
      | mk w1 res =>
        rw [hrp] at hp
        simp only at hp
        cases res with
        | error e => simp only [hp]; exact Nat.le_refl _
        | ok t' => simp only [length_install, hp]; exact Nat.le_refl _
  | extend s ext =>
    simp only [step]
    cases hr : w.systems[s]? with
    | none => exact Nat.le_refl _
    | some r =>
      simp only
      cases hi : r.tree with
      | none => exact Nat.le_refl _
      | some i =>
        simp only
        have hlen : ∀ w1 j, (if isReform r = true then ownCopy w s i else (w, i)) = (w1, j) →
            w1.systems.length = w.systems.length := by
          intro w1 j h
          by_cases hsh : isReform r = true
          · rw [if_pos hsh] at h
            have := ownCopy_systems_length w s i
            rw [h] at this; exact this
          · rw [if_neg hsh] at h; cases h; rfl
        cases hc : (if isReform r = true then ownCopy w s i else (w, i)) with
        | mk w1 j =>
          have hl := hlen w1 j hc
          simp only
          cases hh : w1.heap[j]? with
          | none => simp only [hl]; exact Nat.le_refl _
          | some t =>
            cases t with
            | param l => simp only [hl]; exact Nat.le_refl _
            | scale m bs => simp only [hl]; exact Nat.le_refl _
            | node cs => simp only [hl]; exact Nat.le_refl _
  | cloneSys s =>
    simp only [step]
    cases hr : w.systems[s]? with
    | none => exact Nat.le_refl _
    | some r =>
      simp only
      cases ht : w.treeOf s with
      | none => exact Nat.le_refl _
      | some t => simp only [List.length_append, List.length_cons, List.length_nil]; omega

/-- an operation that spares `s'` (`Op.spares`) leaves the tree of `s'` alone -/
theorem step_treeOf_other (w : World V) (hw : RefsOK w) (op : Op V) (s' : Nat) (hs' : s' < w.systems.length)
    (hsp : op.spares w s' = true) : (step w op).1.treeOf s' = w.treeOf s' := by
  cases op with
  | readView s form d path => exact treeOf_congr (doRead_frame w _).1 (doRead_frame w _).2 s'
  | readTree s path d => exact treeOf_congr (doRead_frame w _).1 (doRead_frame w _).2 s'
  | readFormula s traced form d path => exact treeOf_congr (doRead_frame w _).1 (doRead_frame w _).2 s'
  | read rd => exact treeOf_congr (doRead_frame w _).1 (doRead_frame w _).2 s'
  | newReform b =>
    simp only [step]
    cases hr : w.systems[b]? with
    | none => rfl
    | some r => exact treeOf_append_of_lt w _ hs'
  | modify s f =>
    have hne : s' ≠ s := fun c => by rw [c] at hsp; simp [Op.spares] at hsp
    simp only [step]
    cases hr : w.systems[s]? with
    | none => rfl
    | some r =>
      simp only
      cases r.baseline with
      | none => rfl
      | some b =>
        simp only
        cases w.treeOf s with
        | none => rfl
        | some t =>
          simp only
          have hp := runProg_frame w (f t)
          cases hrp : runProg w (f t) with
          | mk w1 res =>
            rw [hrp] at hp
            simp only at hp
            cases res with
            | error e => exact treeOf_congr hp.1 hp.2 s'
            | ok t' =>
              simp only
              by_cases hn : isNode t' = true
              · rw [if_pos hn, treeOf_install_ne w1 (refsOK_congr hp.1 hp.2 hw) s s' t' hne]
                exact treeOf_congr hp.1 hp.2 s'
              · rw [if_neg hn]; exact treeOf_congr hp.1 hp.2 s'
  | reload s cs hook =>
    have hne : s' ≠ s := fun c => by rw [c] at hsp; simp [Op.spares] at hsp
    simp only [step]
    cases hr : w.systems[s]? with
    | none => rfl
    | some r =>
      simp only
      have hp := runProg_frame w (hook (.node cs))
      cases hrp : runProg w (hook (.node cs)) with
      | mk w1 res =>
        rw [hrp] at hp
        simp only at hp
        cases res with
        | error e => exact treeOf_congr hp.1 hp.2 s'
        | ok t' =>
          simp only
          rw [treeOf_install_ne w1 (refsOK_congr hp.1 hp.2 hw) s s' t' hne]
          exact treeOf_congr hp.1 hp.2 s'
  | extend s ext =>
    simp only [Op.spares, Bool.and_eq_true, bne_iff_ne, ne_eq] at hsp
    obtain ⟨hne0, hcond⟩ := hsp
    have hne : s' ≠ s := fun c => hne0 c.symm
    simp only [step]
    cases hr : w.systems[s]? with
    | none => rfl
    | some r =>
      simp only
      cases hi : r.tree with
      | none => rfl
      | some i =>
        simp only
        have hil : i < w.heap.length := hw r (List.mem_of_getElem? hr) i hi
        rw [hr, List.getElem?_eq_getElem hs'] at hcond
        simp only [Bool.or_eq_true, bne_iff_ne, ne_eq] at hcond
        -- after the (possible) copy: the object merged into is not the one `s'` refers to
        have key : ∀ w1 j, (if isReform r = true then ownCopy w s i else (w, i)) = (w1, j) →
            w1.treeOf s' = w.treeOf s' ∧ ∀ r', w1.systems[s']? = some r' → r'.tree ≠ some j := by
          intro w1 j h
          by_cases hsh : isReform r = true
          · rw [if_pos hsh] at h
            have h1 := ownCopy_treeOf w hw s i s' hne
            rw [h] at h1
            refine ⟨h1, ?_⟩
            intro r' hr' hk
            have := (ownCopy_ref_lt w hw s i hil s' hne r' (by rw [h]; exact hr') j hk).1
            rw [h] at this
            exact Nat.lt_irrefl _ this
          · rw [if_neg hsh] at h
            cases h
            refine ⟨rfl, ?_⟩
            intro r' hr' hk
            rw [List.getElem?_eq_getElem hs'] at hr'
            cases hr'
            rcases hcond with hc | hc
            · exact hsh hc
            · exact hc (by rw [hi, hk])
        cases hc : (if isReform r = true then ownCopy w s i else (w, i)) with
        | mk w1 j =>
          obtain ⟨k1, k2⟩ := key w1 j hc
          simp only
          cases hh : w1.heap[j]? with
          | none => exact k1
          | some t =>
            cases t with
            | param l => exact k1
            | scale m bs => exact k1
            | node cs => rw [treeOf_set_ne w1 j _ [] s' k2]; exact k1
  | cloneSys s =>
    simp only [step]
    cases hr : w.systems[s]? with
    | none => rfl
    | some r =>
      simp only
      cases ht : w.treeOf s with
      | none => rfl
      | some t => exact treeOf_append_both w hw t _ hs'

theorem run_treeOf_other (w : World V) (hw : MemoOK w) (ops : List (Op V)) (s' : Nat) (hs' : s' < w.systems.length)
    (ht : Spared s' w ops) :
    (run w ops).treeOf s' = w.treeOf s' ∧ s' < (run w ops).systems.length := by
  induction ops generalizing w with
  | nil => exact ⟨rfl, hs'⟩
  | cons op ops ih =>
    obtain ⟨ht1, ht2⟩ := ht
    have h1 := step_treeOf_other w hw.1 op s' hs' ht1
    have h2 : s' < (step w op).1.systems.length := Nat.lt_of_lt_of_le hs' (step_length_le w op)
    obtain ⟨h3, h4⟩ := ih (step w op).1 (step_memoOK w hw op) h2 ht2
    exact ⟨by show (run (step w op).1 ops).treeOf s' = _; rw [h3, h1], h4⟩

/-- the static sufficient condition: no operation replaces the tree of `s'` nor changes an object in place -/
theorem spared_of_static (w : World V) (ops : List (Op V)) (s' : Nat)
    (ht : ∀ op ∈ ops, op.target ≠ some s' ∧ op.inPlace = false) : Spared s' w ops := by
  induction ops generalizing w with
  | nil => trivial
  | cons op ops ih =>
    refine ⟨?_, ih _ (fun o ho => ht o (List.mem_cons_of_mem _ ho))⟩
    obtain ⟨h1, h2⟩ := ht op (List.mem_cons_self ..)
    cases op with
    | readView s form d path => rfl
    | readTree s path d => rfl
    | readFormula s traced form d path => rfl
    | read rd => rfl
    | newReform b => rfl
    | modify s f => simp only [Op.spares, bne_iff_ne, ne_eq]; intro c; exact h1 (by rw [c]; rfl)
    | reload s cs hook => simp only [Op.spares, bne_iff_ne, ne_eq]; intro c; exact h1 (by rw [c]; rfl)
    | extend s ext => simp [Op.inPlace] at h2
    | cloneSys s => rfl

/-! ## Attribute paths commute with evaluation at an instant -/

theorem assoc_childrenAt_none (cs : List (String × PNode V)) (d : Int) (k : String)
    (h : assoc k cs = none) : assoc k (childrenAt cs d) = none := by
  induction cs with
  | nil => simp [childrenAt, assoc]
  | cons p r ih =>
    obtain ⟨k', c⟩ := p
    simp only [assoc] at h
    by_cases hk : k' = k
    · rw [if_pos hk] at h; cases h
    · rw [if_neg hk] at h
      simp only [childrenAt]
      split
      · simp only [assoc]; rw [if_neg hk]; exact ih h
      · exact ih h

/-- with distinct child names, looking a name up in the node at `d` is looking the child up in the
    tree and evaluating it at `d` -/
theorem assoc_childrenAt (cs : List (String × PNode V)) (d : Int) (k : String) (hwf : wfAll cs = true) :
    assoc k (childrenAt cs d) = (assoc k cs).bind (fun c => c.atInstant d) := by
  induction cs with
  | nil => simp [childrenAt, assoc]
  | cons p r ih =>
    obtain ⟨k', c⟩ := p
    simp only [wfAll, Bool.and_eq_true, Option.isNone_iff_eq_none] at hwf
    obtain ⟨⟨h1, h2⟩, h3⟩ := hwf
    simp only [childrenAt]
    by_cases hk : k' = k
    · subst hk
      split
      · rename_i s hs
        simp only [assoc, if_true, Option.bind_some, hs]
      · rename_i hs
        simp only [assoc, if_true, Option.bind_some, hs]
        exact assoc_childrenAt_none r d k' h1
    · split
      · simp only [assoc]; rw [if_neg hk, if_neg hk]; exact ih h3
      · simp only [assoc]; rw [if_neg hk]; exact ih h3

theorem wf_of_assoc {cs : List (String × PNode V)} {k : String} {c : PNode V} (hwf : wfAll cs = true)
    (h : assoc k cs = some c) : treeWF c = true := by
  induction cs with
  | nil => simp [assoc] at h
  | cons p r ih =>
    obtain ⟨k', c'⟩ := p
    simp only [wfAll, Bool.and_eq_true] at hwf
    simp only [assoc] at h
    by_cases hk : k' = k
    · rw [if_pos hk] at h; cases h; exact hwf.1.2
    · rw [if_neg hk] at h; exact ih hwf.2 h

theorem sdescend_val_cons (v : V) (k : String) (p : List String) :
    ∃ e, sdescend (Snap.val v) (k :: p) = .error e := ⟨_, rfl⟩

theorem sdescend_scale_cons (sc : ScaleAt) (k : String) (p : List String) :
    ∃ e, sdescend (Snap.scale sc : Snap V) (k :: p) = .error e := ⟨_, rfl⟩

/-- The parameter-object route against the view route, for a tree with distinct child names:
    * the object route yields a value `x` iff the view route yields `x`;
    * when the object route yields `None` (undefined at `d`) or fails (no such path), the view route
      fails. -/
theorem descend_agree (t : PNode V) (hwf : treeWF t = true) (d : Int) (s : Snap V)
    (hs : t.atInstant d = some s) (path : List String) :
    (∀ x, readTreeAt t path d = .ok (some x) ↔ sdescend s path = .ok x) ∧
    ((readTreeAt t path d = .ok none ∨ ∃ e, readTreeAt t path d = .error e) → ∃ e, sdescend s path = .error e) := by
  induction path generalizing t s with
  | nil =>
    simp only [readTreeAt, pdescend, sdescend, hs]
    refine ⟨fun x => ?_, ?_⟩
    · constructor
      · intro h; cases h; rfl
      · intro h; cases h; rfl
    · rintro (h | ⟨e, h⟩) <;> cases h
  | cons k p ih =>
    cases t with
    | param l =>
      simp only [PNode.atInstant] at hs
      cases hg : pget l d with
      | none => rw [hg] at hs; cases hs
      | some v =>
        rw [hg] at hs; cases hs
        simp only [readTreeAt, pdescend, pchild, sdescend, schild]
        refine ⟨fun x => ⟨fun h => (by cases h), fun h => (by cases h)⟩, fun _ => ⟨_, rfl⟩⟩
    | scale m bs =>
      simp only [PNode.atInstant] at hs
      cases hs
      simp only [readTreeAt, pdescend, pchild, sdescend, schild]
      refine ⟨fun x => ⟨fun h => (by cases h), fun h => (by cases h)⟩, fun _ => ⟨_, rfl⟩⟩
    | node cs =>
      simp only [PNode.atInstant] at hs
      cases hs
      simp only [treeWF] at hwf
      have hlook := assoc_childrenAt cs d k hwf
      simp only [readTreeAt, pdescend, pchild, sdescend, schild]
      cases hc : assoc k cs with
      | none =>
        rw [hc] at hlook
        simp only [Option.bind_none] at hlook
        rw [hlook]
        refine ⟨fun x => ⟨fun h => (by cases h), fun h => (by cases h)⟩, fun _ => ⟨_, rfl⟩⟩
      | some c =>
        rw [hc] at hlook
        simp only [Option.bind_some] at hlook
        have hcwf := wf_of_assoc hwf hc
        simp only
        cases hcs : c.atInstant d with
        | none =>
          rw [hcs] at hlook
          rw [hlook]
          simp only
          refine ⟨fun x => ?_, fun _ => ⟨_, rfl⟩⟩
          constructor
          · intro h
            -- the child is undefined at `d`: nothing below it is defined either
            exfalso
            cases c with
            | param l =>
              cases p with
              | nil =>
                simp only [pdescend] at h
                simp only [Except.ok.injEq] at h
                rw [hcs] at h; cases h
              | cons k2 p2 => simp only [pdescend, pchild] at h; cases h
            | scale m bs => simp only [PNode.atInstant] at hcs; cases hcs
            | node cs2 => simp only [PNode.atInstant] at hcs; cases hcs
          · intro h; cases h
        | some s' =>
          rw [hcs] at hlook
          rw [hlook]
          simp only
          have := ih c hcwf s' hcs
          simp only [readTreeAt] at this
          exact this

/-! ## The tracing wrapper -/

/-- the wrapper returns what the bare navigation returns and only appends to the log: at most one
    entry, dated `d`, carrying the value of the leaf that was reached -/
theorem tracedDescend_fst (d : Int) (name : String) (s : Snap V) (path : List String)
    (log : List (LogEntry V)) : (tracedDescend d name s path log).1 = sdescend s path := by
  induction path generalizing name s with
  | nil => rfl
  | cons k p ih =>
    simp only [tracedDescend, sdescend]
    cases hc : schild s k with
    | error e => rfl
    | ok c =>
      cases c with
      | node cs => exact ih _ _
      | val v => rfl
      | scale sc => rfl

theorem tracedDescend_snd (d : Int) (name : String) (s : Snap V) (path : List String)
    (log : List (LogEntry V)) :
    ∃ extra, (tracedDescend d name s path log).2 = log ++ extra ∧ extra.length ≤ 1 ∧
      ∀ e ∈ extra, e.date = d ∧ ∃ pre post, path = pre ++ post ∧ sdescend s pre = .ok (.val e.value) := by
  induction path generalizing name s with
  | nil => exact ⟨[], by simp [tracedDescend], by simp, by simp⟩
  | cons k p ih =>
    simp only [tracedDescend]
    cases hc : schild s k with
    | error e => exact ⟨[], by simp, by simp, by simp⟩
    | ok c =>
      cases c with
      | node cs =>
        obtain ⟨extra, h2, h3, h4⟩ := ih (composeName name k) (.node cs)
        refine ⟨extra, h2, h3, ?_⟩
        intro e he
        obtain ⟨hd, pre, post, hp, hpre⟩ := h4 e he
        refine ⟨hd, k :: pre, post, by rw [hp]; rfl, ?_⟩
        simp only [sdescend, hc]; exact hpre
      | val v =>
        refine ⟨[⟨name ++ "." ++ k, d, v⟩], rfl, by simp, ?_⟩
        intro e he
        simp only [List.mem_cons, List.not_mem_nil, or_false] at he
        subst he
        exact ⟨rfl, [k], p, rfl, by simp only [sdescend, hc]⟩
      | scale sc => exact ⟨[], by simp, by simp, by simp⟩

/-- the wrapper returns what the bare navigation returns and only appends to the log: at most one
    entry, dated `d`, carrying the value of the leaf that was reached -/
theorem tracedDescend_spec (d : Int) (name : String) (s : Snap V) (path : List String)
    (log : List (LogEntry V)) :
    (tracedDescend d name s path log).1 = sdescend s path ∧
    ∃ extra, (tracedDescend d name s path log).2 = log ++ extra ∧ extra.length ≤ 1 ∧
      ∀ e ∈ extra, e.date = d ∧ ∃ pre post, path = pre ++ post ∧ sdescend s pre = .ok (.val e.value) :=
  ⟨tracedDescend_fst d name s path log, tracedDescend_snd d name s path log⟩

theorem navTraced_spec (d : Int) (root : Option (Snap V)) (path : List String) (log : List (LogEntry V)) :
    (navTraced d root path log).1 = navView root path ∧
    ∃ extra, (navTraced d root path log).2 = log ++ extra ∧ extra.length ≤ 1 := by
  cases root with
  | none =>
    cases path with
    | nil => exact ⟨rfl, [], by simp [navTraced], by simp⟩
    | cons k p => exact ⟨rfl, [], by simp [navTraced], by simp⟩
  | some s =>
    obtain ⟨h1, extra, h2, h3, _⟩ := tracedDescend_spec d "" s path log
    simp only [navTraced, navView]
    cases ht : tracedDescend d "" s path log with
    | mk r l =>
      rw [ht] at h1 h2
      simp only at h1 h2
      cases r with
      | ok x => simp only; rw [← h1]; exact ⟨rfl, extra, h2, h3⟩
      | error e => simp only; rw [← h1]; exact ⟨rfl, extra, h2, h3⟩

/-! ## Stable insertion sort -/

theorem assoc_insertField (lt : String → String → Bool) (hirr : ∀ a, lt a a = false) (x : String × α)
    (l : List (String × α)) (k : String) :
    assoc k (insertField lt x l) = if x.1 = k then some x.2 else assoc k l := by
  induction l with
  | nil => obtain ⟨a, b⟩ := x; simp [insertField, assoc]
  | cons y r ih =>
    obtain ⟨a, b⟩ := x
    obtain ⟨a', b'⟩ := y
    simp only [insertField]
    by_cases hlt : lt a' a = true
    · rw [if_pos hlt]
      simp only [assoc, ih]
      by_cases h1 : a' = k
      · rw [if_pos h1]
        by_cases h2 : a = k
        · exfalso; rw [h1, h2, hirr] at hlt; cases hlt
        · rw [if_neg h2, if_pos h1]
      · rw [if_neg h1, if_neg h1]
    · rw [if_neg hlt]
      simp only [assoc]

theorem assoc_sortFields (lt : String → String → Bool) (hirr : ∀ a, lt a a = false)
    (l : List (String × α)) (k : String) : assoc k (sortFields lt l) = assoc k l := by
  induction l with
  | nil => rfl
  | cons x r ih =>
    obtain ⟨a, b⟩ := x
    simp only [sortFields, assoc_insertField lt hirr, ih, assoc]

theorem plainLt_irrefl (a : String) : plainLt a a = false := by
  simp [plainLt]

theorem asofLt_irrefl (a : String) : asofLt a a = false := by
  simp [asofLt]

theorem perm_insertField (lt : String → String → Bool) (x : String × α) (l : List (String × α)) :
    (insertField lt x l).Perm (x :: l) := by
  induction l with
  | nil => exact List.Perm.refl _
  | cons y r ih =>
    simp only [insertField]
    by_cases hlt : lt y.1 x.1 = true
    · rw [if_pos hlt]
      exact (List.Perm.cons y ih).trans (List.Perm.swap x y r)
    · rw [if_neg hlt]

theorem perm_sortFields (lt : String → String → Bool) (l : List (String × α)) :
    (sortFields lt l).Perm l := by
  induction l with
  | nil => exact List.Perm.refl _
  | cons x r ih =>
    simp only [sortFields]
    exact (perm_insertField lt x _).trans (List.Perm.cons x ih)

/-- `x` may stand before `y` -/
def NotAfter (lt : String → String → Bool) (x y : String × α) : Prop := lt y.1 x.1 = false

theorem sorted_insertField (lt : String → String → Bool)
    (hasymm : ∀ a b, lt a b = true → lt b a = false)
    (htrans : ∀ a b c, lt b a = false → lt c b = false → lt c a = false)
    (x : String × α) (l : List (String × α)) (h : l.Pairwise (NotAfter lt)) :
    (insertField lt x l).Pairwise (NotAfter lt) := by
  induction l with
  | nil => simp [insertField]
  | cons y r ih =>
    rw [List.pairwise_cons] at h
    obtain ⟨h1, h2⟩ := h
    simp only [insertField]
    by_cases hlt : lt y.1 x.1 = true
    · rw [if_pos hlt, List.pairwise_cons]
      refine ⟨?_, ih h2⟩
      intro z hz
      rcases List.mem_cons.mp ((perm_insertField lt x r).mem_iff.mp hz) with hz | hz
      · rw [hz]; exact hasymm _ _ hlt
      · exact h1 z hz
    · rw [if_neg hlt, List.pairwise_cons]
      have hxy : lt y.1 x.1 = false := by simpa using hlt
      refine ⟨?_, List.pairwise_cons.mpr ⟨h1, h2⟩⟩
      intro z hz
      rcases List.mem_cons.mp hz with hz | hz
      · rw [hz]; exact hxy
      · exact htrans _ _ _ hxy (h1 z hz)

theorem sorted_sortFields (lt : String → String → Bool)
    (hasymm : ∀ a b, lt a b = true → lt b a = false)
    (htrans : ∀ a b c, lt b a = false → lt c b = false → lt c a = false)
    (l : List (String × α)) : (sortFields lt l).Pairwise (NotAfter lt) := by
  induction l with
  | nil => simp [sortFields]
  | cons x r ih => exact sorted_insertField lt hasymm htrans x _ ih

theorem asofLt_asymm (a b : String) (h : asofLt a b = true) : asofLt b a = false := by
  unfold asofLt at *
  by_cases hb : isBefore a = isBefore b
  · rw [if_pos hb] at h
    rw [if_pos hb.symm]
    have : a < b := by simpa using h
    simpa using String.lt_asymm this
  · rw [if_neg hb] at h
    rw [if_neg (fun c => hb c.symm)]
    cases hbb : isBefore b with
    | false => rfl
    | true => rw [h, hbb] at hb; exact absurd rfl hb

theorem asofLt_trans (a b c : String) (h1 : asofLt b a = false) (h2 : asofLt c b = false) :
    asofLt c a = false := by
  unfold asofLt at *
  cases ha : isBefore a <;> cases hb : isBefore b <;> cases hc : isBefore c <;>
    simp only [ha, hb, hc, if_true, if_false, Bool.true_eq_false, Bool.false_eq_true, reduceCtorEq] at h1 h2 ⊢
  all_goals first
    | rfl
    | (have h1' : a ≤ b := by simpa using h1
       have h2' : b ≤ c := by simpa using h2
       simpa using String.le_trans h1' h2')
    | cases h1
    | cases h2

/-! ## `vectorise` -/

theorem vectoriseAll_keys (lt : String → String → Bool) (num : V → Option W) (cs : List (String × Snap V))
    (fs : List (String × VRow W)) (h : vectoriseAll lt num cs = .ok fs) : fs.map (·.1) = cs.map (·.1) := by
  induction cs generalizing fs with
  | nil => simp only [vectoriseAll] at h; cases h; rfl
  | cons p r ih =>
    obtain ⟨k, c⟩ := p
    simp only [vectoriseAll] at h
    cases hv : vectorise lt num c with
    | error e => rw [hv] at h; cases h
    | ok x =>
      rw [hv] at h
      simp only at h
      cases hr : vectoriseAll lt num r with
      | error e => rw [hr] at h; cases h
      | ok xs =>
        rw [hr] at h
        simp only at h
        cases h
        simp only [List.map_cons, ih xs hr]

/-- the fields of the record are the vectorised children, name by name -/
theorem vectoriseAll_mem (lt : String → String → Bool) (num : V → Option W) (cs : List (String × Snap V))
    (fs : List (String × VRow W)) (h : vectoriseAll lt num cs = .ok fs) (k : String) (x : VRow W) :
    (k, x) ∈ fs ↔ ∃ c, (k, c) ∈ cs ∧ vectorise lt num c = .ok x := by
  induction cs generalizing fs with
  | nil => simp only [vectoriseAll] at h; cases h; simp
  | cons p r ih =>
    obtain ⟨k', c'⟩ := p
    simp only [vectoriseAll] at h
    cases hv : vectorise lt num c' with
    | error e => rw [hv] at h; cases h
    | ok x' =>
      rw [hv] at h
      simp only at h
      cases hr : vectoriseAll lt num r with
      | error e => rw [hr] at h; cases h
      | ok xs =>
        rw [hr] at h
        simp only at h
        cases h
        simp only [List.mem_cons, ih xs hr]
        constructor
        · rintro (h | ⟨c, hc, hcx⟩)
          · cases h; exact ⟨c', Or.inl rfl, hv⟩
          · exact ⟨c, Or.inr hc, hcx⟩
        · rintro ⟨c, hc | hc, hcx⟩
          · cases hc; rw [hv] at hcx; cases hcx; exact Or.inl rfl
          · exact Or.inr ⟨c, hc, hcx⟩

theorem vectoriseAll_assoc (lt : String → String → Bool) (num : V → Option W) (cs : List (String × Snap V))
    (fs : List (String × VRow W)) (h : vectoriseAll lt num cs = .ok fs) (k : String) :
    (assoc k cs = none → assoc k fs = none) ∧
    (∀ c, assoc k cs = some c → ∃ x, vectorise lt num c = .ok x ∧ assoc k fs = some x) := by
  induction cs generalizing fs with
  | nil => simp only [vectoriseAll] at h; cases h; simp [assoc]
  | cons p r ih =>
    obtain ⟨k', c'⟩ := p
    simp only [vectoriseAll] at h
    cases hv : vectorise lt num c' with
    | error e => rw [hv] at h; cases h
    | ok x' =>
      rw [hv] at h
      simp only at h
      cases hr : vectoriseAll lt num r with
      | error e => rw [hr] at h; cases h
      | ok xs =>
        rw [hr] at h
        simp only at h
        cases h
        obtain ⟨ih1, ih2⟩ := ih xs hr
        simp only [assoc]
        by_cases hk : k' = k
        · rw [if_pos hk, if_pos hk]
          refine ⟨fun h => (by cases h), fun c hc => ?_⟩
          cases hc; exact ⟨x', hv, rfl⟩
        · rw [if_neg hk, if_neg hk]; exact ⟨ih1, ih2⟩

theorem vectoriseAll_ok (lt : String → String → Bool) (num : V → Option W) (cs : List (String × Snap V))
    (h : ∀ p ∈ cs, ∃ x, vectorise lt num p.2 = .ok x) : ∃ fs, vectoriseAll lt num cs = .ok fs := by
  induction cs with
  | nil => exact ⟨[], rfl⟩
  | cons p r ih =>
    obtain ⟨k, c⟩ := p
    obtain ⟨x, hx⟩ := h (k, c) (List.mem_cons_self ..)
    obtain ⟨xs, hxs⟩ := ih (fun q hq => h q (List.mem_cons_of_mem _ hq))
    exact ⟨(k, x) :: xs, by simp only [vectoriseAll, hx, hxs]⟩

theorem vectoriseAll_error (lt : String → String → Bool) (num : V → Option W) (cs : List (String × Snap V))
    (e : String) (h : vectoriseAll lt num cs = .error e) : ∃ p ∈ cs, ∃ e', vectorise lt num p.2 = .error e' := by
  induction cs generalizing e with
  | nil => simp only [vectoriseAll] at h; cases h
  | cons p r ih =>
    obtain ⟨k, c⟩ := p
    simp only [vectoriseAll] at h
    cases hv : vectorise lt num c with
    | error e' => exact ⟨(k, c), List.mem_cons_self .., e', hv⟩
    | ok x =>
      rw [hv] at h
      simp only at h
      cases hr : vectoriseAll lt num r with
      | error e' =>
        obtain ⟨p, hp, e'', he⟩ := ih e' hr
        exact ⟨p, List.mem_cons_of_mem _ hp, e'', he⟩
      | ok xs => rw [hr] at h; cases h

/-- looking a field up in the record of a node = vectorising the child of that name -/
theorem fieldOf_vectorise (lt : String → String → Bool) (hirr : ∀ a, lt a a = false) (num : V → Option W)
    (cs : List (String × Snap V)) (row : VRow W) (h : vectorise lt num (.node cs) = .ok row) (k : String) :
    (assoc k cs = none → fieldOf k row = none) ∧
    (∀ c, assoc k cs = some c → ∃ x, vectorise lt num c = .ok x ∧ fieldOf k row = some x) := by
  simp only [vectorise] at h
  cases hr : vectoriseAll lt num cs with
  | error e => rw [hr] at h; cases h
  | ok fs =>
    rw [hr] at h
    simp only at h
    cases h
    simp only [fieldOf, assoc_sortFields lt hirr]
    exact vectoriseAll_assoc lt num cs fs hr k

/-! ## `homog` implies that the record can be built -/

theorem checkNodes_all (keys0 : List String) (l : List (Snap V)) (h : checkNodes keys0 l = .ok ()) :
    ∀ s ∈ l, ∃ cs, s = .node cs := by
  induction l with
  | nil => intro s hs; cases hs
  | cons x r ih =>
    cases x with
    | val v => simp only [checkNodes] at h; cases h
    | scale sc => simp only [checkNodes] at h; cases h
    | node cs =>
      simp only [checkNodes] at h
      by_cases hk : sameKeys keys0 (cs.map (·.1)) = true
      · rw [if_pos hk] at h
        intro s hs
        rcases List.mem_cons.mp hs with hs | hs
        · exact ⟨cs, hs⟩
        · exact ih h s hs
      · rw [if_neg hk] at h; cases h

theorem checkNums_all (num : V → Option W) (l : List (Snap V)) (h : checkNums num l = .ok ()) :
    ∀ s ∈ l, ∃ v w, s = .val v ∧ num v = some w := by
  induction l with
  | nil => intro s hs; cases hs
  | cons x r ih =>
    cases x with
    | node cs => simp only [checkNums] at h; cases h
    | scale sc => simp only [checkNums] at h; cases h
    | val v =>
      simp only [checkNums] at h
      cases hn : num v with
      | none => rw [hn] at h; simp at h
      | some w =>
        rw [hn] at h
        simp only [Option.isSome_some, if_true] at h
        intro s hs
        rcases List.mem_cons.mp hs with hs | hs
        · exact ⟨v, w, hs, hn⟩
        · exact ih h s hs

theorem mem_pool {l : List (Snap V)} {cs : List (String × Snap V)} (h : Snap.node cs ∈ l)
    {p : String × Snap V} (hp : p ∈ cs) : p.2 ∈ pool l := by
  induction l with
  | nil => cases h
  | cons x r ih =>
    simp only [pool, List.mem_append]
    rcases List.mem_cons.mp h with h | h
    · left; rw [← h]; simp only [kids, List.mem_map]; exact ⟨p, hp, rfl⟩
    · right; exact ih h

theorem homog_vectorise (lt : String → String → Bool) (num : V → Option W) (l : List (Snap V))
    (h : homog num l = .ok ()) : ∀ s ∈ l, ∃ x, vectorise lt num s = .ok x := by
  induction l using homog.induct (num := num) with
  | case1 => simp only [homog] at h; cases h
  | case2 cs rest e he => rw [homog, he] at h; cases h
  | case3 cs rest he ih =>
    rw [homog, he] at h
    simp only at h
    have hall := ih h
    have hnodes : ∀ s ∈ Snap.node cs :: rest, ∃ cs', s = .node cs' := by
      intro s hs
      rcases List.mem_cons.mp hs with hs | hs
      · exact ⟨cs, hs⟩
      · exact checkNodes_all _ _ he s hs
    intro s hs
    obtain ⟨cs', rfl⟩ := hnodes s hs
    obtain ⟨fs, hfs⟩ := vectoriseAll_ok lt num cs' (fun p hp => hall p.2 (mem_pool hs hp))
    exact ⟨.record (sortFields lt fs), by simp only [vectorise, hfs]⟩
  | case4 v rest hv =>
    rw [homog, if_pos hv] at h
    have := checkNums_all num rest h
    intro s hs
    rcases List.mem_cons.mp hs with hs | hs
    · obtain ⟨w, hw⟩ := Option.isSome_iff_exists.mp hv
      exact ⟨.leaf w, by rw [hs]; simp only [vectorise, hw]⟩
    · obtain ⟨v', w, rfl, hw⟩ := this s hs
      exact ⟨.leaf w, by simp only [vectorise, hw]⟩
  | case5 v rest hv => rw [homog, if_neg hv] at h; cases h
  | case6 sc rest => simp only [homog] at h; cases h

/-- a homogeneous node can always be turned into a record -/
theorem buildVec_ok_iff (lt : String → String → Bool) (num : V → Option W) (cs : List (String × Snap V)) :
    (∃ row, buildVec lt num (.node cs) = .ok row) ↔ homog num (cs.map (·.2)) = .ok () := by
  simp only [buildVec]
  constructor
  · rintro ⟨row, h⟩
    cases hh : homog num (cs.map (·.2)) with
    | error e => rw [hh] at h; cases h
    | ok u => rfl
  · intro hh
    rw [hh]
    simp only
    have hall := homog_vectorise lt num _ hh
    obtain ⟨fs, hfs⟩ := vectoriseAll_ok lt num cs (fun p hp => hall p.2 (List.mem_map.mpr ⟨p, hp, rfl⟩))
    exact ⟨.record (sortFields lt fs), by simp only [vectorise, hfs]⟩

theorem buildVec_eq (lt : String → String → Bool) (num : V → Option W) (cs : List (String × Snap V))
    (row : VRow W) (h : buildVec lt num (.node cs) = .ok row) :
    homog num (cs.map (·.2)) = .ok () ∧ vectorise lt num (.node cs) = .ok row := by
  simp only [buildVec] at h
  cases hh : homog num (cs.map (·.2)) with
  | error e => rw [hh] at h; cases h
  | ok u => rw [hh] at h; exact ⟨rfl, h⟩

/-! ## Vector indexing row by row -/

theorem broadcast_single (r : α) (ks : List β) (h : ks ≠ []) :
    broadcast [r] ks = some (ks.map (fun k => (r, k))) := by
  unfold broadcast
  by_cases hl : [r].length = ks.length
  · rw [if_pos hl]
    cases ks with
    | nil => exact absurd rfl h
    | cons k t =>
      cases t with
      | nil => rfl
      | cons k2 t2 => simp at hl
  · rw [if_neg hl]

theorem pickAll_single_some (r : VRow W) (ks : List String) (out : List (VRow W))
    (h : pickAll (ks.map (fun k => (r, k))) = some out) :
    out.length = ks.length ∧ ∀ i (hi : i < ks.length), fieldOf ks[i] r = out[i]? := by
  induction ks generalizing out with
  | nil => simp only [List.map_nil, pickAll] at h; cases h; exact ⟨rfl, fun i hi => (by cases hi)⟩
  | cons k t ih =>
    simp only [List.map_cons, pickAll] at h
    cases hf : fieldOf k r with
    | none => rw [hf] at h; simp at h
    | some x =>
      cases hp : pickAll (t.map (fun k => (r, k))) with
      | none => rw [hf, hp] at h; simp at h
      | some xs =>
        rw [hf, hp] at h
        simp only at h
        cases h
        obtain ⟨h1, h2⟩ := ih xs hp
        refine ⟨by simp [h1], ?_⟩
        intro i hi
        cases i with
        | zero => simpa using hf
        | succ j => simpa using h2 j (by simpa using hi)

theorem pickAll_single_none (r : VRow W) (ks : List String) :
    pickAll (ks.map (fun k => (r, k))) = none ↔ ∃ k ∈ ks, fieldOf k r = none := by
  induction ks with
  | nil => simp [pickAll]
  | cons k t ih =>
    simp only [List.map_cons, pickAll, List.mem_cons, exists_eq_or_imp]
    cases hf : fieldOf k r with
    | none => simp
    | some x =>
      cases hp : pickAll (t.map (fun k => (r, k))) with
      | none => simp only [true_iff]; right; exact ih.mp hp
      | some xs =>
        simp only [reduceCtorEq, false_iff, not_or, not_exists, not_and]
        refine ⟨by simp, fun k' hk' hn => ?_⟩
        have := ih.mpr ⟨k', hk', hn⟩
        rw [hp] at this; cases this

/-- indexing the one-row vector of a node by a key vector -/
theorem vindex_single (row : VRow W) (ks : List String) :
    (∀ out, vindex [row] ks = .ok out →
      out.length = ks.length ∧ ∀ i (hi : i < ks.length), fieldOf ks[i] row = out[i]?) ∧
    ((∃ e, vindex [row] ks = .error e) ↔ ks = [] ∨ ∃ k ∈ ks, fieldOf k row = none) := by
  cases ks with
  | nil =>
    simp only [vindex]
    exact ⟨fun out h => (by cases h), ⟨fun _ => (by simp), fun _ => ⟨_, rfl⟩⟩⟩
  | cons k0 t =>
    simp only [vindex]
    cases hf0 : fieldOf k0 row with
    | none =>
      simp only [Option.isNone_none, if_true]
      refine ⟨fun out h => (by cases h), ⟨fun _ => Or.inr ⟨k0, List.mem_cons_self .., hf0⟩, fun _ => ⟨_, rfl⟩⟩⟩
    | some x0 =>
      simp only [Option.isNone_some, Bool.false_eq_true, if_false]
      rw [broadcast_single row (k0 :: t) (by simp)]
      simp only
      cases hp : pickAll ((k0 :: t).map (fun k => (row, k))) with
      | none =>
        simp only
        refine ⟨fun out h => (by cases h), ⟨fun _ => Or.inr ((pickAll_single_none row _).mp hp), fun _ => ⟨_, rfl⟩⟩⟩
      | some out =>
        simp only
        refine ⟨fun out' h => (by cases h; exact pickAll_single_some row _ out hp), ⟨?_, ?_⟩⟩
        · rintro ⟨e, he⟩; cases he
        · rintro (h | h)
          · cases h
          · have := (pickAll_single_none row _).mpr h
            rw [hp] at this; cases this

/-- `.name` on a vectorial node, row by row -/
theorem vfield_spec (rows : List (VRow W)) (k : String) :
    (∀ out, vfield rows k = .ok out →
      out.length = rows.length ∧ ∀ i (hi : i < rows.length), fieldOf k rows[i] = out[i]?) ∧
    ((∃ e, vfield rows k = .error e) ↔ ∃ r ∈ rows, fieldOf k r = none) := by
  induction rows with
  | nil =>
    simp only [vfield]
    exact ⟨fun out h => by cases h; exact ⟨rfl, fun i hi => (by cases hi)⟩, ⟨fun ⟨e, he⟩ => (by cases he), fun ⟨r, hr, _⟩ => (by cases hr)⟩⟩
  | cons r rest ih =>
    obtain ⟨ih1, ih2⟩ := ih
    simp only [vfield]
    cases hf : fieldOf k r with
    | none =>
      simp only
      exact ⟨fun out h => (by cases h), ⟨fun _ => ⟨r, List.mem_cons_self .., hf⟩, fun _ => ⟨_, rfl⟩⟩⟩
    | some x =>
      cases hv : vfield rest k with
      | error e =>
        simp only
        refine ⟨fun out h => (by cases h), ⟨fun _ => ?_, fun _ => ⟨_, rfl⟩⟩⟩
        obtain ⟨r', hr', hn⟩ := ih2.mp ⟨e, hv⟩
        exact ⟨r', List.mem_cons_of_mem _ hr', hn⟩
      | ok xs =>
        simp only
        obtain ⟨h1, h2⟩ := ih1 xs hv
        refine ⟨fun out h => ?_, ⟨fun ⟨e, he⟩ => (by cases he), ?_⟩⟩
        · cases h
          refine ⟨by simp [h1], ?_⟩
          intro i hi
          cases i with
          | zero => simpa using hf
          | succ j => simpa using h2 j (by simpa using hi)
        · rintro ⟨r', hr', hn⟩
          rcases List.mem_cons.mp hr' with hr' | hr'
          · rw [hr', hf] at hn; cases hn
          · have := ih2.mpr ⟨r', hr', hn⟩
            obtain ⟨e, he⟩ := this
            rw [hv] at he; cases he

/-! ## As-of-date indexing -/

theorem afterDates_eq (ns : List String) (h : ∀ a ∈ ns, isBefore a = false → (parseAfter a).isSome = true) :
    afterDates ns = some ((ns.filter (fun n => !isBefore n)).map dateOf) := by
  induction ns with
  | nil => rfl
  | cons n r ih =>
    have ihr := ih (fun a ha => h a (List.mem_cons_of_mem _ ha))
    simp only [afterDates]
    cases hb : isBefore n with
    | true => simp only [if_true, ihr, List.filter_cons, hb, Bool.not_true, Bool.false_eq_true, if_false]
    | false =>
      have hp := h n (List.mem_cons_self ..) hb
      obtain ⟨dd, hdd⟩ := Option.isSome_iff_exists.mp hp
      simp only [Bool.false_eq_true, if_false, hdd, ihr, List.filter_cons, hb, Bool.not_false, if_true,
        List.map_cons, dateOf, Option.getD_some]

theorem countLE_le_length (ds : List Int) (t : Int) : countLE ds t ≤ ds.length := by
  induction ds with
  | nil => simp [countLE]
  | cons d r ih =>
    simp only [countLE, List.length_cons]
    by_cases h : d ≤ t
    · rw [if_pos h]; omega
    · rw [if_neg h]; omega

theorem countLE_zero (ds : List Int) (t : Int) (h : ∀ d ∈ ds, t < d) : countLE ds t = 0 := by
  induction ds with
  | nil => rfl
  | cons d r ih =>
    simp only [countLE]
    have h1 := h d (List.mem_cons_self ..)
    rw [if_neg (by omega), ih (fun d' hd' => h d' (List.mem_cons_of_mem _ hd'))]

theorem asofPick_spec (vals : List (VRow W)) (ads : List Int) (dates : List Int)
    (hlen : ads.length < vals.length) :
    ∃ out, asofPick vals ads dates = .ok out ∧ out.length = dates.length ∧
      ∀ i (hi : i < dates.length), out[i]? = vals[countLE ads dates[i]]? := by
  induction dates with
  | nil => exact ⟨[], rfl, rfl, fun i hi => by cases hi⟩
  | cons t r ih =>
    obtain ⟨out, h1, h2, h3⟩ := ih
    have hc := countLE_le_length ads t
    have hlt : countLE ads t < vals.length := by omega
    refine ⟨vals[countLE ads t] :: out, ?_, by simp [h2], ?_⟩
    · simp only [asofPick, List.getElem?_eq_getElem hlt, h1]
    · intro i hi
      cases i with
      | zero => simp [List.getElem?_eq_getElem hlt]
      | succ j => simpa using h3 j (by simpa using hi)

/-- `x` is in force at `t` among the base `b` and the dated `A` -/
def InForceAt (b : String × β) (A : List (String × β)) (t : Int) (x : String × β) : Prop :=
  (x = b ∧ ∀ a ∈ A, t < dateOf a.1) ∨
  (x ∈ A ∧ dateOf x.1 ≤ t ∧ ∀ a ∈ A, dateOf a.1 ≤ t → dateOf a.1 ≤ dateOf x.1)

/-- on a chronologically sorted field list, the number of dates `≤ t` is the position of the field
    in force at `t` -/
theorem chron_pick (b : String × β) (A : List (String × β)) (t : Int)
    (hs : (A.map (fun a => dateOf a.1)).Pairwise (· < ·)) :
    ∃ x, (b :: A)[countLE (A.map (fun a => dateOf a.1)) t]? = some x ∧ InForceAt b A t x := by
  induction A generalizing b with
  | nil => exact ⟨b, rfl, Or.inl ⟨rfl, fun a ha => by cases ha⟩⟩
  | cons a A' ih =>
    simp only [List.map_cons, List.pairwise_cons] at hs
    obtain ⟨h1, h2⟩ := hs
    have h1' : ∀ y ∈ A', dateOf a.1 < dateOf y.1 := fun y hy => h1 _ (List.mem_map.mpr ⟨y, hy, rfl⟩)
    simp only [List.map_cons, countLE]
    by_cases hle : dateOf a.1 ≤ t
    · rw [if_pos hle]
      obtain ⟨x, hx, hin⟩ := ih a h2
      refine ⟨x, ?_, ?_⟩
      · rw [Nat.add_comm, List.getElem?_cons_succ]; exact hx
      · rcases hin with ⟨rfl, hall⟩ | ⟨hmem, hxt, hmax⟩
        · refine Or.inr ⟨List.mem_cons_self .., hle, ?_⟩
          intro y hy hyt
          rcases List.mem_cons.mp hy with hy | hy
          · rw [hy]; exact Int.le_refl _
          · have := hall y hy; omega
        · refine Or.inr ⟨List.mem_cons_of_mem _ hmem, hxt, ?_⟩
          intro y hy hyt
          rcases List.mem_cons.mp hy with hy | hy
          · rw [hy]; have := h1' x hmem; omega
          · exact hmax y hy hyt
    · rw [if_neg hle]
      have hz : countLE (A'.map (fun a => dateOf a.1)) t = 0 := by
        apply countLE_zero
        intro dd hdd
        obtain ⟨y, hy, rfl⟩ := List.mem_map.mp hdd
        have := h1' y hy; omega
      rw [hz]
      refine ⟨b, rfl, Or.inl ⟨rfl, ?_⟩⟩
      intro y hy
      rcases List.mem_cons.mp hy with hy | hy
      · rw [hy]; omega
      · have := h1' y hy; omega

/-- a list sorted by `asofLt` with exactly one `before…` name starts with it -/
theorem asof_sorted_shape (L : List (String × β)) (hs : L.Pairwise (NotAfter asofLt))
    (hone : (L.filter (fun p => isBefore p.1)).length = 1) :
    ∃ b A, L = b :: A ∧ isBefore b.1 = true ∧ ∀ a ∈ A, isBefore a.1 = false := by
  cases L with
  | nil => simp at hone
  | cons x r =>
    rw [List.pairwise_cons] at hs
    cases hb : isBefore x.1 with
    | true =>
      refine ⟨x, r, rfl, hb, ?_⟩
      rw [List.filter_cons_of_pos (by simpa using hb)] at hone
      simp only [List.length_cons, Nat.add_right_cancel_iff, Nat.succ.injEq] at hone
      have hnil : r.filter (fun p => isBefore p.1) = [] := List.eq_nil_of_length_eq_zero (by omega)
      intro a ha
      cases hba : isBefore a.1 with
      | false => rfl
      | true =>
        have : a ∈ r.filter (fun p => isBefore p.1) := List.mem_filter.mpr ⟨ha, by simpa using hba⟩
        rw [hnil] at this; cases this
    | false =>
      exfalso
      rw [List.filter_cons_of_neg (by simpa using hb)] at hone
      have hpos : 0 < (r.filter (fun p => isBefore p.1)).length := by omega
      obtain ⟨y, hy⟩ := List.exists_mem_of_length_pos hpos
      obtain ⟨hyr, hyb⟩ := List.mem_filter.mp hy
      have hyb' : isBefore y.1 = true := by simpa using hyb
      have := hs.1 y hyr
      unfold NotAfter asofLt at this
      rw [hyb', hb] at this
      simp at this

theorem chron_of_sorted (A : List (String × β)) (hs : A.Pairwise (NotAfter asofLt))
    (hnb : ∀ a ∈ A, isBefore a.1 = false) (hnd : (A.map (·.1)).Nodup)
    (hord : ∀ a ∈ A, ∀ b ∈ A, dateOf a.1 < dateOf b.1 → a.1 < b.1)
    (hinj : ∀ a ∈ A, ∀ b ∈ A, dateOf a.1 = dateOf b.1 → a.1 = b.1) :
    (A.map (fun a => dateOf a.1)).Pairwise (· < ·) := by
  rw [List.pairwise_map]
  have hne : A.Pairwise (fun x y => x.1 ≠ y.1) := List.pairwise_map.mp hnd
  refine List.Pairwise.imp_of_mem ?_ (hs.and hne)
  intro x y hx hy hxy
  obtain ⟨h1, h2⟩ := hxy
  unfold NotAfter asofLt at h1
  rw [hnb x hx, hnb y hy] at h1
  simp only [if_true, decide_eq_false_iff_not] at h1
  have h3 : ¬ dateOf y.1 < dateOf x.1 := fun c => h1 (hord y hy x hx c)
  have h4 : dateOf x.1 ≠ dateOf y.1 := fun c => h2 (hinj x hx y hy c)
  omega

theorem inForce_of_inForceAt (names : List String) (b : String × β) (A : List (String × β)) (t : Int)
    (x : String × β) (hnames : ∀ a, a ∈ names ↔ ∃ p ∈ b :: A, p.1 = a)
    (hb : isBefore b.1 = true) (hA : ∀ a ∈ A, isBefore a.1 = false) (h : InForceAt b A t x) :
    InForce names t x.1 := by
  have hafter : ∀ a ∈ names, isBefore a = false → ∃ p ∈ A, p.1 = a := by
    intro a ha hab
    obtain ⟨p, hp, rfl⟩ := (hnames a).mp ha
    rcases List.mem_cons.mp hp with hp | hp
    · rw [hp, hb] at hab; cases hab
    · exact ⟨p, hp, rfl⟩
  rcases h with ⟨rfl, hall⟩ | ⟨hmem, hxt, hmax⟩
  · refine ⟨(hnames _).mpr ⟨x, List.mem_cons_self .., rfl⟩, Or.inl ⟨hb, ?_⟩⟩
    intro a ha hab
    obtain ⟨p, hp, rfl⟩ := hafter a ha hab
    exact hall p hp
  · refine ⟨(hnames _).mpr ⟨x, List.mem_cons_of_mem _ hmem, rfl⟩, Or.inr ⟨hA x hmem, hxt, ?_⟩⟩
    intro a ha hab hat
    obtain ⟨p, hp, rfl⟩ := hafter a ha hab
    exact hmax p hp hat

/-- As-of-date indexing of a homogeneous group whose names are in the claim domain: one element per
    date, each the vectorised value of the child in force at that date — whatever the declaration
    order of the children. -/
theorem asof_spec (num : V → Option W) (cs : List (String × Snap V)) (dates : List Int)
    (hwf : AsofWF (cs.map (·.1))) (hh : homog num (cs.map (·.2)) = .ok ()) :
    ∃ out, asof num (.node cs) dates = .ok out ∧ out.length = dates.length ∧
      ∀ i (hi : i < dates.length), ∃ k c x, (k, c) ∈ cs ∧ vectorise asofLt num c = .ok x ∧
        out[i]? = some x ∧ InForce (cs.map (·.1)) dates[i] k := by
  obtain ⟨hnd, hone, htwo, hparse, hord, hinj⟩ := hwf
  obtain ⟨row, hrow⟩ := (buildVec_ok_iff asofLt num cs).mpr hh
  obtain ⟨_, hvec⟩ := buildVec_eq asofLt num cs row hrow
  simp only [vectorise] at hvec
  cases hfs : vectoriseAll asofLt num cs with
  | error e => rw [hfs] at hvec; cases hvec
  | ok fs =>
    rw [hfs] at hvec
    simp only at hvec
    cases hvec
    have hkeys := vectoriseAll_keys asofLt num cs fs hfs
    have hperm := perm_sortFields asofLt fs
    have hsorted := sorted_sortFields asofLt asofLt_asymm asofLt_trans fs
    -- names of the sorted fields = the child names, up to order
    have hpn : ((sortFields asofLt fs).map (·.1)).Perm (cs.map (·.1)) := by
      rw [← hkeys]; exact hperm.map _
    have hone' : ((sortFields asofLt fs).filter (fun p => isBefore p.1)).length = 1 := by
      have h1 : (((sortFields asofLt fs).map (·.1)).filter isBefore).length = 1 := by
        rw [(hpn.filter isBefore).length_eq]; exact hone
      rw [List.filter_map, List.length_map] at h1
      exact h1
    obtain ⟨b, A, hS, hb, hA⟩ := asof_sorted_shape _ hsorted hone'
    have hmemS : ∀ p, p ∈ b :: A ↔ p ∈ fs := by intro p; rw [← hS]; exact hperm.mem_iff
    have hnames : ∀ a, a ∈ cs.map (·.1) ↔ ∃ p ∈ b :: A, p.1 = a := by
      intro a
      rw [← hpn.mem_iff, hS, List.mem_map]
    have hAin : ∀ a ∈ A, a.1 ∈ cs.map (·.1) := fun a ha => (hnames a.1).mpr ⟨a, List.mem_cons_of_mem _ ha, rfl⟩
    have hsA : A.Pairwise (NotAfter asofLt) := by rw [hS] at hsorted; exact (List.pairwise_cons.mp hsorted).2
    have hndS : ((b :: A).map (·.1)).Nodup := by rw [← hS]; exact hpn.nodup_iff.mpr hnd
    have hndA : (A.map (·.1)).Nodup := by
      simp only [List.map_cons, List.nodup_cons] at hndS; exact hndS.2
    have hchron := chron_of_sorted A hsA hA hndA
      (fun x hx y hy => hord x.1 (hAin x hx) y.1 (hAin y hy) (hA x hx) (hA y hy))
      (fun x hx y hy => hinj x.1 (hAin x hx) y.1 (hAin y hy) (hA x hx) (hA y hy))
    -- the dates of the `after_` fields, in field order
    have hads : afterDates ((b :: A).map (·.1)) = some (A.map (fun a => dateOf a.1)) := by
      rw [afterDates_eq]
      · congr 1
        simp only [List.map_cons, List.filter_cons, hb, Bool.not_true, Bool.false_eq_true, if_false]
        have : (A.map (·.1)).filter (fun n => !isBefore n) = A.map (·.1) := by
          rw [List.filter_eq_self]
          intro n hn
          obtain ⟨a, ha, rfl⟩ := List.mem_map.mp hn
          simp [hA a ha]
        rw [this, List.map_map]; rfl
      · intro a ha hab
        obtain ⟨p, hp, rfl⟩ := List.mem_map.mp ha
        exact hparse p.1 ((hnames p.1).mpr ⟨p, hp, rfl⟩) hab
    have hlenS : (b :: A).length = cs.length := by
      have := hpn.length_eq
      rw [hS] at this
      simpa using this
    have hApos : A ≠ [] := by
      intro c
      rw [c] at hlenS
      simp only [List.length_cons, List.length_nil, List.length_map] at hlenS htwo
      omega
    obtain ⟨out, ho1, ho2, ho3⟩ := asofPick_spec ((b :: A).map (·.2)) (A.map (fun a => dateOf a.1)) dates
      (by simp)
    refine ⟨out, ?_, ho2, ?_⟩
    · simp only [asof, hrow, asofIndex]
      rw [hS, hads]
      cases A with
      | nil => exact absurd rfl hApos
      | cons a0 A0 => simpa using ho1
    · intro i hi
      obtain ⟨x, hx, hin⟩ := chron_pick b A dates[i] hchron
      have hxS : x ∈ b :: A := List.mem_of_getElem? hx
      obtain ⟨c, hc, hcx⟩ := (vectoriseAll_mem asofLt num cs fs hfs x.1 x.2).mp ((hmemS x).mp hxS)
      refine ⟨x.1, c, x.2, hc, hcx, ?_, inForce_of_inForceAt _ b A _ x hnames hb hA hin⟩
      rw [ho3 i hi, List.getElem?_map, hx]
      rfl

/-- Vector indexing of a node at an instant by (stringified) keys: one row per key, the vectorised
    child of that name; the exact error condition. -/
theorem fancy_spec (num : V → Option W) (cs : List (String × Snap V)) (ks : List String) :
    (∀ rows, fancy num (.node cs) ks = .ok rows →
      rows.length = ks.length ∧
      ∀ i (hi : i < ks.length), ∃ c x, assoc ks[i] cs = some c ∧ vectorise plainLt num c = .ok x ∧ rows[i]? = some x) ∧
    ((∃ e, fancy num (.node cs) ks = .error e) ↔
      homog num (cs.map (·.2)) ≠ .ok () ∨ ks = [] ∨ ∃ k ∈ ks, assoc k cs = none) := by
  simp only [fancy]
  cases hb : buildVec plainLt num (.node cs) with
  | error e =>
    have hne : homog num (cs.map (·.2)) ≠ .ok () := by
      intro c
      obtain ⟨row, hrow⟩ := (buildVec_ok_iff plainLt num cs).mpr c
      rw [hrow] at hb; cases hb
    simp only
    exact ⟨fun rows h => (by cases h), ⟨fun _ => Or.inl hne, fun _ => ⟨_, rfl⟩⟩⟩
  | ok row =>
    obtain ⟨hh, hvec⟩ := buildVec_eq plainLt num cs row hb
    have hf := fieldOf_vectorise plainLt plainLt_irrefl num cs row hvec
    obtain ⟨h1, h2⟩ := vindex_single row ks
    simp only
    refine ⟨fun rows h => ?_, ?_⟩
    · obtain ⟨hl, hrows⟩ := h1 rows h
      refine ⟨hl, fun i hi => ?_⟩
      have hri := hrows i hi
      cases hc : assoc ks[i] cs with
      | none =>
        rw [(hf ks[i]).1 hc] at hri
        have : i < rows.length := by omega
        rw [List.getElem?_eq_getElem this] at hri; cases hri
      | some c =>
        obtain ⟨x, hx, hfx⟩ := (hf ks[i]).2 c hc
        exact ⟨c, x, rfl, hx, by rw [← hri, hfx]⟩
    · rw [h2]
      constructor
      · rintro (h | ⟨k, hk, hn⟩)
        · exact Or.inr (Or.inl h)
        · refine Or.inr (Or.inr ⟨k, hk, ?_⟩)
          cases hc : assoc k cs with
          | none => rfl
          | some c =>
            obtain ⟨x, _, hfx⟩ := (hf k).2 c hc
            rw [hfx] at hn; cases hn
      · rintro (h | h | ⟨k, hk, hn⟩)
        · exact absurd hh h
        · exact Or.inl h
        · exact Or.inr ⟨k, hk, (hf k).1 hn⟩

/-- a sub-node reached by name after a vector index (`P[keys].name`): row by row, the vectorised
    grand-child -/
theorem fancy_field_spec (num : V → Option W) (cs : List (String × Snap V)) (ks : List String) (f : String)
    (rows rows' : List (VRow W)) (h : fancy num (.node cs) ks = .ok rows) (h' : vfield rows f = .ok rows') :
    rows'.length = ks.length ∧
    ∀ i (hi : i < ks.length), ∃ cs' c' x, assoc ks[i] cs = some (.node cs') ∧ assoc f cs' = some c' ∧
      vectorise plainLt num c' = .ok x ∧ rows'[i]? = some x := by
  obtain ⟨hl, hrows⟩ := (fancy_spec num cs ks).1 rows h
  obtain ⟨hl', hf⟩ := (vfield_spec rows f).1 rows' h'
  refine ⟨by omega, fun i hi => ?_⟩
  obtain ⟨c, x, hc, hx, hri⟩ := hrows i hi
  have hi' : i < rows.length := by omega
  have hfi := hf i hi'
  have hxi : rows[i] = x := by
    rw [List.getElem?_eq_getElem hi'] at hri; exact Option.some.inj hri
  have hi'' : i < rows'.length := by omega
  rw [List.getElem?_eq_getElem hi'', hxi] at hfi
  cases c with
  | val v =>
    simp only [vectorise] at hx
    cases hn : num v with
    | none => rw [hn] at hx; cases hx
    | some w => rw [hn] at hx; cases hx; simp [fieldOf] at hfi
  | scale sc => simp only [vectorise] at hx; cases hx
  | node cs' =>
    have hfv := fieldOf_vectorise plainLt plainLt_irrefl num cs' x hx f
    cases hc' : assoc f cs' with
    | none => rw [hfv.1 hc'] at hfi; cases hfi
    | some c' =>
      obtain ⟨y, hy, hfy⟩ := hfv.2 c' hc'
      rw [hfy] at hfi
      refine ⟨cs', c', y, hc, hc', hy, ?_⟩
      rw [List.getElem?_eq_getElem hi'', ← Option.some.inj hfi]

/-! ## Chained as-of-date indexing (several rows) -/

theorem asofPairs_spec (ps : List (VRow W × Int)) (out : List (VRow W)) (h : asofPairs ps = .ok out) :
    out.length = ps.length ∧
    ∀ i (hi : i < ps.length), ∃ x, out[i]? = some x ∧ asofOne ps[i].1 ps[i].2 = .ok x := by
  induction ps generalizing out with
  | nil =>
    simp only [asofPairs] at h
    cases h
    exact ⟨rfl, fun i hi => by cases hi⟩
  | cons p ps ih =>
    obtain ⟨r, t⟩ := p
    simp only [asofPairs] at h
    cases h1 : asofOne r t with
    | error e => rw [h1] at h; cases h
    | ok x =>
      cases h2 : asofPairs ps with
      | error e => rw [h1, h2] at h; cases h
      | ok xs =>
        rw [h1, h2] at h
        cases h
        obtain ⟨l1, l2⟩ := ih xs h2
        refine ⟨by simp [l1], fun i hi => ?_⟩
        cases i with
        | zero => exact ⟨x, rfl, h1⟩
        | succ j => simpa using l2 j (by simpa using hi)

/-- indexing one row by one date is `asofOne` -/
theorem asofIndex_single (r : VRow W) (t : Int) (out : List (VRow W)) (h : asofIndex r [t] = .ok out) :
    ∃ x, out = [x] ∧ asofOne r t = .ok x := by
  cases r with
  | leaf w => simp only [asofIndex] at h; cases h
  | record fs =>
    simp only [asofIndex] at h
    cases ha : afterDates (fs.map (·.1)) with
    | none => rw [ha] at h; cases h
    | some ads =>
      rw [ha] at h
      cases ads with
      | nil => cases h
      | cons a ads =>
        simp only [asofPick] at h
        cases hx : (fs.map (·.2))[countLE (a :: ads) t]? with
        | none => rw [hx] at h; cases h
        | some x =>
          rw [hx] at h
          cases h
          exact ⟨x, rfl, by simp only [asofOne, ha, hx]⟩

/-! ## `merge` -/

theorem assoc_append_single (k k' : String) (c : PNode V) (cs : List (String × PNode V)) :
    assoc k (cs ++ [(k', c)]) = match assoc k cs with
      | some x => some x
      | none => if k' = k then some c else none := by
  induction cs with
  | nil => simp [assoc]
  | cons p r ih =>
    obtain ⟨k2, c2⟩ := p
    simp only [List.cons_append, assoc]
    by_cases h : k2 = k
    · rw [if_pos h, if_pos h]
    · rw [if_neg h, if_neg h]; exact ih

end OFCore.PView
