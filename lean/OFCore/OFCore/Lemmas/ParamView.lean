import OFCore.ParamView
import OFCore.Lemmas.Param
/-!
# Helper lemmas for the parameter-reading model (C07)

* the memo invariant `MemoOK` (every memoised view is the snapshot of the current tree of the system
  it is keyed by) and its preservation by every operation;
* attribute paths commute with evaluation at an instant (`assoc_childrenAt`, `sdescend_atInstant`);
* the tracing wrapper (`tracedDescend`);
* stable insertion sort (`assoc_sortFields`, permutation, sortedness for a strict weak order);
* `homog ok → vectorise ok`; vector indexing row by row;
* as-of-date indexing: `nthAfter` on a chronologically sorted field list.
-/
set_option linter.unusedSimpArgs false
set_option linter.unusedVariables false

namespace OFCore.PView
open OFCore.Param

variable {V W α β : Type}

/-! ## The memo -/

/-- every memo entry is keyed by an existing system and is the snapshot of that system's CURRENT tree -/
def MemoOK (w : World V) : Prop :=
  ∀ k v, (k, v) ∈ w.memo → k.sys < w.systems.length ∧ v = snapshot (w.treeOf k.sys) k.date

theorem memoFind_mem {k : Key} {m : List (Key × α)} {x : α} (h : memoFind k m = some x) : (k, x) ∈ m := by
  induction m with
  | nil => simp [memoFind] at h
  | cons p r ih =>
    obtain ⟨k', y⟩ := p
    simp only [memoFind] at h
    by_cases hk : k' = k
    · rw [if_pos hk] at h; cases h; subst hk; exact List.mem_cons_self ..
    · rw [if_neg hk] at h; exact List.mem_cons_of_mem _ (ih h)

theorem mem_memoErase {k : Key} {m : List (Key × α)} {p : Key × α} (h : p ∈ memoErase k m) : p ∈ m := by
  induction m with
  | nil => simp [memoErase] at h
  | cons q r ih =>
    obtain ⟨k', y⟩ := q
    simp only [memoErase] at h
    by_cases hk : k' = k
    · rw [if_pos hk] at h; exact List.mem_cons_of_mem _ (ih h)
    · rw [if_neg hk] at h
      rcases List.mem_cons.mp h with h | h
      · rw [h]; exact List.mem_cons_self ..
      · exact List.mem_cons_of_mem _ (ih h)

theorem mem_memoTouch {k : Key} {x : α} {m : List (Key × α)} {p : Key × α} (h : p ∈ memoTouch k x m) :
    p = (k, x) ∨ p ∈ m := by
  unfold memoTouch at h
  have h' := List.mem_of_mem_take h
  rcases List.mem_cons.mp h' with h' | h'
  · exact Or.inl h'
  · exact Or.inr (mem_memoErase h')

theorem treeOf_of_get {w : World V} {s : Nat} {r : SysRec V} (h : w.systems[s]? = some r) :
    w.treeOf s = r.tree := by
  unfold World.treeOf; rw [h]

theorem lt_of_get {l : List α} {s : Nat} {r : α} (h : l[s]? = some r) : s < l.length := by
  by_cases hs : s < l.length
  · exact hs
  · rw [List.getElem?_eq_none (by omega)] at h; cases h

/-- a view read returns the snapshot of the current tree, whatever was read or changed before -/
theorem viewAt_spec {w w' : World V} {s form : Nat} {d : Int} {v : Option (Snap V)}
    (hw : MemoOK w) (h : viewAt w s form d = some (w', v)) :
    v = snapshot (w.treeOf s) d ∧ MemoOK w' ∧ w'.systems = w.systems := by
  unfold viewAt at h
  cases hr : w.systems[s]? with
  | none => rw [hr] at h; cases h
  | some r =>
    rw [hr] at h
    simp only at h
    have hlt := lt_of_get hr
    have key : ∀ v0, v0 = snapshot (w.treeOf s) d →
        MemoOK ({ w with memo := memoTouch ⟨s, form, d⟩ v0 w.memo } : World V) := by
      intro v0 hv0 k x hkx
      rcases mem_memoTouch hkx with hkx | hkx
      · cases hkx; exact ⟨hlt, hv0⟩
      · exact hw k x hkx
    cases hf : memoFind ⟨s, form, d⟩ w.memo with
    | some v0 =>
      rw [hf] at h
      simp only [Option.some.injEq, Prod.mk.injEq] at h
      obtain ⟨h1, h2⟩ := h
      have hv0 := (hw _ _ (memoFind_mem hf)).2
      subst h1; subst h2
      exact ⟨hv0, key _ hv0, rfl⟩
    | none =>
      rw [hf] at h
      simp only [Option.some.injEq, Prod.mk.injEq] at h
      obtain ⟨h1, h2⟩ := h
      have hv0 : snapshot r.tree d = snapshot (w.treeOf s) d := by rw [treeOf_of_get hr]
      subst h1; subst h2
      exact ⟨hv0, key _ hv0, rfl⟩

theorem viewAt_isSome {w : World V} {s : Nat} (form : Nat) (d : Int) (hs : s < w.systems.length) :
    ∃ w' v, viewAt w s form d = some (w', v) := by
  unfold viewAt
  rw [List.getElem?_eq_getElem hs]
  simp only
  cases memoFind ⟨s, form, d⟩ w.memo with
  | some v0 => exact ⟨_, _, rfl⟩
  | none => exact ⟨_, _, rfl⟩

theorem memoOK_nil (systems : List (SysRec V)) : MemoOK (⟨systems, []⟩ : World V) := by
  intro k v h; simp at h

theorem treeOf_append_of_lt (w : World V) (x : SysRec V) {s : Nat} (hs : s < w.systems.length) :
    ({ w with systems := w.systems ++ [x] } : World V).treeOf s = w.treeOf s := by
  unfold World.treeOf
  simp only
  rw [List.getElem?_append_left hs]

/-- every operation preserves the invariant -/
theorem step_memoOK (w : World V) (hw : MemoOK w) (op : Op V) : MemoOK (step w op).1 := by
  cases op with
  | readView s form d path =>
    simp only [step]
    cases hv : viewAt w s form d with
    | none => exact hw
    | some p => obtain ⟨w', root⟩ := p; exact (viewAt_spec hw hv).2.1
  | readTree s path d =>
    simp only [step]
    cases hr : w.systems[s]? with
    | none => exact hw
    | some r =>
      simp only
      cases r.tree with
      | none => exact hw
      | some t => exact hw
  | readFormula s traced form d path =>
    simp only [step]
    cases hv : viewAt w s form d with
    | none => exact hw
    | some p =>
      obtain ⟨w', root⟩ := p
      simp only
      cases traced with
      | true => exact (viewAt_spec hw hv).2.1
      | false => exact (viewAt_spec hw hv).2.1
  | newReform b =>
    simp only [step]
    cases hr : w.systems[b]? with
    | none => exact hw
    | some r =>
      simp only
      intro k v hkv
      obtain ⟨h1, h2⟩ := hw k v hkv
      refine ⟨by simp only [List.length_append, List.length_cons, List.length_nil]; omega, ?_⟩
      rw [treeOf_append_of_lt w _ h1]; exact h2
  | modify s f =>
    simp only [step]
    cases hr : w.systems[s]? with
    | none => exact hw
    | some r =>
      simp only
      cases r.baseline with
      | none => exact hw
      | some b =>
        simp only
        cases r.tree with
        | none => exact hw
        | some t =>
          simp only
          cases f t with
          | error e => exact hw
          | ok t' =>
            simp only
            by_cases hn : isNode t' = true
            · rw [if_pos hn]; exact memoOK_nil _
            · rw [if_neg hn]; exact hw
  | reload s cs =>
    simp only [step]
    cases hr : w.systems[s]? with
    | none => exact hw
    | some r => exact memoOK_nil _

theorem run_memoOK (w : World V) (hw : MemoOK w) (ops : List (Op V)) : MemoOK (run w ops) := by
  induction ops generalizing w with
  | nil => exact hw
  | cons op ops ih => exact ih _ (step_memoOK w hw op)

theorem init_memoOK : MemoOK (World.init : World V) := memoOK_nil _

/-! ## Which trees an operation can change -/

theorem treeOf_setTree_ne (systems : List (SysRec V)) (memo memo') (s s' : Nat) (t : PNode V) (h : s' ≠ s) :
    (⟨setTree systems s t, memo'⟩ : World V).treeOf s' = (⟨systems, memo⟩ : World V).treeOf s' := by
  unfold World.treeOf setTree
  simp only
  rw [List.getElem?_modify_ne _ _ (fun c => h c.symm)]

theorem treeOf_setTree_eq (systems : List (SysRec V)) (memo') (s : Nat) (t : PNode V) (h : s < systems.length) :
    (⟨setTree systems s t, memo'⟩ : World V).treeOf s = some t := by
  unfold World.treeOf setTree
  simp only
  rw [List.getElem?_modify_eq, List.getElem?_eq_getElem h]
  rfl

theorem length_setTree (systems : List (SysRec V)) (s : Nat) (t : PNode V) :
    (setTree systems s t).length = systems.length := by
  unfold setTree; simp

/-- the number of systems never decreases -/
theorem step_length_le (w : World V) (op : Op V) : w.systems.length ≤ (step w op).1.systems.length := by
  cases op with
  | readView s form d path =>
    simp only [step]
    cases hv : viewAt w s form d with
    | none => exact Nat.le_refl _
    | some p =>
      obtain ⟨w', root⟩ := p
      unfold viewAt at hv
      cases hr : w.systems[s]? with
      | none => rw [hr] at hv; cases hv
      | some r =>
        rw [hr] at hv
        simp only at hv
        cases hf : memoFind ⟨s, form, d⟩ w.memo with
        | some v0 => rw [hf] at hv; cases hv; exact Nat.le_refl _
        | none => rw [hf] at hv; cases hv; exact Nat.le_refl _
  | readTree s path d =>
    simp only [step]
    cases hr : w.systems[s]? with
    | none => exact Nat.le_refl _
    | some r =>
      simp only
      cases r.tree with
      | none => exact Nat.le_refl _
      | some t => exact Nat.le_refl _
  | readFormula s traced form d path =>
    simp only [step]
    cases hv : viewAt w s form d with
    | none => exact Nat.le_refl _
    | some p =>
      obtain ⟨w', root⟩ := p
      have : w'.systems = w.systems := by
        unfold viewAt at hv
        cases hr : w.systems[s]? with
        | none => rw [hr] at hv; cases hv
        | some r =>
          rw [hr] at hv
          simp only at hv
          cases hf : memoFind ⟨s, form, d⟩ w.memo with
          | some v0 => rw [hf] at hv; cases hv; rfl
          | none => rw [hf] at hv; cases hv; rfl
      simp only
      cases traced with
      | true => simp only [if_true]; rw [this]; exact Nat.le_refl _
      | false => simp only [Bool.false_eq_true, if_false]; rw [this]; exact Nat.le_refl _
  | newReform b =>
    simp only [step]
    cases hr : w.systems[b]? with
    | none => exact Nat.le_refl _
    | some r => simp only [List.length_append, List.length_cons, List.length_nil]; omega
  | modify s f =>
    simp only [step]
    cases hr : w.systems[s]? with
    | none => exact Nat.le_refl _
    | some r =>
      simp only
      cases r.baseline with
      | none => exact Nat.le_refl _
      | some b =>
        simp only
        cases r.tree with
        | none => exact Nat.le_refl _
        | some t =>
          simp only
          cases f t with
          | error e => exact Nat.le_refl _
          | ok t' =>
            simp only
            by_cases hn : isNode t' = true
            · rw [if_pos hn]; simp only [length_setTree]; exact Nat.le_refl _
            · rw [if_neg hn]; exact Nat.le_refl _
  | reload s cs =>
    simp only [step]
    cases hr : w.systems[s]? with
    | none => exact Nat.le_refl _
    | some r => simp only [length_setTree]; exact Nat.le_refl _

/-- an operation that does not target system `s'` leaves the tree of `s'` alone -/
theorem step_treeOf_other (w : World V) (op : Op V) (s' : Nat) (hs' : s' < w.systems.length)
    (ht : op.target ≠ some s') : (step w op).1.treeOf s' = w.treeOf s' := by
  cases op with
  | readView s form d path =>
    simp only [step]
    cases hv : viewAt w s form d with
    | none => rfl
    | some p =>
      obtain ⟨w', root⟩ := p
      unfold viewAt at hv
      cases hr : w.systems[s]? with
      | none => rw [hr] at hv; cases hv
      | some r =>
        rw [hr] at hv
        simp only at hv
        cases hf : memoFind ⟨s, form, d⟩ w.memo with
        | some v0 => rw [hf] at hv; cases hv; rfl
        | none => rw [hf] at hv; cases hv; rfl
  | readTree s path d =>
    simp only [step]
    cases hr : w.systems[s]? with
    | none => rfl
    | some r =>
      simp only
      cases r.tree with
      | none => rfl
      | some t => rfl
  | readFormula s traced form d path =>
    simp only [step]
    cases hv : viewAt w s form d with
    | none => rfl
    | some p =>
      obtain ⟨w', root⟩ := p
      have : w'.treeOf s' = w.treeOf s' := by
        unfold viewAt at hv
        cases hr : w.systems[s]? with
        | none => rw [hr] at hv; cases hv
        | some r =>
          rw [hr] at hv
          simp only at hv
          cases hf : memoFind ⟨s, form, d⟩ w.memo with
          | some v0 => rw [hf] at hv; cases hv; rfl
          | none => rw [hf] at hv; cases hv; rfl
      simp only
      cases traced with
      | true => simp only [if_true]; exact this
      | false => simp only [Bool.false_eq_true, if_false]; exact this
  | newReform b =>
    simp only [step]
    cases hr : w.systems[b]? with
    | none => rfl
    | some r => exact treeOf_append_of_lt w _ hs'
  | modify s f =>
    have hne : s' ≠ s := fun c => ht (by rw [c]; rfl)
    simp only [step]
    cases hr : w.systems[s]? with
    | none => rfl
    | some r =>
      simp only
      cases r.baseline with
      | none => rfl
      | some b =>
        simp only
        cases r.tree with
        | none => rfl
        | some t =>
          simp only
          cases f t with
          | error e => rfl
          | ok t' =>
            simp only
            by_cases hn : isNode t' = true
            · rw [if_pos hn]; exact treeOf_setTree_ne w.systems w.memo [] s s' t' hne
            · rw [if_neg hn]
  | reload s cs =>
    have hne : s' ≠ s := fun c => ht (by rw [c]; rfl)
    simp only [step]
    cases hr : w.systems[s]? with
    | none => rfl
    | some r => exact treeOf_setTree_ne w.systems w.memo [] s s' _ hne

theorem run_treeOf_other (w : World V) (ops : List (Op V)) (s' : Nat) (hs' : s' < w.systems.length)
    (ht : ∀ op ∈ ops, op.target ≠ some s') :
    (run w ops).treeOf s' = w.treeOf s' ∧ s' < (run w ops).systems.length := by
  induction ops generalizing w with
  | nil => exact ⟨rfl, hs'⟩
  | cons op ops ih =>
    have h1 := step_treeOf_other w op s' hs' (ht op (List.mem_cons_self ..))
    have h2 : s' < (step w op).1.systems.length := Nat.lt_of_lt_of_le hs' (step_length_le w op)
    obtain ⟨h3, h4⟩ := ih (step w op).1 h2 (fun o ho => ht o (List.mem_cons_of_mem _ ho))
    exact ⟨by show (run (step w op).1 ops).treeOf s' = _; rw [h3, h1], h4⟩

/-! ## Attribute paths commute with evaluation at an instant -/

theorem assoc_childrenAt_none (cs : List (String × PNode V)) (d : Int) (k : String)
    (h : assoc k cs = none) : assoc k (childrenAt cs d) = none := by
  induction cs with
  | nil => simp [childrenAt, assoc]
  | cons p r ih =>
    obtain ⟨k', c⟩ := p
    simp only [assoc] at h
    by_cases hk : k' = k
    · rw [if_pos hk] at h; cases h
    · rw [if_neg hk] at h
      simp only [childrenAt]
      split
      · simp only [assoc]; rw [if_neg hk]; exact ih h
      · exact ih h

/-- with distinct child names, looking a name up in the node at `d` is looking the child up in the
    tree and evaluating it at `d` -/
theorem assoc_childrenAt (cs : List (String × PNode V)) (d : Int) (k : String) (hwf : wfAll cs = true) :
    assoc k (childrenAt cs d) = (assoc k cs).bind (fun c => c.atInstant d) := by
  induction cs with
  | nil => simp [childrenAt, assoc]
  | cons p r ih =>
    obtain ⟨k', c⟩ := p
    simp only [wfAll, Bool.and_eq_true, Option.isNone_iff_eq_none] at hwf
    obtain ⟨⟨h1, h2⟩, h3⟩ := hwf
    simp only [childrenAt]
    by_cases hk : k' = k
    · subst hk
      split
      · rename_i s hs
        simp only [assoc, if_true, Option.bind_some, hs]
      · rename_i hs
        simp only [assoc, if_true, Option.bind_some, hs]
        exact assoc_childrenAt_none r d k' h1
    · split
      · simp only [assoc]; rw [if_neg hk, if_neg hk]; exact ih h3
      · simp only [assoc]; rw [if_neg hk]; exact ih h3

theorem wf_of_assoc {cs : List (String × PNode V)} {k : String} {c : PNode V} (hwf : wfAll cs = true)
    (h : assoc k cs = some c) : treeWF c = true := by
  induction cs with
  | nil => simp [assoc] at h
  | cons p r ih =>
    obtain ⟨k', c'⟩ := p
    simp only [wfAll, Bool.and_eq_true] at hwf
    simp only [assoc] at h
    by_cases hk : k' = k
    · rw [if_pos hk] at h; cases h; exact hwf.1.2
    · rw [if_neg hk] at h; exact ih hwf.2 h

theorem sdescend_val_cons (v : V) (k : String) (p : List String) :
    ∃ e, sdescend (Snap.val v) (k :: p) = .error e := ⟨_, rfl⟩

theorem sdescend_scale_cons (sc : ScaleAt) (k : String) (p : List String) :
    ∃ e, sdescend (Snap.scale sc : Snap V) (k :: p) = .error e := ⟨_, rfl⟩

/-- The parameter-object route against the view route, for a tree with distinct child names:
    * the object route yields a value `x` iff the view route yields `x`;
    * when the object route yields `None` (undefined at `d`) or fails (no such path), the view route
      fails. -/
theorem descend_agree (t : PNode V) (hwf : treeWF t = true) (d : Int) (s : Snap V)
    (hs : t.atInstant d = some s) (path : List String) :
    (∀ x, readTreeAt t path d = .ok (some x) ↔ sdescend s path = .ok x) ∧
    ((readTreeAt t path d = .ok none ∨ ∃ e, readTreeAt t path d = .error e) → ∃ e, sdescend s path = .error e) := by
  induction path generalizing t s with
  | nil =>
    simp only [readTreeAt, pdescend, sdescend, hs]
    refine ⟨fun x => ?_, ?_⟩
    · constructor
      · intro h; cases h; rfl
      · intro h; cases h; rfl
    · rintro (h | ⟨e, h⟩) <;> cases h
  | cons k p ih =>
    cases t with
    | param l =>
      simp only [PNode.atInstant] at hs
      cases hg : pget l d with
      | none => rw [hg] at hs; cases hs
      | some v =>
        rw [hg] at hs; cases hs
        simp only [readTreeAt, pdescend, pchild, sdescend, schild]
        refine ⟨fun x => ⟨fun h => (by cases h), fun h => (by cases h)⟩, fun _ => ⟨_, rfl⟩⟩
    | scale m bs =>
      simp only [PNode.atInstant] at hs
      cases hs
      simp only [readTreeAt, pdescend, pchild, sdescend, schild]
      refine ⟨fun x => ⟨fun h => (by cases h), fun h => (by cases h)⟩, fun _ => ⟨_, rfl⟩⟩
    | node cs =>
      simp only [PNode.atInstant] at hs
      cases hs
      simp only [treeWF] at hwf
      have hlook := assoc_childrenAt cs d k hwf
      simp only [readTreeAt, pdescend, pchild, sdescend, schild]
      cases hc : assoc k cs with
      | none =>
        rw [hc] at hlook
        simp only [Option.bind_none] at hlook
        rw [hlook]
        refine ⟨fun x => ⟨fun h => (by cases h), fun h => (by cases h)⟩, fun _ => ⟨_, rfl⟩⟩
      | some c =>
        rw [hc] at hlook
        simp only [Option.bind_some] at hlook
        have hcwf := wf_of_assoc hwf hc
        simp only
        cases hcs : c.atInstant d with
        | none =>
          rw [hcs] at hlook
          rw [hlook]
          simp only
          refine ⟨fun x => ?_, fun _ => ⟨_, rfl⟩⟩
          constructor
          · intro h
            -- the child is undefined at `d`: nothing below it is defined either
            exfalso
            cases c with
            | param l =>
              cases p with
              | nil =>
                simp only [pdescend] at h
                simp only [Except.ok.injEq] at h
                rw [hcs] at h; cases h
              | cons k2 p2 => simp only [pdescend, pchild] at h; cases h
            | scale m bs => simp only [PNode.atInstant] at hcs; cases hcs
            | node cs2 => simp only [PNode.atInstant] at hcs; cases hcs
          · intro h; cases h
        | some s' =>
          rw [hcs] at hlook
          rw [hlook]
          simp only
          have := ih c hcwf s' hcs
          simp only [readTreeAt] at this
          exact this

/-! ## The tracing wrapper -/

/-- the wrapper returns what the bare navigation returns and only appends to the log: at most one
    entry, dated `d`, carrying the value of the leaf that was reached -/
theorem tracedDescend_fst (d : Int) (name : String) (s : Snap V) (path : List String)
    (log : List (LogEntry V)) : (tracedDescend d name s path log).1 = sdescend s path := by
  induction path generalizing name s with
  | nil => rfl
  | cons k p ih =>
    simp only [tracedDescend, sdescend]
    cases hc : schild s k with
    | error e => rfl
    | ok c =>
      cases c with
      | node cs => exact ih _ _
      | val v => rfl
      | scale sc => rfl

theorem tracedDescend_snd (d : Int) (name : String) (s : Snap V) (path : List String)
    (log : List (LogEntry V)) :
    ∃ extra, (tracedDescend d name s path log).2 = log ++ extra ∧ extra.length ≤ 1 ∧
      ∀ e ∈ extra, e.date = d ∧ ∃ pre post, path = pre ++ post ∧ sdescend s pre = .ok (.val e.value) := by
  induction path generalizing name s with
  | nil => exact ⟨[], by simp [tracedDescend], by simp, by simp⟩
  | cons k p ih =>
    simp only [tracedDescend]
    cases hc : schild s k with
    | error e => exact ⟨[], by simp, by simp, by simp⟩
    | ok c =>
      cases c with
      | node cs =>
        obtain ⟨extra, h2, h3, h4⟩ := ih (composeName name k) (.node cs)
        refine ⟨extra, h2, h3, ?_⟩
        intro e he
        obtain ⟨hd, pre, post, hp, hpre⟩ := h4 e he
        refine ⟨hd, k :: pre, post, by rw [hp]; rfl, ?_⟩
        simp only [sdescend, hc]; exact hpre
      | val v =>
        refine ⟨[⟨name ++ "." ++ k, d, v⟩], rfl, by simp, ?_⟩
        intro e he
        simp only [List.mem_cons, List.not_mem_nil, or_false] at he
        subst he
        exact ⟨rfl, [k], p, rfl, by simp only [sdescend, hc]⟩
      | scale sc => exact ⟨[], by simp, by simp, by simp⟩

/-- the wrapper returns what the bare navigation returns and only appends to the log: at most one
    entry, dated `d`, carrying the value of the leaf that was reached -/
theorem tracedDescend_spec (d : Int) (name : String) (s : Snap V) (path : List String)
    (log : List (LogEntry V)) :
    (tracedDescend d name s path log).1 = sdescend s path ∧
    ∃ extra, (tracedDescend d name s path log).2 = log ++ extra ∧ extra.length ≤ 1 ∧
      ∀ e ∈ extra, e.date = d ∧ ∃ pre post, path = pre ++ post ∧ sdescend s pre = .ok (.val e.value) :=
  ⟨tracedDescend_fst d name s path log, tracedDescend_snd d name s path log⟩

theorem navTraced_spec (d : Int) (root : Option (Snap V)) (path : List String) (log : List (LogEntry V)) :
    (navTraced d root path log).1 = navView root path ∧
    ∃ extra, (navTraced d root path log).2 = log ++ extra ∧ extra.length ≤ 1 := by
  cases root with
  | none =>
    cases path with
    | nil => exact ⟨rfl, [], by simp [navTraced], by simp⟩
    | cons k p => exact ⟨rfl, [], by simp [navTraced], by simp⟩
  | some s =>
    obtain ⟨h1, extra, h2, h3, _⟩ := tracedDescend_spec d "" s path log
    simp only [navTraced, navView]
    cases ht : tracedDescend d "" s path log with
    | mk r l =>
      rw [ht] at h1 h2
      simp only at h1 h2
      cases r with
      | ok x => simp only; rw [← h1]; exact ⟨rfl, extra, h2, h3⟩
      | error e => simp only; rw [← h1]; exact ⟨rfl, extra, h2, h3⟩

end OFCore.PView
