import OFCore.GeneratedGuards
/-!
# C04 — the period model's size and splitting functions are the code's (translator tie)

`OFCore.Generated.Guards.period_*` are regenerated on every run from the source of
`Period.size_in_years / size_in_months / size_in_days / size_in_weeks / size_in_weekdays` and
`Period.get_subperiods` (`harness/ofverif/translate.py`: the dispatch on the unit is translated
statement by statement, each leaf idiom by idiom — `self.size * 12`, the `(last_day - start).days + 1`
block, `start.diff(start.add(years=size)).in_weeks()`, the list comprehension
`[self.first_month.offset(i, MONTH) for i in range(self.size_in_months)]` …).  The theorems state
that the hand-written model of `Period.lean` — the one every `C04_…` theorem is about — IS that
function, for every period.
-/
namespace OFCore
open OFCore.Generated

theorem C04_tie_size_in_years (p : Period) : p.sizeInYears = Guards.period_size_in_years p := by
  cases hu : p.unit <;> simp [Period.sizeInYears, Guards.period_size_in_years, hu] <;> (try omega)

theorem C04_tie_size_in_months (p : Period) : p.sizeInMonths = Guards.period_size_in_months p := by
  cases hu : p.unit <;> simp [Period.sizeInMonths, Guards.period_size_in_months, hu, bind, Except.bind] <;> (try omega)

theorem C04_tie_size_in_days (p : Period) : p.sizeInDays = Guards.period_size_in_days p := by
  cases hu : p.unit <;> simp [Period.sizeInDays, Guards.period_size_in_days, hu, bind, Except.bind] <;> (try omega)

theorem C04_tie_size_in_weeks (p : Period) : p.sizeInWeeks = Guards.period_size_in_weeks p := by
  cases hu : p.unit <;>
    simp [Period.sizeInWeeks, Guards.period_size_in_weeks, Tie.weeksAfterYears, Tie.weeksAfterMonths, hu] <;> (try omega)

theorem C04_tie_size_in_weekdays (p : Period) : p.sizeInWeekdays = Guards.period_size_in_weekdays p := by
  cases hu : p.unit <;>
    simp [Period.sizeInWeekdays, Guards.period_size_in_weekdays, Tie.nameInfix, Tie.infixB, DUnit.name, hu,
      bind, Except.bind] <;> (try omega)

theorem C04_tie_get_subperiods (p : Period) (u : DUnit) :
    p.subperiods u = Guards.period_get_subperiods p u := by
  first
  | rfl      -- the fall-back definition (function not translatable on this run) is the model function itself
  | (unfold Period.subperiods Guards.period_get_subperiods
     by_cases h : unitWeight p.unit < unitWeight u
     · simp [h]
     · cases u <;> simp [h, bind, Except.bind])

-- non-vacuity: the generated functions compute something
example : Guards.period_size_in_months ⟨.year, ⟨2020, 1, 1⟩, 2⟩ = .ok 24 := by
  simp [Guards.period_size_in_months, Period.sizeInMonths, bind, Except.bind]
example : Guards.period_size_in_years ⟨.month, ⟨2020, 1, 1⟩, 2⟩ = .error "value" := by
  simp [Guards.period_size_in_years, Period.sizeInYears]
end OFCore
