import OFCore.Lemmas.EngineStore
import OFCore.RuleSys
import OFCore.PeriodSpec
import OFCore.Lemmas.RuleSysCoherent
import OFCore.Lemmas.EngineTotal
import OFCore.Lemmas.EngineAdd
/-!
# C01 — a calculated value equals the rule system's meaning on the given inputs

`Engine.den` is the meaning (cache-less, context-free): input wins, no formula in force ⇒ the
declared default, otherwise the formula in force applied to recursively evaluated dependencies,
the result cast to the declared type.  `Engine.run` / `request` is the machine (cache, stack,
cycle check, spiral heuristic, purge).  `RuleSys.elabSys` computes which formula is in force.

The rule systems quantified over are those whose *variables* form a DAG (`VarRanked`), any
`max_spiral_loops ≥ 1`; all populations, inputs, states reachable by earlier requests.
-/
set_option linter.unusedSectionVars false
namespace OFCore
open OFCore.Engine OFCore.RuleSys

variable {P : Type} [DecidableEq P]

/-- From ANY consistent state (in particular any state reached by earlier requests), a top-level
    request returns the meaning, keeps the state consistent, leaves the stack empty and nothing
    marked for deletion. -/
theorem C01_calculate_eq_den (sys : Sys P) (hk : SlotCoherent sys) (rk : Nat → Nat) (hr : VarRanked sys rk) (hmsl : 1 ≤ sys.msl)
    (n : Nat) (s : St P) (hc : Cons sys s.cache) (hs : s.stack = []) (hi : s.inval = [])
    (v : Nat) (p : P) (r : Res) (hd : den sys n v p = some r) :
    ∃ s', request sys n s (v, p) = some (r, false, s') ∧ Cons sys s'.cache ∧ s'.stack = [] ∧ s'.inval = [] := by
  obtain ⟨s', h1, h2, h3, h4⟩ := run_eq_den sys hk rk hr hmsl n s v p r hc (by rw [hs]; intro j hj; cases hj) hi hd
  refine ⟨s', ?_, h2, by rw [h3, hs], h4⟩
  unfold request
  simp only [h1, h3, hs, if_true]
  rw [purge_of_inval_nil sys s' h4]

/-- Unconditional form: in a system whose variables form a DAG every node HAS a meaning, reached
    with `rk v + 1` units of fuel, and the request returns it.  (No "if the meaning exists".) -/
theorem C01_calculate_total (sys : Sys P) (hk : SlotCoherent sys) (rk : Nat → Nat) (hr : VarRanked sys rk)
    (hmsl : 1 ≤ sys.msl) (s : St P) (hc : Cons sys s.cache) (hs : s.stack = []) (hi : s.inval = [])
    (v : Nat) (p : P) :
    ∃ r s', den sys (rk v + 1) v p = some r ∧ request sys (rk v + 1) s (v, p) = some (r, false, s') ∧
      Cons sys s'.cache ∧ s'.stack = [] ∧ s'.inval = [] := by
  obtain ⟨r, hd⟩ := den_total sys rk hr (rk v) v p (Nat.le_refl _)
  obtain ⟨s', h1, h2, h3, h4⟩ := C01_calculate_eq_den sys hk rk hr hmsl (rk v + 1) s hc hs hi v p r hd
  exact ⟨r, s', hd, h1, h2, h3, h4⟩

/-- The same for every finite sequence of requests, successful or not: each one returns its
    meaning, whatever was requested before (every reachable state is consistent). -/
theorem C01_requests_eq_den (sys : Sys P) (hk : SlotCoherent sys) (rk : Nat → Nat) (hr : VarRanked sys rk) (hmsl : 1 ≤ sys.msl)
    (n : Nat) (krs : List (Node P × Res)) (hd : ∀ kr ∈ krs, den sys n kr.1.1 kr.1.2 = some kr.2) :
    ∀ s : St P, Cons sys s.cache → s.stack = [] → s.inval = [] →
      ∃ s', requests sys n s (krs.map (·.1)) = some (krs.map (·.2), s') ∧
        Cons sys s'.cache ∧ s'.stack = [] ∧ s'.inval = [] := by
  induction krs with
  | nil => intro s hc hs hi; exact ⟨s, rfl, hc, hs, hi⟩
  | cons kr krs ih =>
    intro s hc hs hi
    obtain ⟨s1, h1, hc1, hs1, hi1⟩ :=
      C01_calculate_eq_den sys hk rk hr hmsl n s hc hs hi kr.1.1 kr.1.2 kr.2 (hd kr List.mem_cons_self)
    obtain ⟨s2, h2, hc2, hs2, hi2⟩ := ih (fun kr' hkr' => hd kr' (List.mem_cons_of_mem _ hkr')) s1 hc1 hs1 hi1
    exact ⟨s2, by simp [requests, h1, h2], hc2, hs2, hi2⟩

/-- The hypothesis `SlotCoherent` is met by every elaborated declarative system whose eternal
    variables are well-formed (no end date, formulas in force at every date, reading only fixed
    periods or other eternal variables): values stored under ETERNITY mean the same whatever
    period they were requested for.  (Trivially met when no variable is eternal.) -/
theorem C01_elab_slotCoherent (d : Decl) (armed : List Nat) (hwf : EternalWF d) :
    SlotCoherent (elabSys d armed) := elabSys_slotCoherent d armed hwf

/-- the initial state is consistent -/
theorem C01_init_consistent (sys : Sys P) : Cons sys (St.init : St P).cache ∧
    (St.init : St P).stack = [] ∧ (St.init : St P).inval = [] :=
  ⟨by intro v p x g h; simp [St.init, lookup] at h, rfl, rfl⟩

/-- A supplied input takes precedence over the formula, in the meaning and in the machine. -/
theorem C01_input_precedence (sys : Sys P) (v : Nat) (p : P) (x : Val) (hin : sys.input v p = some x) :
    (∀ n, den sys (n+1) v p = some (.ok x)) ∧
    (∀ n s, lookup s.cache (sys.slot (v, p)) = none → run sys (n+1) s v p = some (.ok x, false, s)) := by
  constructor
  · intro n; simp [den, hin]
  · intro n s hl; simp [run, hl, hin]

/-- A variable with no formula in force (none declared, none started yet, or past its end date)
    yields its declared default, cast to its type. -/
theorem C01_default_when_no_formula (sys : Sys P) (v : Nat) (p : P) (hin : sys.input v p = none)
    (hf : sys.formula v p = none) : ∀ n, den sys (n+1) v p = some (.ok (sys.post v (sys.dflt v))) := by
  intro n; simp [den, hin, hf]

/-- Otherwise the value is the formula in force applied to the meanings of its reads, cast. -/
theorem C01_formula_applied (sys : Sys P) (v : Nat) (p : P) (e : Expr P) (hin : sys.input v p = none)
    (hf : sys.formula v p = some e) (n : Nat) (x : Val) (he : denE sys n e = some (.ok x)) :
    den sys (n+1) v p = some (.ok (sys.post v x)) := by
  simp [den, hin, hf, he]

/-! ## which formula is in force (`Variable.get_formula`) -/

theorem pickStep_spec (o : Int) (best : Option (Int × DExpr)) (f : Int × DExpr) (seen : List (Int × DExpr))
    (h1 : ∀ b, best = some b → b ∈ seen ∧ b.1 ≤ o ∧ ∀ f' ∈ seen, f'.1 ≤ o → f'.1 ≤ b.1)
    (h2 : best = none → ∀ f' ∈ seen, ¬ f'.1 ≤ o) :
    (∀ b, pickStep o best f = some b → b ∈ seen ++ [f] ∧ b.1 ≤ o ∧ ∀ f' ∈ seen ++ [f], f'.1 ≤ o → f'.1 ≤ b.1) ∧
    (pickStep o best f = none → ∀ f' ∈ seen ++ [f], ¬ f'.1 ≤ o) := by
  unfold pickStep
  by_cases hf : f.1 ≤ o
  · rw [if_pos hf]
    cases best with
    | none =>
      simp only
      refine ⟨?_, by intro h; cases h⟩
      intro b hb; injection hb with hb; subst hb
      refine ⟨by simp, hf, ?_⟩
      intro f' hf' hle
      rcases List.mem_append.1 hf' with hm | hm
      · exact absurd hle (h2 rfl f' hm)
      · simp at hm; subst hm; exact Int.le_refl _
    | some b0 =>
      obtain ⟨hm0, hle0, hmax0⟩ := h1 b0 rfl
      simp only
      by_cases hb0 : b0.1 ≤ f.1
      · rw [if_pos hb0]
        refine ⟨?_, by intro h; cases h⟩
        intro b hb; injection hb with hb; subst hb
        refine ⟨by simp, hf, ?_⟩
        intro f' hf' hle
        rcases List.mem_append.1 hf' with hm | hm
        · exact Int.le_trans (hmax0 f' hm hle) hb0
        · simp at hm; subst hm; exact Int.le_refl _
      · rw [if_neg hb0]
        refine ⟨?_, by intro h; cases h⟩
        intro b hb; injection hb with hb; subst hb
        refine ⟨by simp [hm0], hle0, ?_⟩
        intro f' hf' hle
        rcases List.mem_append.1 hf' with hm | hm
        · exact hmax0 f' hm hle
        · simp at hm; subst hm; omega
  · rw [if_neg hf]
    constructor
    · intro b hb
      obtain ⟨hm0, hle0, hmax0⟩ := h1 b hb
      refine ⟨by simp [hm0], hle0, ?_⟩
      intro f' hf' hle
      rcases List.mem_append.1 hf' with hm | hm
      · exact hmax0 f' hm hle
      · simp at hm; subst hm; exact absurd hle hf
    · intro hn f' hf'
      rcases List.mem_append.1 hf' with hm | hm
      · exact h2 hn f' hm
      · simp at hm; subst hm; exact hf

theorem pick_fold_spec (o : Int) : ∀ (l : List (Int × DExpr)) (best : Option (Int × DExpr)) (seen : List (Int × DExpr)),
    (∀ b, best = some b → b ∈ seen ∧ b.1 ≤ o ∧ ∀ f' ∈ seen, f'.1 ≤ o → f'.1 ≤ b.1) →
    (best = none → ∀ f' ∈ seen, ¬ f'.1 ≤ o) →
    (∀ b, l.foldl (pickStep o) best = some b → b ∈ seen ++ l ∧ b.1 ≤ o ∧ ∀ f' ∈ seen ++ l, f'.1 ≤ o → f'.1 ≤ b.1) ∧
    (l.foldl (pickStep o) best = none → ∀ f' ∈ seen ++ l, ¬ f'.1 ≤ o) := by
  intro l
  induction l with
  | nil => intro best seen h1 h2; simp only [List.foldl_nil, List.append_nil]; exact ⟨h1, h2⟩
  | cons f l ih =>
    intro best seen h1 h2
    obtain ⟨k1, k2⟩ := pickStep_spec o best f seen h1 h2
    have := ih (pickStep o best f) (seen ++ [f]) k1 k2
    simpa [List.append_assoc] using this

theorem pick_spec (v : Var) (o : Int) :
    (∀ e, pickFormula v o = some e →
        ∃ s, (s, e) ∈ v.formulas ∧ s ≤ o ∧ ∀ f ∈ v.formulas, f.1 ≤ o → f.1 ≤ s) ∧
    (pickFormula v o = none → ∀ f ∈ v.formulas, ¬ f.1 ≤ o) := by
  have := pick_fold_spec o v.formulas none [] (by intro b hb; cases hb) (by intro _ f hf; cases hf)
  simp only [List.nil_append] at this
  obtain ⟨h1, h2⟩ := this
  unfold pickFormula
  constructor
  · intro e he
    rw [Option.map_eq_some_iff] at he
    obtain ⟨b, hb, rfl⟩ := he
    obtain ⟨hm, hle, hmax⟩ := h1 b hb
    exact ⟨b.1, hm, hle, hmax⟩
  · intro hn
    rw [Option.map_eq_none_iff] at hn
    exact h2 hn

/-- The formula in force at a date is the one with the greatest start on or before it; there is
    none before the first start, and none after the variable's end date. -/
theorem C01_formula_in_force (v : Var) (o : Int) :
    (∀ e, formulaInForce v o = some e →
        (∀ en, v.endOrd = some en → o ≤ en) ∧
        ∃ s, (s, e) ∈ v.formulas ∧ s ≤ o ∧ ∀ f ∈ v.formulas, f.1 ≤ o → f.1 ≤ s) ∧
    (formulaInForce v o = none →
        (∃ en, v.endOrd = some en ∧ en < o) ∨ ∀ f ∈ v.formulas, ¬ f.1 ≤ o) := by
  have hp := pick_spec v o
  unfold formulaInForce
  split
  · rename_i en hen
    by_cases hgt : o > en
    · rw [if_pos hgt]
      exact ⟨fun e he => (by cases he), fun _ => Or.inl ⟨en, hen, hgt⟩⟩
    · rw [if_neg hgt]
      refine ⟨fun e he => ⟨?_, hp.1 e he⟩, fun hn => Or.inr (hp.2 hn)⟩
      intro en' h; rw [hen] at h; injection h with h; omega
  · rename_i hen
    refine ⟨fun e he => ⟨?_, hp.1 e he⟩, fun hn => Or.inr (hp.2 hn)⟩
    intro en h; rw [hen] at h; cases h

/-- Past its end date a variable has no formula in force, whatever formulas it declares. -/
theorem C01_default_past_end (v : Var) (o en : Int) (he : v.endOrd = some en) (ho : en < o) :
    formulaInForce v o = none := by
  unfold formulaInForce; rw [he]; simp only; rw [if_pos ho]

/-- A neutralised variable reads as its default everywhere, ignoring inputs and formulas. -/
theorem C01_neutralized_default (d : Decl) (armed : List Nat) (v : Nat) (vv : Var) (p : Period)
    (hv : d.vars[v]? = some vv) (hn : vv.neutralized = true) :
    ∀ n, den (elabSys d armed) (n+1) v p = some (.ok (List.replicate (d.size vv.entity) vv.dflt)) := by
  intro n
  have : (elabSys d armed).input v p = some (List.replicate (d.size vv.entity) vv.dflt) := by
    simp [elabSys, hv, hn]
  simp [den, this]

/-- The result of a formula (or the default) has the variable's declared type: it is a cast
    value; for a boolean variable every element is 0 or 1. -/
theorem C01_result_type (d : Decl) (armed : List Nat) (v : Nat) (vv : Var) (p : Period) (n : Nat) (x : Val)
    (hv : d.vars[v]? = some vv) (hin : (elabSys d armed).input v p = none)
    (h : den (elabSys d armed) n v p = some (.ok x)) :
    (∃ y, x = castTo vv.vtype y) ∧ (vv.vtype = .bool → ∀ a ∈ x, a = 0 ∨ a = 1) := by
  have hcast : ∃ y, x = castTo vv.vtype y := by
    cases n with
    | zero => simp [den] at h
    | succ n =>
      unfold den at h
      rw [hin] at h
      simp only at h
      have hpost : ∀ y, (elabSys d armed).post v y = castTo vv.vtype y := by intro y; simp [elabSys, hv]
      split at h
      · injection h with h; injection h with h; exact ⟨_, by rw [← h, hpost]⟩
      · split at h
        · cases h
        · cases h
        · injection h with h; injection h with h; exact ⟨_, by rw [← h, hpost]⟩
  refine ⟨hcast, ?_⟩
  intro hb a ha
  obtain ⟨y, rfl⟩ := hcast
  rw [hb] at ha
  simp only [castTo, List.mem_map] at ha
  obtain ⟨b, _, rfl⟩ := ha
  split <;> simp

/-- A request that comes back to a node still being computed is refused with a circular-
    definition error (instead of returning a number), and the error propagates to the caller. -/
theorem C01_cycle_refused (sys : Sys P) (n : Nat) (s : St P) (v : Nat) (p : P)
    (hl : lookup s.cache (sys.slot (v, p)) = none) (hin : sys.input v p = none) (hon : (v, p) ∈ s.stack) :
    run sys (n+1) s v p = some (.error .cycle, false, s) := by
  simp [run, hl, hin, hon]

/-- a variable that reads itself at the same period: the top-level request returns `cycle`,
    stores nothing and leaves the initial state as it was -/
theorem C01_self_cycle_refused (sys : Sys P) (n : Nat) (v : Nat) (p : P) (hin : sys.input v p = none)
    (hf : sys.formula v p = some (.ref v p)) (hmsl : 1 ≤ sys.msl) :
    request sys (n+2) St.init (v, p) = some (.error .cycle, false, St.init) := by
  have h1 := C01_cycle_refused sys n (⟨[], [(v, p)], []⟩ : St P) v p (by simp [lookup]) hin (by simp)
  unfold request
  simp only [run, St.init, lookup, hin, List.not_mem_nil, if_false, List.filter_nil, List.length_nil, hf, runE]
  have hne : sys.msl ≠ 0 := by omega
  simp [purge, hne]

/-- The ADD option.  `population(w, q, options=[ADD])` (and `calculate_add`) means the sum, in
    order, of the meanings of `w` over the pieces `q.get_subperiods(w.definition_period)`:
    whenever the guards pass (definition period not heavier than the requested one, neither side
    eternal) and every piece is a definition-period-long period with a value, the read has the
    element-wise sum of those values.  (That the pieces of an aligned same-family period are
    such periods and tile `q` exactly is `C04_subperiods_tile`.) -/
theorem C01_add_is_sum (d : Decl) (armed : List Nat) (n w : Nat) (wv : Var) (q s : Period) (ss : List Period)
    (val : Period → Val) (hw : d.vars[w]? = some wv)
    (hwt : ¬ unitWeight wv.unit > unitWeight q.unit) (hne : wv.unit ≠ .eternity) (hq : q.unit ≠ .eternity)
    (hsub : q.subperiods wv.unit = .ok (s :: ss))
    (hunit : ∀ t ∈ s :: ss, t.unit = wv.unit ∧ t.size = 1)
    (hval : ∀ t ∈ s :: ss, den (elabSys d armed) n w t = some (.ok (val t))) :
    denE (elabSys d armed) n (elabRead d w (.ok q) true)
      = some (.ok (ss.foldl (fun acc t => vecAdd acc (val t)) (val s))) := by
  have hserved : ∀ t ∈ s :: ss, servedPeriod wv.unit t = .ok t := by
    intro t ht
    obtain ⟨h1, h2⟩ := hunit t ht
    simp [servedPeriod, hne, h1, h2]
  have hf2 : ∀ a b, (elabSys d armed).f2 0 a b = vecAdd a b := by
    intro a b; simp [elabSys, f2, vecAdd]
  have hfold : ss.foldl (fun acc t => vecAdd acc (val t)) (val s)
      = ss.foldl (fun acc t => (elabSys d armed).f2 0 acc (val t)) (val s) := by simp [hf2]
  unfold elabRead
  simp only [hw, hwt, hne, hq, hsub, if_true, if_false]
  rw [hfold]
  apply denE_foldl_op2 (elabSys d armed) n 0 _ val ss
  · rw [hserved s (by simp)]
    simpa [denE] using hval s (by simp)
  · intro t ht
    rw [hserved t (by simp [ht])]
    simpa [denE] using hval t (by simp [ht])

/-- a monthly variable with inputs 10 and 20 summed over a two-month period: the hypotheses of
    `C01_add_is_sum` are met and the read means 30 -/
def addDemo : Decl :=
  { nP := 1, nG := 1, mem := [0], msl := 1,
    vars := [⟨0, .int, .month, 7, false, none, false, []⟩],
    inputs := [(0, ⟨.month, ⟨2018, 1, 1⟩, 1⟩, [10]), (0, ⟨.month, ⟨2018, 2, 1⟩, 1⟩, [20])] }

example : denE (elabSys addDemo []) 3 (elabRead addDemo 0 (.ok ⟨.month, ⟨2018, 1, 1⟩, 2⟩) true) = some (.ok [30]) := by
  have h := C01_add_is_sum addDemo [] 3 0 ⟨0, .int, .month, 7, false, none, false, []⟩
    ⟨.month, ⟨2018, 1, 1⟩, 2⟩ ⟨.month, ⟨2018, 1, 1⟩, 1⟩ [⟨.month, ⟨2018, 2, 1⟩, 1⟩]
    (fun t => if t.start.m = 1 then [10] else [20]) rfl (by decide) (by decide) (by decide) (by decide)
    (by intro t ht; simp at ht; rcases ht with rfl | rfl <;> exact ⟨rfl, rfl⟩)
    (by
      intro t ht; simp at ht
      rcases ht with rfl | rfl <;>
        simp [den, elabSys, addDemo, inputLookup, storageKey])
  simpa [vecAdd] using h

example : ∃ x, den (elabSys ⟨1, 1, [0], 1,
    [⟨0, .int, .month, 7, false, none, false, []⟩,
     ⟨0, .int, .month, 0, false, none, false, [(1, .op2 0 (.var 0 .same false) (.const 1))]⟩],
    [(0, ⟨.month, ⟨2018, 1, 1⟩, 1⟩, [10])], []⟩ []) 5 1 ⟨.month, ⟨2018, 1, 1⟩, 1⟩ = some (.ok x) ∧ x = [11] := by
  refine ⟨_, ?_, rfl⟩
  simp [den, denE, elabSys, formulaInForce, pickFormula, pickStep, elabExpr, elabRead, applyPT, servedPeriod,
    inputLookup, startOrdOf, storageKey, Decl.size, f2, castTo, ord, dby, dbm, isLeap, Int.max_def]


/-! ## the extended language: DIVIDE reads and requests, parameters (`RuleSys.xelabSys`)

Every theorem above about `Engine.den` / `request` is stated for an arbitrary node-level system
and therefore covers `xelabSys` as it covers `elabSys`; the theorems below say what the new forms
MEAN, that the extension changes nothing for the plain language, and that a declarative rule
system whose variables form a DAG meets the hypothesis `VarRanked` of `C01_calculate_total`. -/

/-- What a DIVIDE request is served by (`Simulation.calculate_divide`): it is accepted exactly for
    a dated variable and a one-unit-long period not longer than the variable's definition period;
    the variable is then computed for its definition-period-long period `c` around the start of
    the requested period, and the denominator is the (positive) number of requested units `c` is
    made of. -/
theorem C01_divide_target (d : Decl) (w : Nat) (q : Period) (k : Node Period) (m : Nat)
    (h : divideTarget d w q = .ok (k, m)) :
    ∃ wv c n, d.vars[w]? = some wv ∧ ¬ (unitWeight wv.unit < unitWeight q.unit) ∧ q.size = 1 ∧
      wv.unit ≠ .eternity ∧ q.unit ≠ .eternity ∧
      divPeriod wv.unit q = .ok c ∧ divDenominator q.unit c = .ok n ∧ 0 < n ∧ m = n.toNat ∧
      servedPeriod wv.unit c = .ok k.2 ∧ k.1 = w := divideTarget_spec d w q k m h

/-- The DIVIDE option.  `floor(population(w, q, options=[DIVIDE]))` means the meaning of `w` at that
    period, divided by the denominator, rounded down — element-wise. -/
theorem C01_divide_is_share (x : XDecl) (armed : List Nat) (n w : Nat) (q : Period) (k : Node Period) (m : Nat)
    (val : Val) (ht : divideTarget x.toDecl w q = .ok (k, m))
    (hval : den (xelabSys x armed) n k.1 k.2 = some (.ok val)) :
    denE (xelabSys x armed) n (elabDivide x.toDecl w (.ok q)) = some (.ok (val.map (fun a => a / (m : Int)))) ∧
    0 < m ∧ ∀ a : Int, (m : Int) * (a / (m : Int)) ≤ a ∧ a < (m : Int) * (a / (m : Int)) + (m : Int) := by
  obtain ⟨_, _, nn, _, _, _, _, _, _, _, hpos, hm, _, _⟩ := divideTarget_spec x.toDecl w q k m ht
  have hm0 : 0 < m := by omega
  refine ⟨?_, hm0, ?_⟩
  · simp only [elabDivide, ht, denE, hval]
    have : (xelabSys x armed).f1 = xf1 x.toDecl := rfl
    rw [this, xf1_div x.toDecl m hm0]
  · intro a
    have hmz : (0 : Int) < (m : Int) := by omega
    exact ⟨Int.mul_ediv_self_le (by omega), Int.lt_mul_ediv_self_add hmz⟩

/-- A DIVIDE request the guards refuse raises (it never returns a number). -/
theorem C01_divide_refused (x : XDecl) (armed : List Nat) (n w : Nat) (q : Period) (e : String)
    (ht : divideTarget x.toDecl w q = .error e) :
    denE (xelabSys x armed) n (elabDivide x.toDecl w (.ok q)) = some (.error .fault) := by
  simp only [elabDivide, ht, denE]

/-- Parameters.  The value `parameters(instant).<i>` is the dated value with the greatest start on
    or before the instant; there is none exactly when every value starts later. -/
theorem C01_param_in_force (tbl : List (Int × Int)) (o : Int) :
    (∀ k, paramAt tbl o = some k → ∃ s, (s, k) ∈ tbl ∧ s ≤ o ∧ ∀ f ∈ tbl, f.1 ≤ o → f.1 ≤ s) ∧
    (paramAt tbl o = none → ∀ f ∈ tbl, ¬ f.1 ≤ o) := paramAt_spec tbl o

/-- A parameter read in a formula is that value, broadcast to the entity's size; an unknown
    parameter, or one that has no value yet at the instant, raises. -/
theorem C01_param_read (x : XDecl) (armed : List Nat) (n ent i : Nat) (q : Period) :
    (∀ k, paramValue x i (.ok q) = some k →
      denE (xelabSys x armed) n (elabParam x ent i (.ok q)) = some (.ok (List.replicate (x.size ent) k))) ∧
    (paramValue x i (.ok q) = none →
      denE (xelabSys x armed) n (elabParam x ent i (.ok q)) = some (.error .fault)) := by
  constructor
  · intro k h; simp only [elabParam, h, denE]
  · intro h; simp only [elabParam, h, denE]

/-- … read at the START of the period handed to `parameters(…)` -/
theorem C01_param_at_period_start (x : XDecl) (i : Nat) (q : Period) (tbl : List (Int × Int))
    (hi : x.params[i]? = some tbl) (hq : q.unit ≠ .eternity) :
    paramValue x i (.ok q) = paramAt tbl (ord q.start) := by
  simp [paramValue, hi, hq]

/-- The extension is conservative: an expression of the plain language elaborates under `xelabSys`
    exactly as it does under `elabSys`. -/
theorem C01_extension_conservative (x : XDecl) (p : Period) (e : DExpr) (ent : Nat) (h : Plain e) :
    xelabExpr x ent p e = elabExpr x.toDecl ent p e := xelabExpr_plain x p e ent h

/-- "For all acyclic rule systems": a declarative system in which every formula of a variable reads
    only variables of strictly lower rank — through plain reads, ADD or DIVIDE reads, projections
    and aggregations, at whatever periods — meets `VarRanked`; when its eternal variables are
    well-formed (`XEternalWF`: no end date, undated formulas, reads at fixed periods or of other
    eternal variables; vacuous without eternal variable) it meets `SlotCoherent` too, so that EVERY
    request has a meaning and returns it, from every reachable state (no hypothesis left on the
    node-level system). -/
theorem C01_acyclic_declaration_total (x : XDecl) (armed : List Nat) (rk : Nat → Nat) (hr : DeclRanked x rk)
    (hwf : XEternalWF x) (hmsl : 1 ≤ x.msl)
    (s : St Period) (hc : Cons (xelabSys x armed) s.cache) (hs : s.stack = []) (hi : s.inval = [])
    (v : Nat) (p : Period) :
    ∃ r s', den (xelabSys x armed) (rk v + 1) v p = some r ∧
      request (xelabSys x armed) (rk v + 1) s (v, p) = some (r, false, s') ∧
      Cons (xelabSys x armed) s'.cache ∧ s'.stack = [] ∧ s'.inval = [] :=
  C01_calculate_total (xelabSys x armed) (xelabSys_slotCoherent x armed hwf) rk
    (xelabSys_varRanked x armed rk hr) hmsl s hc hs hi v p

/-- the extended systems meet the coherence hypothesis of every theorem above -/
theorem C01_xelab_slotCoherent (x : XDecl) (armed : List Nat) (hwf : XEternalWF x) :
    SlotCoherent (xelabSys x armed) := xelabSys_slotCoherent x armed hwf

/-- a yearly variable with inputs 25 and −25, a parameter worth 3 from 2017 and 5 from 2018-02-01,
    a monthly variable `floor(v0 / 12) + p`: at 2018-03 the share is ⌊25/12⌋ = 2 and ⌊−25/12⌋ = −3,
    the parameter 5 -/
def divDemo : XDecl :=
  { nP := 2, nG := 1, mem := [0, 0], msl := 1,
    vars := [⟨0, .float, .year, 0, false, none, false, []⟩,
             ⟨0, .int, .month, 0, false, none, false,
               [(1, .op2 0 (.op1 OP_DIVIDE (.var 0 .same false)) (.op1 OP_PARAM (.var 0 .same false)))]⟩],
    inputs := [(0, ⟨.year, ⟨2018, 1, 1⟩, 1⟩, [25, -25])],
    params := [[(736330, 3), (736726, 5)]] }

example : divideTarget divDemo.toDecl 0 ⟨.month, ⟨2018, 3, 1⟩, 1⟩ = .ok ((0, ⟨.year, ⟨2018, 1, 1⟩, 1⟩), 12) := by
  decide +kernel

example : paramValue divDemo 0 (.ok ⟨.month, ⟨2018, 3, 1⟩, 1⟩) = some 5 ∧
    paramValue divDemo 0 (.ok ⟨.month, ⟨2018, 1, 1⟩, 1⟩) = some 3 ∧
    paramValue divDemo 0 (.ok ⟨.month, ⟨2016, 1, 1⟩, 1⟩) = none := by decide +kernel

example : XEternalWF divDemo := by
  intro v vv hv hu
  match v, hv with
  | 0, hv => simp [divDemo] at hv; subst hv; cases hu
  | 1, hv => simp [divDemo] at hv; subst hv; cases hu
  | n+2, hv => simp [divDemo] at hv

example : DeclRanked divDemo (fun v => v) := by
  intro v vv hv f hf w hw
  match v, hv with
  | 0, hv => simp [divDemo] at hv; subst hv; simp at hf
  | 1, hv =>
    simp [divDemo] at hv; subst hv
    simp at hf; subst hf
    simp [dreads, OP_DIVIDE, OP_PARAM] at hw; subst hw; show 0 < 1; omega
  | n+2, hv => simp [divDemo] at hv

end OFCore
