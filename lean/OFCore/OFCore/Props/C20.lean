import OFCore.Lemmas.Api
/-!
# C20 — the web API and YAML tests report exactly what the engine computes

Theorems about the model `OFCore/Api.lean` of `openfisca_web_api/handlers.py` (`calculate`,
`trace`), the listings of `loader/parameters.py` / `loader/variables.py`, and the YAML test runner
(`tools/test_runner.py`, `tools.assert_near`) — repaired tree (fixes C20a, C20b, C20c). They hold
for every JSON document (any width, any depth), every engine and every test.

Vocabulary (model file and `Lemmas/Api.lean`):

* `Sim` — what a built simulation answers (the abstract engine): `vtype`, `calcv`, `index`,
  `canon`, `entities`; `System = J → Except String Sim` is builder + engine;
* `getPath p j` — the sub-tree of `j` under the keys `p`; `J.shape` — the tree with every leaf
  erased (keys, their order, array lengths); `Slot.path s = [plural, id, variable, period]`;
* `engineAt w s` — the engine's value for that entity instance, variable and period;
  `render t v` — that value as the handler writes it for a variable of value type `t`;
* `Holds w t x` — expectation `x` of test `t` holds of the engine `w`: a named instance exists and
  either the runner's options leave the variable out (`shouldIgnore`) or `HoldsValue`: period given,
  vector computed, margins defined, shapes broadcast, every pair `Within` the margins;
  `InMargins abs rel e a` — the statement's "within the stated absolute or relative margin".
-/
namespace OFCore
open Api

/-! ### a small world for the non-vacuity examples -/

private def exSim : Sim where
  vtype v := if v = "salary" then some .float else if v = "status" then some .enum
    else if v = "birth" then some .date else none
  calcv v p :=
    if v = "salary" then (if p = "2018-01" ∨ p = "month:2018-01" then .ok [.num (3/2), .num 0] else .error "period")
    else if v = "status" then .ok [.enum "owner", .enum "tenant"]
    else if v = "birth" then .ok [.date ⟨1980, 5, 6⟩, .date ⟨1970, 1, 1⟩]
    else .error "no such variable"
  index pl id := if pl = "persons" then (if id = "a" then some 0 else if id = "b" then some 1 else none) else none
  canon p := if p = "month:2018-01" then "2018-01" else p
  entities := [("persons", ["a", "b"])]
  singular k := k == "person"
  plural k := k == "persons"

private def exSys : System := fun _ => .ok exSim

private def exReq : J :=
  .obj [("persons", .obj [
    ("a", .obj [("salary", .obj [("2018-01", .null), ("2018-02", .num 7)]), ("birth", .obj [("ETERNITY", .null)])]),
    ("b", .obj [("status", .obj [("2018-01", .null)]), ("salary", .obj [("month:2018-01", .null)])])]),
   ("households", .obj [("h", .obj [("adults", .arr [.str "a", .str "b"])])])]

private def exOut : J :=
  .obj [("persons", .obj [
    ("a", .obj [("salary", .obj [("2018-01", .num (3/2)), ("2018-02", .num 7)]), ("birth", .obj [("ETERNITY", .str "1980-05-06")])]),
    ("b", .obj [("status", .obj [("2018-01", .str "tenant")]), ("salary", .obj [("month:2018-01", .num 0)])])]),
   ("households", .obj [("h", .obj [("adults", .arr [.str "a", .str "b"])])])]

/-! ### `/calculate` -/

/-- **The answer of `/calculate`.** Whenever the handler answers: (1) every slot left `null` (four
keys deep: entity plural / instance / variable / period) holds the engine's value for that
instance, variable and period, rendered in the variable's declared type; (2) every other leaf —
every supplied input, at any depth, and a `null` anywhere else — is read back unchanged;
(3) the key structure of the answer is that of the request: no key is added, removed or moved
(`shape`), and no path exists in the answer that did not exist in the request.
By induction over the JSON tree (`Lemmas/Api.lean`: `fillAt_get_slot`, `fillAt_get_leaf`,
`fillAt_shape`, `fillAt_get_none`). -/
theorem C20_fill_spec (w : Sim) (req out : J) (h : fill w req = .ok out) :
    (∀ s : Slot, getPath s.path req = some .null →
      ∃ t v, w.vtype s.var = some t ∧ engineAt w s = .ok v ∧ render t v = .ok (renderVal v) ∧
        getPath s.path out = some (renderVal v)) ∧
    (∀ p v, getPath p req = some v → v.isLeaf = true → (v.isNull = true → p.length ≠ 4) →
      getPath p out = some v) ∧
    out.shape = req.shape ∧
    (∀ p, getPath p req = none → getPath p out = none) := by
  refine ⟨?_, ?_, ?_, ?_⟩
  · intro s hs
    obtain ⟨r, hr, hg⟩ := fillAt_get_slot s.path 4 [] req out h hs rfl
    simp only [List.reverse_nil, List.nil_append, pathValue, slotOfPath_path] at hr
    obtain ⟨t, vec, i, v, ht, _, _, _, he, hrd⟩ := slotValue_ok hr
    obtain ⟨_, rfl⟩ := render_ok hrd
    exact ⟨t, v, ht, he, hrd, hg⟩
  · intro p v hg hl hn
    exact fillAt_get_leaf p 4 [] req out h v hg hl hn
  · exact fillAt_shape (pathValue_leafValued w) 4 [] req out h
  · intro p hg
    exact fillAt_get_none (pathValue_leafValued w) p 4 [] req out h hg

example : fill exSim exReq = .ok exOut := by rfl
example : getPath ["persons", "b", "status", "2018-01"] exReq = some .null ∧
    engineAt exSim ⟨"persons", "b", "status", "2018-01"⟩ = .ok (.enum "tenant") := by
  constructor <;> rfl

/-- **The handler answers exactly when the engine has a value for every requested slot** (and
otherwise errs: it never invents a value). -/
theorem C20_fill_ok_iff (w : Sim) (req : J) :
    (∃ out, fill w req = .ok out) ↔ ∀ s ∈ nullSlots req, ∃ j, slotValue w s = .ok j := by
  unfold fill
  rw [fillAt_ok_iff]
  constructor
  · intro h s hs
    obtain ⟨r, hr⟩ := h s.path (mem_nullSlots hs)
    simp only [pathValue, slotOfPath_path] at hr
    exact ⟨r, hr⟩
  · intro h p hp
    cases hs : slotOfPath p with
    | some s =>
      obtain ⟨j, hj⟩ := h s (mem_nullSlots_of_path hp hs)
      exact ⟨j, by simp only [pathValue, hs, hj]⟩
    | none =>
      -- a path enumerated four keys deep has four keys
      exfalso
      have hlen : ∀ (d : Nat) (path : List String) (j : J), ∀ q ∈ nullPaths d path j, q.length = path.length + d := by
        intro d
        induction d with
        | zero => intro path j q hq; cases j <;> simp_all [nullPaths]
        | succ d ih =>
          intro path j q hq
          cases j with
          | obj kvs =>
            simp only [nullPaths] at hq
            induction kvs with
            | nil => simp [nullPathsKV] at hq
            | cons kv r ihr =>
              obtain ⟨k, v⟩ := kv
              simp only [nullPathsKV, List.mem_append] at hq
              rcases hq with hq | hq
              · have := ih (k :: path) v q hq
                simp only [List.length_cons] at this; omega
              · exact ihr hq
          | null => simp [nullPaths] at hq
          | bool b => simp [nullPaths] at hq
          | int n => simp [nullPaths] at hq
          | num x => simp [nullPaths] at hq
          | str x => simp [nullPaths] at hq
          | arr xs => simp [nullPaths] at hq
      have := hlen 4 [] req p hp
      match p, this, hs with
      | [a, b, c, d], _, hs => simp [slotOfPath] at hs

example : (∃ out, fill exSim exReq = .ok out) ∧
    ¬ ∃ out, fill exSim (.obj [("persons", .obj [("a", .obj [("salary", .obj [("2018", .null)])])])]) = .ok out := by
  refine ⟨⟨exOut, by rfl⟩, ?_⟩
  rintro ⟨out, h⟩
  have : fill exSim (.obj [("persons", .obj [("a", .obj [("salary", .obj [("2018", .null)])])])]) = .error "period" := by rfl
  rw [this] at h; cases h

/-- **Supplied inputs are returned unchanged.** (1) Every non-null leaf of the request is read
back identically from the answer; (2) a request without null slot is answered by itself,
whatever the engine; (3) an answer is a fixed point of every handler: posted again, to any
engine, it comes back as it is (all of it is now supplied input, no null slot is left). -/
theorem C20_fill_idempotent_on_inputs (w : Sim) (req out : J) (h : fill w req = .ok out) :
    (∀ p v, getPath p req = some v → v.isLeaf = true → v.isNull = false → getPath p out = some v) ∧
    (nullSlots req = [] → out = req) ∧
    (nullSlots out = [] ∧ ∀ w' : Sim, fill w' out = .ok out) := by
  have hleft := fillAt_no_slots_left (pathValue_leafValued w) 4 [] [] req out h
  refine ⟨?_, ?_, ?_, ?_⟩
  · intro p v hg hl hn
    exact fillAt_get_leaf p 4 [] req out h v hg hl (fun hv => by rw [hn] at hv; cases hv)
  · intro hns
    -- every enumerated path four keys deep is a slot, so no slot means no path
    have hnp : nullPaths 4 [] req = [] := by
      cases hp : nullPaths 4 [] req with
      | nil => rfl
      | cons p ps =>
        exfalso
        have hmem : p ∈ nullPaths 4 [] req := by rw [hp]; simp
        obtain ⟨r, hr⟩ := (fillAt_ok_iff 4 [] req).mp ⟨out, h⟩ p hmem
        cases hs : slotOfPath p with
        | none => simp only [pathValue, hs] at hr; cases hr
        | some s =>
          have := mem_nullSlots_of_path hmem hs
          rw [hns] at this; cases this
    have := fillAt_of_no_slots (f := pathValue w) 4 [] req hnp
    unfold fill at h
    rw [this] at h; cases h; rfl
  · unfold nullSlots; rw [hleft]; rfl
  · intro w'
    exact fillAt_of_no_slots 4 [] out hleft

example : fill exSim exOut = .ok exOut ∧
    getPath ["persons", "a", "salary", "2018-02"] exReq = some (.num 7) ∧
    getPath ["persons", "a", "salary", "2018-02"] exOut = some (.num 7) := by
  refine ⟨by rfl, by rfl, by rfl⟩

/-- **`render` preserves the declared type family**: a value of the variable's family is rendered
(never refused) as a non-null JSON leaf of the kind of that family — Enum: the member's *name* as
a string; int: an integer literal; float: a number; bool: a boolean; date and str: a string — and
a value of another family is refused. -/
theorem C20_render_type (t : VType) (v : Val) :
    (v.family = t → ∃ j, render t v = .ok j ∧ j = renderVal v ∧ jsonKind t j = true ∧
      j.isLeaf = true ∧ j.isNull = false) ∧
    (v.family ≠ t → ∃ e, render t v = .error e) ∧
    (∀ name, renderVal (.enum name) = .str name) ∧ (∀ d, renderVal (.date d) = .str d.iso) := by
  refine ⟨?_, ?_, fun _ => rfl, fun _ => rfl⟩
  · rintro rfl
    refine ⟨renderVal v, render_of_family v, rfl, ?_, renderVal_isLeaf v, renderVal_not_null v⟩
    cases v <;> rfl
  · intro h
    exact ⟨"value of another type family", by simp only [render, if_neg h]⟩

example : render .enum (.enum "owner") = .ok (.str "owner") ∧ render .float (.num (3/2)) = .ok (.num (3/2)) ∧
    render .date (.date ⟨1980, 5, 6⟩) = .ok (.str "1980-05-06") ∧ render .str (.str "") = .ok (.str "") ∧
    (∃ e, render .int (.bool true) = .error e) := by
  refine ⟨by rfl, by rfl, by rfl, by rfl, ⟨_, by rfl⟩⟩

/-! ### `/trace` -/

/-- **`/trace` reports the values `/calculate` fills in.** For one request and one engine (which
reads a period through its canonical form, `Coherent`, and returns vectors of the declared type,
`Typed`): whenever `/calculate` answers, `/trace` answers too; its `entitiesDescription` is the
simulation's, its `requestedCalculations` are the null slots in document order with the caller's
spelling of the period, and for every null slot the trace entry `variable<canonical period>` holds
a vector whose element at the instance's index *is* the value `/calculate` wrote in that slot. -/
theorem C20_trace_equals_calculate (sys : System) (req out : J) (w : Sim) (hw : sys req = .ok w)
    (hc : Coherent w) (hty : Typed w) (h : calculateH sys req = .ok out) :
    ∃ tr, traceH sys req = .ok tr ∧ tr.entitiesDescription = w.entities ∧
      tr.requestedCalculations = (nullSlots req).map (fun s => (s.var, s.period)) ∧
      ∀ s : Slot, getPath s.path req = some .null →
        ∃ js i j, lookupT (s.var, w.canon s.period) tr.trace = some js ∧ w.index s.plural s.id = some i ∧
          js[i]? = some j ∧ getPath s.path out = some j := by
  simp only [calculateH, hw] at h
  have hall : ∀ s ∈ nullSlots req, ∃ vec t, w.calcv s.var s.period = .ok vec ∧ w.vtype s.var = some t := by
    intro s hs
    obtain ⟨j, hj⟩ := (C20_fill_ok_iff w req).mp ⟨out, h⟩ s hs
    obtain ⟨t, vec, _, _, ht, hv, _⟩ := slotValue_ok hj
    exact ⟨vec, t, hv, ht⟩
  obtain ⟨tr, htr⟩ := traceEntries_ok hty (nullSlots req) [] hall
  obtain ⟨hinv, _, hkeys⟩ := traceEntries_spec hc (nullSlots req) [] tr htr (traceInv_nil w)
  refine ⟨⟨tr, w.entities, (nullSlots req).map fun s => (s.var, s.period)⟩, ?_, rfl, rfl, ?_⟩
  · simp only [traceH, hw, htr]
  · intro s hs
    have hmem : s ∈ nullSlots req := by
      have := mem_nullPaths_of_get s.path 4 [] req hs rfl
      exact mem_nullSlots_of_path (by simpa using this) (slotOfPath_path s)
    obtain ⟨js, hjs⟩ := hkeys s hmem
    obtain ⟨r, hr, hg⟩ := fillAt_get_slot s.path 4 [] req out h hs rfl
    simp only [List.reverse_nil, List.nil_append, pathValue, slotOfPath_path] at hr
    obtain ⟨t, vec, i, v, ht, hv, hi, hgi, _, hrd⟩ := slotValue_ok hr
    have hser := hinv s.var (w.canon s.period) js hjs s.period rfl vec t hv ht
    obtain ⟨j, hj, hji⟩ := serializeVec_get t vec js hser i v hgi
    rw [hrd] at hj; cases hj
    exact ⟨js, i, r, hjs, hi, hji, hg⟩

private theorem exSim_coherent : Coherent exSim := by
  intro v p p' h
  simp only [exSim] at h ⊢
  by_cases h1 : p = "month:2018-01" <;> by_cases h2 : p' = "month:2018-01" <;> simp_all

private theorem exSim_typed : Typed exSim := by
  intro v p vec t hv ht x hx
  simp only [exSim] at hv ht
  by_cases h1 : v = "salary"
  · rw [if_pos h1] at ht hv; cases ht
    by_cases hp : p = "2018-01" ∨ p = "month:2018-01"
    · rw [if_pos hp] at hv; cases hv
      simp at hx; rcases hx with rfl | rfl <;> rfl
    · rw [if_neg hp] at hv; cases hv
  · rw [if_neg h1] at ht hv
    by_cases h2 : v = "status"
    · rw [if_pos h2] at ht hv; cases ht; cases hv
      simp at hx; rcases hx with rfl | rfl <;> rfl
    · rw [if_neg h2] at ht hv
      by_cases h3 : v = "birth"
      · rw [if_pos h3] at ht hv; cases ht; cases hv
        simp at hx; rcases hx with rfl | rfl <;> rfl
      · rw [if_neg h3] at ht; cases ht

example : exSys exReq = .ok exSim ∧ Coherent exSim ∧ Typed exSim ∧ calculateH exSys exReq = .ok exOut ∧
    (∃ tr, traceH exSys exReq = .ok tr ∧
      lookupT ("salary", "2018-01") tr.trace = some [.num (3/2), .num 0] ∧
      tr.requestedCalculations = [("salary", "2018-01"), ("birth", "ETERNITY"), ("status", "2018-01"), ("salary", "month:2018-01")]) := by
  refine ⟨rfl, exSim_coherent, exSim_typed, by rfl, ⟨_, by rfl, by rfl, by rfl⟩⟩

/-! ### one application, many requests -/

/-- **The answer to a request does not depend on any request served before it.** In the model a
route is a function of the system and of the request alone (`respond`), the application carries no
state, so serving a sequence is a map: the `i`-th answer is `respond sys rᵢ`, and the answer to `r`
after any two histories is the same. This theorem is about the *model*: that the real handler is
stateless too (a fresh `Simulation` per request on a shared read-only system, no module-level
cache leaking from one request into the next) is **carried by the correspondence**, which replays
request sequences in several orders against one application and against a fresh application per
request. -/
theorem C20_handler_pure (sys : System) (h₁ h₂ : List Req) (r : Req) :
    (serveAll sys (h₁ ++ [r])).getLast? = some (respond sys r) ∧
    (serveAll sys (h₁ ++ [r])).getLast? = (serveAll sys (h₂ ++ [r])).getLast? ∧
    (∀ (rs : List Req) (i : Nat), (serveAll sys rs)[i]? = rs[i]?.map (respond sys)) := by
  have key : ∀ h : List Req, (serveAll sys (h ++ [r])).getLast? = some (respond sys r) := by
    intro h; simp [serveAll]
  exact ⟨key h₁, by rw [key h₁, key h₂], fun rs i => by simp [serveAll]⟩

example : (serveAll exSys [.calculate exOut, .trace exReq, .calculate exReq]).length = 3 := by rfl

/-! ### listings -/

/-- **Listings** (what is modelled). `/parameter/<id>`: the served `values` map holds exactly the
dated values of the parameter, and reading it the way the API documents (latest start date on or
before the day) gives the value the engine uses on every day, `null`s included. `/variable/<id>`:
the served `formulas` map holds the formulas by start date plus `end + 1 day ↦ null`, and reading
it the same way gives the formula `Variable.get_formula` selects on every day — for a variable
whose formulas start on or before its `end` (which `Variable.set_formulas` enforces).
**Left to the correspondence**: scales (`build_api_scale`; not binding on trees with interior
`null` thresholds, where the listing says "stopped" when only the first bracket stops and omits the
date at which a threshold becomes `null`, while the engine just drops such brackets — outside the
statement's quantifier), descriptions, metadata, units, source links, `/spec`.
Full statement not proved: "the parameter and variable listings show the values and dated
formulas the engine actually uses" for *every* kind of parameter (scales are missing). -/
theorem C20_listings_partial {V F : Type} :
    (∀ (l : List (Param.Entry V)), Param.Sorted l →
      (∀ d v, (d, v) ∈ servedHistory l ↔ ∃ e ∈ l, e.date = d ∧ e.val = v) ∧
      ∀ d, apiGetValue d (servedHistory l) = Param.pget l d) ∧
    (∀ (formulas : List (Int × F)) (stop : Option Int), formulas.Pairwise (fun a b => a.1 < b.1) →
      (∀ e, stop = some e → ∀ x ∈ formulas, x.1 ≤ e) →
      ∀ d, apiFormulaAt d (servedFormulas formulas stop) = engineFormulaAt formulas stop d) := by
  refine ⟨fun l hl => ⟨fun d v => ?_, apiGetValue_servedHistory l hl⟩,
    fun formulas stop hp hs d => apiFormulaAt_served formulas hp stop hs d⟩
  simp only [servedHistory, List.mem_map, Prod.mk.injEq]

example : Param.Sorted ([⟨20, some 5⟩, ⟨10, none⟩, ⟨1, some 3⟩] : List (Param.Entry Nat)) ∧
    apiGetValue 15 (servedHistory ([⟨20, some 5⟩, ⟨10, none⟩, ⟨1, some 3⟩] : List (Param.Entry Nat))) = none ∧
    apiGetValue 9 (servedHistory ([⟨20, some 5⟩, ⟨10, none⟩, ⟨1, some 3⟩] : List (Param.Entry Nat))) = some 3 ∧
    servedFormulas [(1, "f"), (100, "g")] (some 200) = [(1, some "f"), (100, some "g"), (201, none)] ∧
    apiFormulaAt 150 (servedFormulas [(1, "f"), (100, "g")] (some 200)) = some "g" ∧
    engineFormulaAt [(1, "f"), (100, "g")] (some 200) 201 = none := by decide

/-- **Listings: scales.**  `/parameter/<scale>` serves one row `{threshold: value}` per date at which
something changes in the scale (`buildApiScale`).  For every day `d`: let `D` be the latest such date
on or before `d`; if some bracket has a threshold at `D` then reading the listing the way the API
documents (the row of the latest date on or before `d`) gives exactly the brackets in force on day
`d` — for every bracket whose threshold is not null on day `d`, its threshold and value on day `d`,
read from the histories the way the engine reads them (`apiGetValue` = `Param.pget`,
`C20_listings_partial`) — and before the first date of the scale the listing shows nothing and no
bracket is in force.  When the first bracket is not stopped the served document is these rows.
**Not covered** (the deviation recorded in DESIGN §7, outside the statement's quantifier): a date at
which EVERY threshold is null gets no row (the reader goes on seeing the previous one), and a scale
whose FIRST bracket's latest threshold is null is shown as stopped (`null`) from that date on whatever
the other brackets say. -/
theorem C20_listing_scale (brs : List ApiBracket) (d : Int) :
    (∀ D, D ∈ bracketDates brs → D ≤ d → (∀ k ∈ bracketDates brs, k ≤ d → k ≤ D) → scaleRow D brs ≠ [] →
      apiGetValue d (servedScale brs) = some (scaleRow d brs)) ∧
    ((∀ k ∈ bracketDates brs, ¬ k ≤ d) → apiGetValue d (servedScale brs) = none ∧ scaleRow d brs = []) ∧
    (∀ b0 r, brs = b0 :: r → (∀ dd, latestEntry b0.thresholds ≠ some (dd, none)) → buildApiScale brs = servedScale brs) := by
  refine ⟨(servedScale_read brs d).1, (servedScale_read brs d).2, ?_⟩
  intro b0 r hb hns
  subst hb
  unfold buildApiScale
  cases hl : latestEntry b0.thresholds with
  | none => simp only [hl]
  | some p =>
    obtain ⟨dd, v⟩ := p
    cases v with
    | none => exact absurd hl (hns dd)
    | some x => simp only [hl]

private def exScale : List ApiBracket :=
  [⟨[(10, some 0)], [(10, some (1/10)), (30, some (1/5))]⟩, ⟨[(20, some 1000)], [(20, some (3/10))]⟩]

example : bracketDates exScale = [10, 10, 30, 20, 20] ∧
    buildApiScale exScale = [(10, some [(0, some (1/10))]), (30, some [(0, some (1/5)), (1000, some (3/10))]),
      (20, some [(0, some (1/10)), (1000, some (3/10))])] ∧
    apiScaleAt 25 (buildApiScale exScale) = some [(0, 1/10), (1000, 3/10)] ∧
    apiScaleAt 9 (buildApiScale exScale) = none ∧ scaleRow 25 exScale = scaleRow 20 exScale := by decide +kernel

/-! ### YAML tests -/

/-- **A YAML test passes exactly when every expected output lies within the margins of the
engine's value.** `verdict = pass` iff the simulation is built, the `output` section is a
well-formed set of expectations (`expectations`: the three layouts normalised) and every one of
them `Holds` of the engine; in every other case — a value beyond a margin, an engine error, an
unknown key or instance, an undefined margin, a shape that does not broadcast — it fails. -/
theorem C20_verdict_iff (built : Except String Sim) (t : YTest) :
    (verdict built t = true ↔
      ∃ w xs, built = .ok w ∧ expectations w t = .ok xs ∧ ∀ x ∈ xs, Holds w t x) ∧
    (verdict built t = false ↔
      ¬ ∃ w xs, built = .ok w ∧ expectations w t = .ok xs ∧ ∀ x ∈ xs, Holds w t x) := by
  have key : verdict built t = true ↔
      ∃ w xs, built = .ok w ∧ expectations w t = .ok xs ∧ ∀ x ∈ xs, Holds w t x := by
    cases built with
    | error e => simp [verdict]
    | ok w =>
      simp only [verdict, verdictSim, Except.ok.injEq, exists_and_left, exists_eq_left']
      cases hx : expectations w t with
      | error e => simp
      | ok xs =>
        simp only [List.all_eq_true, Except.ok.injEq, exists_eq_left']
        constructor
        · intro h x hx; exact (checkExpectation_iff w t x).mp (h x hx)
        · intro h x hx; exact (checkExpectation_iff w t x).mpr (h x hx)
  refine ⟨key, ?_⟩
  rw [← key]
  cases verdict built t <;> simp

/-- **The margins, exactly.** With no margin stated the values must be equal; a stated absolute
margin `m` accepts a distance of exactly `m` and refuses anything beyond (`<=`, not `<`); a
stated relative margin `r` accepts a distance of exactly `|r · expected|` and refuses anything
beyond; with both stated both must hold. `near` is the decision of `assert_near`, `InMargins` the
statement's wording. -/
theorem C20_verdict_margins (abs rel : Option Rat) (e a : Rat) :
    (near abs rel e a = true ↔ InMargins abs rel e a) ∧
    (near none none e a = true ↔ e = a) ∧
    (∀ m : Rat, 0 ≤ m → near (some m) none e (e + m) = true ∧ near (some m) none e (e - m) = true ∧
      ∀ δ : Rat, 0 < δ → near (some m) none e (e + m + δ) = false ∧ near (some m) none e (e - m - δ) = false) ∧
    (∀ r : Rat, near none (some r) e (e + absQ (r * e)) = true ∧ near none (some r) e (e - absQ (r * e)) = true ∧
      ∀ δ : Rat, 0 < δ → near none (some r) e (e + absQ (r * e) + δ) = false ∧
        near none (some r) e (e - absQ (r * e) - δ) = false) := by
  refine ⟨near_iff abs rel e a, ?_, ?_, ?_⟩
  · rw [near_iff]; unfold InMargins
    constructor
    · intro h; exact h.1 rfl rfl
    · intro h; exact ⟨fun _ _ => h, fun m hm => (by cases hm), fun r hr => (by cases hr)⟩
  · intro m hm
    have hn : ∀ x, near (some m) none e x = decide (absQ (e - x) ≤ m) := by intro x; simp [near]
    refine ⟨?_, ?_, fun δ hδ => ⟨?_, ?_⟩⟩
    · rw [hn, decide_eq_true_eq, absQ_le_iff]; constructor <;> grind
    · rw [hn, decide_eq_true_eq, absQ_le_iff]; constructor <;> grind
    · rw [hn, decide_eq_false_iff_not, absQ_le_iff]; grind
    · rw [hn, decide_eq_false_iff_not, absQ_le_iff]; grind
  · intro r
    have hn : ∀ x, near none (some r) e x = decide (absQ (e - x) ≤ absQ (r * e)) := by intro x; simp [near]
    have h0 := absQ_nonneg (r * e)
    refine ⟨?_, ?_, fun δ hδ => ⟨?_, ?_⟩⟩
    · rw [hn, decide_eq_true_eq, absQ_le_iff]; constructor <;> grind
    · rw [hn, decide_eq_true_eq, absQ_le_iff]; constructor <;> grind
    · rw [hn, decide_eq_false_iff_not, absQ_le_iff]; grind
    · rw [hn, decide_eq_false_iff_not, absQ_le_iff]; grind

private def exTest (out : List (String × Y)) (abs : Option Rat) : YTest :=
  { period := some "2018-01", absM := ⟨some abs, []⟩, relM := ⟨some none, []⟩, output := some out }

example : verdict (.ok exSim) (exTest [("salary", .list [.num 2, .int 0])] (some (1/2))) = true ∧          -- at the margin
    verdict (.ok exSim) (exTest [("salary", .list [.num (33/16), .int 0])] (some (1/2))) = false ∧           -- just beyond
    verdict (.ok exSim) (exTest [("salary", .list [.num (3/2), .int 0])] none) = true ∧                      -- equal, no margin
    verdict (.ok exSim) (exTest [("persons", .map [("b", .map [("status", .leaf (.str "tenant"))])])] none) = true ∧
    verdict (.ok exSim) (exTest [("person", .map [("birth", .list [.date ⟨1980, 5, 6⟩, .str "1970-01-01"])])] none) = true ∧
    verdict (.ok exSim) (exTest [("nope", .leaf (.int 1))] none) = false ∧
    verdict (.error "refused") (exTest [] none) = false ∧
    -- a value beyond the margin of a variable the runner is told to ignore does not fail the test …
    verdict (.ok exSim) { exTest [("salary", .list [.num 9, .int 0])] none with ignore := some ["salary"] } = true ∧
    verdict (.ok exSim) { exTest [("salary", .list [.num 9, .int 0])] none with only := some ["status"] } = true ∧
    verdict (.ok exSim) { exTest [("salary", .list [.num 9, .int 0])] none with only := some ["salary"] } = false ∧
    -- … but an unknown instance still does
    verdict (.ok exSim) { exTest [("persons", .map [("zz", .map [("salary", .leaf (.int 0))])])] none with
      ignore := some ["salary"] } = false := by decide +kernel

/-- **The three layouts of the same expectations give the same verdict.** For a variable `var` of
an entity with singular key `sg` and plural key `pl` (neither is a variable name), a population
`ids` (the instance `ids[k]` has index `k`, calculated vectors have one element per instance) and
one expected value per instance `es` (classified alike by `_is_number`: all numbers or none),
optionally under an explicit period `pw`: the test written by variable
(`{var: [e₀, e₁, …]}`), by entity (`{sg: {var: [e₀, e₁, …]}}`) and by entity instance
(`{pl: {id₀: {var: e₀}, id₁: {var: e₁}, …}}`) pass or fail together. -/
theorem C20_layouts_agree (w : Sim) (t : YTest) (var sg pl : String) (ty : VType) (pw : Option String)
    (ids : List String) (es : List Exp)
    (hvar : w.vtype var = some ty)
    (hsg : w.vtype sg = none ∧ w.singular sg = true)
    (hpl : w.vtype pl = none ∧ w.singular pl = false ∧ w.plural pl = true)
    (hne : ids ≠ []) (hlen : es.length = ids.length)
    (hidx : ∀ k (h : k < ids.length), w.index pl ids[k] = some k)
    (hvec : ∀ per vec, w.calcv var per = .ok vec → vec.length = ids.length)
    (hhom : Homogeneous es) :
    verdictSim w { t with output := some (outByEntity sg var pw es) } =
      verdictSim w { t with output := some (outByVariable var pw es) } ∧
    verdictSim w { t with output := some (outByInstance pl var pw ids es) } =
      verdictSim w { t with output := some (outByVariable var pw es) } := by
  have hv1 := expectations_byVariable w t var pw es (by rw [hvar]; rfl)
  have hv2 := expectations_byEntity w t sg var pw es hsg.1 hsg.2
  have hv3 := expectations_byInstance w t pl var pw ids es hpl.1 hpl.2.1 hpl.2.2
  -- checkExpectation only reads the margins and the period of the test, not its output
  have hck : ∀ (o : Option (List (String × Y))) x, checkExpectation w { t with output := o } x = checkExpectation w t x :=
    fun _ _ => rfl
  constructor
  · simp only [verdictSim, hv1, hv2, List.all_cons, List.all_nil, Bool.and_true, hck]
    rfl
  · simp only [verdictSim, hv1, hv3, List.all_cons, List.all_nil, Bool.and_true]
    have hfun : checkExpectation w { t with output := some (outByInstance pl var pw ids es) } =
        checkExpectation w t := funext (fun x => rfl)
    rw [hfun, hck]
    -- a variable left out by the options passes in every layout
    cases hig : shouldIgnore t var with
    | true =>
      rw [instExps_all_true_of_ignored w t pl var _ hig ids es 0 (fun k h => by simpa using hidx k h)]
      simp [checkExpectation, instKnown, hig]
    | false =>
    -- the whole-vector comparison, case by case
    have hkv : ∀ per' tg, checkExpectation w t ⟨none, none, var, per', tg⟩ = checkValue w t ⟨none, none, var, per', tg⟩ :=
      fun _ _ => checkExpectation_eq_value rfl hig
    rw [hkv]
    cases hper : orPeriod pw t.period with
    | none =>
      rw [instExps_all_false_of w t pl var none (fun x hx hp =>
        checkExpectation_eq_false_of (by rw [hx]; exact hig) (by simp [checkValue, hp])) ids es hlen hne]
      simp [checkValue]
    | some per =>
      cases hc : w.calcv var per with
      | error e =>
        rw [instExps_all_false_of w t pl var (some per) (fun x hx hp =>
          checkExpectation_eq_false_of (by rw [hx]; exact hig) (by simp [checkValue, hp, hx, hvar, hc])) ids es hlen hne]
        simp [checkValue, hvar, hc]
      | ok vec =>
        have hvl := hvec per vec hc
        cases ha : marginFor t.absM var with
        | error e =>
          rw [instExps_all_false_of w t pl var (some per) (fun x hx hp =>
            checkExpectation_eq_false_of (by rw [hx]; exact hig) (by
              cases hs : selectInst w x vec <;> simp [checkValue, hp, hx, hvar, hc, ha, hs])) ids es hlen hne]
          simp [checkValue, hvar, hc, ha, selectInst]
        | ok a =>
          cases hr : marginFor t.relM var with
          | error e =>
            rw [instExps_all_false_of w t pl var (some per) (fun x hx hp =>
              checkExpectation_eq_false_of (by rw [hx]; exact hig) (by
                cases hs : selectInst w x vec <;> simp [checkValue, hp, hx, hvar, hc, ha, hr, hs])) ids es hlen hne]
            simp [checkValue, hvar, hc, ha, hr, selectInst]
          | ok r =>
            rw [instExps_all w t pl var per ty vec a r (cmpMode ty (.list es)) hvar hc ha hr hig ids es 0 hlen
              (by omega) (fun k h => by simpa using hidx k h)
              (fun e he => cmpMode_scalar_of_list ty hhom he)]
            simp only [checkValue, hvar, hc, selectInst, ha, hr, assertNear, pairUp, List.drop_zero]
            rw [if_pos (by omega)]

example : verdictSim exSim (exTest (outByVariable "status" none [.str "owner", .str "tenant"]) none) = true ∧
    verdictSim exSim (exTest (outByEntity "person" "status" none [.str "owner", .str "tenant"]) none) = true ∧
    verdictSim exSim (exTest (outByInstance "persons" "status" none ["a", "b"] [.str "owner", .str "tenant"]) none) = true ∧
    verdictSim exSim (exTest (outByInstance "persons" "salary" (some "month:2018-01") ["a", "b"] [.num 1, .int 0]) (some (1/4))) = false ∧
    verdictSim exSim (exTest (outByVariable "salary" (some "month:2018-01") [.num 1, .int 0]) (some (1/4))) = false := by decide +kernel

/-- **The verdict is monotone in the margins.**  If test `t'` differs from test `t` only in its
margins and states, for every variable, margins at least as wide (`MarginsWider`: whatever the
margins of `t` accept, those of `t'` accept), then `t'` passes whenever `t` passes — widening a
margin never turns a pass into a fail, narrowing one never turns a fail into a pass.  `Wider` holds
in particular (2) for a larger absolute margin, (3) for a relative margin larger in absolute value,
(4) for any non-negative absolute margin (with any relative margin... of a test that stated none and
therefore demanded equality), (5) when one of two stated margins is dropped. -/
theorem C20_verdict_monotone (w : Sim) (t t' : YTest)
    (hp : t'.period = t.period) (ho : t'.output = t.output) (hon : t'.only = t.only) (hig : t'.ignore = t.ignore)
    (hm : MarginsWider t t') :
    ((verdictSim w t = true → verdictSim w t' = true) ∧ (verdictSim w t' = false → verdictSim w t = false)) ∧
    (∀ (m m' : Rat) (r : Option Rat), m ≤ m' → Wider (some m) r (some m') r) ∧
    (∀ (a : Option Rat) (r r' : Rat), absQ r ≤ absQ r' → Wider a (some r) a (some r')) ∧
    (∀ (m : Rat) (r : Option Rat), 0 ≤ m → Wider none none (some m) r) ∧
    (∀ (m r : Rat), Wider (some m) (some r) (some m) none ∧ Wider (some m) (some r) none (some r)) := by
  have hmono : verdictSim w t = true → verdictSim w t' = true := by
    intro h
    have hexp : expectations w t' = expectations w t := by simp only [expectations, ho, hp]
    unfold verdictSim at h ⊢
    rw [hexp]
    cases hx : expectations w t with
    | error e => rw [hx] at h; cases h
    | ok xs =>
      rw [hx] at h
      simp only [List.all_eq_true] at h ⊢
      intro x hxm
      have hc := h x hxm
      have hsi : shouldIgnore t' x.var = shouldIgnore t x.var := by simp only [shouldIgnore, hon, hig]
      unfold checkExpectation at hc ⊢
      rw [hsi]
      by_cases hk : instKnown w x = false
      · rw [if_pos hk] at hc; cases hc
      · rw [if_neg hk] at hc ⊢
        by_cases hs : shouldIgnore t x.var = true
        · rw [if_pos hs]
        · rw [if_neg hs] at hc ⊢
          exact checkValue_mono w t t' hm x hc
  refine ⟨⟨hmono, ?_⟩, ?_, ?_, ?_, ?_⟩
  · intro h
    cases hv : verdictSim w t with
    | false => rfl
    | true => rw [hmono hv] at h; cases h
  · intro m m' r hle e x h
    rw [near_iff] at h ⊢
    refine ⟨fun h' => (by cases h'), fun m'' hm'' => ?_, h.2.2⟩
    cases hm''
    exact Rat.le_trans (h.2.1 m rfl) hle
  · intro a r r' hle e x h
    rw [near_iff] at h ⊢
    refine ⟨fun _ h' => (by cases h'), h.2.1, fun r'' hr'' => ?_⟩
    cases hr''
    refine Rat.le_trans (h.2.2 r rfl) ?_
    rw [absQ_mul, absQ_mul]
    exact Rat.mul_le_mul_of_nonneg_right hle (absQ_nonneg e)
  · intro m r hm0 e x h
    rw [near_iff] at h ⊢
    have hex : e = x := h.1 rfl rfl
    subst hex
    have h0 : absQ (e - e) = 0 := by
      have : e - e = 0 := by grind
      rw [this]; rfl
    refine ⟨fun h' => (by cases h'), fun m' hm' => ?_, fun r' _ => ?_⟩
    · cases hm'; rw [h0]; exact hm0
    · rw [h0]; exact absQ_nonneg _
  · intro m r
    refine ⟨fun e x h => ?_, fun e x h => ?_⟩
    · rw [near_iff] at h ⊢
      exact ⟨fun h' => (by cases h'), h.2.1, fun r' hr' => (by cases hr')⟩
    · rw [near_iff] at h ⊢
      exact ⟨fun _ h' => (by cases h'), fun m' hm' => (by cases hm'), h.2.2⟩

example : MarginsWider (exTest [("salary", .list [.num 2, .int 0])] (some (1/2))) (exTest [("salary", .list [.num 2, .int 0])] (some 3)) ∧
    verdictSim exSim (exTest [("salary", .list [.num 2, .int 0])] (some (1/2))) = true ∧
    verdictSim exSim (exTest [("salary", .list [.num 2, .int 0])] (some 3)) = true ∧
    verdictSim exSim (exTest [("salary", .list [.num 2, .int 0])] (some (1/4))) = false := by
  refine ⟨?_, by decide +kernel, by decide +kernel, by decide +kernel⟩
  intro var a r ha hr
  simp only [exTest, marginFor, lookupM, optE, Except.ok.injEq] at ha hr
  subst ha; subst hr
  refine ⟨some 3, none, rfl, rfl, ?_⟩
  intro e x h
  rw [near_iff] at h ⊢
  refine ⟨fun h' => (by cases h'), fun m hm => ?_, fun r hr => (by cases hr)⟩
  cases hm
  exact Rat.le_trans (h.2.1 (1/2) rfl) (by decide +kernel)

/-- **The three layouts denote the same elementary assertions.**  Under the hypotheses of
`C20_layouts_agree` (instance `ids[k]` has index `k`, one expected value per instance), the test
written by variable, by entity and by entity instance are normalised to expectations that stand for
exactly the same list of assertions "(variable, period, index of the instance, expected value)"
(`atomsOf`): `(var, period, k, es[k])` for every `k`. -/
theorem C20_layouts_denote (w : Sim) (t : YTest) (var sg pl : String) (pw : Option String)
    (ids : List String) (es : List Exp)
    (hvar : (w.vtype var).isSome = true)
    (hsg : w.vtype sg = none ∧ w.singular sg = true)
    (hpl : w.vtype pl = none ∧ w.singular pl = false ∧ w.plural pl = true)
    (hlen : es.length = ids.length)
    (hidx : ∀ k (h : k < ids.length), w.index pl ids[k] = some k) :
    ∃ xv xe xi,
      expectations w { t with output := some (outByVariable var pw es) } = .ok xv ∧
      expectations w { t with output := some (outByEntity sg var pw es) } = .ok xe ∧
      expectations w { t with output := some (outByInstance pl var pw ids es) } = .ok xi ∧
      xv.flatMap (atomsOf w ids.length) = (List.zipIdx es).map (fun p => ⟨var, orPeriod pw t.period, p.2, p.1⟩) ∧
      xe.flatMap (atomsOf w ids.length) = xv.flatMap (atomsOf w ids.length) ∧
      xi.flatMap (atomsOf w ids.length) = xv.flatMap (atomsOf w ids.length) := by
  refine ⟨_, _, _, expectations_byVariable w t var pw es hvar, expectations_byEntity w t sg var pw es hsg.1 hsg.2,
    expectations_byInstance w t pl var pw ids es hpl.1 hpl.2.1 hpl.2.2, ?_, ?_, ?_⟩
  · simp [atomsOf]
  · simp [atomsOf]
  · rw [atoms_instExps w ids.length pl var (orPeriod pw t.period) ids es 0 hlen (fun k h => by simpa using hidx k h)]
    simp [atomsOf]

example : (instExps "persons" "status" (some "2018-01") ["a", "b"] [.str "owner", .str "tenant"]).flatMap (atomsOf exSim 2) =
    [⟨"status", some "2018-01", 0, .str "owner"⟩, ⟨"status", some "2018-01", 1, .str "tenant"⟩] ∧
    ([⟨none, none, "status", some "2018-01", .list [.str "owner", .str "tenant"]⟩] : List Expectation).flatMap (atomsOf exSim 2) =
    [⟨"status", some "2018-01", 0, .str "owner"⟩, ⟨"status", some "2018-01", 1, .str "tenant"⟩] := by decide +kernel

end OFCore
