import OFCore.Props.C18
import OFCore.Lemmas.EngineTrace
import OFCore.Lemmas.HolderStore
/-!
# C17 — tracing and storage settings never change results

In the model the caching options are `Sys.noStore` (variables dropped by the memory
configuration, and blacklisted variables under `opt_out_cache`).  Where a stored value lives
(memory or a file keyed by the period's text — injective on the keys of one variable by
`C05_print_injective`) and whether the tracer is a `SimpleTracer` or a `FullTracer` do not appear
in the machine at all: neither is read by any decision of `Simulation._calculate`; that they are
indeed not read by the CODE is what the correspondence checks (all 2⁵ option subsets against the
plain run, values of every type through real files).

The value store itself is modelled separately (`HolderStore.lean`): a holder's memory store and
disk store, the rule that decides where a write goes (`Holder._set`: to disk only when the holder
is disk-storable, memory holds nothing for the key and memory occupation is above the threshold),
look-up memory first.  The last block proves that this two-tier store refines ONE finite map
whatever the pressure at each write — "moving values to disk under any memory configuration"
changes no read.
-/
set_option linter.unusedSectionVars false
namespace OFCore
open OFCore.Engine

variable {P : Type} [DecidableEq P]

/-- The meaning does not depend on what is cached. -/
theorem C17_meaning_config_free (a b : Sys P) (h : SameRules a b) (n : Nat) (v : Nat) (p : P) :
    den a n v p = den b n v p := den_sameRules a b h n v p

/-- Two simulations of the same rules under ANY two caching configurations, after ANY two request
    histories, return the same value for every request (DAG systems). -/
theorem C17_config_irrelevant (a b : Sys P) (h : SameRules a b) (hka : SlotCoherent a) (hkb : SlotCoherent b)
    (rk : Nat → Nat)
    (hra : VarRanked a rk) (hrb : VarRanked b rk) (ha : 1 ≤ a.msl) (hb : 1 ≤ b.msl) (n : Nat)
    (sa sb : St P) (hca : Cons a sa.cache) (hcb : Cons b sb.cache)
    (hsa : sa.stack = []) (hsb : sb.stack = []) (hia : sa.inval = []) (hib : sb.inval = [])
    (k : Node P) (r : Res) (hd : den a n k.1 k.2 = some r) :
    ∃ sa' sb', request a n sa k = some (r, false, sa') ∧ request b n sb k = some (r, false, sb') := by
  obtain ⟨sa', h1, _⟩ := C01_calculate_eq_den a hka rk hra ha n sa hca hsa hia k.1 k.2 r hd
  rw [den_sameRules a b h n k.1 k.2] at hd
  obtain ⟨sb', h2, _⟩ := C01_calculate_eq_den b hkb rk hrb hb n sb hcb hsb hib k.1 k.2 r hd
  exact ⟨sa', sb', h1, h2⟩

/-- a variable that is never cached is recomputed, with the same result -/
theorem C17_uncached_recomputed (sys : Sys P) (c : Cache P) (k : Node P) (x : Val) (g : Bool)
    (h : sys.noStore k.1 = true) : store sys c k x g = c := by
  simp [store, h]

/-- After every top-level request, successful or not, the evaluation stack is empty. -/
theorem C17_stack_empty (sys : Sys P) (n : Nat) (s : St P) (hs : s.stack = []) (k : Node P)
    (r : Res) (g : Bool) (s' : St P) (h : request sys n s k = some (r, g, s')) : s'.stack = [] :=
  (C02_stack_and_purge sys n s hs k r g s' h).1

/-- … and along any sequence of requests. -/
theorem C17_stack_empty_always (sys : Sys P) (n : Nat) : ∀ (ks : List (Node P)) (s : St P) (rs : List Res)
    (s' : St P), s.stack = [] → requests sys n s ks = some (rs, s') → s'.stack = [] := by
  intro ks
  induction ks with
  | nil => intro s rs s' hs h; simp only [requests, Option.some.injEq, Prod.mk.injEq] at h; rw [← h.2]; exact hs
  | cons k ks ih =>
    intro s rs s' hs h
    simp only [requests] at h
    cases hr : request sys n s k with
    | none => rw [hr] at h; cases h
    | some res =>
      obtain ⟨r, g, s1⟩ := res
      rw [hr] at h
      simp only at h
      cases hrs : requests sys n s1 ks with
      | none => rw [hrs] at h; cases h
      | some res2 =>
        obtain ⟨rs2, s2⟩ := res2
        rw [hrs] at h
        simp only [Option.some.injEq, Prod.mk.injEq] at h
        rw [← h.2]
        exact ih s1 rs2 s2 (C17_stack_empty sys n s hs k r g s1 hr) hrs

/-- The recorded trace: the instrumented evaluator `runET` computes exactly what the machine
    computes and records, in order, exactly the variable-at-period reads of the formula — all of
    them, each with a value, when the calculation completes; a prefix ending at the failed read
    otherwise.  (`FullTracer` opens one child per `Simulation.calculate`; that the real tracer's
    children are these reads is checked by the correspondence against `readsOf`.) -/
theorem C17_trace_reads (sys : Sys P) (n : Nat) (e : Expr P) (s : St P) (r : Res) (g : Bool) (s' : St P)
    (t : List (Node P × Res)) (h : runET sys n s e = some (r, g, s', t)) :
    runE sys n s e = some (r, g, s') ∧ (t.map (·.1)) <+: refs e ∧
    ((∃ x, r = .ok x) → t.map (·.1) = refs e ∧ ∀ kr ∈ t, ∃ y, kr.2 = .ok y) := by
  have he := runET_erase sys n e s
  rw [h] at he
  exact ⟨he.symm, runET_reads sys n e s r g s' t h⟩

example : runET (faultySys false) 5 St.init (.op2 0 (.ref 0 0) (.ref 1 0)) =
    some (.ok [21], false, ⟨[((1, 0), ([11], false))], [], []⟩, [((0, 0), .ok [10]), ((1, 0), .ok [11])]) := by
  simp [runET, run, runE, faultySys, lookup, store, St.init, Sys.slot]

/-! ## the whole recorded trace of a request (`runL`: one entry per calculation opened) -/

/-- Instrumenting the machine at every level changes nothing: `runL` computes what `run` computes. -/
theorem C17_trace_transparent (sys : Sys P) (n : Nat) (s : St P) (v : Nat) (p : P) :
    (runL sys n s v p).map eraseL = run sys n s v p := runL_erase sys n s v p

/-- The recorded trace, for ALL rule systems, inputs and states, successful request or not: EVERY
    calculation recorded during a request — at every depth — lists either no read at all or exactly
    the variable-at-period reads of the formula in force at its node, in order, each with the value
    returned (all of them when the calculation completed; when it failed, a prefix whose last read
    is the one that failed); every read listed is itself a recorded calculation carrying the same
    result; the first entry is the request itself with the result returned to the caller. -/
theorem C17_trace_every_calculation (sys : Sys P) (n : Nat) (s : St P) (v : Nat) (p : P) (r : Res) (g : Bool)
    (s' : St P) (l : Log P) (h : runL sys n s v p = some (r, g, s', l)) :
    (∀ en ∈ l, TraceOK sys en) ∧
    (∀ en ∈ l, ∀ kr ∈ en.2.2, ∃ t, (kr.1, kr.2, t) ∈ l) ∧
    (∃ t rest, l = ((v, p), r, t) :: rest) := by
  obtain ⟨h1, h2⟩ := runL_ok sys n s v p r g s' l h
  obtain ⟨t, rest, h3, _⟩ := runL_head sys n s v p r g s' l h
  exact ⟨h1, h2, t, rest, h3⟩

/-- A value served from the cache, an input, and the default of a variable without formula in
    force open no further calculation: their trace is the single entry, with no read. -/
theorem C17_trace_cached_read_has_no_children (sys : Sys P) (n : Nat) (s : St P) (v : Nat) (p : P) (r : Res) (g : Bool)
    (s' : St P) (l : Log P) (h : runL sys n s v p = some (r, g, s', l))
    (hc : lookup s.cache (sys.slot (v, p)) ≠ none ∨ sys.input v p ≠ none ∨ sys.formula v p = none) :
    l = [((v, p), r, [])] := by
  obtain ⟨t, rest, h3, h4⟩ := runL_head sys n s v p r g s' l h
  obtain ⟨rfl, rfl⟩ := h4 hc
  exact h3

/-- `v1 = v0 + (1 unless fault 7)` with input `v0 = 10`: the log of the request for `v1`, then of
    the same request again (served from the cache: one entry, no read) -/
example : runL (faultySys false) 5 St.init 1 0 =
    some (.ok [11], false, ⟨[((1, 0), ([11], false))], [], []⟩,
      [((1, 0), .ok [11], [((0, 0), .ok [10])]), ((0, 0), .ok [10], [])]) ∧
    runL (faultySys false) 5 ⟨[((1, 0), ([11], false))], [], []⟩ 1 0 =
    some (.ok [11], false, ⟨[((1, 0), ([11], false))], [], []⟩, [((1, 0), .ok [11], [])]) := by
  constructor <;> simp [runL, runLE, faultySys, lookup, store, St.init, Sys.slot]

/-! ## the two-tier value store of a holder -/
section store
open OFCore.HolderStore
variable {Q K V : Type} [DecidableEq K]

/-- Refinement: after ANY history of writes and deletions, with the memory pressure taking ANY
    value at each write, a holder with or without a disk store shows exactly what a plain finite
    map shows after the same history. -/
theorem C17_store_refines_map (key : Q → K) (ops : List (Op Q V)) (h : Holder K V) :
    (h.run key ops).view = specRun key h.view ops := view_run key ops h

/-- Hence two holders that show the same values — one keeping everything in memory, the other
    moving values to disk under whatever pressure — show the same values after the same writes and
    deletions: every read returns the same array (or none). -/
theorem C17_memory_pressure_irrelevant (key : Q → K) (h₁ h₂ : Holder K V) (hv : h₁.view = h₂.view)
    (ops₁ ops₂ : List (Op Q V)) (hs : ops₁.map Op.plain = ops₂.map Op.plain) (p : Q) :
    (h₁.run key ops₁).get key p = (h₂.run key ops₂).get key p := by
  rw [get_eq_view, get_eq_view, C17_store_refines_map, C17_store_refines_map, hv,
    ← specRun_plain key ops₁, ← specRun_plain key ops₂, hs]

/-- The latest write wins, wherever the earlier value was and wherever the new one goes. -/
theorem C17_latest_write_wins (key : Q → K) (h : Holder K V) (p q : Q) (x : V) (pressure : Bool) :
    (h.set key p x pressure).get key q = if key q = key p then some x else h.get key q := by
  rw [get_eq_view, view_set]; rfl

/-- Deleting a period removes it from both tiers; deleting everything empties both. -/
theorem C17_delete_removes (key : Q → K) (h : Holder K V) (p q : Q) :
    (h.delete key (some p)).get key q = (if key q = key p then none else h.get key q) ∧
    (h.delete key none).get key q = none := by
  refine ⟨?_, ?_⟩
  · rw [get_eq_view, view_delete]; rfl
  · rw [get_eq_view, view_delete_all]

/-- The known periods are exactly the keys that read a value. -/
theorem C17_known_periods (h : Holder K V) (k : K) : k ∈ h.known ↔ h.view k ≠ none := known_iff h k

/-- a value written while memory was free, then replaced under pressure: the replacement is read
    (it replaces the value IN MEMORY); for an eternal variable every period reads it -/
example : ((({ diskable := true, mem := [], disk := [] } : Holder Nat Nat).set (fun _ : Nat => 0) 3 10 false).set
    (fun _ : Nat => 0) 7 20 true).get (fun _ : Nat => 0) 5 = some 20 := by decide

/-- why `_set` looks at the memory store first: sending the replacement to disk whenever there is
    pressure leaves the stale memory value in front of it -/
example : (let h : Holder Nat Nat := { diskable := true, mem := [(3, 10)], disk := [] }
    ({ h with disk := tput h.disk 3 20 } : Holder Nat Nat).get id 3) = some 10 := by decide

end store

end OFCore
