import OFCore.Props.C02
/-!
# C18 — a failed calculation leaves the simulation consistent and reusable

Failures in the model: `Expr.fail id` (a formula that raises while fault `id` is armed), `Expr.bad`
(a dependency requested for an invalid period or an unknown variable) and the cycle error.  All
statements of the first block hold for ALL rule systems; "as if never made" and "retry succeeds"
are stated for systems whose variables form a DAG, where results do not depend on the state.
-/
set_option linter.unusedSectionVars false
namespace OFCore
open OFCore.Engine

variable {P : Type} [DecidableEq P]

/-- The error reaches the caller: when the formula of a node fails, the node fails with the same
    error; when the first operand of an operation fails, the operation fails with that error and
    the second operand is not evaluated. -/
theorem C18_error_propagates (sys : Sys P) (n : Nat) (s : St P) (v : Nat) (p : P) (e : Expr P)
    (er : Err) (g : Bool) (s₁ : St P)
    (hl : lookup s.cache (sys.slot (v, p)) = none) (hin : sys.input v p = none) (hns : (v, p) ∉ s.stack)
    (hsp : ¬ sys.msl ≤ (s.stack.filter (fun k => k.1 = v)).length) (hf : sys.formula v p = some e)
    (he : runE sys n { s with stack := (v, p) :: s.stack } e = some (.error er, g, s₁)) :
    run sys (n+1) s v p = some (.error er, g, { s₁ with stack := s₁.stack.tail }) ∧
    (∀ o b, runE sys n { s with stack := (v, p) :: s.stack } (.op2 o e b) = some (.error er, g, s₁)) ∧
    (∀ o, runE sys n { s with stack := (v, p) :: s.stack } (.op1 o e) = some (.error er, g, s₁)) := by
  refine ⟨?_, ?_, ?_⟩
  · simp [run, hl, hin, hns, hsp, hf, he]
  · intro o b; simp [runE, he]
  · intro o; simp [runE, he]

/-- armed faults and invalid dependencies raise -/
theorem C18_fault_raises (sys : Sys P) (n : Nat) (s : St P) (id : Nat) (a : Expr P) (h : sys.armed id = true) :
    runE sys n s (.fail id a) = some (.error .fault, false, s) ∧
    runE sys n s (.bad : Expr P) = some (.error .fault, false, s) := by
  simp [runE, h]

/-- No value is recorded for a node whose computation did not complete, and the evaluation stack
    is restored (`finally`), whatever the error and wherever it was raised. -/
theorem C18_no_partial_store (sys : Sys P) (hid : ∀ v p, sys.ckey v p = p) (n : Nat) (s : St P) (v : Nat) (p : P)
    (er : Err) (g : Bool) (s' : St P) (h : run sys n s v p = some (.error er, g, s')) :
    lookup s'.cache (v, p) = lookup s.cache (v, p) ∧ s'.stack = s.stack ∧
    ∀ k ∈ s.stack, lookup s'.cache k = lookup s.cache k :=
  ⟨run_error_no_store sys hid n s v p er g s' h, run_stack sys n s v p _ g s' h,
   run_keeps_stack_nodes sys hid n s v p _ g s' h⟩

/-- The same at top level: a failed request leaves the stack empty, nothing marked, and no entry
    for the requested node. -/
theorem C18_stack_restored (sys : Sys P) (hid : ∀ v p, sys.ckey v p = p) (n : Nat) (s : St P) (hs : s.stack = [])
    (k : Node P) (hl : lookup s.cache k = none) (er : Err) (g : Bool) (s' : St P)
    (h : request sys n s k = some (.error er, g, s')) :
    s'.stack = [] ∧ s'.inval = [] ∧ lookup s'.cache k = none := by
  obtain ⟨h1, h2, s₁, hrun, h3⟩ := C02_stack_and_purge sys n s hs k _ g s' h
  refine ⟨h1, h2, ?_⟩
  rw [h3 k]
  split
  · rfl
  · rw [run_error_no_store sys hid n s k.1 k.2 er g s₁ hrun]; exact hl

/-- The same for variable-ranked systems with ANY storage key — eternal variables, whose values
    are stored under ETERNITY whatever the period requested, included: nothing is recorded under
    the storage slot of the failed node, and no slot of a higher-ranked variable is written. -/
theorem C18_no_partial_store_ranked (sys : Sys P) (rk : Nat → Nat) (hr : VarRanked sys rk) (n : Nat) (s : St P)
    (v : Nat) (p : P) (er : Err) (g : Bool) (s' : St P) (h : run sys n s v p = some (.error er, g, s')) :
    lookup s'.cache (sys.slot (v, p)) = lookup s.cache (sys.slot (v, p)) ∧ s'.stack = s.stack ∧
    ∀ k : Node P, rk v < rk k.1 → lookup s'.cache k = lookup s.cache k :=
  ⟨run_error_no_store_ranked sys rk hr n s v p er g s' h, run_stack sys n s v p _ g s' h,
   run_touches_ranked sys rk hr n s v p _ g s' h⟩

/-- … and at top level -/
theorem C18_stack_restored_ranked (sys : Sys P) (rk : Nat → Nat) (hr : VarRanked sys rk) (n : Nat) (s : St P)
    (hs : s.stack = []) (k : Node P) (hl : lookup s.cache (sys.slot k) = none) (er : Err) (g : Bool) (s' : St P)
    (h : request sys n s k = some (.error er, g, s')) :
    s'.stack = [] ∧ s'.inval = [] ∧ lookup s'.cache (sys.slot k) = none := by
  obtain ⟨h1, h2, s₁, hrun, h3⟩ := C02_stack_and_purge sys n s hs k _ g s' h
  refine ⟨h1, h2, ?_⟩
  rw [h3 (sys.slot k)]
  split
  · rfl
  · rw [run_error_no_store_ranked sys rk hr n s k.1 k.2 er g s₁ hrun]; exact hl

/-- Values completed before (and during) a failed request remain correct: the ghost-clean
    invariant survives failures, for all systems … -/
theorem C18_completed_remain_consistent (sys : Sys P) (hk : SlotCoherent sys) (n : Nat) (s : St P) (hc : GClean sys s.cache)
    (v : Nat) (p : P) (r : Res) (g : Bool) (s' : St P) (h : run sys n s v p = some (r, g, s')) :
    GClean sys s'.cache :=
  (run_clean sys hk n s v p r g s' hc h).1

/-- … and for DAG systems the failed request itself returns exactly the meaning's error and keeps
    the state consistent, so that every later request behaves as it would on a simulation where
    the failed request was never made (`C01_calculate_eq_den` from the state before or after). -/
theorem C18_as_if_never (sys : Sys P) (hk : SlotCoherent sys) (rk : Nat → Nat) (hr : VarRanked sys rk) (hmsl : 1 ≤ sys.msl)
    (n : Nat) (s : St P) (hc : Cons sys s.cache) (hs : s.stack = []) (hi : s.inval = [])
    (kf : Node P) (er : Err) (hf : den sys n kf.1 kf.2 = some (.error er))
    (k : Node P) (r : Res) (hd : den sys n k.1 k.2 = some r) :
    ∃ sf s₁ s₂, request sys n s kf = some (.error er, false, sf) ∧
      request sys n sf k = some (r, false, s₁) ∧ request sys n s k = some (r, false, s₂) := by
  obtain ⟨sf, h1, hcf, hsf, hif⟩ := C01_calculate_eq_den sys hk rk hr hmsl n s hc hs hi kf.1 kf.2 _ hf
  obtain ⟨s₁, h2, _⟩ := C01_calculate_eq_den sys hk rk hr hmsl n sf hcf hsf hif k.1 k.2 r hd
  obtain ⟨s₂, h3, _⟩ := C01_calculate_eq_den sys hk rk hr hmsl n s hc hs hi k.1 k.2 r hd
  exact ⟨sf, s₁, s₂, h1, h2, h3⟩

/-- Once the cause is removed (fewer armed faults, same rules), the state left by the failures is
    still consistent for the repaired system and the same request succeeds with the right value. -/
theorem C18_retry_succeeds (a b : Sys P) (hab : FewerFaults a b) (hck : a.ckey = b.ckey) (hk : SlotCoherent b)
    (rk : Nat → Nat) (hr : VarRanked b rk)
    (hmsl : 1 ≤ b.msl) (n : Nat) (s : St P) (hc : Cons a s.cache) (hs : s.stack = []) (hi : s.inval = [])
    (k : Node P) (x : Val) (hd : den b n k.1 k.2 = some (.ok x)) :
    ∃ s', request b n s k = some (.ok x, false, s') ∧ Cons b s'.cache ∧ s'.stack = [] ∧ s'.inval = [] :=
  C01_calculate_eq_den b hk rk hr hmsl n s (cons_fewerFaults a b hab hck s.cache hc) hs hi k.1 k.2 _ hd

/-- a fault armed, then removed: the request fails, then succeeds with the meaning -/
def faultySys (armed : Bool) : Sys Nat where
  formula v _ := if v = 1 then some (.op2 0 (.ref 0 0) (.fail 7 (.const [1]))) else none
  input v _ := if v = 0 then some [10] else none
  dflt _ := [0]
  post _ x := x
  f1 _ x := x
  f2 _ x y := List.zipWith (· + ·) x y
  armed id := armed && id == 7
  msl := 1
  noStore _ := false
  ckey _ p := p

example : request (faultySys true) 5 St.init (1, 0) = some (.error .fault, false, St.init) ∧
    request (faultySys false) 5 St.init (1, 0) = some (.ok [11], false, ⟨[((1, 0), ([11], false))], [], []⟩) ∧
    FewerFaults (faultySys true) (faultySys false) := by
  refine ⟨?_, ?_, ?_⟩
  · simp [request, run, runE, faultySys, lookup, store, purge, St.init, Sys.slot]
  · simp [request, run, runE, faultySys, lookup, store, purge, St.init, Sys.slot]
  · refine ⟨rfl, rfl, rfl, rfl, rfl, rfl, ?_⟩
    intro id h; simp [faultySys] at h

/-- the same rules with every value stored under one key per variable (all variables "eternal"):
    the hypotheses of the ranked statements are met and a failed request for ANY period leaves
    the variable's storage slot empty -/
def faultyEternalSys (armed : Bool) : Sys Nat := { faultySys armed with ckey := fun _ _ => 0 }

example : VarRanked (faultyEternalSys true) (fun v => v) ∧
    request (faultyEternalSys true) 5 St.init (1, 3) = some (.error .fault, false, St.init) ∧
    lookup (St.init : St Nat).cache ((faultyEternalSys true).slot (1, 3)) = none := by
  refine ⟨?_, ?_, rfl⟩
  · intro v p e hf k hk
    by_cases hv : v = 1
    · subst hv
      simp [faultyEternalSys, faultySys] at hf
      subst hf
      simp [refs] at hk
      subst hk
      simp
    · simp [faultyEternalSys, faultySys, hv] at hf
  · simp [request, run, runE, faultyEternalSys, faultySys, lookup, purge, St.init, Sys.slot]

end OFCore
