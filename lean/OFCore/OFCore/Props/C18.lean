import OFCore.Props.C02
/-!
# C18 — a failed calculation leaves the simulation consistent and reusable

Failures in the model: `Expr.fail id` (a formula that raises while fault `id` is armed), `Expr.bad`
(a dependency requested for an invalid period or an unknown variable) and the cycle error.  All
statements of the first block hold for ALL rule systems; "as if never made" and "retry succeeds"
are stated for systems whose variables form a DAG, where results do not depend on the state.
-/
set_option linter.unusedSectionVars false
namespace OFCore
open OFCore.Engine

variable {P : Type} [DecidableEq P]

/-- The error reaches the caller: when the formula of a node fails, the node fails with the same
    error; when the first operand of an operation fails, the operation fails with that error and
    the second operand is not evaluated. -/
theorem C18_error_propagates (sys : Sys P) (n : Nat) (s : St P) (v : Nat) (p : P) (e : Expr P)
    (er : Err) (g : Bool) (s₁ : St P)
    (hl : lookup s.cache (sys.slot (v, p)) = none) (hin : sys.input v p = none) (hns : (v, p) ∉ s.stack)
    (hsp : ¬ sys.msl ≤ (s.stack.filter (fun k => k.1 = v)).length) (hf : sys.formula v p = some e)
    (he : runE sys n { s with stack := (v, p) :: s.stack } e = some (.error er, g, s₁)) :
    run sys (n+1) s v p = some (.error er, g, { s₁ with stack := s₁.stack.tail }) ∧
    (∀ o b, runE sys n { s with stack := (v, p) :: s.stack } (.op2 o e b) = some (.error er, g, s₁)) ∧
    (∀ o, runE sys n { s with stack := (v, p) :: s.stack } (.op1 o e) = some (.error er, g, s₁)) := by
  refine ⟨?_, ?_, ?_⟩
  · simp [run, hl, hin, hns, hsp, hf, he]
  · intro o b; simp [runE, he]
  · intro o; simp [runE, he]

/-- armed faults and invalid dependencies raise -/
theorem C18_fault_raises (sys : Sys P) (n : Nat) (s : St P) (id : Nat) (a : Expr P) (h : sys.armed id = true) :
    runE sys n s (.fail id a) = some (.error .fault, false, s) ∧
    runE sys n s (.bad : Expr P) = some (.error .fault, false, s) := by
  simp [runE, h]

/-- No value is recorded for a node whose computation did not complete, and the evaluation stack
    is restored (`finally`), whatever the error and wherever it was raised. -/
theorem C18_no_partial_store (sys : Sys P) (hid : ∀ v p, sys.ckey v p = p) (n : Nat) (s : St P) (v : Nat) (p : P)
    (er : Err) (g : Bool) (s' : St P) (h : run sys n s v p = some (.error er, g, s')) :
    lookup s'.cache (v, p) = lookup s.cache (v, p) ∧ s'.stack = s.stack ∧
    ∀ k ∈ s.stack, lookup s'.cache k = lookup s.cache k :=
  ⟨run_error_no_store sys hid n s v p er g s' h, run_stack sys n s v p _ g s' h,
   run_keeps_stack_nodes sys hid n s v p _ g s' h⟩

/-- The same at top level: a failed request leaves the stack empty, nothing marked, and no entry
    for the requested node. -/
theorem C18_stack_restored (sys : Sys P) (hid : ∀ v p, sys.ckey v p = p) (n : Nat) (s : St P) (hs : s.stack = [])
    (k : Node P) (hl : lookup s.cache k = none) (er : Err) (g : Bool) (s' : St P)
    (h : request sys n s k = some (.error er, g, s')) :
    s'.stack = [] ∧ s'.inval = [] ∧ lookup s'.cache k = none := by
  obtain ⟨h1, h2, s₁, hrun, h3⟩ := C02_stack_and_purge sys n s hs k _ g s' h
  refine ⟨h1, h2, ?_⟩
  rw [h3 k]
  split
  · rfl
  · rw [run_error_no_store sys hid n s k.1 k.2 er g s₁ hrun]; exact hl

/-- The same for variable-ranked systems with ANY storage key — eternal variables, whose values
    are stored under ETERNITY whatever the period requested, included: nothing is recorded under
    the storage slot of the failed node, and no slot of a higher-ranked variable is written. -/
theorem C18_no_partial_store_ranked (sys : Sys P) (rk : Nat → Nat) (hr : VarRanked sys rk) (n : Nat) (s : St P)
    (v : Nat) (p : P) (er : Err) (g : Bool) (s' : St P) (h : run sys n s v p = some (.error er, g, s')) :
    lookup s'.cache (sys.slot (v, p)) = lookup s.cache (sys.slot (v, p)) ∧ s'.stack = s.stack ∧
    ∀ k : Node P, rk v < rk k.1 → lookup s'.cache k = lookup s.cache k :=
  ⟨run_error_no_store_ranked sys rk hr n s v p er g s' h, run_stack sys n s v p _ g s' h,
   run_touches_ranked sys rk hr n s v p _ g s' h⟩

/-- … and at top level -/
theorem C18_stack_restored_ranked (sys : Sys P) (rk : Nat → Nat) (hr : VarRanked sys rk) (n : Nat) (s : St P)
    (hs : s.stack = []) (k : Node P) (hl : lookup s.cache (sys.slot k) = none) (er : Err) (g : Bool) (s' : St P)
    (h : request sys n s k = some (.error er, g, s')) :
    s'.stack = [] ∧ s'.inval = [] ∧ lookup s'.cache (sys.slot k) = none := by
  obtain ⟨h1, h2, s₁, hrun, h3⟩ := C02_stack_and_purge sys n s hs k _ g s' h
  refine ⟨h1, h2, ?_⟩
  rw [h3 (sys.slot k)]
  split
  · rfl
  · rw [run_error_no_store_ranked sys rk hr n s k.1 k.2 er g s₁ hrun]; exact hl

/-- Values completed before (and during) a failed request remain correct: the ghost-clean
    invariant survives failures, for all systems … -/
theorem C18_completed_remain_consistent (sys : Sys P) (hk : SlotCoherent sys) (n : Nat) (s : St P) (hc : GClean sys s.cache)
    (v : Nat) (p : P) (r : Res) (g : Bool) (s' : St P) (h : run sys n s v p = some (r, g, s')) :
    GClean sys s'.cache :=
  (run_clean sys hk n s v p r g s' hc h).1

/-- … and for DAG systems the failed request itself returns exactly the meaning's error and keeps
    the state consistent, so that every later request behaves as it would on a simulation where
    the failed request was never made (`C01_calculate_eq_den` from the state before or after). -/
theorem C18_as_if_never (sys : Sys P) (hk : SlotCoherent sys) (rk : Nat → Nat) (hr : VarRanked sys rk) (hmsl : 1 ≤ sys.msl)
    (n : Nat) (s : St P) (hc : Cons sys s.cache) (hs : s.stack = []) (hi : s.inval = [])
    (kf : Node P) (er : Err) (hf : den sys n kf.1 kf.2 = some (.error er))
    (k : Node P) (r : Res) (hd : den sys n k.1 k.2 = some r) :
    ∃ sf s₁ s₂, request sys n s kf = some (.error er, false, sf) ∧
      request sys n sf k = some (r, false, s₁) ∧ request sys n s k = some (r, false, s₂) := by
  obtain ⟨sf, h1, hcf, hsf, hif⟩ := C01_calculate_eq_den sys hk rk hr hmsl n s hc hs hi kf.1 kf.2 _ hf
  obtain ⟨s₁, h2, _⟩ := C01_calculate_eq_den sys hk rk hr hmsl n sf hcf hsf hif k.1 k.2 r hd
  obtain ⟨s₂, h3, _⟩ := C01_calculate_eq_den sys hk rk hr hmsl n s hc hs hi k.1 k.2 r hd
  exact ⟨sf, s₁, s₂, h1, h2, h3⟩

/-- Once the cause is removed (fewer armed faults, same rules), the state left by the failures is
    still consistent for the repaired system and the same request succeeds with the right value. -/
theorem C18_retry_succeeds (a b : Sys P) (hab : FewerFaults a b) (hck : a.ckey = b.ckey) (hk : SlotCoherent b)
    (rk : Nat → Nat) (hr : VarRanked b rk)
    (hmsl : 1 ≤ b.msl) (n : Nat) (s : St P) (hc : Cons a s.cache) (hs : s.stack = []) (hi : s.inval = [])
    (k : Node P) (x : Val) (hd : den b n k.1 k.2 = some (.ok x)) :
    ∃ s', request b n s k = some (.ok x, false, s') ∧ Cons b s'.cache ∧ s'.stack = [] ∧ s'.inval = [] :=
  C01_calculate_eq_den b hk rk hr hmsl n s (cons_fewerFaults a b hab hck s.cache hc) hs hi k.1 k.2 _ hd

/-- a fault armed, then removed: the request fails, then succeeds with the meaning -/
def faultySys (armed : Bool) : Sys Nat where
  formula v _ := if v = 1 then some (.op2 0 (.ref 0 0) (.fail 7 (.const [1]))) else none
  input v _ := if v = 0 then some [10] else none
  dflt _ := [0]
  post _ x := x
  f1 _ x := x
  f2 _ x y := List.zipWith (· + ·) x y
  armed id := armed && id == 7
  msl := 1
  noStore _ := false
  ckey _ p := p

example : request (faultySys true) 5 St.init (1, 0) = some (.error .fault, false, St.init) ∧
    request (faultySys false) 5 St.init (1, 0) = some (.ok [11], false, ⟨[((1, 0), ([11], false))], [], []⟩) ∧
    FewerFaults (faultySys true) (faultySys false) := by
  refine ⟨?_, ?_, ?_⟩
  · simp [request, run, runE, faultySys, lookup, store, purge, St.init, Sys.slot]
  · simp [request, run, runE, faultySys, lookup, store, purge, St.init, Sys.slot]
  · refine ⟨rfl, rfl, rfl, rfl, rfl, rfl, ?_⟩
    intro id h; simp [faultySys] at h

/-- the same rules with every value stored under one key per variable (all variables "eternal"):
    the hypotheses of the ranked statements are met and a failed request for ANY period leaves
    the variable's storage slot empty -/
def faultyEternalSys (armed : Bool) : Sys Nat := { faultySys armed with ckey := fun _ _ => 0 }

example : VarRanked (faultyEternalSys true) (fun v => v) ∧
    request (faultyEternalSys true) 5 St.init (1, 3) = some (.error .fault, false, St.init) ∧
    lookup (St.init : St Nat).cache ((faultyEternalSys true).slot (1, 3)) = none := by
  refine ⟨?_, ?_, rfl⟩
  · intro v p e hf k hk
    by_cases hv : v = 1
    · subst hv
      simp [faultyEternalSys, faultySys] at hf
      subst hf
      simp [refs] at hk
      subst hk
      simp
    · simp [faultyEternalSys, faultySys, hv] at hf
  · simp [request, run, runE, faultyEternalSys, faultySys, lookup, purge, St.init, Sys.slot]


/-! ## arbitrary sequences of failing and succeeding requests

`z` is the rule system with no fault armed; every step of a history runs under a system `a` with
the same rules and ANY set of armed faults (`FewerFaults a z`): faults are armed and removed
between requests at will.  `requestsF` runs such a history on one simulation. -/

/-- what a step of a history may be -/
def FaultyVersion (a z : Sys P) : Prop := FewerFaults a z ∧ a.ckey = z.ckey ∧ 1 ≤ a.msl

/-- what the statement asks of the answer `r` to a request `k` made while the system is `a` -/
def StepOK (z : Sys P) (n : Nat) (st : Sys P × Node P) (r : Res) : Prop :=
  (∀ x, r = .ok x → ∃ m, den z m st.2.1 st.2.2 = some (.ok x)) ∧
  (∀ x, den st.1 n st.2.1 st.2.2 = some (.ok x) → r = .ok x)

/-- … of the answers to a whole history, in order (one answer per request) -/
def StepsOK (z : Sys P) (n : Nat) : List (Sys P × Node P) → List Res → Prop
  | [], [] => True
  | st :: sts, r :: rs => StepOK z n st r ∧ StepsOK z n sts rs
  | [], _ :: _ => False
  | _ :: _, [] => False

/-- For variable-ranked systems, ANY history of requests under ANY sequence of armed-fault sets,
    from any consistent state: (1) a value is never wrong — whatever a request returns as a value
    is the fault-free meaning of its node (values completed before a failure remain correct, and
    are served); (2) a request whose meaning under the faults armed at that moment is a value
    returns exactly that value, whatever failed before ("once the cause is removed the same
    request succeeds with the right value", and "every later request behaves as on a simulation
    where the failed request was never made": the answer does not depend on the history);
    (3) after every request the stack is empty, nothing is marked, and the store holds nothing
    but fault-free meanings (no value is recorded for a computation that did not complete). -/
theorem C18_any_fault_sequence (z : Sys P) (hk : SlotCoherent z) (rk : Nat → Nat) (hr : VarRanked z rk) (n : Nat) :
    ∀ (steps : List (Sys P × Node P)), (∀ st ∈ steps, FaultyVersion st.1 z) →
    ∀ (s : St P), Cons z s.cache → s.stack = [] → s.inval = [] →
    ∀ rs s', requestsF n s steps = some (rs, s') →
      StepsOK z n steps rs ∧ Cons z s'.cache ∧ s'.stack = [] ∧ s'.inval = [] := by
  intro steps
  induction steps with
  | nil =>
    intro _ s hc hs hi rs s' h
    simp only [requestsF, Option.some.injEq, Prod.mk.injEq] at h
    obtain ⟨rfl, rfl⟩ := h
    exact ⟨trivial, hc, hs, hi⟩
  | cons st sts ih =>
    intro hall s hc hs hi rs s' h
    obtain ⟨hab, hck, hmsl⟩ := hall st List.mem_cons_self
    simp only [requestsF] at h
    cases hreq : request st.1 n s st.2 with
    | none => rw [hreq] at h; cases h
    | some res =>
      obtain ⟨r, g, s1⟩ := res
      rw [hreq] at h
      simp only at h
      obtain ⟨hc1, hs1, hi1, hv, hcomp⟩ := request_faulty st.1 z hab hck hk rk hr hmsl n s hc hs hi st.2 r g s1 hreq
      cases hrest : requestsF n s1 sts with
      | none => rw [hrest] at h; cases h
      | some res2 =>
        obtain ⟨rs2, s2⟩ := res2
        rw [hrest] at h
        simp only [Option.some.injEq, Prod.mk.injEq] at h
        obtain ⟨rfl, rfl⟩ := h
        obtain ⟨hf, hc2, hs2, hi2⟩ := ih (fun st' hst' => hall st' (List.mem_cons_of_mem _ hst')) s1 hc1 hs1 hi1 rs2 s2 hrest
        exact ⟨⟨⟨hv, hcomp⟩, hf⟩, hc2, hs2, hi2⟩

/-- Hence the answer to a request whose meaning (under the faults armed when it is made) is a value
    does not depend on what was requested, failed or succeeded, before: after ANY two histories it
    is that value. -/
theorem C18_history_irrelevant (z : Sys P) (hk : SlotCoherent z) (rk : Nat → Nat) (hr : VarRanked z rk) (n : Nat)
    (h₁ h₂ : List (Sys P × Node P)) (hv₁ : ∀ st ∈ h₁, FaultyVersion st.1 z) (hv₂ : ∀ st ∈ h₂, FaultyVersion st.1 z)
    (a : Sys P) (ha : FaultyVersion a z) (k : Node P) (x : Val) (hd : den a n k.1 k.2 = some (.ok x))
    (rs₁ rs₂ : List Res) (s₁ s₂ : St P)
    (e₁ : requestsF n St.init h₁ = some (rs₁, s₁)) (e₂ : requestsF n St.init h₂ = some (rs₂, s₂))
    (r₁ r₂ : Res) (g₁ g₂ : Bool) (t₁ t₂ : St P)
    (q₁ : request a n s₁ k = some (r₁, g₁, t₁)) (q₂ : request a n s₂ k = some (r₂, g₂, t₂)) :
    r₁ = .ok x ∧ r₂ = .ok x := by
  obtain ⟨hc0, hs0, hi0⟩ := C01_init_consistent z
  obtain ⟨_, c1, st1, i1⟩ := C18_any_fault_sequence z hk rk hr n h₁ hv₁ St.init hc0 hs0 hi0 rs₁ s₁ e₁
  obtain ⟨_, c2, st2, i2⟩ := C18_any_fault_sequence z hk rk hr n h₂ hv₂ St.init hc0 hs0 hi0 rs₂ s₂ e₂
  obtain ⟨hab, hck, hmsl⟩ := ha
  exact ⟨(request_faulty a z hab hck hk rk hr hmsl n s₁ c1 st1 i1 k r₁ g₁ t₁ q₁).2.2.2.2 x hd,
         (request_faulty a z hab hck hk rk hr hmsl n s₂ c2 st2 i2 k r₂ g₂ t₂ q₂).2.2.2.2 x hd⟩

/-- the history "fail, then succeed after the fault is removed" of `faultySys`: the hypotheses are
    met and the answers are the error, then the value -/
example : FaultyVersion (faultySys true) (faultySys false) ∧ FaultyVersion (faultySys false) (faultySys false) ∧
    requestsF 5 St.init [(faultySys true, (1, 0)), (faultySys false, (1, 0))] =
      some ([.error .fault, .ok [11]], ⟨[((1, 0), ([11], false))], [], []⟩) := by
  refine ⟨⟨⟨rfl, rfl, rfl, rfl, rfl, rfl, ?_⟩, rfl, by decide⟩, ⟨⟨rfl, rfl, rfl, rfl, rfl, rfl, fun _ h => h⟩, rfl, by decide⟩, ?_⟩
  · intro id h; simp [faultySys] at h
  · simp [requestsF, request, run, runE, faultySys, lookup, store, purge, St.init, Sys.slot]

end OFCore
