import OFCore.Lemmas.AddDivide
import OFCore.Props.C05
/-!
# C03 — summing or dividing over time uses the exact sub-periods; period mismatches fail

`calcPlain / calcAdd / calcDivide / callWithOptions` (`AddDivide.lean`) transcribe
`Simulation.calculate / calculate_add / calculate_divide` and `CorePopulation.__call__`; the
engine below the period checks is a value function `val : Period → Int`, universally quantified
in every theorem, as is `store` (whether computed values are kept in the holder).

* `Tiles qs lo hi` (`PeriodSpec.lean`): the pieces are consecutive, non-overlapping, non-empty and
  cover exactly the days `lo..hi`.
* `DUnit.span`: the calendar duration order weekday = day < week < month < year (< eternity).
* `Period.InRange`: the request stays inside pendulum's calendar (first day not before 7 January
  of year 1, last day not after 31 December 9998); outside it intermediate dates overflow and the
  code raises whatever the units are. Only the *accept* side needs it.

The guards are proved against the unit-weight table and the `isoformat`/`isocalendar` tuples
regenerated from the source on every run (`Generated.lean`).
-/
namespace OFCore

/-- the value function used by the examples: a different value for every start date -/
def exampleVal (q : Period) : Int := ord q.start % 9973

/-! ## ADD: the sum over the exact sub-periods -/

/-- Variable of definition unit `u`, period of a unit of the same family, start aligned to `u`:
    when ADD returns, it returns the sum of the variable over pieces of unit `u` and size one
    that are consecutive, non-overlapping and cover exactly the days of the period. -/
theorem C03_add_sum (val : Period → Int) (store : Bool) (u : DUnit) (p : Period) (hp : p.WF)
    (hfam : u.family = p.unit.family) (hle : u.rank ≤ p.unit.rank) (hal : AlignedTo p.start u)
    (r : Int) (h : calcAdd val store u p = .ok r) :
    ∃ qs, p.subperiods u = .ok qs ∧ Tiles qs p.lo p.hi ∧ (∀ q ∈ qs, q.unit = u ∧ q.size = 1) ∧
      r = (qs.map val).sum := by
  have hne := hp.1
  have hu : u ≠ .eternity := by
    intro hu; rw [hu] at hfam
    revert hfam hne; cases p.unit <;> simp [DUnit.family]
  have hw := weight_guard_table p.unit u hfam hle hne
  rw [calcAdd_pass val store u p hw hu hne] at h
  cases hq : p.subperiods u with
  | error e => rw [hq] at h; cases h
  | ok qs =>
    rw [hq] at h; injection h with h
    obtain ⟨ht, hq1⟩ := C04_subperiods_tile p u hp hfam hle hal qs hq
    exact ⟨qs, rfl, ht, hq1, h.symm⟩

example : calcAdd exampleVal true .month ⟨.year, ⟨2020, 1, 1⟩, 1⟩ = .ok 114760 ∧
    calcAdd exampleVal false .day ⟨.month, ⟨2020, 2, 1⟩, 1⟩ = .ok 273789 := by decide +kernel

/-- … and inside the calendar ADD does return for such a request. -/
theorem C03_add_accepts (val : Period → Int) (store : Bool) (u : DUnit) (p : Period) (hp : p.WF)
    (hr : p.InRange) (hfam : u.family = p.unit.family) (hle : u.rank ≤ p.unit.rank) :
    ∃ r, calcAdd val store u p = .ok r := by
  have hne := hp.1
  have hu : u ≠ .eternity := by
    intro hu; rw [hu] at hfam
    revert hfam hne; cases p.unit <;> simp [DUnit.family]
  have hw := weight_guard_table p.unit u hfam hle hne
  have hmw : ¬ (u = .month ∧ p.unit = .week) := by
    rintro ⟨h1, h2⟩; rw [h1, h2] at hfam; simp [DUnit.family] at hfam
  obtain ⟨qs, hq⟩ := subperiods_total p u hp hr hw hu hmw
  exact ⟨_, by rw [calcAdd_pass val store u p hw hu hne, hq]⟩

example : (Period.mk .year ⟨2019, 3, 1⟩ 2).WF ∧ (Period.mk .year ⟨2019, 3, 1⟩ 2).InRange := by decide +kernel

/-! ## DIVIDE: the value for the enclosing definition period over the number of requested units -/

/-- Variable of definition unit `u`, one period of a unit `p.unit ⊆ u` of the same family: when
    DIVIDE returns, it returns the variable's value for `c`, the `u`-long period aligned to `u`
    that contains the first day of `p` (all of `p` when `p` is aligned to its own unit), divided by
    `n`, the number of `p.unit`-long pieces that tile `c` exactly: 1 for the same unit, 12 months
    in a year, the 28–31 days of a month, the 365/366 days of a year, 7 weekdays in a week. -/
theorem C03_divide_quotient (val : Period → Int) (store : Bool) (u : DUnit) (p : Period) (hp : p.WF)
    (hfam : p.unit.family = u.family) (hle : p.unit.rank ≤ u.rank)
    (r : Rat) (h : calcDivide val store u p = .ok r) :
    ∃ (c : Period) (n : Int), enclosing u p = .ok c ∧ c.WF ∧ c.unit = u ∧ c.size = 1 ∧ AlignedTo c.start u ∧
      c.lo ≤ p.lo ∧ p.lo ≤ c.hi ∧ (AlignedTo p.start p.unit → p.hi ≤ c.hi) ∧
      denominator p.unit c = .ok n ∧ r = (val c : Rat) / (n : Rat) ∧ 1 ≤ n ∧
      (∀ qs, c.subperiods p.unit = .ok qs →
        (qs.length : Int) = n ∧ Tiles qs c.lo c.hi ∧ ∀ q ∈ qs, q.unit = p.unit ∧ q.size = 1) ∧
      (p.unit = u → n = 1) ∧
      (u = .year → p.unit = .month → n = 12) ∧
      (u = .week → p.unit = .weekday → n = 7) ∧
      (u = .month → p.unit = .day → n = dim c.start.y c.start.m) ∧
      (u = .year → p.unit = .day → n = if isLeap c.start.y then 366 else 365) := by
  obtain ⟨hne, hv, hsz⟩ := hp
  have hu : u ≠ .eternity := by
    intro hu; rw [hu] at hfam
    revert hfam hne; cases p.unit <;> simp [DUnit.family]
  -- the guards passed
  have hs : p.size = 1 := by
    by_cases hs : p.size = 1
    · exact hs
    · obtain ⟨e, he⟩ := calcDivide_guard val store u p (Or.inr (Or.inl hs)); rw [he] at h; cases h
  have hw : ¬ unitWeight u < unitWeight p.unit := by
    intro hw
    obtain ⟨e, he⟩ := calcDivide_guard val store u p (Or.inl hw); rw [he] at h; cases h
  rw [calcDivide_pass val store u p hw hs hu hne] at h
  cases hc : enclosing u p with
  | error e => rw [hc] at h; cases h
  | ok c =>
    rw [hc] at h; simp only at h
    cases hn : denominator p.unit c with
    | error e => rw [hn] at h; cases h
    | ok n =>
      rw [hn] at h; simp only at h
      injection h with h
      obtain ⟨hcwf, hcu, hcs, hcal, hclo, hchi⟩ := enclosing_spec u p c hv hu hc
      have hlohi := lo_le_hi c hcwf
      have hfam' : p.unit.family = c.unit.family := by rw [hcu]; exact hfam
      have hle' : p.unit.rank ≤ c.unit.rank := by rw [hcu]; exact hle
      have hcal' : AlignedTo c.start p.unit := aligned_down c.start u p.unit hcal hfam hle
      -- the denominator, unit pair by unit pair
      have hsame : p.unit = u → n = 1 := by
        intro hpu
        rw [hpu] at hn
        cases hu' : u <;> rw [hu'] at hn hcu <;> simp only [denominator] at hn
        · simp only [Period.sizeInWeekdays, hcu] at hn; injection hn with hn; omega
        · simp only [Period.sizeInWeeks, hcu] at hn; injection hn with hn; omega
        · simp only [Period.sizeInDays, hcu] at hn; injection hn with hn; omega
        · simp only [Period.sizeInMonths, hcu] at hn; simp at hn; omega
        · simp only [Period.sizeInYears, hcu] at hn; simp at hn; omega
        · exact absurd hu' hu
      have hym : u = .year → p.unit = .month → n = 12 := by
        intro h1 h2
        rw [h2] at hn; rw [h1] at hcu
        simp only [denominator, Period.sizeInMonths, hcu] at hn; simp at hn; omega
      have hww : u = .week → p.unit = .weekday → n = 7 := by
        intro h1 h2
        rw [h2] at hn; rw [h1] at hcu
        simp only [denominator, Period.sizeInWeekdays, hcu] at hn; injection hn with hn; omega
      have hdays : p.unit = .day → n = c.hi - c.lo + 1 := by
        intro h2
        rw [h2] at hn
        exact (C04_days_count c hcwf n).2 hn
      have hwdays : p.unit = .weekday → n = c.hi - c.lo + 1 := by
        intro h2
        have hcases : u = .weekday ∨ u = .week := by
          rw [h2] at hfam hle; revert hfam hle hu; cases u <;> simp [DUnit.family, DUnit.rank]
        rcases hcases with h1 | h1
        · have := hsame (by rw [h2, h1])
          have := (C04_size_in_smaller_unit c hcwf).2.2.2.1 (by rw [hcu, h1])
          omega
        · have := hww h1 h2
          have := (C04_size_in_smaller_unit c hcwf).2.2.1 (by rw [hcu, h1])
          omega
      have hmd : u = .month → p.unit = .day → n = dim c.start.y c.start.m := by
        intro h1 h2
        have := hdays h2
        rw [h1] at hc hcal
        simp only [enclosing] at hc
        rw [(C04_named_periods p hv).2.1] at hc
        injection hc with hc
        obtain ⟨e1, e2⟩ := month_period_bounds p.start hv
        rw [hc] at e1 e2
        rw [← hc]; simp only
        omega
      have hyd : u = .year → p.unit = .day → n = if isLeap c.start.y then 366 else 365 := by
        intro h1 h2
        have := hdays h2
        rw [h1] at hc
        simp only [enclosing] at hc
        rw [(C04_named_periods p hv).1] at hc
        injection hc with hc
        obtain ⟨e1, e2⟩ := year_period_bounds p.start.y
        rw [hc] at e1 e2
        have hsucc := dby_succ p.start.y
        rw [← hc]; simp only
        omega
      have hn1 : 1 ≤ n := by
        by_cases hpu : p.unit = u
        · have := hsame hpu; omega
        · -- a strictly smaller unit of the same family
          have : (u = .year ∧ p.unit = .month) ∨ p.unit = .day ∨ p.unit = .weekday := by
            revert hfam hle hu hpu hne; cases u <;> cases p.unit <;> simp [DUnit.family, DUnit.rank]
          rcases this with ⟨h1, h2⟩ | h2 | h2
          · have := hym h1 h2; omega
          · have := hdays h2; omega
          · have := hwdays h2; omega
      refine ⟨c, n, rfl, hcwf, hcu, hcs, hcal, hclo, hchi, ?_, hn, h.symm, hn1, ?_, hsame, hym, hww, hmd, hyd⟩
      · -- the whole request lies inside `c` when it is aligned to its own unit
        intro hpal
        by_cases hpu : p.unit = u
        · -- same unit: `c` is the request itself
          have hpe : p = ⟨p.unit, p.start, 1⟩ := by cases p; simp only at hs; simp [hs]
          have hcs' : c.start = p.start := by
            rw [hpu] at hpal
            cases hu' : u <;> rw [hu'] at hc hpal <;> simp only [enclosing] at hc
            · injection hc with hc; rw [← hc]; rfl
            · obtain ⟨_, _, h3, h4, h5, h6⟩ := (C04_named_periods p hv).2.2.2.2.1 c hc
              have hpal : weekday0 (ord p.start) = 0 := hpal
              have := weekday0_range (ord c.start)
              have : ord c.start = ord p.start := by unfold weekday0 at *; omega
              exact ord_inj _ _ h3 hv this
            · injection hc with hc; rw [← hc]; rfl
            · rw [(C04_named_periods p hv).2.1] at hc; injection hc with hc
              have hpal : p.start.d = 1 := hpal
              rw [← hc]; exact (Date.eq_mk p.start _ _ _ rfl rfl hpal).symm
            · rw [(C04_named_periods p hv).1] at hc; injection hc with hc
              obtain ⟨h1, h2⟩ : p.start.m = 1 ∧ p.start.d = 1 := hpal
              rw [← hc]; exact (Date.eq_mk p.start _ _ _ rfl h1 h2).symm
            · exact absurd hu' hu
          have hce : c = ⟨p.unit, p.start, 1⟩ := by
            cases c; simp only at hcu hcs hcs'; simp [hcu, hcs, hcs', hpu]
          rw [hce, ← hpe]; exact Int.le_refl _
        · have : (u = .year ∧ p.unit = .month) ∨ p.unit = .day ∨ p.unit = .weekday := by
            revert hfam hle hu hpu hne; cases u <;> cases p.unit <;> simp [DUnit.family, DUnit.rank]
          rcases this with ⟨h1, h2⟩ | h2 | h2
          · -- a month inside its year
            rw [h2] at hpal
            have hpal : p.start.d = 1 := hpal
            rw [h1] at hc; simp only [enclosing] at hc
            rw [(C04_named_periods p hv).1] at hc; injection hc with hc
            obtain ⟨_, e2⟩ := year_period_bounds p.start.y
            rw [hc] at e2
            obtain ⟨_, m2⟩ := month_period_bounds p.start hv
            have hpe : p = ⟨.month, ⟨p.start.y, p.start.m, 1⟩, 1⟩ := by
              cases p; simp only at hs h2 hpal ⊢
              rw [hs, h2]; congr 1
              exact Date.eq_mk _ _ _ _ rfl rfl hpal
            have hev : (Date.mk p.start.y p.start.m (dim p.start.y p.start.m)).Valid :=
              ⟨hv.1, hv.2.1, hv.2.2.1, by have := dim_ge p.start.y p.start.m; simp only; omega, by simp only; omega⟩
            have hle98 := ord_le_of_year_le _ hev p.start.y (Int.le_refl _)
            simp only [ord] at hle98
            rw [hpe, m2, e2]; simp only [ord]; omega
          · have : p.hi = p.lo := by simp only [Period.hi, Period.lo, h2, hs]; omega
            omega
          · have : p.hi = p.lo := by simp only [Period.hi, Period.lo, h2, hs]; omega
            omega
      · intro qs hqs
        obtain ⟨ht, hq1⟩ := C04_subperiods_tile c p.unit hcwf hfam' hle' hcal' qs hqs
        have := subperiods_length c p.unit qs n hqs hn
        exact ⟨by omega, ht, hq1⟩

/-- a yearly variable over February 2020: the value for 2020 (9396) over 12; over 29 February
    2020: over 366 -/
example : calcDivide exampleVal true .year ⟨.month, ⟨2020, 2, 1⟩, 1⟩ = .ok (((9396 : Int) : Rat) / ((12 : Int) : Rat)) ∧
    calcDivide exampleVal false .year ⟨.day, ⟨2020, 2, 29⟩, 1⟩ = .ok (((9396 : Int) : Rat) / ((366 : Int) : Rat)) := by
  constructor
  · rw [calcDivide_pass _ _ _ _ (by decide +kernel) rfl (by decide) (by decide)]
    have h1 : enclosing .year ⟨.month, ⟨2020, 2, 1⟩, 1⟩ = .ok ⟨.year, ⟨2020, 1, 1⟩, 1⟩ := by decide +kernel
    have h2 : denominator .month ⟨.year, ⟨2020, 1, 1⟩, 1⟩ = .ok 12 := by decide +kernel
    have h3 : exampleVal ⟨.year, ⟨2020, 1, 1⟩, 1⟩ = 9396 := by decide +kernel
    simp only [h1, h2, h3]
  · rw [calcDivide_pass _ _ _ _ (by decide +kernel) rfl (by decide) (by decide)]
    have h1 : enclosing .year ⟨.day, ⟨2020, 2, 29⟩, 1⟩ = .ok ⟨.year, ⟨2020, 1, 1⟩, 1⟩ := by decide +kernel
    have h2 : denominator .day ⟨.year, ⟨2020, 1, 1⟩, 1⟩ = .ok 366 := by decide +kernel
    have h3 : exampleVal ⟨.year, ⟨2020, 1, 1⟩, 1⟩ = 9396 := by decide +kernel
    simp only [h1, h2, h3]

/-- … and inside the calendar DIVIDE does return for such a request. -/
theorem C03_divide_accepts (val : Period → Int) (store : Bool) (u : DUnit) (p : Period) (hp : p.WF)
    (hr : p.InRange) (hs : p.size = 1) (hfam : p.unit.family = u.family) (hle : p.unit.rank ≤ u.rank) :
    ∃ r, calcDivide val store u p = .ok r := by
  have hne := hp.1
  have hu : u ≠ .eternity := by
    intro hu; rw [hu] at hfam
    revert hfam hne; cases p.unit <;> simp [DUnit.family]
  have hw : ¬ unitWeight u < unitWeight p.unit := weight_guard_table u p.unit hfam hle hu
  obtain ⟨c, hc, hcwf, hcu, _, hcr, _⟩ := enclosing_total u p hp hr hu
  have hwm : ¬ (c.unit = .week ∧ p.unit = .month) := by
    rintro ⟨h1, h2⟩; rw [hcu] at h1; rw [h1, h2] at hfam; simp [DUnit.family] at hfam
  obtain ⟨n, hn⟩ := denominator_total p.unit c hcwf hcr (by rw [hcu]; exact hw) hne hwm
  exact ⟨_, by rw [calcDivide_pass val store u p hw hs hu hne, hc]; simp only; rw [hn]⟩

example : ∃ r, calcDivide exampleVal true .week ⟨.weekday, ⟨2021, 1, 3⟩, 1⟩ = .ok r :=
  C03_divide_accepts _ _ _ _ (by decide +kernel) (by decide +kernel) rfl rfl (by decide)

/-! ## the accept / reject matrix -/

/-- Plain request, complete and unconditional: it is refused exactly when the variable is not
    eternal and the period is not one definition period; otherwise it is the variable's value
    for that period. Whether values are stored plays no role. -/
theorem C03_plain_matrix (val : Period → Int) (store : Bool) (u : DUnit) (p : Period) :
    ((∃ e, calcPlain val store u p = .error e) ↔ (u ≠ .eternity ∧ (p.unit ≠ u ∨ p.size ≠ 1))) ∧
    ((u = .eternity ∨ (p.unit = u ∧ p.size = 1)) → calcPlain val store u p = .ok (val p)) := by
  refine ⟨⟨?_, fun ⟨h1, h2⟩ => calcPlain_err val store u p h1 h2⟩, calcPlain_ok val store u p⟩
  rintro ⟨e, he⟩
  by_cases hu : u = .eternity
  · rw [calcPlain_ok val store u p (Or.inl hu)] at he; cases he
  · refine ⟨hu, ?_⟩
    by_cases h1 : p.unit = u
    · by_cases h2 : p.size = 1
      · rw [calcPlain_ok val store u p (Or.inr ⟨h1, h2⟩)] at he; cases he
      · exact Or.inr h2
    · exact Or.inl h1

example : calcPlain exampleVal true .month ⟨.month, ⟨2020, 2, 1⟩, 1⟩ = .ok 9427 ∧
    calcPlain exampleVal true .eternity ⟨.year, ⟨2020, 2, 1⟩, 3⟩ = .ok 9427 := by decide +kernel

/-- The refusals of ADD, unconditionally (any period, any start date, any size): an eternal
    variable, an eternal period, a period whose unit is shorter than the definition period. -/
theorem C03_add_rejects (val : Period → Int) (store : Bool) (u : DUnit) (p : Period)
    (h : u = .eternity ∨ p.unit = .eternity ∨ p.unit.span < u.span) :
    ∃ e, calcAdd val store u p = .error e := by
  by_cases hu : u = .eternity
  · rw [hu]; exact calcAdd_guard_eternal_variable val store p
  by_cases hp : p.unit = .eternity
  · exact calcAdd_guard_eternal_period val store u p hp
  have hsp : p.unit.span < u.span := by
    rcases h with h | h | h
    · exact absurd h hu
    · exact absurd h hp
    · exact h
  rcases (add_table u p.unit hu hp).2 hsp with hw | ⟨h1, h2⟩
  · exact calcAdd_guard_weight val store u p hw
  · -- months of a week: refused by the period algebra
    by_cases hw : unitWeight u > unitWeight p.unit
    · exact calcAdd_guard_weight val store u p hw
    · rw [calcAdd_pass val store u p hw hu hp]
      have : ∃ e, p.subperiods u = .error e := by
        rw [h1]
        unfold Period.subperiods
        split
        · exact ⟨_, rfl⟩
        · simp only
          cases p.firstMonth with
          | error e => exact ⟨e, rfl⟩
          | ok b =>
            simp only [bind, Except.bind, Period.sizeInMonths, h2]
            exact ⟨_, rfl⟩
      obtain ⟨e, he⟩ := this
      exact ⟨e, by rw [he]⟩

example : ∃ e, calcAdd exampleVal true .month ⟨.week, ⟨2020, 1, 6⟩, 8⟩ = .error e :=
  C03_add_rejects _ _ _ _ (Or.inr (Or.inr (by decide)))

/-- The refusals of DIVIDE, unconditionally: an eternal variable, an eternal period, a size
    other than one, a period whose unit is longer than the definition period. -/
theorem C03_divide_rejects (val : Period → Int) (store : Bool) (u : DUnit) (p : Period)
    (h : u = .eternity ∨ p.unit = .eternity ∨ p.size ≠ 1 ∨ u.span < p.unit.span) :
    ∃ e, calcDivide val store u p = .error e := by
  by_cases hu : u = .eternity
  · exact calcDivide_guard val store u p (Or.inr (Or.inr (Or.inl hu)))
  by_cases hp : p.unit = .eternity
  · exact calcDivide_guard val store u p (Or.inr (Or.inr (Or.inr hp)))
  by_cases hs : p.size = 1
  · have hsp : u.span < p.unit.span := by
      rcases h with h | h | h | h
      · exact absurd h hu
      · exact absurd h hp
      · exact absurd hs h
      · exact h
    rcases (divide_table u p.unit hu hp).2 hsp with hw | ⟨h1, h2⟩
    · exact calcDivide_guard val store u p (Or.inl hw)
    · -- months in a week: the denominator does not exist
      by_cases hw : unitWeight u < unitWeight p.unit
      · exact calcDivide_guard val store u p (Or.inl hw)
      · rw [calcDivide_pass val store u p hw hs hu hp]
        cases hc : enclosing u p with
        | error e => exact ⟨e, rfl⟩
        | ok c =>
          simp only
          have hcu := (enclosing_shape u hu p c hc).1
          rw [h2]
          simp only [denominator, Period.sizeInMonths, hcu, h1]
          exact ⟨_, rfl⟩
  · exact calcDivide_guard val store u p (Or.inr (Or.inl hs))

example : ∃ e, calcDivide exampleVal true .week ⟨.month, ⟨2020, 1, 1⟩, 1⟩ = .error e :=
  C03_divide_rejects _ _ _ _ (Or.inr (Or.inr (Or.inr (by decide))))

/-- **The complete matrix.** For a dated request inside the calendar, each of the three modes
    is refused in exactly the listed situations and returns a value in every other cell. The
    code decides with the generated unit weights plus what the period algebra can compute; the
    case analysis over that table shows the outcome is the calendar duration order:
    plain — the period must be one definition period (anything goes for an eternal variable);
    ADD — the variable is not eternal and its definition period is not longer than the period's unit;
    DIVIDE — the variable is not eternal, the size is one and the definition period is not shorter
    than the period's unit. -/
theorem C03_reject_matrix (val : Period → Int) (store : Bool) (u : DUnit) (p : Period)
    (hp : p.WF) (hr : p.InRange) :
    ((∃ e, calcPlain val store u p = .error e) ↔ (u ≠ .eternity ∧ (p.unit ≠ u ∨ p.size ≠ 1))) ∧
    ((∃ e, calcAdd val store u p = .error e) ↔ (u = .eternity ∨ p.unit.span < u.span)) ∧
    ((∃ e, calcDivide val store u p = .error e) ↔ (u = .eternity ∨ p.size ≠ 1 ∨ u.span < p.unit.span)) ∧
    (¬ (u ≠ .eternity ∧ (p.unit ≠ u ∨ p.size ≠ 1)) → calcPlain val store u p = .ok (val p)) ∧
    (¬ (u = .eternity ∨ p.unit.span < u.span) → ∃ r, calcAdd val store u p = .ok r) ∧
    (¬ (u = .eternity ∨ p.size ≠ 1 ∨ u.span < p.unit.span) → ∃ r, calcDivide val store u p = .ok r) := by
  have hne := hp.1
  -- accept sides first
  have hAdd : ¬ (u = .eternity ∨ p.unit.span < u.span) → ∃ r, calcAdd val store u p = .ok r := by
    intro hn
    have hu : u ≠ .eternity := fun h => hn (Or.inl h)
    have hsp : ¬ p.unit.span < u.span := fun h => hn (Or.inr h)
    have ht := add_table u p.unit hu hne
    have hw : ¬ unitWeight u > unitWeight p.unit := fun h => hsp (ht.1 (Or.inl h))
    have hmw : ¬ (u = .month ∧ p.unit = .week) := fun h => hsp (ht.1 (Or.inr h))
    obtain ⟨qs, hq⟩ := subperiods_total p u hp hr hw hu hmw
    exact ⟨_, by rw [calcAdd_pass val store u p hw hu hne, hq]⟩
  have hDiv : ¬ (u = .eternity ∨ p.size ≠ 1 ∨ u.span < p.unit.span) → ∃ r, calcDivide val store u p = .ok r := by
    intro hn
    have hu : u ≠ .eternity := fun h => hn (Or.inl h)
    have hs : p.size = 1 := by
      by_cases hs : p.size = 1
      · exact hs
      · exact absurd (Or.inr (Or.inl hs)) hn
    have hsp : ¬ u.span < p.unit.span := fun h => hn (Or.inr (Or.inr h))
    have ht := divide_table u p.unit hu hne
    have hw : ¬ unitWeight u < unitWeight p.unit := fun h => hsp (ht.1 (Or.inl h))
    obtain ⟨c, hc, hcwf, hcu, _, hcr, _⟩ := enclosing_total u p hp hr hu
    have hwm : ¬ (c.unit = .week ∧ p.unit = .month) := by
      rintro ⟨h1, h2⟩; rw [hcu] at h1; exact hsp (ht.1 (Or.inr ⟨h1, h2⟩))
    obtain ⟨n, hn'⟩ := denominator_total p.unit c hcwf hcr (by rw [hcu]; exact hw) hne hwm
    exact ⟨_, by rw [calcDivide_pass val store u p hw hs hu hne, hc]; simp only; rw [hn']⟩
  refine ⟨(C03_plain_matrix val store u p).1, ⟨?_, ?_⟩, ⟨?_, ?_⟩, ?_, hAdd, hDiv⟩
  · rintro ⟨e, he⟩
    by_cases hn : u = .eternity ∨ p.unit.span < u.span
    · exact hn
    · obtain ⟨r, hr'⟩ := hAdd hn; rw [hr'] at he; cases he
  · intro h
    exact C03_add_rejects val store u p (by rcases h with h | h; exact Or.inl h; exact Or.inr (Or.inr h))
  · rintro ⟨e, he⟩
    by_cases hn : u = .eternity ∨ p.size ≠ 1 ∨ u.span < p.unit.span
    · exact hn
    · obtain ⟨r, hr'⟩ := hDiv hn; rw [hr'] at he; cases he
  · intro h
    exact C03_divide_rejects val store u p (by
      rcases h with h | h | h
      · exact Or.inl h
      · exact Or.inr (Or.inr (Or.inl h))
      · exact Or.inr (Or.inr (Or.inr h)))
  · intro hn
    apply (C03_plain_matrix val store u p).2
    by_cases hu : u = .eternity
    · exact Or.inl hu
    · refine Or.inr ⟨?_, ?_⟩
      · by_cases h1 : p.unit = u
        · exact h1
        · exact absurd ⟨hu, Or.inl h1⟩ hn
      · by_cases h2 : p.size = 1
        · exact h2
        · exact absurd ⟨hu, Or.inr h2⟩ hn

example : (Period.mk .week ⟨2020, 12, 28⟩ 2).WF ∧ (Period.mk .week ⟨2020, 12, 28⟩ 2).InRange ∧
    (DUnit.week.span < DUnit.month.span) ∧ ¬ (DUnit.week.span < DUnit.weekday.span) := by decide +kernel

/-- The eternity period (the remaining column of the matrix): refused by ADD and DIVIDE whatever
    the variable, and by a plain request unless the variable is eternal. -/
theorem C03_reject_matrix_eternity_period (val : Period → Int) (store : Bool) (u : DUnit) (p : Period)
    (hp : p.unit = .eternity) :
    ((∃ e, calcPlain val store u p = .error e) ↔ u ≠ .eternity) ∧
    (u = .eternity → calcPlain val store u p = .ok (val p)) ∧
    (∃ e, calcAdd val store u p = .error e) ∧ (∃ e, calcDivide val store u p = .error e) := by
  refine ⟨?_, fun h => calcPlain_ok val store u p (Or.inl h),
    C03_add_rejects val store u p (Or.inr (Or.inl hp)), C03_divide_rejects val store u p (Or.inr (Or.inl hp))⟩
  rw [(C03_plain_matrix val store u p).1]
  constructor
  · exact fun h => h.1
  · intro hu
    exact ⟨hu, Or.inl (by rw [hp]; exact fun h => hu h.symm)⟩

example : Period.eternity.unit = .eternity := rfl

/-! ## each situation the property lists -/

/-- wrong unit, plain request -/
theorem C03_wrong_unit_err (val : Period → Int) (store : Bool) (u : DUnit) (p : Period)
    (hu : u ≠ .eternity) (h : p.unit ≠ u) : ∃ e, calcPlain val store u p = .error e :=
  calcPlain_err val store u p hu (Or.inl h)

example : ∃ e, calcPlain exampleVal false .day ⟨.month, ⟨2020, 1, 1⟩, 1⟩ = .error e :=
  C03_wrong_unit_err _ _ _ _ (by decide) (by decide)

/-- size above one: refused by a plain request and by DIVIDE -/
theorem C03_size_gt_one_err (val : Period → Int) (store : Bool) (u : DUnit) (p : Period) (h : 1 < p.size) :
    (u ≠ .eternity → ∃ e, calcPlain val store u p = .error e) ∧ (∃ e, calcDivide val store u p = .error e) :=
  ⟨fun hu => calcPlain_err val store u p hu (Or.inr (by omega)),
   C03_divide_rejects val store u p (Or.inr (Or.inr (Or.inl (by omega))))⟩

example : (1 : Int) < (Period.mk .month ⟨2020, 1, 1⟩ 2).size := by decide

/-- an eternal variable, or the eternal period, cannot be summed -/
theorem C03_eternal_add_err (val : Period → Int) (store : Bool) (u : DUnit) (p : Period)
    (h : u = .eternity ∨ p.unit = .eternity) : ∃ e, calcAdd val store u p = .error e :=
  C03_add_rejects val store u p (by rcases h with h | h; exact Or.inl h; exact Or.inr (Or.inl h))

example : ∃ e, calcAdd exampleVal true .year Period.eternity = .error e :=
  C03_eternal_add_err _ _ _ _ (Or.inr rfl)

/-- an eternal variable, or the eternal period, cannot be divided -/
theorem C03_eternal_divide_err (val : Period → Int) (store : Bool) (u : DUnit) (p : Period)
    (h : u = .eternity ∨ p.unit = .eternity) : ∃ e, calcDivide val store u p = .error e :=
  C03_divide_rejects val store u p (by rcases h with h | h; exact Or.inl h; exact Or.inr (Or.inl h))

example : ∃ e, calcDivide exampleVal true .eternity ⟨.month, ⟨2020, 1, 1⟩, 1⟩ = .error e :=
  C03_eternal_divide_err _ _ _ _ (Or.inl rfl)

/-- a period of a unit shorter than the definition period cannot be summed, whatever its size -/
theorem C03_shorter_than_definition_add_err (val : Period → Int) (store : Bool) (u : DUnit) (p : Period)
    (h : p.unit.span < u.span) : ∃ e, calcAdd val store u p = .error e :=
  C03_add_rejects val store u p (Or.inr (Or.inr h))

example : ∃ e, calcAdd exampleVal true .month ⟨.day, ⟨2020, 1, 1⟩, 40⟩ = .error e :=
  C03_shorter_than_definition_add_err _ _ _ _ (by decide)

/-- a period of a unit longer than the definition period cannot be divided -/
theorem C03_longer_than_definition_divide_err (val : Period → Int) (store : Bool) (u : DUnit) (p : Period)
    (h : u.span < p.unit.span) : ∃ e, calcDivide val store u p = .error e :=
  C03_divide_rejects val store u p (Or.inr (Or.inr (Or.inr h)))

example : ∃ e, calcDivide exampleVal true .month ⟨.year, ⟨2020, 1, 1⟩, 1⟩ = .error e :=
  C03_longer_than_definition_divide_err _ _ _ _ (by decide)

/-! ## the options of `population(variable, period, options)` -/

/-- ADD and DIVIDE together are refused, whatever else is asked -/
theorem C03_both_options_err (val : Period → Int) (store : Bool) (u : DUnit) (parg : Option Period)
    (os : List Opt) (h1 : .add ∈ os) (h2 : .divide ∈ os) :
    ∃ e, callWithOptions val store u parg (some os) = .error e := by
  unfold callWithOptions
  cases parg with
  | none => exact ⟨_, rfl⟩
  | some p =>
    simp only
    rw [if_pos ⟨List.contains_iff_mem.2 h1, List.contains_iff_mem.2 h2⟩]
    exact ⟨_, rfl⟩

example : ∃ e, callWithOptions exampleVal true .month (some ⟨.year, ⟨2020, 1, 1⟩, 1⟩) (some [.divide, .other, .add]) = .error e :=
  C03_both_options_err _ _ _ _ _ (by decide) (by decide)

/-- a sequence of options naming neither ADD nor DIVIDE (unknown options, or none at all) is refused -/
theorem C03_unknown_option_err (val : Period → Int) (store : Bool) (u : DUnit) (parg : Option Period)
    (os : List Opt) (h1 : .add ∉ os) (h2 : .divide ∉ os) :
    ∃ e, callWithOptions val store u parg (some os) = .error e := by
  unfold callWithOptions
  cases parg with
  | none => exact ⟨_, rfl⟩
  | some p =>
    have c1 : os.contains .add = false := by
      cases hc : os.contains .add
      · rfl
      · exact absurd (List.contains_iff_mem.1 hc) h1
    have c2 : os.contains .divide = false := by
      cases hc : os.contains .divide
      · rfl
      · exact absurd (List.contains_iff_mem.1 hc) h2
    simp only [c1, c2, Bool.false_eq_true, false_and, if_false]
    exact ⟨_, rfl⟩

example : ∃ e, callWithOptions exampleVal true .month (some ⟨.month, ⟨2020, 1, 1⟩, 1⟩) (some [.other]) = .error e :=
  C03_unknown_option_err _ _ _ _ _ (by decide) (by decide)

/-- otherwise the call is exactly the plain, ADD or DIVIDE request (so every statement above
    transfers to the formula-side API) -/
theorem C03_options_dispatch (val : Period → Int) (store : Bool) (u : DUnit) (p : Period) (os : List Opt) :
    callWithOptions val store u (some p) none = (calcPlain val store u p).map (fun (v : Int) => (v : Rat)) ∧
    (.add ∈ os → .divide ∉ os →
      callWithOptions val store u (some p) (some os) = (calcAdd val store u p).map (fun (v : Int) => (v : Rat))) ∧
    (.divide ∈ os → .add ∉ os →
      callWithOptions val store u (some p) (some os) = calcDivide val store u p) := by
  refine ⟨rfl, ?_, ?_⟩
  · intro h1 h2
    have c2 : os.contains .divide = false := by
      cases hc : os.contains .divide
      · rfl
      · exact absurd (List.contains_iff_mem.1 hc) h2
    unfold callWithOptions
    simp only [List.contains_iff_mem.2 h1, c2, Bool.false_eq_true, and_false, if_false, if_true]
  · intro h1 h2
    have c1 : os.contains .add = false := by
      cases hc : os.contains .add
      · rfl
      · exact absurd (List.contains_iff_mem.1 hc) h2
    unfold callWithOptions
    simp only [List.contains_iff_mem.2 h1, c1, Bool.false_eq_true, false_and, if_false, if_true]

example : callWithOptions exampleVal true .month (some ⟨.year, ⟨2020, 1, 1⟩, 1⟩) (some [.other, .add]) = .ok 114760 := by
  decide +kernel

/-- the holder's own period check (`Holder._set`, reached only when the value is stored) never
    decides anything: every request gives the same result in both configurations -/
theorem C03_store_irrelevant (val : Period → Int) (u : DUnit) (parg : Option Period) (opts : Option (List Opt)) :
    callWithOptions val true u parg opts = callWithOptions val false u parg opts := by
  have hplain : ∀ q, calcPlain val true u q = calcPlain val false u q := by
    intro q
    by_cases h : u = .eternity ∨ (q.unit = u ∧ q.size = 1)
    · rw [calcPlain_ok val true u q h, calcPlain_ok val false u q h]
    · have hu : u ≠ .eternity := fun hu => h (Or.inl hu)
      obtain ⟨e, he⟩ := checkPeriodConsistency_err u q hu (by
        by_cases h1 : q.unit = u
        · by_cases h2 : q.size = 1
          · exact absurd (Or.inr ⟨h1, h2⟩) h
          · exact Or.inr h2
        · exact Or.inl h1)
      unfold calcPlain; rw [he]; rfl
  have hfun : calcPlain val true u = calcPlain val false u := funext hplain
  unfold callWithOptions calcAdd calcDivide
  rw [hfun]

example : callWithOptions exampleVal true .day (some ⟨.month, ⟨2020, 1, 1⟩, 1⟩) none =
    callWithOptions exampleVal false .day (some ⟨.month, ⟨2020, 1, 1⟩, 1⟩) none := C03_store_irrelevant _ _ _ _

/-! ## the period argument as the caller writes it, and `calculate_output` -/

/-- A `Period` object reaches every entry point unchanged; an argument that is neither a period
    nor text is refused by every entry point (and by `check_period_validity`). -/
theorem C03_argument_kinds (val : Period → Int) (store : Bool) (u : DUnit) (p : Period)
    (opts : Option (List Opt)) :
    calcPlainArg val store u (.period p) = calcPlain val store u p ∧
    calcAddArg val store u (.period p) = calcAdd val store u p ∧
    calcDivideArg val store u (.period p) = calcDivide val store u p ∧
    callWithArg val store u (.period p) opts = callWithOptions val store u (some p) opts ∧
    (∃ e, calcPlainArg val store u .invalid = .error e) ∧ (∃ e, calcAddArg val store u .invalid = .error e) ∧
    (∃ e, calcDivideArg val store u .invalid = .error e) ∧ (∃ e, callWithArg val store u .invalid opts = .error e) ∧
    (∃ e, checkPeriodValidity .invalid = .error e) ∧
    checkPeriodValidity (.period p) = .ok () ∧ ∀ cs, checkPeriodValidity (.text cs) = .ok () :=
  ⟨rfl, rfl, rfl, rfl, ⟨_, rfl⟩, ⟨_, rfl⟩, ⟨_, rfl⟩, ⟨_, rfl⟩, ⟨_, rfl⟩, rfl, fun _ => rfl⟩

example : calcAddArg exampleVal true .month (.period ⟨.year, ⟨2020, 1, 1⟩, 1⟩) = .ok 114760 := by decide +kernel

/-- The period written as text (`str(period)`, parsed back by `periods.period` at the entry
    point): for every period aligned to its own unit with four-digit (ISO) years the request is
    the request for the period itself — except that twelve months print as one year, so a
    twelve-month period is served as the year period with the same start and the same days. -/
theorem C03_text_argument (val : Period → Int) (store : Bool) (u : DUnit) (p : Period)
    (opts : Option (List Opt)) (hwf : p.WF) (hal : OwnAligned p) (hdom : InTextDomain p) :
    resolveArg (.text p.text) = .ok (canon p) ∧
    calcPlainArg val store u (.text p.text) = calcPlain val store u (canon p) ∧
    calcAddArg val store u (.text p.text) = calcAdd val store u (canon p) ∧
    calcDivideArg val store u (.text p.text) = calcDivide val store u (canon p) ∧
    callWithArg val store u (.text p.text) opts = callWithOptions val store u (some (canon p)) opts ∧
    (¬ (p.unit = .month ∧ p.size = 12) → canon p = p) ∧
    ((p.unit = .month ∧ p.size = 12) → canon p = ⟨.year, p.start, 1⟩ ∧ (canon p).lo = p.lo ∧ (canon p).hi = p.hi) := by
  have h : resolveArg (.text p.text) = .ok (canon p) := parse_text p hwf hal hdom
  refine ⟨h, ?_, ?_, ?_, ?_, ?_, ?_⟩
  · unfold calcPlainArg; rw [h]; rfl
  · unfold calcAddArg; rw [h]; rfl
  · unfold calcDivideArg; rw [h]; rfl
  · unfold callWithArg; rw [h]
  · intro hn; unfold canon; rw [if_neg hn]
  · intro hy
    unfold canon; rw [if_pos hy]
    refine ⟨rfl, rfl, ?_⟩
    simp only [Period.hi, hy.1, hy.2, Int.mul_one]

/-- ISO-year boundaries: the week that begins on Monday 30 December 2019 prints as `2020-W01`
    and is served as that very week; an int is the calendar year -/
example : (Period.mk .week ⟨2019, 12, 30⟩ 1).text = "2020-W01".toList ∧
    resolveArg (.text "2020-W01".toList) = .ok ⟨.week, ⟨2019, 12, 30⟩, 1⟩ ∧
    resolveArg (.text "2020-W53-7".toList) = .ok ⟨.weekday, ⟨2021, 1, 3⟩, 1⟩ ∧
    resolveArg (.text (intText 2020)) = .ok ⟨.year, ⟨2020, 1, 1⟩, 1⟩ ∧
    calcAddArg exampleVal true .weekday (.text "week:2020-W01:2".toList) =
      calcAdd exampleVal true .weekday ⟨.week, ⟨2019, 12, 30⟩, 2⟩ := by decide +kernel

/-- `Simulation.calculate_output` is the plain, ADD or DIVIDE request according to what the variable
    declares, so everything above transfers to it. -/
theorem C03_calculate_output_dispatch (val : Period → Int) (store : Bool) (u : DUnit) (a : PArg) :
    calcOutput val store u none a = (calcPlainArg val store u a).map (fun (v : Int) => (v : Rat)) ∧
    calcOutput val store u (some .add) a = (calcAddArg val store u a).map (fun (v : Int) => (v : Rat)) ∧
    calcOutput val store u (some .divide) a = calcDivideArg val store u a :=
  ⟨rfl, rfl, rfl⟩

example : calcOutput exampleVal true .month (some .add) (.period ⟨.year, ⟨2020, 1, 1⟩, 1⟩) = .ok 114760 := by
  decide +kernel

/-! ## beyond the same-family pairs: days tile every period; ADD is coherent across levels -/

/-- A variable defined per day, summed over ANY dated period — also a week or weekday period, which
    days tile although they belong to the other calendar family: when ADD returns, it returns the sum
    of the variable over the consecutive one-day pieces that cover exactly the days of the period.
    (The same holds for a per-`weekday` variable over month, week, day and weekday periods.) -/
theorem C03_add_days_any_unit (val : Period → Int) (store : Bool) (u : DUnit) (p : Period) (hp : p.WF)
    (hu : u = .day ∨ (u = .weekday ∧ p.unit ≠ .year))
    (r : Int) (h : calcAdd val store u p = .ok r) :
    ∃ qs, p.subperiods u = .ok qs ∧ Tiles qs p.lo p.hi ∧ (∀ q ∈ qs, q.unit = u ∧ q.size = 1) ∧
      r = (qs.map val).sum := by
  have hne := hp.1
  have hue : u ≠ .eternity := by rcases hu with hu | ⟨hu, _⟩ <;> rw [hu] <;> decide
  have hw : ¬ unitWeight u > unitWeight p.unit := by
    intro hw
    obtain ⟨e, he⟩ := calcAdd_guard_weight val store u p hw
    rw [he] at h; cases h
  rw [calcAdd_pass val store u p hw hue hne] at h
  cases hq : p.subperiods u with
  | error e => rw [hq] at h; cases h
  | ok qs =>
    rw [hq] at h; injection h with h
    obtain ⟨ht, hq1⟩ := C04_subperiods_days_any_unit p u hp hu qs hq
    exact ⟨qs, rfl, ht, hq1, h.symm⟩

example : calcAdd exampleVal true .day ⟨.week, ⟨2020, 12, 28⟩, 1⟩ = .ok 68327 := by decide +kernel

/-- the sub-sums of an ADD over a list of periods, with the day pieces each one was summed over -/
theorem add_pieces (val : Period → Int) (store : Bool) : ∀ (ms : List Period) (rs : List Int),
    (∀ m ∈ ms, m.WF) → ms.mapM (calcAdd val store .day) = .ok rs →
    ∃ dss, Piecewise (fun m ds => m.subperiods .day = .ok ds) ms dss ∧ rs.sum = (dss.flatten.map val).sum := by
  intro ms
  induction ms with
  | nil =>
    intro rs _ h
    simp only [List.mapM_nil, pure, Except.pure] at h
    injection h with h; subst h
    exact ⟨[], trivial, rfl⟩
  | cons m ms ih =>
    intro rs hwf h
    simp only [List.mapM_cons] at h
    cases hm : calcAdd val store .day m with
    | error e => rw [hm] at h; cases h
    | ok rm =>
      rw [hm] at h
      simp only [bind, Except.bind] at h
      cases hr : ms.mapM (calcAdd val store .day) with
      | error e => rw [hr] at h; cases h
      | ok rest =>
        rw [hr] at h
        simp only [pure, Except.pure] at h
        injection h with h; subst h
        obtain ⟨ds, hds, _, _, hsum⟩ := C03_add_days_any_unit val store .day m (hwf m List.mem_cons_self) (Or.inl rfl) rm hm
        obtain ⟨dss, hP, hS⟩ := ih rest (fun x hx => hwf x (List.mem_cons_of_mem _ hx)) hr
        refine ⟨ds :: dss, ⟨hds, hP⟩, ?_⟩
        simp only [List.sum_cons, List.flatten_cons, List.map_append, List.sum_append, hsum, hS]

/-- ADD is coherent across levels: a per-day variable summed over a year (or several months) is the sum,
    month by month, of the same variable summed over each month — the days of the months are exactly
    the days of the year (`C04_subperiods_transitive`). -/
theorem C03_add_nested (val : Period → Int) (store : Bool) (p : Period) (hp : p.WF)
    (hu : p.unit = .year ∨ p.unit = .month) (hal : p.start.d = 1)
    (ms : List Period) (hm : p.subperiods .month = .ok ms)
    (rs : List Int) (hrs : ms.mapM (calcAdd val store .day) = .ok rs)
    (r : Int) (h : calcAdd val store .day p = .ok r) : r = rs.sum := by
  obtain ⟨ds, hds, _, _, hsum⟩ := C03_add_days_any_unit val store .day p hp (Or.inl rfl) r h
  have hpieces := subperiods_month_pieces p hp.2.1 ms hm
  have hwf : ∀ m ∈ ms, m.WF := fun m hmm => by
    obtain ⟨h1, h2, h3⟩ := hpieces m hmm
    exact ⟨by rw [h1]; decide, h3, by omega⟩
  obtain ⟨dss, hP, hS⟩ := add_pieces val store ms rs hwf hrs
  have := (C04_subperiods_transitive p hp hu hal ms hm dss hP).2.2 ds hds
  rw [hsum, hS, this]

example : (Period.mk .month ⟨2020, 2, 1⟩ 2).subperiods .month = .ok [⟨.month, ⟨2020, 2, 1⟩, 1⟩, ⟨.month, ⟨2020, 3, 1⟩, 1⟩] ∧
    [Period.mk .month ⟨2020, 2, 1⟩ 1, ⟨.month, ⟨2020, 3, 1⟩, 1⟩].mapM (calcAdd exampleVal true .day) = .ok [273789, 293601] ∧
    calcAdd exampleVal true .day ⟨.month, ⟨2020, 2, 1⟩, 2⟩ = .ok (273789 + 293601) := by
  refine ⟨?_, ?_, ?_⟩ <;> decide +kernel

/-- A variable of any dated definition unit divided over ONE DAY — also a per-week variable, which lies
    in the other calendar family: when DIVIDE returns, it returns the variable's value for `c`, the
    definition-unit-long period aligned to its unit that contains that day, divided by the number of days
    of `c` (7 for a week, 28–31 for a month, 365/366 for a year, 1 for a day or weekday). -/
theorem C03_divide_over_day_any_unit (val : Period → Int) (store : Bool) (u : DUnit) (p : Period) (hp : p.WF)
    (hd : p.unit = .day) (r : Rat) (h : calcDivide val store u p = .ok r) :
    ∃ (c : Period) (n : Int), enclosing u p = .ok c ∧ c.WF ∧ c.unit = u ∧ c.size = 1 ∧ AlignedTo c.start u ∧
      c.lo ≤ p.lo ∧ p.hi ≤ c.hi ∧ n = c.hi - c.lo + 1 ∧ 1 ≤ n ∧ r = (val c : Rat) / (n : Rat) ∧
      (u = .week → n = 7) := by
  obtain ⟨hne, hv, hsz⟩ := hp
  have hs : p.size = 1 := by
    by_cases hs : p.size = 1
    · exact hs
    · obtain ⟨e, he⟩ := calcDivide_guard val store u p (Or.inr (Or.inl hs)); rw [he] at h; cases h
  have hw : ¬ unitWeight u < unitWeight p.unit := by
    intro hw
    obtain ⟨e, he⟩ := calcDivide_guard val store u p (Or.inl hw); rw [he] at h; cases h
  have hu : u ≠ .eternity := by
    intro hu
    obtain ⟨e, he⟩ := calcDivide_guard val store u p (Or.inr (Or.inr (Or.inl hu))); rw [he] at h; cases h
  rw [calcDivide_pass val store u p hw hs hu hne] at h
  cases hc : enclosing u p with
  | error e => rw [hc] at h; cases h
  | ok c =>
    rw [hc] at h; simp only at h
    cases hn : denominator p.unit c with
    | error e => rw [hn] at h; cases h
    | ok n =>
      rw [hn] at h; simp only at h
      injection h with h
      obtain ⟨hcwf, hcu, hcs, hcal, hclo, hchi⟩ := enclosing_spec u p c hv hu hc
      have hlohi := lo_le_hi c hcwf
      rw [hd] at hn
      have hdays : n = c.hi - c.lo + 1 := (C04_days_count c hcwf n).2 hn
      have hphi : p.hi = p.lo := by simp only [Period.hi, Period.lo, hd, hs]; omega
      refine ⟨c, n, rfl, hcwf, hcu, hcs, hcal, hclo, by omega, hdays, by omega, h.symm, ?_⟩
      intro hwk
      have := (C04_size_in_smaller_unit c hcwf).2.2.1 (by rw [hcu, hwk])
      omega

example : calcDivide exampleVal true .week ⟨.day, ⟨2021, 1, 3⟩, 1⟩ = .ok 1394 := by decide +kernel

end OFCore
