import OFCore.RuleSys
import OFCore.GeneratedGuards
/-!
# C01 — the engine model serves a read exactly when the code's source says so (translator tie)

`RuleSys.servedPeriod` and the ADD branch of `RuleSys.elabRead` are the engine model's transcription of
`Simulation._check_period_consistency` and of the guards of `Simulation.calculate_add`.
`OFCore.Generated.Guards` is regenerated from the source on every run (`translate.py`); these
theorems are therefore re-checked against what the code says now.
-/
set_option linter.unusedSimpArgs false
namespace OFCore.RuleSys
open OFCore OFCore.Generated

/-- a plain read of a variable of definition unit `u` at period `q` is served — under `q` itself —
    exactly when none of the guards of `_check_period_consistency` raises -/
theorem C01_tie_served_period (u : DUnit) (q : Period) :
    servedPeriod u q = if Guards.checkPeriodConsistency_raises u q.unit q.size then
        (if q.unit ≠ u then .error "unit" else .error "size") else .ok q := by
  obtain ⟨pu, st, sz⟩ := q
  by_cases h : sz = 1
  · subst h; cases u <;> cases pu <;> simp [Tie.consistencyGuards, Tie.holderSetGuards, Tie.addGuards, Tie.divideGuards, Tie.dated, Tie.enclosingName, Tie.denominatorName, servedPeriod, Guards.checkPeriodConsistency_raises]
  · cases u <;> cases pu <;> simp [Tie.consistencyGuards, Tie.holderSetGuards, Tie.addGuards, Tie.divideGuards, Tie.dated, Tie.enclosingName, Tie.denominatorName, servedPeriod, Guards.checkPeriodConsistency_raises, h]

/-- the three guards of `calculate_add`, as the engine model tests them before it splits the period -/
def addRefused (du pu : DUnit) : Bool :=
  decide (unitWeight du > unitWeight pu) || decide (du = .eternity) || decide (pu = .eternity)

/-- … are the code's guards -/
theorem C01_tie_add_guards (du pu : DUnit) (sz : Int) :
    addRefused du pu = Guards.calculateAdd_raises du pu sz := by
  cases du <;> cases pu <;>
    simp [Tie.consistencyGuards, Tie.holderSetGuards, Tie.addGuards, Tie.divideGuards, Tie.dated, Tie.enclosingName, Tie.denominatorName, addRefused, Guards.calculateAdd_raises, unitWeight, Generated.unitWeightTable,
      Generated.isoformatUnits, Generated.isocalendarUnits, DUnit.name, List.lookup]

/-- an ADD read that the code's guards refuse elaborates to the failing expression -/
theorem C01_tie_add_read_refused (d : Decl) (w : Nat) (wv : Var) (q : Period)
    (hw : d.vars[w]? = some wv) (h : Guards.calculateAdd_raises wv.unit q.unit q.size = true) :
    elabRead d w (.ok q) true = .bad := by
  rw [← C01_tie_add_guards] at h
  unfold elabRead
  rw [hw]
  simp only [addRefused, Bool.or_eq_true, decide_eq_true_eq] at h
  rcases h with (h | h) | h
  · simp [Tie.consistencyGuards, Tie.holderSetGuards, Tie.addGuards, Tie.divideGuards, Tie.dated, Tie.enclosingName, Tie.denominatorName, h]
  · by_cases h1 : unitWeight wv.unit > unitWeight q.unit <;> simp [Tie.consistencyGuards, Tie.holderSetGuards, Tie.addGuards, Tie.divideGuards, Tie.dated, Tie.enclosingName, Tie.denominatorName, h1, h]
  · by_cases h1 : unitWeight wv.unit > unitWeight q.unit <;>
      by_cases h2 : wv.unit = .eternity <;> simp [Tie.consistencyGuards, Tie.holderSetGuards, Tie.addGuards, Tie.divideGuards, Tie.dated, Tie.enclosingName, Tie.denominatorName, h1, h2, h]

example : Guards.checkPeriodConsistency_raises .month .year 1 = true := by decide
example : Guards.checkPeriodConsistency_raises .eternity .year 3 = false := by decide
end OFCore.RuleSys
