import OFCore.RuleSys
import OFCore.GeneratedGuards
import OFCore.GeneratedEngine
import OFCore.Props.C01
/-!
# C01 — the engine model serves a read exactly when the code's source says so (translator tie)

`RuleSys.servedPeriod` and the ADD branch of `RuleSys.elabRead` are the engine model's transcription of
`Simulation._check_period_consistency` and of the guards of `Simulation.calculate_add`.
`OFCore.Generated.Guards` is regenerated from the source on every run (`translate.py`); these
theorems are therefore re-checked against what the code says now.
-/
set_option linter.unusedSimpArgs false
namespace OFCore.RuleSys
open OFCore OFCore.Generated

/-- a plain read of a variable of definition unit `u` at period `q` is served — under `q` itself —
    exactly when none of the guards of `_check_period_consistency` raises -/
theorem C01_tie_served_period (u : DUnit) (q : Period) :
    servedPeriod u q = if Guards.checkPeriodConsistency_raises u q.unit q.size then
        (if q.unit ≠ u then .error "unit" else .error "size") else .ok q := by
  obtain ⟨pu, st, sz⟩ := q
  by_cases h : sz = 1
  · subst h; cases u <;> cases pu <;> simp [Tie.consistencyGuards, Tie.holderSetGuards, Tie.addGuards, Tie.divideGuards, Tie.dated, Tie.enclosingName, Tie.denominatorName, servedPeriod, Guards.checkPeriodConsistency_raises]
  · cases u <;> cases pu <;> simp [Tie.consistencyGuards, Tie.holderSetGuards, Tie.addGuards, Tie.divideGuards, Tie.dated, Tie.enclosingName, Tie.denominatorName, servedPeriod, Guards.checkPeriodConsistency_raises, h]

/-- the three guards of `calculate_add`, as the engine model tests them before it splits the period -/
def addRefused (du pu : DUnit) : Bool :=
  decide (unitWeight du > unitWeight pu) || decide (du = .eternity) || decide (pu = .eternity)

/-- … are the code's guards -/
theorem C01_tie_add_guards (du pu : DUnit) (sz : Int) :
    addRefused du pu = Guards.calculateAdd_raises du pu sz := by
  cases du <;> cases pu <;>
    simp [Tie.consistencyGuards, Tie.holderSetGuards, Tie.addGuards, Tie.divideGuards, Tie.dated, Tie.enclosingName, Tie.denominatorName, addRefused, Guards.calculateAdd_raises, unitWeight, Generated.unitWeightTable,
      Generated.isoformatUnits, Generated.isocalendarUnits, DUnit.name, List.lookup]

/-- an ADD read that the code's guards refuse elaborates to the failing expression -/
theorem C01_tie_add_read_refused (d : Decl) (w : Nat) (wv : Var) (q : Period)
    (hw : d.vars[w]? = some wv) (h : Guards.calculateAdd_raises wv.unit q.unit q.size = true) :
    elabRead d w (.ok q) true = .bad := by
  rw [← C01_tie_add_guards] at h
  unfold elabRead
  rw [hw]
  simp only [addRefused, Bool.or_eq_true, decide_eq_true_eq] at h
  rcases h with (h | h) | h
  · simp [Tie.consistencyGuards, Tie.holderSetGuards, Tie.addGuards, Tie.divideGuards, Tie.dated, Tie.enclosingName, Tie.denominatorName, h]
  · by_cases h1 : unitWeight wv.unit > unitWeight q.unit <;> simp [Tie.consistencyGuards, Tie.holderSetGuards, Tie.addGuards, Tie.divideGuards, Tie.dated, Tie.enclosingName, Tie.denominatorName, h1, h]
  · by_cases h1 : unitWeight wv.unit > unitWeight q.unit <;>
      by_cases h2 : wv.unit = .eternity <;> simp [Tie.consistencyGuards, Tie.holderSetGuards, Tie.addGuards, Tie.divideGuards, Tie.dated, Tie.enclosingName, Tie.denominatorName, h1, h2, h]

/-! ## `Variable.get_formula`: the fold of the model is the scan of the code

`Variable.formulas` is a `SortedDict` keyed by start date: iterating it yields the keys in strictly ascending
order, each once.  `Engine.variable_get_formula` is the translation of the current source of `get_formula`
over that ascending content; `RuleSys.formulaInForce` is the model's fold over the declarations in any order. -/

/-- appending a formula that starts after all the others: it wins when admissible, else nothing changes -/
theorem pick_snoc (o : Int) (l : List (Int × DExpr)) (a : Int × DExpr) (hs : ∀ f ∈ l, f.1 < a.1) :
    (l ++ [a]).foldl (pickStep o) none = if a.1 ≤ o then some a else l.foldl (pickStep o) none := by
  rw [List.foldl_append]
  simp only [List.foldl_cons, List.foldl_nil]
  have hm : ∀ b, l.foldl (pickStep o) none = some b → b ∈ l := by
    intro b hb
    have := (pick_fold_spec o l none [] (by intro b hb; cases hb) (by intro _ f hf; cases hf)).1 b hb
    simpa using this.1
  generalize l.foldl (pickStep o) none = r at hm
  unfold pickStep
  by_cases h1 : a.1 ≤ o
  · simp only [h1, if_true]
    cases r with
    | none => rfl
    | some b =>
      have := hs b (hm b rfl)
      simp only [show b.1 ≤ a.1 by omega, if_true]
  · simp only [h1, if_false]

/-- on strictly ascending content, the model's fold is the first match of the descending scan -/
theorem pick_eq_scan (o : Int) : ∀ (r : List (Int × DExpr)), (r.reverse).Pairwise (fun a b => a.1 < b.1) →
    r.reverse.foldl (pickStep o) none = r.find? (fun f => decide (f.1 ≤ o)) := by
  intro r
  induction r with
  | nil => intro _; rfl
  | cons a r ih =>
    intro hp
    rw [List.reverse_cons] at hp ⊢
    rw [List.pairwise_append] at hp
    obtain ⟨hp1, _, hp3⟩ := hp
    rw [pick_snoc o r.reverse a (fun f hf => hp3 f hf a (by simp)), ih hp1, List.find?_cons]
    by_cases h : a.1 ≤ o <;> simp [h]

/-- **tie**: for every variable whose formulas are listed as the `SortedDict` holds them (strictly ascending
    start dates), every `end` date and every instant, the model's formula in force is what the current source
    of `Variable.get_formula` returns -/
theorem C01_tie_get_formula (v : Var) (o : Int) (hs : v.formulas.Pairwise (fun a b => a.1 < b.1)) :
    formulaInForce v o = Engine.variable_get_formula v.formulas v.endOrd o := by
  have hk : pickFormula v o = (v.formulas.reverse.find? (fun f => decide (f.1 ≤ o))).map (·.2) := by
    unfold pickFormula
    have := pick_eq_scan o v.formulas.reverse (by simpa using hs)
    rw [List.reverse_reverse] at this
    rw [this]
  unfold formulaInForce Engine.variable_get_formula
  by_cases he : v.formulas.isEmpty
  · have : v.formulas = [] := by simpa using he
    simp [this, pickFormula]
    cases v.endOrd <;> rfl
  · rw [hk]
    simp only [he, Bool.false_eq_true, if_false]
    cases v.endOrd with
    | none => simp; cases v.formulas.reverse.find? (fun f => decide (f.1 ≤ o)) <;> rfl
    | some e =>
      by_cases h : o > e
      · simp [h]
      · simp [h]; cases v.formulas.reverse.find? (fun f => decide (f.1 ≤ o)) <;> rfl

theorem fst_inj_of_nodup : ∀ (l : List (Int × DExpr)), (l.map (·.1)).Nodup → ∀ a ∈ l, ∀ b ∈ l, a.1 = b.1 → a = b := by
  intro l
  induction l with
  | nil => intro _ a ha; cases ha
  | cons x l ih =>
    intro hn a ha b hb hab
    rw [List.map_cons, List.nodup_cons] at hn
    obtain ⟨hx, hn⟩ := hn
    rcases List.mem_cons.mp ha with rfl | ha' <;> rcases List.mem_cons.mp hb with rfl | hb'
    · rfl
    · exact absurd (List.mem_map.mpr ⟨b, hb', hab.symm⟩) hx
    · exact absurd (List.mem_map.mpr ⟨a, ha', hab⟩) hx
    · exact ih hn a ha' b hb' hab

/-- with distinct start dates the formula picked does not depend on the order of the declarations -/
theorem pick_perm (o : Int) (l1 l2 : List (Int × DExpr)) (hp : l1.Perm l2) (hn : (l1.map (·.1)).Nodup) :
    l1.foldl (pickStep o) none = l2.foldl (pickStep o) none := by
  have s1 := pick_fold_spec o l1 none [] (by intro b hb; cases hb) (by intro _ f hf; cases hf)
  have s2 := pick_fold_spec o l2 none [] (by intro b hb; cases hb) (by intro _ f hf; cases hf)
  simp only [List.nil_append] at s1 s2
  cases h1 : l1.foldl (pickStep o) none with
  | none =>
    cases h2 : l2.foldl (pickStep o) none with
    | none => rfl
    | some b2 =>
      obtain ⟨m2, le2, _⟩ := s2.1 b2 h2
      exact absurd le2 (s1.2 h1 b2 (hp.mem_iff.mpr m2))
  | some b1 =>
    obtain ⟨m1, le1, mx1⟩ := s1.1 b1 h1
    cases h2 : l2.foldl (pickStep o) none with
    | none => exact absurd le1 (s2.2 h2 b1 (hp.mem_iff.mp m1))
    | some b2 =>
      obtain ⟨m2, le2, mx2⟩ := s2.1 b2 h2
      have e : b1.1 = b2.1 := by
        have := mx1 b2 (hp.mem_iff.mpr m2) le2
        have := mx2 b1 (hp.mem_iff.mp m1) le1
        omega
      rw [fst_inj_of_nodup l1 hn b1 m1 b2 (hp.mem_iff.mpr m2) e]

/-- **tie, any declaration order**: a variable declares its dated formulas in any order, with distinct start
    dates; the `SortedDict` holds them in ascending order (`sorted`); the model's formula in force — a fold over the
    declarations as written — is what the current source of `Variable.get_formula` returns from the dictionary -/
theorem C01_tie_get_formula_any_order (v : Var) (sorted : List (Int × DExpr)) (o : Int)
    (hperm : v.formulas.Perm sorted) (hs : sorted.Pairwise (fun a b => a.1 < b.1)) :
    formulaInForce v o = Engine.variable_get_formula sorted v.endOrd o := by
  have hn : (v.formulas.map (·.1)).Nodup := by
    have h2 : (sorted.map (·.1)).Nodup := by
      rw [List.Nodup, List.pairwise_map]
      exact hs.imp (fun h => by omega)
    exact (hperm.map (·.1)).nodup_iff.mpr h2
  have key : formulaInForce v o = formulaInForce { v with formulas := sorted } o := by
    unfold formulaInForce pickFormula
    simp only [pick_perm o v.formulas sorted hperm hn]
  rw [key]
  exact C01_tie_get_formula { v with formulas := sorted } o hs

/-- what the current source of `get_formula` returns, stated on the code's side: the formula with the greatest
    start date on or before the instant, nothing past the end date or before the first start -/
theorem C01_code_get_formula_spec (v : Var) (o : Int) (hs : v.formulas.Pairwise (fun a b => a.1 < b.1)) :
    (∀ e, Engine.variable_get_formula v.formulas v.endOrd o = some e →
        (∀ en, v.endOrd = some en → o ≤ en) ∧
        ∃ s, (s, e) ∈ v.formulas ∧ s ≤ o ∧ ∀ f ∈ v.formulas, f.1 ≤ o → f.1 ≤ s) ∧
    (Engine.variable_get_formula v.formulas v.endOrd o = none →
        (∃ en, v.endOrd = some en ∧ en < o) ∨ ∀ f ∈ v.formulas, ¬ f.1 ≤ o) := by
  rw [← C01_tie_get_formula v o hs]
  exact C01_formula_in_force v o
/-- the hypotheses of the any-order tie are met by a declaration written latest-first -/
example (a b : DExpr) : [((20 : Int), a), (10, b)].Perm [(10, b), (20, a)] ∧
    [((10 : Int), b), (20, a)].Pairwise (fun x y => x.1 < y.1) :=
  ⟨List.Perm.swap _ _ _, by simp⟩

/-- the hypothesis is met, and the scan answers, on a concrete variable with two formulas and an end date -/
example : let fs : List (Int × Nat) := [(10, 1), (20, 2)]
    fs.Pairwise (fun a b => a.1 < b.1) ∧ Engine.variable_get_formula fs (some 30) 25 = some 2 ∧
    Engine.variable_get_formula fs (some 30) 15 = some 1 ∧ Engine.variable_get_formula fs (some 30) 5 = none ∧
    Engine.variable_get_formula fs (some 30) 31 = none := by decide

example : Guards.checkPeriodConsistency_raises .month .year 1 = true := by decide
example : Guards.checkPeriodConsistency_raises .eternity .year 3 = false := by decide
end OFCore.RuleSys
