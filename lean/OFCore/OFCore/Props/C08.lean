import OFCore.Lemmas.TaxScale
/-!
# C08 — tax scales compute their mathematical definition for every base

Model: `OFCore/TaxScale.lean` (exact rationals).  `ε ≥ 0` is the perturbation
`numpy.finfo(float64).eps` which `MarginalRateTaxScale.calc` and `bracket_indices` add to the
threshold factor `f`: a threshold `t` is seen as `τ t = (f + ε)·t` (`thrMap ε f none t`); every
theorem holds for all `ε` and `f` with `0 < f + ε`, the textbook statements are the instances
`ε = 0`, `f = 1`.  All statements are for bracket lists of any length and all bases.

A scale reaches `calc` through `add_bracket`, hence strictly sorted (`build_sorted`); the
hypothesis `StrictSorted s` is that fact.  Domain conventions mirrored by the model and carried
as explicit hypotheses (not defects, DESIGN C08 "Observations"): with `ε > 0` a base equal to a
positive threshold is reported in the lower bracket; below the first threshold the index is
`-1` (no bracket contains the base); the linear average is claimed on `[t₀, t_last)`.
-/
namespace OFCore
open OFCore.Sca

/-! ## marginal-rate scale: `calc` is its definition -/

/-- `calc = Σ rateᵢ × |[τᵢ, τᵢ₊₁) ∩ (-∞, b]|` — with or without factor and rounding (`rd`): the
only requirement is that the transformed thresholds are (weakly) increasing. -/
theorem C08_marginal_rate_def (ε f : Rat) (rd : Option Nat) (s : Scale) (b : Rat) (hf : 0 < f + ε)
    (hl : WSorted (mapT (thrMap ε f rd) s)) :
    calcMR ε f rd s b = specMR rd (mapT (thrMap ε f rd) s) b := by
  unfold calcMR
  rw [decide_eq_true hf]
  exact clipSum_eq_specMR rd _ hl b

example : calcMR (1/4503599627370496) (1/2) (some 0) [(5, 1/4), (10, 1/2)] 7
    = specMR (some 0) (mapT (thrMap (1/4503599627370496) (1/2) (some 0)) [(5, 1/4), (10, 1/2)]) 7 :=
  C08_marginal_rate_def _ _ _ _ _ (by decide +kernel) (by decide +kernel)

/-- the requirement always holds for a scale built by `add_bracket` (strictly sorted): scaling by
`f + ε > 0` and `numpy.round` are monotone — so the definition holds with factor and rounding -/
theorem C08_marginal_rate_def_sorted (ε f : Rat) (rd : Option Nat) (s : Scale) (b : Rat) (hf : 0 < f + ε)
    (hs : StrictSorted s) :
    calcMR ε f rd s b = specMR rd (mapT (thrMap ε f rd) s) b :=
  C08_marginal_rate_def ε f rd s b hf (mapT_wsorted (thrMap_mono ε f rd hf) hs.wsorted)

example : calcMR (1/4503599627370496) 1 (some 2) [(0, 1/4), (100, 1/2)] (601/4)
    = specMR (some 2) (mapT (thrMap (1/4503599627370496) 1 (some 2)) [(0, 1/4), (100, 1/2)]) (601/4) :=
  C08_marginal_rate_def_sorted _ _ _ _ _ (by decide +kernel) (by decide +kernel)

/-- without rounding the transformed thresholds are `(f + ε)·t` -/
theorem C08_marginal_rate_def_unrounded (ε f : Rat) (s : Scale) (b : Rat) (hf : 0 < f + ε)
    (hs : StrictSorted s) :
    calcMR ε f none s b = specMR none (mapT (fun t => (f + ε) * t) s) b :=
  C08_marginal_rate_def ε f none s b hf (mapT_strictSorted (thrMap_strictMono ε f hf) hs).wsorted

example : calcMR 0 (3/2) none [(0, 1/4), (100, 1/2)] 200 = specMR none (mapT (fun t => (3/2 + 0) * t) [(0, 1/4), (100, 1/2)]) 200 :=
  C08_marginal_rate_def_unrounded _ _ _ _ (by decide +kernel) (by decide +kernel)

/-- textbook corollary (`ε = 0`, factor 1): the thresholds are the scale's own -/
theorem C08_marginal_rate_def_textbook (s : Scale) (b : Rat) (hs : StrictSorted s) :
    calcMR 0 1 none s b = specMR none s b := by
  rw [C08_marginal_rate_def_unrounded 0 1 s b (by decide +kernel) hs]
  have : mapT (fun t => ((1 : Rat) + 0) * t) s = s := by
    unfold mapT
    conv => rhs; rw [← List.map_id s]
    apply List.map_congr_left
    intro c _
    simp
  rw [this]

example : calcMR 0 1 none [(0, 1/4), (100, 1/2)] 150 = 50 ∧ specMR none [(0, 1/4), (100, 1/2)] 150 = 50 := by
  decide +kernel

/-- closed form on the bracket `(t, r)` containing the base (`τ t ≤ b ≤ τ t'` for the next
threshold `t'`): the complete brackets below it, plus `r × (b − τ t)` -/
theorem C08_marginal_rate_closed (ε f : Rat) (pre : Scale) (t r : Rat) (post : Scale) (b : Rat)
    (hf : 0 < f + ε) (hs : StrictSorted (pre ++ (t, r) :: post))
    (hb : (f + ε) * t ≤ b) (hpost : ∀ c ∈ post, b ≤ (f + ε) * c.1) :
    calcMR ε f none (pre ++ (t, r) :: post) b
      = fullBr (mapT (fun t => (f + ε) * t) (pre ++ [(t, r)])) + r * (b - (f + ε) * t) := by
  unfold calcMR
  rw [decide_eq_true hf]
  have hl := (mapT_strictSorted (thrMap_strictMono ε f hf) hs).wsorted
  have e1 : mapT (thrMap ε f none) (pre ++ (t, r) :: post)
      = mapT (thrMap ε f none) pre ++ ((f + ε) * t, r) :: mapT (thrMap ε f none) post := by
    simp [mapT, thrMap_none]
  rw [e1] at hl ⊢
  rw [clipSum_closed _ _ _ _ b hl hb]
  · simp [mapT, thrMap_none]
  · intro c hc
    obtain ⟨d, hd, e⟩ := mem_mapT hc
    rw [e]; exact hpost d hd

example : calcMR 0 1 none ([(0, 1/4)] ++ (100, 1/2) :: [(300, 1)]) 150
    = fullBr (mapT (fun t => (1 + 0) * t) ([(0, 1/4)] ++ [(100, 1/2)])) + 1/2 * (150 - (1 + 0) * 100) :=
  C08_marginal_rate_closed 0 1 _ _ _ _ _ (by decide +kernel) (by decide +kernel) (by decide +kernel)
    (by intro c hc; simp at hc; subst hc; decide +kernel)

/-- nothing is due at or below the first threshold -/
theorem C08_marginal_rate_below_first (ε f : Rat) (s : Scale) (b : Rat) (hs : StrictSorted s)
    (hf : 0 < f + ε) (hb : ∀ c ∈ s.head?, b ≤ (f + ε) * c.1) : calcMR ε f none s b = 0 := by
  unfold calcMR
  apply clipSum_zero_of_le
  intro c hc
  obtain ⟨d, hd, e⟩ := mem_mapT hc
  rw [e]
  simp only [thrMap_none]
  cases s with
  | nil => simp at hd
  | cons a rest =>
    have h0 := hb a (by simp)
    rcases List.mem_cons.mp hd with h | h
    · rw [h]; exact h0
    · have := (strictSorted_cons.mp hs).1 d h
      have := mul_lt_mul_of_pos_left this hf
      linarith

example : calcMR (1/4503599627370496) 1 none [(50, 1/4), (100, 1/2)] 50 = 0 :=
  C08_marginal_rate_below_first _ _ _ _ (by decide +kernel) (by decide +kernel)
    (by intro c hc; simp at hc; subst hc; decide +kernel)

/-! ## the reported bracket and marginal rate are those of the bracket containing the base -/

/-- the reported index `k` satisfies `τ_k ≤ b < τ_{k+1}` with `τ t = round((f + ε)·t)` (no
rounding: `τ t = (f + ε)·t`); more precisely bracket `i` is at or below the reported one iff
its transformed threshold is `≤ b` -/
theorem C08_bracket_contains (ε f : Rat) (rd : Option Nat) (s : Scale) (b : Rat) (hf : 0 < f + ε)
    (hs : StrictSorted s) :
    -1 ≤ bracketIndex ε f rd s b ∧ bracketIndex ε f rd s b < s.length ∧
    ∀ (i : Nat) (t r : Rat), s[i]? = some (t, r) →
      ((i : Int) ≤ bracketIndex ε f rd s b ↔ thrMap ε f rd t ≤ b) := by
  have hl := mapT_wsorted (thrMap_mono ε f rd hf) hs.wsorted
  have hle := cntLe_le_length (mapT (thrMap ε f rd) s) b
  rw [mapT_length] at hle
  rw [bracketIndex_eq]
  refine ⟨by omega, by omega, ?_⟩
  intro i t r hi
  have := cntLe_spec _ hl b i (thrMap ε f rd t, r) (by rw [mapT_getElem?, hi]; rfl)
  rw [← this]
  omega

example : bracketIndex (1/4503599627370496) (1/2) (some 0) [(5, 1/4), (10, 1/2)] 3 = 0 ∧
    thrMap (1/4503599627370496) (1/2) (some 0) 5 = 3 := by decide +kernel

/-- explicit form: lower end included, upper end excluded (in the perturbed thresholds) -/
theorem C08_bracket_contains_bounds (ε f : Rat) (s : Scale) (b : Rat) (hf : 0 < f + ε) (hs : StrictSorted s)
    (k : Nat) (hk : bracketIndex ε f none s b = k) :
    (∀ t r, s[k]? = some (t, r) → (f + ε) * t ≤ b) ∧ (∀ t r, s[k + 1]? = some (t, r) → b < (f + ε) * t) := by
  obtain ⟨_, _, h⟩ := C08_bracket_contains ε f none s b hf hs
  simp only [thrMap_none] at h
  constructor
  · intro t r e
    exact (h k t r e).mp (by omega)
  · intro t r e
    have := (h (k + 1) t r e)
    rw [hk] at this
    by_contra hc
    have := this.mpr (not_lt.mp hc)
    omega

/-- lattice-gap form (factor 1): when base and thresholds sit on a lattice of step `g` and the
perturbation `ε·|t|` of every threshold is smaller than `g` (the situation of the code:
`ε = 2⁻⁵²`), the reported bracket satisfies `t_k ≤ b ≤ t_{k+1}` in the *unperturbed* thresholds -/
theorem C08_bracket_contains_lattice (ε : Rat) (s : Scale) (b g : Rat) (hε : 0 ≤ ε) (hs : StrictSorted s)
    (hg : 0 < g) (hlat : ∀ c ∈ s, ∃ n : Int, b - c.1 = n * g) (hgap : ∀ c ∈ s, ε * |c.1| < g)
    (k : Nat) (hk : bracketIndex ε 1 none s b = k) :
    (∀ t r, s[k]? = some (t, r) → t ≤ b) ∧ (∀ t r, s[k + 1]? = some (t, r) → b ≤ t) := by
  obtain ⟨h1, h2⟩ := C08_bracket_contains_bounds ε 1 s b (by linarith) hs k hk
  constructor
  · intro t r e
    have hm : (t, r) ∈ s := List.mem_of_getElem? e
    obtain ⟨n, hn⟩ := hlat _ hm
    have hgp := hgap _ hm
    have hb := h1 t r e
    simp only at hn hgp
    have habs : -|t| ≤ t := neg_abs_le t
    have h3 : -(ε * |t|) ≤ ε * t := by nlinarith [abs_nonneg t]
    have h4 : (0 : Rat) < (n + 1) * g := by nlinarith
    have h5 : (0 : Rat) < ((n + 1 : Int) : Rat) := by
      have := (mul_pos_iff_of_pos_right hg).mp h4
      push_cast; exact this
    have h6 : 0 < n + 1 := Int.cast_pos.mp h5
    have h7 : (0 : Rat) ≤ (n : Rat) := by exact_mod_cast (by omega : 0 ≤ n)
    nlinarith
  · intro t r e
    have hm : (t, r) ∈ s := List.mem_of_getElem? e
    obtain ⟨n, hn⟩ := hlat _ hm
    have hgp := hgap _ hm
    have hb := h2 t r e
    simp only at hn hgp
    have habs : t ≤ |t| := le_abs_self t
    have h3 : ε * t ≤ ε * |t| := by nlinarith [abs_nonneg t]
    have h4 : (n - 1 : Rat) * g < 0 := by nlinarith
    have h5 : ((n - 1 : Int) : Rat) < 0 := by
      have : (n - 1 : Rat) < 0 := by
        by_contra hc
        have := mul_nonneg (not_lt.mp hc) hg.le
        linarith
      push_cast; exact this
    have h6 : n - 1 < 0 := Int.cast_lt_zero.mp h5
    have h7 : (n : Rat) ≤ 0 := by exact_mod_cast (by omega : n ≤ 0)
    nlinarith

example : (∀ t r, [((0 : Rat), (1/4 : Rat)), (100, 1/2), (300, 1)][0]? = some (t, r) → t ≤ 100) ∧
    (∀ t r, [((0 : Rat), (1/4 : Rat)), (100, 1/2), (300, 1)][0 + 1]? = some (t, r) → 100 ≤ t) :=
  C08_bracket_contains_lattice (1/4503599627370496) _ 100 (1/4) (by decide +kernel) (by decide +kernel) (by decide +kernel)
    (by
      intro c hc
      simp at hc
      rcases hc with e | e | e <;> subst e
      · exact ⟨400, by norm_num⟩
      · exact ⟨0, by norm_num⟩
      · exact ⟨-800, by norm_num⟩)
    (by
      intro c hc
      simp at hc
      rcases hc with e | e | e <;> subst e <;> norm_num [abs_of_nonneg])
    0 (by decide +kernel)

/-- `ε = 0`, factor 1: the textbook half-open bracket `t_k ≤ b < t_{k+1}` -/
theorem C08_bracket_contains_textbook (s : Scale) (b : Rat) (hs : StrictSorted s)
    (k : Nat) (hk : bracketIndex 0 1 none s b = k) :
    (∀ t r, s[k]? = some (t, r) → t ≤ b) ∧ (∀ t r, s[k + 1]? = some (t, r) → b < t) := by
  have := C08_bracket_contains_bounds 0 1 s b (by decide +kernel) hs k hk
  simpa using this

example : bracketIndex (1/4503599627370496) 1 none [(0, 1/4), (100, 1/2), (300, 1)] 200 = 1 ∧
    bracketIndex (1/4503599627370496) 1 none [(0, 1/4), (100, 1/2), (300, 1)] 100 = 0 ∧
    bracketIndex 0 1 none [(0, 1/4), (100, 1/2), (300, 1)] 100 = 1 := by decide +kernel

/-- conversely the bracket containing the base is the one reported, with its rate: if
`s = pre ++ (t, r) :: post` and `τ t ≤ b < τ t'` for every later threshold, then the index is
the position of `(t, r)` and `marginal_rates` returns `r` -/
theorem C08_bracket_reported (ε f : Rat) (pre : Scale) (t r : Rat) (post : Scale) (b : Rat)
    (hf : 0 < f + ε) (hs : StrictSorted (pre ++ (t, r) :: post))
    (hb : (f + ε) * t ≤ b) (hpost : ∀ c ∈ post, b < (f + ε) * c.1) :
    bracketIndex ε f none (pre ++ (t, r) :: post) b = pre.length ∧
    marginalRate ε f none (pre ++ (t, r) :: post) b = .ok r := by
  have hidx : bracketIndex ε f none (pre ++ (t, r) :: post) b = pre.length := by
    unfold bracketIndex
    rw [countP_split]
    · omega
    · intro c hc
      have hlt : c.1 < t := (strictSorted_append.mp hs).2.2 c hc (t, r) List.mem_cons_self
      have := mul_lt_mul_of_pos_left hlt hf
      have h0 : 0 ≤ b - (f + ε) * c.1 := by linarith
      simpa [thrMap_none] using h0
    · have h0 : 0 ≤ b - (f + ε) * t := by linarith
      simpa [thrMap_none] using h0
    · intro c hc
      have := hpost c hc
      have h0 : ¬ 0 ≤ b - (f + ε) * c.1 := by intro h; linarith
      simpa [thrMap_none] using h0
  refine ⟨hidx, ?_⟩
  unfold marginalRate
  rw [hidx]
  unfold pyIndex
  have hlen : ((rates (pre ++ (t, r) :: post)).length : Int) = pre.length + post.length + 1 := by
    simp [rates]; omega
  rw [if_pos (by rw [hlen]; omega)]
  rw [Int.toNat_natCast, rates_getD, getD_split]

example : marginalRate (1/4503599627370496) 1 none ([(0, 1/4)] ++ (100, 1/2) :: [(300, 1)]) 200 = .ok (1/2) :=
  (C08_bracket_reported _ 1 _ _ _ _ 200 (by decide +kernel) (by decide +kernel) (by decide +kernel)
    (by intro c hc; simp at hc; subst hc; decide +kernel)).2

/-- the reported marginal rate is the slope of the tax function: between two bases of the same
bracket (no perturbed threshold strictly between `b` and `b'`, `b` not below the first one)
`calc b' − calc b = marginal_rate(b) × (b' − b)` -/
theorem C08_marginal_slope (ε f : Rat) (s : Scale) (b b' ρ : Rat) (hf : 0 < f + ε) (hs : StrictSorted s)
    (hbb : b ≤ b') (hfirst : 0 ≤ bracketIndex ε f none s b)
    (hsame : ∀ c ∈ s, (f + ε) * c.1 ≤ b ∨ b' ≤ (f + ε) * c.1)
    (hρ : marginalRate ε f none s b = .ok ρ) :
    calcMR ε f none s b' - calcMR ε f none s b = ρ * (b' - b) := by
  have hl := (mapT_strictSorted (thrMap_strictMono ε f hf) hs).wsorted
  rw [marginalRate_eq_scan ε f none s b hl hfirst] at hρ
  injection hρ with hρ
  unfold calcMR
  rw [decide_eq_true hf, ← hρ]
  apply clipSum_slope _ hl b b' hbb
  intro c hc
  obtain ⟨d, hd, e⟩ := mem_mapT hc
  rw [e]
  exact hsame d hd

example : calcMR 0 1 none [(0, 1/4), (100, 1/2)] 180 - calcMR 0 1 none [(0, 1/4), (100, 1/2)] 120 = 1/2 * (180 - 120) :=
  C08_marginal_slope 0 1 _ 120 180 (1/2) (by decide +kernel) (by decide +kernel) (by decide +kernel) (by decide +kernel)
    (by decide +kernel) (by decide +kernel)

/-! ## amount scales and the linear average-rate scale -/

/-- marginal amounts: the sum of the amounts of all thresholds strictly below the base -/
theorem C08_marginal_amount_def (s : Scale) (b : Rat) (hs : StrictSorted s) : calcMA s b = sumBelow s b :=
  calcMA_eq_sumBelow s hs b

example : calcMA [(0, 1), (10, 2), (20, 4)] 15 = sumBelow [(0, 1), (10, 2), (20, 4)] 15 :=
  C08_marginal_amount_def _ 15 (by decide +kernel)
example : calcMA [(0, 1), (10, 2), (20, 4)] 10 = 1 ∧ calcMA [(0, 1), (10, 2), (20, 4)] 15 = 3 ∧
    sumBelow [(0, 1), (10, 2), (20, 4)] 15 = 3 := by decide +kernel

/-- single amount: the amount of the one bracket containing the base — `t ≤ b < t'` by default,
`t < b ≤ t'` with `right=True` — and zero below the first threshold -/
theorem C08_single_amount_def (pre : Scale) (t a : Rat) (post : Scale) (b : Rat)
    (hs : StrictSorted (pre ++ (t, a) :: post)) :
    (t ≤ b → (∀ c ∈ post, b < c.1) → calcSA false (pre ++ (t, a) :: post) b = a) ∧
    (t < b → (∀ c ∈ post, b ≤ c.1) → calcSA true (pre ++ (t, a) :: post) b = a) := by
  have hpre : ∀ c ∈ pre, c.1 < t := fun c hc => (strictSorted_append.mp hs).2.2 c hc (t, a) List.mem_cons_self
  constructor
  · intro h1 h2
    unfold calcSA digitize
    rw [countP_split]
    · simp only [getD_split]
    · intro c hc; have := hpre c hc; simp only [Bool.false_eq_true, if_false, decide_eq_true_eq]; linarith
    · simpa using h1
    · intro c hc; simpa using h2 c hc
  · intro h1 h2
    unfold calcSA digitize
    rw [countP_split]
    · simp only [getD_split]
    · intro c hc; have := hpre c hc; simp only [if_true, decide_eq_true_eq]; linarith
    · simpa using h1
    · intro c hc; simpa using h2 c hc

/-- zero below the first threshold (at it too with `right=True`) -/
theorem C08_single_amount_below_first (s : Scale) (b : Rat) :
    ((∀ c ∈ s, b < c.1) → calcSA false s b = 0) ∧ ((∀ c ∈ s, b ≤ c.1) → calcSA true s b = 0) := by
  constructor
  · intro h
    unfold calcSA digitize
    rw [List.countP_eq_zero.mpr]
    intro c hc; simpa using h c hc
  · intro h
    unfold calcSA digitize
    rw [List.countP_eq_zero.mpr]
    intro c hc; simpa using h c hc

example : calcSA false [(5, 1), (10, 2)] 4 = 0 ∧ calcSA true [(5, 1), (10, 2)] 5 = 0 :=
  ⟨(C08_single_amount_below_first _ 4).1 (by decide +kernel), (C08_single_amount_below_first _ 5).2 (by decide +kernel)⟩
example : calcSA true ([(0, 1)] ++ (10, 2) :: [(20, 4)]) 20 = 2 :=
  (C08_single_amount_def _ _ _ _ 20 (by decide +kernel)).2 (by decide +kernel)
    (by intro c hc; simp at hc; subst hc; decide +kernel)
example : calcSA false ([(0, 1)] ++ (10, 2) :: [(20, 4)]) 10 = 2 :=
  (C08_single_amount_def _ _ _ _ 10 (by decide +kernel)).1 (by decide +kernel)
    (by intro c hc; simp at hc; subst hc; decide +kernel)

/-- linear average rate on `[t₀, t_last)`: the base times the rate interpolated linearly between
the two thresholds around it -/
theorem C08_linear_average_def (pre : Scale) (t r t' r' : Rat) (post : Scale) (b : Rat)
    (hs : StrictSorted (pre ++ (t, r) :: (t', r') :: post)) (h1 : t ≤ b) (h2 : b < t') :
    calcLA (pre ++ (t, r) :: (t', r') :: post) b = .ok (b * (r + (b - t) * ((r' - r) / (t' - t)))) := by
  have hsum := laSums_split pre t r t' r' post b hs h1 h2
  unfold calcLA
  split
  · rename_i h; simp at h
  · rename_i h
    have := congrArg List.length h
    simp at this
    omega
  · rw [hsum]

example : calcLA ([(0, 0)] ++ (100, 1/8) :: (300, 1/2) :: []) 200 = .ok (200 * (1/8 + (200 - 100) * ((1/2 - 1/8) / (300 - 100)))) :=
  C08_linear_average_def _ _ _ _ _ _ 200 (by decide +kernel) (by decide +kernel) (by decide +kernel)

/-! ## insertion order, vectors -/

/-- the scale built by `add_bracket` does not depend on the order of insertion: equal
thresholds accumulate their rates (amounts), the others are inserted in order -/
theorem C08_insertion_order (l₁ l₂ : List (Rat × Rat)) (h : l₁.Perm l₂) : build l₁ = build l₂ := by
  rw [build_eq_insAll, build_eq_insAll]
  exact insAll_perm h [] strictSorted_nil

example : build [(100, 1/2), (0, 1/4), (100, 1/8)] = build [(100, 1/8), (100, 1/2), (0, 1/4)] :=
  C08_insertion_order _ _ (by decide +kernel)

/-- … and it is strictly sorted, whatever was inserted (the hypothesis of the theorems above) -/
theorem C08_built_sorted (l : List (Rat × Rat)) : StrictSorted (build l) := build_sorted l

example : StrictSorted (build [(100, 1/2), (0, 1/4), (100, 1/8), (-5, 1)]) := C08_built_sorted _

/-- what the built scale is: its thresholds are exactly the inserted ones (each once, by
`C08_built_sorted`) and the rate / amount of a threshold is the sum of those inserted for it -/
theorem C08_build_def (l : List (Rat × Rat)) (u : Rat) :
    hasT (build l) u = hasT l u ∧ rateOf (build l) u = rateOf l u := by
  rw [build_eq_insAll, hasT_insAll, rateOf_insAll]
  simp [rateOf]

example : rateOf (build [(100, 1/2), (0, 1/4), (100, 1/8)]) 100 = 5/8 ∧ hasT (build [(100, 1/2), (0, 1/4), (100, 1/8)]) 0 = true := by
  decide +kernel

/-- `calc` on a vector of bases (one clipped column per bracket, summed over the brackets) gives
for each base the value of that base alone; same for the indices and rates -/
theorem C08_vector_pointwise (ε f : Rat) (rd : Option Nat) (s : Scale) (bs : List Rat) :
    calcMRVec ε f rd s bs = bs.map (calcMR ε f rd s) ∧
    (s ≠ [] → bs ≠ [] → bracketIndices ε f rd s bs = .ok (bs.map (bracketIndex ε f rd s))) := by
  constructor
  · unfold calcMRVec calcMR
    exact clipSumVec_eq_map _ _ _ _
  · intro h1 h2
    unfold bracketIndices
    cases s with
    | nil => exact absurd rfl h1
    | cons a s =>
      cases bs with
      | nil => exact absurd rfl h2
      | cons b bs => rfl

example : calcMRVec 0 1 none [(0, 1/4), (100, 1/2)] [50, 150, -5] = [25/2, 50, 0] := by decide +kernel
example : bracketIndices (1/4503599627370496) 1 none [(0, 1/4), (100, 1/2)] [50, 100, 150]
    = .ok ([50, 100, 150].map (bracketIndex (1/4503599627370496) 1 none [(0, 1/4), (100, 1/2)])) :=
  (C08_vector_pointwise _ _ _ _ _).2 (by simp) (by simp)

/-- an array of factors (one per base, `numpy.ones(len) * factor`): element `j` is the scalar
computation with its own factor — and a constant array is the scalar factor -/
theorem C08_vector_factor (rd : Option Nat) (s : Scale) (bs : List Rat) :
    (∀ efs : List (Rat × Rat), efs.length = bs.length →
      calcMRVecF efs rd s bs = .ok (List.zipWith (fun ef b => calcMR ef.1 ef.2 rd s b) efs bs) ∧
      (s ≠ [] → bs ≠ [] →
        bracketIndicesF efs rd s bs = .ok (List.zipWith (fun ef b => bracketIndex ef.1 ef.2 rd s b) efs bs))) ∧
    ∀ ε f : Rat, calcMRVecF (bs.map (fun _ => (ε, f))) rd s bs = .ok (calcMRVec ε f rd s bs) := by
  constructor
  · intro efs hlen
    constructor
    · unfold calcMRVecF
      simp [hlen]
    · intro h1 h2
      unfold bracketIndicesF
      cases s with
      | nil => exact absurd rfl h1
      | cons a s =>
        cases bs with
        | nil => exact absurd rfl h2
        | cons b bs => simp [hlen]
  · intro ε f
    unfold calcMRVecF
    simp only [List.length_map, ne_eq, not_true_eq_false, if_false]
    rw [(C08_vector_pointwise ε f rd s bs).1]
    congr 1
    induction bs with
    | nil => rfl
    | cons b bs ih => simp only [List.map_cons, List.zipWith_cons_cons, ih]

example : calcMRVecF [(0, 1), (0, 2), (0, 1/2)] none [(0, 1/4), (100, 1/2), (300, 1)] [50, 150, 400]
    = .ok [25/2, 75/2, 625/2] := by decide +kernel

end OFCore
