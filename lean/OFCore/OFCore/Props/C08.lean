import OFCore.Lemmas.TaxScale
/-!
# C08 — tax scales compute their mathematical definition for every base

Model: `OFCore/TaxScale.lean` (exact rationals).  `ε ≥ 0` is the perturbation
`numpy.finfo(float64).eps` which `MarginalRateTaxScale.calc` and `bracket_indices` add to the
threshold factor `f`: a threshold `t` is seen as `τ t = (f + ε)·t` (`thrMap ε f none t`); every
theorem holds for all `ε` and `f` with `0 < f + ε`, the textbook statements are the instances
`ε = 0`, `f = 1`.  All statements are for bracket lists of any length and all bases.

A scale reaches `calc` through `add_bracket`, hence strictly sorted (`build_sorted`); the
hypothesis `StrictSorted s` is that fact.  Domain conventions mirrored by the model and carried
as explicit hypotheses (not defects, DESIGN C08 "Observations"): with `ε > 0` a base equal to a
positive threshold is reported in the lower bracket; below the first threshold the index is
`-1` (no bracket contains the base); the linear average is claimed on `[t₀, t_last)`.
-/
namespace OFCore
open OFCore.Sca

/-! ## marginal-rate scale: `calc` is its definition -/

/-- `calc = Σ rateᵢ × |[τᵢ, τᵢ₊₁) ∩ (-∞, b]|` — with or without factor and rounding (`rd`): the
only requirement is that the transformed thresholds are (weakly) increasing. -/
theorem C08_marginal_rate_def (ε f : Rat) (rd : Option Nat) (s : Scale) (b : Rat) (hf : 0 < f + ε)
    (hl : WSorted (mapT (thrMap ε f rd) s)) :
    calcMR ε f rd s b = specMR rd (mapT (thrMap ε f rd) s) b := by
  unfold calcMR
  rw [decide_eq_true hf]
  exact clipSum_eq_specMR rd _ hl b

example : calcMR (1/4503599627370496) (1/2) (some 0) [(5, 1/4), (10, 1/2)] 7
    = specMR (some 0) (mapT (thrMap (1/4503599627370496) (1/2) (some 0)) [(5, 1/4), (10, 1/2)]) 7 :=
  C08_marginal_rate_def _ _ _ _ _ (by decide +kernel) (by decide +kernel)

/-- the requirement always holds for a scale built by `add_bracket` (strictly sorted): scaling by
`f + ε > 0` and `numpy.round` are monotone — so the definition holds with factor and rounding -/
theorem C08_marginal_rate_def_sorted (ε f : Rat) (rd : Option Nat) (s : Scale) (b : Rat) (hf : 0 < f + ε)
    (hs : StrictSorted s) :
    calcMR ε f rd s b = specMR rd (mapT (thrMap ε f rd) s) b :=
  C08_marginal_rate_def ε f rd s b hf (mapT_wsorted (thrMap_mono ε f rd hf) hs.wsorted)

example : calcMR (1/4503599627370496) 1 (some 2) [(0, 1/4), (100, 1/2)] (601/4)
    = specMR (some 2) (mapT (thrMap (1/4503599627370496) 1 (some 2)) [(0, 1/4), (100, 1/2)]) (601/4) :=
  C08_marginal_rate_def_sorted _ _ _ _ _ (by decide +kernel) (by decide +kernel)

/-- without rounding the transformed thresholds are `(f + ε)·t` -/
theorem C08_marginal_rate_def_unrounded (ε f : Rat) (s : Scale) (b : Rat) (hf : 0 < f + ε)
    (hs : StrictSorted s) :
    calcMR ε f none s b = specMR none (mapT (fun t => (f + ε) * t) s) b :=
  C08_marginal_rate_def ε f none s b hf (mapT_strictSorted (thrMap_strictMono ε f hf) hs).wsorted

example : calcMR 0 (3/2) none [(0, 1/4), (100, 1/2)] 200 = specMR none (mapT (fun t => (3/2 + 0) * t) [(0, 1/4), (100, 1/2)]) 200 :=
  C08_marginal_rate_def_unrounded _ _ _ _ (by decide +kernel) (by decide +kernel)

/-- textbook corollary (`ε = 0`, factor 1): the thresholds are the scale's own -/
theorem C08_marginal_rate_def_textbook (s : Scale) (b : Rat) (hs : StrictSorted s) :
    calcMR 0 1 none s b = specMR none s b := by
  rw [C08_marginal_rate_def_unrounded 0 1 s b (by decide +kernel) hs]
  have : mapT (fun t => ((1 : Rat) + 0) * t) s = s := by
    unfold mapT
    conv => rhs; rw [← List.map_id s]
    apply List.map_congr_left
    intro c _
    simp
  rw [this]

example : calcMR 0 1 none [(0, 1/4), (100, 1/2)] 150 = 50 ∧ specMR none [(0, 1/4), (100, 1/2)] 150 = 50 := by
  decide +kernel

/-- closed form on the bracket `(t, r)` containing the base (`τ t ≤ b ≤ τ t'` for the next
threshold `t'`): the complete brackets below it, plus `r × (b − τ t)` -/
theorem C08_marginal_rate_closed (ε f : Rat) (pre : Scale) (t r : Rat) (post : Scale) (b : Rat)
    (hf : 0 < f + ε) (hs : StrictSorted (pre ++ (t, r) :: post))
    (hb : (f + ε) * t ≤ b) (hpost : ∀ c ∈ post, b ≤ (f + ε) * c.1) :
    calcMR ε f none (pre ++ (t, r) :: post) b
      = fullBr (mapT (fun t => (f + ε) * t) (pre ++ [(t, r)])) + r * (b - (f + ε) * t) := by
  unfold calcMR
  rw [decide_eq_true hf]
  have hl := (mapT_strictSorted (thrMap_strictMono ε f hf) hs).wsorted
  have e1 : mapT (thrMap ε f none) (pre ++ (t, r) :: post)
      = mapT (thrMap ε f none) pre ++ ((f + ε) * t, r) :: mapT (thrMap ε f none) post := by
    simp [mapT, thrMap_none]
  rw [e1] at hl ⊢
  rw [clipSum_closed _ _ _ _ b hl hb]
  · simp [mapT, thrMap_none]
  · intro c hc
    obtain ⟨d, hd, e⟩ := mem_mapT hc
    rw [e]; exact hpost d hd

example : calcMR 0 1 none ([(0, 1/4)] ++ (100, 1/2) :: [(300, 1)]) 150
    = fullBr (mapT (fun t => (1 + 0) * t) ([(0, 1/4)] ++ [(100, 1/2)])) + 1/2 * (150 - (1 + 0) * 100) :=
  C08_marginal_rate_closed 0 1 _ _ _ _ _ (by decide +kernel) (by decide +kernel) (by decide +kernel)
    (by intro c hc; simp at hc; subst hc; decide +kernel)

/-- nothing is due at or below the first threshold -/
theorem C08_marginal_rate_below_first (ε f : Rat) (s : Scale) (b : Rat) (hs : StrictSorted s)
    (hf : 0 < f + ε) (hb : ∀ c ∈ s.head?, b ≤ (f + ε) * c.1) : calcMR ε f none s b = 0 := by
  unfold calcMR
  apply clipSum_zero_of_le
  intro c hc
  obtain ⟨d, hd, e⟩ := mem_mapT hc
  rw [e]
  simp only [thrMap_none]
  cases s with
  | nil => simp at hd
  | cons a rest =>
    have h0 := hb a (by simp)
    rcases List.mem_cons.mp hd with h | h
    · rw [h]; exact h0
    · have := (strictSorted_cons.mp hs).1 d h
      have := mul_lt_mul_of_pos_left this hf
      linarith

example : calcMR (1/4503599627370496) 1 none [(50, 1/4), (100, 1/2)] 50 = 0 :=
  C08_marginal_rate_below_first _ _ _ _ (by decide +kernel) (by decide +kernel)
    (by intro c hc; simp at hc; subst hc; decide +kernel)

/-! ## the reported bracket and marginal rate are those of the bracket containing the base -/

/-- the reported index `k` satisfies `τ_k ≤ b < τ_{k+1}` with `τ t = round((f + ε)·t)` (no
rounding: `τ t = (f + ε)·t`); more precisely bracket `i` is at or below the reported one iff
its transformed threshold is `≤ b` -/
theorem C08_bracket_contains (ε f : Rat) (rd : Option Nat) (s : Scale) (b : Rat) (hf : 0 < f + ε)
    (hs : StrictSorted s) :
    -1 ≤ bracketIndex ε f rd s b ∧ bracketIndex ε f rd s b < s.length ∧
    ∀ (i : Nat) (t r : Rat), s[i]? = some (t, r) →
      ((i : Int) ≤ bracketIndex ε f rd s b ↔ thrMap ε f rd t ≤ b) := by
  have hl := mapT_wsorted (thrMap_mono ε f rd hf) hs.wsorted
  have hle := cntLe_le_length (mapT (thrMap ε f rd) s) b
  rw [mapT_length] at hle
  rw [bracketIndex_eq]
  refine ⟨by omega, by omega, ?_⟩
  intro i t r hi
  have := cntLe_spec _ hl b i (thrMap ε f rd t, r) (by rw [mapT_getElem?, hi]; rfl)
  rw [← this]
  omega

example : bracketIndex (1/4503599627370496) (1/2) (some 0) [(5, 1/4), (10, 1/2)] 3 = 0 ∧
    thrMap (1/4503599627370496) (1/2) (some 0) 5 = 3 := by decide +kernel

/-- explicit form: lower end included, upper end excluded (in the perturbed thresholds) -/
theorem C08_bracket_contains_bounds (ε f : Rat) (s : Scale) (b : Rat) (hf : 0 < f + ε) (hs : StrictSorted s)
    (k : Nat) (hk : bracketIndex ε f none s b = k) :
    (∀ t r, s[k]? = some (t, r) → (f + ε) * t ≤ b) ∧ (∀ t r, s[k + 1]? = some (t, r) → b < (f + ε) * t) := by
  obtain ⟨_, _, h⟩ := C08_bracket_contains ε f none s b hf hs
  simp only [thrMap_none] at h
  constructor
  · intro t r e
    exact (h k t r e).mp (by omega)
  · intro t r e
    have := (h (k + 1) t r e)
    rw [hk] at this
    by_contra hc
    have := this.mpr (not_lt.mp hc)
    omega

/-- lattice-gap form (factor 1): when base and thresholds sit on a lattice of step `g` and the
perturbation `ε·|t|` of every threshold is smaller than `g` (the situation of the code:
`ε = 2⁻⁵²`), the reported bracket satisfies `t_k ≤ b ≤ t_{k+1}` in the *unperturbed* thresholds -/
theorem C08_bracket_contains_lattice (ε : Rat) (s : Scale) (b g : Rat) (hε : 0 ≤ ε) (hs : StrictSorted s)
    (hg : 0 < g) (hlat : ∀ c ∈ s, ∃ n : Int, b - c.1 = n * g) (hgap : ∀ c ∈ s, ε * |c.1| < g)
    (k : Nat) (hk : bracketIndex ε 1 none s b = k) :
    (∀ t r, s[k]? = some (t, r) → t ≤ b) ∧ (∀ t r, s[k + 1]? = some (t, r) → b ≤ t) := by
  obtain ⟨h1, h2⟩ := C08_bracket_contains_bounds ε 1 s b (by linarith) hs k hk
  constructor
  · intro t r e
    have hm : (t, r) ∈ s := List.mem_of_getElem? e
    obtain ⟨n, hn⟩ := hlat _ hm
    have hgp := hgap _ hm
    have hb := h1 t r e
    simp only at hn hgp
    have habs : -|t| ≤ t := neg_abs_le t
    have h3 : -(ε * |t|) ≤ ε * t := by nlinarith [abs_nonneg t]
    have h4 : (0 : Rat) < (n + 1) * g := by nlinarith
    have h5 : (0 : Rat) < ((n + 1 : Int) : Rat) := by
      have := (mul_pos_iff_of_pos_right hg).mp h4
      push_cast; exact this
    have h6 : 0 < n + 1 := Int.cast_pos.mp h5
    have h7 : (0 : Rat) ≤ (n : Rat) := by exact_mod_cast (by omega : 0 ≤ n)
    nlinarith
  · intro t r e
    have hm : (t, r) ∈ s := List.mem_of_getElem? e
    obtain ⟨n, hn⟩ := hlat _ hm
    have hgp := hgap _ hm
    have hb := h2 t r e
    simp only at hn hgp
    have habs : t ≤ |t| := le_abs_self t
    have h3 : ε * t ≤ ε * |t| := by nlinarith [abs_nonneg t]
    have h4 : (n - 1 : Rat) * g < 0 := by nlinarith
    have h5 : ((n - 1 : Int) : Rat) < 0 := by
      have : (n - 1 : Rat) < 0 := by
        by_contra hc
        have := mul_nonneg (not_lt.mp hc) hg.le
        linarith
      push_cast; exact this
    have h6 : n - 1 < 0 := Int.cast_lt_zero.mp h5
    have h7 : (n : Rat) ≤ 0 := by exact_mod_cast (by omega : n ≤ 0)
    nlinarith

example : (∀ t r, [((0 : Rat), (1/4 : Rat)), (100, 1/2), (300, 1)][0]? = some (t, r) → t ≤ 100) ∧
    (∀ t r, [((0 : Rat), (1/4 : Rat)), (100, 1/2), (300, 1)][0 + 1]? = some (t, r) → 100 ≤ t) :=
  C08_bracket_contains_lattice (1/4503599627370496) _ 100 (1/4) (by decide +kernel) (by decide +kernel) (by decide +kernel)
    (by
      intro c hc
      simp at hc
      rcases hc with e | e | e <;> subst e
      · exact ⟨400, by norm_num⟩
      · exact ⟨0, by norm_num⟩
      · exact ⟨-800, by norm_num⟩)
    (by
      intro c hc
      simp at hc
      rcases hc with e | e | e <;> subst e <;> norm_num [abs_of_nonneg])
    0 (by decide +kernel)

/-- `ε = 0`, factor 1: the textbook half-open bracket `t_k ≤ b < t_{k+1}` -/
theorem C08_bracket_contains_textbook (s : Scale) (b : Rat) (hs : StrictSorted s)
    (k : Nat) (hk : bracketIndex 0 1 none s b = k) :
    (∀ t r, s[k]? = some (t, r) → t ≤ b) ∧ (∀ t r, s[k + 1]? = some (t, r) → b < t) := by
  have := C08_bracket_contains_bounds 0 1 s b (by decide +kernel) hs k hk
  simpa using this

example : bracketIndex (1/4503599627370496) 1 none [(0, 1/4), (100, 1/2), (300, 1)] 200 = 1 ∧
    bracketIndex (1/4503599627370496) 1 none [(0, 1/4), (100, 1/2), (300, 1)] 100 = 0 ∧
    bracketIndex 0 1 none [(0, 1/4), (100, 1/2), (300, 1)] 100 = 1 := by decide +kernel

/-- conversely the bracket containing the base is the one reported, with its rate: if
`s = pre ++ (t, r) :: post` and `τ t ≤ b < τ t'` for every later threshold, then the index is
the position of `(t, r)` and `marginal_rates` returns `r` -/
theorem C08_bracket_reported (ε f : Rat) (pre : Scale) (t r : Rat) (post : Scale) (b : Rat)
    (hf : 0 < f + ε) (hs : StrictSorted (pre ++ (t, r) :: post))
    (hb : (f + ε) * t ≤ b) (hpost : ∀ c ∈ post, b < (f + ε) * c.1) :
    bracketIndex ε f none (pre ++ (t, r) :: post) b = pre.length ∧
    marginalRate ε f none (pre ++ (t, r) :: post) b = .ok r := by
  have hidx : bracketIndex ε f none (pre ++ (t, r) :: post) b = pre.length := by
    unfold bracketIndex
    rw [countP_split]
    · omega
    · intro c hc
      have hlt : c.1 < t := (strictSorted_append.mp hs).2.2 c hc (t, r) List.mem_cons_self
      have := mul_lt_mul_of_pos_left hlt hf
      have h0 : 0 ≤ b - (f + ε) * c.1 := by linarith
      simpa [thrMap_none] using h0
    · have h0 : 0 ≤ b - (f + ε) * t := by linarith
      simpa [thrMap_none] using h0
    · intro c hc
      have := hpost c hc
      have h0 : ¬ 0 ≤ b - (f + ε) * c.1 := by intro h; linarith
      simpa [thrMap_none] using h0
  refine ⟨hidx, ?_⟩
  unfold marginalRate
  rw [hidx]
  unfold pyIndex
  have hlen : ((rates (pre ++ (t, r) :: post)).length : Int) = pre.length + post.length + 1 := by
    simp [rates]; omega
  rw [if_pos (by rw [hlen]; omega)]
  rw [Int.toNat_natCast, rates_getD, getD_split]

example : marginalRate (1/4503599627370496) 1 none ([(0, 1/4)] ++ (100, 1/2) :: [(300, 1)]) 200 = .ok (1/2) :=
  (C08_bracket_reported _ 1 _ _ _ _ 200 (by decide +kernel) (by decide +kernel) (by decide +kernel)
    (by intro c hc; simp at hc; subst hc; decide +kernel)).2

/-- the reported marginal rate is the slope of the tax function: between two bases of the same
bracket (no perturbed threshold strictly between `b` and `b'`, `b` not below the first one)
`calc b' − calc b = marginal_rate(b) × (b' − b)` -/
theorem C08_marginal_slope (ε f : Rat) (s : Scale) (b b' ρ : Rat) (hf : 0 < f + ε) (hs : StrictSorted s)
    (hbb : b ≤ b') (hfirst : 0 ≤ bracketIndex ε f none s b)
    (hsame : ∀ c ∈ s, (f + ε) * c.1 ≤ b ∨ b' ≤ (f + ε) * c.1)
    (hρ : marginalRate ε f none s b = .ok ρ) :
    calcMR ε f none s b' - calcMR ε f none s b = ρ * (b' - b) := by
  have hl := (mapT_strictSorted (thrMap_strictMono ε f hf) hs).wsorted
  rw [marginalRate_eq_scan ε f none s b hl hfirst] at hρ
  injection hρ with hρ
  unfold calcMR
  rw [decide_eq_true hf, ← hρ]
  apply clipSum_slope _ hl b b' hbb
  intro c hc
  obtain ⟨d, hd, e⟩ := mem_mapT hc
  rw [e]
  exact hsame d hd

example : calcMR 0 1 none [(0, 1/4), (100, 1/2)] 180 - calcMR 0 1 none [(0, 1/4), (100, 1/2)] 120 = 1/2 * (180 - 120) :=
  C08_marginal_slope 0 1 _ 120 180 (1/2) (by decide +kernel) (by decide +kernel) (by decide +kernel) (by decide +kernel)
    (by decide +kernel) (by decide +kernel)

/-! ## amount scales and the linear average-rate scale -/

/-- marginal amounts: the sum of the amounts of all thresholds strictly below the base -/
theorem C08_marginal_amount_def (s : Scale) (b : Rat) (hs : StrictSorted s) : calcMA s b = sumBelow s b :=
  calcMA_eq_sumBelow s hs b

example : calcMA [(0, 1), (10, 2), (20, 4)] 15 = sumBelow [(0, 1), (10, 2), (20, 4)] 15 :=
  C08_marginal_amount_def _ 15 (by decide +kernel)
example : calcMA [(0, 1), (10, 2), (20, 4)] 10 = 1 ∧ calcMA [(0, 1), (10, 2), (20, 4)] 15 = 3 ∧
    sumBelow [(0, 1), (10, 2), (20, 4)] 15 = 3 := by decide +kernel

/-- single amount: the amount of the one bracket containing the base — `t ≤ b < t'` by default,
`t < b ≤ t'` with `right=True` — and zero below the first threshold -/
theorem C08_single_amount_def (pre : Scale) (t a : Rat) (post : Scale) (b : Rat)
    (hs : StrictSorted (pre ++ (t, a) :: post)) :
    (t ≤ b → (∀ c ∈ post, b < c.1) → calcSA false (pre ++ (t, a) :: post) b = a) ∧
    (t < b → (∀ c ∈ post, b ≤ c.1) → calcSA true (pre ++ (t, a) :: post) b = a) := by
  have hpre : ∀ c ∈ pre, c.1 < t := fun c hc => (strictSorted_append.mp hs).2.2 c hc (t, a) List.mem_cons_self
  constructor
  · intro h1 h2
    unfold calcSA digitize
    rw [countP_split]
    · simp only [getD_split]
    · intro c hc; have := hpre c hc; simp only [Bool.false_eq_true, if_false, decide_eq_true_eq]; linarith
    · simpa using h1
    · intro c hc; simpa using h2 c hc
  · intro h1 h2
    unfold calcSA digitize
    rw [countP_split]
    · simp only [getD_split]
    · intro c hc; have := hpre c hc; simp only [if_true, decide_eq_true_eq]; linarith
    · simpa using h1
    · intro c hc; simpa using h2 c hc

/-- zero below the first threshold (at it too with `right=True`) -/
theorem C08_single_amount_below_first (s : Scale) (b : Rat) :
    ((∀ c ∈ s, b < c.1) → calcSA false s b = 0) ∧ ((∀ c ∈ s, b ≤ c.1) → calcSA true s b = 0) := by
  constructor
  · intro h
    unfold calcSA digitize
    rw [List.countP_eq_zero.mpr]
    intro c hc; simpa using h c hc
  · intro h
    unfold calcSA digitize
    rw [List.countP_eq_zero.mpr]
    intro c hc; simpa using h c hc

example : calcSA false [(5, 1), (10, 2)] 4 = 0 ∧ calcSA true [(5, 1), (10, 2)] 5 = 0 :=
  ⟨(C08_single_amount_below_first _ 4).1 (by decide +kernel), (C08_single_amount_below_first _ 5).2 (by decide +kernel)⟩
example : calcSA true ([(0, 1)] ++ (10, 2) :: [(20, 4)]) 20 = 2 :=
  (C08_single_amount_def _ _ _ _ 20 (by decide +kernel)).2 (by decide +kernel)
    (by intro c hc; simp at hc; subst hc; decide +kernel)
example : calcSA false ([(0, 1)] ++ (10, 2) :: [(20, 4)]) 10 = 2 :=
  (C08_single_amount_def _ _ _ _ 10 (by decide +kernel)).1 (by decide +kernel)
    (by intro c hc; simp at hc; subst hc; decide +kernel)

/-- linear average rate on `[t₀, t_last)`: the base times the rate interpolated linearly between
the two thresholds around it -/
theorem C08_linear_average_def (pre : Scale) (t r t' r' : Rat) (post : Scale) (b : Rat)
    (hs : StrictSorted (pre ++ (t, r) :: (t', r') :: post)) (h1 : t ≤ b) (h2 : b < t') :
    calcLA (pre ++ (t, r) :: (t', r') :: post) b = .ok (b * (r + (b - t) * ((r' - r) / (t' - t)))) := by
  have hsum := laSums_split pre t r t' r' post b hs h1 h2
  unfold calcLA
  split
  · rename_i h; simp at h
  · rename_i h
    have := congrArg List.length h
    simp at this
    omega
  · rw [hsum]

example : calcLA ([(0, 0)] ++ (100, 1/8) :: (300, 1/2) :: []) 200 = .ok (200 * (1/8 + (200 - 100) * ((1/2 - 1/8) / (300 - 100)))) :=
  C08_linear_average_def _ _ _ _ _ _ 200 (by decide +kernel) (by decide +kernel) (by decide +kernel)

/-! ## insertion order, vectors -/

/-- the scale built by `add_bracket` does not depend on the order of insertion: equal
thresholds accumulate their rates (amounts), the others are inserted in order -/
theorem C08_insertion_order (l₁ l₂ : List (Rat × Rat)) (h : l₁.Perm l₂) : build l₁ = build l₂ := by
  rw [build_eq_insAll, build_eq_insAll]
  exact insAll_perm h [] strictSorted_nil

example : build [(100, 1/2), (0, 1/4), (100, 1/8)] = build [(100, 1/8), (100, 1/2), (0, 1/4)] :=
  C08_insertion_order _ _ (by decide +kernel)

/-- … and it is strictly sorted, whatever was inserted (the hypothesis of the theorems above) -/
theorem C08_built_sorted (l : List (Rat × Rat)) : StrictSorted (build l) := build_sorted l

example : StrictSorted (build [(100, 1/2), (0, 1/4), (100, 1/8), (-5, 1)]) := C08_built_sorted _

/-- what the built scale is: its thresholds are exactly the inserted ones (each once, by
`C08_built_sorted`) and the rate / amount of a threshold is the sum of those inserted for it -/
theorem C08_build_def (l : List (Rat × Rat)) (u : Rat) :
    hasT (build l) u = hasT l u ∧ rateOf (build l) u = rateOf l u := by
  rw [build_eq_insAll, hasT_insAll, rateOf_insAll]
  simp [rateOf]

example : rateOf (build [(100, 1/2), (0, 1/4), (100, 1/8)]) 100 = 5/8 ∧ hasT (build [(100, 1/2), (0, 1/4), (100, 1/8)]) 0 = true := by
  decide +kernel

/-- `calc` on a vector of bases (one clipped column per bracket, summed over the brackets) gives
for each base the value of that base alone; same for the indices and rates -/
theorem C08_vector_pointwise (ε f : Rat) (rd : Option Nat) (s : Scale) (bs : List Rat) :
    calcMRVec ε f rd s bs = bs.map (calcMR ε f rd s) ∧
    (s ≠ [] → bs ≠ [] → bracketIndices ε f rd s bs = .ok (bs.map (bracketIndex ε f rd s))) := by
  constructor
  · unfold calcMRVec calcMR
    exact clipSumVec_eq_map _ _ _ _
  · intro h1 h2
    unfold bracketIndices
    cases s with
    | nil => exact absurd rfl h1
    | cons a s =>
      cases bs with
      | nil => exact absurd rfl h2
      | cons b bs => rfl

example : calcMRVec 0 1 none [(0, 1/4), (100, 1/2)] [50, 150, -5] = [25/2, 50, 0] := by decide +kernel
example : bracketIndices (1/4503599627370496) 1 none [(0, 1/4), (100, 1/2)] [50, 100, 150]
    = .ok ([50, 100, 150].map (bracketIndex (1/4503599627370496) 1 none [(0, 1/4), (100, 1/2)])) :=
  (C08_vector_pointwise _ _ _ _ _).2 (by simp) (by simp)

/-- an array of factors (one per base, `numpy.ones(len) * factor`): element `j` is the scalar
computation with its own factor — and a constant array is the scalar factor -/
theorem C08_vector_factor (rd : Option Nat) (s : Scale) (bs : List Rat) :
    (∀ efs : List (Rat × Rat), efs.length = bs.length →
      calcMRVecF efs rd s bs = .ok (List.zipWith (fun ef b => calcMR ef.1 ef.2 rd s b) efs bs) ∧
      (s ≠ [] → bs ≠ [] →
        bracketIndicesF efs rd s bs = .ok (List.zipWith (fun ef b => bracketIndex ef.1 ef.2 rd s b) efs bs))) ∧
    ∀ ε f : Rat, calcMRVecF (bs.map (fun _ => (ε, f))) rd s bs = .ok (calcMRVec ε f rd s bs) := by
  constructor
  · intro efs hlen
    constructor
    · unfold calcMRVecF
      simp [hlen]
    · intro h1 h2
      unfold bracketIndicesF
      cases s with
      | nil => exact absurd rfl h1
      | cons a s =>
        cases bs with
        | nil => exact absurd rfl h2
        | cons b bs => simp [hlen]
  · intro ε f
    unfold calcMRVecF
    simp only [List.length_map, ne_eq, not_true_eq_false, if_false]
    rw [(C08_vector_pointwise ε f rd s bs).1]
    congr 1
    induction bs with
    | nil => rfl
    | cons b bs ih => simp only [List.map_cons, List.zipWith_cons_cons, ih]

example : calcMRVecF [(0, 1), (0, 2), (0, 1/2)] none [(0, 1/4), (100, 1/2), (300, 1)] [50, 150, 400]
    = .ok [25/2, 75/2, 625/2] := by decide +kernel

/-! ## round 2: shape of the tax function -/

/-- the tax is monotone in the base when no rate is negative (any factor `f + ε > 0`) -/
theorem C08_calc_monotone (ε f : Rat) (s : Scale) (hf : 0 < f + ε) (hs : StrictSorted s) (hr : ∀ c ∈ s, 0 ≤ c.2)
    (b b' : Rat) (h : b ≤ b') : calcMR ε f none s b ≤ calcMR ε f none s b' := by
  unfold calcMR
  rw [decide_eq_true hf]
  apply clipSum_mono _ (mapT_strictSorted (thrMap_strictMono ε f hf) hs).wsorted _ b b' h
  intro c hc
  obtain ⟨d, hd, e⟩ := mem_mapT hc
  rw [e]; exact hr d hd

example : calcMR 0 1 none [(0, 1/4), (100, 0), (300, 1/2)] 150 ≤ calcMR 0 1 none [(0, 1/4), (100, 0), (300, 1/2)] 350 :=
  C08_calc_monotone 0 1 _ (by decide +kernel) (by decide +kernel) (by decide +kernel) 150 350 (by decide +kernel)

/-- the tax function has no jump, in particular not at a threshold (where the closed forms of the two
neighbouring brackets meet): it is Lipschitz, two bases are taxed at most `R × |b' − b|` apart when every
rate lies in `[−R, R]` -/
theorem C08_calc_lipschitz (ε f : Rat) (s : Scale) (hf : 0 < f + ε) (hs : StrictSorted s) (R : Rat) (h0 : 0 ≤ R)
    (hR : ∀ c ∈ s, |c.2| ≤ R) (b b' : Rat) :
    |calcMR ε f none s b' - calcMR ε f none s b| ≤ R * |b' - b| := by
  have key : ∀ x x' : Rat, x ≤ x' → |calcMR ε f none s x' - calcMR ε f none s x| ≤ R * (x' - x) := by
    intro x x' hxx
    unfold calcMR
    rw [decide_eq_true hf]
    have hl := (mapT_strictSorted (thrMap_strictMono ε f hf) hs).wsorted
    cases hm : mapT (thrMap ε f none) s with
    | nil =>
      simp only [clipSum, sub_self, abs_zero]
      exact mul_nonneg h0 (by linarith)
    | cons a rest =>
      obtain ⟨t, r⟩ := a
      rw [hm] at hl
      have hR' : ∀ c ∈ (t, r) :: rest, -R ≤ c.2 ∧ c.2 ≤ R := by
        intro c hc
        rw [← hm] at hc
        obtain ⟨d, hd, e⟩ := mem_mapT hc
        rw [e]
        exact abs_le.mp (hR d hd)
      obtain ⟨u, l⟩ := clipSum_diff_bounds R t r rest hl hR' x x' hxx
      have hD : pp (x' - t) - pp (x - t) ≤ x' - x := by
        have := pp_diff_le (show x - t ≤ x' - t by linarith); linarith
      have hD0 : 0 ≤ pp (x' - t) - pp (x - t) := by
        have := pp_mono (show x - t ≤ x' - t by linarith); linarith
      rw [abs_le]
      constructor <;> nlinarith
  rcases le_total b b' with h | h
  · rw [abs_of_nonneg (by linarith : 0 ≤ b' - b)]; exact key b b' h
  · rw [abs_sub_comm, abs_sub_comm b' b, abs_of_nonneg (by linarith : 0 ≤ b - b')]; exact key b' b h

example : |calcMR 0 1 none [(0, 1/4), (100, -1/2)] 101 - calcMR 0 1 none [(0, 1/4), (100, -1/2)] 99| ≤ 1/2 * |(101 : Rat) - 99| :=
  C08_calc_lipschitz 0 1 _ (by decide +kernel) (by decide +kernel) (1/2) (by decide +kernel) (by decide +kernel) 99 101

/-- the reported bracket never goes down when the base goes up (any scale, factor, rounding) -/
theorem C08_bracket_index_monotone (ε f : Rat) (rd : Option Nat) (s : Scale) (b b' : Rat) (h : b ≤ b') :
    bracketIndex ε f rd s b ≤ bracketIndex ε f rd s b' := bracketIndex_mono ε f rd s h

example : bracketIndex (1/4503599627370496) (3/2) (some 0) [(0, 1/4), (5, 1/2), (9, 1)] 7
    ≤ bracketIndex (1/4503599627370496) (3/2) (some 0) [(0, 1/4), (5, 1/2), (9, 1)] 14 :=
  C08_bracket_index_monotone _ _ _ _ 7 14 (by decide +kernel)

/-- inside one bracket `(t, r)` — both bases between `τ t` and the next perturbed threshold, ends included — the
tax is affine with slope `r`: the reported marginal rate (`C08_bracket_reported`) is the derivative of `calc` -/
theorem C08_marginal_rate_derivative (ε f : Rat) (pre : Scale) (t r : Rat) (post : Scale) (b b' : Rat)
    (hf : 0 < f + ε) (hs : StrictSorted (pre ++ (t, r) :: post))
    (hb : (f + ε) * t ≤ b) (hb' : (f + ε) * t ≤ b')
    (hpost : ∀ c ∈ post, b ≤ (f + ε) * c.1) (hpost' : ∀ c ∈ post, b' ≤ (f + ε) * c.1) :
    calcMR ε f none (pre ++ (t, r) :: post) b' - calcMR ε f none (pre ++ (t, r) :: post) b = r * (b' - b) := by
  rw [C08_marginal_rate_closed ε f pre t r post b hf hs hb hpost, C08_marginal_rate_closed ε f pre t r post b' hf hs hb' hpost']
  ring

example : calcMR 0 1 none ([(0, 1/4)] ++ (100, 1/2) :: [(300, 1)]) 300 - calcMR 0 1 none ([(0, 1/4)] ++ (100, 1/2) :: [(300, 1)]) 100
    = 1/2 * (300 - 100) :=
  C08_marginal_rate_derivative 0 1 _ _ _ _ 100 300 (by decide +kernel) (by decide +kernel) (by decide +kernel) (by decide +kernel)
    (by intro c hc; simp at hc; subst hc; decide +kernel) (by intro c hc; simp at hc; subst hc; decide +kernel)

/-- `commons.marginal_rate` (`1 −` the finite difference of the net income over that of the gross income) applied to
the net incomes `b − calc b` of two distinct gross incomes of one bracket returns that bracket's rate -/
theorem C08_finite_difference_rate (ε f : Rat) (pre : Scale) (t r : Rat) (post : Scale) (b b' : Rat)
    (hf : 0 < f + ε) (hs : StrictSorted (pre ++ (t, r) :: post))
    (hb : (f + ε) * t ≤ b) (hb' : (f + ε) * t ≤ b')
    (hpost : ∀ c ∈ post, b ≤ (f + ε) * c.1) (hpost' : ∀ c ∈ post, b' ≤ (f + ε) * c.1) (hne : b ≠ b') :
    marginalRateFD none [b - calcMR ε f none (pre ++ (t, r) :: post) b, b' - calcMR ε f none (pre ++ (t, r) :: post) b'] [b, b']
      = .ok [some r] := by
  have hd := C08_marginal_rate_derivative ε f pre t r post b b' hf hs hb hb' hpost hpost'
  have hbb : b - b' ≠ 0 := sub_ne_zero.mpr hne
  simp only [marginalRateFD, hbb, if_false, trimRate]
  congr 3
  field_simp
  linarith

example : marginalRateFD none [120 - calcMR 0 1 none ([(0, 1/4)] ++ (100, 1/2) :: [(300, 1)]) 120,
      180 - calcMR 0 1 none ([(0, 1/4)] ++ (100, 1/2) :: [(300, 1)]) 180] [120, 180] = .ok [some (1/2)] := by decide +kernel

/-! ## round 2: the guards of the single-amount scale, `to_dict`, `commons.apply_thresholds` -/

/-- `SingleAmountTaxScale.calc` as written (bins `[-inf, *thresholds, inf]`, amounts `[0, *amounts, 0]`, Python
index `digitize − 1`) is `calcSA` on every finite base: the two guard amounts are met at `±inf` only -/
theorem C08_single_amount_guards (right : Bool) (s : Scale) (b : Rat) : calcSAE right s (.fin b) = .ok (calcSA right s b) :=
  calcSAE_fin right s b

example : calcSAE false [(0, 1), (10, 2)] (.fin 10) = .ok 2 ∧ calcSAE false [(0, 1), (10, 2)] .posInf = .ok 0 ∧
    calcSAE true [(0, 1), (10, 2)] .posInf = .ok 2 ∧ calcSAE true [(0, 1), (10, 2)] .negInf = .ok 0 := by decide +kernel

/-- `to_dict()` of a scale built by `add_bracket` lists exactly its brackets, in threshold order -/
theorem C08_to_dict (l : List (Rat × Rat)) : toDict (build l) = build l := toDict_sorted _ (build_sorted l)

example : toDict (build [(100, 1/2), (0, 1/4), (100, 1/8)]) = [(0, 1/4), (100, 5/8)] := by decide +kernel
/-- thresholds made equal by a rounding `multiply_thresholds` collapse: first position, last rate -/
example : toDict (multiplyThresholds [(0, 1/4), (1, 1/2), (2, 1), (100, 1/8)] (1/8) (some 0)) = [(0, 1), (12, 1/8)] := by decide +kernel

/-- `commons.apply_thresholds`: the choice attached to the first threshold that the input does not exceed
(as many choices as thresholds, or one more) -/
theorem C08_apply_thresholds (x : Rat) (pre : List Rat) (t : Rat) (post cpre : List Rat) (c : Rat) (cpost : List Rat)
    (hlen : cpre.length = pre.length) (hshape : cpost.length = post.length ∨ cpost.length = post.length + 1)
    (hpre : ∀ u ∈ pre, u < x) (ht : x ≤ t) :
    applyThresholds x (pre ++ t :: post) (cpre ++ c :: cpost) = .ok c := by
  have hsel : ∀ (extra : List Bool) (more : List Rat),
      selectFirst (((pre ++ t :: post).map (fun u => decide (x ≤ u)) ++ extra).zip (cpre ++ c :: more)) = c := by
    intro extra more
    rw [List.map_append, List.map_cons, List.append_assoc, List.cons_append,
      List.zip_append (by simp [hlen]), List.zip_cons_cons, decide_eq_true ht]
    apply selectFirst_split
    intro p hp
    obtain ⟨hp1, _⟩ := List.of_mem_zip hp
    obtain ⟨u, hu, e⟩ := List.mem_map.mp hp1
    rw [← e]
    exact decide_eq_false (not_le.mpr (hpre u hu))
  unfold applyThresholds
  rcases hshape with h | h
  · have e1 : ¬ ((pre ++ t :: post).map (fun u => decide (x ≤ u))).length + 1 = (cpre ++ c :: cpost).length := by
      simp [hlen, h]
    simp only [e1, if_false]
    rw [if_neg (by simp [hlen, h]), if_neg (by simp)]
    have := hsel [] cpost
    rw [List.append_nil] at this
    rw [this]
  · have e1 : ((pre ++ t :: post).map (fun u => decide (x ≤ u))).length + 1 = (cpre ++ c :: cpost).length := by
      simp [hlen, h]; omega
    simp only [e1, if_true]
    rw [if_neg (by simp [hlen, h]), if_neg (by simp)]
    rw [hsel [true] cpost]

example : applyThresholds 6 ([5] ++ 7 :: []) ([10] ++ 15 :: [20]) = .ok 15 :=
  C08_apply_thresholds 6 [5] 7 [] [10] 15 [20] rfl (Or.inr rfl) (by decide +kernel) (by decide +kernel)

/-- … and above every threshold: the extra choice when there is one, else 0 (`numpy.select`'s default) -/
theorem C08_apply_thresholds_above (x : Rat) (ths cs : List Rat) (hx : ∀ u ∈ ths, u < x) (hlen : cs.length = ths.length) :
    (∀ c, applyThresholds x ths (cs ++ [c]) = .ok c) ∧ (ths ≠ [] → applyThresholds x ths cs = .ok 0) := by
  have hfalse : ∀ (more : List Rat), ∀ p ∈ (ths.map (fun u => decide (x ≤ u))).zip more, p.1 = false := by
    intro more p hp
    obtain ⟨hp1, _⟩ := List.of_mem_zip hp
    obtain ⟨u, hu, e⟩ := List.mem_map.mp hp1
    rw [← e]
    exact decide_eq_false (not_le.mpr (hx u hu))
  constructor
  · intro c
    unfold applyThresholds
    have e1 : (ths.map (fun u => decide (x ≤ u))).length + 1 = (cs ++ [c]).length := by simp [hlen]
    simp only [e1, if_true]
    rw [if_neg (by simp [hlen]), if_neg (by simp)]
    rw [List.zip_append (by simp [hlen])]
    have : selectFirst ((ths.map (fun u => decide (x ≤ u))).zip cs ++ [true].zip [c]) = c := by
      simpa using selectFirst_split _ c [] (hfalse cs)
    rw [this]
  · intro hne
    unfold applyThresholds
    have e1 : ¬ (ths.map (fun u => decide (x ≤ u))).length + 1 = cs.length := by simp [hlen]
    simp only [e1, if_false]
    rw [if_neg (by simp [hlen]), if_neg (by simpa using hne)]
    rw [selectFirst_none _ (hfalse cs)]

example : applyThresholds 8 [5, 7] ([10, 15] ++ [20]) = .ok 20 ∧ applyThresholds 8 [5, 7] [10, 15] = .ok 0 :=
  ⟨(C08_apply_thresholds_above 8 [5, 7] [10, 15] (by decide +kernel) rfl).1 20,
   (C08_apply_thresholds_above 8 [5, 7] [10, 15] (by decide +kernel) rfl).2 (by simp)⟩

/-- `commons.average_rate` of the net income `b − calc b` left by a linear-average-rate scale, over the gross income `b ≠ 0`
inside `[t, t')`, is the interpolated average rate of `C08_linear_average_def` -/
theorem C08_average_rate_linear (pre : Scale) (t r t' r' : Rat) (post : Scale) (b : Rat)
    (hs : StrictSorted (pre ++ (t, r) :: (t', r') :: post)) (h1 : t ≤ b) (h2 : b < t') (hb : b ≠ 0) :
    ∃ v, calcLA (pre ++ (t, r) :: (t', r') :: post) b = .ok v ∧
      averageRate none (b - v) b = .ok (some (r + (b - t) * ((r' - r) / (t' - t)))) := by
  refine ⟨_, C08_linear_average_def pre t r t' r' post b hs h1 h2, ?_⟩
  simp only [averageRate, hb, if_false, trimRate]
  congr 2
  field_simp
  ring

example : ∃ v, calcLA ([(0, 0)] ++ (100, 1/8) :: (300, 1/2) :: []) 200 = .ok v ∧
    averageRate none (200 - v) 200 = .ok (some (1/8 + (200 - 100) * ((1/2 - 1/8) / (300 - 100)))) :=
  C08_average_rate_linear _ _ _ _ _ _ 200 (by decide +kernel) (by decide +kernel) (by decide +kernel) (by decide +kernel)

/-- `switch`: the value of the first key equal to the condition, 0 when there is none -/
theorem C08_switch (c : Rat) (pre : List (Rat × Rat)) (v : Rat) (post : List (Rat × Rat)) (hpre : ∀ p ∈ pre, p.1 ≠ c) :
    switchSel c (pre ++ (c, v) :: post) = .ok v ∧
    (∀ table : List (Rat × Rat), table ≠ [] → (∀ p ∈ table, p.1 ≠ c) → switchSel c table = .ok 0) := by
  constructor
  · unfold switchSel
    rw [if_neg (by simp)]
    rw [List.map_append, List.map_cons]
    simp only [decide_true]
    rw [selectFirst_split]
    intro p hp
    obtain ⟨q, hq, e⟩ := List.mem_map.mp hp
    rw [← e]
    exact decide_eq_false (fun h => hpre q hq h.symm)
  · intro table hne hall
    unfold switchSel
    rw [if_neg (by simpa using hne)]
    rw [selectFirst_none]
    intro p hp
    obtain ⟨q, hq, e⟩ := List.mem_map.mp hp
    rw [← e]
    exact decide_eq_false (fun h => hall q hq h.symm)

example : switchSel 2 ([(1, 80)] ++ (2, 90) :: []) = .ok 90 := (C08_switch 2 [(1, 80)] 90 [] (by decide +kernel)).1

/-! ## round 2: the conventions outside the claim domain, as the code has them (mirrored by the model, compared by the
correspondence, not part of the statement) -/

/-- below every (perturbed, rounded) threshold no bracket contains the base: the reported index is `−1`, and
`marginal_rates` then wraps around to the LAST rate (`numpy` indexing with `−1`) -/
theorem C08_index_below_first (ε f : Rat) (rd : Option Nat) (s : Scale) (b : Rat) (hne : s ≠ [])
    (hb : ∀ c ∈ s, b < thrMap ε f rd c.1) :
    bracketIndex ε f rd s b = -1 ∧ marginalRate ε f rd s b = .ok ((s.getLast hne).2) := by
  have hidx : bracketIndex ε f rd s b = -1 := by
    unfold bracketIndex
    rw [List.countP_eq_zero.mpr]
    · simp
    · intro c hc
      have := hb c hc
      simp only [decide_eq_true_eq, not_le]
      linarith
  refine ⟨hidx, ?_⟩
  unfold marginalRate
  rw [hidx]
  unfold pyIndex
  have hlen : 0 < (rates s).length := by
    cases s with
    | nil => exact absurd rfl hne
    | cons a rest => simp [rates]
  rw [if_neg (by omega), if_pos (by omega)]
  congr 1
  have e : (((rates s).length : Int) + -1).toNat = (rates s).length - 1 := by omega
  rw [e, rates_getD]
  have hl : (rates s).length = s.length := by simp [rates]
  rw [hl, List.getD_eq_getElem?_getD, ← List.getLast?_eq_getElem?, List.getLast?_eq_some_getLast hne]
  rfl

example : bracketIndex (1/4503599627370496) 1 none [(50, 1/4), (100, 1/2)] 50 = -1 ∧
    marginalRate (1/4503599627370496) 1 none [(50, 1/4), (100, 1/2)] 50 = .ok (1/2) := by decide +kernel

/-- the linear-average scale (two brackets or more) yields 0 below its first threshold and at or above its last one -/
theorem C08_linear_average_outside (a a' : Rat × Rat) (rest : Scale) (b : Rat)
    (hb : (∀ c ∈ a :: a' :: rest, b < c.1) ∨ (∀ c ∈ a :: a' :: rest, c.1 ≤ b)) :
    calcLA (a :: a' :: rest) b = .ok 0 := by
  have hz : laSums (a :: a' :: rest) b = (0, 0, 0) := by
    rcases hb with h | h
    · exact laSums_zero_of_lt _ b h
    · exact laSums_zero_of_le _ b h
  obtain ⟨t, r⟩ := a
  obtain ⟨t', r'⟩ := a'
  simp only [calcLA, hz]
  congr 1
  ring

example : calcLA [(0, 0), (100, 1/8), (300, 1/2)] 300 = .ok 0 ∧ calcLA [(0, 0), (100, 1/8), (300, 1/2)] (-5) = .ok 0 := by decide +kernel

/-- `marginal_rates`, `threshold_from_tax_base` and `rate_from_tax_base` on a vector are the single-base computations,
element by element (non-empty scale and vector; the empty ones raise, `bracketIndices`) -/
theorem C08_vector_rates (ε f : Rat) (rd : Option Nat) (s : Scale) (bs : List Rat) (h1 : s ≠ []) (h2 : bs ≠ []) :
    marginalRates ε f rd s bs = bs.mapM (marginalRate ε f rd s) ∧
    thresholdFromTaxBase ε s bs = bs.mapM (fun b => pyIndex (thresholds s) (bracketIndex ε 1 none s b)) := by
  constructor
  · unfold marginalRates
    rw [(C08_vector_pointwise ε f rd s bs).2 h1 h2]
    simp only [bind, Except.bind]
    rw [mapM_pyIndex_map]
    rfl
  · unfold thresholdFromTaxBase
    rw [(C08_vector_pointwise ε 1 none s bs).2 h1 h2]
    simp only [bind, Except.bind]
    rw [mapM_pyIndex_map]

/-- the threshold and the rate reported for a base are those of the bracket containing it (`threshold_from_tax_base`,
`rate_from_tax_base`; factor 1, perturbation `ε`) -/
theorem C08_threshold_rate_from_tax_base (ε : Rat) (pre : Scale) (t r : Rat) (post : Scale) (b : Rat)
    (hf : 0 < 1 + ε) (hs : StrictSorted (pre ++ (t, r) :: post))
    (hb : (1 + ε) * t ≤ b) (hpost : ∀ c ∈ post, b < (1 + ε) * c.1) :
    thresholdFromTaxBase ε (pre ++ (t, r) :: post) [b] = .ok [t] ∧ rateFromTaxBase ε (pre ++ (t, r) :: post) [b] = .ok [r] := by
  obtain ⟨hidx, _⟩ := C08_bracket_reported ε 1 pre t r post b hf hs hb hpost
  have hne : (pre ++ (t, r) :: post) ≠ [] := by simp
  have hbi : bracketIndices ε 1 none (pre ++ (t, r) :: post) [b] = .ok [(pre.length : Int)] := by
    rw [(C08_vector_pointwise ε 1 none _ [b]).2 hne (by simp)]
    simp only [List.map_cons, List.map_nil, hidx]
  have hlenT : ((thresholds (pre ++ (t, r) :: post)).length : Int) = pre.length + post.length + 1 := by
    simp [thresholds]; omega
  have hlenR : ((rates (pre ++ (t, r) :: post)).length : Int) = pre.length + post.length + 1 := by
    simp [rates]; omega
  have hT : pyIndex (thresholds (pre ++ (t, r) :: post)) (pre.length : Int) = .ok t := by
    unfold pyIndex
    rw [if_pos (by rw [hlenT]; omega), Int.toNat_natCast]
    congr 1
    simp [thresholds, List.getD_eq_getElem?_getD]
  have hRr : pyIndex (rates (pre ++ (t, r) :: post)) (pre.length : Int) = .ok r := by
    unfold pyIndex
    rw [if_pos (by rw [hlenR]; omega), Int.toNat_natCast, rates_getD, getD_split]
  constructor
  · unfold thresholdFromTaxBase
    rw [hbi]
    simp only [bind, Except.bind, List.mapM_cons, List.mapM_nil, hT, pure, Except.pure]
  · unfold rateFromTaxBase
    rw [hbi]
    simp only [bind, Except.bind]
    unfold rateFromBracketIndice
    have hnot : ([(pre.length : Int)].any fun i => decide (i > ((pre ++ (t, r) :: post).length : Int) - 1)) = false := by
      simp; omega
    simp only [List.isEmpty_cons, Bool.false_eq_true, if_false, hnot]
    simp only [List.mapM_cons, List.mapM_nil, hRr, bind, Except.bind, pure, Except.pure]

example : thresholdFromTaxBase (1/4503599627370496) ([(0, 0)] ++ (200, 1/8) :: [(500, 1/4)]) [450] = .ok [200] ∧
    rateFromTaxBase (1/4503599627370496) ([(0, 0)] ++ (200, 1/8) :: [(500, 1/4)]) [450] = .ok [1/8] :=
  C08_threshold_rate_from_tax_base _ _ _ _ _ 450 (by decide +kernel) (by decide +kernel) (by decide +kernel)
    (by intro c hc; simp at hc; subst hc; decide +kernel)

end OFCore
