import OFCore.GeneratedParam
/-!
# C06 — the parameter model reads a value exactly as the code's source says (translator tie)

`OFCore.Generated.Param.parameter_get_at_instant` is regenerated on every run from the source of
`Parameter._get_at_instant` (`harness/ofverif/translate.py`: the `for … if … return` loop becomes
"the first entry of `values_list` passing the translated test").  `pget` is the function every
`C06_…` theorem is about.
-/
namespace OFCore.Param
open OFCore.Generated

theorem C06_tie_get_at_instant {V : Type} (l : List (Entry V)) (d : Int) :
    pget l d = Generated.Param.parameter_get_at_instant l d := by
  first
  | rfl      -- the fall-back definition (function not translatable on this run) is `pget` itself
  | (induction l with
    | nil => simp [pget, Generated.Param.parameter_get_at_instant]
    | cons e r ih =>
      unfold Generated.Param.parameter_get_at_instant at *
      by_cases h : e.date ≤ d
      · simp [pget, List.find?, h]
      · simp [pget, List.find?, h]; exact ih)

/-- **tie**: the children a parameter group exposes at a date — `childrenAt`, the function the group clause of
    C06 is proved about — are what the current source of `ParameterNodeAtInstant.__init__` keeps: every child
    of the node, in dict order, read with `_get_at_instant`, dropped exactly when that is `None` -/
theorem C06_tie_node_children {V : Type} (cs : List (String × PNode V)) (d : Int) :
    childrenAt cs d = Generated.Param.node_at_instant_children PNode.atInstant cs d := by
  induction cs with
  | nil => simp [childrenAt, Generated.Param.node_at_instant_children]
  | cons kc r ih =>
    obtain ⟨k, c⟩ := kc
    unfold Generated.Param.node_at_instant_children at ih ⊢
    rw [childrenAt, List.filterMap_cons]
    cases h : c.atInstant d with
    | none => simp [ih]
    | some s => simp [ih]

/-- stated on the code's side, for ANY reading of a child at a date: the translated loop of
    `ParameterNodeAtInstant.__init__` exposes a name with a value exactly when a child of that name reads as
    that value (is not `None`) at the date — nothing else is added, nothing defined is dropped -/
theorem C06_code_node_children_spec {C S : Type} (atI : C → Int → Option S) (cs : List (String × C)) (d : Int)
    (k : String) (s : S) :
    (k, s) ∈ Generated.Param.node_at_instant_children atI cs d ↔ ∃ c, (k, c) ∈ cs ∧ atI c d = some s := by
  unfold Generated.Param.node_at_instant_children
  rw [List.mem_filterMap]
  constructor
  · rintro ⟨⟨k', c⟩, hm, h⟩
    cases hc : atI c d with
    | none => simp [hc] at h
    | some s' =>
      simp [hc] at h
      obtain ⟨rfl, rfl⟩ := h
      exact ⟨c, hm, hc⟩
  · rintro ⟨c, hm, hc⟩
    exact ⟨(k, c), hm, by simp [hc]⟩

/-- … and the order of the exposed names is the dict order of the children -/
theorem C06_code_node_children_order {C S : Type} (atI : C → Int → Option S) (cs : List (String × C)) (d : Int) :
    ((Generated.Param.node_at_instant_children atI cs d).map (·.1)).Sublist (cs.map (·.1)) := by
  unfold Generated.Param.node_at_instant_children
  induction cs with
  | nil => simp
  | cons kc r ih =>
    rw [List.filterMap_cons]
    cases h : atI kc.2 d with
    | none => simp only [List.map_cons]; exact ih.cons _
    | some s => simp only [List.map_cons]; exact ih.cons_cons _
/-- a group with one member defined at the date and one not yet defined exposes the first only -/
example : Generated.Param.node_at_instant_children (fun (l : List (Entry Nat)) d => pget l d)
    [("a", [⟨10, some 3⟩]), ("b", [⟨30, some 4⟩])] 15 = [("a", 3)] := by decide

example : Generated.Param.parameter_get_at_instant [⟨20, some 5⟩, ⟨10, some 3⟩] 15 = some 3 := by decide
end OFCore.Param
