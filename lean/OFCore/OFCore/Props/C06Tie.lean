import OFCore.GeneratedParam
/-!
# C06 — the parameter model reads a value exactly as the code's source says (translator tie)

`OFCore.Generated.Param.parameter_get_at_instant` is regenerated on every run from the source of
`Parameter._get_at_instant` (`harness/ofverif/translate.py`: the `for … if … return` loop becomes
"the first entry of `values_list` passing the translated test").  `pget` is the function every
`C06_…` theorem is about.
-/
namespace OFCore.Param
open OFCore.Generated

theorem C06_tie_get_at_instant {V : Type} (l : List (Entry V)) (d : Int) :
    pget l d = Generated.Param.parameter_get_at_instant l d := by
  first
  | rfl      -- the fall-back definition (function not translatable on this run) is `pget` itself
  | (induction l with
    | nil => simp [pget, Generated.Param.parameter_get_at_instant]
    | cons e r ih =>
      unfold Generated.Param.parameter_get_at_instant at *
      by_cases h : e.date ≤ d
      · simp [pget, List.find?, h]
      · simp [pget, List.find?, h]; exact ih)

/-- **tie**: the children a parameter group exposes at a date — `childrenAt`, the function the group clause of
    C06 is proved about — are what the current source of `ParameterNodeAtInstant.__init__` keeps: every child
    of the node, in dict order, read with `_get_at_instant`, dropped exactly when that is `None` -/
theorem C06_tie_node_children {V : Type} (cs : List (String × PNode V)) (d : Int) :
    childrenAt cs d = Generated.Param.node_at_instant_children PNode.atInstant cs d := by
  induction cs with
  | nil => simp [childrenAt, Generated.Param.node_at_instant_children]
  | cons kc r ih =>
    obtain ⟨k, c⟩ := kc
    unfold Generated.Param.node_at_instant_children at ih ⊢
    rw [childrenAt, List.filterMap_cons]
    cases h : c.atInstant d with
    | none => simp [ih]
    | some s => simp [ih]

/-- a group with one member defined at the date and one not yet defined exposes the first only -/
example : Generated.Param.node_at_instant_children (fun (l : List (Entry Nat)) d => pget l d)
    [("a", [⟨10, some 3⟩]), ("b", [⟨30, some 4⟩])] 15 = [("a", 3)] := by decide

example : Generated.Param.parameter_get_at_instant [⟨20, some 5⟩, ⟨10, some 3⟩] 15 = some 3 := by decide
end OFCore.Param
