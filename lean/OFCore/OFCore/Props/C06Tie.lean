import OFCore.GeneratedParam
/-!
# C06 — the parameter model reads a value exactly as the code's source says (translator tie)

`OFCore.Generated.Param.parameter_get_at_instant` is regenerated on every run from the source of
`Parameter._get_at_instant` (`harness/ofverif/translate.py`: the `for … if … return` loop becomes
"the first entry of `values_list` passing the translated test").  `pget` is the function every
`C06_…` theorem is about.
-/
namespace OFCore.Param
open OFCore.Generated

theorem C06_tie_get_at_instant {V : Type} (l : List (Entry V)) (d : Int) :
    pget l d = Generated.Param.parameter_get_at_instant l d := by
  first
  | rfl      -- the fall-back definition (function not translatable on this run) is `pget` itself
  | (induction l with
    | nil => simp [pget, Generated.Param.parameter_get_at_instant]
    | cons e r ih =>
      unfold Generated.Param.parameter_get_at_instant at *
      by_cases h : e.date ≤ d
      · simp [pget, List.find?, h]
      · simp [pget, List.find?, h]; exact ih)

example : Generated.Param.parameter_get_at_instant [⟨20, some 5⟩, ⟨10, some 3⟩] 15 = some 3 := by decide
end OFCore.Param
