import OFCore.PeriodText
import OFCore.GeneratedGuards
/-!
# C05 — the text model refuses a unit finer than the date exactly as the code's source says (translator tie)

`Guards.period_text_finer_refused` is regenerated on every run from the test of the `if … raise
PeriodError` of `helpers.period` that compares `unit_weight(period.unit)` with `unit_weight(unit)`.
`finerThanDate` is the test `parsePeriod` (the function every `C05_…` theorem is about) performs.
-/
namespace OFCore
open OFCore.Generated

theorem C05_tie_finer_test (u base : DUnit) :
    finerThanDate u base = Guards.period_text_finer_refused u base := by
  cases u <;> cases base <;> decide

example : Guards.period_text_finer_refused .week .month = true := by decide
example : Guards.period_text_finer_refused .month .month = false := by decide
end OFCore
