import OFCore.Lemmas.HeapSys
import OFCore.Props.C06
/-!
# C14 — reforms and system copies leave the system they derive from untouched

Model: `OFCore/HeapSys.lean` (objects with identities; `cloneSys`, `reformSys`, `applyMod`, `run`;
observations `varObs` / `varObsVia` / `paramObs` / `sysObs`; `construct`, `getFormula`; the holder
guards `holderGet` / `holderSetInput`, `calcVal`; `annCalc`). Helper lemmas: `Lemmas/HeapSys.lean`.
The parameter clauses go through the model and theorems of C06 (`Param.lean`, `Props/C06.lean`).

The meaning of a calculation on a system is a function of the observations of that system (what
its names resolve to — by name and through its entities —, the attributes and dated formulas of
those variables, its parameter values: `calcVal` reads nothing else; the engine itself is property
C01). "Every calculation of the original is unchanged" is therefore the corollary
`C14_base_calculations_unchanged` of "every observation of the original is unchanged".
-/
namespace OFCore
open OFCore.HeapSys OFCore.Param

/-! ## A concrete history used by the non-vacuity examples -/

namespace C14ex
def cA : ClassDef := ⟨"a", some "float", none, some "person", some "month", none, none, [(1, 1)], [], false⟩
def cB : ClassDef :=
  ⟨"b", some "float", some "5", some "person", some "month", some 736694, none, [(1, 2), (735964, 3)], [], false⟩
def params : ParamTree := [("rate", [⟨735599, some "3"⟩, ⟨733773, some "2"⟩])]
def base : State := (baseSystem ["person", "household"] params [cA, cB]).getD { heap := ⟨[]⟩, systems := [] }
/-- a partial class for `update_variable`: one new dated formula, nothing else -/
def updB : ClassDef := ⟨"b", none, none, none, none, none, none, [(736330, 4)], [], false⟩
def ops : List Op :=
  [.clone 0, .modify 1 (.neutralize "a"),
   .reform 0 [.update updB, .params [⟨"rate", 736330, none, some "9"⟩]],
   .modify 1 (.annualize "b"), .reform 2 [.neutralize "b"],
   .modify 1 (.params [⟨"rate", 736330, some 736694, some "7"⟩])]
/-- "the call returned normally" as a Boolean (for `decide`) -/
def okB {ε α : Type} : Except ε α → Bool
  | .ok _ => true
  | .error _ => false
end C14ex

/-! ## The original is untouched -/

/-- **Frame.** After ANY history of derivations (clone, reform, chained reform — from any system,
    original or derived) and of modifications of the derived systems (add / update / replace /
    neutralise / annualise a variable, parameter modifiers, including the ones that raise half-way),
    every object that existed before the history is the very same object, the systems that existed
    are still listed, and — the heap having no dangling reference — every observation of every
    original system is unchanged: resolution by name and through each of its entities, attributes,
    dated formulas, parameter values at all dates. By induction over the history, with one frame
    lemma per operation (`good_*`): a modification of `X` writes only objects owned by `X`. -/
theorem C14_base_untouched (st : State) (ops : List Op)
    (hops : ∀ op ∈ ops, op.targetsDerived st.systems.length) :
    (∀ i, i < st.heap.next → (run st ops).heap.look i = st.heap.look i) ∧
    (∀ k, k < st.systems.length → (run st ops).systems[k]? = st.systems[k]?) ∧
    (Closed st.heap → ∀ b, b < st.heap.next → sysObs (run st ops).heap b = sysObs st.heap b) := by
  obtain ⟨f, _, k⟩ := run_frame ops (sinv_init st) hops
  exact ⟨f.1, k, fun hC b hb => sysObs_agree f.1 hC hb⟩

example : Closed C14ex.base.heap ∧ (∀ op ∈ C14ex.ops, op.targetsDerived C14ex.base.systems.length) ∧
    C14ex.base.systems = [2] ∧ (run C14ex.base C14ex.ops).systems = [2, 9, 17, 24] := by decide +kernel
/-- the history is not idle: the clone really neutralised `a`, the reform really changed `rate` -/
example : (varObs (run C14ex.base C14ex.ops).heap 9 "a").map (·.isNeutralized) = some true ∧
    (varObs (run C14ex.base C14ex.ops).heap 2 "a").map (·.isNeutralized) = some false ∧
    paramObs (run C14ex.base C14ex.ops).heap 17 "rate" 736400 = some "9" ∧
    paramObs (run C14ex.base C14ex.ops).heap 2 "rate" 736400 = some "3" := by decide +kernel

/-- **Every calculation of the original is unchanged**: whatever the store of inputs, the period
    and the meaning `runF` of the formula functions, the value `calcVal` computes for a variable of
    an original system — resolved by name or through any of its entities — is the same after the
    history. -/
theorem C14_base_calculations_unchanged (st : State) (ops : List Op)
    (hops : ∀ op ∈ ops, op.targetsDerived st.systems.length) (hC : Closed st.heap)
    (b : Oid) (hb : b < st.heap.next) {P : Type} (store : P → Option String) (start : P → Int)
    (runF : Fml → P → String) (p : P) (name : String) :
    (varObs (run st ops).heap b name).map (fun v => calcVal v store start runF p)
      = (varObs st.heap b name).map (fun v => calcVal v store start runF p) ∧
    (sysObs (run st ops).heap b).via.map (fun f => (f name).map (fun v => calcVal v store start runF p))
      = (sysObs st.heap b).via.map (fun f => (f name).map (fun v => calcVal v store start runF p)) := by
  have e := (C14_base_untouched st ops hops).2.2 hC b hb
  have e1 : varObs (run st ops).heap b = varObs st.heap b := congrArg SysObs.byName e
  rw [e, e1]
  exact ⟨rfl, rfl⟩

/-! ## The YAML test runner's derivation -/

namespace C14ex
/-- an extension with a variable and a parameter of its own -/
def ext1 : Ext := ⟨"x1", [⟨"town_allowance", some "float", none, some "household", some "month", none, none, [(1, 7)], [], false⟩],
  [("town", [⟨733773, some "100"⟩])]⟩
/-- a reform that touches no parameter (it would share its baseline's tree) with an extension that
    brings parameters; then the same extension alone, twice (the second time is a cache hit); then
    the same extension after another reform -/
def runnerOps : List Op :=
  [.testRunner 0 [("r1", [.neutralize "a"])] [ext1], .testRunner 0 [] [ext1], .testRunner 0 [] [ext1],
   .testRunner 0 [("r2", [.params [⟨"rate", 736330, none, some "9"⟩]])] [ext1]]
end C14ex

/-- **The test runner's derivation leaves the baseline untouched.**
    `_get_tax_benefit_system(baseline, reforms, extensions)` (`Op.testRunner`: a `clone()` of the
    baseline, the reforms stacked on it, each extension's variables added and its parameters merged
    IN PLACE into the tree of the last system, memoised by (baseline, reform paths, extension set)).
    (1) For every state and EVERY sequence of such derivations — any baselines, any reforms (whether
    or not they modify parameters, so whether or not they share a tree), any extensions, including
    derivations that raise half-way and cache hits — every object that existed before is the same
    object afterwards, and every observation of every system that existed is unchanged; no
    hypothesis on the history is needed, because a derivation never targets an existing system.
    (2) After ANY history that modifies only derived systems, a further derivation from a baseline
    `b` — with whatever key — starts from a `clone()` that is observationally equal to the baseline
    as it was at the very beginning: it sees an unpolluted baseline. -/
theorem C14_test_runner_derivation_untouched (st : State) :
    (∀ ds : List (Nat × List (String × List Mod) × List Ext),
      let st' := run st (ds.map fun d => Op.testRunner d.1 d.2.1 d.2.2)
      (∀ i, i < st.heap.next → st'.heap.look i = st.heap.look i) ∧
      (Closed st.heap → ∀ b, b < st.heap.next → sysObs st'.heap b = sysObs st.heap b)) ∧
    (∀ ops : List Op, (∀ op ∈ ops, op.targetsDerived st.systems.length) → Closed st.heap →
      ∀ b, SysWF st.heap b → ∀ h' N, cloneSys (run st ops).heap b = .ok (h', N) →
        (∀ name, varObs h' N name = varObs st.heap b name) ∧
        (∀ pn d, paramObs h' N pn d = paramObs st.heap b pn d)) := by
  constructor
  · intro ds
    have hops : ∀ op ∈ ds.map (fun d => Op.testRunner d.1 d.2.1 d.2.2), op.targetsDerived st.systems.length := by
      intro op hop
      obtain ⟨d, _, rfl⟩ := List.mem_map.mp hop
      trivial
    obtain ⟨h1, _, h3⟩ := C14_base_untouched st _ hops
    exact ⟨h1, h3⟩
  · intro ops hops hC b hw h' N hcl
    have hw0 := hw
    obtain ⟨s, _, _, hs, _⟩ := hw0
    have hb : b < st.heap.next := lt_next_of_look _ (look_of_getSys hs)
    obtain ⟨hA, _, _⟩ := C14_base_untouched st ops hops
    have hw' : SysWF (run st ops).heap b := sysWF_agree hA hC hw
    obtain ⟨_, hv, _, hp, _⟩ := cloneSys_spec hcl hw'
    refine ⟨fun name => ?_, fun pn d => ?_⟩
    · rw [hv name]; exact varObs_agree hA hC hb name
    · rw [hp pn d]; exact paramObs_agree hA hC hb pn d

/-- **`load_extension` on a reform leaves its baseline untouched (repair F-C14f).** For every
    reform `R` of `b` — whatever its `apply()` did, so whether or not it still shares `b`'s
    parameter tree — and every extension: after `R.load_extension(e)` (variables added to `R`,
    parameters merged into a FRESH copy of the tree `R` held, because `R` has a baseline) every
    object that existed before the reform was made is the same, and every observation of every
    system that existed — `b` first — is unchanged. The same holds for clones, chains, extensions
    loaded from inside `apply()`, in any number and order: `Mod.loadExt` is one of the modifications
    of `C14_base_untouched`. -/
theorem C14_load_extension_leaves_baseline (h : Heap) (b : Oid) (mods : List Mod) (e : Ext) (h1 : Heap)
    (R : Oid) (hr : reformSys h b mods = (h1, .ok R)) :
    (∀ i, i < h.next → (loadExtension h1 R e).1.look i = h.look i) ∧
    (Closed h → ∀ z, z < h.next → sysObs (loadExtension h1 R e).1 z = sysObs h z) := by
  have hinv : Inv h.next h := fun X o hX hl => by rw [look_none_of_ge h hX] at hl; cases hl
  obtain ⟨g1, hR⟩ := good_reformSys hinv (Nat.le_refl _) b mods
  rw [hr] at g1 hR
  have hRge : h.next ≤ R := by rw [hR R rfl]; exact Nat.le_refl _
  have g2 := good_loadExtension g1.2.1 g1.2.2 hRge e
  have f := (g1.trans g2).1
  exact ⟨f.1, fun hC z hz => sysObs_agree f.1 hC hz⟩

/-- two parameter-neutral reforms stacked on the base, all three holding the same tree; each loads
    an extension directly (the second one no longer shares with its immediate baseline, which has
    taken its copy): the base never sees `town` nor `city` -/
example :
    let x2 : Ext := ⟨"x2", [], [("city", [⟨733773, some "7"⟩])]⟩
    let st' := run C14ex.base [.reform 0 [], .reform 1 [], .modify 1 (.loadExt C14ex.ext1), .modify 2 (.loadExt x2),
                               .reform 0 [.loadExt C14ex.ext1]]
    st'.systems.length = 4 ∧
    (st'.systems.map fun X => paramObs st'.heap X "town" 736400) = [none, some "100", none, some "100"] ∧
    (st'.systems.map fun X => paramObs st'.heap X "city" 736400) = [none, none, some "7", none] ∧
    (st'.systems.map fun X => (varObs st'.heap X "town_allowance").isSome) = [false, true, false, true] := by
  decide +kernel

/-- the derivations really happen: three systems are derived (the third request is a cache hit), the
    extension's parameter is read in each of them — and not in the baseline, which a second
    derivation could otherwise not extend again (`add_child` would raise) -/
example :
    let st' := run C14ex.base C14ex.runnerOps
    st'.systems.length = 4 ∧ st'.memo.length = 3 ∧
    (st'.systems.map fun X => paramObs st'.heap X "town" 736400) = [none, some "100", some "100", some "100"] ∧
    (st'.systems.map fun X => paramObs st'.heap X "rate" 736400) = [some "3", some "3", some "3", some "9"] ∧
    (st'.systems.map fun X => (varObs st'.heap X "a").map (·.isNeutralized))
      = [some false, some true, some false, some false] ∧
    (st'.systems.map fun X => (varObs st'.heap X "town_allowance").isSome) = [false, true, true, true] := by
  decide +kernel

/-! ## The derived system is the original plus the declared changes -/

/-- **A copy is a copy.** `clone()` yields a system observationally equal to its source —
    every name resolves to a variable with the same attributes and formulas, every parameter reads
    the same at every date — made of *fresh* objects (its own dict, variable objects, parameter
    tree and entities, none shared with the source), whose entities resolve names in the copy. -/
theorem C14_clone_is_copy (h : Heap) (src : Oid) (h' : Heap) (N : Oid) (hw : SysWF h src)
    (hc : cloneSys h src = .ok (h', N)) :
    SysWF h' N ∧ (∀ name, varObs h' N name = varObs h src name) ∧
    (∀ pn d, paramObs h' N pn d = paramObs h src pn d) ∧
    (∀ name vid, resolve h' N name = some vid → h.next ≤ vid) ∧
    ∃ sN s, h'.getSys N = some sN ∧ h.getSys src = some s ∧ sN.baseline = s.baseline ∧
      h.next ≤ sN.vars ∧ h.next ≤ sN.params ∧
      ∀ e ∈ sN.entities, h.next ≤ e ∧ ∀ name, varObsVia h' e name = varObs h' N name := by
  obtain ⟨wf, hv, hfresh, hp, _, sN, s, hsN, hs, hb, hvars, hpar, hents⟩ := cloneSys_spec hc hw
  refine ⟨wf, hv, hp, hfresh, sN, s, hsN, hs, hb, hvars, hpar, fun e he => ?_⟩
  obtain ⟨hge, eo, heo, hsys⟩ := hents e he
  exact ⟨hge, fun name => varObsVia_of_bound heo hsys name⟩

example : C14ex.okB (cloneSys C14ex.base.heap 2) = true := by decide +kernel
example : SysWF C14ex.base.heap 2 := sysWF_of_check (by decide +kernel)

/-- **A copy is independent of its source, too.** The statement speaks of changes made on the
    copy; what a derived system sees when its SOURCE is modified afterwards is not in it. The model
    answers for `clone()`: whatever modification is applied to the source after the copy was taken,
    every observation of the copy is unchanged — the copy owns everything it reads. (A reform, by
    design, shares its baseline's variable objects and, until it modifies parameters, its parameter
    tree: an in-place parameter update of the baseline shows through; the correspondence covers
    these histories, the property does not claim them.) -/
theorem C14_copy_independent_of_source (h : Heap) (src : Oid) (h1 : Heap) (N : Oid) (hw : SysWF h src)
    (hc : cloneSys h src = .ok (h1, N)) (m : Mod) :
    (∀ name, varObs (applyMod h1 src m).1 N name = varObs h1 N name) ∧
    (∀ pn d, paramObs (applyMod h1 src m).1 N pn d = paramObs h1 N pn d) := by
  have hw0 := hw
  obtain ⟨s, m0, p, hs, hm, hp, _⟩ := hw0
  have hinv : Inv h.next h := fun X o hX hl => by rw [look_none_of_ge h hX] at hl; cases hl
  obtain ⟨g, hN⟩ := good_cloneSys hinv (Nat.le_refl _) src hc
  have hsrc := lt_next_of_look h (look_of_getSys hs)
  have hvars := lt_next_of_look h (look_of_getMap hm)
  have hpar := lt_next_of_look h (look_of_getPar hp)
  have hs1 : h1.getSys src = some s := by rw [getSys_congr (g.1.1 src hsrc)]; exact hs
  obtain ⟨wfN, _, hfresh, _, _, sN, _, hsN, _, _, hv, hpp, _⟩ := cloneSys_spec hc hw
  obtain ⟨sN', mN, pN, hsN', hmN, hpN, heN⟩ := wfN
  rw [hsN] at hsN'; cases hsN'
  have other : ∀ i, h.next ≤ i → i < h1.next → (applyMod h1 src m).1.look i = h1.look i := fun i hge hlt =>
    applyMod_look_other hs1 m hlt (by omega) (by omega) (by omega)
  refine obs_congr hsN hmN hpN ?_ ?_ ?_ ?_
  · exact other N (by omega) (lt_next_of_look h1 (look_of_getSys hsN))
  · exact other _ hv (lt_next_of_look h1 (look_of_getMap hmN))
  · exact other _ hpp (lt_next_of_look h1 (look_of_getPar hpN))
  · intro name vid hd
    have hge : h.next ≤ vid := hfresh name vid (by rw [resolve_eq hsN hmN]; exact hd)
    obtain ⟨v, hv'⟩ := heN _ (mem_of_dictGet hd)
    exact other vid hge (lt_next_of_look h1 (look_of_getVar hv'))

example :
    let st := run C14ex.base [.clone 0, .modify 0 (.neutralize "a")]     -- the SOURCE is modified after the copy
    st.systems = [2, 9] ∧ (varObs st.heap 2 "a").map (·.isNeutralized) = some true ∧
    (varObs st.heap 9 "a").map (·.isNeutralized) = some false := by decide +kernel

/-- **One modification is local**: it changes what its target resolves for the names it declares,
    and nothing else of the target — the other names resolve to the same observations, the
    parameters read the same (unless it is a parameter modifier), the system stays well formed. -/
theorem C14_modification_local (h : Heap) (X : Oid) (m : Mod) (hw : SysWF h X) :
    SysWF (applyMod h X m).1 X ∧
    (∀ name, name ∉ m.touched → varObs (applyMod h X m).1 X name = varObs h X name) ∧
    (m.isParams = false → ∀ pn d, paramObs (applyMod h X m).1 X pn d = paramObs h X pn d) := by
  have sp := modSpec_applyMod hw m
  exact ⟨sp.wf, sp.vars, sp.pars⟩

/-- **A reform is its baseline plus the changes of `apply()`.** Every variable `apply()` did not
    touch resolves in the reform to the same observation as in the baseline (in fact to the same
    object), the parameters read the same unless a modifier ran, and the reform's own entities
    resolve names in the reform. -/
theorem C14_derived_is_base_plus_changes (h : Heap) (src : Oid) (mods : List Mod) (h' : Heap) (R : Oid)
    (hw : SysWF h src) (hr : reformSys h src mods = (h', .ok R)) :
    SysWF h' R ∧
    (∀ name, name ∉ mods.flatMap Mod.touched → varObs h' R name = varObs h src name) ∧
    (mods.any Mod.isParams = false → ∀ pn d, paramObs h' R pn d = paramObs h src pn d) ∧
    ∃ sR, h'.getSys R = some sR ∧ sR.baseline = some src ∧
      ∀ e ∈ sR.entities, ∀ name, varObsVia h' e name = varObs h' R name := by
  unfold reformSys at hr
  cases hi : reformInit h src with
  | error e => rw [hi] at hr; cases hr
  | ok r =>
    obtain ⟨h1, sid⟩ := r
    rw [hi] at hr
    dsimp only at hr
    obtain ⟨wf1, _, hv1, hp1, _, sR, hsR, hbase, hents⟩ := reformInit_spec hi hw
    have sp := modSpec_applyMods wf1 mods
    cases hm : applyMods h1 sid mods with
    | mk h2 res =>
      rw [hm] at hr sp
      cases res with
      | error e => cases hr
      | ok u =>
        cases u
        simp only [Prod.mk.injEq, Except.ok.injEq] at hr
        obtain ⟨rfl, rfl⟩ := hr
        obtain ⟨s2, hs2, e1, e2, _⟩ := sp.sysSame sR hsR
        refine ⟨sp.wf, fun name hn => by rw [sp.vars name hn, hv1], fun hb pn d => by rw [sp.pars hb pn d, hp1],
          s2, hs2, by rw [e2, hbase], fun e he name => ?_⟩
        rw [e1] at he
        obtain ⟨eo, heo, hsys⟩ := hents e he
        exact varObsVia_of_bound (sp.keeps.keepEnt _ _ heo) hsys name

example : C14ex.okB (reformSys C14ex.base.heap 2
    [.update C14ex.updB, .params [⟨"rate", 736330, none, some "9"⟩]]).2 = true := by decide +kernel
example : "a" ∉ [Mod.update C14ex.updB, .params [⟨"rate", 736330, none, some "9"⟩]].flatMap Mod.touched := by decide

/-! ## Updated variables -/

/-- **`update_variable` inherits.** The variable bound by an update has, for every attribute the
    new class does not declare, the attribute of the variable it updates (which is its
    `baseline_variable` and is left untouched); before the first new start date the formula in
    force is the updated variable's one (all of them are kept when no formula is declared); from
    that date on only the new formulas apply. An attribute the class DOES declare is taken from the
    class — including `end = ""` (ordinal 0), which clears the inherited end. -/
theorem C14_update_inherits (h : Heap) (X : Oid) (cls : ClassDef) (h' : Heap) (bid : Oid) (b : VarObj)
    (hr : resolve h X cls.name = some bid) (hb : h.getVar bid = some b)
    (hu : loadVariable h X cls true = (h', .ok ())) :
    ∃ vid v, resolve h' X cls.name = some vid ∧ h'.getVar vid = some v ∧ v.baseline = some bid ∧
      h'.getVar bid = some b ∧ vid ≠ bid ∧
      v.valueType = cls.valueType.getD b.valueType ∧ v.default = cls.default.getD b.default ∧
      v.entity = cls.entity.getD b.entity ∧ v.defPeriod = cls.defPeriod.getD b.defPeriod ∧
      v.endDate = declaredEnd cls.endDate b.endDate ∧
      v.setInput = (match cls.setInput with | some x => some x | none => b.setInput) ∧
      (cls.formulas = [] → v.formulas = b.formulas) ∧
      (∀ d, (∀ p ∈ cls.formulas, d < p.1) → lastLE v.formulas d = lastLE b.formulas d) ∧
      (∀ d, (∃ p ∈ cls.formulas, p.1 ≤ d) →
          ∃ n s, lastLE v.formulas d = some (.base n) ∧ (s, n) ∈ cls.formulas ∧ s ≤ d) ∧
      (cls.endDate = none → ∀ d, (∀ p ∈ cls.formulas, d < p.1) → getFormula v.view d = getFormula b.view d) ∧
      (cls.endDate = some 0 → v.endDate = none) ∧
      -- the descriptive attributes: `label` …
      (dictGet "label" cls.attrs = none → v.label = b.label) ∧
      (∀ x, dictGet "label" cls.attrs = some x → v.label = x) ∧
      -- … and `reference`, `documentation`, `unit`, `cerfa_field`, `calculate_output`,
      -- `is_period_size_independent` (`max_length`: of string variables)
      (∀ k ∈ metaKeys, (k = "max_length" → v.valueType = "str") →
        (dictGet k cls.attrs = none → v.attr k = b.attr k) ∧
        (∀ x, dictGet k cls.attrs = some (some x) → v.attr k = some x) ∧
        (dictGet k cls.attrs = some none → v.attr k = if k = "calculate_output" then b.attr k else none)) := by
  rcases loadVariable_inv h X cls true with ⟨e, he⟩ | ⟨s, m, v, hs, hm, _, hcons, he⟩
  · rw [he] at hu; cases hu
  · rw [he] at hu
    simp only [Prod.mk.injEq, and_true] at hu
    subst hu
    have hd : dictGet cls.name m = some bid := by rw [← resolve_eq hs hm]; exact hr
    rw [hd] at hcons
    have hcw : constructWith cls (some bid) (some b) = .ok v := by
      unfold construct at hcons; dsimp only at hcons; rw [hb] at hcons; exact hcons
    obtain ⟨_, hbase, hvt, hdf, hent, hdp, hend, hsi, _, decl, hdecl, hfs⟩ := constructWith_some hcw
    obtain ⟨_, hlab, _⟩ := constructWith_some_attrs hcw
    obtain ⟨d1, d2, _, _⟩ := declaredFormulas_spec _ _ _ _ hdecl
    have hblt := lt_next_of_look h (look_of_getVar hb)
    obtain ⟨hres, hv', hkeep⟩ := bindVar_reads hs hm cls.name v
    have hbk := hkeep _ _ hb
    have hbefore : ∀ d, (∀ p ∈ cls.formulas, d < p.1) → lastLE v.formulas d = lastLE b.formulas d := by
      intro d hall
      rw [hfs]
      apply mergeBaseline_before
      intro p hp
      rcases d1 p hp with ⟨n, hn, _⟩ | hnil
      · exact hall _ hn
      · cases hnil
    refine ⟨h.next, v, hres, hv', hbase, hbk,
      Nat.ne_of_gt hblt, hvt, hdf, hent, hdp, hend, hsi, ?_, hbefore, ?_, ?_, ?_, ?_, ?_, ?_⟩
    · intro hnil
      rw [hnil] at hdecl
      simp only [declaredFormulas, Except.ok.injEq] at hdecl
      rw [hfs, ← hdecl]; rfl
    · rintro d ⟨p, hp, hpd⟩
      obtain ⟨g, hg⟩ := d2 p hp
      obtain ⟨e1, e2⟩ := mergeBaseline_from decl b.formulas d ⟨(p.1, g), hg, hpd⟩
      obtain ⟨f, hf⟩ := Option.isSome_iff_exists.mp e2
      obtain ⟨s0, hs0, hs0d⟩ := lastLE_mem decl d hf
      rcases d1 _ hs0 with ⟨n, hn, hbn⟩ | hnil
      · refine ⟨n, s0, ?_, hn, hs0d⟩
        rw [hfs, e1, hf]
        exact congrArg some hbn
      · cases hnil
    · intro hnone d hall
      have hend' : v.endDate = b.endDate := by rw [hend, hnone]; rfl
      show getFormula ⟨_, _, _, _, _, v.endDate, _, v.formulas, _, _, _⟩ d
        = getFormula ⟨_, _, _, _, _, b.endDate, _, b.formulas, _, _, _⟩ d
      simp only [getFormula, hend', hbefore d hall]
    · intro h0; rw [hend, h0]; rfl
    · intro hn; rw [hlab, hn]; rfl
    · intro x hx
      rw [hlab, hx]
      cases x <;> simp [attrOf]
    · intro k hk hml
      have ha := constructWith_some_attr hcw k hk
      have hm : metaAttr k v.valueType (dictGet k cls.attrs) (some (b.attr k))
          = attrOf k v.valueType (dictGet k cls.attrs) (some (b.attr k)) := by
        unfold metaAttr
        by_cases hkm : k = "max_length"
        · rw [if_pos hkm, if_pos (hml hkm)]
        · rw [if_neg hkm]
      rw [hm] at ha
      refine ⟨fun hn => ?_, fun x hx => ?_, fun hx => ?_⟩
      · rw [ha, hn]; rfl
      · rw [ha, hx]; rfl
      · rw [ha, hx]; rfl

/-- a class that redefines the label, clears the documentation and says nothing of the unit -/
example :
    let b0 : ClassDef := { C14ex.cB with attrs := [("label", some "L1"), ("documentation", some "D1"), ("unit", some "U1")] }
    let st := (baseSystem ["person"] [] [b0]).getD { heap := ⟨[]⟩, systems := [] }
    let u : ClassDef := { C14ex.updB with attrs := [("label", some "L2"), ("documentation", none)] }
    let r := loadVariable st.heap 1 u true
    C14ex.okB r.2 = true ∧
    (varObs r.1 1 "b").map (fun v => (v.label, dictGet "documentation" v.attrs, dictGet "unit" v.attrs,
        dictGet "is_period_size_independent" v.attrs))
      = some (some "L2", some none, some (some "U1"), some (some "j66616c7365")) ∧
    -- a declared value of the wrong type is refused and nothing is bound
    C14ex.okB (loadVariable st.heap 1 { u with invalid := true } true).2 = false ∧
    (varObs (loadVariable st.heap 1 { u with invalid := true } true).1 1 "b").map (·.label) = some (some "L1") := by
  decide +kernel

example :
    let r := loadVariable C14ex.base.heap 2 C14ex.updB true
    C14ex.okB r.2 = true ∧ resolve C14ex.base.heap 2 "b" = some 8 ∧
    (varObs r.1 2 "b").map (·.formulas) = some [(1, .base 2), (735964, .base 3), (736330, .base 4)] ∧
    (varObs r.1 2 "b").map (·.default) = some "5" ∧
    (varObs r.1 2 "b").map (·.endDate) = some (some 736694) := by decide +kernel

/-- **A class `Variable.__init__` refuses changes nothing.** A class declaring a value of the wrong type
    (`allowed_type`), outside the allowed values, or refused by a setter cannot be instantiated: `add_variable`
    and `update_variable` raise and leave the heap — the target system and every other one — exactly as it was.
    (`replace_variable` has deleted the entry of that name before it instantiates the class: what is left is
    the target without the variable, see `replaceVariable`; nothing else is touched.) -/
theorem C14_invalid_class_refused (h : Heap) (X : Oid) (cls : ClassDef) (update : Bool)
    (hi : cls.invalid = true) :
    (loadVariable h X cls update).1 = h ∧ ∃ e, (loadVariable h X cls update).2 = .error e := by
  have hcons : ∀ bid, ∃ e, construct h cls bid = .error e := by
    intro bid
    unfold construct
    cases bid with
    | none => exact ⟨_, by unfold constructWith; rw [hi]; rfl⟩
    | some i =>
      dsimp only
      cases h.getVar i with
      | none => exact ⟨_, rfl⟩
      | some b => exact ⟨_, by unfold constructWith; rw [hi]; rfl⟩
  unfold loadVariable
  cases h.getSys X with
  | none => exact ⟨rfl, _, rfl⟩
  | some s =>
    dsimp only
    cases h.getMap s.vars with
    | none => exact ⟨rfl, _, rfl⟩
    | some m =>
      dsimp only
      split
      · exact ⟨rfl, _, rfl⟩
      · obtain ⟨e, he⟩ := hcons (dictGet cls.name m)
        rw [he]
        exact ⟨rfl, _, rfl⟩

example : ({ C14ex.updB with invalid := true } : ClassDef).invalid = true := rfl

/-! ## Neutralised variables -/

/-- **The guard of the holder**: a neutralised variable yields its default whatever inputs were
    given (each `set_input` is ignored), whatever the period, whatever its formulas compute. -/
theorem C14_neutralized_ignores_inputs (v : VarView) (hn : v.isNeutralized = true) {P : Type}
    [DecidableEq P] (store : P → Option String) (inputs : List (P × String)) (start : P → Int)
    (runF : Fml → P → String) (p : P) :
    (∀ q x, holderSetInput v store q x = store) ∧
    calcVal v (inputs.foldl (fun st i => holderSetInput v st i.1 i.2) store) start runF p = v.default := by
  have h1 : ∀ (st : P → Option String) q x, holderSetInput v st q x = st := by
    intro st q x; unfold holderSetInput; rw [if_pos hn]
  refine ⟨h1 store, ?_⟩
  unfold calcVal holderGet
  rw [if_pos hn]

/-- **`neutralize_variable`**: when it returns, the name resolves in the target to a new variable
    object that is neutralised — so that no formula is ever run for it: every calculation yields
    its default and every input is ignored. -/
theorem C14_neutralized_default (h : Heap) (X : Oid) (name : String) (h' : Heap)
    (hn : neutralizeVar h X name = (h', .ok ())) :
    ∃ vid v, resolve h' X name = some vid ∧ h'.getVar vid = some v ∧ h.next ≤ vid ∧
      v.isNeutralized = true ∧
      ∀ {P : Type} [DecidableEq P] (store : P → Option String) (inputs : List (P × String))
        (start : P → Int) (runF : Fml → P → String) (p : P),
        calcVal v.view (inputs.foldl (fun st i => holderSetInput v.view st i.1 i.2) store) start runF p
          = v.default := by
  rcases neutralizeVar_inv h X name with ⟨e, he⟩ | ⟨s, m, vid, v, c, hs, hm, _, _, _, he⟩
  · rw [he] at hn; cases hn
  · rw [he] at hn
    simp only [Prod.mk.injEq, and_true] at hn
    subst hn
    obtain ⟨hres, hv', _⟩ := bindVar_reads hs hm name
      { c with isNeutralized := true, label := some (neutralizedLabel v.label) }
    refine ⟨h.next, _, hres, hv', Nat.le_refl _, rfl, ?_⟩
    intro P _ store inputs start runF p
    exact (C14_neutralized_ignores_inputs _ rfl store inputs start runF p).2

example :
    let r := neutralizeVar C14ex.base.heap 2 "b"
    C14ex.okB r.2 = true ∧
    (varObs r.1 2 "b").map (fun v => (v.isNeutralized, v.default)) = some (true, "5") := by decide +kernel

/-- **`Variable.clone()` always works (repair F-C14b).** In every heap reached from a consistent
    one by ANY history, every variable object can be rebuilt from its class and its baseline. Hence
    neutralising or annualising a variable that resolves never raises — however the variable was
    defined: added, updated in a reform (a class that declares only what it changes), copied by
    `clone()`, already neutralised or annualised — and the object bound keeps every attribute
    of the previous one: a neutralised variable yields *its* default. -/
theorem C14_neutralize_annualize_succeed (st : State) (ops : List Op) (hc : Consistent st.heap)
    (X : Oid) (name : String) (vid : Oid) (v : VarObj)
    (hr : resolve (run st ops).heap X name = some vid) (hv : (run st ops).heap.getVar vid = some v) :
    Consistent (run st ops).heap ∧
    (neutralizeVar (run st ops).heap X name).2 = .ok () ∧
    (annualizeVar (run st ops).heap X name).2 = .ok () ∧
    (∃ w, varObs (neutralizeVar (run st ops).heap X name).1 X name = some w ∧
        w.isNeutralized = true ∧ w.default = v.default ∧ w.valueType = v.valueType ∧
        w.entity = v.entity ∧ w.defPeriod = v.defPeriod ∧ w.endDate = v.endDate ∧ w.setInput = v.setInput ∧
        w.attrs = v.attrs ∧ w.label = some (neutralizedLabel v.label)) ∧
    (∃ w, varObs (annualizeVar (run st ops).heap X name).1 X name = some w ∧
        w.isNeutralized = v.isNeutralized ∧ w.default = v.default ∧ w.valueType = v.valueType ∧
        w.entity = v.entity ∧ w.defPeriod = v.defPeriod ∧ w.endDate = v.endDate ∧ w.setInput = v.setInput ∧
        w.formulas = v.formulas.map (fun p => (p.1, Fml.annual p.2)) ∧
        w.attrs = v.attrs ∧ (v.isNeutralized = false → w.label = v.label)) := by
  have hcons := consistent_run hc ops
  generalize (run st ops).heap = h at *
  obtain ⟨c, hcl, _, a2, a3, a4, a5, a6, a7, a8, a9⟩ := hcons vid v hv
  obtain ⟨s, m, hs, hm, hd⟩ := resolve_some_inv hr
  have en := neutralizeVar_eq hs hm hd hv hcl
  have ea := annualizeVar_eq hs hm hd hv hcl
  refine ⟨hcons, by rw [en], by rw [ea], ?_, ?_⟩
  · obtain ⟨r1, r2, _⟩ := bindVar_reads hs hm name
      { c with isNeutralized := true, label := some (neutralizedLabel v.label) }
    refine ⟨VarObj.view { c with isNeutralized := true, label := some (neutralizedLabel v.label) },
      ?_, rfl, a3, a2, a4, a5, a6, a7, a8, rfl⟩
    rw [en]
    unfold varObs
    rw [r1]; dsimp only; rw [r2]; rfl
  · obtain ⟨r1, r2, _⟩ := bindVar_reads hs hm name
      { c with formulas := v.formulas.map (fun p => (p.1, Fml.annual p.2)), isNeutralized := v.isNeutralized }
    refine ⟨VarObj.view { c with formulas := v.formulas.map (fun p => (p.1, Fml.annual p.2)), isNeutralized := v.isNeutralized },
      ?_, rfl, a3, a2, a4, a5, a6, a7, rfl, a8, a9⟩
    rw [ea]
    unfold varObs
    rw [r1]; dsimp only; rw [r2]; rfl

example : Consistent C14ex.base.heap := consistent_of_check (by decide +kernel)
/-- the F-C14b input: a reform that updates `b` (a class declaring one formula only) then neutralises it -/
example : C14ex.okB (reformSys C14ex.base.heap 2 [.update C14ex.updB, .neutralize "b", .annualize "b"]).2 = true := by
  decide +kernel

/-! ## Annualised variables -/

/-- **What `annualize_variable` builds**: a new variable object whose dated formulas are the
    `annual_formula` closures around the previous ones, start date by start date — so that the
    formula in force at any date is the wrapper of the one that was in force — and which stays
    neutralised if it was (repair F-C14d). The wrapper (`annCalc`) calls the wrapped formula for a
    January period, and requests the same variable for `period.this_year.first_month` otherwise. -/
theorem C14_annualized_formula_def (h : Heap) (X : Oid) (name : String) (h' : Heap) (vid0 : Oid)
    (v0 : VarObj) (hr : resolve h X name = some vid0) (hv : h.getVar vid0 = some v0)
    (ha : annualizeVar h X name = (h', .ok ())) :
    ∃ vid v, resolve h' X name = some vid ∧ h'.getVar vid = some v ∧ h.next ≤ vid ∧
      v.isNeutralized = v0.isNeutralized ∧
      v.formulas = v0.formulas.map (fun p => (p.1, Fml.annual p.2)) ∧
      ∀ d, lastLE v.formulas d = (lastLE v0.formulas d).map Fml.annual := by
  rcases annualizeVar_inv h X name with ⟨e, he⟩ | ⟨s, m, vid, v, c, hs, hm, hd, hgv, _, he⟩
  · rw [he] at ha; cases ha
  · rw [he] at ha
    simp only [Prod.mk.injEq, and_true] at ha
    subst ha
    have hvid : vid = vid0 := by
      rw [resolve_eq hs hm, hd] at hr; exact Option.some.inj hr
    subst hvid
    rw [hgv] at hv; cases hv
    obtain ⟨hres, hv', _⟩ := bindVar_reads hs hm name
      { c with formulas := v0.formulas.map (fun p => (p.1, Fml.annual p.2)), isNeutralized := v0.isNeutralized }
    exact ⟨h.next, _, hres, hv', Nat.le_refl _, rfl, rfl, fun d => lastLE_map_annual v0.formulas d⟩

example :
    let r := annualizeVar C14ex.base.heap 2 "b"
    C14ex.okB r.2 = true ∧
    (varObs r.1 2 "b").map (·.formulas) = some [(1, .annual (.base 2)), (735964, .annual (.base 3))] := by
  decide +kernel

/-- **January value for every month — partial.** For a request of an annualised monthly variable
    at a month `m ≠ 1` that is not itself known, with a formula in force, no frame of the same
    variable above on the stack (a top-level request, or a request from other variables'
    formulas) and `max_spiral_loops ≥ 1`: the value is the value of the January request of the
    same year, PROVIDED January is already known (input or cached) OR `max_spiral_loops ≥ 2`.

    Full statement (the property's clause), NOT a theorem of the code: the same without the last
    hypothesis. It fails for the default `max_spiral_loops = 1`: the wrapper's request for January
    finds one frame of the same variable above it (`_check_for_cycle`: `len(previous) >= 1`),
    raises `SpiralError`, and `_calculate` returns the default — `C14_annualized_counterexample`
    (open finding F-C14c). Also restricted to wrapped formulas that request nothing themselves
    (`orig` is a leaf): the engine's recursion through other variables is property C01/C02. -/
theorem C14_annualized_january_partial (L : Nat) (dflt : String) (orig : Int → Nat → String)
    (inForce : Int → Nat → Bool) (cache : Int → Nat → Option String) (name : String)
    (stack : List Frame) (hstack : ∀ f ∈ stack, f.name ≠ name) (y : Int) (m fuel : Nat)
    (hL : 1 ≤ L) (hm : m ≠ 1) (hforce : inForce y m = true) (hcm : cache y m = none)
    (hJ : (cache y 1).isSome = true ∨ 2 ≤ L) :
    annCalc L dflt orig inForce cache name (fuel + 2) stack y m
      = annCalc L dflt orig inForce cache name (fuel + 1) stack y 1 := by
  have hfil : stack.filter (fun f => decide (f.name = name)) = [] := by
    rw [List.filter_eq_nil_iff]
    intro f hf
    simpa using hstack f hf
  have hfil2 : (stack ++ [(⟨name, y, m⟩ : Frame)]).filter (fun f => decide (f.name = name))
      = [(⟨name, y, m⟩ : Frame)] := by
    rw [List.filter_append, hfil]
    simp
  have h0 : ¬ L ≤ 0 := by omega
  have step1 : annCalc L dflt orig inForce cache name (fuel + 2) stack y m
      = annCalc L dflt orig inForce cache name (fuel + 1) (stack ++ [(⟨name, y, m⟩ : Frame)]) y 1 := by
    rw [annCalc, hcm]
    simp [hfil, h0, hforce, hm]
  rw [step1, annCalc, annCalc]
  cases hc : cache y 1 with
  | some a => rfl
  | none =>
    have h2 : 2 ≤ L := by
      rcases hJ with h | h
      · rw [hc] at h; cases h
      · exact h
    have h1 : ¬ L ≤ 1 := by omega
    simp [hfil, hfil2, h0, h1, hm]

example : annCalc 2 "0" (fun _ _ => "8") (fun _ _ => true) (fun _ _ => none) "a" 5 [] 2018 3 = .val "8" ∧
    annCalc 1 "0" (fun _ _ => "8") (fun _ _ => true)
      (fun y m => if y = 2018 ∧ m = 1 then some "8" else none) "a" 5 [] 2018 3 = .val "8" := by
  decide +kernel

/-- **Counterexample to the full annualised clause** (open finding F-C14c), at the value of
    `Simulation.max_spiral_loops` extracted from the tree under test: an annualised variable whose
    formula gives 8 in January, asked for March first, yields its default 0 — not its January
    value 8. (Re-proved against `Generated.maxSpiralLoops` on every run: the day the default
    becomes ≥ 2 this statement stops being provable, and the finding is closed.) -/
theorem C14_annualized_counterexample :
    ∃ (dflt : String) (orig : Int → Nat → String) (inForce : Int → Nat → Bool)
      (cache : Int → Nat → Option String) (name : String) (y : Int) (m : Nat),
      m ≠ 1 ∧ inForce y m = true ∧ inForce y 1 = true ∧ cache y m = none ∧
      annCalc Generated.maxSpiralLoops dflt orig inForce cache name 5 [] y m = .val dflt ∧
      annCalc Generated.maxSpiralLoops dflt orig inForce cache name 5 [] y 1 = .val (orig y 1) ∧
      orig y 1 ≠ dflt :=
  ⟨"0", fun _ _ => "8", fun _ _ => true, fun _ _ => none, "a", 2018, 3,
    by decide, rfl, rfl, rfl, by decide +kernel, by decide +kernel, by decide⟩

/-! ## Parameter modifiers -/

/-- **Modified parameters apply from their declared dates.** After a parameter modifier that
    returned normally — `Reform.modify_parameters` on a reform, in-place updates on a copy — the
    value of every parameter of the target at every date is obtained from its previous value by
    letting each declared update that names it, in order, overwrite it iff the update's span
    `[start, stop]` (open-ended without `stop`) contains the date (`specStep`, C06). Through
    `C06_updates_fold`, for any number of updates. -/
theorem C14_params_from_date (h : Heap) (X : Oid) (us : List PUpd) (h' : Heap) (hw : SysWF h X)
    (hm : modifyParams h X us = (h', .ok ())) (hus : ∀ u ∈ us, u.toUpd.WF) (pn : String)
    (hs : ∀ l, paramHist h X pn = some l → Sorted l) (d : Int) :
    paramObs h' X pn d =
      ((us.filter (fun u => u.name = pn)).map PUpd.toUpd).foldl (specStep d) (paramObs h X pn d) := by
  rw [paramObs_eq_hist, paramObs_eq_hist, modifyParams_hist hm hw pn]
  cases hl : paramHist h X pn with
  | none =>
    -- an absent parameter: a modifier naming it would have raised, so nothing names it
    have habs : us.filter (fun u => u.name = pn) = [] := by
      rw [List.filter_eq_nil_iff]
      intro u hu hname
      have hname' : u.name = pn := by simpa using hname
      have := modifyParams_named hm u hu
      rw [hname', hl] at this
      cases this
    rw [habs]
    rfl
  | some l =>
    simp only [Option.map_some]
    have hus' : ∀ u' ∈ (us.filter (fun u => u.name = pn)).map PUpd.toUpd, u'.WF := by
      intro u' hu'
      obtain ⟨u, hu, rfl⟩ := List.mem_map.mp hu'
      exact hus u (List.mem_filter.mp hu).1
    exact (C06_updates_fold l (hs l hl) _ hus').2 d

/-- … in particular one update `[a, b]`: its value on the span, the previous value elsewhere;
    the parameters it does not name are unchanged. -/
theorem C14_params_one_update (h : Heap) (X : Oid) (u : PUpd) (h' : Heap) (hw : SysWF h X)
    (hm : modifyParams h X [u] = (h', .ok ())) (hu : u.toUpd.WF)
    (hs : ∀ pn l, paramHist h X pn = some l → Sorted l) :
    (∀ d, paramObs h' X u.name d = if u.toUpd.covers d then u.v else paramObs h X u.name d) ∧
    (∀ pn, pn ≠ u.name → ∀ d, paramObs h' X pn d = paramObs h X pn d) := by
  have hall : ∀ u' ∈ [u], u'.toUpd.WF := by intro u' hu'; simp at hu'; subst hu'; exact hu
  constructor
  · intro d
    rw [C14_params_from_date h X [u] h' hw hm hall u.name (hs u.name) d]
    simp only [List.filter_cons, decide_true, if_true, List.filter_nil, List.map_cons, List.map_nil,
      List.foldl_cons, List.foldl_nil, specStep]
    rfl
  · intro pn hne d
    rw [C14_params_from_date h X [u] h' hw hm hall pn (hs pn) d]
    have : decide (u.name = pn) = false := by simpa using Ne.symm hne
    simp only [List.filter_cons, this, List.filter_nil]
    rfl

example :
    let r := modifyParams (run C14ex.base [.clone 0]).heap 9 [⟨"rate", 736330, some 736694, some "7"⟩]
    C14ex.okB r.2 = true ∧
    paramObs r.1 9 "rate" 736329 = some "3" ∧ paramObs r.1 9 "rate" 736330 = some "7" ∧
    paramObs r.1 9 "rate" 736694 = some "7" ∧ paramObs r.1 9 "rate" 736695 = some "3" ∧
    paramObs r.1 2 "rate" 736330 = some "3" := by decide +kernel

end OFCore

/-! axiom audit (⊆ propext, Classical.choice, Quot.sound) -/
#print axioms OFCore.C14_base_untouched
#print axioms OFCore.C14_base_calculations_unchanged
#print axioms OFCore.C14_test_runner_derivation_untouched
#print axioms OFCore.C14_load_extension_leaves_baseline
#print axioms OFCore.C14_clone_is_copy
#print axioms OFCore.C14_copy_independent_of_source
#print axioms OFCore.C14_modification_local
#print axioms OFCore.C14_derived_is_base_plus_changes
#print axioms OFCore.C14_update_inherits
#print axioms OFCore.C14_invalid_class_refused
#print axioms OFCore.C14_neutralized_ignores_inputs
#print axioms OFCore.C14_neutralized_default
#print axioms OFCore.C14_neutralize_annualize_succeed
#print axioms OFCore.C14_annualized_formula_def
#print axioms OFCore.C14_annualized_january_partial
#print axioms OFCore.C14_annualized_counterexample
#print axioms OFCore.C14_params_from_date
#print axioms OFCore.C14_params_one_update
