import OFCore.Lemmas.EnumCodec
/-!
# C15 — enum values survive encoding and decoding; invalid ones are rejected

Theorems about the model `OFCore/EnumCodec.lean` of `Enum.encode`, `EnumArray.decode`,
`EnumArray.decode_to_str` (repaired tree). They hold for every enumeration (any number of
members, any declaration order of the names) and every input (any length, any container, any
mix of element kinds). Vocabulary (defined in the model file):

* `Elem.Designates e el` — `el` designates a member of `e`: an integer `0 ≤ v < n`, a declared
  name, an instance of the class; `Elem.index e el` — the index of that member (for a name:
  lookup by name, `nameIndex?`);
* `Input.Rejected e x` — the exact set of inputs the repaired `encode` refuses;
* `Input.WF e x` — every `Enum` instance of class `e` in `x` carries an index `< n` (a fact of
  the Python object model; it fails only for a different enumeration declared under the same
  class name, finding F-C15b); `Input.NotForeignArray e x` — `x` is not an `EnumArray` of
  another enumeration (which `encode` hands back untouched).
-/
namespace OFCore
open EnumCodec

private def exE : Enumeration := ⟨0, ["b", "a", "c"]⟩

/-- **Name lookup through `argsort` + `searchsorted` is lookup by name.** For distinct names,
`sorter[searchsorted(names, v, sorter=sorter)]` (insertion sort + leftmost binary search) is the
position of `v` in the declaration order. -/
theorem C15_search_eq_lookup (names : List String) (hnd : names.Nodup) (v : String)
    (hv : v ∈ names) :
    ∃ i, nameIndex? names v = some i ∧ lookupSorted names v = .ok i ∧ names[i]? = some v := by
  obtain ⟨i, h1, h2⟩ := lookupSorted_eq_nameIndex names hnd v hv
  exact ⟨i, h1, h2, nameIndex?_some h1⟩

example : ["b", "a", "c"].Nodup ∧ "c" ∈ ["b", "a", "c"] ∧ lookupSorted ["b", "a", "c"] "c" = .ok 2 ∧
    argsort ["b", "a", "c"] = [1, 0, 2] := by decide

/-- **Round trip.** Every accepted input (names, indices or members; list, tuple or array; any
length) is encoded element by element to the index of the member each element designates;
decoding gives back exactly those members, and their names, in the same order. -/
theorem C15_decode_encode (e : Enumeration) (hnd : e.names.Nodup) (x : Input) (hwf : x.WF e)
    (hown : x.NotForeignArray e) (hok : ¬ x.Rejected e) :
    ∃ a, encode e x = .ok a ∧ a.owner = e.cid ∧
      a.idx = x.elems.map (Elem.index e) ∧
      decode e a = .ok (x.elems.map fun el => Elem.member e.cid (el.index e)) ∧
      decodeToStr e a = .ok (x.elems.map fun el => e.names.getD (el.index e) "") := by
  obtain ⟨henc, hall, hdec, hstr⟩ := decode_encode_code e x hwf hown hok
  have hci : ∀ el ∈ x.elems, el.code e = el.index e := fun el hel =>
    Elem.code_eq_index hnd (hall el hel).1
  have hmap : x.elems.map (Elem.code e) = x.elems.map (Elem.index e) := List.map_congr_left hci
  refine ⟨_, henc, rfl, hmap, ?_, ?_⟩
  · rw [hdec]; congr 1; exact List.map_congr_left (fun el hel => by rw [hci el hel])
  · rw [hstr]; congr 1; exact List.map_congr_left (fun el hel => by rw [hci el hel])

example : exE.names.Nodup ∧ (Input.seq [.str "c", .str "a", .str "c"]).WF exE ∧
    (Input.seq [.str "c", .str "a", .str "c"]).NotForeignArray exE ∧
    ¬ (Input.seq [.str "c", .str "a", .str "c"]).Rejected exE ∧
    encode exE (.seq [.str "c", .str "a", .str "c"]) = .ok ⟨0, [2, 1, 2]⟩ ∧
    decodeToStr exE ⟨0, [2, 1, 2]⟩ = .ok ["c", "a", "c"] := by decide

/-- Round trip for **names**: a list/tuple or a `str_` array of declared names decodes to the
same names in the same order (and to the members of those names). -/
theorem C15_decode_encode_names (e : Enumeration) (hnd : e.names.Nodup) (ss : List String)
    (h : ∀ s ∈ ss, s ∈ e.names) (x : Input) (hx : x = .seq (ss.map .str) ∨ x = .strArr ss) :
    ∃ a, encode e x = .ok a ∧ a.owner = e.cid ∧ a.idx.length = ss.length ∧
      decodeToStr e a = .ok ss ∧
      decode e a = .ok (ss.map fun s => Elem.member e.cid ((nameIndex? e.names s).getD 0)) := by
  have helems : x.elems = ss.map .str := by rcases hx with rfl | rfl <;> rfl
  have hwf : x.WF e := by
    intro el hel
    rw [helems] at hel
    obtain ⟨s, _, rfl⟩ := List.mem_map.mp hel
    trivial
  have hown : x.NotForeignArray e := by rcases hx with rfl | rfl <;> trivial
  have hok : ¬ x.Rejected e := by
    rcases hx with rfl | rfl
    · rintro ⟨_, ⟨el, hel, hnd'⟩ | hnk⟩
      · obtain ⟨s, hs, rfl⟩ := List.mem_map.mp hel
        exact hnd' (h s hs)
      · apply hnk
        apply sameKind_of_forall (k := .str)
        intro el hel
        obtain ⟨s, _, rfl⟩ := List.mem_map.mp hel
        rfl
    · rintro ⟨s, hs, hn⟩
      exact hn (h s hs)
  obtain ⟨a, henc, hown', hidx, hdec, hstr⟩ := C15_decode_encode e hnd x hwf hown hok
  refine ⟨a, henc, hown', ?_, ?_, ?_⟩
  · rw [hidx, helems]; simp
  · rw [hstr, helems, List.map_map]
    congr 1
    conv => rhs; rw [← List.map_id ss]
    apply List.map_congr_left
    intro s hs
    exact names_getD_nameIndex (h s hs)
  · rw [hdec, helems, List.map_map]
    rfl

example : (∀ s ∈ ["c", "a"], s ∈ exE.names) ∧
    encode exE (.strArr ["c", "a"]) = .ok ⟨0, [2, 1]⟩ ∧
    decode exE ⟨0, [2, 1]⟩ = .ok [.member 0 2, .member 0 1] := by decide

/-- Round trip for **indices**: a list/tuple or an integer array (any dtype) of indices within
`0 ≤ v < n` is encoded to itself and decodes to the members with those indices. -/
theorem C15_decode_encode_indices (e : Enumeration) (vs : List Int)
    (h : ∀ v ∈ vs, 0 ≤ v ∧ v < (e.size : Int)) (x : Input)
    (hx : x = .seq (vs.map .int) ∨ x = .intArr vs) :
    ∃ a, encode e x = .ok a ∧ a.owner = e.cid ∧ a.idx = vs.map Int.toNat ∧
      decode e a = .ok (vs.map fun v => Elem.member e.cid v.toNat) := by
  have helems : x.elems = vs.map .int := by rcases hx with rfl | rfl <;> rfl
  have hwf : x.WF e := by
    intro el hel
    rw [helems] at hel
    obtain ⟨s, _, rfl⟩ := List.mem_map.mp hel
    trivial
  have hown : x.NotForeignArray e := by rcases hx with rfl | rfl <;> trivial
  have hok : ¬ x.Rejected e := by
    rcases hx with rfl | rfl
    · rintro ⟨_, ⟨el, hel, hnd'⟩ | hnk⟩
      · obtain ⟨v, hv, rfl⟩ := List.mem_map.mp hel
        exact hnd' (h v hv)
      · apply hnk
        apply sameKind_of_forall (k := .int)
        intro el hel
        obtain ⟨s, _, rfl⟩ := List.mem_map.mp hel
        rfl
    · rintro ⟨v, hv, hn⟩
      exact hn (h v hv)
  obtain ⟨henc, _, hdec, _⟩ := decode_encode_code e x hwf hown hok
  refine ⟨_, henc, rfl, ?_, ?_⟩
  · rw [helems, List.map_map]; rfl
  · rw [hdec, helems, List.map_map]; rfl

example : (∀ v ∈ [2, 0, (1 : Int)], 0 ≤ v ∧ v < (exE.size : Int)) ∧
    encode exE (.intArr [2, 0, 1]) = .ok ⟨0, [2, 0, 1]⟩ := by decide

/-- Round trip for **members**: a list/tuple or an object array of members of the enumeration
decodes to the very same members in the same order. -/
theorem C15_decode_encode_members (e : Enumeration) (is : List Nat) (h : ∀ i ∈ is, i < e.size)
    (x : Input)
    (hx : x = .seq (is.map (Elem.member e.cid)) ∨ x = .objArr (is.map (Elem.member e.cid))) :
    ∃ a, encode e x = .ok a ∧ a.owner = e.cid ∧ a.idx = is ∧ decode e a = .ok x.elems := by
  have helems : x.elems = is.map (Elem.member e.cid) := by rcases hx with rfl | rfl <;> rfl
  have hwf : x.WF e := by
    intro el hel
    rw [helems] at hel
    obtain ⟨i, hi, rfl⟩ := List.mem_map.mp hel
    exact fun _ => h i hi
  have hown : x.NotForeignArray e := by rcases hx with rfl | rfl <;> trivial
  have hok : ¬ x.Rejected e := by
    rcases hx with rfl | rfl
    · rintro ⟨_, ⟨el, hel, hnd'⟩ | hnk⟩
      · obtain ⟨i, _, rfl⟩ := List.mem_map.mp hel
        exact hnd' rfl
      · apply hnk
        apply sameKind_of_forall (k := .enum)
        intro el hel
        obtain ⟨s, _, rfl⟩ := List.mem_map.mp hel
        rfl
    · rintro ⟨el, hel, hk | hd⟩
      · obtain ⟨i, _, rfl⟩ := List.mem_map.mp hel
        exact hk rfl
      · obtain ⟨i, _, rfl⟩ := List.mem_map.mp hel
        exact hd rfl
  obtain ⟨henc, _, hdec, _⟩ := decode_encode_code e x hwf hown hok
  have hcode : x.elems.map (Elem.code e) = is := by
    rw [helems, List.map_map]
    conv => rhs; rw [← List.map_id is]
    exact List.map_congr_left (fun _ _ => rfl)
  refine ⟨_, henc, rfl, hcode, ?_⟩
  rw [hdec]
  congr 1
  conv => rhs; rw [← List.map_id x.elems]
  apply List.map_congr_left
  intro el hel
  rw [helems] at hel
  obtain ⟨i, _, rfl⟩ := List.mem_map.mp hel
  rfl

example : (∀ i ∈ [1, 1, 2], i < exE.size) ∧
    encode exE (.objArr [.member 0 1, .member 0 1, .member 0 2]) = .ok ⟨0, [1, 1, 2]⟩ ∧
    decode exE ⟨0, [1, 1, 2]⟩ = .ok [.member 0 1, .member 0 1, .member 0 2] := by decide

/-- **An encoded array only holds indices that designate members** (and is tagged with the
enumeration). -/
theorem C15_encoded_valid (e : Enumeration) (x : Input) (a : EnumArray) (hwf : x.WF e)
    (hown : x.NotForeignArray e) (h : encode e x = .ok a) :
    a.owner = e.cid ∧ ∀ i ∈ a.idx, i < e.size := by
  by_cases hrej : x.Rejected e
  · obtain ⟨m, hm⟩ := encode_error_of_rejected e x hrej
    rw [hm] at h; cases h
  · obtain ⟨henc, hall, _, _⟩ := decode_encode_code e x hwf hown hrej
    rw [henc] at h
    cases h
    refine ⟨rfl, ?_⟩
    intro i hi
    obtain ⟨el, hel, rfl⟩ := List.mem_map.mp hi
    exact (hall el hel).2

example : (Input.seq [.int 2, .int 0]).WF exE ∧ (Input.seq [.int 2, .int 0]).NotForeignArray exE ∧
    encode exE (.seq [.int 2, .int 0]) = .ok ⟨0, [2, 0]⟩ := by decide

/-- **Encoding an already encoded array changes nothing**: the `EnumArray` itself is handed
back, and re-encoding the plain index array it holds gives the same array again. -/
theorem C15_encode_idempotent (e : Enumeration) (x : Input) (a : EnumArray)
    (h : encode e x = .ok a) :
    encode e (.encoded a) = .ok a ∧
    (x.WF e → x.NotForeignArray e → encode e (.intArr (a.idx.map Int.ofNat)) = .ok a) := by
  refine ⟨rfl, ?_⟩
  intro hwf hown
  obtain ⟨ho, hv⟩ := C15_encoded_valid e x a hwf hown h
  have hvalid : ∀ v ∈ a.idx.map Int.ofNat, 0 ≤ v ∧ v < (e.size : Int) := by
    intro v hv'
    obtain ⟨i, hi, rfl⟩ := List.mem_map.mp hv'
    exact ⟨Int.natCast_nonneg i, Int.ofNat_lt.mpr (hv i hi)⟩
  obtain ⟨a', henc, ho', hidx, _⟩ :=
    C15_decode_encode_indices e (a.idx.map Int.ofNat) hvalid _ (Or.inr rfl)
  rw [henc]
  congr 1
  cases a with
  | mk owner idx =>
    cases a' with
    | mk owner' idx' =>
      simp only at ho ho' hidx
      subst ho ho' hidx
      simp [List.map_map, Function.comp_def]

example : encode exE (.seq [.str "c", .str "b"]) = .ok ⟨0, [2, 0]⟩ ∧
    encode exE (.encoded ⟨0, [2, 0]⟩) = .ok ⟨0, [2, 0]⟩ ∧
    encode exE (.intArr [2, 0]) = .ok ⟨0, [2, 0]⟩ := by decide

/-- **`encode` raises exactly on the rejected inputs** (`Input.Rejected`): for a non-empty
sequence, some element designates no member (unknown name, index `< 0` or `≥ n`, instance of
another enumeration, unsupported kind) or the kinds are mixed; for a non-empty integer / string
array, some element designates no member; for a non-empty object array, some element is not an
instance of the enumeration; for a non-empty array of any other dtype, always. An `EnumArray`
and an empty input of any container are never refused. -/
theorem C15_error_iff (e : Enumeration) (x : Input) :
    (∃ m, encode e x = .error m) ↔ x.Rejected e := by
  constructor
  · rintro ⟨m, hm⟩
    apply Classical.byContradiction
    intro hrej
    rw [encode_ok_of_not_rejected e x hrej] at hm
    cases hm
  · exact encode_error_of_rejected e x

example : (Input.seq [.int 1, .int (-1)]).Rejected exE ∧ (Input.seq [.int 0, .int 3]).Rejected exE ∧
    (Input.seq [.str "a", .str "d"]).Rejected exE ∧ (Input.seq [.member 0 1, .member 1 0]).Rejected exE ∧
    (Input.objArr [.member 0 1, .member 1 0]).Rejected exE ∧ (Input.seq [.other]).Rejected exE ∧
    (Input.seq [.str "a", .int 0]).Rejected exE ∧ (Input.objArr [.str "a"]).Rejected exE ∧
    (Input.intArr [-128]).Rejected exE ∧ (Input.otherArr 1).Rejected exE ∧
    ¬ (Input.seq []).Rejected exE ∧ ¬ (Input.otherArr 0).Rejected exE ∧
    ¬ (Input.seq [.str "a", .str "b"]).Rejected exE ∧
    encode exE (.seq [.int 1, .int (-1)]) = .error "EnumMemberNotFoundError" ∧
    encode exE (.seq [.str "a", .int 0]) = .error "EnumEncodingError" := by decide

/-- **Anything that is not a member makes `encode` raise**: whatever the container (other than
an `EnumArray`), if some element designates no member — unknown name, index outside the range
on either side, member of another enumeration, unsupported element type — the call errs. -/
theorem C15_nonmember_raises (e : Enumeration) (x : Input) (hraw : ∀ a, x ≠ .encoded a)
    (el : Elem) (hel : el ∈ x.elems) (hnd : ¬ el.Designates e) : ∃ m, encode e x = .error m := by
  apply encode_error_of_rejected
  cases x with
  | encoded a => exact absurd rfl (hraw a)
  | seq xs => exact ⟨List.ne_nil_of_mem hel, Or.inl ⟨el, hel, hnd⟩⟩
  | intArr vs =>
    obtain ⟨v, hv, rfl⟩ := List.mem_map.mp hel
    exact ⟨v, hv, hnd⟩
  | strArr ss =>
    obtain ⟨s, hs, rfl⟩ := List.mem_map.mp hel
    exact ⟨s, hs, hnd⟩
  | objArr xs => exact ⟨el, hel, Or.inr hnd⟩
  | otherArr n =>
    have := (List.mem_replicate.mp hel).1
    exact this
  | scalarArr el' => trivial

example : Elem.member 1 0 ∈ (Input.seq [.member 0 2, .member 1 0]).elems ∧
    ¬ (Elem.member 1 0).Designates exE ∧ ¬ (Elem.int 3).Designates exE ∧ ¬ (Elem.int (-1)).Designates exE ∧
    ¬ (Elem.str "B").Designates exE ∧ ¬ Elem.other.Designates exE := by decide

/-- **Mixed sequences are refused**, even when every element designates a member. -/
theorem C15_mixed_raises (e : Enumeration) (xs : List Elem) (a b : Elem) (ha : a ∈ xs) (hb : b ∈ xs)
    (hab : a.kind ≠ b.kind) : ∃ m, encode e (.seq xs) = .error m :=
  encode_error_of_rejected e _ ⟨List.ne_nil_of_mem ha, Or.inr (fun hk => hab (hk a ha b hb))⟩

example : (Elem.str "a").Designates exE ∧ (Elem.int 0).Designates exE ∧
    (Elem.str "a").kind ≠ (Elem.int 0).kind := by decide

/-- **Empty inputs** of every container give the empty array of the enumeration. -/
theorem C15_empty_accepted (e : Enumeration) (x : Input) (hraw : ∀ a, x ≠ .encoded a)
    (h0 : x.len = 0) : encode e x = .ok ⟨e.cid, []⟩ := by
  cases x with
  | encoded a => exact absurd rfl (hraw a)
  | seq xs => rw [encode_seq]; exact if_pos h0
  | intArr vs => rw [encode_intArr]; exact if_pos h0
  | strArr ss => rw [encode_strArr]; exact if_pos h0
  | objArr xs => rw [encode_objArr]; exact if_pos h0
  | otherArr n => rw [encode_otherArr]; exact if_pos h0
  | scalarArr el => simp [Input.len] at h0

example : (Input.otherArr 0).len = 0 ∧ encode exE (.otherArr 0) = .ok ⟨0, []⟩ := by decide

/-- **A 0-dimensional array is refused whatever it holds** (`len()` of an unsized object): it is
not a sequence of elements. -/
theorem C15_scalar_array_raises (e : Enumeration) (el : Elem) :
    ∃ m, encode e (.scalarArr el) = .error m := ⟨_, rfl⟩

example : encode exE (.scalarArr (.int 1)) = .error "TypeError" := by decide

/-- **Decoding commutes with re-indexing.** Whatever positions are selected from an encoded
array through the ndarray API (a slice, a reversed view, a boolean mask, an index array, `take`,
`repeat`, a copy), the result is an array of the same enumeration that decodes to the members
(names) found at those positions of the decoded original, in the order selected. -/
theorem C15_decode_take (e : Enumeration) (a : EnumArray) (ms : List Elem) (ns : List String)
    (positions : List Nat) (hpos : ∀ p ∈ positions, p < a.idx.length)
    (hd : decode e a = .ok ms) (hs : decodeToStr e a = .ok ns) :
    ∃ b, a.take positions = .ok b ∧ b.owner = a.owner ∧
      decode e b = .ok (positions.filterMap (fun p => ms[p]?)) ∧
      decodeToStr e b = .ok (positions.filterMap (fun p => ns[p]?)) := by
  obtain ⟨hall, hms⟩ := decode_ok_inv hd
  obtain ⟨_, hns⟩ := decodeToStr_ok_inv hs
  refine ⟨_, take_ok a positions hpos, rfl, ?_, ?_⟩
  · rw [decode_ok e _ (fun i hi => hall i (mem_filterMap_getElem? hi)), hms, filterMap_getElem?_map]
  · rw [decodeToStr_ok e _ (fun i hi => hall i (mem_filterMap_getElem? hi)), hns, filterMap_getElem?_map]

example : decode exE ⟨0, [2, 1, 0, 1]⟩ = .ok [.member 0 2, .member 0 1, .member 0 0, .member 0 1] ∧
    (∀ p ∈ [3, 3, 0], p < (⟨0, [2, 1, 0, 1]⟩ : EnumArray).idx.length) ∧
    (⟨0, [2, 1, 0, 1]⟩ : EnumArray).take [3, 3, 0] = .ok ⟨0, [1, 1, 2]⟩ ∧
    decodeToStr exE ⟨0, [1, 1, 2]⟩ = .ok ["a", "a", "c"] := by decide

end OFCore

/-! axiom audit (⊆ propext, Classical.choice, Quot.sound) -/
#print axioms OFCore.C15_search_eq_lookup
#print axioms OFCore.C15_decode_encode
#print axioms OFCore.C15_decode_encode_names
#print axioms OFCore.C15_decode_encode_indices
#print axioms OFCore.C15_decode_encode_members
#print axioms OFCore.C15_encoded_valid
#print axioms OFCore.C15_encode_idempotent
#print axioms OFCore.C15_error_iff
#print axioms OFCore.C15_nonmember_raises
#print axioms OFCore.C15_mixed_raises
#print axioms OFCore.C15_empty_accepted
#print axioms OFCore.C15_scalar_array_raises
#print axioms OFCore.C15_decode_take
