import OFCore.Lemmas.EnumCodec
/-!
# C15 — enum values survive encoding and decoding; invalid ones are rejected

Theorems about the model `OFCore/EnumCodec.lean` of `Enum.encode`, `EnumArray.decode`,
`EnumArray.decode_to_str` (repaired tree). They hold for every enumeration (any number of
members, any declaration order of the names) and every input (any length, any container, any
mix of element kinds). Vocabulary (defined in the model file):

* `Elem.Designates e el` — `el` designates a member of `e`: an integer `0 ≤ v < n`, a declared
  name, an instance of the class; `Elem.index e el` — the index of that member (for a name:
  lookup by name, `nameIndex?`);
* `Input.Rejected e x` — the exact set of inputs the repaired `encode` refuses;
* `Input.WF e x` — every `Enum` instance of class `e` in `x` carries an index `< n` (a fact of
  the Python object model; it fails only for a different enumeration declared under the same
  class name, finding F-C15b); `Input.NotForeignArray e x` — `x` is not an `EnumArray` of
  another enumeration (which `encode` hands back untouched).
-/
namespace OFCore
open EnumCodec

private def exE : Enumeration := ⟨0, ["b", "a", "c"]⟩

/-- **Name lookup through `argsort` + `searchsorted` is lookup by name.** For distinct names,
`sorter[searchsorted(names, v, sorter=sorter)]` (insertion sort + leftmost binary search) is the
position of `v` in the declaration order. -/
theorem C15_search_eq_lookup (names : List String) (hnd : names.Nodup) (v : String)
    (hv : v ∈ names) :
    ∃ i, nameIndex? names v = some i ∧ lookupSorted names v = .ok i ∧ names[i]? = some v := by
  obtain ⟨i, h1, h2⟩ := lookupSorted_eq_nameIndex names hnd v hv
  exact ⟨i, h1, h2, nameIndex?_some h1⟩

example : ["b", "a", "c"].Nodup ∧ "c" ∈ ["b", "a", "c"] ∧ lookupSorted ["b", "a", "c"] "c" = .ok 2 ∧
    argsort ["b", "a", "c"] = [1, 0, 2] := by decide

/-- **Round trip.** Every accepted input (names, indices or members; list, tuple or array; any
length) is encoded element by element to the index of the member each element designates;
decoding gives back exactly those members, and their names, in the same order. -/
theorem C15_decode_encode (e : Enumeration) (hnd : e.names.Nodup) (x : Input) (hwf : x.WF e)
    (hown : x.NotForeignArray e) (hok : ¬ x.Rejected e) :
    ∃ a, encode e x = .ok a ∧ a.owner = e.cid ∧
      a.idx = x.elems.map (Elem.index e) ∧
      decode e a = .ok (x.elems.map fun el => Elem.member e.cid (el.index e)) ∧
      decodeToStr e a = .ok (x.elems.map fun el => e.names.getD (el.index e) "") := by
  obtain ⟨henc, hall, hdec, hstr⟩ := decode_encode_code e x hwf hown hok
  have hci : ∀ el ∈ x.elems, el.code e = el.index e := fun el hel =>
    Elem.code_eq_index hnd (hall el hel).1
  have hmap : x.elems.map (Elem.code e) = x.elems.map (Elem.index e) := List.map_congr_left hci
  refine ⟨_, henc, rfl, hmap, ?_, ?_⟩
  · rw [hdec]; congr 1; exact List.map_congr_left (fun el hel => by rw [hci el hel])
  · rw [hstr]; congr 1; exact List.map_congr_left (fun el hel => by rw [hci el hel])

example : exE.names.Nodup ∧ (Input.seq [.str "c", .str "a", .str "c"]).WF exE ∧
    (Input.seq [.str "c", .str "a", .str "c"]).NotForeignArray exE ∧
    ¬ (Input.seq [.str "c", .str "a", .str "c"]).Rejected exE ∧
    encode exE (.seq [.str "c", .str "a", .str "c"]) = .ok ⟨0, [2, 1, 2]⟩ ∧
    decodeToStr exE ⟨0, [2, 1, 2]⟩ = .ok ["c", "a", "c"] := by decide

/-- Round trip for **names**: a list/tuple or a `str_` array of declared names decodes to the
same names in the same order (and to the members of those names). -/
theorem C15_decode_encode_names (e : Enumeration) (hnd : e.names.Nodup) (ss : List String)
    (h : ∀ s ∈ ss, s ∈ e.names) (x : Input) (hx : x = .seq (ss.map .str) ∨ x = .strArr ss) :
    ∃ a, encode e x = .ok a ∧ a.owner = e.cid ∧ a.idx.length = ss.length ∧
      decodeToStr e a = .ok ss ∧
      decode e a = .ok (ss.map fun s => Elem.member e.cid ((nameIndex? e.names s).getD 0)) := by
  have helems : x.elems = ss.map .str := by rcases hx with rfl | rfl <;> rfl
  have hwf : x.WF e := by
    intro el hel
    rw [helems] at hel
    obtain ⟨s, _, rfl⟩ := List.mem_map.mp hel
    trivial
  have hown : x.NotForeignArray e := by rcases hx with rfl | rfl <;> trivial
  have hok : ¬ x.Rejected e := by
    rcases hx with rfl | rfl
    · rintro ⟨_, ⟨el, hel, hnd'⟩ | hnk⟩
      · obtain ⟨s, hs, rfl⟩ := List.mem_map.mp hel
        exact hnd' (h s hs)
      · apply hnk
        apply sameKind_of_forall (k := .str)
        intro el hel
        obtain ⟨s, _, rfl⟩ := List.mem_map.mp hel
        rfl
    · rintro ⟨s, hs, hn⟩
      exact hn (h s hs)
  obtain ⟨a, henc, hown', hidx, hdec, hstr⟩ := C15_decode_encode e hnd x hwf hown hok
  refine ⟨a, henc, hown', ?_, ?_, ?_⟩
  · rw [hidx, helems]; simp
  · rw [hstr, helems, List.map_map]
    congr 1
    conv => rhs; rw [← List.map_id ss]
    apply List.map_congr_left
    intro s hs
    exact names_getD_nameIndex (h s hs)
  · rw [hdec, helems, List.map_map]
    rfl

example : (∀ s ∈ ["c", "a"], s ∈ exE.names) ∧
    encode exE (.strArr ["c", "a"]) = .ok ⟨0, [2, 1]⟩ ∧
    decode exE ⟨0, [2, 1]⟩ = .ok [.member 0 2, .member 0 1] := by decide

/-- Round trip for **indices**: a list/tuple or an integer array (any dtype) of indices within
`0 ≤ v < n` is encoded to itself and decodes to the members with those indices. -/
theorem C15_decode_encode_indices (e : Enumeration) (vs : List Int)
    (h : ∀ v ∈ vs, 0 ≤ v ∧ v < (e.size : Int)) (x : Input)
    (hx : x = .seq (vs.map .int) ∨ x = .intArr vs) :
    ∃ a, encode e x = .ok a ∧ a.owner = e.cid ∧ a.idx = vs.map Int.toNat ∧
      decode e a = .ok (vs.map fun v => Elem.member e.cid v.toNat) := by
  have helems : x.elems = vs.map .int := by rcases hx with rfl | rfl <;> rfl
  have hwf : x.WF e := by
    intro el hel
    rw [helems] at hel
    obtain ⟨s, _, rfl⟩ := List.mem_map.mp hel
    trivial
  have hown : x.NotForeignArray e := by rcases hx with rfl | rfl <;> trivial
  have hok : ¬ x.Rejected e := by
    rcases hx with rfl | rfl
    · rintro ⟨_, ⟨el, hel, hnd'⟩ | hnk⟩
      · obtain ⟨v, hv, rfl⟩ := List.mem_map.mp hel
        exact hnd' (h v hv)
      · apply hnk
        apply sameKind_of_forall (k := .int)
        intro el hel
        obtain ⟨s, _, rfl⟩ := List.mem_map.mp hel
        rfl
    · rintro ⟨v, hv, hn⟩
      exact hn (h v hv)
  obtain ⟨henc, _, hdec, _⟩ := decode_encode_code e x hwf hown hok
  refine ⟨_, henc, rfl, ?_, ?_⟩
  · rw [helems, List.map_map]; rfl
  · rw [hdec, helems, List.map_map]; rfl

example : (∀ v ∈ [2, 0, (1 : Int)], 0 ≤ v ∧ v < (exE.size : Int)) ∧
    encode exE (.intArr [2, 0, 1]) = .ok ⟨0, [2, 0, 1]⟩ := by decide

/-- Round trip for **members**: a list/tuple or an object array of members of the enumeration
decodes to the very same members in the same order. -/
theorem C15_decode_encode_members (e : Enumeration) (is : List Nat) (h : ∀ i ∈ is, i < e.size)
    (x : Input)
    (hx : x = .seq (is.map (Elem.member e.cid)) ∨ x = .objArr (is.map (Elem.member e.cid))) :
    ∃ a, encode e x = .ok a ∧ a.owner = e.cid ∧ a.idx = is ∧ decode e a = .ok x.elems := by
  have helems : x.elems = is.map (Elem.member e.cid) := by rcases hx with rfl | rfl <;> rfl
  have hwf : x.WF e := by
    intro el hel
    rw [helems] at hel
    obtain ⟨i, hi, rfl⟩ := List.mem_map.mp hel
    exact fun _ => h i hi
  have hown : x.NotForeignArray e := by rcases hx with rfl | rfl <;> trivial
  have hok : ¬ x.Rejected e := by
    rcases hx with rfl | rfl
    · rintro ⟨_, ⟨el, hel, hnd'⟩ | hnk⟩
      · obtain ⟨i, _, rfl⟩ := List.mem_map.mp hel
        exact hnd' rfl
      · apply hnk
        apply sameKind_of_forall (k := .enum)
        intro el hel
        obtain ⟨s, _, rfl⟩ := List.mem_map.mp hel
        rfl
    · rintro ⟨el, hel, hk | hd⟩
      · obtain ⟨i, _, rfl⟩ := List.mem_map.mp hel
        exact hk rfl
      · obtain ⟨i, _, rfl⟩ := List.mem_map.mp hel
        exact hd rfl
  obtain ⟨henc, _, hdec, _⟩ := decode_encode_code e x hwf hown hok
  have hcode : x.elems.map (Elem.code e) = is := by
    rw [helems, List.map_map]
    conv => rhs; rw [← List.map_id is]
    exact List.map_congr_left (fun _ _ => rfl)
  refine ⟨_, henc, rfl, hcode, ?_⟩
  rw [hdec]
  congr 1
  conv => rhs; rw [← List.map_id x.elems]
  apply List.map_congr_left
  intro el hel
  rw [helems] at hel
  obtain ⟨i, _, rfl⟩ := List.mem_map.mp hel
  rfl

example : (∀ i ∈ [1, 1, 2], i < exE.size) ∧
    encode exE (.objArr [.member 0 1, .member 0 1, .member 0 2]) = .ok ⟨0, [1, 1, 2]⟩ ∧
    decode exE ⟨0, [1, 1, 2]⟩ = .ok [.member 0 1, .member 0 1, .member 0 2] := by decide

/-- **An encoded array only holds indices that designate members** (and is tagged with the
enumeration). -/
theorem C15_encoded_valid (e : Enumeration) (x : Input) (a : EnumArray) (hwf : x.WF e)
    (hown : x.NotForeignArray e) (h : encode e x = .ok a) :
    a.owner = e.cid ∧ ∀ i ∈ a.idx, i < e.size := by
  by_cases hrej : x.Rejected e
  · obtain ⟨m, hm⟩ := encode_error_of_rejected e x hrej
    rw [hm] at h; cases h
  · obtain ⟨henc, hall, _, _⟩ := decode_encode_code e x hwf hown hrej
    rw [henc] at h
    cases h
    refine ⟨rfl, ?_⟩
    intro i hi
    obtain ⟨el, hel, rfl⟩ := List.mem_map.mp hi
    exact (hall el hel).2

example : (Input.seq [.int 2, .int 0]).WF exE ∧ (Input.seq [.int 2, .int 0]).NotForeignArray exE ∧
    encode exE (.seq [.int 2, .int 0]) = .ok ⟨0, [2, 0]⟩ := by decide

/-- **Encoding an already encoded array changes nothing**: the `EnumArray` itself is handed
back, and re-encoding the plain index array it holds gives the same array again. -/
theorem C15_encode_idempotent (e : Enumeration) (x : Input) (a : EnumArray)
    (h : encode e x = .ok a) :
    encode e (.encoded a) = .ok a ∧
    (x.WF e → x.NotForeignArray e → encode e (.intArr (a.idx.map Int.ofNat)) = .ok a) := by
  refine ⟨rfl, ?_⟩
  intro hwf hown
  obtain ⟨ho, hv⟩ := C15_encoded_valid e x a hwf hown h
  have hvalid : ∀ v ∈ a.idx.map Int.ofNat, 0 ≤ v ∧ v < (e.size : Int) := by
    intro v hv'
    obtain ⟨i, hi, rfl⟩ := List.mem_map.mp hv'
    exact ⟨Int.natCast_nonneg i, Int.ofNat_lt.mpr (hv i hi)⟩
  obtain ⟨a', henc, ho', hidx, _⟩ :=
    C15_decode_encode_indices e (a.idx.map Int.ofNat) hvalid _ (Or.inr rfl)
  rw [henc]
  congr 1
  cases a with
  | mk owner idx =>
    cases a' with
    | mk owner' idx' =>
      simp only at ho ho' hidx
      subst ho ho' hidx
      simp [List.map_map, Function.comp_def]

example : encode exE (.seq [.str "c", .str "b"]) = .ok ⟨0, [2, 0]⟩ ∧
    encode exE (.encoded ⟨0, [2, 0]⟩) = .ok ⟨0, [2, 0]⟩ ∧
    encode exE (.intArr [2, 0]) = .ok ⟨0, [2, 0]⟩ := by decide

/-- **`encode` raises exactly on the rejected inputs** (`Input.Rejected`): for a non-empty
sequence, some element designates no member (unknown name, index `< 0` or `≥ n`, instance of
another enumeration, unsupported kind) or the kinds are mixed; for a non-empty integer / string
array, some element designates no member; for a non-empty object array, some element is not an
instance of the enumeration; for a non-empty array of any other dtype, always. An `EnumArray`
and an empty input of any container are never refused. -/
theorem C15_error_iff (e : Enumeration) (x : Input) :
    (∃ m, encode e x = .error m) ↔ x.Rejected e := by
  constructor
  · rintro ⟨m, hm⟩
    apply Classical.byContradiction
    intro hrej
    rw [encode_ok_of_not_rejected e x hrej] at hm
    cases hm
  · exact encode_error_of_rejected e x

example : (Input.seq [.int 1, .int (-1)]).Rejected exE ∧ (Input.seq [.int 0, .int 3]).Rejected exE ∧
    (Input.seq [.str "a", .str "d"]).Rejected exE ∧ (Input.seq [.member 0 1, .member 1 0]).Rejected exE ∧
    (Input.objArr [.member 0 1, .member 1 0]).Rejected exE ∧ (Input.seq [.other]).Rejected exE ∧
    (Input.seq [.str "a", .int 0]).Rejected exE ∧ (Input.objArr [.str "a"]).Rejected exE ∧
    (Input.intArr [-128]).Rejected exE ∧ (Input.otherArr 1).Rejected exE ∧
    ¬ (Input.seq []).Rejected exE ∧ ¬ (Input.otherArr 0).Rejected exE ∧
    ¬ (Input.seq [.str "a", .str "b"]).Rejected exE ∧
    encode exE (.seq [.int 1, .int (-1)]) = .error "EnumMemberNotFoundError" ∧
    encode exE (.seq [.str "a", .int 0]) = .error "EnumEncodingError" := by decide

/-- **Anything that is not a member makes `encode` raise**: whatever the container (other than
an `EnumArray`), if some element designates no member — unknown name, index outside the range
on either side, member of another enumeration, unsupported element type — the call errs. -/
theorem C15_nonmember_raises (e : Enumeration) (x : Input) (hraw : ∀ a, x ≠ .encoded a)
    (el : Elem) (hel : el ∈ x.elems) (hnd : ¬ el.Designates e) : ∃ m, encode e x = .error m := by
  apply encode_error_of_rejected
  cases x with
  | encoded a => exact absurd rfl (hraw a)
  | seq xs => exact ⟨List.ne_nil_of_mem hel, Or.inl ⟨el, hel, hnd⟩⟩
  | intArr vs =>
    obtain ⟨v, hv, rfl⟩ := List.mem_map.mp hel
    exact ⟨v, hv, hnd⟩
  | strArr ss =>
    obtain ⟨s, hs, rfl⟩ := List.mem_map.mp hel
    exact ⟨s, hs, hnd⟩
  | objArr xs => exact ⟨el, hel, Or.inr hnd⟩
  | otherArr n =>
    have := (List.mem_replicate.mp hel).1
    exact this
  | scalarArr el' => trivial

example : Elem.member 1 0 ∈ (Input.seq [.member 0 2, .member 1 0]).elems ∧
    ¬ (Elem.member 1 0).Designates exE ∧ ¬ (Elem.int 3).Designates exE ∧ ¬ (Elem.int (-1)).Designates exE ∧
    ¬ (Elem.str "B").Designates exE ∧ ¬ Elem.other.Designates exE := by decide

/-- **Mixed sequences are refused**, even when every element designates a member. -/
theorem C15_mixed_raises (e : Enumeration) (xs : List Elem) (a b : Elem) (ha : a ∈ xs) (hb : b ∈ xs)
    (hab : a.kind ≠ b.kind) : ∃ m, encode e (.seq xs) = .error m :=
  encode_error_of_rejected e _ ⟨List.ne_nil_of_mem ha, Or.inr (fun hk => hab (hk a ha b hb))⟩

example : (Elem.str "a").Designates exE ∧ (Elem.int 0).Designates exE ∧
    (Elem.str "a").kind ≠ (Elem.int 0).kind := by decide

/-- **Empty inputs** of every container give the empty array of the enumeration. -/
theorem C15_empty_accepted (e : Enumeration) (x : Input) (hraw : ∀ a, x ≠ .encoded a)
    (h0 : x.len = 0) : encode e x = .ok ⟨e.cid, []⟩ := by
  cases x with
  | encoded a => exact absurd rfl (hraw a)
  | seq xs => rw [encode_seq]; exact if_pos h0
  | intArr vs => rw [encode_intArr]; exact if_pos h0
  | strArr ss => rw [encode_strArr]; exact if_pos h0
  | objArr xs => rw [encode_objArr]; exact if_pos h0
  | otherArr n => rw [encode_otherArr]; exact if_pos h0
  | scalarArr el => simp [Input.len] at h0

example : (Input.otherArr 0).len = 0 ∧ encode exE (.otherArr 0) = .ok ⟨0, []⟩ := by decide

/-- **A 0-dimensional array is refused whatever it holds** (`len()` of an unsized object): it is
not a sequence of elements. -/
theorem C15_scalar_array_raises (e : Enumeration) (el : Elem) :
    ∃ m, encode e (.scalarArr el) = .error m := ⟨_, rfl⟩

example : encode exE (.scalarArr (.int 1)) = .error "TypeError" := by decide

/-- **Decoding commutes with re-indexing.** Whatever positions are selected from an encoded
array through the ndarray API (a slice, a reversed view, a boolean mask, an index array, `take`,
`repeat`, a copy), the result is an array of the same enumeration that decodes to the members
(names) found at those positions of the decoded original, in the order selected. -/
theorem C15_decode_take (e : Enumeration) (a : EnumArray) (ms : List Elem) (ns : List String)
    (positions : List Nat) (hpos : ∀ p ∈ positions, p < a.idx.length)
    (hd : decode e a = .ok ms) (hs : decodeToStr e a = .ok ns) :
    ∃ b, a.take positions = .ok b ∧ b.owner = a.owner ∧
      decode e b = .ok (positions.filterMap (fun p => ms[p]?)) ∧
      decodeToStr e b = .ok (positions.filterMap (fun p => ns[p]?)) := by
  obtain ⟨hall, hms⟩ := decode_ok_inv hd
  obtain ⟨_, hns⟩ := decodeToStr_ok_inv hs
  refine ⟨_, take_ok a positions hpos, rfl, ?_, ?_⟩
  · rw [decode_ok e _ (fun i hi => hall i (mem_filterMap_getElem? hi)), hms, filterMap_getElem?_map]
  · rw [decodeToStr_ok e _ (fun i hi => hall i (mem_filterMap_getElem? hi)), hns, filterMap_getElem?_map]

example : decode exE ⟨0, [2, 1, 0, 1]⟩ = .ok [.member 0 2, .member 0 1, .member 0 0, .member 0 1] ∧
    (∀ p ∈ [3, 3, 0], p < (⟨0, [2, 1, 0, 1]⟩ : EnumArray).idx.length) ∧
    (⟨0, [2, 1, 0, 1]⟩ : EnumArray).take [3, 3, 0] = .ok ⟨0, [1, 1, 2]⟩ ∧
    decodeToStr exE ⟨0, [1, 1, 2]⟩ = .ok ["a", "a", "c"] := by decide

/-! ## The operators of `EnumArray`: what `housing == Housing.owner` computes -/

/-- **Comparing an encoded array with a member is the pointwise test "this element is that
member"**: for every accepted input, `encode(x) == m` is true exactly at the positions whose
element designates `m`, `!=` is its complement, and both agree with a comparison of the decoded
members. -/
theorem C15_eq_member (e : Enumeration) (hnd : e.names.Nodup) (x : Input) (hwf : x.WF e)
    (hown : x.NotForeignArray e) (hok : ¬ x.Rejected e) (m : Nat) :
    ∃ a ms, encode e x = .ok a ∧ decode e a = .ok ms ∧
      eqOp e.size a (.elem (.member e.cid m)) = .ok (.vec (x.elems.map fun el => el.index e == m)) ∧
      neOp e.size a (.elem (.member e.cid m)) = .ok (.vec (x.elems.map fun el => !(el.index e == m))) ∧
      eqOp e.size a (.elem (.member e.cid m)) = .ok (.vec (ms.map fun d => d == Elem.member e.cid m)) := by
  obtain ⟨a, henc, hown', hidx, hdec, _⟩ := C15_decode_encode e hnd x hwf hown hok
  have heq : eqOp e.size a (.elem (.member e.cid m))
      = .ok (.vec (x.elems.map fun el => el.index e == m)) := by
    simp only [eqOp, hown', if_true, hidx, List.map_map, Function.comp_def]
  refine ⟨a, _, henc, hdec, heq, ?_, ?_⟩
  · simp only [neOp, heq, CmpRes.not, List.map_map, Function.comp_def]
  · rw [heq, List.map_map]
    congr 2
    apply List.map_congr_left
    intro el _
    show (Elem.index e el == m) = (Elem.member e.cid (Elem.index e el) == Elem.member e.cid m)
    rw [Bool.eq_iff_iff, beq_iff_eq, beq_iff_eq]
    exact ⟨fun h => by rw [h], fun h => by injection h⟩

example : encode exE (.seq [.str "c", .str "a", .str "c"]) = .ok ⟨0, [2, 1, 2]⟩ ∧
    eqOp 3 ⟨0, [2, 1, 2]⟩ (.elem (.member 0 2)) = .ok (.vec [true, false, true]) ∧
    neOp 3 ⟨0, [2, 1, 2]⟩ (.elem (.member 0 2)) = .ok (.vec [false, true, false]) := by decide

/-- the same for any array that decodes (whatever produced it): `a == m` tests the decoded
members; a member of ANOTHER enumeration equals nothing; an integer is compared with the indices;
a string, a float, `None` equal nothing; none of these comparisons raises and the answer has one
element per element of the array. -/
theorem C15_eq_scalar (e : Enumeration) (n : Nat) (a : EnumArray) (ho : a.owner = e.cid) :
    (∀ ms m, decode e a = .ok ms →
      eqOp n a (.elem (.member e.cid m)) = .ok (.vec (ms.map fun d => d == Elem.member e.cid m))) ∧
    (∀ c i, c ≠ a.owner → eqOp n a (.elem (.member c i)) = .ok (.vec (List.replicate a.idx.length false))) ∧
    (∀ v : Int, eqOp n a (.elem (.int v)) = .ok (.vec (a.idx.map fun (j : Nat) => decide ((j : Int) = v)))) ∧
    (∀ s, eqOp n a (.elem (.str s)) = .ok (.vec (List.replicate a.idx.length false))) ∧
    eqOp n a (.elem .other) = .ok (.vec (List.replicate a.idx.length false)) ∧
    eqOp n a .none_ = .ok (.scalar false) ∧ neOp n a .none_ = .ok (.scalar true) ∧
    (∀ x : Elem, ∃ bs, eqOp n a (.elem x) = .ok (.vec bs) ∧ bs.length = a.idx.length) := by
  have hrep : ∀ l : List Nat, (l.map fun _ => false) = List.replicate l.length false := by
    intro l; induction l with
    | nil => rfl
    | cons _ _ ih => simp [List.replicate_succ, ih]
  refine ⟨?_, ?_, ?_, ?_, ?_, rfl, rfl, ?_⟩
  · intro ms m hd
    obtain ⟨_, hms⟩ := decode_ok_inv hd
    subst hms
    simp only [eqOp, ho, if_true, List.map_map, Function.comp_def]
    congr 2
    apply List.map_congr_left
    intro j _
    rw [Bool.eq_iff_iff, beq_iff_eq, beq_iff_eq]
    exact ⟨fun h => by rw [h], fun h => by injection h⟩
  · intro c i hc
    simp only [eqOp, if_neg hc, hrep]
  · intro v
    simp only [eqOp]
    rfl
  · intro s; simp only [eqOp, hrep]
  · simp only [eqOp, hrep]
  · intro x
    cases x with
    | int v => exact ⟨_, rfl, by simp⟩
    | str s => exact ⟨_, rfl, by simp⟩
    | other => exact ⟨_, rfl, by simp⟩
    | member c i =>
      by_cases hc : c = a.owner
      · exact ⟨a.idx.map (fun j => j == i), by simp only [eqOp, if_pos hc], by simp⟩
      · exact ⟨a.idx.map (fun _ => false), by simp only [eqOp, if_neg hc], by simp⟩

example : decode exE ⟨0, [2, 1, 2]⟩ = .ok [.member 0 2, .member 0 1, .member 0 2] ∧
    eqOp 3 ⟨0, [2, 1, 2]⟩ (.elem (.member 1 2)) = .ok (.vec [false, false, false]) ∧
    eqOp 3 ⟨0, [2, 1, 2]⟩ (.elem (.int 1)) = .ok (.vec [false, true, false]) ∧
    eqOp 3 ⟨0, [2, 1, 2]⟩ (.elem (.int (-1))) = .ok (.vec [false, false, false]) := by decide

/-- **`!=` is the complement of `==`**, operand by operand, errors included; complementing twice
gives `==` back. -/
theorem C15_ne_complement (n : Nat) (a : EnumArray) (o : Operand) :
    (∀ r, eqOp n a o = .ok r → neOp n a o = .ok r.not) ∧
    (∀ m, eqOp n a o = .error m → neOp n a o = .error m) ∧
    (∀ r : CmpRes, r.not.not = r) := by
  refine ⟨fun r h => by simp only [neOp, h], fun m h => by simp only [neOp, h], ?_⟩
  intro r
  cases r with
  | vec bs => simp [CmpRes.not, List.map_map, Function.comp_def]
  | scalar b => simp [CmpRes.not]

/-- **Two encoded arrays of the same length are compared index by index** (whatever their
enumerations), symmetrically; an array equals itself everywhere; lengths that numpy cannot
broadcast (different, neither of them 1) raise. -/
theorem C15_eq_arrays (n n' : Nat) (a b : EnumArray) :
    (a.idx.length = b.idx.length →
      eqOp n a (.arr b) = .ok (.vec (List.zipWith (fun i j => i == j) a.idx b.idx)) ∧
      eqOp n a (.arr b) = eqOp n' b (.arr a)) ∧
    eqOp n a (.arr a) = .ok (.vec (List.replicate a.idx.length true)) ∧
    (a.idx.length ≠ b.idx.length → a.idx.length ≠ 1 → b.idx.length ≠ 1 →
      ∃ m, eqOp n a (.arr b) = .error m) := by
  refine ⟨fun h => ?_, ?_, ?_⟩
  · have h1 : eqOp n a (.arr b) = .ok (.vec (List.zipWith (fun i j => i == j) a.idx b.idx)) := by
      simp only [eqOp, bcastEq_same _ _ _ h]
    refine ⟨h1, ?_⟩
    rw [h1]
    simp only [eqOp, bcastEq_same _ _ _ h.symm]
    congr 2
    generalize a.idx = xs at h
    generalize b.idx = ys at h
    induction xs generalizing ys with
    | nil => cases ys <;> simp
    | cons x xs ih =>
      cases ys with
      | nil => simp
      | cons y ys =>
        simp only [List.zipWith_cons_cons, List.cons.injEq]
        refine ⟨by rw [Bool.beq_comm], ih ys (by simpa using h)⟩
  · simp only [eqOp, bcastEq_same _ _ _ rfl]
    congr 2
    generalize a.idx = xs
    induction xs with
    | nil => rfl
    | cons x xs ih =>
      simp only [List.zipWith_cons_cons, List.length_cons, List.replicate_succ, ih, beq_self_eq_true]
  · intro hne ha hb
    simp only [eqOp, bcastEq, if_neg hne]
    match hx : a.idx, hy : b.idx with
    | xs, [y] => rw [hy] at hb; exact absurd rfl hb
    | [x], [] => rw [hx] at ha; exact absurd rfl ha
    | [x], _ :: _ :: _ => rw [hx] at ha; exact absurd rfl ha
    | [], [] => rw [hx, hy] at hne; exact absurd rfl hne
    | [], _ :: _ :: _ => exact ⟨_, rfl⟩
    | _ :: _ :: _, [] => exact ⟨_, rfl⟩
    | _ :: _ :: _, _ :: _ :: _ => exact ⟨_, rfl⟩

example : eqOp 3 ⟨0, [2, 1, 2]⟩ (.arr ⟨1, [2, 2, 2]⟩) = .ok (.vec [true, false, true]) ∧
    eqOp 3 ⟨0, [2, 1, 2]⟩ (.arr ⟨0, [1]⟩) = .ok (.vec [false, true, false]) ∧
    (∃ m, eqOp 3 ⟨0, [2, 1, 2]⟩ (.arr ⟨0, [1, 2]⟩) = .error m) := ⟨by decide, by decide, ⟨_, rfl⟩⟩

/-- **Comparison with the enumeration class itself** (`array == Housing`): for a non-empty array
of valid indices whose greatest index is `mx`, the array is compared (numpy broadcasting) with
`0, 1, …, mx`; an empty array raises (`max()` of nothing). -/
theorem C15_eq_class (n : Nat) (a : EnumArray) (k : Nat) (hv : ∀ i ∈ a.idx, i < n) :
    (a.idx = [] → ∃ m, eqOp n a (.cls a.owner k) = .error m) ∧
    (a.idx ≠ [] → ∃ mx, mx ∈ a.idx ∧ (∀ j ∈ a.idx, j ≤ mx) ∧
      (∀ bs, bcastEq (fun i j => i == j) a.idx (List.range (mx + 1)) = .ok bs →
        eqOp n a (.cls a.owner k) = .ok (.vec bs)) ∧
      (∀ m, bcastEq (fun i j => i == j) a.idx (List.range (mx + 1)) = .error m →
        eqOp n a (.cls a.owner k) = .error m) ∧
      (a.idx.length = mx + 1 →
        eqOp n a (.cls a.owner k) = .ok (.vec (List.zipWith (fun i j => i == j) a.idx (List.range (mx + 1)))))) := by
  constructor
  · intro h
    simp only [eqOp, if_true, h, maxIdx]
    exact ⟨_, rfl⟩
  · intro h
    obtain ⟨mx, hmx⟩ := maxIdx_isSome a.idx h
    obtain ⟨hmem, hle⟩ := maxIdx_spec a.idx mx hmx
    have hcl : ∀ r, bcastEq (fun i j => i == j) a.idx (List.range (mx + 1)) = r →
        eqOp n a (.cls a.owner k) = match r with
          | .error m => .error m
          | .ok bs => .ok (.vec bs) := by
      intro r hr
      simp only [eqOp, if_true, hmx, range_filter_le n mx (hv mx hmem), hr]
      cases r <;> rfl
    refine ⟨mx, hmem, hle, fun bs hb => hcl _ hb, fun m hm => hcl _ hm, fun hlen => ?_⟩
    exact hcl _ (bcastEq_same _ _ _ (by simpa using hlen))

example : eqOp 3 ⟨0, [2, 1, 2]⟩ (.cls 0 3) = .ok (.vec [false, true, true]) ∧
    eqOp 3 ⟨0, [1]⟩ (.cls 0 3) = .ok (.vec [false, true]) ∧
    (∃ m, eqOp 3 ⟨0, []⟩ (.cls 0 3) = .error m) := ⟨by decide, by decide, ⟨_, rfl⟩⟩

/-- **Arithmetic, ordering and bitwise operators on an `EnumArray` raise**, whatever the operands:
the only operations allowed are `==` and `!=`. -/
theorem C15_forbidden_ops_raise (op : ForbiddenOp) (a : EnumArray) (o : Operand) :
    ∃ m, forbiddenOp op a o = .error m := ⟨_, rfl⟩

example : forbiddenOp .add ⟨0, [2, 1]⟩ (.elem (.int 1)) = .error "TypeError: Forbidden operation" := rfl

/-! ## Enumerations declared with aliases -/

/-- **A class body with aliases declares the enumeration of its canonical members.**  For bindings
`name = value` with distinct names, a name bound to an already used value being an alias:
the names table (`_member_names_`) has no repetition, one entry per distinct value; every name,
canonical or alias, denotes a member whose index is within the table and whose value is the value
the name is bound to; and **the index `Enum.__init__` gives a canonical member is its position in
the names table** (so names, members and indices designate the same member, whatever aliases are
declared before it).  A name that is not in the table — an alias — is not a member name:
`encode` refuses it like any unknown name. -/
theorem C15_declaration_with_aliases (cid : Nat) (bs : List (String × Nat))
    (hnd : (bs.map Prod.fst).Nodup) :
    (declared cid bs).names.Nodup ∧ (declare bs).values.Nodup ∧
    (declare bs).values.length = (declared cid bs).size ∧
    (declare bs).members.map Prod.fst = bs.map Prod.fst ∧
    (∀ nm v, (nm, v) ∈ bs → ∃ i, memberOf? bs nm = some i ∧ i < (declared cid bs).size ∧
      (declare bs).values[i]? = some v) ∧
    (∀ k nm, (declared cid bs).names[k]? = some nm → memberOf? bs nm = some k) ∧
    (∀ nm, nm ∉ (declared cid bs).names → ∀ xs, Elem.str nm ∈ xs →
      ∃ m, encode (declared cid bs) (.seq xs) = .error m) := by
  have inv := declInv_declare bs hnd
  have hmnd : ((declare bs).members.map Prod.fst).Nodup := by rw [inv.mnames]; exact hnd
  refine ⟨inv.nnd, inv.vnd, inv.len.symm, inv.mnames, ?_, ?_, ?_⟩
  · intro nm v hmem
    have hnm : nm ∈ (declare bs).members.map Prod.fst := by
      rw [inv.mnames]; exact List.mem_map.mpr ⟨_, hmem, rfl⟩
    obtain ⟨⟨nm', i⟩, hmi, hnm'⟩ := List.mem_map.mp hnm
    simp only at hnm'
    subst hnm'
    obtain ⟨w, hw1, hw2⟩ := inv.val _ i hmi
    have hwv : w = v := nodup_fst_unique hnd hw1 hmem
    subst hwv
    refine ⟨i, ?_, ?_, hw2⟩
    · unfold memberOf?
      rw [find?_fst_of_mem hmnd hmi]; rfl
    · show i < (declare bs).names.length
      rw [inv.len]
      rcases Nat.lt_or_ge i (declare bs).values.length with h | h
      · exact h
      · rw [List.getElem?_eq_none h] at hw2; cases hw2
  · intro k nm hk
    have := inv.canon k nm hk
    unfold memberOf?
    rw [find?_fst_of_mem hmnd this]; rfl
  · intro nm hnm xs hxs
    exact C15_nonmember_raises (declared cid bs) (.seq xs) (fun a h => by cases h) (.str nm) hxs hnm

/-- A = 'x'; B = 'x' (alias of A); C = 'y'; D = 'z'; E = 'y' (alias of C): three members A, C, D with
indices 0, 1, 2; `cls['B']` is A, `cls['E']` is C; the name 'B' is not encoded -/
example : (declare [("A", 7), ("B", 7), ("C", 8), ("D", 9), ("E", 8)]).names = ["A", "C", "D"] ∧
    (declare [("A", 7), ("B", 7), ("C", 8), ("D", 9), ("E", 8)]).members
      = [("A", 0), ("B", 0), ("C", 1), ("D", 2), ("E", 1)] ∧
    memberOf? [("A", 7), ("B", 7), ("C", 8), ("D", 9), ("E", 8)] "E" = some 1 ∧
    encode (declared 0 [("A", 7), ("B", 7), ("C", 8), ("D", 9), ("E", 8)]) (.seq [.str "D", .str "C"]) = .ok ⟨0, [2, 1]⟩ ∧
    encode (declared 0 [("A", 7), ("B", 7), ("C", 8), ("D", 9), ("E", 8)]) (.seq [.str "A", .str "B"])
      = .error "EnumMemberNotFoundError" := by decide

/-- **Round trip for an enumeration declared with aliases**: the canonical members are the
members; every accepted input decodes to the members (names) its elements designate. -/
theorem C15_decode_encode_declared (cid : Nat) (bs : List (String × Nat)) (hnd : (bs.map Prod.fst).Nodup)
    (x : Input) (hwf : x.WF (declared cid bs)) (hown : x.NotForeignArray (declared cid bs))
    (hok : ¬ x.Rejected (declared cid bs)) :
    ∃ a, encode (declared cid bs) x = .ok a ∧ a.owner = cid ∧
      a.idx = x.elems.map (Elem.index (declared cid bs)) ∧ (∀ i ∈ a.idx, i < (declare bs).values.length) ∧
      decode (declared cid bs) a = .ok (x.elems.map fun el => Elem.member cid (el.index (declared cid bs))) ∧
      decodeToStr (declared cid bs) a
        = .ok (x.elems.map fun el => (declare bs).names.getD (el.index (declared cid bs)) "") := by
  obtain ⟨hn, _, hl, _⟩ := C15_declaration_with_aliases cid bs hnd
  obtain ⟨a, h1, h2, h3, h4, h5⟩ := C15_decode_encode (declared cid bs) hn x hwf hown hok
  refine ⟨a, h1, h2, h3, ?_, h4, h5⟩
  intro i hi
  rw [hl]
  exact (C15_encoded_valid (declared cid bs) x a hwf hown h1).2 i hi

end OFCore

/-! axiom audit (⊆ propext, Classical.choice, Quot.sound) -/
#print axioms OFCore.C15_search_eq_lookup
#print axioms OFCore.C15_decode_encode
#print axioms OFCore.C15_decode_encode_names
#print axioms OFCore.C15_decode_encode_indices
#print axioms OFCore.C15_decode_encode_members
#print axioms OFCore.C15_encoded_valid
#print axioms OFCore.C15_encode_idempotent
#print axioms OFCore.C15_error_iff
#print axioms OFCore.C15_nonmember_raises
#print axioms OFCore.C15_mixed_raises
#print axioms OFCore.C15_empty_accepted
#print axioms OFCore.C15_scalar_array_raises
#print axioms OFCore.C15_decode_take
#print axioms OFCore.C15_eq_member
#print axioms OFCore.C15_eq_scalar
#print axioms OFCore.C15_ne_complement
#print axioms OFCore.C15_eq_arrays
#print axioms OFCore.C15_eq_class
#print axioms OFCore.C15_forbidden_ops_raise
#print axioms OFCore.C15_declaration_with_aliases
#print axioms OFCore.C15_decode_encode_declared
