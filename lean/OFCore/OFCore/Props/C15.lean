import OFCore.EnumCodec
namespace OFCore
theorem C15_placeholder : True := trivial
end OFCore
