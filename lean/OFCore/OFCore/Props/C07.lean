import OFCore.Lemmas.ParamView
/-!
# C07 — every way of reading parameters returns the tree's current values

Model: `OFCore/ParamView.lean` (the tree WITH the repairs F-C07, F-C07b, F-C07c; successive
modifiers accumulate, repair C14e). A `World` is the whole process: the systems alive (a plain
`TaxBenefitSystem` and the `Reform`s built on it) and the ONE memo `functools.lru_cache` keeps for
`get_parameters_at_instant`, keyed by `(system, spelling of the instant, date)`. Operations: `readView`,
`readTree`, `readFormula traced?`, `newReform`, `modify f` (any modifier function, which may itself read
any system through any route while it runs: a `ModProg`), `reload` (with its `preprocess_parameters`
hook, the only user code that runs inside `load_parameters`).
Every theorem is for all trees, all histories, all dates, all paths, all key / date vectors, with no
bound on any size; values are an arbitrary type `V`.
-/
namespace OFCore
open OFCore.Param OFCore.PView

variable {V W : Type}

/-! ## The memoised view is the snapshot of the current tree, after every history -/

/-- For EVERY finite sequence of reads, reform creations, modifications and reloads, started in a
    state whose memo is sound (`MemoOK`: every memoised view is the snapshot of the current tree of the
    system it is keyed by — in particular the fresh process), the state reached is sound again and
    `get_parameters_at_instant(d)` on any system returns the snapshot at `d` of that system's CURRENT
    tree — also when the same instant was read before the tree was replaced. (`path = []` is the view
    itself: `navView root [] = ok root`.) -/
theorem C07_view_current (w : World V) (hw : MemoOK w) (ops : List (Op V)) (s form : Nat) (d : Int)
    (path : List String) (hs : s < (run w ops).systems.length) :
    MemoOK (run w ops) ∧
    (step (run w ops) (.readView s form d path)).2
      = .value (navView (snapshot ((run w ops).treeOf s) d) path) [] := by
  have hrun := run_memoOK w hw ops
  refine ⟨hrun, ?_⟩
  obtain ⟨w', v, hv⟩ := viewAt_isSome form d hs
  have := (viewAt_spec hrun hv).1
  simp only [step, doRead, readViewOf, hv, this]

/-- the same from the fresh process -/
theorem C07_view_current_init (ops : List (Op V)) (s form : Nat) (d : Int)
    (hs : s < (run (World.init : World V) ops).systems.length) :
    (step (run World.init ops) (.readView s form d [])).2
      = .value (.ok (snapshot ((run (World.init : World V) ops).treeOf s) d)) [] := by
  have := (C07_view_current World.init init_memoOK ops s form d [] hs).2
  rw [this]
  cases snapshot ((run (World.init : World V) ops).treeOf s) d <;> rfl

/-- read, modify, read the same instant again (the F-C07 scenario): 600 before, 777 after, and the
    baseline still reads 600 -/
example :
    let t : PNode Nat := .node [("basic_income", .param [⟨10, some 600⟩])]
    let w0 : World Nat := ⟨[t], [⟨some 0, none⟩], []⟩
    let f : PNode Nat → Except String (PNode Nat) := fun _ => .ok (.node [("basic_income", .param [⟨20, some 777⟩, ⟨10, some 600⟩])])
    let ops : List (Op Nat) := [.newReform 0, .readView 1 0 25 [], .modify 1 (pureMod f)]
    (step (run w0 ops) (.readView 1 0 25 ["basic_income"])).2 = .value (.ok (some (.val 777))) [] ∧
    (step (run w0 ops) (.readView 0 0 25 ["basic_income"])).2 = .value (.ok (some (.val 600))) [] ∧
    (step (run w0 (ops.take 2)) (.readView 1 0 25 ["basic_income"])).2 = .value (.ok (some (.val 600))) [] := by
  refine ⟨rfl, rfl, rfl⟩

/-! ## All access paths agree -/

/-- In any sound state, for a system whose tree is a node with distinct child names (a Python
    `dict`), the at-instant view, a formula's `parameters(…)` argument without tracing and with
    tracing all return the SAME result `r` — the navigation of the snapshot at `d` of the current
    tree — whatever the spelling of the instant; and the parameter object itself
    (`parameters.<path>(d)`) agrees with it: it yields a value `x` exactly when they yield `x`, and
    when it yields `None` (undefined at `d`) or the path does not exist, they raise. -/
theorem C07_all_paths_agree (w : World V) (hw : MemoOK w) (s : Nat) (hs : s < w.systems.length)
    (cs : List (String × PNode V)) (ht : w.treeOf s = some (.node cs)) (hwf : treeWF (.node cs) = true)
    (f1 f2 f3 : Nat) (d : Int) (path : List String) :
    ∃ r log,
      r = navView ((PNode.node cs).atInstant d) path ∧
      (step w (.readView s f1 d path)).2 = .value r [] ∧
      (step w (.readFormula s false f2 d path)).2 = .value r [] ∧
      (step w (.readFormula s true f3 d path)).2 = .value r log ∧
      (step w (.readTree s path d)).2 = .value (readTreeAt (.node cs) path d) [] ∧
      (∀ x, readTreeAt (.node cs) path d = .ok (some x) ↔ r = .ok (some x)) ∧
      ((readTreeAt (.node cs) path d = .ok none ∨ ∃ e, readTreeAt (.node cs) path d = .error e) →
        ∃ e, r = .error e) := by
  have hsnap : snapshot (w.treeOf s) d = (PNode.node cs).atInstant d := by rw [ht]; rfl
  obtain ⟨w1, v1, hv1⟩ := viewAt_isSome f1 d hs
  obtain ⟨w2, v2, hv2⟩ := viewAt_isSome f2 d hs
  obtain ⟨w3, v3, hv3⟩ := viewAt_isSome f3 d hs
  have e1 := (viewAt_spec hw hv1).1
  have e2 := (viewAt_spec hw hv2).1
  have e3 := (viewAt_spec hw hv3).1
  rw [hsnap] at e1 e2 e3
  obtain ⟨ht1, extra, ht2, _⟩ := navTraced_spec d ((PNode.node cs).atInstant d) path []
  refine ⟨navView ((PNode.node cs).atInstant d) path, (navTraced d ((PNode.node cs).atInstant d) path []).2,
    rfl, ?_, ?_, ?_, ?_, ?_⟩
  · simp only [step, doRead, readViewOf, hv1, e1]
  · simp only [step, doRead, hv2, e2, Bool.false_eq_true, if_false]
  · simp only [step, doRead, hv3, e3, if_true]
    rw [← ht1]
  · simp only [step, doRead, List.getElem?_eq_getElem hs, ht]
  · have hat : (PNode.node cs).atInstant d = some (.node (childrenAt cs d)) := by simp [PNode.atInstant]
    obtain ⟨h1, h2⟩ := descend_agree (.node cs) hwf d _ hat path
    rw [hat]
    simp only [navView]
    constructor
    · intro x
      rw [h1 x]
      cases sdescend (Snap.node (childrenAt cs d)) path with
      | ok y => simp
      | error e => simp
    · intro h
      obtain ⟨e, he⟩ := h2 h
      rw [he]; exact ⟨e, rfl⟩

example : treeWF (PNode.node [("a", .param [(⟨10, some 1⟩ : Entry Nat)]), ("g", .node [("z1", .param [⟨12, none⟩, ⟨5, some 2⟩])])]) = true := by
  decide
example :
    let t : PNode Nat := .node [("a", .param [⟨10, some 1⟩]), ("g", .node [("z1", .param [⟨12, none⟩, ⟨5, some 2⟩])])]
    readTreeAt t ["g", "z1"] 11 = .ok (some (.val 2)) ∧ navView (t.atInstant 11) ["g", "z1"] = .ok (some (.val 2)) ∧
    readTreeAt t ["g", "z1"] 12 = .ok none ∧ navView (t.atInstant 12) ["g", "z1"] = .error "ParameterNotFoundError" := by
  refine ⟨rfl, rfl, rfl, rfl⟩

/-! ## The tracing wrapper -/

/-- `TracingParameterNodeAtInstant` forwards every read unchanged and only appends to the tracer's
    log: at most one entry, dated with the view's instant, carrying the value of the leaf reached. -/
theorem C07_traced_same (d : Int) (name : String) (s : Snap V) (path : List String) (log : List (LogEntry V)) :
    (tracedDescend d name s path log).1 = sdescend s path ∧
    ∃ extra, (tracedDescend d name s path log).2 = log ++ extra ∧ extra.length ≤ 1 ∧
      ∀ e ∈ extra, e.date = d ∧ ∃ pre post, path = pre ++ post ∧ sdescend s pre = .ok (.val e.value) :=
  tracedDescend_spec d name s path log

/-- the same for what a formula receives (`None` when the system has no parameters) -/
theorem C07_traced_same_formula (d : Int) (root : Option (Snap V)) (path : List String) (log : List (LogEntry V)) :
    (navTraced d root path log).1 = navView root path ∧
    ∃ extra, (navTraced d root path log).2 = log ++ extra ∧ extra.length ≤ 1 :=
  navTraced_spec d root path log

/-- and for what follows a vector index (`P[keys].name`, `P[keys][keys']`): the wrapper around a
    vectorial node returns what the bare vectorial node returns and appends at most one entry -/
theorem C07_traced_same_vector (cls : Bool) (d : Int) (name : String) (rows : List (VRow W)) (steps : List VStep)
    (log : List (LogEntry (List (VRow W)))) :
    (tracedVec cls d name rows steps log).1 = vsteps cls rows steps ∧
    ∃ extra, (tracedVec cls d name rows steps log).2 = log ++ extra ∧ extra.length ≤ 1 := by
  induction steps generalizing rows with
  | nil =>
    unfold tracedVec
    by_cases hl : leafRows rows = true
    · rw [if_pos hl]; exact ⟨rfl, [_], rfl, by simp⟩
    · rw [if_neg hl]; exact ⟨rfl, [], by simp, by simp⟩
  | cons st r ih =>
    unfold tracedVec
    by_cases hl : leafRows rows = true
    · rw [if_pos hl]; exact ⟨rfl, [_], rfl, by simp⟩
    · rw [if_neg hl]
      simp only [vsteps]
      cases hv : vstep cls rows st with
      | ok rows' => exact ih rows'
      | error e => exact ⟨rfl, [], by simp, by simp⟩

example : tracedDescend 7 "" (Snap.node [("g", .node [("a", .val (5 : Nat))])]) ["g", "a"] []
    = (.ok (.val 5), [⟨"g.a", 7, 5⟩]) := by rfl

/-! ## Vector indexing by keys -/

/-- `node_at_instant[keys]` (keys already stringified, `KeyVec.strs`), for every key vector of any
    length: the result has one row per key and row `i` is the (vectorised) value of the child named
    `keys[i]`; it raises iff the node is not homogeneous as `check_node_vectorisable` defines it
    (`homog`), or the vector is empty, or some key is not a child. -/
theorem C07_fancy_pointwise (num : V → Option W) (cs : List (String × Snap V)) (ks : List String) :
    (∀ rows, fancy num (.node cs) ks = .ok rows →
      rows.length = ks.length ∧
      ∀ i (hi : i < ks.length), ∃ c x, assoc ks[i] cs = some c ∧ vectorise plainLt num c = .ok x ∧ rows[i]? = some x) ∧
    ((∃ e, fancy num (.node cs) ks = .error e) ↔
      homog num (cs.map (·.2)) ≠ .ok () ∨ ks = [] ∨ ∃ k ∈ ks, assoc k cs = none) :=
  fancy_spec num cs ks

/-- for a group of plain parameters: element `i` is the float value of child `keys[i]` -/
theorem C07_fancy_pointwise_leaf (num : V → Option W) (cs : List (String × Snap V)) (ks : List String)
    (rows : List (VRow W)) (h : fancy num (.node cs) ks = .ok rows) (i : Nat) (hi : i < ks.length) (v : V)
    (hc : assoc ks[i] cs = some (.val v)) : ∃ w, num v = some w ∧ rows[i]? = some (.leaf w) := by
  obtain ⟨c, x, hc', hx, hr⟩ := ((C07_fancy_pointwise num cs ks).1 rows h).2 i hi
  rw [hc] at hc'
  cases hc'
  simp only [vectorise] at hx
  cases hn : num v with
  | none => rw [hn] at hx; cases hx
  | some w => rw [hn] at hx; cases hx; exact ⟨w, rfl, hr⟩

/-- F-C07b: a sub-node reached by NAME after a vector index (`P[keys].name`, `P[keys]["name"]`) is,
    row by row, the (vectorised) grand-child `keys[i].name`. -/
theorem C07_fancy_subnode (num : V → Option W) (cs : List (String × Snap V)) (ks : List String) (f : String)
    (rows rows' : List (VRow W)) (h : fancy num (.node cs) ks = .ok rows) (h' : vfield rows f = .ok rows') :
    rows'.length = ks.length ∧
    ∀ i (hi : i < ks.length), ∃ cs' c' x, assoc ks[i] cs = some (.node cs') ∧ assoc f cs' = some c' ∧
      vectorise plainLt num c' = .ok x ∧ rows'[i]? = some x :=
  fancy_field_spec num cs ks f rows rows' h h'

/-- the stringification of `Enum` members / `EnumArray` codes / integers keeps one key per element,
    the member's name for a valid member index, the decimal text for an integer -/
theorem C07_keys_stringified (ns : List String) (is : List Nat) (js : List Int) :
    (KeyVec.members ns is).strs.length = is.length ∧ (KeyVec.codes ns is).strs.length = is.length ∧
    (KeyVec.ints js).strs.length = js.length ∧
    (∀ i (hi : i < is.length) (hn : is[i] < ns.length),
      (KeyVec.members ns is).strs[i]? = some ns[is[i]] ∧ (KeyVec.codes ns is).strs[i]? = some ns[is[i]]) ∧
    (∀ i (hi : i < js.length), (KeyVec.ints js).strs[i]? = some (toString js[i])) := by
  refine ⟨by simp [KeyVec.strs], by simp [KeyVec.strs], by simp [KeyVec.strs], ?_, ?_⟩
  · intro i hi hn
    simp only [KeyVec.strs, List.getElem?_map, List.getElem?_eq_getElem hi, Option.map_some, List.getD_eq_getElem?_getD,
      List.getElem?_eq_getElem hn, Option.getD_some, and_self]
  · intro i hi
    simp only [KeyVec.strs, List.getElem?_map, List.getElem?_eq_getElem hi, Option.map_some]

example : shownRows (fancy (W := Nat) some (Snap.node [("z2", .node [("tenant", .val 4), ("owner", .val 3)]),
      ("z1", .node [("owner", .val 1), ("tenant", .val 2)])]) ["z1", "z2", "z1"])
    = some [[1, 2], [3, 4], [1, 2]] := by decide +kernel
example : shownRows ((fancy (W := Nat) some (Snap.node [("z2", .node [("tenant", .val 4), ("owner", .val 3)]),
      ("z1", .node [("owner", .val 1), ("tenant", .val 2)])]) ["z1", "z2", "z1"]).bind (vfield · "owner"))
    = some [[1], [3], [1]] := by decide +kernel
example : (homog (W := Nat) some [Snap.node [("tenant", .val 4), ("owner", .val 3)], .node [("owner", .val 1), ("tenant", .val 2)]]).isOk = true := by
  decide +kernel
example : shownRows (fancy (W := Nat) some (Snap.node [("z1", .val 1), ("z2", .node [("a", .val 2)])]) ["z1"]) = none := by
  decide +kernel
example : shownRows (fancy (W := Nat) some (Snap.node [("z1", .val 1), ("z2", .val 2)]) ["z1", "zz"]) = none := by
  decide +kernel

/-! ## As-of-date indexing -/

/-- F-C07c: `node_at_instant[dates]` for a homogeneous group whose child names are in the claim
    domain `AsofWF` (one `before…` child, `after_YYYY_MM_DD` children with distinct dates): one element
    per date, and element `i` is the (vectorised) value of the child IN FORCE at `dates[i]` — the
    `before…` child when the date precedes every `after_` date, else the `after_` child with the
    greatest date not after it. `cs` is the children in ANY declaration order: the statement does
    not mention the order. -/
theorem C07_asof_pointwise (num : V → Option W) (cs : List (String × Snap V)) (dates : List Int)
    (hwf : AsofWF (cs.map (·.1))) (hh : homog num (cs.map (·.2)) = .ok ()) :
    ∃ out, asof num (.node cs) dates = .ok out ∧ out.length = dates.length ∧
      ∀ i (hi : i < dates.length), ∃ k c x, (k, c) ∈ cs ∧ vectorise asofLt num c = .ok x ∧
        out[i]? = some x ∧ InForce (cs.map (·.1)) dates[i] k :=
  asof_spec num cs dates hwf hh

/-- the declaration order of the finding: `after_1990, before_1980, after_1980` gives `[1,2,2,3,3]` -/
example : shownRows (asof (W := Nat) some (Snap.node [("after_1990_01_01", .val 3), ("before_1980_01_01", .val 1), ("after_1980_01_01", .val 2)])
      [722814, 722815, 726467, 726468, 737550])
    = some [[1], [2], [2], [3], [3]] := by decide +kernel
example : AsofWF ["after_1990_01_01", "before_1980_01_01", "after_1980_01_01"] := by decide +kernel

/-- Chained as-of-date indexing, `P[dates₁][dates₂]` on nested `before…/after_…` groups (the F-C07d repair:
    `values[conditions, rows]`). `rows` is what the first index returned (two rows or more; one row is
    `C07_asof_pointwise`), `ds` the second date vector, of the same length: the result has one element per
    date, and element `i` is read in ROW `i`, at date `ds[i]` (`asofOne`: the field number `#{after_ dates ≤
    ds[i]}` of that row) — not in the first row. -/
theorem C07_asof_chained_pointwise (r0 r1 : VRow W) (rest : List (VRow W)) (ds : List Int)
    (hleaf : leafRows (r0 :: r1 :: rest) = false) (hlen : (r0 :: r1 :: rest).length = ds.length)
    (out : List (VRow W)) (h : vstep true (r0 :: r1 :: rest) (.dates ds) = .ok out) :
    out.length = ds.length ∧
    ∀ i (hi : i < ds.length) (hi' : i < (r0 :: r1 :: rest).length),
      ∃ x, out[i]? = some x ∧ asofOne (r0 :: r1 :: rest)[i] ds[i] = .ok x := by
  simp only [vstep, hleaf, Bool.false_eq_true, if_false, if_true, asofRows, broadcast, hlen] at h
  obtain ⟨h1, h2⟩ := asofPairs_spec _ out h
  have hzl : ((r0 :: r1 :: rest).zip ds).length = ds.length := by
    rw [List.length_zip, hlen]; exact Nat.min_self _
  refine ⟨by rw [h1, hzl], fun i hi hi' => ?_⟩
  obtain ⟨x, hx1, hx2⟩ := h2 i (by rw [hzl]; exact hi)
  refine ⟨x, hx1, ?_⟩
  simpa [List.getElem_zip] using hx2

/-- … and what is read in a row is the child in force: when row `i` is the record of a group `cs'` in the
    claim domain (`AsofWF` names, homogeneous), `asofOne` at `t` gives the vectorised value of the child of
    `cs'` in force at `t`. Together with `C07_asof_pointwise` for the first index: element `i` of
    `P[dates₁][dates₂]` is the grand-child in force at `dates₂[i]` of the child in force at `dates₁[i]`. -/
theorem C07_asof_chained_in_force (num : V → Option W) (cs' : List (String × Snap V)) (t : Int)
    (hwf : AsofWF (cs'.map (·.1))) (hh : homog num (cs'.map (·.2)) = .ok ())
    (row x : VRow W) (hrow : vectorise asofLt num (.node cs') = .ok row) (hx : asofOne row t = .ok x) :
    ∃ k c, (k, c) ∈ cs' ∧ vectorise asofLt num c = .ok x ∧ InForce (cs'.map (·.1)) t k := by
  obtain ⟨out, ho, _, hspec⟩ := asof_spec num cs' [t] hwf hh
  obtain ⟨k, c, x', hmem, hvx, hox, hin⟩ := hspec 0 (by simp)
  simp only [asof, buildVec, hh, hrow] at ho
  obtain ⟨y, hy, hone⟩ := asofIndex_single row t out ho
  rw [hx] at hone
  cases hone
  rw [hy] at hox
  simp only [List.getElem?_cons_zero, Option.some.injEq] at hox
  subst hox
  exact ⟨k, c, hmem, hvx, by simpa using hin⟩

/-- born before / after 1980, date of the claim before / after 2000: row by row (before the repair the
    code answered `[1, 1, 2]`: the first row for every element) -/
example :
    let node : Snap Nat := .node [("before_1980_01_01", .node [("before_2000_01_01", .val 1), ("after_2000_01_01", .val 2)]),
                                  ("after_1980_01_01", .node [("before_2000_01_01", .val 3), ("after_2000_01_01", .val 4)])]
    shownRows ((asof (W := Nat) some node [719163, 726468, 726468]).bind (vstep true · (.dates [729755, 729755, 731947])))
      = some [[1], [3], [4]] := by
  decide +kernel

/-! ## Reads made WHILE a modification is under way -/

/-- all the routes of one system read the tree `t` -/
def AllRoutesRead (w : World V) (s : Nat) (t : PNode V) : Prop :=
  ∀ (form : Nat) (d : Int) (path : List String),
    (step w (.readView s form d path)).2 = .value (navView (t.atInstant d) path) [] ∧
    (step w (.readFormula s false form d path)).2 = .value (navView (t.atInstant d) path) [] ∧
    (∃ log, (step w (.readFormula s true form d path)).2 = .value (navView (t.atInstant d) path) log) ∧
    (step w (.readTree s path d)).2 = .value (readTreeAt t path d) []

theorem allRoutesRead_of (w : World V) (hw : MemoOK w) (s : Nat) (hs : s < w.systems.length) (t : PNode V)
    (ht : w.treeOf s = some t) : AllRoutesRead w s t := by
  intro form d path
  have hsnap : snapshot (w.treeOf s) d = t.atInstant d := by rw [ht]; rfl
  obtain ⟨w1, v1, hv1⟩ := viewAt_isSome form d hs
  have e1 := (viewAt_spec hw hv1).1
  rw [hsnap] at e1
  obtain ⟨ht1, extra, ht2, _⟩ := navTraced_spec d (t.atInstant d) path []
  refine ⟨?_, ?_, ⟨(navTraced d (t.atInstant d) path []).2, ?_⟩, ?_⟩
  · simp only [step, doRead, readViewOf, hv1, e1]
  · simp only [step, doRead, hv1, e1, Bool.false_eq_true, if_false]
  · simp only [step, doRead, hv1, e1, if_true]
    rw [← ht1]
  · simp only [step, doRead, List.getElem?_eq_getElem hs, ht]

/-- `modify_parameters` is three sub-steps in the code's order — copy the reform's tree, run the
    modifier (which may read ANY system through ANY route and spelling, any number of times, each read
    depending on the earlier ones: `f t` is an arbitrary `ModProg`), install the result and only then
    empty the memo. Whatever the modifier read on the way, once the modification completes the memo
    is empty, the state is sound, and every route of the reform — view in every spelling, formula,
    traced formula, parameter object — reads the NEW tree, at every date and path. -/
theorem C07_modify_nested_reads (w : World V) (hw : RefsOK w) (s b : Nat) (r : SysRec) (t t' : PNode V)
    (hr : w.systems[s]? = some r) (hb : r.baseline = some b) (ht : w.treeOf s = some t)
    (f : PNode V → ModProg V) (w1 : World V) (hrun : runProg w (f t) = (w1, .ok t'))
    (hn : isNode t' = true) :
    (step w (.modify s f)).2 = .done ∧
    (step w (.modify s f)).1.memo = [] ∧ MemoOK (step w (.modify s f)).1 ∧
    (step w (.modify s f)).1.treeOf s = some t' ∧
    AllRoutesRead (step w (.modify s f)).1 s t' := by
  have hs := lt_of_get hr
  have hfr := runProg_frame w (f t)
  rw [hrun] at hfr
  simp only at hfr
  have hstep : step w (.modify s f) = (install w1 s t', .done) := by
    simp only [step, hr, hb, ht, hrun, hn, if_true]
  rw [hstep]
  have hs1 : s < w1.systems.length := by rw [hfr.1]; exact hs
  have htree := treeOf_install_eq w1 s t' hs1
  have hok := memoOK_install w1 (refsOK_congr hfr.1 hfr.2 hw) s t'
  refine ⟨rfl, rfl, hok, htree, ?_⟩
  exact allRoutesRead_of _ hok s (by rw [length_install]; exact hs1) t' htree

/-- The same for `load_parameters`. No user code runs inside it except the system's
    `preprocess_parameters` hook (a plain caller cannot interleave a read with it); that hook runs on the
    freshly built tree BEFORE it is installed, and the memo is emptied after the installation: whatever
    the hook read, every route reads the new tree afterwards. -/
theorem C07_reload_nested_reads (w : World V) (hw : RefsOK w) (s : Nat) (hs : s < w.systems.length)
    (cs : List (String × PNode V)) (hook : PNode V → ModProg V) (w1 : World V) (t' : PNode V)
    (hrun : runProg w (hook (.node cs)) = (w1, .ok t')) :
    (step w (.reload s cs hook)).1.memo = [] ∧ MemoOK (step w (.reload s cs hook)).1 ∧
    (step w (.reload s cs hook)).1.treeOf s = some t' ∧
    AllRoutesRead (step w (.reload s cs hook)).1 s t' := by
  have hfr := runProg_frame w (hook (.node cs))
  rw [hrun] at hfr
  simp only at hfr
  have hstep : step w (.reload s cs hook) = (install w1 s t', .done) := by
    simp only [step, List.getElem?_eq_getElem hs, hrun]
  rw [hstep]
  have hs1 : s < w1.systems.length := by rw [hfr.1]; exact hs
  have htree := treeOf_install_eq w1 s t' hs1
  have hok := memoOK_install w1 (refsOK_congr hfr.1 hfr.2 hw) s t'
  refine ⟨rfl, hok, htree, ?_⟩
  exact allRoutesRead_of _ hok s (by rw [length_install]; exact hs1) t' htree

/-- While the modifier runs, every system — the reform included — still has the tree it had at entry,
    and that is what the modifier's reads return: after any number of nested reads the state is still
    sound, the trees are unchanged, and a view read returns the snapshot of the tree in place. -/
theorem C07_nested_read_sees_former_tree (w : World V) (hw : MemoOK w) (p : ModProg V)
    (s form : Nat) (d : Int) (path : List String) (hs : s < w.systems.length) :
    MemoOK (runProg w p).1 ∧ (runProg w p).1.systems = w.systems ∧
    (doRead (runProg w p).1 (.view s form d path)).2 = .value (navView (snapshot (w.treeOf s) d) path) [] := by
  obtain ⟨h1, h2⟩ := runProg_spec w hw p
  refine ⟨h1, h2, ?_⟩
  obtain ⟨w', v, hv⟩ := viewAt_isSome (w := (runProg w p).1) form d (by rw [h2]; exact hs)
  have := (viewAt_spec h1 hv).1
  rw [treeOf_congr h2 (runProg_frame w p).2] at this
  simp only [doRead, readViewOf, hv, this]

/-- A modifier that looks up the value in force through the reform's own view, then raises it: 7
    while it runs, 70 through every route once it is done — and the order of the sub-steps matters:
    emptying the memo BEFORE running the modifier (`stepClearFirst`) leaves the view read by the
    modifier in the memo, and the same read gives the stale 7 after the modification. -/
example :
    let w0 : World Nat := ⟨[.node [("x", .param [⟨10, some 7⟩])]], [⟨some 0, none⟩, ⟨some 0, some 0⟩], []⟩
    let f : PNode Nat → ModProg Nat := fun _ =>
      .read (.view 1 0 12 ["x"]) (fun _ => .ret (.ok (.node [("x", .param [⟨10, some 70⟩])])))
    (step (step w0 (.modify 1 f)).1 (.readView 1 0 12 ["x"])).2 = .value (.ok (some (.val 70))) [] ∧
    (step (step w0 (.modify 1 f)).1 (.readFormula 1 true 0 12 ["x"])).2
      = .value (.ok (some (.val 70))) [⟨".x", 12, 70⟩] ∧
    (step (step w0 (.modify 1 f)).1 (.readTree 1 ["x"] 12)).2 = .value (.ok (some (.val 70))) [] ∧
    (step (stepClearFirst w0 1 f) (.readView 1 0 12 ["x"])).2 = .value (.ok (some (.val 7))) [] ∧
    (step (stepClearFirst w0 1 f) (.readTree 1 ["x"] 12)).2 = .value (.ok (some (.val 70))) [] :=
  ⟨rfl, rfl, rfl, rfl, rfl⟩

/-! ## `load_extension`: a tree object changed in place; the root baseline's view -/

/-- `ParameterNode.merge` completes exactly when no merged name is already present (nor repeated), and
    then the children are the former ones followed by the merged ones; when it stops, what it added
    before stays. -/
theorem C07_merge_spec (cs ext : List (String × PNode V)) :
    ((∀ p ∈ ext, assoc p.1 cs = none) → (ext.map (·.1)).Nodup → mergeInto cs ext = (cs ++ ext, true)) ∧
    (∃ pre, (mergeInto cs ext).1 = cs ++ pre ∧ pre <+: ext) := by
  induction ext generalizing cs with
  | nil => exact ⟨fun _ _ => by simp [mergeInto], [], by simp [mergeInto], List.prefix_refl _⟩
  | cons p r ih =>
    obtain ⟨k, c⟩ := p
    constructor
    · intro hfree hnd
      have hk : assoc k cs = none := hfree (k, c) (List.mem_cons_self ..)
      simp only [List.map_cons, List.nodup_cons] at hnd
      simp only [mergeInto, hk, Option.isSome_none, Bool.false_eq_true, if_false]
      rw [(ih (cs ++ [(k, c)])).1 ?_ hnd.2]
      · simp
      · intro q hq
        rw [assoc_append_single, hfree q (List.mem_cons_of_mem _ hq)]
        simp only
        rw [if_neg]
        intro hkq
        exact hnd.1 (List.mem_map.mpr ⟨q, hq, hkq.symm⟩)
    · simp only [mergeInto]
      by_cases hk : (assoc k cs).isSome = true
      · rw [if_pos hk]; exact ⟨[], by simp, List.nil_prefix⟩
      · rw [if_neg hk]
        obtain ⟨pre, h1, h2⟩ := (ih (cs ++ [(k, c)])).2
        exact ⟨(k, c) :: pre, by rw [h1]; simp, by simpa using h2⟩

/-- `load_extension` merges into the tree OBJECT, after emptying the memo: whatever the outcome of the
    merge — completed, or stopped half-way by a name conflict, which has already changed the object —
    the state is sound afterwards, so every route of EVERY system (the systems that share the object
    included) reads that system's current tree. -/
theorem C07_extend_reads_current (w : World V) (hw : MemoOK w) (s : Nat) (ext : List (String × PNode V)) :
    MemoOK (step w (.extend s ext)).1 ∧
    (s < w.systems.length → (step w (.extend s ext)).1.memo = []) ∧
    ∀ s' t, s' < (step w (.extend s ext)).1.systems.length → (step w (.extend s ext)).1.treeOf s' = some t →
      AllRoutesRead (step w (.extend s ext)).1 s' t := by
  have hok := step_memoOK w hw (.extend s ext)
  refine ⟨hok, ?_, fun s' t hs' ht => allRoutesRead_of _ hok s' hs' t ht⟩
  intro hs
  simp only [step, List.getElem?_eq_getElem hs]
  cases w.systems[s].tree with
  | none => rfl
  | some i =>
    simp only
    cases (if isReform w.systems[s] = true then ownCopy w s i else (w, i)) with
    | mk w1 j =>
      simp only
      cases w1.heap[j]? with
      | none => rfl
      | some t =>
        cases t with
        | param l => rfl
        | scale m bs => rfl
        | node cs => rfl

/-- An extension loaded on a reform (any system with a baseline) never changes the tree of ANY other
    system: the reform is given a copy of its own before the merge (repairs C14f/C14g), whatever systems
    it shared its tree with — its baseline, the baselines above, other reforms of them. Only an extension
    loaded on a root system changes an object other systems may refer to. -/
theorem C07_extend_spares_others (w : World V) (hw : RefsOK w) (s b s' : Nat) (r : SysRec)
    (hr : w.systems[s]? = some r) (hb : r.baseline = some b) (hne : s' ≠ s) (hs' : s' < w.systems.length)
    (ext : List (String × PNode V)) :
    (step w (.extend s ext)).1.treeOf s' = w.treeOf s' := by
  apply step_treeOf_other w hw _ s' hs'
  simp only [Op.spares, Bool.and_eq_true, bne_iff_ne, ne_eq]
  refine ⟨fun c => hne c.symm, ?_⟩
  rw [hr, List.getElem?_eq_getElem hs']
  simp [isReform, hb]

/-- A reform that has not replaced its tree refers to its baseline's object: an extension loaded on the
    ROOT system 0 after the views were read shows through every route of all three (reforms 1 and 2
    follow); an extension loaded on a REFORM (system 1, or system 2 stacked on it) goes to a copy of its
    own — nobody else changes. A conflicting extension (`x` exists) stops, having added `a` — and the
    views still follow the tree. -/
example :
    let w0 : World Nat := ⟨[.node [("x", .param [⟨10, some 7⟩])]], [⟨some 0, none⟩, ⟨some 0, some 0⟩, ⟨some 0, some 1⟩], []⟩
    let ext : List (String × PNode Nat) := [("a", .param [⟨10, some 1⟩]), ("x", .param [⟨10, some 2⟩]), ("b", .param [⟨10, some 3⟩])]
    let reads : List (Op Nat) := [.readView 0 0 12 [], .readView 1 0 12 [], .readView 2 0 12 []]
    (step (run w0 (reads ++ [.extend 0 ext])) (.readView 1 0 12 ["a"])).2 = .value (.ok (some (.val 1))) [] ∧
    (step (run w0 (reads ++ [.extend 0 ext])) (.readView 0 0 12 ["a"])).2 = .value (.ok (some (.val 1))) [] ∧
    (step (run w0 (reads ++ [.extend 0 ext])) (.readView 0 0 12 ["x"])).2 = .value (.ok (some (.val 7))) [] ∧
    (step (run w0 (reads ++ [.extend 0 ext])) (.readView 0 0 12 ["b"])).2 = .value (.error "ParameterNotFoundError") [] ∧
    (step (run w0 (reads ++ [.extend 1 ext])) (.readView 1 0 12 ["a"])).2 = .value (.ok (some (.val 1))) [] ∧
    (step (run w0 (reads ++ [.extend 1 ext])) (.readView 0 0 12 ["a"])).2 = .value (.error "ParameterNotFoundError") [] ∧
    (step (run w0 (reads ++ [.extend 1 ext])) (.readView 2 0 12 ["a"])).2 = .value (.error "ParameterNotFoundError") [] ∧
    (step (run w0 (reads ++ [.extend 1 ext])) (.readTree 0 ["a"] 12)).2 = .value (.error "AttributeError") [] ∧
    (step (run w0 (reads ++ [.extend 1 ext, .extend 2 ext])) (.readView 2 0 12 ["a"])).2 = .value (.ok (some (.val 1))) [] ∧
    (step (run w0 (reads ++ [.extend 1 ext, .extend 2 ext])) (.readView 0 0 12 ["a"])).2 = .value (.error "ParameterNotFoundError") [] ∧
    (step (run w0 (reads ++ [.extend 0 ext])) (.readView 2 0 12 ["a"])).2 = .value (.ok (some (.val 1))) [] :=
  ⟨rfl, rfl, rfl, rfl, rfl, rfl, rfl, rfl, rfl, rfl, rfl⟩

/-- `_get_baseline_parameters_at_instant` is the view of the root of the chain of baselines: it reads
    that system's current tree. -/
theorem C07_base_view (w : World V) (hw : MemoOK w) (s form : Nat) (d : Int) (path : List String)
    (hroot : rootOf w.systems w.systems.length s < w.systems.length) :
    (step w (.read (.baseView s form d path))).2
      = .value (navView (snapshot (w.treeOf (rootOf w.systems w.systems.length s)) d) path) [] := by
  obtain ⟨w', v, hv⟩ := viewAt_isSome form d hroot
  have := (viewAt_spec hw hv).1
  simp only [step, doRead, readViewOf, hv, this]

example : rootOf [⟨some 0, none⟩, ⟨some 0, some 0⟩, ⟨some 1, some 1⟩] 3 2 = 0 := by decide

/-! ## `TaxBenefitSystem.clone()` -/

/-- `system.clone()` makes a new system whose tree is a copy (`parameters.clone()`, a new object) and for which
    nothing is memoised (the memo is keyed by the system object): the state stays sound, the clone reads through
    every route the tree the original had when it was cloned, and every existing system keeps its tree. What is
    done to the clone afterwards never targets the original (`C07_reform_isolated` applies: `cloneSys` spares
    everybody). -/
theorem C07_clone_system (w : World V) (hw : MemoOK w) (s : Nat) (r : SysRec) (t : PNode V)
    (hr : w.systems[s]? = some r) (ht : w.treeOf s = some t) :
    (step w (.cloneSys s)).2 = .created w.systems.length ∧
    MemoOK (step w (.cloneSys s)).1 ∧
    (step w (.cloneSys s)).1.treeOf w.systems.length = some t ∧
    AllRoutesRead (step w (.cloneSys s)).1 w.systems.length t ∧
    (∀ s', s' < w.systems.length → (step w (.cloneSys s)).1.treeOf s' = w.treeOf s') := by
  have hok := step_memoOK w hw (.cloneSys s)
  have hstep : step w (.cloneSys s) =
      ({ w with heap := w.heap ++ [t], systems := w.systems ++ [⟨some w.heap.length, r.baseline⟩] },
        .created w.systems.length) := by
    simp only [step, hr, ht]
  rw [hstep] at hok ⊢
  have hnew := treeOf_append_new w t r.baseline
  refine ⟨rfl, hok, hnew, ?_, fun s' hs' => treeOf_append_both w hw.1 t _ hs'⟩
  exact allRoutesRead_of _ hok _ (by simp) t hnew

/-- clone the baseline after its view was read, reload the ORIGINAL: the clone still reads 7, the original 70 -/
example :
    let w0 : World Nat := ⟨[.node [("x", .param [⟨10, some 7⟩])]], [⟨some 0, none⟩], []⟩
    let ops : List (Op Nat) := [.readView 0 0 12 [], .cloneSys 0, .reload 0 [("x", .param [⟨10, some 70⟩])] noHook]
    (step (run w0 ops) (.readView 1 0 12 ["x"])).2 = .value (.ok (some (.val 7))) [] ∧
    (step (run w0 ops) (.readView 0 0 12 ["x"])).2 = .value (.ok (some (.val 70))) [] := ⟨rfl, rfl⟩

/-! ## A reform's modifications leave every other system alone -/

/-- Whatever is done through reforms — creating them, running any modifier functions on them,
    reloading them, reading anything anywhere — as long as no operation of the history replaces the
    tree of system `b` itself, nor merges an extension into the object `b` refers to (`Spared`: an
    extension loaded on a reform always goes to a copy and never reaches anybody else —
    `C07_extend_spares_others`; one loaded on `b` itself, or on a root system whose object `b` still
    refers to, is excluded), `b` keeps its tree and every read of `b` after the history returns what the
    same read returns before it. -/
theorem C07_reform_isolated (w : World V) (hw : MemoOK w) (ops : List (Op V)) (b : Nat)
    (hb : b < w.systems.length) (hops : Spared b w ops)
    (form form' : Nat) (d : Int) (path : List String) :
    (run w ops).treeOf b = w.treeOf b ∧
    (step (run w ops) (.readView b form d path)).2 = (step w (.readView b form' d path)).2 ∧
    (step (run w ops) (.readTree b path d)).2 = (step w (.readTree b path d)).2 ∧
    (∀ traced, (step (run w ops) (.readFormula b traced form d path)).2
        = (step w (.readFormula b traced form' d path)).2) := by
  obtain ⟨htree, hlen⟩ := run_treeOf_other w hw ops b hb hops
  have hrun := run_memoOK w hw ops
  refine ⟨htree, ?_, ?_, ?_⟩
  · rw [(C07_view_current w hw ops b form d path hlen).2, htree]
    have := (C07_view_current w hw [] b form' d path hb).2
    simp only [run] at this
    rw [this]
  · have key : ∀ w' : World V, w'.treeOf b = w.treeOf b → b < w'.systems.length →
        (step w' (.readTree b path d)).2 = (step w (.readTree b path d)).2 := by
      intro w' h1 h2
      simp only [step, doRead, List.getElem?_eq_getElem h2, List.getElem?_eq_getElem hb, h1]
      cases w.treeOf b <;> rfl
    exact key _ htree hlen
  · intro traced
    obtain ⟨w1, v1, hv1⟩ := viewAt_isSome form d hlen
    obtain ⟨w2, v2, hv2⟩ := viewAt_isSome form' d hb
    have e1 := (viewAt_spec hrun hv1).1
    have e2 := (viewAt_spec hw hv2).1
    rw [htree] at e1
    simp only [step, doRead, hv1, hv2, e1, e2]
    cases traced <;> simp

/-- a history that spares the baseline although it loads extensions: on its reform (a copy first), then
    again on the reform (in place, on the reform's own object) and on a reform stacked on it -/
example :
    let w0 : World Nat := ⟨[.node [("x", .param [⟨10, some 7⟩])]], [⟨some 0, none⟩], []⟩
    let ext : List (String × PNode Nat) := [("a", .param [⟨10, some 1⟩])]
    Spared 0 w0 [.newReform 0, .readView 0 0 12 [], .extend 1 ext, .extend 1 [("b", .param [])], .newReform 1,
      .extend 2 [("c", .param [])], .readView 0 0 12 []] :=
  ⟨rfl, rfl, rfl, rfl, rfl, rfl, rfl, trivial⟩

/-- the static sufficient condition: no operation of the history replaces the tree of `b` nor changes a
    tree object in place -/
theorem C07_reform_isolated_static (w : World V) (hw : MemoOK w) (ops : List (Op V)) (b : Nat)
    (hb : b < w.systems.length) (hops : ∀ op ∈ ops, op.target ≠ some b ∧ op.inPlace = false)
    (form : Nat) (d : Int) (path : List String) :
    (run w ops).treeOf b = w.treeOf b ∧
    (step (run w ops) (.readView b form d path)).2 = (step w (.readView b form d path)).2 :=
  ⟨(C07_reform_isolated w hw ops b hb (spared_of_static w ops b hops) form form d path).1,
   (C07_reform_isolated w hw ops b hb (spared_of_static w ops b hops) form form d path).2.1⟩

example :
    let f : PNode Nat → Except String (PNode Nat) := fun _ => .ok (.node [("x", .param [⟨10, some 70⟩])])
    ∀ op ∈ ([.newReform 0, .readView 0 0 12 [], .modify 1 (pureMod f), .reload 1 [] noHook, .readView 1 0 12 []] : List (Op Nat)),
      op.target ≠ some 0 ∧ op.inPlace = false := by
  intro f op hop
  simp only [List.mem_cons, List.not_mem_nil, or_false] at hop
  rcases hop with rfl | rfl | rfl | rfl | rfl <;> simp [Op.target, Op.inPlace]
/-- the baseline was read before the reform's modifier ran; it still reads 7, the reform reads 70 -/
example :
    let w0 : World Nat := ⟨[.node [("x", .param [⟨10, some 7⟩])]], [⟨some 0, none⟩], []⟩
    let f : PNode Nat → Except String (PNode Nat) := fun _ => .ok (.node [("x", .param [⟨10, some 70⟩])])
    let ops : List (Op Nat) := [.newReform 0, .readView 0 0 12 [], .modify 1 (pureMod f)]
    (step (run w0 ops) (.readView 0 0 12 ["x"])).2 = .value (.ok (some (.val 7))) [] ∧
    (step (run w0 ops) (.readView 1 0 12 ["x"])).2 = .value (.ok (some (.val 70))) [] := ⟨rfl, rfl⟩

end OFCore

#print axioms OFCore.C07_view_current
#print axioms OFCore.C07_view_current_init
#print axioms OFCore.C07_all_paths_agree
#print axioms OFCore.C07_traced_same
#print axioms OFCore.C07_traced_same_formula
#print axioms OFCore.C07_traced_same_vector
#print axioms OFCore.C07_fancy_pointwise
#print axioms OFCore.C07_fancy_pointwise_leaf
#print axioms OFCore.C07_fancy_subnode
#print axioms OFCore.C07_keys_stringified
#print axioms OFCore.C07_asof_pointwise
#print axioms OFCore.C07_asof_chained_pointwise
#print axioms OFCore.C07_asof_chained_in_force
#print axioms OFCore.C07_modify_nested_reads
#print axioms OFCore.C07_reload_nested_reads
#print axioms OFCore.C07_nested_read_sees_former_tree
#print axioms OFCore.C07_merge_spec
#print axioms OFCore.C07_extend_reads_current
#print axioms OFCore.C07_base_view
#print axioms OFCore.C07_extend_spares_others
#print axioms OFCore.C07_clone_system
#print axioms OFCore.C07_reform_isolated_static
#print axioms OFCore.C07_reform_isolated
