import OFCore.Lemmas.Builder
import OFCore.Props.C05
/-!
# C12 — a described situation becomes exactly that simulation

Theorems about the model `OFCore/Builder.lean` (the REPAIRED builder, fixes C12a … C12f, C12gh,
C12i, C12j, C12k, C12l, C12n, C12-errclass-axes), for all
tax-benefit systems and all documents, of any size.  `Holder.set_input` is a parameter
(`SetInput`); what is assumed of it is stated where it is used (`SetInputOK`).
-/
namespace OFCore.Bld
open OFCore

/-! ## values: the declared value, cast, at the instance's index and at the period its key denotes -/

end OFCore.Bld
namespace OFCore
open Bld in
/-- **C12_value_placed** (person entity).  Whatever the document, if the persons are accepted,
then for every instance, every variable entry of it and every `(period key, value)` pair with a
non-null value — provided no later pair of the same entry spells the same period and no later
entry of the instance repeats the variable — the array buffered (`resolveKeys`: `get_buffer_key`)
under `(variable, canonical text of the period the key denotes)` has one slot per declared person
and holds the value, converted by `checkSetValue`, at the index of the instance.  For a variable
that is not defined for eternity; an eternal variable has ONE entry whatever the keys:
`C12_eternal_one_entry`. -/
theorem C12_value_placed (sys : Sys) (dp : Option String) (kvs : List (DKey × Doc))
    (ids : List String) (ws : List Write) (h : addPersonEntity sys dp (.obj kvs) = .ok (ids, ws))
    (ipre ipost : List (DKey × Doc)) (idk : DKey) (vars : List (DKey × Doc))
    (hkvs : kvs = ipre ++ (idk, .obj vars) :: ipost)
    (hids : ∀ kv ∈ ipost, kv.1.text ≠ idk.text)
    (vpre vpost : List (DKey × Doc)) (vk : DKey) (vd : Doc) (hvars : vars = vpre ++ (vk, vd) :: vpost)
    (hvk : ∀ kv ∈ vpost, kv.1.text ≠ vk.text)
    (var : Var) (hvar : sys.var? vk.text = some var) (hne : var.defUnit ≠ .eternity)
    (pvs ppre ppost : List (DKey × Doc)) (hp : variablePairs dp vd = some pvs)
    (k : DKey) (x : Doc) (hpvs : pvs = ppre ++ (k, x) :: ppost) (hx : x.isNull = false)
    (p : Period) (hk : parseKey k = .ok p)
    (hlater : ∀ kx ∈ ppost, canonKey kx.1 = .ok p.text → kx.2.isNull = true) :
    ids = kvs.map (fun kv => kv.1.text) ∧
    ∃ val arr, checkSetValue var x = .ok val ∧
      alGet (applyWrites [] (resolveKeys sys ws)) (var.name, p.text) = some arr ∧
      arr.length = kvs.length ∧ arr[ids.idxOf idk.text]? = some val := by
  obtain ⟨hidseq, wss, hm, rfl⟩ := addPersonEntity_ok h
  refine ⟨hidseq, ?_⟩
  have hdated : isEternal sys var.name = false := by
    rw [isEternal_of_var (by rw [Sys.var?_name hvar]; exact hvar)]; exact decide_eq_false hne
  have hck : canonKey k = .ok p.text := by unfold canonKey; rw [hk]; rfl
  subst hkvs
  obtain ⟨wss₁, wss₂, h1, h2, rfl⟩ := mapE_append_ok _ ipre ((idk, .obj vars) :: ipost) wss hm
  obtain ⟨l, wss₃, hl, h3, rfl⟩ := mapE_cons_ok _ (idk, Doc.obj vars) ipost wss₂ h2
  obtain ⟨vars', hvars', hi⟩ := personInstance_ok hl
  simp only [Doc.asObj?, Option.some.injEq] at hvars'
  subst hvars'
  obtain ⟨val, pre, post, hval, rfl, hpost⟩ :=
    instanceWrites_decl hi vpre vpost vk vd hvars hvk var hvar pvs ppre ppost hp k x hpvs hx p.text hck hlater
  have hidmem : idk.text ∈ ids := by rw [hidseq]; simp
  have hlen : ids.length = (ipre ++ (idk, Doc.obj vars) :: ipost).length := by rw [hidseq]; simp
  let w₀ : Write := ⟨var.name, p.text, ids.idxOf idk.text, val, ids.length, var.default⟩
  have hall := mapE_forall₂ _ _ _ hm
  have hsized : ∀ w ∈ (wss₁ ++ (pre ++ w₀ :: post) :: wss₃).flatten, w.size = ids.length := by
    intro w hw
    obtain ⟨l', hl', hwl'⟩ := List.mem_flatten.mp hw
    exact (all₂_person_sized hall l' hl' w hwl').1
  have hdecomp : (wss₁ ++ (pre ++ w₀ :: post) :: wss₃).flatten
      = (wss₁.flatten ++ pre) ++ w₀ :: (post ++ wss₃.flatten) := by
    simp [List.flatten_append, List.append_assoc]
  have hno : ∀ w' ∈ post ++ wss₃.flatten, ¬ (w'.cell = w₀.cell ∧ w'.idx = w₀.idx) := by
    intro w' hw'
    rcases List.mem_append.mp hw' with hw' | hw'
    · exact fun e => hpost w' hw' e.1
    · obtain ⟨l', hl', hwl'⟩ := List.mem_flatten.mp hw'
      have hmem : ∀ kv ∈ ipost, kv.1.text ∈ ids := by
        intro kv hkv; rw [hidseq]; simp only [List.map_append, List.map_cons, List.mem_append, List.mem_cons, List.mem_map]
        exact Or.inr (Or.inr ⟨kv, hkv, rfl⟩)
      have := all₂_person_other_idx hidmem (mapE_forall₂ _ ipost wss₃ h3) hids hmem l' hl' w' hwl'
      exact fun e => this e.2
  obtain ⟨arr, harr, hl', hv'⟩ := applyWrites_last (wss₁.flatten ++ pre) (post ++ wss₃.flatten) w₀ ids.length []
    (by intro w hw _; rw [← hdecomp] at hw; exact hsized w hw)
    (by intro a ha; cases ha)
    (List.idxOf_lt_length_of_mem hidmem) hno
  refine ⟨val, arr, hval, ?_, ?_, hv'⟩
  · rw [alGet_resolveKeys sys _ hdated, hdecomp]; exact harr
  · rw [hl', hlen]
end OFCore
namespace OFCore.Bld


end OFCore.Bld
namespace OFCore
open Bld in
/-- **C12_value_default** (person entity): default elsewhere.  Where the instances with a given id
declare no non-null value for a variable at a period (whatever the spelling), the array buffered
for that variable and period — if some other person declared one — holds the variable's default
at that person's index. -/
theorem C12_value_default (sys : Sys) (dp : Option String) (kvs : List (DKey × Doc))
    (ids : List String) (ws : List Write) (h : addPersonEntity sys dp (.obj kvs) = .ok (ids, ws))
    (id : String) (hid : id ∈ ids) (var : Var) (hvar : sys.var? var.name = some var)
    (hne : var.defUnit ≠ .eternity) (ck : List Char)
    (hnone : ∀ idk vars, (idk, Doc.obj vars) ∈ kvs → idk.text = id → ∀ vk vd, (vk, vd) ∈ vars →
      vk.text = var.name → ∀ pvs, variablePairs dp vd = some pvs →
      ∀ kx ∈ pvs, canonKey kx.1 = .ok ck → kx.2.isNull = true) :
    ∀ arr, alGet (applyWrites [] (resolveKeys sys ws)) (var.name, ck) = some arr →
      arr.length = kvs.length ∧ arr[ids.idxOf id]? = some var.default := by
  obtain ⟨hids, wss, hm, rfl⟩ := addPersonEntity_ok h
  intro arr harr
  rw [alGet_resolveKeys sys _ (by rw [isEternal_of_var hvar]; exact decide_eq_false hne)] at harr
  have := entity_value_default (person_instWrites hm) hids id hid var hvar ck hnone arr harr
  refine ⟨?_, this.2⟩
  rw [this.1, hids]; simp

open Bld in
/-- **C12_value_placed_group**: the same placement for the variables of a group kind, with the
groups appended for the persons left out (repair C12f): the array buffered for
`(variable, canonical period)` has one slot per group INCLUDING the own-groups, holds the declared
value at the index of the declaring group, and the default in every own-group. -/
theorem C12_value_placed_group (sys : Sys) (dp : Option String) (g : GroupKind) (personsIds : List String)
    (kvs : List (DKey × Doc)) (buf buf' : Buffer) (e : Ent)
    (h : addGroupEntity sys dp g personsIds (.obj kvs) buf = .ok (e, buf'))
    (ipre ipost : List (DKey × Doc)) (gk : DKey) (ikvs : List (DKey × Doc))
    (hkvs : kvs = ipre ++ (gk, .obj ikvs) :: ipost) (hpost : ∀ kv ∈ ipost, kv.1.text ≠ gk.text)
    (vpre vpost : List (DKey × Doc)) (vk : DKey) (vd : Doc)
    (hvars : variablesJson g ikvs = vpre ++ (vk, vd) :: vpost) (hvk : ∀ kv ∈ vpost, kv.1.text ≠ vk.text)
    (var : Var) (hvar : sys.var? vk.text = some var) (hne : var.defUnit ≠ .eternity)
    (pvs ppre ppost : List (DKey × Doc)) (hp : variablePairs dp vd = some pvs)
    (k : DKey) (x : Doc) (hpvs : pvs = ppre ++ (k, x) :: ppost) (hx : x.isNull = false)
    (p : Period) (hk : parseKey k = .ok p)
    (hlater : ∀ kx ∈ ppost, canonKey kx.1 = .ok p.text → kx.2.isNull = true)
    (hbuf : alGet buf (var.name, p.text) = none) :
    ∃ val arr, checkSetValue var x = .ok val ∧ alGet buf' (var.name, p.text) = some arr ∧
      arr.length = e.ids.length ∧
      arr[(kvs.map (fun kv => kv.1.text)).idxOf gk.text]? = some val ∧
      ∀ j, kvs.length ≤ j → j < e.ids.length → arr[j]? = some var.default := by
  obtain ⟨acc, hf, _, _, _, hids, _, hbuf'⟩ := addGroupEntity_ok h
  obtain ⟨⟨_, _, _⟩, _, ⟨wss, hall, hws⟩, _⟩ := groupLoop_ok kvs _ acc hf
  simp only [List.nil_append] at hws
  have hck : canonKey k = .ok p.text := by unfold canonKey; rw [hk]; rfl
  obtain ⟨hent, val, arr, hval, harr, hlen, hget⟩ :=
    entity_value_placed (proj := variablesJson g) hall rfl buf ipre ipost gk ikvs hkvs hpost vpre vpost vk vd hvars hvk
      var hvar pvs ppre ppost hp k x hpvs hx p.text hck hlater (by intro a ha; rw [hbuf] at ha; cases ha)
  have hglen : (kvs.map (fun kv => kv.1.text)).length = kvs.length := by simp
  have hidx : (kvs.map (fun kv => kv.1.text)).idxOf gk.text < arr.length := by
    rw [hlen]; apply List.idxOf_lt_length_of_mem; rw [hkvs]; simp
  have helen : e.ids.length = kvs.length + acc.toAlloc.length := by rw [hids]; simp
  have hv : sys.var? var.name = some var := by rw [Sys.var?_name hvar]; exact hvar
  have hdated : isEternal sys var.name = false := by rw [isEternal_of_var hv]; exact decide_eq_false hne
  by_cases hl : acc.toAlloc = []
  · rw [if_pos hl] at hbuf'
    refine ⟨val, arr, hval, by rw [hbuf', hws, alGet_resolveKeys sys _ hdated]; exact harr, ?_, hget, ?_⟩
    · rw [hlen, helen, hl]; simp
    · intro j h1 h2; rw [helen, hl] at h2; simp at h2; omega
  · rw [if_neg hl] at hbuf'
    refine ⟨val, arr ++ List.replicate (e.ids.length - arr.length) var.default, hval, ?_, ?_, ?_, ?_⟩
    · rw [hbuf', alGet_padBuffer, hws, alGet_resolveKeys sys _ hdated, harr]
      simp only [Option.map_some, padFn, hv, hent, if_true]
    · rw [List.length_append, List.length_replicate, hlen, hglen, helen]; omega
    · rw [List.getElem?_append_left hidx]; exact hget
    · intro j h1 h2
      rw [List.getElem?_append_right (by rw [hlen, hglen]; exact h1), List.getElem?_replicate]
      rw [hlen, hglen]
      simp only [ite_eq_left_iff, reduceCtorEq, imp_false, Decidable.not_not]
      omega


open Bld in
/-- **C12_eternal_one_entry** (repair C12j).  A variable defined for eternity holds one value per
instance whatever period it is given for: all its inputs are buffered in ONE entry, under the key of
the first of them in document order (`resolveKeys`), so that a value given under a dated key by one
instance and a value given under `ETERNITY` by another are both kept — the last write of an instance
is what the entry holds at that instance's index, and no second entry of the variable exists that a
later flush could write over it. -/
theorem C12_eternal_one_entry (sys : Sys) (ws : List Write) (v : String) (hv : isEternal sys v = true) :
    (∀ w ∈ resolveKeys sys ws, ∀ w' ∈ resolveKeys sys ws, w.var = v → w'.var = v → w.key = w'.key) ∧
    (∀ (pre post : List Write) (w : Write) (n : Nat), ws = pre ++ w :: post → w.var = v →
      (∀ w' ∈ ws, w'.var = v → w'.size = n) → w.idx < n →
      (∀ w' ∈ post, w'.var = v → w'.idx ≠ w.idx) →
      ∃ k arr, firstKeyOf ws v = some k ∧ alGet (applyWrites [] (resolveKeys sys ws)) (v, k) = some arr ∧
        arr.length = n ∧ arr[w.idx]? = some w.val ∧
        ∀ k', k' ≠ k → alGet (applyWrites [] (resolveKeys sys ws)) (v, k') = none) := by
  have hkey := resolveKeys_key sys ws v hv
  refine ⟨?_, ?_⟩
  · intro w hw w' hw' h1 h2
    have e1 := hkey w hw h1
    have e2 := hkey w' hw' h2
    rw [← e2] at e1
    exact Option.some.inj e1
  · intro pre post w n hws hwv hsized hidx hlast
    have hwmem : w ∈ ws := by rw [hws]; simp
    obtain ⟨k, hk⟩ := firstKeyOf_some hwmem
    rw [hwv] at hk
    refine ⟨k, ?_⟩
    -- the resolved list, split at `w`
    let g : Write → Write := fun w => if isEternal sys w.var then { w with key := (firstKeyOf ws w.var).getD w.key } else w
    have hres : resolveKeys sys ws = pre.map g ++ g w :: post.map g := by
      show ws.map g = _
      rw [hws, List.map_append, List.map_cons]
    have hgvar : ∀ x, (g x).var = x.var := resolveKeys_var sys ws
    have hgidx : ∀ x, (g x).idx = x.idx := by intro x; show (if _ then _ else _ : Write).idx = _; split <;> rfl
    have hgval : ∀ x, (g x).val = x.val := by intro x; show (if _ then _ else _ : Write).val = _; split <;> rfl
    have hgsize : ∀ x, (g x).size = x.size := by intro x; show (if _ then _ else _ : Write).size = _; split <;> rfl
    have hgw : (g w).cell = (v, k) := by
      show ((if _ then _ else _ : Write).var, (if _ then _ else _ : Write).key) = _
      rw [hwv, hv]; simp only [if_true, hk, Option.getD_some, hwv]
    have hmemres : ∀ x ∈ pre.map g ++ g w :: post.map g, ∃ x₀ ∈ ws, x = g x₀ := by
      intro x hx
      rw [← hres] at hx
      obtain ⟨x₀, hx₀, rfl⟩ := List.mem_map.mp hx
      exact ⟨x₀, hx₀, rfl⟩
    obtain ⟨arr, harr, hlen, hval⟩ := applyWrites_last (pre.map g) (post.map g) (g w) n []
      (by
        intro x hx hc
        obtain ⟨x₀, hx₀, rfl⟩ := hmemres x hx
        rw [hgsize]
        apply hsized x₀ hx₀
        have := congrArg Prod.fst hc
        rw [hgw] at this
        simpa [Write.cell, hgvar] using this)
      (by intro a ha; cases ha)
      (by rw [hgidx]; exact hidx)
      (by
        intro x hx hc
        obtain ⟨x₀, hx₀, rfl⟩ := List.mem_map.mp hx
        have h1 : x₀.var = v := by
          have := congrArg Prod.fst hc.1
          rw [hgw] at this
          simpa [Write.cell, hgvar] using this
        have := hc.2
        rw [hgidx, hgidx] at this
        exact hlast x₀ hx₀ h1 this)
    rw [hgw, ← hres] at harr
    rw [hgidx, hgval] at hval
    refine ⟨arr, hk, harr, hlen, hval, ?_⟩
    intro k' hk'
    rw [alGet_applyWrites_frame (v, k') (resolveKeys sys ws) []]
    · rfl
    · intro x hx hc
      have hxv : x.var = v := by have := congrArg Prod.fst hc; simpa [Write.cell] using this
      have := hkey x hx hxv
      rw [hk] at this
      have hxk : x.key = k' := by have := congrArg Prod.snd hc; simpa [Write.cell] using this
      rw [hxk] at this
      exact hk' (Option.some.inj this)
end OFCore
namespace OFCore.Bld

/-! ## entities, memberships, roles -/

/-- the persons listed by the instances of one group kind, in document order -/
def listedPersons (g : GroupKind) (kvs : List (DKey × Doc)) : List String := kvs.flatMap (instListed g)

/-- the persons left out of a group kind, in the order of the persons -/
def leftOut (g : GroupKind) (personsIds : List String) (kvs : List (DKey × Doc)) : List String :=
  personsIds.filter (fun p => !(listedPersons g kvs).contains p)

end OFCore.Bld
namespace OFCore
open Bld in
/-- **C12_entities.**  One entity per declared instance, ids in declaration order: the persons
are the keys of the persons object; a declared group kind has its declared instances followed by
one fresh group per person left out (named after the person, in person order); a group kind the
document omits has one group per person. -/
theorem C12_entities (sys : Sys) (dp : Option String) :
    (∀ (kvs : List (DKey × Doc)) (ids : List String) (ws : List Write),
      addPersonEntity sys dp (.obj kvs) = .ok (ids, ws) →
      ids = kvs.map (fun kv => kv.1.text) ∧ ids.length = kvs.length) ∧
    (∀ (g : GroupKind) (personsIds : List String) (kvs : List (DKey × Doc)) (buf buf' : Buffer) (e : Ent),
      addGroupEntity sys dp g personsIds (.obj kvs) buf = .ok (e, buf') →
      e.key = g.key ∧ e.ids = kvs.map (fun kv => kv.1.text) ++ leftOut g personsIds kvs ∧
      e.count = kvs.length + (leftOut g personsIds kvs).length ∧
      e.memb.length = personsIds.length ∧ e.roles.length = personsIds.length) ∧
    (∀ (g : GroupKind) (personsIds : List String) (e : Ent), addDefaultGroupEntity g personsIds = .ok e →
      e.key = g.key ∧ e.ids = personsIds ∧ e.memb = List.range personsIds.length ∧
      ∃ r0, g.flatRoles.head? = some r0 ∧ e.roles = List.replicate personsIds.length r0) := by
  refine ⟨?_, ?_, ?_⟩
  · intro kvs ids ws h
    obtain ⟨hi, _⟩ := addPersonEntity_ok h
    exact ⟨hi, by rw [hi]; simp⟩
  · intro g personsIds kvs buf buf' e h
    obtain ⟨acc, hf, hk, _, _, hids, ⟨own, _, hm, hr⟩, _⟩ := addGroupEntity_ok h
    obtain ⟨⟨_, _, hta⟩, _, _, _⟩ := groupLoop_ok kvs _ acc hf
    have hleft : acc.toAlloc = leftOut g personsIds kvs := by rw [hta]; rfl
    refine ⟨hk, by rw [hids, hleft], ?_, ?_, ?_⟩
    · unfold Ent.count; rw [hids, hleft]; simp
    · rw [hm]; exact (applyM_length _ _).1
    · rw [hr]; exact (applyM_length _ _).2
  · intro g personsIds e h
    unfold addDefaultGroupEntity at h
    cases hr : g.flatRoles.head? with
    | none => rw [hr] at h; cases h
    | some r0 => rw [hr] at h; cases h; exact ⟨rfl, rfl, rfl, r0, rfl, rfl⟩
end OFCore
namespace OFCore.Bld

end OFCore.Bld
namespace OFCore
open Bld in
/-- **C12_membership_roles.**  If a group kind is accepted then
(1) the persons listed by its instances are pairwise distinct and declared;
(2) the `t`-th person listed under role `r` of an instance belongs to that instance's group, with
the role `r` — or its `t`-th sub-role when `r` has sub-roles;
(3) a person left out belongs to the fresh group appended for that person after the declared ones
(repair C12i: located by position, whatever the ids of the declared groups — see `C12_own_group`),
with the first role of the kind. -/
theorem C12_membership_roles (sys : Sys) (dp : Option String) (g : GroupKind) (personsIds : List String)
    (hpn : personsIds.Nodup) (kvs : List (DKey × Doc)) (buf buf' : Buffer) (e : Ent)
    (h : addGroupEntity sys dp g personsIds (.obj kvs) buf = .ok (e, buf')) :
    ((listedPersons g kvs).Nodup ∧ ∀ p ∈ listedPersons g kvs, p ∈ personsIds) ∧
    (∀ (gk : DKey) (ikvs : List (DKey × Doc)) (r : Role) (t : Nat) (pid : String),
      (gk, Doc.obj ikvs) ∈ kvs → r ∈ g.roles →
      (strictSyntax ((lookupS r.docKey ikvs).getD (.arr []))).strs[t]? = some pid →
      e.memb[personsIds.idxOf pid]? = some ((kvs.map (fun kv => kv.1.text)).idxOf gk.text) ∧
      e.roles[personsIds.idxOf pid]? = some (r.roleAt t)) ∧
    (∀ pid ∈ leftOut g personsIds kvs,
      e.memb[personsIds.idxOf pid]? = some (kvs.length + (leftOut g personsIds kvs).idxOf pid) ∧
      ∃ r0, g.flatRoles.head? = some r0 ∧ e.roles[personsIds.idxOf pid]? = some r0) := by
  obtain ⟨acc, hf, hk, _, _, hids, ⟨own, hown, hm, hr⟩, _⟩ := addGroupEntity_ok h
  obtain ⟨⟨hnd, hmem, hta⟩, hmws, _, _⟩ := groupLoop_ok kvs _ acc hf
  have hleft : acc.toAlloc = leftOut g personsIds kvs := by rw [hta]; rfl
  simp only [List.nil_append] at hmws
  -- the targets of all membership writes are pairwise distinct
  have hownp : own.map (·.pidx) = (acc.toAlloc).map (fun p => personsIds.idxOf p) := by
    rcases hown with ⟨hl, rfl⟩ | ⟨r0, _, rfl⟩
    · simp [hl]
    · exact ownMWrites_pidx _ _ _ _
  have hallnd : ((acc.mws ++ own).map (·.pidx)).Nodup := by
    rw [List.map_append, hmws, loopMWrites_pidx, hownp, ← List.map_append]
    apply nodup_map_idxOf
    · rw [List.nodup_append]
      refine ⟨hnd, ?_, ?_⟩
      · rw [hta]; exact List.Nodup.sublist List.filter_sublist hpn
      · intro a ha b hb e
        subst e
        rw [hta, List.mem_filter] at hb
        have : (kvs.flatMap (instListed g)).contains a = true := by simpa using ha
        rw [this] at hb
        exact absurd hb.2 (by decide)
    · intro p hp
      rcases List.mem_append.mp hp with hp | hp
      · exact (hmem p hp).2
      · rw [hta, List.mem_filter] at hp; exact hp.1
  have hlistedmem : ∀ p ∈ listedPersons g kvs, personsIds.idxOf p < personsIds.length :=
    fun p hp => List.idxOf_lt_length_of_mem (hmem p hp).2
  refine ⟨⟨hnd, fun p hp => (hmem p hp).2⟩, ?_, ?_⟩
  · intro gk ikvs r t pid hkv hrm hstr
    let rd : Role × Doc := (r, strictSyntax ((lookupS r.docKey ikvs).getD (.arr [])))
    have hrd : rd ∈ roleDocs g ikvs := List.mem_map.mpr ⟨r, hrm, rfl⟩
    have hpidmem : pid ∈ rd.2.strs := List.mem_of_getElem? hstr
    have hlisted : pid ∈ listedPersons g kvs := by
      apply List.mem_flatMap.mpr
      refine ⟨(gk, Doc.obj ikvs), hkv, ?_⟩
      unfold instListed listedIn
      simp only [Doc.asObj?, Option.getD_some]
      exact List.mem_flatMap.mpr ⟨rd, hrd, hpidmem⟩
    let w : MWrite := ⟨personsIds.idxOf pid, (kvs.map (fun kv => kv.1.text)).idxOf gk.text, r.roleAt t⟩
    have hw : w ∈ acc.mws ++ own := by
      apply List.mem_append_left
      rw [hmws]
      apply List.mem_flatMap.mpr
      refine ⟨(gk, Doc.obj ikvs), hkv, ?_⟩
      unfold instMWrites
      simp only [Doc.asObj?, Option.getD_some]
      exact List.mem_flatMap.mpr ⟨rd, hrd, mem_roleMWrites personsIds _ rd t pid hstr⟩
    have := applyM_mem personsIds.length (acc.mws ++ own) hallnd w hw (hlistedmem pid hlisted)
    rw [hm, hr]
    exact this
  · intro pid hpid
    rw [← hleft] at hpid
    have hne : acc.toAlloc ≠ [] := fun e' => by rw [e'] at hpid; cases hpid
    rcases hown with ⟨hl, _⟩ | ⟨r0, hr0, hownr⟩
    · exact absurd hl hne
    · let w : MWrite := ⟨personsIds.idxOf pid, kvs.length + acc.toAlloc.idxOf pid, r0⟩
      have hw : w ∈ acc.mws ++ own := by
        apply List.mem_append_right
        rw [hownr]
        exact mem_ownMWrites personsIds kvs.length r0 acc.toAlloc pid hpid
      have hpm : pid ∈ personsIds := by rw [hta, List.mem_filter] at hpid; exact hpid.1
      have := applyM_mem personsIds.length (acc.mws ++ own) hallnd w hw (List.idxOf_lt_length_of_mem hpm)
      rw [hm, hr, ← hleft]
      exact ⟨this.1, r0, hr0, this.2⟩
end OFCore
namespace OFCore.Bld

end OFCore.Bld
namespace OFCore
open Bld in
/-- **C12_own_group.**  A person left out of a group kind is the only member of a fresh group
appended after the declared ones, which bears the person's id; different persons left out get
different groups — whatever the ids of the declared groups (repair C12i; before it, a declared
group named after the person received the person). -/
theorem C12_own_group (sys : Sys) (dp : Option String) (g : GroupKind) (personsIds : List String)
    (hpn : personsIds.Nodup) (kvs : List (DKey × Doc)) (buf buf' : Buffer) (e : Ent)
    (h : addGroupEntity sys dp g personsIds (.obj kvs) buf = .ok (e, buf'))
    (pid : String) (hleft : pid ∈ leftOut g personsIds kvs) :
    e.memb[personsIds.idxOf pid]? = some (kvs.length + (leftOut g personsIds kvs).idxOf pid) ∧
    kvs.length ≤ kvs.length + (leftOut g personsIds kvs).idxOf pid ∧
    e.ids[kvs.length + (leftOut g personsIds kvs).idxOf pid]? = some pid ∧
    (∀ q ∈ personsIds, q ≠ pid →
      e.memb[personsIds.idxOf q]? ≠ some (kvs.length + (leftOut g personsIds kvs).idxOf pid)) := by
  obtain ⟨_, hids, _, _, _⟩ := (C12_entities sys dp).2.1 g personsIds kvs buf buf' e h
  obtain ⟨⟨hnd, hlm⟩, hdecl, hown⟩ := C12_membership_roles sys dp g personsIds hpn kvs buf buf' e h
  have hlt : (leftOut g personsIds kvs).idxOf pid < (leftOut g personsIds kvs).length :=
    List.idxOf_lt_length_of_mem hleft
  refine ⟨(hown pid hleft).1, Nat.le_add_right _ _, ?_, ?_⟩
  · rw [hids, List.getElem?_append_right (by simp)]
    simp only [List.length_map, Nat.add_sub_cancel_left]
    rw [List.getElem?_eq_getElem hlt, List.getElem_idxOf hlt]
  · intro q hq hne hcontra
    by_cases hql : q ∈ leftOut g personsIds kvs
    · have hq' := (hown q hql).1
      rw [hq'] at hcontra
      have hqi : (leftOut g personsIds kvs).idxOf q = (leftOut g personsIds kvs).idxOf pid := by
        have := Option.some.inj hcontra; omega
      exact hne (idxOf_inj_of_mem hql hleft hqi)
    · -- q is listed by some instance: its group index is below the number of declared groups
      have hqlisted : q ∈ listedPersons g kvs := by
        unfold leftOut at hql
        rw [List.mem_filter] at hql
        have : ¬ ((!(listedPersons g kvs).contains q) = true) := fun hc => hql ⟨hq, hc⟩
        simpa using this
      obtain ⟨kv, hkv, hin⟩ := List.mem_flatMap.mp hqlisted
      unfold instListed listedIn at hin
      obtain ⟨rd, hrd, hqs⟩ := List.mem_flatMap.mp hin
      obtain ⟨r, hr, rfl⟩ := List.mem_map.mp hrd
      obtain ⟨t, hget⟩ := List.getElem?_of_mem hqs
      cases hobj : kv.2.asObj? with
      | none =>
        rw [hobj] at hqs
        simp [lookupS, strictSyntax, Doc.strs, Doc.asArr?] at hqs
      | some ikvs =>
        have hkv' : (kv.1, Doc.obj ikvs) ∈ kvs := by
          have : kv = (kv.1, Doc.obj ikvs) := by
            obtain ⟨k1, d⟩ := kv
            cases d <;> simp [Doc.asObj?] at hobj
            subst hobj; rfl
          rw [← this]; exact hkv
        rw [hobj] at hget
        simp only [Option.getD_some] at hget
        have := (hdecl kv.1 ikvs r t q hkv' hr hget).1
        rw [this] at hcontra
        have hlt' : (kvs.map (fun kv => kv.1.text)).idxOf kv.1.text < kvs.length := by
          have : kv.1.text ∈ kvs.map (fun kv => kv.1.text) := List.mem_map.mpr ⟨kv, hkv, rfl⟩
          simpa using List.idxOf_lt_length_of_mem this
        have := Option.some.inj hcontra
        omega
end OFCore
namespace OFCore.Bld


/-! ## the flush: shorter periods first, longer ones fill what is still unknown -/

/-- What is assumed of `Holder.set_input` for a variable that is not eternal (clauses of C16:
"one definition period still unknown is written as given", "a known period is never overwritten",
"only definition periods inside the given period are written" — such a period is never sorted
after the period that contains it): -/
structure SetInputOK (si : SetInput) : Prop where
  /-- an input on one definition period that is still unknown is stored as given -/
  exact : ∀ (s : Store) (var : Var) (n : Nat) (p : Period) (a : Vec),
    var.defUnit ≠ .eternity → p.unit = var.defUnit → p.size = 1 → a.length = n →
    alGet s (var.name, p) = none → si s var n p a = .ok (alSet s (var.name, p) a)
  /-- whatever the period, entries already known under another key are kept -/
  keeps : ∀ (s s' : Store) (var : Var) (n : Nat) (p : Period) (a : Vec),
    var.defUnit ≠ .eternity → si s var n p a = .ok s' →
    ∀ (k : String × Period) (x : Vec), k ≠ (var.name, p) → alGet s k = some x → alGet s' k = some x
  /-- a newly written entry belongs to the variable and is the period itself or a period that the
  flush order puts strictly before it -/
  fresh : ∀ (s s' : Store) (var : Var) (n : Nat) (p : Period) (a : Vec),
    var.defUnit ≠ .eternity → si s var n p a = .ok s' →
    ∀ (k : String × Period), alGet s k = none → alGet s' k ≠ none →
    k.1 = var.name ∧ (k.2 = p ∨ flushLe p k.2 = false)

/-- the assumption is satisfiable: a `set_input` that accepts one definition period at a time -/
def plainSetInput : SetInput := fun s var _ p a =>
  if p.unit = var.defUnit ∧ p.size = 1 then .ok (alSet s (var.name, p) a) else .error .situation

example : SetInputOK plainSetInput where
  exact := by
    intro s var n p a _ hu hs _ _
    unfold plainSetInput; rw [if_pos ⟨hu, hs⟩]
  keeps := by
    intro s s' var n p a _ h k x hk hx
    unfold plainSetInput at h
    split at h
    · cases h; rw [alGet_alSet_ne _ _ _ _ hk]; exact hx
    · cases h
  fresh := by
    intro s s' var n p a _ h k hk hk'
    unfold plainSetInput at h
    split at h
    · cases h
      by_cases e : k = (var.name, p)
      · subst e; exact ⟨rfl, Or.inl rfl⟩
      · rw [alGet_alSet_ne _ _ _ _ e] at hk'; exact absurd hk hk'
    · cases h

/-- what one successful step of the flush did: nothing (the period starts after the variable's
`end`) or one `set_input` -/
theorem callStep_ok {si : SetInput} {buf : Buffer} {var : Var} {count : Nat} {s s₁ : Store} {q : Period}
    (h : callStep si buf var count s q = .ok s₁) :
    ∃ values, alGet buf (var.name, q.text) = some values ∧ values.length ≠ 0 ∧
      ((endGuard var q = .ok false ∧ s₁ = s) ∨
       (endGuard var q = .ok true ∧ si s var count q (tile (count / values.length) values) = .ok s₁)) := by
  unfold callStep at h
  cases hg : alGet buf (var.name, q.text) with
  | none => rw [hg] at h; cases h
  | some values =>
    rw [hg] at h
    simp only at h
    by_cases hz : values.length = 0
    · rw [if_pos hz] at h; cases h
    · rw [if_neg hz] at h
      refine ⟨values, rfl, hz, ?_⟩
      cases he : endGuard var q with
      | error e => rw [he] at h; cases h
      | ok b =>
        rw [he] at h
        cases b with
        | false => cases h; exact Or.inl ⟨rfl, rfl⟩
        | true => exact Or.inr ⟨rfl, h⟩

theorem flush_unknown (si : SetInput) (hsi : SetInputOK si) (buf : Buffer) (var : Var)
    (hne : var.defUnit ≠ .eternity) (count : Nat) (q : Period) :
    ∀ (ps : List Period) (s s' : Store), (∀ q' ∈ ps, q' ≠ q ∧ flushLe q' q = true) →
    foldE (callStep si buf var count) s ps = .ok s' → alGet s (var.name, q) = none →
    alGet s' (var.name, q) = none
  | [], s, s', _, h, hx => by cases h; exact hx
  | q' :: ps, s, s', hk, h, hx => by
    obtain ⟨s₁, h1, h2⟩ := foldE_cons_ok _ s s' q' ps h
    apply flush_unknown si hsi buf var hne count q ps s₁ s' (fun q'' hq'' => hk q'' (List.mem_cons_of_mem _ hq'')) h2
    obtain ⟨values, _, _, hcase⟩ := callStep_ok h1
    rcases hcase with ⟨_, rfl⟩ | ⟨_, h1⟩
    · exact hx
    · cases hq : alGet s₁ (var.name, q) with
      | none => rfl
      | some x =>
        have := (hsi.fresh s s₁ var count q' _ hne h1 (var.name, q) hx (by rw [hq]; simp)).2
        obtain ⟨hneq, hle⟩ := hk q' List.mem_cons_self
        rcases this with e | e
        · exact absurd e.symm hneq
        · simp only at e; rw [hle] at e; cases e

theorem flush_keeps (si : SetInput) (hsi : SetInputOK si) (buf : Buffer) (var : Var)
    (hne : var.defUnit ≠ .eternity) (count : Nat) (k : String × Period) (x : Vec) :
    ∀ (ps : List Period) (s s' : Store), (∀ q ∈ ps, (var.name, q) ≠ k) →
    foldE (callStep si buf var count) s ps = .ok s' → alGet s k = some x → alGet s' k = some x
  | [], s, s', _, h, hx => by cases h; exact hx
  | q :: ps, s, s', hk, h, hx => by
    obtain ⟨s₁, h1, h2⟩ := foldE_cons_ok _ s s' q ps h
    apply flush_keeps si hsi buf var hne count k x ps s₁ s' (fun q' hq' => hk q' (List.mem_cons_of_mem _ hq')) h2
    obtain ⟨values, _, _, hcase⟩ := callStep_ok h1
    rcases hcase with ⟨_, rfl⟩ | ⟨_, h1⟩
    · exact hx
    · exact hsi.keeps s s₁ var count q _ hne h1 k x (fun e => hk q List.mem_cons_self e.symm) hx

end OFCore.Bld
namespace OFCore
open Bld in
/-- **C12_longer_fills_gaps.**  For every buffer and every variable, the periods handed to
`set_input` are a permutation of the buffered ones, sorted by (length in days, unit weight),
`ETERNITY` last: a period is never written before a shorter one (repairs C12b — numeric key — and
C12l — the length, not the size in its own unit).  Consequently, under `SetInputOK`, whatever is
declared on longer periods, the value declared on ONE definition period is what the simulation
holds for it (when the period does not start after the variable's `end`: `endGuard`): a longer
period only fills what is still unknown. -/
theorem C12_longer_fills_gaps (buf : Buffer) (v : String) (ps : List Period)
    (h : sortedPeriods buf v = .ok ps) :
    ps.Pairwise (fun p q => flushLe p q = true) ∧
    (∃ qs, All₂ (fun ck q => parsePeriod ck = .ok q) (varKeys buf v) qs ∧ ps.Perm qs) ∧
    (∀ (si : SetInput), SetInputOK si → ∀ (var : Var) (count : Nat) (s s' : Store),
      var.name = v → var.defUnit ≠ .eternity → ps.Nodup →
      foldE (callStep si buf var count) s ps = .ok s' →
      ∀ q ∈ ps, alGet s (v, q) = none → endGuard var q = .ok true →
      q.unit = var.defUnit → q.size = 1 →
      ∀ values, alGet buf (v, q.text) = some values → values.length ≠ 0 →
      (tile (count / values.length) values).length = count →
      alGet s' (v, q) = some (tile (count / values.length) values)) := by
  obtain ⟨qs, kps, hq, hkp, rfl⟩ := sortedPeriods_ok h
  obtain ⟨hsnd, hkeys⟩ := all₂_keyed (mapE_forall₂ _ _ _ hkp)
  have hperm := sortBy_perm (fun (a b : (Option Int × Int) × Period) => keyLe a.1 b.1) kps
  have hsortedk := sortBy_pairwise (fun (a b : (Option Int × Int) × Period) => keyLe a.1 b.1)
    (fun a b c => keyLe_trans a.1 b.1 c.1) (fun a b => keyLe_total a.1 b.1) kps
  have hsorted : ((sortBy (fun a b => keyLe a.1 b.1) kps).map (fun kp => kp.2)).Pairwise
      (fun p q => flushLe p q = true) := by
    rw [List.pairwise_map]
    refine List.Pairwise.imp_of_mem ?_ hsortedk
    intro a b ha hb hab
    unfold flushLe
    rw [hkeys a (hperm.mem_iff.mp ha), hkeys b (hperm.mem_iff.mp hb)]
    exact hab
  refine ⟨hsorted, ⟨qs, ?_, ?_⟩, ?_⟩
  · have := mapE_forall₂ _ _ _ hq
    clear hq h hkp hsnd hkeys hperm hsortedk hsorted
    generalize varKeys buf v = keys at this
    induction this with
    | nil => exact .nil
    | @cons a b l l' hab _ ih =>
      refine .cons ?_ ih
      unfold parseBuffered at hab
      cases hp : parsePeriod a with
      | error e => rw [hp] at hab; cases hab
      | ok p => rw [hp] at hab; cases hab; rfl
  · rw [← hsnd]; exact hperm.map _
  · intro si hsi var count s s' hname hne hnd hfold q hqm hunk hguard hunit hsize values hvals hz hlen
    subst hname
    obtain ⟨pre, post, hsplit⟩ := List.append_of_mem hqm
    rw [hsplit] at hfold hnd
    -- run up to q, then q itself, then the rest
    have hsplitfold : ∀ (l₁ l₂ : List Period) (a b : Store),
        foldE (callStep si buf var count) a (l₁ ++ l₂) = .ok b →
        ∃ m, foldE (callStep si buf var count) a l₁ = .ok m ∧ foldE (callStep si buf var count) m l₂ = .ok b := by
      intro l₁
      induction l₁ with
      | nil => intro l₂ a b hab; exact ⟨a, rfl, hab⟩
      | cons x xs ih =>
        intro l₂ a b hab
        obtain ⟨a₁, h1, h2⟩ := foldE_cons_ok _ a b x (xs ++ l₂) hab
        obtain ⟨m, hm1, hm2⟩ := ih l₂ a₁ b h2
        exact ⟨m, by rw [foldE_cons_of_ok _ a a₁ x xs h1]; exact hm1, hm2⟩
    obtain ⟨m, hm1, hm2⟩ := hsplitfold pre (q :: post) s s' hfold
    obtain ⟨m₁, hq1, hpost⟩ := foldE_cons_ok _ m s' q post hm2
    have hmunk : alGet m (var.name, q) = none := by
      apply flush_unknown si hsi buf var hne count q pre s m ?_ hm1 hunk
      intro q' hq'
      rw [hsplit, List.pairwise_append] at hsorted
      refine ⟨?_, hsorted.2.2 q' hq' q List.mem_cons_self⟩
      intro e
      subst e
      rw [List.nodup_append] at hnd
      exact hnd.2.2 q' hq' q' List.mem_cons_self rfl
    have hm₁ : alGet m₁ (var.name, q) = some (tile (count / values.length) values) := by
      unfold callStep at hq1
      rw [hvals] at hq1
      simp only [if_neg hz, hguard] at hq1
      rw [hsi.exact m var count q _ hne hunit hsize hlen hmunk] at hq1
      cases hq1
      exact alGet_alSet_same _ _ _
    apply flush_keeps si hsi buf var hne count (var.name, q) _ post m₁ s' ?_ hpost hm₁
    intro q' hq' e
    have hq'q : q' = q := by simpa using congrArg Prod.snd e
    subst hq'q
    rw [List.nodup_append] at hnd
    exact (List.nodup_cons.mp hnd.2.1).1 hq'
end OFCore
namespace OFCore.Bld


/-! ## spelling of period keys -/

end OFCore.Bld
namespace OFCore
open Bld in
/-- **C12_spelling_invariant.**  Two fully specified documents that differ only in how period keys
are spelt (`TopEq`: same entities, same instances in the same order, same variables, pairwise
`parseKey k = parseKey k'` and equal values) give the same result — the same simulation or the
same refusal — whatever `set_input` does.  The same holds for one `set_input` of the
variables-only form and for the `period` of an axis: keys are read through `parseKey` only. -/
theorem C12_spelling_invariant (sys : Sys) (dp : Option String) (si : SetInput) :
    (∀ (kvs kvs' : List (DKey × Doc)), All₂ TopEq kvs kvs' →
      buildFromEntities sys dp si kvs = buildFromEntities sys dp si kvs') ∧
    (∀ (count : Nat) (store : Store) (name k k' : DKey) (value : Doc), parseKey k = parseKey k' →
      setInputDoc sys si count store name k value = setInputDoc sys si count store name k' value) ∧
    (∀ (entKey : String) (step cell cnt : Nat) (multi : Bool) (coords : List Nat) (buf : Buffer) (a : Axis)
      (k k' : DKey), parseKey k = parseKey k' →
      layAxis sys dp entKey step cell cnt multi coords buf { a with period := some k } =
      layAxis sys dp entKey step cell cnt multi coords buf { a with period := some k' }) :=
  ⟨buildFromEntities_congr sys dp si, setInputDoc_congr sys si, layAxis_congr sys dp⟩
end OFCore
namespace OFCore.Bld

end OFCore.Bld
namespace OFCore
open Bld in
/-- **C12_spelling_invariant_dict** (the statement for `build_from_dict`, every shape).  Two
documents with the same keys everywhere except period keys, where corresponding period keys denote
the same period (`parseKey k = parseKey k'`) and carry equal values, give the same result — the same
simulation or the same refusal — whatever the shape the dispatch recognises (`DictEq` reads the entry
under a key the way that shape does): short form (an instance under a singular entity key, lifted
through `explicit_singular_entities`), fully specified form and the fall-through of repair C12d
(instances under an entity plural), variables-only form (`{period: values}` under a variable name,
lifted through `build_from_variables`). -/
theorem C12_spelling_invariant_dict (sys : Sys) (dp : Option String) (si : SetInput)
    (kvs kvs' : List (DKey × Doc)) (h : All₂ (DictEq sys kvs) kvs kvs') :
    buildFromDict sys dp si (.obj kvs) = buildFromDict sys dp si (.obj kvs') := by
  have hkeyrel : All₂ (fun a b : DKey × Doc => a.1 = b.1) kvs kvs' := All₂.imp (fun _ _ h => h.1) h
  have hkey := fun f => all₂_any_key (Rel := fun a b : DKey × Doc => a.1 = b.1) (fun _ _ h => h) f hkeyrel
  have hall : kvs.all (fun kv => isEntityKey sys kv.1) = kvs'.all (fun kv => isEntityKey sys kv.1) := by
    clear h hkey
    induction hkeyrel with
    | nil => rfl
    | cons hab _ ih => simp [List.all_cons, hab, ih]
  have hemp : kvs.isEmpty = kvs'.isEmpty := by
    cases hkeyrel with
    | nil => rfl
    | cons _ _ => rfl
  unfold buildFromDict
  simp only [Doc.asObj?]
  rw [← hkey isIntKey, ← hkey (fun k => keyIn (sys.singulars.map (·.1)) k),
    ← hkey (fun k => keyIn (sys.vars.map (·.name)) k), ← hall, ← hemp]
  by_cases hi : kvs.any (fun kv => isIntKey kv.1) = true
  · rw [if_pos hi, if_pos hi]
  · rw [if_neg hi, if_neg hi]
    by_cases hs : kvs.any (fun kv => keyIn (sys.singulars.map (·.1)) kv.1) = true
    · rw [if_pos hs, if_pos hs]
      have hshort : All₂ (ShortEq sys) kvs kvs' :=
        All₂.imp (fun a b hab => ⟨hab.1, by have := hab.2; rw [if_pos hs] at this; exact this⟩) h
      exact buildFromEntities_congr sys dp si _ _ (explicitSingular_rel sys hshort)
    · rw [if_neg hs, if_neg hs]
      by_cases hf : (!kvs.isEmpty) = true ∧ kvs.all (fun kv => isEntityKey sys kv.1) = true
      · rw [if_pos hf, if_pos hf]
        have htop : All₂ TopEq kvs kvs' :=
          All₂.imp (fun a b hab => ⟨hab.1, by have := hab.2; rw [if_neg hs, if_pos hf] at this; exact this⟩) h
        exact buildFromEntities_congr sys dp si _ _ htop
      · rw [if_neg hf, if_neg hf]
        by_cases hv : kvs.isEmpty = true ∨ kvs.any (fun kv => keyIn (sys.vars.map (·.name)) kv.1) = true
        · rw [if_pos hv, if_pos hv]
          have hvars : All₂ EntryEq kvs kvs' :=
            All₂.imp (fun a b hab => ⟨hab.1, by have := hab.2; rw [if_neg hs, if_neg hf, if_pos hv] at this; exact this⟩) h
          exact buildFromVariables_congr sys dp si _ _ hvars
        · rw [if_neg hv, if_neg hv]
          have htop : All₂ TopEq kvs kvs' :=
            All₂.imp (fun a b hab => ⟨hab.1, by have := hab.2; rw [if_neg hs, if_neg hf, if_neg hv] at this; exact this⟩) h
          exact buildFromEntities_congr sys dp si _ _ htop
end OFCore
namespace OFCore.Bld


/-! ## axes -/

theorem replicate_tile {α : Type} (d : α) (step : Nat) : ∀ cell,
    List.replicate (cell * step) d = tile cell (List.replicate step d)
  | 0 => by simp [tile]
  | c + 1 => by
    rw [tile_eq_copies, copies_succ, ← tile_eq_copies, ← replicate_tile d step c, Nat.succ_mul,
      List.replicate_append_replicate]

end OFCore.Bld
namespace OFCore
open Bld in
/-- **C12_axes_concat.**  Expanding over axes is concatenating the copies:
(1) every entity has `cell` times its instances; the ids of copy `c` are the prototype's ids
followed by the running index `c·n + i`; the roles of every copy are the prototype's; the
memberships of copy `c` are the prototype's shifted by `c` times the number of groups;
(2) when an axis is laid (`layAxis` succeeds, index inside the prototype, array buffered at
prototype size or absent; a variable that is not eternal — an eternal one is laid on its single
entry, `bufferKey`), the array of its variable at its period is the concatenation over the
copies of the prototype array with the axis value of that copy on the indexed instance — and no
other buffered array changes (they are replicated when flushed: `callStep` tiles). -/
theorem C12_axes_concat :
    (∀ (cell : Nat) (e : Ent),
      (expandEnt cell e).count = cell * e.count ∧
      (expandEnt cell e).ids = copies cell (fun c =>
        List.zipWith (fun id (i : Nat) => id ++ toString (c * e.count + i)) e.ids (List.range e.count)) ∧
      (expandEnt cell e).roles = copies cell (fun _ => e.roles) ∧
      (e.isPerson = false → (expandEnt cell e).memb = copies cell (fun c => e.memb.map (· + c * e.count)))) ∧
    (∀ (sys : Sys) (dp : Option String) (entKey : String) (step cell cnt : Nat) (multi : Bool)
      (coords : List Nat) (buf buf' : Buffer) (a : Axis) (var : Var) (ck : List Char) (proto : Vec),
      layAxis sys dp entKey step cell cnt multi coords buf a = .ok buf' →
      sys.var? a.name = some var → var.defUnit ≠ .eternity →
      ∀ (k : DKey), axisKey dp a = some k → canonKey k = .ok ck → a.index < step →
      ((alGet buf (a.name, ck) = none ∧ proto = List.replicate step var.default) ∨
       (alGet buf (a.name, ck) = some proto ∧ proto.length = step)) →
      ∃ vals, mapE (fun c => axisCast var (axisValue a cnt c)) coords = .ok vals ∧
        alGet buf' (a.name, ck) = some (copies cell (fun c =>
          proto.set a.index (vals.getD c (proto.getD a.index default)))) ∧
        ∀ k, k ≠ (a.name, ck) → alGet buf' k = alGet buf k) := by
  refine ⟨?_, ?_⟩
  · intro cell e
    have hids : (expandEnt cell e).ids = copies cell (fun c =>
        List.zipWith (fun id (i : Nat) => id ++ toString (c * e.count + i)) e.ids (List.range e.count)) := by
      unfold expandEnt Ent.count; exact ids_copies e.ids cell
    refine ⟨?_, hids, ?_, ?_⟩
    · show (expandEnt cell e).ids.length = cell * e.count
      rw [hids, copies_length _ e.count (fun c => by simp [Ent.count])]
    · unfold expandEnt; exact tile_eq_copies e.roles cell
    · intro hp
      unfold expandEnt Ent.count
      simp only [hp, Bool.false_eq_true, if_false]
      exact memb_copies e.memb e.ids.length cell
  · intro sys dp entKey step cell cnt multi coords buf buf' a var ck proto h hvar hne k hkey hck hidx hproto
    have hdated : isEternal sys a.name = false := by
      have hn := Sys.var?_name hvar
      rw [← hn, isEternal_of_var (by rw [hn]; exact hvar)]; exact decide_eq_false hne
    unfold layAxis at h
    rw [hvar] at h
    simp only at h
    split at h
    · cases h
    · rw [hkey] at h
      simp only [hck, bufferKey_of_not_eternal hdated] at h
      split at h
      · cases h
      · cases hm : mapE (fun c => axisCast var (axisValue a cnt c)) coords with
        | error e => rw [hm] at h; cases h
        | ok vals =>
          rw [hm] at h
          simp only at h
          refine ⟨vals, rfl, ?_⟩
          have harr : axisArray buf (a.name, ck) cell step var.default = tile cell proto := by
            unfold axisArray
            rcases hproto with ⟨hn, hp⟩ | ⟨hs, hl⟩
            · rw [hn, hp]; exact replicate_tile _ _ _
            · rw [hs]; simp [hl]
          rw [harr] at h
          cases hs : strideSet (tile cell proto) a.index step vals with
          | error e => rw [hs] at h; cases h
          | ok arr' =>
            rw [hs] at h
            cases h
            have hl : proto.length = step := by
              rcases hproto with ⟨_, hp⟩ | ⟨_, hl⟩
              · rw [hp]; simp
              · exact hl
            refine ⟨?_, fun k hk => alGet_alSet_ne _ _ _ _ hk⟩
            rw [alGet_alSet_same, strideSet_copies proto vals arr' a.index step cell hl hidx hs]

open Bld in
/-- **C12_axes_parallel_concat.**  Any number of parallel axes (one list of `axes`; also the
parallel axes of one perpendicular dimension): when the whole list is laid (`foldE layAxis`
succeeds), none of its variables is eternal and no two of its axes write the same variable at the same
period (`axisCell`: variable, canonical period text), then EVERY axis of the list — with its index inside the prototype and its
array buffered at prototype size or absent BEFORE the expansion — ends with the concatenation over
the copies of its prototype array carrying that copy's axis value on the indexed instance, and every
buffered array no axis of the list names is left as it was. -/
theorem C12_axes_parallel_concat (sys : Sys) (dp : Option String) (entKey : String) (step cell cnt : Nat)
    (multi : Bool) (coords : List Nat) :
    ∀ (axes : List Axis) (buf buf' : Buffer),
    foldE (layAxis sys dp entKey step cell cnt multi coords) buf axes = .ok buf' →
    (axes.map (axisCell dp)).Nodup → (∀ a ∈ axes, isEternal sys a.name = false) →
    (∀ a ∈ axes, ∀ (var : Var) (ck : List Char) (proto : Vec),
      sys.var? a.name = some var → axisCell dp a = some (a.name, ck) → a.index < step →
      ((alGet buf (a.name, ck) = none ∧ proto = List.replicate step var.default) ∨
       (alGet buf (a.name, ck) = some proto ∧ proto.length = step)) →
      ∃ vals, mapE (fun c => axisCast var (axisValue a cnt c)) coords = .ok vals ∧
        alGet buf' (a.name, ck) = some (copies cell (fun c =>
          proto.set a.index (vals.getD c (proto.getD a.index default))))) ∧
    (∀ k, (∀ a ∈ axes, axisCell dp a ≠ some k) → alGet buf' k = alGet buf k)
  | [], buf, buf', h, _, _ => by
    cases h
    exact ⟨fun a ha => (by cases ha), fun _ _ => rfl⟩
  | a :: rest, buf, buf', h, hnd, hdated => by
    obtain ⟨buf₁, h1, h2⟩ := foldE_cons_ok _ buf buf' a rest h
    obtain ⟨c', c, hc, _, hcc, hframe'⟩ := layAxis_frame h1
    have hcc' : c' = c := hcc (hdated a List.mem_cons_self)
    have hframe : ∀ k, k ≠ c → alGet buf₁ k = alGet buf k := by rw [← hcc']; exact hframe'
    simp only [List.map_cons, List.nodup_cons] at hnd
    obtain ⟨hnotin, hnd'⟩ := hnd
    obtain ⟨ihax, ihframe⟩ := C12_axes_parallel_concat sys dp entKey step cell cnt multi coords rest buf₁ buf' h2 hnd'
      (fun a' ha' => hdated a' (List.mem_cons_of_mem _ ha'))
    have hcrest : ∀ a' ∈ rest, axisCell dp a' ≠ some c := by
      intro a' ha' e
      apply hnotin
      rw [hc, ← e]
      exact List.mem_map.mpr ⟨a', ha', rfl⟩
    refine ⟨?_, ?_⟩
    · intro a' ha' var ck proto hvar hcell hidx hproto
      rcases List.mem_cons.mp ha' with rfl | ha'
      · -- the head: laid now, untouched afterwards
        have hkey : ∃ k, axisKey dp a' = some k ∧ canonKey k = .ok ck := by
          unfold axisCell at hcell
          cases hk : axisKey dp a' with
          | none => rw [hk] at hcell; cases hcell
          | some k =>
            rw [hk] at hcell
            simp only at hcell
            cases hck : canonKey k with
            | error e => rw [hck] at hcell; cases hcell
            | ok ck' =>
              rw [hck] at hcell
              simp only [Option.some.injEq, Prod.mk.injEq, true_and] at hcell
              exact ⟨k, rfl, by rw [hck, hcell]⟩
        obtain ⟨k, hk1, hk2⟩ := hkey
        have hne : var.defUnit ≠ .eternity := by
          have hd := hdated a' List.mem_cons_self
          have hn := Sys.var?_name hvar
          rw [← hn, isEternal_of_var (by rw [hn]; exact hvar)] at hd
          exact of_decide_eq_false hd
        obtain ⟨vals, hvals, hget, _⟩ := C12_axes_concat.2 sys dp entKey step cell cnt multi coords buf buf₁ a' var ck proto
          h1 hvar hne k hk1 hk2 hidx hproto
        refine ⟨vals, hvals, ?_⟩
        rw [ihframe (a'.name, ck) (fun a'' ha'' => by
          have := hcrest a'' ha''; rw [hc] at hcell; cases hcell; exact this)]
        exact hget
      · -- an axis of the rest: its prototype array is still what it was
        have hne : (a'.name, ck) ≠ c := by
          intro e; exact hcrest a' ha' (by rw [hcell, e])
        have hsame : alGet buf₁ (a'.name, ck) = alGet buf (a'.name, ck) := hframe _ hne
        exact ihax a' ha' var ck proto hvar hcell hidx (by rw [hsame]; exact hproto)
    · intro k hk
      rw [ihframe k (fun a' ha' => hk a' (List.mem_cons_of_mem _ ha'))]
      exact hframe k (fun e => hk a List.mem_cons_self (by rw [hc, e]))
end OFCore
namespace OFCore.Bld


/-! ## refusals -/

/-- every group kind has a role (`flattened_roles[0]` exists) -/
def Sys.RolesOK (sys : Sys) : Prop := ∀ g ∈ sys.groups, g.flatRoles ≠ []

end OFCore.Bld
namespace OFCore
open Bld in
/-- **C12_refuses_class.**  Whatever the document, an error of the entity phase of
`build_from_entities` (persons, groups, memberships, buffered values) is never an ordinary
exception: it is a situation error (or the document uses a value form outside the model). -/
theorem C12_refuses_class (sys : Sys) (hsys : sys.RolesOK) (dp : Option String)
    (params : List (DKey × Doc)) (hasAxes : Bool) (e : BErr)
    (h : buildEntities sys dp params hasAxes = .error e) : e ≠ .other := by
  unfold buildEntities at h
  split at h
  · cases h; decide
  · split at h
    · cases h; decide
    · split at h
      · cases h; decide
      · split at h
        · rename_i e' he; cases h; exact addPersonEntity_error he
        · rename_i pids pws _
          have : ∀ (l : List GroupKind), (∀ g ∈ l, g.flatRoles ≠ []) → ∀ (st : BState) (e : BErr),
              foldE (groupsStep sys dp params hasAxes pids) st l = .error e → e ≠ .other := by
            intro l
            induction l with
            | nil => intro _ st e h; cases h
            | cons g gs ih =>
              intro hl st e h
              unfold foldE at h
              cases hg : groupsStep sys dp params hasAxes pids st g with
              | error e' => rw [hg] at h; cases h; exact groupsStep_error (hl g List.mem_cons_self) hg
              | ok st' => rw [hg] at h; exact ih (fun g' hg' => hl g' (List.mem_cons_of_mem _ hg')) st' e h
          exact this sys.groups hsys _ e h
end OFCore
namespace OFCore.Bld

end OFCore.Bld
namespace OFCore
open Bld in
/-- **C12_refuses** (1): unknown entity, no person.  A key that is no entity plural, a missing,
empty or null persons object: situation error, before anything else is looked at. -/
theorem C12_refuses_unknown_entity (sys : Sys) (dp : Option String) (params : List (DKey × Doc)) (hasAxes : Bool) :
    (params.any (fun kv => unexpectedKey sys kv.1) = true →
      buildEntities sys dp params hasAxes = .error .situation) ∧
    (params.any (fun kv => unexpectedKey sys kv.1) = false →
      (lookupS sys.personPlural params = none ∨ ∃ pj, lookupS sys.personPlural params = some pj ∧ pj.truthy = false) →
      buildEntities sys dp params hasAxes = .error .situation) := by
  refine ⟨?_, ?_⟩
  · intro h; unfold buildEntities; rw [if_pos h]
  · intro h hp
    unfold buildEntities
    rw [h]
    simp only [Bool.false_eq_true, if_false]
    rcases hp with hn | ⟨pj, hs, ht⟩
    · rw [hn]
    · rw [hs]; simp [ht]
end OFCore
namespace OFCore.Bld

end OFCore.Bld
namespace OFCore
open Bld in
/-- a group kind is refused as soon as its instances list an unknown person, list a person twice
(in one role, two roles or two groups), give too many holders to a role, or list something that
is not text -/
theorem C12_refuses_membership (sys : Sys) (dp : Option String) (g : GroupKind) (personsIds : List String)
    (kvs : List (DKey × Doc)) (buf : Buffer)
    (hbad : (∃ p ∈ listedPersons g kvs, p ∉ personsIds) ∨ ¬ (listedPersons g kvs).Nodup ∨
      (∃ kv ∈ kvs, ∃ ikvs, kv.2.asObj? = some ikvs ∧ (roleDocs g ikvs).all maxOk = false) ∨
      (∃ kv ∈ kvs, kv.2.asObj? = none)) :
    ∀ r, addGroupEntity sys dp g personsIds (.obj kvs) buf ≠ .ok r := by
  intro ⟨e, buf'⟩ h
  obtain ⟨acc, hf, _⟩ := addGroupEntity_ok h
  obtain ⟨⟨hnd, hmem, _⟩, _, _, hmax⟩ := groupLoop_ok kvs _ acc hf
  rcases hbad with ⟨p, hp, hn⟩ | hn | ⟨kv, hkv, ikvs, ho, hm⟩ | ⟨kv, hkv, ho⟩
  · exact hn (hmem p hp).2
  · exact hn hnd
  · obtain ⟨ikvs', ho', hm'⟩ := hmax kv hkv
    rw [ho] at ho'; cases ho'
    rw [hm] at hm'; cases hm'
  · obtain ⟨ikvs', ho', _⟩ := hmax kv hkv
    rw [ho] at ho'; cases ho'
end OFCore
namespace OFCore.Bld

end OFCore.Bld
namespace OFCore
open Bld in
/-- the persons are refused as soon as one instance names an unknown variable or a variable of
another entity, spells a period that does not parse, or gives a value that `checkSetValue`
refuses (text for a number, unknown enum name, impossible date, a list or an object as a value:
see `C12_refuses_value`) -/
theorem C12_refuses_person_input (sys : Sys) (dp : Option String) (kvs : List (DKey × Doc))
    (idk : DKey) (vars : List (DKey × Doc)) (hi : (idk, Doc.obj vars) ∈ kvs)
    (vk : DKey) (vd : Doc) (hv : (vk, vd) ∈ vars)
    (hbad : sys.var? vk.text = none ∨ (∃ var, sys.var? vk.text = some var ∧ var.entity ≠ sys.personKey) ∨
      (∃ var pvs k x, sys.var? vk.text = some var ∧ variablePairs dp vd = some pvs ∧ (k, x) ∈ pvs ∧
        ((∃ err, parseKey k = .error err) ∨ (x.isNull = false ∧ ∃ e, checkSetValue var x = .error e))) ∨
      (∃ var, sys.var? vk.text = some var ∧ variablePairs dp vd = none)) :
    ∀ r, addPersonEntity sys dp (.obj kvs) ≠ .ok r := by
  intro ⟨ids, ws⟩ h
  obtain ⟨_, wss, hm, _⟩ := addPersonEntity_ok h
  refine mapE_not_ok_of_mem _ kvs (idk, Doc.obj vars) hi ?_ wss hm
  intro ws' hp
  obtain ⟨vars', ho, hiw⟩ := personInstance_ok hp
  simp only [Doc.asObj?, Option.some.injEq] at ho
  subst ho
  obtain ⟨wss', hm', _⟩ := instanceWrites_ok hiw
  refine mapE_not_ok_of_mem _ vars (vk, vd) hv ?_ wss' hm'
  intro ws'' hvw
  obtain ⟨var, pvs, os, hvar, hent, hpairs, hmo, _⟩ := variableWrites_ok hvw
  rcases hbad with hn | ⟨var', hs, hne⟩ | ⟨var', pvs', k, x, hs, hp', hkx, hb⟩ | ⟨var', hs, hp'⟩
  · rw [hn] at hvar; cases hvar
  · rw [hs] at hvar; cases hvar; exact hne hent
  · rw [hs] at hvar; cases hvar
    rw [hp'] at hpairs; cases hpairs
    refine mapE_not_ok_of_mem _ pvs (k, x) hkx ?_ os hmo
    intro o ho
    obtain ⟨ck, hck, hcase⟩ := valueWrite_ok ho
    rcases hb with ⟨err, herr⟩ | ⟨hnn, e, he⟩
    · unfold canonKey at hck; rw [herr] at hck; cases hck
    · rcases hcase with ⟨hnull, _⟩ | ⟨_, val, hval, _⟩
      · simp only at hnull; rw [hnn] at hnull; cases hnull
      · simp only at hval; rw [he] at hval; cases hval
  · rw [hs] at hvar; cases hvar
    rw [hp'] at hpairs; cases hpairs
end OFCore
namespace OFCore.Bld

end OFCore.Bld
namespace OFCore
open Bld in
/-- what `checkSetValue` refuses with a situation error, class by class of the statement -/
theorem C12_refuses_value (var : Var) :
    -- a name that is not a member of the enumeration
    (∀ names s, var.vtype = .enum names → s ∉ names → checkSetValue var (.str s) = .error .situation) ∧
    -- a list of two or more items where one value is expected (repair C12c), whatever the type but text
    (∀ xs : List Doc, 2 ≤ xs.length → var.vtype ≠ .str → checkSetValue var (.arr xs) = .error .situation) ∧
    -- an object where a number, a date or an enum member is expected
    (∀ kvs, var.vtype = .float ∨ var.vtype = .int ∨ var.vtype = .date ∨ (∃ n, var.vtype = .enum n) →
      checkSetValue var (.obj kvs) = .error .situation) ∧
    -- a word for a number
    (∀ s : String, var.vtype = .float ∨ var.vtype = .int → s.toList.all exprAlphabet = false →
      isPlainWord s.toList = true → checkSetValue var (.str s) = .error .situation) ∧
    -- text over the arithmetic alphabet that is not an expression (`1 +`, `2018-01-01`, ``)
    (∀ s : String, var.vtype = .float ∨ var.vtype = .int → s.toList.all exprAlphabet = true →
      hasPower s.toList = false → s.toList.head? ≠ some ' ' →
      (lexExpr (s.toList.length + 1) s.toList = none ∨
        ∃ toks, lexExpr (s.toList.length + 1) s.toList = some toks ∧ parseUnary toks = none) →
      checkSetValue var (.str s) = .error .situation) ∧
    -- an impossible calendar date in ISO form
    (∀ (s : String) (y m d : Nat), var.vtype = .date → lexIso s.toList = some (.ymd y m d) → y ≠ 0 →
      dateOk ⟨y, m, d⟩ = false → checkSetValue var (.str s) = .error .situation) := by
  refine ⟨?_, ?_, ?_, ?_, ?_, ?_⟩
  · intro names s hv hs
    unfold checkSetValue; rw [hv]; simp [hs]
  · intro xs hl hv
    have h1 : xs.length ≠ 1 := by omega
    unfold checkSetValue
    cases hvt : var.vtype <;> simp [listAsScalar, h1, hl] <;> exact absurd hvt hv
  · intro kvs hv
    unfold checkSetValue
    rcases hv with h | h | h | ⟨n, h⟩ <;> rw [h]
  · intro s hv ha hw
    unfold checkSetValue
    rcases hv with h | h <;> rw [h] <;> simp [numOfText, ha, hw, Except.map]
  · intro s hv ha hp hh hl
    have hnum : numOfText s = .error .situation := by
      unfold numOfText
      simp only [ha, if_true, hp, Bool.false_eq_true, if_false, hh]
      rcases hl with hn | ⟨toks, hs, hu⟩
      · rw [hn]
      · rw [hs]; simp only [hu]
    unfold checkSetValue
    rcases hv with h | h <;> rw [h] <;> simp [hnum, Except.map]
  · intro s y m d hv hl hy hd
    unfold checkSetValue
    rw [hv]
    simp [dateOfText, hl, hy, hd, Except.map]
end OFCore
namespace OFCore.Bld

end OFCore.Bld
namespace OFCore
open Bld in
/-- more refusals of `checkSetValue` (repair C12n): for an integer variable an integer or a float
outside the `int32` range is a situation error, and inside it the integer is placed exactly (a
float is truncated); for an enum an integer or a float outside the `int16` range of the index is a
situation error; a date variable refuses an integer that does not fit a C `long`; a
`datetime.date` is refused for a number or an enum and accepted for a date. -/
theorem C12_refuses_value_range (var : Var) :
    (∀ i : Int, var.vtype = .int →
      checkSetValue var (.int i) = if -2147483648 ≤ i ∧ i ≤ 2147483647 then .ok (.int i) else .error .situation) ∧
    (∀ r : Rat, var.vtype = .int →
      checkSetValue var (.num r) =
        if (-2147483648 : Rat) ≤ r ∧ r ≤ 2147483647 then .ok (.int (truncR r)) else .error .situation) ∧
    (∀ (n : List String) (i : Int), var.vtype = .enum n → ¬ (-32768 ≤ i ∧ i ≤ 32767) →
      checkSetValue var (.int i) = .error .situation) ∧
    (∀ (n : List String) (r : Rat), var.vtype = .enum n → ¬ ((-32768 : Rat) ≤ r ∧ r ≤ 32767) →
      checkSetValue var (.num r) = .error .situation) ∧
    (∀ i : Int, var.vtype = .date → inInt64 i = false → checkSetValue var (.int i) = .error .situation) ∧
    (∀ o : Int, var.vtype = .float ∨ var.vtype = .int ∨ (∃ n, var.vtype = .enum n) →
      checkSetValue var (.date o) = .error .situation) ∧
    (∀ o : Int, var.vtype = .date → checkSetValue var (.date o) = .ok (.date o)) := by
  have hcast : ∀ (lo hi i : Int), ratIn lo hi (i : Rat) = decide (lo ≤ i ∧ i ≤ hi) := by
    intro lo hi i
    unfold ratIn
    simp only [Rat.intCast_le_intCast]
  refine ⟨?_, ?_, ?_, ?_, ?_, ?_, ?_⟩
  · intro i hv
    unfold checkSetValue
    rw [hv]
    simp only [ratInInt32, hcast]
    by_cases h : -2147483648 ≤ i ∧ i ≤ 2147483647 <;> simp [h]
  · intro r hv
    unfold checkSetValue
    rw [hv]
    simp only [ratInInt32, ratIn]
    by_cases h : (-2147483648 : Rat) ≤ r ∧ r ≤ 2147483647
    · simp [h]
    · simp [h]
  · intro n i hv hi
    unfold checkSetValue
    rw [hv]
    simp only [ratInInt16, hcast]
    simp [hi]
  · intro n r hv hr
    unfold checkSetValue
    rw [hv]
    simp only [ratInInt16, ratIn]
    simp [hr]
  · intro i hv hi
    unfold checkSetValue
    rw [hv]; simp [hi]
  · intro o hv
    unfold checkSetValue
    rcases hv with h | h | ⟨n, h⟩ <;> rw [h]
  · intro o hv
    unfold checkSetValue
    rw [hv]

end OFCore
namespace OFCore.Bld
end OFCore.Bld
namespace OFCore
open Bld in
/-- **period mismatch** (the instance of `set_input` run by the driver): a variable without
`set_input` attribute that is not eternal refuses — with the situation error the builder makes of
`PeriodMismatchError` — a period of another unit or of more than one unit, and `ETERNITY`;
consequently the flush of that variable does not produce a simulation. -/
theorem C12_refuses_period_mismatch (var : Var) (hr : var.rule = .absent) (hne : var.defUnit ≠ .eternity)
    (count : Nat) (p : Period) (hp : p.unit ≠ var.defUnit ∨ 1 < p.size) :
    (∀ (store : Store) (arr : Vec), arr.length = count →
      stdSetInput store var count p arr = .error .situation) ∧
    (endGuard var p = .ok true → ∀ (buf : Buffer) (ps : List Period) (store : Store), p ∈ ps →
      ∀ s', foldE (callStep stdSetInput buf var count) store ps ≠ .ok s') := by
  have hmis : ∀ (store : Store) (arr : Vec), arr.length = count →
      stdSetInput store var count p arr = .error .situation := by
    intro store arr hl
    unfold stdSetInput
    by_cases he : p.unit = .eternity ∧ var.defUnit ≠ .eternity
    · rw [if_pos he]
    · rw [if_neg he, hr]
      simp only
      unfold holderSet
      rw [if_neg (by simpa using hl)]
      have : var.defUnit ≠ .eternity ∧ (var.defUnit ≠ p.unit ∨ p.size > 1) := by
        refine ⟨hne, ?_⟩
        rcases hp with h | h
        · exact Or.inl (fun e => h e.symm)
        · exact Or.inr h
      rw [if_pos this]
  refine ⟨hmis, ?_⟩
  intro hguard buf ps store hmem s'
  refine foldE_not_ok_of_mem _ p ?_ ps hmem store s'
  intro s s'' hc
  obtain ⟨values, _, _, hcase⟩ := callStep_ok hc
  rcases hcase with ⟨hg, _⟩ | ⟨_, hc⟩
  · rw [hguard] at hg; cases hg
  · by_cases hl : (tile (count / values.length) values).length = count
    · rw [hmis s _ hl] at hc; cases hc
    · -- the length test of `_to_array` comes first: an ordinary exception, still no simulation
      unfold stdSetInput at hc
      by_cases he : p.unit = .eternity ∧ var.defUnit ≠ .eternity
      · rw [if_pos he] at hc; cases hc
      · rw [if_neg he, hr] at hc
        simp only at hc
        unfold holderSet at hc
        rw [if_pos hl] at hc; cases hc

open Bld in
/-- **C12_end_inclusive.**  A variable's `end` date is inclusive for the inputs of a situation: a
buffered value whose period starts on or before the end date — in particular EXACTLY on it — is
handed to `set_input` like any other (`callStep`; the variables-only form reads the same
`endGuard` in `setInputDoc`); one whose period starts after it is ignored and leaves the store as
it is. -/
theorem C12_end_inclusive (si : SetInput) (var : Var) (e : Date) (hstop : var.stop = some e)
    (q : Period) (hq : q.unit ≠ .eternity) :
    (q.start.le e → endGuard var q = .ok true) ∧ (q.start = e → endGuard var q = .ok true) ∧
    (¬ q.start.le e → endGuard var q = .ok false) ∧
    (∀ (buf : Buffer) (count : Nat) (store : Store) (values : Vec),
      alGet buf (var.name, q.text) = some values → values.length ≠ 0 →
      callStep si buf var count store q =
        if q.start.le e then si store var count q (tile (count / values.length) values) else .ok store) := by
  have hg : endGuard var q = .ok (decide (q.start.le e)) := by
    unfold endGuard; rw [hstop]; simp only [if_neg hq]
  refine ⟨?_, ?_, ?_, ?_⟩
  · intro h; rw [hg, decide_eq_true h]
  · intro h
    have : q.start.le e := Or.inl h
    rw [hg, decide_eq_true this]
  · intro h; rw [hg, decide_eq_false h]
  · intro buf count store values hv hz
    unfold callStep
    rw [hv]
    simp only [if_neg hz, hg]
    by_cases h : q.start.le e
    · rw [decide_eq_true h, if_pos h]
    · rw [decide_eq_false h, if_neg h]

end OFCore
namespace OFCore.Bld


end OFCore.Bld
namespace OFCore
open Bld in
/-- **C12_refuses.**  The two halves together, for the inputs of the persons: a document whose
persons object holds an instance with an unknown variable, a variable of another entity, a period
key that does not parse or a value `checkSetValue` refuses is not built, and the error is not an
ordinary exception (situation error; `unmodelled` only when the document leaves the value forms of
the model).  The other classes: `C12_refuses_unknown_entity` (exactly `situation`),
`C12_refuses_membership` with `C12_refuses_class`, `C12_refuses_value`, `C12_refuses_period_mismatch`. -/
theorem C12_refuses (sys : Sys) (hsys : sys.RolesOK) (dp : Option String) (params : List (DKey × Doc))
    (hasAxes : Bool) (kvs : List (DKey × Doc)) (hpersons : lookupS sys.personPlural params = some (.obj kvs))
    (idk : DKey) (vars : List (DKey × Doc)) (hi : (idk, Doc.obj vars) ∈ kvs)
    (vk : DKey) (vd : Doc) (hv : (vk, vd) ∈ vars)
    (hbad : sys.var? vk.text = none ∨ (∃ var, sys.var? vk.text = some var ∧ var.entity ≠ sys.personKey) ∨
      (∃ var pvs k x, sys.var? vk.text = some var ∧ variablePairs dp vd = some pvs ∧ (k, x) ∈ pvs ∧
        ((∃ err, parseKey k = .error err) ∨ (x.isNull = false ∧ ∃ e, checkSetValue var x = .error e))) ∨
      (∃ var, sys.var? vk.text = some var ∧ variablePairs dp vd = none)) :
    ∃ e, buildEntities sys dp params hasAxes = .error e ∧ e ≠ .other := by
  cases hb : buildEntities sys dp params hasAxes with
  | error e => exact ⟨e, rfl, C12_refuses_class sys hsys dp params hasAxes e hb⟩
  | ok st =>
    exfalso
    unfold buildEntities at hb
    split at hb
    · cases hb
    · rw [hpersons] at hb
      simp only at hb
      split at hb
      · cases hb
      · split at hb
        · cases hb
        · rename_i pids pws hp
          exact C12_refuses_person_input sys dp kvs idk vars hi vk vd hv hbad (pids, pws) hp
end OFCore
namespace OFCore

open Bld in
/-- **C12_canon_key.**  The buffer key is canonical: whatever the spelling `k` of a period `p`
(well-formed, aligned to its own unit, four-digit years — what every spelling of the quantifier
denotes), the key under which its value is buffered is `p`'s own text, that text read again as a key
lands on the same key (canonicalisation is idempotent), and any two spellings of one period land on
one key. -/
theorem C12_canon_key (k : DKey) (p : Period) (hk : parseKey k = .ok p)
    (hwf : p.WF) (hal : OwnAligned p) (hdom : InTextDomain p) :
    canonKey k = .ok p.text ∧
    canonKey (.s (String.ofList p.text)) = .ok p.text ∧
    (∀ k', parseKey k' = .ok p → canonKey k' = canonKey k) := by
  have h1 : canonKey k = .ok p.text := by unfold canonKey; rw [hk]; rfl
  refine ⟨h1, ?_, fun k' hk' => by rw [h1]; unfold canonKey; rw [hk']; rfl⟩
  obtain ⟨p', hp', _, _, ht, _⟩ := C05_parse_print p hwf hal hdom
  unfold canonKey parseKey
  simp only [String.toList_ofList, hp']
  show Except.ok p'.text = Except.ok p.text
  rw [ht]

open Bld in
/-- **C12_default_simulation.**  `build_default_simulation(system, count)` and the variables-only
form: `count` persons `0 … count-1`; of every group kind `count` groups bearing the same ids, person
`i` alone in group `i` with the first role of the kind; `build_default_simulation` stores no input;
the variables-only form has the entities of the default simulation for `_person_count` persons. -/
theorem C12_default_simulation (sys : Sys) (count : Nat) :
    (buildDefault sys count).store = [] ∧
    (∃ pe rest, (buildDefault sys count).ents = pe :: rest ∧ pe.key = sys.personKey ∧ pe.isPerson = true ∧
      pe.count = count ∧ (∀ i, i < count → pe.ids[i]? = some (toString i)) ∧
      rest.length = sys.groups.length ∧
      ∀ (j : Nat) (g : GroupKind), sys.groups[j]? = some g → ∃ e, rest[j]? = some e ∧ e.key = g.key ∧
        e.count = count ∧ e.ids = pe.ids ∧
        ∀ i, i < count → e.memb[i]? = some i ∧ e.roles[i]? = some (g.flatRoles.headD "")) ∧
    (∀ (dp : Option String) (si : SetInput) (kvs : List (DKey × Doc)) (sim : Sim),
      buildFromVariables sys dp si kvs = .ok sim →
      ∃ n, personCount kvs = .ok n ∧ sim.ents = (buildDefault sys n).ents) := by
  refine ⟨rfl, ?_, ?_⟩
  · refine ⟨_, _, rfl, rfl, rfl, by simp [Ent.count], ?_, by simp, ?_⟩
    · intro i hi; simp [hi]
    · intro j g hg
      refine ⟨⟨g.key, g.plural, false, (List.range count).map (fun (k : Nat) => toString k), List.range count,
        List.replicate count (g.flatRoles.headD "")⟩, by simp only [List.getElem?_map, hg, Option.map_some],
        rfl, by simp [Ent.count], rfl, ?_⟩
      intro i hi
      simp [hi]
  · intro dp si kvs sim h
    unfold buildFromVariables at h
    cases hc : personCount kvs with
    | error e => rw [hc] at h; cases h
    | ok n =>
      rw [hc] at h
      simp only at h
      cases h1 : foldE (datedStep sys si n) [] kvs with
      | error e => rw [h1] at h; cases h
      | ok s1 =>
        rw [h1] at h
        simp only at h
        cases h2 : foldE (undatedStep sys dp si n) s1 kvs with
        | error e => rw [h2] at h; cases h
        | ok s2 => rw [h2] at h; cases h; exact ⟨n, rfl, rfl⟩

open Bld in
/-- **C12_join.**  `declare_entity` + `join_with_persons` (repair F-C11b): when the declarations are
accepted, the group ids are the declared ones, every person is recorded in THE declared group that
bears the id given for that person — whatever the order of the declared ids, and whether or not some
declared group stays without member — with the role given for that person: the key itself, or the
flattened role at the given index. -/
theorem C12_join (sys : Sys) (npersons : Nat) (j : Joined) (e : Ent) (h : joinOne sys npersons j = .ok e) :
    e.ids = j.ids ∧ e.memb.length = npersons ∧ e.roles.length = npersons ∧
    (∀ (i : Nat) (a : String), j.assign[i]? = some a →
      ∃ m, e.memb[i]? = some m ∧ j.ids[m]? = some a ∧ ∀ m', j.ids[m']? = some a → m' = m) ∧
    (∃ g, sys.groups.find? (fun g => g.key == j.kind) = some g ∧ e.key = g.key ∧
      ∀ (i : Nat) (r : RoleRef), j.roles[i]? = some r →
        (∀ k, r = .key k → e.roles[i]? = some k ∧ k ∈ g.flatRoles) ∧
        (∀ t, r = .idx t → e.roles[i]? = g.flatRoles[t]? ∧ t < g.flatRoles.length)) := by
  unfold joinOne at h
  cases hg : sys.groups.find? (fun g => g.key == j.kind) with
  | none => rw [hg] at h; cases h
  | some g =>
    rw [hg] at h
    simp only at h
    split at h
    · cases h
    · rename_i hlen
      have hlen' : j.assign.length = npersons ∧ j.roles.length = npersons := by
        constructor
        · exact Decidable.byContradiction (fun c => hlen (Or.inl c))
        · exact Decidable.byContradiction (fun c => hlen (Or.inr c))
      cases hm : joinMemb j.ids j.assign with
      | error x => rw [hm] at h; cases h
      | ok memb =>
        rw [hm] at h
        simp only at h
        cases hr : joinRoles g.flatRoles j.roles with
        | error x => rw [hr] at h; cases h
        | ok roles =>
          rw [hr] at h
          cases h
          unfold joinMemb at hm
          split at hm
          · rename_i hnd
            refine ⟨rfl, ?_, ?_, ?_, g, rfl, rfl, ?_⟩
            · show memb.length = npersons
              rw [mapE_length _ _ _ hm]; exact hlen'.1
            · show roles.length = npersons
              have : roles.length = j.roles.length := by
                unfold joinRoles at hr
                split at hr
                · cases hr
                · exact mapE_length _ _ _ hr
                · exact mapE_length _ _ _ hr
              rw [this]; exact hlen'.2
            · intro i a ha
              obtain ⟨m, hm1, hm2⟩ := mapE_getElem? _ _ _ hm i a ha
              by_cases hmem : a ∈ j.ids
              · rw [if_pos hmem] at hm2
                cases hm2
                have hlt := List.idxOf_lt_length_of_mem hmem
                refine ⟨_, hm1, ?_, ?_⟩
                · rw [List.getElem?_eq_getElem hlt, List.getElem_idxOf hlt]
                · intro m' hm'
                  obtain ⟨hlt', hget⟩ := List.getElem?_eq_some_iff.mp hm'
                  have h1 : j.ids[j.ids.idxOf a]'hlt = a := List.getElem_idxOf hlt
                  exact (List.getElem_inj (h₀ := hlt') (h₁ := hlt) hnd).mp (by rw [hget, h1])
              · rw [if_neg hmem] at hm2; cases hm2
            · intro i r hri
              unfold joinRoles at hr
              split at hr
              · cases hr
              · obtain ⟨b, hb1, hb2⟩ := mapE_getElem? _ _ _ hr i r hri
                refine ⟨?_, ?_⟩
                · intro k hk; subst hk; simp only at hb2; cases hb2
                · intro t ht; subst ht
                  simp only at hb2
                  cases hf : g.flatRoles[t]? with
                  | none => rw [hf] at hb2; cases hb2
                  | some k =>
                    rw [hf] at hb2; cases hb2
                    exact ⟨hb1, (List.getElem?_eq_some_iff.mp hf).1⟩
              · obtain ⟨b, hb1, hb2⟩ := mapE_getElem? _ _ _ hr i r hri
                refine ⟨?_, ?_⟩
                · intro k hk; subst hk
                  simp only at hb2
                  by_cases hkm : k ∈ g.flatRoles
                  · rw [if_pos hkm] at hb2; cases hb2; exact ⟨hb1, hkm⟩
                  · rw [if_neg hkm] at hb2; cases hb2
                · intro t ht; subst ht; simp only at hb2; cases hb2
          · cases hm


open Bld in
/-- **C12_refuses_axis** (repair C12-errclass-axes).  A fully specified document whose entities are
accepted and whose `axes` have the documented shape, but one of whose axes — any axis of any
dimension — names a variable the system does not have, gives no period when the builder has no
default period, or spells a period that does not parse, is refused with a SITUATION error (before
anything is expanded), never with an ordinary exception. -/
theorem C12_refuses_axis (sys : Sys) (dp : Option String) (si : SetInput) (kvs : List (DKey × Doc))
    (st : BState) (ad : Doc) (dims : List (List Axis))
    (haxes : getEntityDoc "axes" kvs = some ad)
    (hb : buildEntities sys dp (kvs.filter (fun kv => !isAxesKey kv.1)) true = .ok st)
    (hp : parseAxes ad = .ok dims)
    (a : Axis) (ha : a ∈ dims.flatten)
    (hbad : sys.var? a.name = none ∨ axisKey dp a = none ∨ ∃ k err, axisKey dp a = some k ∧ parseKey k = .error err) :
    buildFromEntities sys dp si kvs = .error .situation := by
  have hcheck : ∀ (u : Unit) (e : BErr), checkAxis sys dp a ≠ .ok u := by
    intro u e h
    unfold checkAxis at h
    rcases hbad with hn | hn | ⟨k, err, hk, hpk⟩
    · rw [hn] at h; cases h
    · cases hv : sys.var? a.name with
      | none => rw [hv] at h; cases h
      | some _ => rw [hv, hn] at h; cases h
    · cases hv : sys.var? a.name with
      | none => rw [hv] at h; cases h
      | some _ =>
        rw [hv, hk] at h
        simp only [canonKey, hpk, Except.map] at h
        cases h
  have hsit : ∀ (a' : Axis) (e : BErr), checkAxis sys dp a' = .error e → e = .situation := by
    intro a' e h
    unfold checkAxis at h
    cases hv : sys.var? a'.name with
    | none => rw [hv] at h; cases h; rfl
    | some _ =>
      rw [hv] at h
      simp only at h
      cases hk : axisKey dp a' with
      | none => rw [hk] at h; cases h; rfl
      | some k =>
        rw [hk] at h
        simp only at h
        cases hc : canonKey k with
        | error x => rw [hc] at h; cases h; rfl
        | ok x => rw [hc] at h; cases h
  unfold buildFromEntities
  simp only [haxes, Option.isSome_some, hb, hp]
  cases hf : foldE (fun (_ : Unit) a => checkAxis sys dp a) () dims.flatten with
  | ok u =>
    exact absurd hf (foldE_not_ok_of_mem _ a (fun s s' h => hcheck s' .situation h) dims.flatten ha () u)
  | error e =>
    have := foldE_error (fun (_ : Unit) a => checkAxis sys dp a) (fun e => e = .situation)
      (fun s x e h => hsit x e h) dims.flatten () e hf
    rw [this]
end OFCore
namespace OFCore.Bld

/-! ## the hypotheses are satisfiable: one concrete situation -/

def exHousehold : GroupKind := ⟨"household", "households",
  [⟨"parent", some "parents", some 2, ["first_parent", "second_parent"]⟩, ⟨"child", some "children", none, []⟩]⟩
def exSalary : Var := ⟨"salary", "person", .float, .month, .num 0, .absent, none⟩
def exStatus : Var := ⟨"status", "person", .enum ["single", "couple"], .month, .enum 0, .absent, none⟩
def exSys : Sys := ⟨"person", "persons", [exHousehold],
  [exSalary, ⟨"rent", "household", .float, .month, .num 0, .absent, none⟩, exStatus,
   ⟨"birth", "person", .date, .eternity, .date 719163, .absent, none⟩]⟩
def exPersons : List (DKey × Doc) :=
  [(.s "a", .obj [(.s "salary", .obj [(.s "month:2018-01", .int 100)])]),
   (.s "b", .obj [(.s "salary", .obj [(.s "2018-01", .num (5/2))])]), (.s "c", .obj [])]
def exPersons' : List (DKey × Doc) :=
  [(.s "a", .obj [(.s "salary", .obj [(.s "2018-01", .int 100)])]),
   (.s "b", .obj [(.s "salary", .obj [(.s "month:2018-01:1", .num (5/2))])]), (.s "c", .obj [])]
def exHouseholds : List (DKey × Doc) :=
  [(.s "h", .obj [(.s "parents", .arr [.str "b", .str "a"]), (.s "rent", .obj [(.s "2018-01", .int 5)])])]
def exJan : Period := ⟨.month, ⟨2018, 1, 1⟩, 1⟩
def exWs : List Write :=
  [⟨"salary", "2018-01".toList, 0, .num 100, 3, .num 0⟩, ⟨"salary", "2018-01".toList, 1, .num (5/2), 3, .num 0⟩]

-- C12_value_placed, C12_entities: three persons, two values under two spellings of January 2018
example : addPersonEntity exSys none (.obj exPersons) = .ok (["a", "b", "c"], exWs) := by decide +kernel
example : parseKey (.s "month:2018-01") = .ok exJan ∧ exJan.text = "2018-01".toList := by decide +kernel
example : alGet (applyWrites [] exWs) ("salary", exJan.text) = some [.num 100, .num (5/2), .num 0] := by
  decide +kernel
example : ∃ val arr, checkSetValue exSalary (.int 100) = .ok val ∧
    alGet (applyWrites [] (resolveKeys exSys exWs)) (exSalary.name, exJan.text) = some arr ∧
    arr.length = exPersons.length ∧ arr[(["a", "b", "c"] : List String).idxOf "a"]? = some val :=
  (C12_value_placed exSys none exPersons ["a", "b", "c"] exWs (by decide +kernel) [] _ (.s "a") _ rfl
    (by decide) [] [] (.s "salary") _ rfl (by simp) exSalary (by decide +kernel) (by decide) _ [] [] rfl
    (.s "month:2018-01") (.int 100) rfl rfl exJan (by decide +kernel) (by simp)).2
-- C12_eternal_one_entry (repair C12j): a's birth under a dated key, b's under ETERNITY: one entry, both kept
example : isEternal exSys "birth" = true ∧
    applyWrites [] (resolveKeys exSys [⟨"birth", "2018-01".toList, 0, .date 722848, 2, .date 719163⟩,
      ⟨"birth", "ETERNITY".toList, 1, .date 726501, 2, .date 719163⟩]) =
    [(("birth", "2018-01".toList), [.date 722848, .date 726501])] := by decide +kernel
example : (buildFromDict exSys none stdSetInput (.obj [(.s "persons", .obj [
      (.s "a", .obj [(.s "birth", .obj [(.s "2018-01", .str "1980-02-03")])]),
      (.s "b", .obj [(.s "birth", .obj [(.s "ETERNITY", .str "1990-02-03")])])])])
    ).toOption.map (fun s => s.store.map (fun e => (e.1.1, e.1.2.text, e.2))) =
    some [("birth", "ETERNITY".toList, [.date 722848, .date 726501])] := by decide +kernel
-- C12_value_default: c declares nothing: the default at c's index
example : (alGet (applyWrites [] (resolveKeys exSys exWs)) ("salary", exJan.text)).map (fun a => a[(["a", "b", "c"] : List String).idxOf "c"]?)
    = some (some exSalary.default) := by decide +kernel
-- C12_value_placed_group: the rent of h at index 0, the default in the group appended for c (repair C12f)
example : (addGroupEntity exSys none exHousehold ["a", "b", "c"] (.obj exHouseholds) []).toOption.map
    (fun r => alGet r.2 ("rent", exJan.text)) = some (some [.num 5, .num 0]) := by decide +kernel
-- C12_membership_roles, C12_own_group: b and a are the two parents of h (sub-roles by index), c is left out
example : (addGroupEntity exSys none exHousehold ["a", "b", "c"] (.obj exHouseholds) []).toOption.map
    (fun r => (r.1.ids, r.1.memb, r.1.roles)) =
    some (["h", "c"], [0, 0, 1], ["second_parent", "first_parent", "first_parent"]) := by decide +kernel
example : leftOut exHousehold ["a", "b", "c"] exHouseholds = ["c"] := by decide +kernel
-- repair C12i: a declared group named after a person left out does not receive that person
example : (addGroupEntity exSys none exHousehold ["a", "b"] (.obj [(.s "a", .obj [(.s "parents", .arr [.str "b"])])]) []
    ).toOption.map (fun r => (r.1.ids, r.1.memb)) = some (["a", "a"], [1, 0]) := by decide +kernel
-- C12_longer_fills_gaps: month, three months, year are flushed in that order
example : (sortedPeriods [(("dv", "2018".toList), [.num 120]), (("dv", "month:2018-01:3".toList), [.num 30]),
    (("dv", "2018-01".toList), [.num 5])] "dv").toOption.map (fun ps => ps.map Period.text) =
    some ["2018-01".toList, "month:2018-01:3".toList, "2018".toList] := by decide +kernel
-- repair C12l: the year is flushed before the 24 months that contain it
example : (sortedPeriods [(("dv", "month:2018-01:24".toList), [.num 2400]), (("dv", "2018".toList), [.num 600])] "dv"
    ).toOption.map (fun ps => ps.map Period.text) = some ["2018".toList, "month:2018-01:24".toList] := by decide +kernel
-- repair C12gh: the short form keeps `axes` and unknown keys (which `build_from_entities` then refuses)
example : (explicitSingular exSys [(.s "household", .obj []), (.s "axes", .arr []), (.s "companies", .obj [])]).map (·.1)
    = [.s "households", .s "axes", .s "companies"] := by decide +kernel
-- repair C12k: both parallel axes of the perpendicular dimension are kept
example : (parseAxes (.arr [.arr [.obj [(.s "name", .str "salary"), (.s "count", .int 2), (.s "min", .int 0), (.s "max", .int 1)]],
    .arr [.obj [(.s "name", .str "rent"), (.s "count", .int 2), (.s "min", .int 0), (.s "max", .int 1)],
          .obj [(.s "name", .str "salary"), (.s "count", .int 2), (.s "min", .int 5), (.s "max", .int 6)]]])
    ).toOption.map (fun dims => dims.map List.length) = some [1, 2] := by decide +kernel
-- C12_end_inclusive: a month variable ending on 2018-02-01 takes the input of 2018-02, ignores 2018-03
example : let v : Var := ⟨"bonus", "person", .float, .month, .num 0, .absent, some ⟨2018, 2, 1⟩⟩
    (callStep plainSetInput [(("bonus", "2018-02".toList), [.num 7])] v 1 [] ⟨.month, ⟨2018, 2, 1⟩, 1⟩).toOption
      = some [(("bonus", ⟨.month, ⟨2018, 2, 1⟩, 1⟩), [.num 7])] ∧
    (callStep plainSetInput [(("bonus", "2018-03".toList), [.num 7])] v 1 [] ⟨.month, ⟨2018, 3, 1⟩, 1⟩).toOption
      = some [] := by decide +kernel
-- C12_spelling_invariant: the two spellings of the same document are related, and both are built
example : All₂ TopEq [(.s "persons", .obj exPersons)] [(.s "persons", .obj exPersons')] := by
  refine .cons ⟨rfl, Or.inr ⟨_, _, rfl, rfl, ?_⟩⟩ .nil
  refine .cons ⟨rfl, Or.inr ⟨_, _, rfl, rfl, ?_⟩⟩ (.cons ⟨rfl, Or.inr ⟨_, _, rfl, rfl, ?_⟩⟩ (.cons ⟨rfl, Or.inl rfl⟩ .nil))
  · exact .cons ⟨rfl, Or.inr ⟨_, _, rfl, rfl, .cons ⟨by decide +kernel, rfl⟩ .nil⟩⟩ .nil
  · exact .cons ⟨rfl, Or.inr ⟨_, _, rfl, rfl, .cons ⟨by decide +kernel, rfl⟩ .nil⟩⟩ .nil
example : (buildFromDict exSys none stdSetInput (.obj [(.s "persons", .obj exPersons), (.s "households", .obj exHouseholds)])
    ).toOption.map (fun s => s.store.map (fun e => (e.1.1, e.1.2.text, e.2))) =
    some [("salary", "2018-01".toList, [.num 100, .num (5/2), .num 0]), ("rent", "2018-01".toList, [.num 5, .num 0])] := by
  decide +kernel
-- C12_spelling_invariant_dict: a short-form document and a variables-only document under two spellings
example : All₂ (DictEq exSys [(.s "persons", .obj exPersons), (.s "household", .obj [(.s "parents", .arr [.str "a", .str "b"]),
      (.s "rent", .obj [(.s "month:2018-01", .int 5)])])])
    [(.s "persons", .obj exPersons), (.s "household", .obj [(.s "parents", .arr [.str "a", .str "b"]),
      (.s "rent", .obj [(.s "month:2018-01", .int 5)])])]
    [(.s "persons", .obj exPersons'), (.s "household", .obj [(.s "parents", .arr [.str "a", .str "b"]),
      (.s "rent", .obj [(.s "2018-01", .int 5)])])] := by
  refine .cons ⟨rfl, ?_⟩ (.cons ⟨rfl, ?_⟩ .nil)
  · rw [if_pos (by decide +kernel), if_neg (by decide +kernel)]
    refine Or.inr ⟨_, _, rfl, rfl, ?_⟩
    refine .cons ⟨rfl, Or.inr ⟨_, _, rfl, rfl, ?_⟩⟩ (.cons ⟨rfl, Or.inr ⟨_, _, rfl, rfl, ?_⟩⟩ (.cons ⟨rfl, Or.inl rfl⟩ .nil))
    · exact .cons ⟨rfl, Or.inr ⟨_, _, rfl, rfl, .cons ⟨by decide +kernel, rfl⟩ .nil⟩⟩ .nil
    · exact .cons ⟨rfl, Or.inr ⟨_, _, rfl, rfl, .cons ⟨by decide +kernel, rfl⟩ .nil⟩⟩ .nil
  · rw [if_pos (by decide +kernel), if_pos (by decide +kernel)]
    refine Or.inr ⟨_, _, rfl, rfl, ?_⟩
    exact .cons ⟨rfl, Or.inl rfl⟩ (.cons ⟨rfl, Or.inr ⟨_, _, rfl, rfl, .cons ⟨by decide +kernel, rfl⟩ .nil⟩⟩ .nil)
example : (buildFromDict exSys none stdSetInput (.obj [(.s "persons", .obj exPersons), (.s "household", .obj [(.s "parents", .arr [.str "a", .str "b"]),
      (.s "rent", .obj [(.s "month:2018-01", .int 5)])])])).toOption.map (fun s => s.ents.map (·.ids)) =
    some [["a", "b", "c"], ["household", "c"]] := by decide +kernel
example : All₂ (DictEq exSys [(.s "salary", .obj [(.s "month:2018-01", .arr [.int 1, .int 2])])])
    [(.s "salary", .obj [(.s "month:2018-01", .arr [.int 1, .int 2])])]
    [(.s "salary", .obj [(.s "2018-01", .arr [.int 1, .int 2])])] := by
  refine .cons ⟨rfl, ?_⟩ .nil
  rw [if_neg (by decide +kernel), if_neg (by decide +kernel), if_pos (by decide +kernel)]
  exact Or.inr ⟨_, _, rfl, rfl, .cons ⟨by decide +kernel, rfl⟩ .nil⟩
example : (buildFromDict exSys none stdSetInput (.obj [(.s "salary", .obj [(.s "month:2018-01", .arr [.int 1, .int 2])])])
    ).toOption.map (fun s => s.store.map (fun e => (e.1.1, e.1.2.text, e.2))) =
    some [("salary", "2018-01".toList, [.num 1, .num 2])] := by decide +kernel
-- C12_canon_key: January 2018 under the spelling "month:2018-01"
example : parseKey (.s "month:2018-01") = .ok exJan ∧ exJan.WF ∧ OwnAligned exJan ∧ InTextDomain exJan ∧
    canonKey (.s (String.ofList exJan.text)) = .ok "2018-01".toList := by
  refine ⟨by decide +kernel, by decide, rfl, ⟨by decide, by decide, by intro h; rcases h with h | h <;> cases h⟩, by decide +kernel⟩
-- C12_axes_parallel_concat: two parallel axes (salary of a, salary of b at another month) over 2 copies of 3 persons
def exAxes : List Axis := [⟨"salary", 2, 0, 10, 0, some (.s "2018-01")⟩, ⟨"salary", 2, 5, 7, 1, some (.s "month:2018-02")⟩]
example : (exAxes.map (axisCell none)).Nodup ∧
    (foldE (layAxis exSys none "person" 3 2 2 false [0, 1]) [(("salary", "2018-01".toList), [.num 100, .num (5/2), .num 0])] exAxes
      ).toOption = some [(("salary", "2018-01".toList), [.num 0, .num (5/2), .num 0, .num 10, .num (5/2), .num 0]),
        (("salary", "2018-02".toList), [.num 0, .num 5, .num 0, .num 0, .num 7, .num 0])] := by decide +kernel
-- C12_default_simulation, C12_join
example : (buildDefault exSys 2).ents = [⟨"person", "persons", true, ["0", "1"], [], []⟩,
    ⟨"household", "households", false, ["0", "1"], [0, 1], ["first_parent", "first_parent"]⟩] := by decide +kernel
example : joinOne exSys 3 ⟨"household", ["h9", "h10", "a"], ["a", "h9", "a"], [.idx 2, .idx 1, .idx 0]⟩ =
    .ok ⟨"household", "households", false, ["h9", "h10", "a"], [2, 0, 2], ["child", "second_parent", "first_parent"]⟩ := by
  decide +kernel
-- C12_axes_concat: two copies, the axis value on the first person of each copy
example : strideSet (tile 2 [.num 9, .num 0]) 0 2 [.num 1, .num 3] = .ok [.num 1, .num 0, .num 3, .num 0] := by
  decide +kernel
example : (expandEnt 2 ⟨"household", "households", false, ["h", "c"], [0, 0, 1], ["p", "p", "q"]⟩).memb
    = [0, 0, 1, 2, 2, 3] := by decide +kernel
-- C12_refuses: unknown entity, unknown variable, unknown enum name, impossible date, text for a number,
-- unparsable period, duplicate membership, too many parents
example : buildEntities exSys none [(.s "persons", .obj exPersons), (.s "companies", .obj [])] false = .error .situation :=
  (C12_refuses_unknown_entity exSys none _ false).1 (by decide +kernel)
-- repair C12-errclass-axes: an axis over an unknown variable, or without any period, is a situation error
example : (match buildFromDict exSys none stdSetInput (.obj [(.s "persons", .obj exPersons), (.s "households", .obj exHouseholds),
      (.s "axes", .arr [.arr [.obj [(.s "name", .str "zz"), (.s "count", .int 2), (.s "min", .int 0), (.s "max", .int 1),
        (.s "period", .str "2018-01")]]])]) with | .error e => some e | .ok _ => none) = some .situation ∧
    (match buildFromDict exSys none stdSetInput (.obj [(.s "persons", .obj exPersons), (.s "households", .obj exHouseholds),
      (.s "axes", .arr [.arr [.obj [(.s "name", .str "salary"), (.s "count", .int 2), (.s "min", .int 0), (.s "max", .int 1)]]])])
      with | .error e => some e | .ok _ => none) = some .situation := by
  constructor <;> decide +kernel
example : exSys.RolesOK := by intro g hg; simp [exSys] at hg; subst hg; decide
example : exSys.var? "zzz" = none := by decide +kernel
example : checkSetValue exStatus (.str "widowed") = .error .situation := by decide +kernel
example : checkSetValue ⟨"birth", "person", .date, .eternity, .date 719163, .absent, none⟩ (.str "2018-02-30") = .error .situation := by
  decide +kernel
example : checkSetValue exSalary (.str "abc") = .error .situation ∧ checkSetValue exSalary (.str "1 +") = .error .situation ∧
    checkSetValue exSalary (.str "2018-01-01") = .error .situation ∧ checkSetValue exSalary (.str "2*3+1.5") = .ok (.num (15/2)) := by
  decide +kernel
example : checkSetValue ⟨"age", "person", .int, .month, .int 0, .absent, none⟩ (.int 9223372036854775808) = .error .situation ∧
    checkSetValue ⟨"age", "person", .int, .month, .int 0, .absent, none⟩ (.int 2147483648) = .error .situation ∧
    checkSetValue ⟨"age", "person", .int, .month, .int 0, .absent, none⟩ (.int (-2147483648)) = .ok (.int (-2147483648)) ∧
    checkSetValue ⟨"age", "person", .int, .month, .int 0, .absent, none⟩ (.num (2147483647 + 1/2)) = .error .situation ∧
    checkSetValue exStatus (.int 32768) = .error .situation ∧ checkSetValue exStatus (.int 1) = .ok (.enum 1) ∧
    checkSetValue exSalary (.date 722848) = .error .situation := by decide +kernel
example : (parseKey (.s "2018-13")).toOption = none ∧ (parseKey (.s "month:2018")).toOption = none ∧
    (parseKey (.s "abc")).toOption = none := by decide +kernel
example : ¬ (listedPersons exHousehold [(.s "h", .obj [(.s "parents", .arr [.str "a"]), (.s "children", .arr [.str "a"])])]).Nodup := by
  decide +kernel
example : (roleDocs exHousehold [(.s "parents", .arr [.str "a", .str "b", .str "c"])]).all maxOk = false := by decide +kernel
example : stdSetInput [] exSalary 1 ⟨.year, ⟨2018, 1, 1⟩, 1⟩ [.num 3] = .error .situation := by decide +kernel

end OFCore.Bld
