import OFCore.Lemmas.Builder
import OFCore.Props.C05
/-!
# C12 — a described situation becomes exactly that simulation

Theorems about the model `OFCore/Builder.lean` (the REPAIRED builder, fixes C12a … C12f), for all
tax-benefit systems and all documents, of any size.  `Holder.set_input` is a parameter
(`SetInput`); what is assumed of it is stated where it is used (`SetInputOK`).
-/
namespace OFCore.Bld
open OFCore

/-! ## values: the declared value, cast, at the instance's index and at the period its key denotes -/

/-- **C12_value_placed** (person entity).  Whatever the document, if the persons are accepted,
then for every instance, every variable entry of it and every `(period key, value)` pair with a
non-null value — provided no later pair of the same entry spells the same period and no later
entry of the instance repeats the variable — the array buffered under
`(variable, canonical text of the period the key denotes)` has one slot per declared person and
holds the value, converted by `checkSetValue`, at the index of the instance. -/
theorem C12_value_placed (sys : Sys) (dp : Option String) (kvs : List (DKey × Doc))
    (ids : List String) (ws : List Write) (h : addPersonEntity sys dp (.obj kvs) = .ok (ids, ws))
    (ipre ipost : List (DKey × Doc)) (idk : DKey) (vars : List (DKey × Doc))
    (hkvs : kvs = ipre ++ (idk, .obj vars) :: ipost)
    (hids : ∀ kv ∈ ipost, kv.1.text ≠ idk.text)
    (vpre vpost : List (DKey × Doc)) (vk : DKey) (vd : Doc) (hvars : vars = vpre ++ (vk, vd) :: vpost)
    (hvk : ∀ kv ∈ vpost, kv.1.text ≠ vk.text)
    (var : Var) (hvar : sys.var? vk.text = some var)
    (pvs ppre ppost : List (DKey × Doc)) (hp : variablePairs dp vd = some pvs)
    (k : DKey) (x : Doc) (hpvs : pvs = ppre ++ (k, x) :: ppost) (hx : x.isNull = false)
    (p : Period) (hk : parseKey k = .ok p)
    (hlater : ∀ kx ∈ ppost, canonKey kx.1 = .ok p.text → kx.2.isNull = true) :
    ids = kvs.map (fun kv => kv.1.text) ∧
    ∃ val arr, checkSetValue var x = .ok val ∧
      alGet (applyWrites [] ws) (var.name, p.text) = some arr ∧
      arr.length = kvs.length ∧ arr[ids.idxOf idk.text]? = some val := by
  obtain ⟨hidseq, wss, hm, rfl⟩ := addPersonEntity_ok h
  refine ⟨hidseq, ?_⟩
  have hck : canonKey k = .ok p.text := by unfold canonKey; rw [hk]; rfl
  subst hkvs
  obtain ⟨wss₁, wss₂, h1, h2, rfl⟩ := mapE_append_ok _ ipre ((idk, .obj vars) :: ipost) wss hm
  obtain ⟨l, wss₃, hl, h3, rfl⟩ := mapE_cons_ok _ (idk, Doc.obj vars) ipost wss₂ h2
  obtain ⟨vars', hvars', hi⟩ := personInstance_ok hl
  simp only [Doc.asObj?, Option.some.injEq] at hvars'
  subst hvars'
  obtain ⟨val, pre, post, hval, rfl, hpost⟩ :=
    instanceWrites_decl hi vpre vpost vk vd hvars hvk var hvar pvs ppre ppost hp k x hpvs hx p.text hck hlater
  have hidmem : idk.text ∈ ids := by rw [hidseq]; simp
  have hlen : ids.length = (ipre ++ (idk, Doc.obj vars) :: ipost).length := by rw [hidseq]; simp
  let w₀ : Write := ⟨var.name, p.text, ids.idxOf idk.text, val, ids.length, var.default⟩
  have hall := mapE_forall₂ _ _ _ hm
  have hsized : ∀ w ∈ (wss₁ ++ (pre ++ w₀ :: post) :: wss₃).flatten, w.size = ids.length := by
    intro w hw
    obtain ⟨l', hl', hwl'⟩ := List.mem_flatten.mp hw
    exact (all₂_person_sized hall l' hl' w hwl').1
  have hdecomp : (wss₁ ++ (pre ++ w₀ :: post) :: wss₃).flatten
      = (wss₁.flatten ++ pre) ++ w₀ :: (post ++ wss₃.flatten) := by
    simp [List.flatten_append, List.append_assoc]
  have hno : ∀ w' ∈ post ++ wss₃.flatten, ¬ (w'.cell = w₀.cell ∧ w'.idx = w₀.idx) := by
    intro w' hw'
    rcases List.mem_append.mp hw' with hw' | hw'
    · exact fun e => hpost w' hw' e.1
    · obtain ⟨l', hl', hwl'⟩ := List.mem_flatten.mp hw'
      have hmem : ∀ kv ∈ ipost, kv.1.text ∈ ids := by
        intro kv hkv; rw [hidseq]; simp only [List.map_append, List.map_cons, List.mem_append, List.mem_cons, List.mem_map]
        exact Or.inr (Or.inr ⟨kv, hkv, rfl⟩)
      have := all₂_person_other_idx hidmem (mapE_forall₂ _ ipost wss₃ h3) hids hmem l' hl' w' hwl'
      exact fun e => this e.2
  obtain ⟨arr, harr, hl', hv'⟩ := applyWrites_last (wss₁.flatten ++ pre) (post ++ wss₃.flatten) w₀ ids.length []
    (by intro w hw _; rw [← hdecomp] at hw; exact hsized w hw)
    (by intro a ha; cases ha)
    (List.idxOf_lt_length_of_mem hidmem) hno
  refine ⟨val, arr, hval, ?_, ?_, hv'⟩
  · rw [hdecomp]; exact harr
  · rw [hl', hlen]

end OFCore.Bld
