import OFCore.Lemmas.Builder
import OFCore.Props.C05
/-!
# C12 — a described situation becomes exactly that simulation

Theorems about the model `OFCore/Builder.lean` (the REPAIRED builder, fixes C12a … C12f), for all
tax-benefit systems and all documents, of any size.  `Holder.set_input` is a parameter
(`SetInput`); what is assumed of it is stated where it is used (`SetInputOK`).
-/
namespace OFCore.Bld
open OFCore

/-! ## values: the declared value, cast, at the instance's index and at the period its key denotes -/

/-- **C12_value_placed** (person entity).  Whatever the document, if the persons are accepted,
then for every instance, every variable entry of it and every `(period key, value)` pair with a
non-null value — provided no later pair of the same entry spells the same period and no later
entry of the instance repeats the variable — the array buffered under
`(variable, canonical text of the period the key denotes)` has one slot per declared person and
holds the value, converted by `checkSetValue`, at the index of the instance. -/
theorem C12_value_placed (sys : Sys) (dp : Option String) (kvs : List (DKey × Doc))
    (ids : List String) (ws : List Write) (h : addPersonEntity sys dp (.obj kvs) = .ok (ids, ws))
    (ipre ipost : List (DKey × Doc)) (idk : DKey) (vars : List (DKey × Doc))
    (hkvs : kvs = ipre ++ (idk, .obj vars) :: ipost)
    (hids : ∀ kv ∈ ipost, kv.1.text ≠ idk.text)
    (vpre vpost : List (DKey × Doc)) (vk : DKey) (vd : Doc) (hvars : vars = vpre ++ (vk, vd) :: vpost)
    (hvk : ∀ kv ∈ vpost, kv.1.text ≠ vk.text)
    (var : Var) (hvar : sys.var? vk.text = some var)
    (pvs ppre ppost : List (DKey × Doc)) (hp : variablePairs dp vd = some pvs)
    (k : DKey) (x : Doc) (hpvs : pvs = ppre ++ (k, x) :: ppost) (hx : x.isNull = false)
    (p : Period) (hk : parseKey k = .ok p)
    (hlater : ∀ kx ∈ ppost, canonKey kx.1 = .ok p.text → kx.2.isNull = true) :
    ids = kvs.map (fun kv => kv.1.text) ∧
    ∃ val arr, checkSetValue var x = .ok val ∧
      alGet (applyWrites [] ws) (var.name, p.text) = some arr ∧
      arr.length = kvs.length ∧ arr[ids.idxOf idk.text]? = some val := by
  obtain ⟨hidseq, wss, hm, rfl⟩ := addPersonEntity_ok h
  refine ⟨hidseq, ?_⟩
  have hck : canonKey k = .ok p.text := by unfold canonKey; rw [hk]; rfl
  subst hkvs
  obtain ⟨wss₁, wss₂, h1, h2, rfl⟩ := mapE_append_ok _ ipre ((idk, .obj vars) :: ipost) wss hm
  obtain ⟨l, wss₃, hl, h3, rfl⟩ := mapE_cons_ok _ (idk, Doc.obj vars) ipost wss₂ h2
  obtain ⟨vars', hvars', hi⟩ := personInstance_ok hl
  simp only [Doc.asObj?, Option.some.injEq] at hvars'
  subst hvars'
  obtain ⟨val, pre, post, hval, rfl, hpost⟩ :=
    instanceWrites_decl hi vpre vpost vk vd hvars hvk var hvar pvs ppre ppost hp k x hpvs hx p.text hck hlater
  have hidmem : idk.text ∈ ids := by rw [hidseq]; simp
  have hlen : ids.length = (ipre ++ (idk, Doc.obj vars) :: ipost).length := by rw [hidseq]; simp
  let w₀ : Write := ⟨var.name, p.text, ids.idxOf idk.text, val, ids.length, var.default⟩
  have hall := mapE_forall₂ _ _ _ hm
  have hsized : ∀ w ∈ (wss₁ ++ (pre ++ w₀ :: post) :: wss₃).flatten, w.size = ids.length := by
    intro w hw
    obtain ⟨l', hl', hwl'⟩ := List.mem_flatten.mp hw
    exact (all₂_person_sized hall l' hl' w hwl').1
  have hdecomp : (wss₁ ++ (pre ++ w₀ :: post) :: wss₃).flatten
      = (wss₁.flatten ++ pre) ++ w₀ :: (post ++ wss₃.flatten) := by
    simp [List.flatten_append, List.append_assoc]
  have hno : ∀ w' ∈ post ++ wss₃.flatten, ¬ (w'.cell = w₀.cell ∧ w'.idx = w₀.idx) := by
    intro w' hw'
    rcases List.mem_append.mp hw' with hw' | hw'
    · exact fun e => hpost w' hw' e.1
    · obtain ⟨l', hl', hwl'⟩ := List.mem_flatten.mp hw'
      have hmem : ∀ kv ∈ ipost, kv.1.text ∈ ids := by
        intro kv hkv; rw [hidseq]; simp only [List.map_append, List.map_cons, List.mem_append, List.mem_cons, List.mem_map]
        exact Or.inr (Or.inr ⟨kv, hkv, rfl⟩)
      have := all₂_person_other_idx hidmem (mapE_forall₂ _ ipost wss₃ h3) hids hmem l' hl' w' hwl'
      exact fun e => this e.2
  obtain ⟨arr, harr, hl', hv'⟩ := applyWrites_last (wss₁.flatten ++ pre) (post ++ wss₃.flatten) w₀ ids.length []
    (by intro w hw _; rw [← hdecomp] at hw; exact hsized w hw)
    (by intro a ha; cases ha)
    (List.idxOf_lt_length_of_mem hidmem) hno
  refine ⟨val, arr, hval, ?_, ?_, hv'⟩
  · rw [hdecomp]; exact harr
  · rw [hl', hlen]


/-! ## entities, memberships, roles -/

/-- the persons listed by the instances of one group kind, in document order -/
def listedPersons (g : GroupKind) (kvs : List (DKey × Doc)) : List String := kvs.flatMap (instListed g)

/-- the persons left out of a group kind, in the order of the persons -/
def leftOut (g : GroupKind) (personsIds : List String) (kvs : List (DKey × Doc)) : List String :=
  personsIds.filter (fun p => !(listedPersons g kvs).contains p)

/-- **C12_entities.**  One entity per declared instance, ids in declaration order: the persons
are the keys of the persons object; a declared group kind has its declared instances followed by
one fresh group per person left out (named after the person, in person order); a group kind the
document omits has one group per person. -/
theorem C12_entities (sys : Sys) (dp : Option String) :
    (∀ (kvs : List (DKey × Doc)) (ids : List String) (ws : List Write),
      addPersonEntity sys dp (.obj kvs) = .ok (ids, ws) →
      ids = kvs.map (fun kv => kv.1.text) ∧ ids.length = kvs.length) ∧
    (∀ (g : GroupKind) (personsIds : List String) (kvs : List (DKey × Doc)) (buf buf' : Buffer) (e : Ent),
      addGroupEntity sys dp g personsIds (.obj kvs) buf = .ok (e, buf') →
      e.key = g.key ∧ e.ids = kvs.map (fun kv => kv.1.text) ++ leftOut g personsIds kvs ∧
      e.count = kvs.length + (leftOut g personsIds kvs).length ∧
      e.memb.length = personsIds.length ∧ e.roles.length = personsIds.length) ∧
    (∀ (g : GroupKind) (personsIds : List String) (e : Ent), addDefaultGroupEntity g personsIds = .ok e →
      e.key = g.key ∧ e.ids = personsIds ∧ e.memb = List.range personsIds.length ∧
      ∃ r0, g.flatRoles.head? = some r0 ∧ e.roles = List.replicate personsIds.length r0) := by
  refine ⟨?_, ?_, ?_⟩
  · intro kvs ids ws h
    obtain ⟨hi, _⟩ := addPersonEntity_ok h
    exact ⟨hi, by rw [hi]; simp⟩
  · intro g personsIds kvs buf buf' e h
    obtain ⟨acc, hf, hk, _, _, hids, ⟨own, _, hm, hr⟩, _⟩ := addGroupEntity_ok h
    obtain ⟨⟨_, _, hta⟩, _, _, _⟩ := groupLoop_ok kvs _ acc hf
    have hleft : acc.toAlloc = leftOut g personsIds kvs := by rw [hta]; rfl
    refine ⟨hk, by rw [hids, hleft], ?_, ?_, ?_⟩
    · unfold Ent.count; rw [hids, hleft]; simp
    · rw [hm]; exact (applyM_length _ _).1
    · rw [hr]; exact (applyM_length _ _).2
  · intro g personsIds e h
    unfold addDefaultGroupEntity at h
    cases hr : g.flatRoles.head? with
    | none => rw [hr] at h; cases h
    | some r0 => rw [hr] at h; cases h; exact ⟨rfl, rfl, rfl, r0, rfl, rfl⟩

/-- **C12_membership_roles.**  If a group kind is accepted then
(1) the persons listed by its instances are pairwise distinct and declared;
(2) the `t`-th person listed under role `r` of an instance belongs to that instance's group, with
the role `r` — or its `t`-th sub-role when `r` has sub-roles;
(3) a person left out belongs to the group found under the person's own id (the fresh group
appended for that person when no declared group has that id — see `C12_own_group`), with the
first role of the kind. -/
theorem C12_membership_roles (sys : Sys) (dp : Option String) (g : GroupKind) (personsIds : List String)
    (hpn : personsIds.Nodup) (kvs : List (DKey × Doc)) (buf buf' : Buffer) (e : Ent)
    (h : addGroupEntity sys dp g personsIds (.obj kvs) buf = .ok (e, buf')) :
    ((listedPersons g kvs).Nodup ∧ ∀ p ∈ listedPersons g kvs, p ∈ personsIds) ∧
    (∀ (gk : DKey) (ikvs : List (DKey × Doc)) (r : Role) (t : Nat) (pid : String),
      (gk, Doc.obj ikvs) ∈ kvs → r ∈ g.roles →
      (strictSyntax ((lookupS r.docKey ikvs).getD (.arr []))).strs[t]? = some pid →
      e.memb[personsIds.idxOf pid]? = some ((kvs.map (fun kv => kv.1.text)).idxOf gk.text) ∧
      e.roles[personsIds.idxOf pid]? = some (r.roleAt t)) ∧
    (∀ pid ∈ leftOut g personsIds kvs,
      e.memb[personsIds.idxOf pid]? = some (e.ids.idxOf pid) ∧
      ∃ r0, g.flatRoles.head? = some r0 ∧ e.roles[personsIds.idxOf pid]? = some r0) := by
  obtain ⟨acc, hf, hk, _, _, hids, ⟨own, hown, hm, hr⟩, _⟩ := addGroupEntity_ok h
  obtain ⟨⟨hnd, hmem, hta⟩, hmws, _, _⟩ := groupLoop_ok kvs _ acc hf
  have hleft : acc.toAlloc = leftOut g personsIds kvs := by rw [hta]; rfl
  simp only [List.nil_append] at hmws
  -- the targets of all membership writes are pairwise distinct
  have hownp : own.map (·.pidx) = (acc.toAlloc).map (fun p => personsIds.idxOf p) := by
    rcases hown with ⟨hl, rfl⟩ | ⟨r0, _, rfl⟩
    · simp [hl]
    · unfold ownMWrites; rw [List.map_map]; rfl
  have hallnd : ((acc.mws ++ own).map (·.pidx)).Nodup := by
    rw [List.map_append, hmws, loopMWrites_pidx, hownp, ← List.map_append]
    apply nodup_map_idxOf
    · rw [List.nodup_append]
      refine ⟨hnd, ?_, ?_⟩
      · rw [hta]; exact List.Nodup.sublist List.filter_sublist hpn
      · intro a ha b hb e
        subst e
        rw [hta, List.mem_filter] at hb
        have : (kvs.flatMap (instListed g)).contains a = true := by simpa using ha
        rw [this] at hb
        exact absurd hb.2 (by decide)
    · intro p hp
      rcases List.mem_append.mp hp with hp | hp
      · exact (hmem p hp).2
      · rw [hta, List.mem_filter] at hp; exact hp.1
  have hlistedmem : ∀ p ∈ listedPersons g kvs, personsIds.idxOf p < personsIds.length :=
    fun p hp => List.idxOf_lt_length_of_mem (hmem p hp).2
  refine ⟨⟨hnd, fun p hp => (hmem p hp).2⟩, ?_, ?_⟩
  · intro gk ikvs r t pid hkv hrm hstr
    let rd : Role × Doc := (r, strictSyntax ((lookupS r.docKey ikvs).getD (.arr [])))
    have hrd : rd ∈ roleDocs g ikvs := List.mem_map.mpr ⟨r, hrm, rfl⟩
    have hpidmem : pid ∈ rd.2.strs := List.mem_of_getElem? hstr
    have hlisted : pid ∈ listedPersons g kvs := by
      apply List.mem_flatMap.mpr
      refine ⟨(gk, Doc.obj ikvs), hkv, ?_⟩
      unfold instListed listedIn
      simp only [Doc.asObj?, Option.getD_some]
      exact List.mem_flatMap.mpr ⟨rd, hrd, hpidmem⟩
    let w : MWrite := ⟨personsIds.idxOf pid, (kvs.map (fun kv => kv.1.text)).idxOf gk.text, r.roleAt t⟩
    have hw : w ∈ acc.mws ++ own := by
      apply List.mem_append_left
      rw [hmws]
      apply List.mem_flatMap.mpr
      refine ⟨(gk, Doc.obj ikvs), hkv, ?_⟩
      unfold instMWrites
      simp only [Doc.asObj?, Option.getD_some]
      exact List.mem_flatMap.mpr ⟨rd, hrd, mem_roleMWrites personsIds _ rd t pid hstr⟩
    have := applyM_mem personsIds.length (acc.mws ++ own) hallnd w hw (hlistedmem pid hlisted)
    rw [hm, hr]
    exact this
  · intro pid hpid
    rw [← hleft] at hpid
    have hne : acc.toAlloc ≠ [] := fun e' => by rw [e'] at hpid; cases hpid
    rcases hown with ⟨hl, _⟩ | ⟨r0, hr0, hownr⟩
    · exact absurd hl hne
    · let w : MWrite := ⟨personsIds.idxOf pid, e.ids.idxOf pid, r0⟩
      have hw : w ∈ acc.mws ++ own := by
        apply List.mem_append_right
        rw [hownr]
        exact List.mem_map.mpr ⟨pid, hpid, rfl⟩
      have hpm : pid ∈ personsIds := by rw [hta, List.mem_filter] at hpid; exact hpid.1
      have := applyM_mem personsIds.length (acc.mws ++ own) hallnd w hw (List.idxOf_lt_length_of_mem hpm)
      rw [hm, hr]
      exact ⟨this.1, r0, hr0, this.2⟩

/-- **C12_own_group.**  A person left out of a group kind whose id is not the id of a declared group
of that kind is the only member of a fresh group appended after the declared ones; different
persons left out get different groups.  (When a declared group has the id of the person, the
code — and the model — put the person into that declared group: finding F-C12i; see
`C12_own_group_collision`.) -/
theorem C12_own_group (sys : Sys) (dp : Option String) (g : GroupKind) (personsIds : List String)
    (hpn : personsIds.Nodup) (kvs : List (DKey × Doc)) (buf buf' : Buffer) (e : Ent)
    (h : addGroupEntity sys dp g personsIds (.obj kvs) buf = .ok (e, buf'))
    (pid : String) (hleft : pid ∈ leftOut g personsIds kvs)
    (hfresh : pid ∉ kvs.map (fun kv => kv.1.text)) :
    e.memb[personsIds.idxOf pid]? = some (kvs.length + (leftOut g personsIds kvs).idxOf pid) ∧
    kvs.length ≤ kvs.length + (leftOut g personsIds kvs).idxOf pid ∧
    e.ids[kvs.length + (leftOut g personsIds kvs).idxOf pid]? = some pid ∧
    (∀ q ∈ personsIds, q ≠ pid →
      e.memb[personsIds.idxOf q]? ≠ some (kvs.length + (leftOut g personsIds kvs).idxOf pid)) := by
  obtain ⟨_, hids, _, _, _⟩ := (C12_entities sys dp).2.1 g personsIds kvs buf buf' e h
  obtain ⟨⟨hnd, hlm⟩, hdecl, hown⟩ := C12_membership_roles sys dp g personsIds hpn kvs buf buf' e h
  have hidx : e.ids.idxOf pid = kvs.length + (leftOut g personsIds kvs).idxOf pid := by
    rw [hids, List.idxOf_append]; simp [hfresh, Nat.add_comm]
  have hlt : (leftOut g personsIds kvs).idxOf pid < (leftOut g personsIds kvs).length :=
    List.idxOf_lt_length_of_mem hleft
  refine ⟨by rw [← hidx]; exact (hown pid hleft).1, Nat.le_add_right _ _, ?_, ?_⟩
  · rw [hids, List.getElem?_append_right (by simp)]
    simp only [List.length_map, Nat.add_sub_cancel_left]
    rw [List.getElem?_eq_getElem hlt, List.getElem_idxOf hlt]
  · intro q hq hne hcontra
    by_cases hql : q ∈ leftOut g personsIds kvs
    · have hq' := (hown q hql).1
      rw [hq'] at hcontra
      have hqi : e.ids.idxOf q = e.ids.idxOf pid := by rw [hidx]; exact Option.some.inj hcontra
      have hqm : q ∈ e.ids := by rw [hids]; exact List.mem_append_right _ hql
      have hpm : pid ∈ e.ids := by rw [hids]; exact List.mem_append_right _ hleft
      exact hne (idxOf_inj_of_mem hqm hpm hqi)
    · -- q is listed by some instance: its group index is below the number of declared groups
      have hqlisted : q ∈ listedPersons g kvs := by
        unfold leftOut at hql
        rw [List.mem_filter] at hql
        have : ¬ ((!(listedPersons g kvs).contains q) = true) := fun hc => hql ⟨hq, hc⟩
        simpa using this
      obtain ⟨kv, hkv, hin⟩ := List.mem_flatMap.mp hqlisted
      unfold instListed listedIn at hin
      obtain ⟨rd, hrd, hqs⟩ := List.mem_flatMap.mp hin
      obtain ⟨r, hr, rfl⟩ := List.mem_map.mp hrd
      obtain ⟨t, hget⟩ := List.getElem?_of_mem hqs
      cases hobj : kv.2.asObj? with
      | none =>
        rw [hobj] at hqs
        simp [roleDocs, lookupS, strictSyntax, Doc.strs, Doc.asArr?] at hqs
      | some ikvs =>
        have hkv' : (kv.1, Doc.obj ikvs) ∈ kvs := by
          have : kv = (kv.1, Doc.obj ikvs) := by
            obtain ⟨k1, d⟩ := kv
            cases d <;> simp [Doc.asObj?] at hobj
            subst hobj; rfl
          rw [← this]; exact hkv
        rw [hobj] at hget
        simp only [Option.getD_some] at hget
        have := (hdecl kv.1 ikvs r t q hkv' hr hget).1
        rw [this] at hcontra
        have hlt' : (kvs.map (fun kv => kv.1.text)).idxOf kv.1.text < kvs.length := by
          have : kv.1.text ∈ kvs.map (fun kv => kv.1.text) := List.mem_map.mpr ⟨kv, hkv, rfl⟩
          simpa using List.idxOf_lt_length_of_mem this
        have := Option.some.inj hcontra
        omega

end OFCore.Bld
