import OFCore.Lemmas.Group
/-!
# C10 — group aggregations and projections equal their per-group definitions

Theorems about the model `OFCore/Group.lean`, for every population size, every membership map
(any storage order, groups without member anywhere — the last ones included), every role
assignment and every value array; no bound on sizes.

Vocabulary: `valuesOf p role g a` is the list of the values of `a` carried by exactly the
members of group `g` (holding `role`, if given), in storage order — a `filter` on the membership
list zipped with the array.  Well-formedness: `a.length = p.ms.length` (one value per person),
`∀ m ∈ p.ms, m.group < p.n` (every person belongs to a group of the simulation) and, for the
operations that go through `members_position`, `p.ms ≠ []` (`numpy.max` of an empty array raises).
-/
namespace OFCore
open OFCore.Grp

/-! Concrete population used by the non-vacuity examples: five persons stored interleaved in
groups 0 and 2 of a simulation with four groups (groups 1 and 3 — the last — have no member);
roles: parent = {first_parent 0, second_parent 1} (max 2), child 2, ref 3 (max 1). -/
def exPop : Pop := ⟨4, [⟨0, 0⟩, ⟨2, 2⟩, ⟨0, 3⟩, ⟨2, 2⟩, ⟨0, 1⟩]⟩
def exVals : List Int := [3, -1, 4, 1, -5]
def exBools : List Bool := [true, false, true, true, false]
def exParent : Role := ⟨1000000, [0, 1], some 2⟩
def exChild : Role := ⟨2, [], none⟩
def exRef : Role := ⟨3, [], some 1⟩

/-- the example population satisfies the well-formedness hypotheses of every theorem below -/
example : exVals.length = exPop.ms.length ∧ exBools.length = exPop.ms.length ∧
    (∀ m ∈ exPop.ms, m.group < exPop.n) ∧ exPop.ms ≠ [] := by decide

/-! ## sum -/

theorem C10_sum_def (p : Pop) (a : List Int) (role : Option Role) (hlen : a.length = p.ms.length)
    (hg : ∀ m ∈ p.ms, m.group < p.n) :
    ∃ r, groupSum p a role = .ok r ∧ r.length = p.n ∧
      ∀ g, g < p.n → r[g]? = some (valuesOf p role g a).sum := by
  have h := range_map_spec p.n (fun g => (valuesOf p role g a).sum)
  exact ⟨_, groupSum_eq p a role hlen hg, h.1, h.2⟩

example : groupSum exPop exVals none = .ok [2, 0, 0, 0] ∧
    groupSum exPop exVals (some exParent) = .ok [-2, 0, 0, 0] ∧
    valuesOf exPop (some exChild) 2 exVals = [-1, 1] := ⟨rfl, rfl, rfl⟩

/-! ## member count -/

theorem C10_count_def (p : Pop) (role : Option Role) (hg : ∀ m ∈ p.ms, m.group < p.n) :
    ∃ r, nbPersons p role = .ok r ∧ r.length = p.n ∧
      ∀ g, g < p.n →
        r[g]? = some ((p.ms.filter fun m => m.group == g && roleOk role m).length : Int) := by
  have h := range_map_spec p.n
    (fun g => ((p.ms.filter fun m => m.group == g && roleOk role m).length : Int))
  refine ⟨_, ?_, h.1, h.2⟩
  cases role with
  | none =>
    unfold nbPersons
    simp only
    rw [bincount_eq _ _ (ids_lt_of_ms p hg)]
    congr 1
    apply List.map_congr_left
    intro g _
    simp [Pop.ids, List.count_eq_length_filter, List.filter_map, roleOk, Function.comp_def]
  | some r =>
    unfold nbPersons
    simp only
    rw [groupSum_eq p _ none (by simp [Pop.hasRole]) hg]
    congr 1
    apply List.map_congr_left
    intro g _
    rw [valuesOf_map, Pop.hasRole, valuesOf_ms_map, sum_map_b2i, List.count_eq_length_filter,
      List.filter_map, List.length_map, List.filter_filter]
    congr 2
    apply List.filter_congr
    intro m _
    simp [roleOk, Bool.and_comm]

example : nbPersons exPop none = .ok [3, 0, 2, 0] ∧ nbPersons exPop (some exParent) = .ok [2, 0, 0, 0] :=
  ⟨rfl, rfl⟩

/-! ## any / all -/

theorem C10_any_def (p : Pop) (b : List Bool) (role : Option Role) (hlen : b.length = p.ms.length)
    (hg : ∀ m ∈ p.ms, m.group < p.n) :
    ∃ r, groupAny p b role = .ok r ∧ r.length = p.n ∧
      ∀ g, g < p.n → r[g]? = some ((valuesOf p role g b).any id) := by
  have h := range_map_spec p.n (fun g => (valuesOf p role g b).any id)
  exact ⟨_, groupAny_eq p b role hlen hg, h.1, h.2⟩

example : groupAny exPop exBools none = .ok [true, false, true, false] := rfl

theorem C10_all_def (p : Pop) (b : List Bool) (role : Option Role) (hlen : b.length = p.ms.length)
    (hne : p.ms ≠ []) (hg : ∀ m ∈ p.ms, m.group < p.n) :
    ∃ r, groupAll p b role = .ok r ∧ r.length = p.n ∧
      ∀ g, g < p.n → r[g]? = some ((valuesOf p role g b).all id) := by
  have h := range_map_spec p.n (fun g => (valuesOf p role g b).all id)
  exact ⟨_, groupAll_eq p b role hlen hne hg, h.1, h.2⟩

example : groupAll exPop exBools none = .ok [false, true, false, true] ∧
    groupAll exPop exBools (some exChild) = .ok [true, true, false, true] := ⟨rfl, rfl⟩

/-! ## min / max: least / greatest value of the members, `+inf` / `-inf` when the group has no
member holding the role -/

theorem C10_min_def (p : Pop) (a : List Int) (role : Option Role) (hlen : a.length = p.ms.length)
    (hne : p.ms ≠ []) (hg : ∀ m ∈ p.ms, m.group < p.n) :
    ∃ r, groupMin p a role = .ok r ∧ r.length = p.n ∧
      ∀ g, g < p.n →
        r[g]? = some (((valuesOf p role g a).map EInt.fin).foldl EInt.min .posInf) ∧
        (valuesOf p role g a = [] → r[g]? = some .posInf) ∧
        (valuesOf p role g a ≠ [] →
          ∃ m ∈ valuesOf p role g a, r[g]? = some (.fin m) ∧ ∀ x ∈ valuesOf p role g a, m ≤ x) := by
  have h := range_map_spec p.n
    (fun g => ((valuesOf p role g a).map EInt.fin).foldl EInt.min .posInf)
  refine ⟨_, groupMin_eq p a role hlen hne hg, h.1, fun g hgn => ?_⟩
  have hs := foldl_min_spec (valuesOf p role g a)
  refine ⟨h.2 g hgn, fun he => ?_, fun hn => ?_⟩
  · rw [h.2 g hgn, hs.1 he]
  · obtain ⟨m, hm, h1, h2⟩ := hs.2 hn
    exact ⟨m, hm, by rw [h.2 g hgn, h1], h2⟩

example : groupMin exPop exVals none = .ok [.fin (-5), .posInf, .fin (-1), .posInf] := rfl

theorem C10_max_def (p : Pop) (a : List Int) (role : Option Role) (hlen : a.length = p.ms.length)
    (hne : p.ms ≠ []) (hg : ∀ m ∈ p.ms, m.group < p.n) :
    ∃ r, groupMax p a role = .ok r ∧ r.length = p.n ∧
      ∀ g, g < p.n →
        r[g]? = some (((valuesOf p role g a).map EInt.fin).foldl EInt.max .negInf) ∧
        (valuesOf p role g a = [] → r[g]? = some .negInf) ∧
        (valuesOf p role g a ≠ [] →
          ∃ m ∈ valuesOf p role g a, r[g]? = some (.fin m) ∧ ∀ x ∈ valuesOf p role g a, x ≤ m) := by
  have h := range_map_spec p.n
    (fun g => ((valuesOf p role g a).map EInt.fin).foldl EInt.max .negInf)
  refine ⟨_, groupMax_eq p a role hlen hne hg, h.1, fun g hgn => ?_⟩
  have hs := foldl_max_spec (valuesOf p role g a)
  refine ⟨h.2 g hgn, fun he => ?_, fun hn => ?_⟩
  · rw [h.2 g hgn, hs.1 he]
  · obtain ⟨m, hm, h1, h2⟩ := hs.2 hn
    exact ⟨m, hm, by rw [h.2 g hgn, h1], h2⟩

example : groupMax exPop exVals (some exChild) = .ok [.negInf, .negInf, .fin 1, .negInf] := rfl

/-! ## value of the n-th member (storage order), of the first member -/

theorem C10_nth_def {α} (p : Pop) (k : Nat) (a : List α) (d : α) (hlen : a.length = p.ms.length)
    (hne : p.ms ≠ []) (hg : ∀ m ∈ p.ms, m.group < p.n) :
    (∃ r, valueNth p k a d = .ok r ∧ r.length = p.n ∧
      ∀ g, g < p.n → r[g]? = some ((valuesOf p none g a)[k]?.getD d)) ∧
    valueFromFirst p a d = valueNth p 0 a d := by
  have h := range_map_spec p.n (fun g => (valuesOf p none g a)[k]?.getD d)
  exact ⟨⟨_, valueNth_eq p k a d hlen hne hg, h.1, h.2⟩, rfl⟩

example : valueNth exPop 2 exVals (-7) = .ok [-5, -7, -7, -7] ∧
    valueFromFirst exPop exVals 0 = .ok [3, 0, -1, 0] := ⟨rfl, rfl⟩

/-- `members_position` explicitly assigned (any order inside each group, not the order of
appearance): the n-th member is the member whose assigned position is `n`; no result depends on
which permutation sorting the persons by group `ordered_members_map` is -/
theorem C10_nth_assigned_positions {α} (p : Pop) (pos mp : List Nat) (hv : ValidPositions p pos)
    (hmp : SortsByGroup p.ids mp) (k : Nat) (a : List α) (d : α) (hlen : a.length = p.ms.length)
    (hg : ∀ m ∈ p.ms, m.group < p.n) :
    (∃ r, valueNthCore p pos mp k a d = .ok r ∧ r.length = p.n ∧
      ∀ g, g < p.n → r[g]? = some
        ((((membersOf p g).find? fun i => pos.getD i 0 == k).map fun i => a.getD i d).getD d)) ∧
    valueNthAssigned p pos k a d = valueNthCore p pos mp k a d ∧
    -- the positions the counter loop computes are one instance
    (p.ms ≠ [] → ∃ pos₀, membersPosition p.ids = .ok pos₀ ∧ ValidPositions p pos₀ ∧
      valueNth p k a d = valueNthCore p pos₀ (orderedMap p.ids) k a d) := by
  have h := range_map_spec p.n (fun g =>
    (((membersOf p g).find? fun i => pos.getD i 0 == k).map fun i => a.getD i d).getD d)
  refine ⟨⟨_, valueNthCore_assigned p pos mp hv hmp k a d hlen hg, h.1, h.2⟩, ?_, ?_⟩
  · unfold valueNthAssigned
    rw [valueNthCore_assigned p pos mp hv hmp k a d hlen hg,
      valueNthCore_assigned p pos _ hv (orderedMap_sorts p.ids) k a d hlen hg]
  · intro hne
    have hidne : p.ids ≠ [] := by simpa [Pop.ids] using hne
    refine ⟨_, membersPosition_eq _ hidne, computed_positions_valid p, ?_⟩
    unfold valueNth valueNthWith
    rw [if_neg (by omega), membersPosition_eq _ hidne]

example : ValidPositions exPop [2, 1, 0, 0, 1] ∧
    valueNthAssigned exPop [2, 1, 0, 0, 1] 0 exVals 0 = .ok [4, 0, 1, 0] ∧
    valueNthAssigned exPop [2, 1, 0, 0, 1] 2 exVals (-7) = .ok [3, -7, -7, -7] :=
  ⟨⟨rfl, by
      intro g
      by_cases h0 : g = 0
      · subst h0; decide
      · by_cases h2 : g = 2
        · subst h2; decide
        · have : membersOf exPop g = [] := by
            simp only [membersOf, exPop, List.filter_eq_nil_iff]
            intro i hi
            have : i < 5 := by simpa using hi
            match i, this with
            | 0, _ | 2, _ | 4, _ => simp [Ne.symm h0]
            | 1, _ | 3, _ => simp [Ne.symm h2]
          rw [this]; exact List.Perm.refl _⟩, rfl, rfl⟩

/-! ## value of the member holding a unique role -/

theorem C10_from_role_def {α} (p : Pop) (a : List α) (r : Role) (d : α) (hmax : r.max = some 1)
    (hlen : a.length = p.ms.length) (hg : ∀ m ∈ p.ms, m.group < p.n)
    (hu : ∀ g, g < p.n → (valuesOf p (some r) g a).length ≤ 1) :
    ∃ res, valueFromPerson p a r d = .ok res ∧ res.length = p.n ∧
      ∀ g, g < p.n → res[g]? = some ((valuesOf p (some r) g a).head?.getD d) := by
  have h := range_map_spec p.n (fun g => (valuesOf p (some r) g a).head?.getD d)
  exact ⟨_, valueFromPerson_eq p a r d hmax hlen hg hu, h.1, h.2⟩

/-- a role that is not declared unique (`max != 1`), or that two members of some group hold, is
refused -/
theorem C10_from_role_refused {α} (p : Pop) (a : List α) (r : Role) (d : α) :
    (r.max ≠ some 1 → ∃ e, valueFromPerson p a r d = .error e) ∧
    (a.length = p.ms.length → (∀ m ∈ p.ms, m.group < p.n) →
      (∃ g, g < p.n ∧ 2 ≤ (valuesOf p (some r) g a).length) →
      ∃ e, valueFromPerson p a r d = .error e) := by
  constructor
  · intro hmax
    unfold valueFromPerson valueFromPersonWith
    rw [if_pos hmax]
    exact ⟨_, rfl⟩
  · rintro hlen hg ⟨g, hgn, h2⟩
    exact valueFromPerson_nonunique p a r d hlen hg g hgn h2

example : (∃ e, valueFromPerson exPop exVals exChild 0 = .error e) ∧
    (∃ e, valueFromPerson ⟨2, [⟨0, 3⟩, ⟨0, 3⟩, ⟨1, 3⟩]⟩ [1, 2, 3] exRef (0 : Int) = .error e) :=
  ⟨⟨_, rfl⟩, ⟨_, rfl⟩⟩

example : exRef.max = some 1 ∧ (∀ g, g < exPop.n → (valuesOf exPop (some exRef) g exVals).length ≤ 1) ∧
    valueFromPerson exPop exVals exRef 0 = .ok [4, 0, 0, 0] := ⟨rfl, by decide, rfl⟩

/-! ## value of the partner (the holder of the other sub-role of a two-sub-role role) -/

theorem C10_partner_def {α} (p : Pop) (a : List α) (role : Role) (zero : α) (s1 s2 : Nat)
    (hsubs : role.subs = [s1, s2]) (hlen : a.length = p.ms.length)
    (hg : ∀ m ∈ p.ms, m.group < p.n)
    (hu1 : ∀ g, g < p.n → (valuesOf p (some ⟨s1, [], some 1⟩) g a).length ≤ 1)
    (hu2 : ∀ g, g < p.n → (valuesOf p (some ⟨s2, [], some 1⟩) g a).length ≤ 1) :
    ∃ r, valueFromPartner p a role zero = .ok r ∧ r.length = p.ms.length ∧
      ∀ i (hi : i < p.ms.length),
        r[i]? = some
          (if p.ms[i].role = s1 then (valuesOf p (some ⟨s2, [], some 1⟩) p.ms[i].group a).head?.getD zero
           else if p.ms[i].role = s2 then (valuesOf p (some ⟨s1, [], some 1⟩) p.ms[i].group a).head?.getD zero
           else zero) := by
  refine ⟨_, valueFromPartner_eq p a role zero s1 s2 hsubs hlen hg hu1 hu2, by simp, fun i hi => ?_⟩
  rw [List.getElem?_map, List.getElem?_eq_getElem hi]
  simp [Role.holds]

/-- only roles with exactly two sub-roles have partners -/
theorem C10_partner_refused {α} (p : Pop) (a : List α) (role : Role) (zero : α)
    (h : ∀ s1 s2, role.subs ≠ [s1, s2]) : ∃ e, valueFromPartner p a role zero = .error e := by
  unfold valueFromPartner
  by_cases hlen : a.length ≠ p.ms.length
  · rw [if_pos hlen]; exact ⟨_, rfl⟩
  · rw [if_neg hlen]
    match hs : role.subs with
    | [] => exact ⟨_, rfl⟩
    | [_] => exact ⟨_, rfl⟩
    | [s1, s2] => exact absurd hs (h s1 s2)
    | _ :: _ :: _ :: _ => exact ⟨_, rfl⟩

example : valueFromPartner exPop exVals exParent 0 = .ok [-5, 0, 0, 0, 3] ∧
    (∃ e, valueFromPartner exPop exVals exChild 0 = .error e) := ⟨rfl, ⟨_, rfl⟩⟩

/-! ## the order `numpy.argsort` gives to the members of one group does not matter

`numpy.argsort` (introsort / SIMD sort) is not stable; the model's `orderedMap` is a stable sort.
For every other permutation that sorts the persons by group the two operations that read the
map return the same arrays (they select at most one person per group). -/

theorem C10_members_map_irrelevant {α} (p : Pop) (mp : List Nat) (hmp : SortsByGroup p.ids mp)
    (a : List α) (d : α) :
    (∀ k, valueNthWith p mp k a d = valueNth p k a d) ∧
    (∀ r : Role, a.length = p.ms.length → (∀ m ∈ p.ms, m.group < p.n) →
      (∀ g, g < p.n → (valuesOf p (some r) g a).length ≤ 1) →
      valueFromPersonWith p mp a r d = valueFromPerson p a r d) :=
  ⟨fun k => valueNthWith_eq p mp hmp k a d,
   fun r hlen hg hu => valueFromPersonWith_eq p mp hmp a r d hlen hu hg⟩

/-- an unstable but sorting map on the example population (members of group 0 in the order
4, 0, 2): same result -/
example : SortsByGroup exPop.ids [4, 0, 2, 3, 1] ∧
    valueNthWith exPop [4, 0, 2, 3, 1] 1 exVals 0 = valueNth exPop 1 exVals 0 :=
  ⟨⟨by decide, by decide⟩, rfl⟩

/-! ## projection of a group-level array onto persons -/

theorem C10_project_def {α} (p : Pop) (x : List α) (zero : α) (role : Option Role)
    (hx : x.length = p.n) (hg : ∀ m ∈ p.ms, m.group < p.n) :
    ∃ r, project p x zero role = .ok r ∧ r.length = p.ms.length ∧
      ∀ i (hi : i < p.ms.length),
        r[i]? = some (if roleOk role p.ms[i] then x.getD p.ms[i].group zero else zero) ∧
        x[p.ms[i].group]? ≠ none := by
  refine ⟨_, project_eq p x zero role hx hg, by simp, fun i hi => ⟨?_, ?_⟩⟩
  · rw [List.getElem?_map, List.getElem?_eq_getElem hi]; rfl
  · have := hg p.ms[i] (List.getElem_mem hi)
    rw [List.getElem?_eq_getElem (by omega)]
    simp

example : project exPop [10, 20, 30, 40] (0 : Int) none = .ok [10, 30, 10, 30, 10] ∧
    project exPop [10, 20, 30, 40] (0 : Int) (some exChild) = .ok [0, 30, 0, 30, 0] := ⟨rfl, rfl⟩

/-! ## member positions -/

theorem C10_positions_def (p : Pop) (hne : p.ms ≠ []) :
    ∃ pos, membersPosition p.ids = .ok pos ∧ pos.length = p.ms.length ∧
      ∀ i (hi : i < p.ms.length),
        pos[i]? = some ((p.ms.take i).filter fun m => m.group == p.ms[i].group).length := by
  have hidne : p.ids ≠ [] := by simpa [Pop.ids] using hne
  have hidl : p.ids.length = p.ms.length := by simp [Pop.ids]
  refine ⟨_, membersPosition_eq _ hidne, by simp [hidl], fun i hi => ?_⟩
  rw [List.getElem?_map, List.getElem?_range (by omega)]
  simp only [Option.map_some, Option.some.injEq, posOf]
  have h1 : p.ids.getD i 0 = p.ms[i].group := by
    simp [Pop.ids, List.getD_eq_getElem?_getD, List.getElem?_eq_getElem hi]
  rw [h1, List.count_eq_length_filter]
  simp [Pop.ids, ← List.map_take, List.filter_map, Function.comp_def]

example : membersPosition exPop.ids = .ok [0, 0, 1, 1, 2] := rfl

/-! ## ranks within a group -/

theorem C10_rank_perm (p : Pop) (crit : List Int) (cond : List Bool)
    (hc : crit.length = p.ms.length) (hb : cond.length = p.ms.length) (hne : p.ms ≠ [])
    (hg : ∀ m ∈ p.ms, m.group < p.n) :
    ∃ r, getRank p crit cond = .ok r ∧ r.length = p.ms.length ∧
      -- -1 outside the condition
      (∀ i, i < p.ms.length → cond.getD i false = false → r[i]? = some (-1)) ∧
      -- within a group, a permutation of 0 .. k-1
      (∀ g, ((rankedIn p cond g).map fun i => r.getD i 0).Perm
              ((List.range (rankedIn p cond g).length).map Int.ofNat)) ∧
      -- monotone in the criterion
      (∀ i j, i < p.ms.length → j < p.ms.length →
        (p.ms.getD i default).group = (p.ms.getD j default).group →
        cond.getD i false = true → cond.getD j false = true →
        crit.getD i 0 < crit.getD j 0 → r.getD i 0 < r.getD j 0) := by
  have hidl : p.ids.length = p.ms.length := by simp [Pop.ids]
  have hidg : ∀ i, p.ids.getD i 0 = (p.ms.getD i default).group := fun i =>
    getD_map' p.ms (·.group) i default
  have hr : ∀ i, i < p.ms.length →
      ((List.range p.ms.length).map fun i =>
        if cond.getD i false then (rankOf p (filteredCrit crit cond) i : Int) else -1).getD i 0
      = if cond.getD i false then (rankOf p (filteredCrit crit cond) i : Int) else -1 := by
    intro i hi
    rw [List.getD_eq_getElem?_getD, List.getElem?_map, List.getElem?_range hi]
    rfl
  refine ⟨_, getRank_eq p crit cond hc hb hne hg, by simp, ?_, ?_, ?_⟩
  · intro i hi hci
    rw [List.getElem?_map, List.getElem?_range hi]
    simp only [Option.map_some, hci]
    rfl
  · intro g
    have hset : rankedIn p cond g = (membersIdx p.ids g).filter (fun i => cond.getD i false) := by
      unfold rankedIn membersIdx
      rw [List.filter_filter, hidl]
      apply List.filter_congr
      intro i _
      rw [hidg, Bool.and_comm]
    have hperm := (rank_perm p crit cond hc hb g).map Int.ofNat
    rw [← hset, List.map_map] at hperm
    have hmap : (rankedIn p cond g).map (fun i =>
        ((List.range p.ms.length).map fun i =>
          if cond.getD i false then (rankOf p (filteredCrit crit cond) i : Int) else -1).getD i 0)
        = (rankedIn p cond g).map (Int.ofNat ∘ rankOf p (filteredCrit crit cond)) := by
      apply List.map_congr_left
      intro i hi
      have hi' := List.mem_filter.mp hi
      have hci : cond.getD i false = true := by
        have := hi'.2; simp only [Bool.and_eq_true] at this; exact this.2
      rw [hr i (List.mem_range.mp hi'.1), hci]
      rfl
    rw [hmap]
    exact hperm
  · intro i j hi hj hgrp hci hcj hlt
    rw [hr i hi, hr j hj, hci, hcj]
    simp only [if_true]
    have := rank_mono p crit cond hc hb i j hi hj (by rw [hidg, hidg]; exact hgrp) hci hcj hlt
    exact Int.ofNat_lt.mpr this

example : getRank exPop exVals [true, true, true, true, true] = .ok [1, 0, 2, 1, 0] ∧
    getRank exPop exVals exBools = .ok [0, -1, 1, 0, -1] ∧
    rankedIn exPop exBools 0 = [0, 2] := ⟨rfl, rfl, rfl⟩

/-- `numpy.argsort` is not stable and every row of the position matrix has ties (the `inf`
paddings and the persons outside the condition).  With criteria that are distinct among the
persons of a group satisfying the condition — the claim domain — any permutation sorting the
rows gives the same ranks as the model's stable sort. -/
theorem C10_rank_ties_irrelevant (sort1 : List EInt → List Nat)
    (hsort : ∀ row, SortsRow row (sort1 row)) (p : Pop) (crit : List Int) (cond : List Bool)
    (hc : crit.length = p.ms.length) (hb : cond.length = p.ms.length) (hne : p.ms ≠ [])
    (hg : ∀ m ∈ p.ms, m.group < p.n)
    (hdist : ∀ i j, i < p.ms.length → j < p.ms.length →
      (p.ms.getD i default).group = (p.ms.getD j default).group →
      cond.getD i false = true → cond.getD j false = true → crit.getD i 0 = crit.getD j 0 → i = j) :
    getRankWith sort1 p crit cond = getRank p crit cond := by
  have hidg : ∀ i, p.ids.getD i 0 = (p.ms.getD i default).group := fun i =>
    getD_map' p.ms (·.group) i default
  apply getRankWith_eq_getRank p crit cond hc hb sort1 hsort hne hg
  intro i j hi hj hgrp
  rw [hidg, hidg] at hgrp
  exact hdist i j hi hj hgrp

/-- the hypotheses are satisfiable (the stable sort is a sorting permutation; the example has
distinct criteria), a row has several sorting permutations (ties in either order), and a sorter
that breaks ties the other way round gives the same ranks on the example -/
example : (∀ row, SortsRow row (argsortE row)) ∧
    (∀ i j, i < exPop.ms.length → j < exPop.ms.length →
      (exPop.ms.getD i default).group = (exPop.ms.getD j default).group →
      exBools.getD i false = true → exBools.getD j false = true →
      exVals.getD i 0 = exVals.getD j 0 → i = j) ∧
    argsortE [.fin 3, .posInf, .fin 4, .posInf] = [0, 2, 1, 3] ∧
    SortsRow [.fin 3, .posInf, .fin 4, .posInf] [0, 2, 3, 1] ∧
    getRankWith (fun row => (argsortE row.reverse).map (row.length - 1 - ·)) exPop exVals exBools
      = getRank exPop exVals exBools :=
  ⟨argsortE_sortsRow,
   fun i j hi hj => (by decide : ∀ i ∈ List.range 5, ∀ j ∈ List.range 5,
      (exPop.ms.getD i default).group = (exPop.ms.getD j default).group →
      exBools.getD i false = true → exBools.getD j false = true →
      exVals.getD i 0 = exVals.getD j 0 → i = j) i (List.mem_range.mpr hi) j (List.mem_range.mpr hj),
   rfl, ⟨by decide, by decide⟩, rfl⟩

/-- `get_rank` builds a matrix with one column per position up to the size of the biggest group
(`numpy.max(positions) + 1`).  Any greater width gives the same ranks: the extra columns hold the
`inf` padding, which a stable sort leaves behind every member.  (So a change of that `+ 1` into a
greater constant is not observable; a smaller one drops the last member of the biggest group.) -/
theorem C10_rank_width_irrelevant (extra : Nat) (p : Pop) (crit : List Int) (cond : List Bool)
    (hc : crit.length = p.ms.length) (hb : cond.length = p.ms.length) (hne : p.ms ≠ [])
    (hg : ∀ m ∈ p.ms, m.group < p.n) :
    getRankWide extra p crit cond = getRank p crit cond ∧ getRankWide 0 p crit cond = getRank p crit cond :=
  ⟨getRankWide_eq_getRank extra p crit cond hc hb hne hg, rfl⟩

example : getRankWide 3 exPop exVals exBools = .ok [0, -1, 1, 0, -1] ∧
    getRank exPop exVals exBools = .ok [0, -1, 1, 0, -1] := ⟨rfl, rfl⟩

/-! ## chained projections -/

theorem C10_chain_compose {α} (w : World) (e : Nat) (p : Pop) (hp : w.pop e = p) (z : α)
    (hg : ∀ m ∈ p.ms, m.group < p.n) :
    -- (a) bubbling a result up a chain of projectors is the composition of their transforms
    (∀ (ps qs : List Proj) (x : List α),
      bubbleUp w z (ps ++ qs) x
        = match bubbleUp w z ps x with
          | .error e => .error e
          | .ok y => bubbleUp w z qs y) ∧
    (∀ (start : Level) (ss : List Shortcut) (method : Level → Except String (List α)) ps lvl r,
      resolveChain w start ss = .ok (ps, lvl) → method lvl = .ok r →
      chainCall w z start ss true method = bubbleUp w z ps.reverse r ∧
      chainCall w z start ss false method = .ok r) ∧
    -- (b) person.group.<aggregate>: every person receives the value of the group it belongs to
    (∀ x : List α, x.length = p.n →
      bubbleUp w z [.toPerson e] x = .ok (p.ms.map fun m => x.getD m.group z)) ∧
    -- (c) group.first_person.group.<aggregate>: the group's own value, the default if no member
    (∀ x : List α, x.length = p.n → p.ms ≠ [] →
      bubbleUp w z [.toPerson e, .firstPerson e] x
        = .ok ((List.range p.n).map fun g =>
            if (p.ms.any fun m => m.group == g) then x.getD g z else z)) ∧
    -- (d) group.<unique role>.group.<aggregate>: the group's own value if the role is held
    (∀ (r : Role) (x : List α), x.length = p.n → r.max = some 1 →
      (∀ g, g < p.n → (p.ms.filter fun m => m.group == g && r.holds m).length ≤ 1) →
      bubbleUp w z [.toPerson e, .uniqueRole e r] x
        = .ok ((List.range p.n).map fun g =>
            if (p.ms.any fun m => m.group == g && r.holds m) then x.getD g z else z)) ∧
    -- (e) person.group.first_person.<person array>: the value of the first member of my group
    (∀ y : List α, y.length = p.ms.length → p.ms ≠ [] →
      bubbleUp w z [.firstPerson e, .toPerson e] y
        = .ok (p.ms.map fun m => (valuesOf p none m.group y)[0]?.getD z)) ∧
    -- (f) group.<containing entity>.<aggregate> is group.first_person.<containing entity>.<aggregate>:
    --     every group receives the value of the containing group of its first member
    (∀ (e' : Nat) (q : Pop), w.pop e' = q → e' < w.pops.length → (w.containing e).contains e' = true →
      resolve w (.group e) (.entity e') = some ([.firstPerson e, .toPerson e'], .group e') ∧
      (∀ x : List α, x.length = q.n → q.ms.length = p.ms.length → p.ms ≠ [] →
        (∀ m ∈ q.ms, m.group < q.n) →
        bubbleUp w z [.toPerson e', .firstPerson e] x
          = .ok ((List.range p.n).map fun g =>
              (valuesOf p none g (q.ms.map fun m => x.getD m.group z))[0]?.getD z))) := by
  refine ⟨bubbleUp_append w z, ?_, ?_, ?_, ?_, ?_, ?_⟩
  · intro start ss method ps lvl r h1 h2
    simp only [chainCall, h1, h2]
    exact ⟨rfl, rfl⟩
  · intro x hx
    simp only [bubbleUp, transform_toPerson w e p hp z x hx hg]
  · intro x hx hne
    simp only [bubbleUp, transform_toPerson w e p hp z x hx hg]
    rw [transform_firstPerson w e p hp z _ (by simp) hne hg]
    simp only
    congr 1
    apply List.map_congr_left
    intro g _
    have := head?_broadcast p none g x z
    simp only [roleOk, Bool.and_true] at this
    rw [← this, List.head?_eq_getElem?]
  · intro r x hx hmax hu
    simp only [bubbleUp, transform_toPerson w e p hp z x hx hg]
    rw [transform_uniqueRole w e p hp z r _ hmax (by simp) hg (by
      intro g hgn
      rw [valuesOf_ms_map, List.length_map]
      exact hu g hgn)]
    simp only
    congr 1
    apply List.map_congr_left
    intro g _
    exact head?_broadcast p (some r) g x z
  · intro y hy hne
    simp only [bubbleUp, transform_firstPerson w e p hp z y hy hne hg]
    rw [transform_toPerson w e p hp z _ (by simp) hg]
    simp only
    congr 1
    apply List.map_congr_left
    intro m hm
    have := hg m hm
    simp [List.getD_eq_getElem?_getD, this]
  · intro e' q hq he' hc
    have hc' : e' ∈ w.containing e := by simpa using hc
    refine ⟨by simp [resolve, hc', he'], ?_⟩
    intro x hx hlen hne hgq
    simp only [bubbleUp, transform_toPerson w e' q hq z x hx hgq]
    rw [transform_firstPerson w e p hp z _ (by simp [hlen]) hne hg]

/-- households 0 and 2 of the example, and two families: family 1 = persons 0, 4, family 0 =
persons 1, 2, 3; the household entity declares the family entity as containing -/
def exFam : Pop := ⟨2, [⟨1, 0⟩, ⟨0, 0⟩, ⟨0, 0⟩, ⟨0, 0⟩, ⟨1, 0⟩]⟩
def exWorld : World := ⟨[exPop, exFam], fun e => if e = 0 then [1] else []⟩

example :
    chainCall (World.single exPop) 0 .person [.entity 0] true (fun _ => groupSum exPop exVals none)
      = .ok [2, 0, 2, 0, 2] ∧
    chainCall (World.single exPop) 0 (.group 0) [.firstPerson, .entity 0] true (fun _ => groupSum exPop exVals none)
      = .ok [2, 0, 0, 0] ∧
    chainCall (World.single exPop) 0 (.group 0) [.role exRef, .entity 0] true (fun _ => groupSum exPop exVals none)
      = .ok [2, 0, 0, 0] ∧
    -- household.family.sum(a): the sum over the family of the household's first member
    resolveChain exWorld (.group 0) [.entity 1] = .ok ([.firstPerson 0, .toPerson 1], .group 1) ∧
    chainCall exWorld 0 (.group 0) [.entity 1] true (fun _ => groupSum exFam exVals none) = .ok [-2, 0, 4, 0] ∧
    -- person.household.family.first_person.household.nb_persons(): five projectors
    chainCall exWorld 0 .person [.entity 0, .entity 1, .firstPerson, .entity 0] true (fun _ => nbPersons exPop none)
      = .ok [3, 2, 3, 2, 3] ∧
    -- `project` is not projectable: returned as it is
    chainCall exWorld (0 : Int) .person [.entity 0] false (fun _ => project exPop [10, 20, 30, 40] 0 none)
      = .ok [10, 30, 10, 30, 10] :=
  ⟨rfl, rfl, rfl, rfl, rfl, rfl, rfl⟩

/-! ## `has_role` -/

/-- `has_role(role)`: a person holds a role without sub-roles iff it is the role it has in its
group, a role with sub-roles iff it holds one of them; one answer per person -/
theorem C10_has_role_def (p : Pop) (r : Role) :
    (p.hasRole r).length = p.ms.length ∧
    ∀ i (hi : i < p.ms.length),
      (p.hasRole r)[i]? = some (if r.subs = [] then p.ms[i].role == r.id else r.subs.contains p.ms[i].role) := by
  refine ⟨by simp [Pop.hasRole], fun i hi => ?_⟩
  simp only [Pop.hasRole, List.getElem?_map, List.getElem?_eq_getElem hi, Option.map_some, Role.holds]
  cases hs : r.subs with
  | nil => simp
  | cons s ss =>
    simp only [List.isEmpty_cons, Bool.false_eq_true, if_false, reduceCtorEq]
    congr 1
    rw [List.contains_eq_any_beq]
    congr 1
    funext x
    exact Bool.beq_comm

example : exPop.hasRole exParent = [true, false, false, false, true] ∧
    exPop.hasRole exChild = [false, true, false, true, false] := ⟨rfl, rfl⟩

/-! ## the storage order of the persons does not matter

"In any storage order": two populations over the same groups whose (member, value) pairs are the
same up to order — the persons listed in any other order, their values moved with them — have the
same sums, counts, any / all, minima and maxima, with or without role. -/

theorem C10_aggregates_order_invariant (p p' : Pop) (a a' : List Int) (b b' : List Bool)
    (role : Option Role) (hn : p'.n = p.n)
    (ha : a.length = p.ms.length) (ha' : a'.length = p'.ms.length)
    (hb : b.length = p.ms.length) (hb' : b'.length = p'.ms.length)
    (hne : p.ms ≠ []) (hg : ∀ m ∈ p.ms, m.group < p.n)
    (hpa : (p.ms.zip a).Perm (p'.ms.zip a')) (hpb : (p.ms.zip b).Perm (p'.ms.zip b')) :
    groupSum p' a' role = groupSum p a role ∧ nbPersons p' role = nbPersons p role ∧
    groupAny p' b' role = groupAny p b role ∧ groupAll p' b' role = groupAll p b role ∧
    groupMin p' a' role = groupMin p a role ∧ groupMax p' a' role = groupMax p a role := by
  have hms := ms_perm_of_zip p p' a a' ha ha' hpa
  have hg' : ∀ m ∈ p'.ms, m.group < p'.n := fun m hm => hn ▸ hg m (hms.mem_iff.mpr hm)
  have hne' : p'.ms ≠ [] := fun h => hne (by rw [h] at hms; exact hms.eq_nil)
  refine ⟨?_, ?_, ?_, ?_, ?_, ?_⟩
  · rw [groupSum_eq p' a' role ha' hg', groupSum_eq p a role ha hg, hn]
    congr 1
    apply List.map_congr_left
    intro g _
    exact (perm_sum_int (valuesOf_perm p p' a a' hpa role g)).symm
  · obtain ⟨r, h1, h2, h3⟩ := C10_count_def p role hg
    obtain ⟨r', h1', h2', h3'⟩ := C10_count_def p' role hg'
    rw [h1, h1']
    congr 1
    apply List.ext_getElem?
    intro g
    by_cases hgn : g < p.n
    · rw [h3 g hgn, h3' g (hn ▸ hgn), (hms.filter _).length_eq]
    · rw [List.getElem?_eq_none (by omega), List.getElem?_eq_none (by omega)]
  · rw [groupAny_eq p' b' role hb' hg', groupAny_eq p b role hb hg, hn]
    congr 1
    apply List.map_congr_left
    intro g _
    exact (valuesOf_perm p p' b b' hpb role g).any_eq.symm
  · rw [groupAll_eq p' b' role hb' hne' hg', groupAll_eq p b role hb hne hg, hn]
    congr 1
    apply List.map_congr_left
    intro g _
    exact (valuesOf_perm p p' b b' hpb role g).all_eq.symm
  · rw [groupMin_eq p' a' role ha' hne' hg', groupMin_eq p a role ha hne hg, hn]
    congr 1
    apply List.map_congr_left
    intro g _
    exact (perm_foldl_min (valuesOf_perm p p' a a' hpa role g)).symm
  · rw [groupMax_eq p' a' role ha' hne' hg', groupMax_eq p a role ha hne hg, hn]
    congr 1
    apply List.map_congr_left
    intro g _
    exact (perm_foldl_max (valuesOf_perm p p' a a' hpa role g)).symm

/-- the example population with its persons stored in the order 4, 1, 0, 3, 2 -/
example : (exPop.ms.zip exVals).Perm
      ((⟨4, [⟨0, 1⟩, ⟨2, 2⟩, ⟨0, 0⟩, ⟨2, 2⟩, ⟨0, 3⟩]⟩ : Pop).ms.zip [-5, -1, 3, 1, 4]) ∧
    groupMin ⟨4, [⟨0, 1⟩, ⟨2, 2⟩, ⟨0, 0⟩, ⟨2, 2⟩, ⟨0, 3⟩]⟩ [-5, -1, 3, 1, 4] (some exParent)
      = groupMin exPop exVals (some exParent) := ⟨by decide, rfl⟩

/-! ## roles that partition the members: the role-restricted sums add up to the total -/

/-- When every person holds exactly one of the roles `rs` (the flattened roles of the entity, or
its top-level roles: `has_role` of a role with sub-roles is the disjunction over them), the sums
restricted to each role add up, group by group, to the unrestricted sum; the same for counts. -/
theorem C10_sum_roles_partition (p : Pop) (a : List Int) (rs : List Role)
    (ha : a.length = p.ms.length) (hg : ∀ m ∈ p.ms, m.group < p.n)
    (hpart : ∀ m ∈ p.ms, (rs.filter fun r => r.holds m).length = 1) :
    ∃ tot, groupSum p a none = .ok tot ∧ tot.length = p.n ∧
      ∀ g, g < p.n →
        tot[g]? = some (rs.map fun r => (valuesOf p (some r) g a).sum).sum ∧
        ∀ r ∈ rs, ∃ sr, groupSum p a (some r) = .ok sr ∧ sr[g]? = some (valuesOf p (some r) g a).sum := by
  obtain ⟨tot, h1, h2, h3⟩ := C10_sum_def p a none ha hg
  refine ⟨tot, h1, h2, fun g hgn => ⟨?_, fun r _ => ?_⟩⟩
  · rw [h3 g hgn, sum_roles_partition p a rs g]
    intro m hm
    have := hpart m hm
    have hcount : ∀ L : List Role, (L.map fun r => if r.holds m then (1 : Int) else 0).sum
        = ((L.filter fun r => r.holds m).length : Int) := by
      intro L
      induction L with
      | nil => rfl
      | cons r L ih =>
        simp only [List.map_cons, List.sum_cons, ih, List.filter_cons]
        cases r.holds m <;> simp <;> omega
    rw [hcount, this]; rfl
  · obtain ⟨sr, e1, _, e3⟩ := C10_sum_def p a (some r) ha hg
    exact ⟨sr, e1, e3 g hgn⟩

/-- the four flattened roles of the example partition its members: per group, the sums over
first parents, second parents, children and the reference person add up to the total -/
example : (∀ m ∈ exPop.ms, ([⟨0, [], some 1⟩, ⟨1, [], some 1⟩, exChild, exRef].filter fun r => r.holds m).length = 1) ∧
    (∀ m ∈ exPop.ms, ([exParent, exChild, exRef].filter fun r => r.holds m).length = 1) ∧
    groupSum exPop exVals none = .ok [2, 0, 0, 0] ∧ groupSum exPop exVals (some exParent) = .ok [-2, 0, 0, 0] ∧
    groupSum exPop exVals (some exChild) = .ok [0, 0, 0, 0] ∧ groupSum exPop exVals (some exRef) = .ok [4, 0, 0, 0] :=
  ⟨by decide, by decide, rfl, rfl, rfl, rfl⟩

/-! ## aggregating a projection gives the group's own value back -/

/-- A group-level array `x` projected onto the persons is constant on every group; aggregating it
again gives, for every group WITH a member (holding the role), its own value as minimum, maximum
and value of the n-th member, and `size × value` as sum; a group without such a member gets the
neutral element / the default. -/
theorem C10_aggregate_of_projection (p : Pop) (x : List Int) (role : Option Role) (k : Nat) (d : Int)
    (hx : x.length = p.n) (hne : p.ms ≠ []) (hg : ∀ m ∈ p.ms, m.group < p.n) :
    ∃ y, project p x 0 none = .ok y ∧ y.length = p.ms.length ∧
      ∀ g, g < p.n →
        let size := (p.ms.filter fun m => m.group == g && roleOk role m).length
        (∃ r, groupSum p y role = .ok r ∧ r[g]? = some ((size : Int) * x.getD g 0)) ∧
        (∃ r, groupMin p y role = .ok r ∧ r[g]? = some (if 0 < size then .fin (x.getD g 0) else .posInf)) ∧
        (∃ r, groupMax p y role = .ok r ∧ r[g]? = some (if 0 < size then .fin (x.getD g 0) else .negInf)) ∧
        (∃ r, valueNth p k y d = .ok r ∧
          r[g]? = some (if k < (p.ms.filter fun m => m.group == g).length then x.getD g 0 else d)) := by
  have hy : project p x 0 none = .ok (p.ms.map fun m => x.getD m.group 0) := by
    rw [project_eq p x 0 none hx hg]
    simp [roleOk]
  refine ⟨_, hy, by simp, fun g hgn => ?_⟩
  have hlen : (p.ms.map fun m => x.getD m.group 0).length = p.ms.length := by simp
  intro size
  refine ⟨?_, ?_, ?_, ?_⟩
  · obtain ⟨r, e1, _, e3⟩ := C10_sum_def p _ role hlen hg
    exact ⟨r, e1, by rw [e3 g hgn, valuesOf_broadcast, sum_replicate_int]⟩
  · obtain ⟨r, e1, _, e3⟩ := C10_min_def p _ role hlen hne hg
    refine ⟨r, e1, ?_⟩
    rw [(e3 g hgn).1, valuesOf_broadcast]
    by_cases hs : 0 < size
    · rw [if_pos hs, foldl_min_replicate _ _ hs]
    · have : size = 0 := by omega
      rw [if_neg hs]
      show some ((List.map EInt.fin (List.replicate size _)).foldl EInt.min .posInf) = _
      rw [this]; rfl
  · obtain ⟨r, e1, _, e3⟩ := C10_max_def p _ role hlen hne hg
    refine ⟨r, e1, ?_⟩
    rw [(e3 g hgn).1, valuesOf_broadcast]
    by_cases hs : 0 < size
    · rw [if_pos hs, foldl_max_replicate _ _ hs]
    · have : size = 0 := by omega
      rw [if_neg hs]
      show some ((List.map EInt.fin (List.replicate size _)).foldl EInt.max .negInf) = _
      rw [this]; rfl
  · obtain ⟨⟨r, e1, _, e3⟩, _⟩ := C10_nth_def p k _ d hlen hne hg
    refine ⟨r, e1, ?_⟩
    rw [e3 g hgn, valuesOf_broadcast]
    simp only [roleOk, Bool.and_true]
    by_cases hk : k < (p.ms.filter fun m => m.group == g).length
    · rw [if_pos hk, List.getElem?_replicate, if_pos hk]; rfl
    · rw [if_neg hk, List.getElem?_replicate, if_neg hk]; rfl

example : project exPop [10, 20, 30, 40] 0 none = .ok [10, 30, 10, 30, 10] ∧
    groupSum exPop [10, 30, 10, 30, 10] none = .ok [30, 0, 60, 0] ∧
    groupMin exPop [10, 30, 10, 30, 10] (some exChild) = .ok [.posInf, .posInf, .fin 30, .posInf] ∧
    valueNth exPop 2 [10, 30, 10, 30, 10] (-7) = .ok [10, -7, -7, -7] := ⟨rfl, rfl, rfl, rfl⟩

/-! ## `reduce` with any reducer -/

/-- `reduce(array, reducer, neutral_element, role)`: for every reducer for which the given element
is neutral on the right, the result is the left fold of the reducer over the values of the members
of the group (holding the role), in storage order, started from the neutral element — `all`, `min`
and `max` are the instances `logical_and / True`, `minimum / +inf`, `maximum / -inf`. -/
theorem C10_reduce_def {α} (p : Pop) (a : List α) (op : α → α → α) (e : α) (role : Option Role)
    (hlen : a.length = p.ms.length) (hne : p.ms ≠ []) (hg : ∀ m ∈ p.ms, m.group < p.n)
    (hid : ∀ x, op x e = x) :
    (∃ r, reduce p a op e role = .ok r ∧ r.length = p.n ∧
      ∀ g, g < p.n → r[g]? = some ((valuesOf p role g a).foldl op e)) ∧
    (∀ b : List Bool, groupAll p b role = reduce p b (fun x y => x && y) true role) ∧
    (∀ v : List Int, groupMin p v role = reduce p (v.map .fin) EInt.min .posInf role ∧
      groupMax p v role = reduce p (v.map .fin) EInt.max .negInf role) := by
  have h := range_map_spec p.n (fun g => (valuesOf p role g a).foldl op e)
  exact ⟨⟨_, reduce_eq p a op e role hlen hne hg hid, h.1, h.2⟩, fun _ => rfl, fun _ => ⟨rfl, rfl⟩⟩

/-- the sum as a reduction (`numpy.add`, 0) and "the greatest value, at least 0" (`numpy.maximum`, 0
is NOT neutral for negative values: outside the hypothesis) -/
example : reduce exPop exVals (· + ·) 0 none = .ok [2, 0, 0, 0] ∧ (∀ x : Int, x + 0 = x) :=
  ⟨rfl, Int.add_zero⟩

/-! ## `population.members` in attribute chains -/

/-- `group.members` (and `person.group.members`, through a projector) is the persons population
itself: whatever projectors came before are dropped, the chain goes on from the persons; on the
persons population `members` is no attribute. -/
theorem C10_members_shortcut (w : World) (acc : List Proj) (e : Nat) (ss : List Shortcut) :
    resolveAcc w acc (.group e) (.members :: ss) = resolveChain w .person ss ∧
    (∃ m, resolveAcc w acc .person (.members :: ss) = .error m) ∧
    (∀ start pre, resolveChain w start pre = .ok (acc, .group e) →
      resolveChain w start (pre ++ .members :: ss) = resolveChain w .person ss) := by
  refine ⟨rfl, ⟨_, rfl⟩, ?_⟩
  intro start pre h
  have key : ∀ (pre : List Shortcut) (acc0 : List Proj) (lvl : Level),
      resolveAcc w acc0 lvl pre = .ok (acc, .group e) →
      resolveAcc w acc0 lvl (pre ++ .members :: ss) = resolveAcc w [] .person ss := by
    intro pre
    induction pre with
    | nil =>
      intro acc0 lvl h
      simp only [resolveAcc, Except.ok.injEq, Prod.mk.injEq] at h
      obtain ⟨_, rfl⟩ := h
      rfl
    | cons s pre ih =>
      intro acc0 lvl h
      cases s with
      | members =>
        cases lvl with
        | person => simp [resolveAcc] at h
        | group e' =>
          simp only [List.cons_append, resolveAcc] at h ⊢
          exact ih _ _ h
      | entity e' =>
        simp only [List.cons_append, resolveAcc] at h ⊢
        cases hr : resolve w lvl (.entity e') with
        | none => rw [hr] at h; cases h
        | some q => rw [hr] at h; exact ih _ _ h
      | firstPerson =>
        simp only [List.cons_append, resolveAcc] at h ⊢
        cases hr : resolve w lvl .firstPerson with
        | none => rw [hr] at h; cases h
        | some q => rw [hr] at h; exact ih _ _ h
      | role r =>
        simp only [List.cons_append, resolveAcc] at h ⊢
        cases hr : resolve w lvl (.role r) with
        | none => rw [hr] at h; cases h
        | some q => rw [hr] at h; exact ih _ _ h
      | other =>
        simp only [List.cons_append, resolveAcc] at h ⊢
        cases hr : resolve w lvl .other with
        | none => rw [hr] at h; cases h
        | some q => rw [hr] at h; exact ih _ _ h
  exact key pre [] start h

example :
    -- person.household.members.household.sum(a) is person.household.sum(a)
    chainCall (World.single exPop) 0 .person [.entity 0, .members, .entity 0] true (fun _ => groupSum exPop exVals none)
      = chainCall (World.single exPop) 0 .person [.entity 0] true (fun _ => groupSum exPop exVals none) ∧
    -- household.first_person.household.members.has_role(child): one answer per person, untransformed
    chainCall (World.single exPop) false (.group 0) [.firstPerson, .entity 0, .members] true
      (fun _ => .ok (exPop.hasRole exChild)) = .ok [false, true, false, true, false] ∧
    (∃ m, resolveChain (World.single exPop) .person [.members] = .error m) := ⟨rfl, rfl, ⟨_, rfl⟩⟩

/-! ## refusals: wrong array sizes, nobody in the simulation -/

theorem C10_refusals (p : Pop) :
    -- an array that does not have one value per person (per group, for `project`)
    (∀ (a : List Int) role, a.length ≠ p.ms.length →
      (∃ e, groupSum p a role = .error e) ∧ (∃ e, groupMin p a role = .error e) ∧
      (∃ e, groupMax p a role = .error e)) ∧
    (∀ (b : List Bool) role, b.length ≠ p.ms.length →
      (∃ e, groupAny p b role = .error e) ∧ (∃ e, groupAll p b role = .error e)) ∧
    (∀ {α} k (a : List α) d, a.length ≠ p.ms.length → ∃ e, valueNth p k a d = .error e) ∧
    (∀ {α} (x : List α) z role, x.length ≠ p.n → ∃ e, project p x z role = .error e) ∧
    -- nobody: the operations that go through the member positions raise, the others answer
    (p.ms = [] →
      (∀ {α} k (a : List α) d, ∃ e, valueNth p k a d = .error e) ∧
      (∀ (b : List Bool) role, ∃ e, groupAll p b role = .error e) ∧
      (∀ crit cond, ∃ e, getRank p crit cond = .error e) ∧
      groupSum p [] none = .ok (List.replicate p.n 0) ∧
      nbPersons p none = .ok (List.replicate p.n 0)) := by
  refine ⟨?_, ?_, ?_, ?_, ?_⟩
  · intro a role h
    refine ⟨?_, ?_, ?_⟩
    · unfold groupSum; rw [if_pos h]; exact ⟨_, rfl⟩
    · unfold groupMin reduce; rw [if_pos (by simpa using h)]; exact ⟨_, rfl⟩
    · unfold groupMax reduce; rw [if_pos (by simpa using h)]; exact ⟨_, rfl⟩
  · intro b role h
    refine ⟨?_, ?_⟩
    · unfold groupAny groupAnyI groupSum; rw [if_pos (by simpa using h)]; exact ⟨_, rfl⟩
    · unfold groupAll reduce; rw [if_pos h]; exact ⟨_, rfl⟩
  · intro α k a d h
    unfold valueNth valueNthWith; rw [if_pos h]; exact ⟨_, rfl⟩
  · intro α x z role h
    unfold project; rw [if_pos h]; exact ⟨_, rfl⟩
  · intro hms
    have hids : p.ids = [] := by simp [Pop.ids, hms]
    refine ⟨?_, ?_, ?_, ?_, ?_⟩
    · intro α k a d
      unfold valueNth valueNthWith
      by_cases h : a.length ≠ p.ms.length
      · rw [if_pos h]; exact ⟨_, rfl⟩
      · rw [if_neg h, hids]; exact ⟨_, rfl⟩
    · intro b role
      unfold groupAll reduce
      by_cases h : b.length ≠ p.ms.length
      · rw [if_pos h]; exact ⟨_, rfl⟩
      · rw [if_neg h, hids]; exact ⟨_, rfl⟩
    · intro crit cond
      unfold getRank getRankWith
      rw [hids]; exact ⟨_, rfl⟩
    · unfold groupSum
      rw [if_neg (by simp [hms])]
      simp [hids, bincountW, bcLen, bcLoop]
    · unfold nbPersons
      simp [hids, bincount, bincountW, bcLen, bcLoop]

example : (∃ e, groupSum exPop [1, 2] none = .error e) ∧
    (∃ e, valueNth ⟨2, []⟩ 0 ([] : List Int) 0 = .error e) ∧ groupSum ⟨2, []⟩ [] none = .ok [0, 0] :=
  ⟨⟨_, rfl⟩, ⟨_, rfl⟩, rfl⟩

/-! ## one element per group of the simulation, groups without any member included -/

theorem C10_length (p : Pop) (a : List Int) (b : List Bool) (role : Option Role) (r1 : Role) (k : Nat)
    (d : Int) (ha : a.length = p.ms.length) (hb : b.length = p.ms.length) (hne : p.ms ≠ [])
    (hg : ∀ m ∈ p.ms, m.group < p.n) (hmax : r1.max = some 1)
    (hu : ∀ g, g < p.n → (valuesOf p (some r1) g a).length ≤ 1) :
    (∃ r, groupSum p a role = .ok r ∧ r.length = p.n) ∧
    (∃ r, nbPersons p role = .ok r ∧ r.length = p.n) ∧
    (∃ r, groupAny p b role = .ok r ∧ r.length = p.n) ∧
    (∃ r, groupAll p b role = .ok r ∧ r.length = p.n) ∧
    (∃ r, groupMin p a role = .ok r ∧ r.length = p.n) ∧
    (∃ r, groupMax p a role = .ok r ∧ r.length = p.n) ∧
    (∃ r, valueNth p k a d = .ok r ∧ r.length = p.n) ∧
    (∃ r, valueFromFirst p a d = .ok r ∧ r.length = p.n) ∧
    (∃ r, valueFromPerson p a r1 d = .ok r ∧ r.length = p.n) := by
  obtain ⟨r, h1, h2, _⟩ := C10_sum_def p a role ha hg
  obtain ⟨r', h1', h2', _⟩ := C10_count_def p role hg
  obtain ⟨r3, h3, h3', _⟩ := C10_any_def p b role hb hg
  obtain ⟨r4, h4, h4', _⟩ := C10_all_def p b role hb hne hg
  obtain ⟨r5, h5, h5', _⟩ := C10_min_def p a role ha hne hg
  obtain ⟨r6, h6, h6', _⟩ := C10_max_def p a role ha hne hg
  obtain ⟨⟨r7, h7, h7', _⟩, _⟩ := C10_nth_def p k a d ha hne hg
  obtain ⟨⟨r8, h8, h8', _⟩, h8e⟩ := C10_nth_def p 0 a d ha hne hg
  obtain ⟨r9, h9, h9', _⟩ := C10_from_role_def p a r1 d hmax ha hg hu
  exact ⟨⟨r, h1, h2⟩, ⟨r', h1', h2'⟩, ⟨r3, h3, h3'⟩, ⟨r4, h4, h4'⟩, ⟨r5, h5, h5'⟩, ⟨r6, h6, h6'⟩,
    ⟨r7, h7, h7'⟩, ⟨r8, h8e ▸ h8, h8'⟩, ⟨r9, h9, h9'⟩⟩

/-- a simulation whose last two groups have no member: every result still has four elements -/
example : (groupSum ⟨4, [⟨1, 0⟩, ⟨1, 2⟩, ⟨0, 3⟩]⟩ [5, 6, 7] none = .ok [7, 11, 0, 0]) ∧
    (nbPersons ⟨4, [⟨1, 0⟩, ⟨1, 2⟩, ⟨0, 3⟩]⟩ none = .ok [1, 2, 0, 0]) ∧
    (groupMin ⟨4, [⟨1, 0⟩, ⟨1, 2⟩, ⟨0, 3⟩]⟩ [5, 6, 7] none = .ok [.fin 7, .fin 5, .posInf, .posInf]) ∧
    (valueFromFirst ⟨4, [⟨1, 0⟩, ⟨1, 2⟩, ⟨0, 3⟩]⟩ [5, 6, 7] (0 : Int) = .ok [7, 5, 0, 0]) :=
  ⟨rfl, rfl, rfl, rfl⟩

end OFCore
