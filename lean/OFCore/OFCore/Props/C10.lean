import OFCore.Group
namespace OFCore
theorem C10_placeholder : True := trivial
end OFCore
