import OFCore.AddDivide
import OFCore.GeneratedGuards
/-!
# C03 — the model's request decisions are the ones the code's source states (translator tie)

`OFCore.Generated.Guards` is regenerated on every run from the source of
`Simulation._check_period_consistency`, `calculate_add`, `calculate_divide` and `Holder._set`
(`harness/ofverif/translate.py`: AST -> Lean, guard chains and selector chains).  The theorems below
state that the hand-written model of `AddDivide.lean` — the one every `C03_…` theorem is about — takes
exactly those decisions, for every definition unit, every requested unit and every size.  They are
re-checked against what the code says now: a changed branch re-states them.
-/
set_option linter.unusedSimpArgs false
namespace OFCore
open OFCore.Generated

/-- `_check_period_consistency`: the model accepts exactly the (definition unit, period) pairs on which
    none of the code's guards raises -/
theorem C03_tie_check_period_consistency (du : DUnit) (p : Period) :
    (checkPeriodConsistency du p).toBool = !Guards.checkPeriodConsistency_raises du p.unit p.size := by
  obtain ⟨pu, st, sz⟩ := p
  by_cases h : sz = 1
  · subst h; cases du <;> cases pu <;>
      simp [Tie.consistencyGuards, Tie.holderSetGuards, Tie.addGuards, Tie.divideGuards, Tie.dated, Tie.enclosingName, Tie.denominatorName, checkPeriodConsistency, Guards.checkPeriodConsistency_raises, Except.toBool]
  · cases du <;> cases pu <;>
      simp [Tie.consistencyGuards, Tie.holderSetGuards, Tie.addGuards, Tie.divideGuards, Tie.dated, Tie.enclosingName, Tie.denominatorName, checkPeriodConsistency, Guards.checkPeriodConsistency_raises, Except.toBool, h]

/-- `Holder._set`: the model's store check accepts exactly when none of the code's guards raises -/
theorem C03_tie_holder_set (du : DUnit) (p : Period) :
    (holderStoreCheck du p).toBool = !Guards.holderSet_raises du p.unit p.size := by
  obtain ⟨pu, st, sz⟩ := p
  by_cases h : sz > 1
  · cases du <;> cases pu <;>
      simp [Tie.consistencyGuards, Tie.holderSetGuards, Tie.addGuards, Tie.divideGuards, Tie.dated, Tie.enclosingName, Tie.denominatorName, holderStoreCheck, Guards.holderSet_raises, Except.toBool, h]
  · cases du <;> cases pu <;>
      simp [Tie.consistencyGuards, Tie.holderSetGuards, Tie.addGuards, Tie.divideGuards, Tie.dated, Tie.enclosingName, Tie.denominatorName, holderStoreCheck, Guards.holderSet_raises, Except.toBool, h]

/-- `calculate_add`: whenever one of the code's three guards raises, the model refuses -/
theorem C03_tie_calculate_add_refuses (val : Period → Int) (store : Bool) (du : DUnit) (p : Period)
    (h : Guards.calculateAdd_raises du p.unit p.size = true) :
    ∃ e, calcAdd val store du p = .error e := by
  obtain ⟨pu, st, sz⟩ := p
  cases du <;> cases pu <;> revert h <;>
    simp [Tie.consistencyGuards, Tie.holderSetGuards, Tie.addGuards, Tie.divideGuards, Tie.dated, Tie.enclosingName, Tie.denominatorName, Guards.calculateAdd_raises, calcAdd, isDated, unitWeight, Generated.unitWeightTable,
      Generated.isoformatUnits, Generated.isocalendarUnits, DUnit.name, List.lookup]

/-- `calculate_add`: when none of them raises, the model sums the variable over the sub-periods -/
theorem C03_tie_calculate_add_serves (val : Period → Int) (store : Bool) (du : DUnit) (p : Period)
    (h : Guards.calculateAdd_raises du p.unit p.size = false) :
    calcAdd val store du p = (do
      let qs ← p.subperiods du
      let vs ← qs.mapM (calcPlain val store du)
      .ok vs.sum) := by
  obtain ⟨pu, st, sz⟩ := p
  cases du <;> cases pu <;> revert h <;>
    simp [Tie.consistencyGuards, Tie.holderSetGuards, Tie.addGuards, Tie.divideGuards, Tie.dated, Tie.enclosingName, Tie.denominatorName, Guards.calculateAdd_raises, calcAdd, isDated, unitWeight, Generated.unitWeightTable,
      Generated.isoformatUnits, Generated.isocalendarUnits, DUnit.name, List.lookup]

/-- `calculate_divide`: whenever one of the code's three guards raises, the model refuses -/
theorem C03_tie_calculate_divide_refuses (val : Period → Int) (store : Bool) (du : DUnit) (p : Period)
    (h : Guards.calculateDivide_raises du p.unit p.size = true) :
    ∃ e, calcDivide val store du p = .error e := by
  obtain ⟨pu, st, sz⟩ := p
  by_cases h1 : sz = 1
  · subst h1
    cases du <;> cases pu <;> revert h <;>
      simp [Tie.consistencyGuards, Tie.holderSetGuards, Tie.addGuards, Tie.divideGuards, Tie.dated, Tie.enclosingName, Tie.denominatorName, Guards.calculateDivide_raises, calcDivide, isDated, unitWeight, Generated.unitWeightTable,
        Generated.isoformatUnits, Generated.isocalendarUnits, DUnit.name, List.lookup]
  · by_cases h2 : sz > 1
    · cases du <;> cases pu <;>
        simp [Tie.consistencyGuards, Tie.holderSetGuards, Tie.addGuards, Tie.divideGuards, Tie.dated, Tie.enclosingName, Tie.denominatorName, calcDivide, isDated, unitWeight, Generated.unitWeightTable,
          Generated.isoformatUnits, Generated.isocalendarUnits, DUnit.name, List.lookup, h1, h2]
    · cases du <;> cases pu <;>
        simp [Tie.consistencyGuards, Tie.holderSetGuards, Tie.addGuards, Tie.divideGuards, Tie.dated, Tie.enclosingName, Tie.denominatorName, calcDivide, isDated, unitWeight, Generated.unitWeightTable,
          Generated.isoformatUnits, Generated.isocalendarUnits, DUnit.name, List.lookup, h1, h2]

/-- `calculate_divide`: when none raises, the model computes the variable for the period the code
    selects (`this_year`, `first_month`, …) and divides by the size the code selects
    (`size_in_years`, `size_in_months`, …) -/
theorem C03_tie_calculate_divide_serves (val : Period → Int) (store : Bool) (du : DUnit) (p : Period)
    (h : Guards.calculateDivide_raises du p.unit p.size = false) :
    calcDivide val store du p = (do
      let c ← Tie.namedPeriod (Guards.calculateDivide_period du) p
      let n ← Tie.namedSize (Guards.calculateDivide_denominator p.unit) c
      let v ← calcPlain val store du c
      .ok ((v : Rat) / (n : Rat))) := by
  obtain ⟨pu, st, sz⟩ := p
  by_cases h1 : sz = 1
  · subst h1
    cases du <;> cases pu <;> revert h <;>
      simp [Tie.consistencyGuards, Tie.holderSetGuards, Tie.addGuards, Tie.divideGuards, Tie.dated, Tie.enclosingName, Tie.denominatorName, Guards.calculateDivide_raises, Guards.calculateDivide_period, Guards.calculateDivide_denominator,
        calcDivide, enclosing, denominator, Tie.namedPeriod, Tie.namedSize,
        isDated, unitWeight, Generated.unitWeightTable,
        Generated.isoformatUnits, Generated.isocalendarUnits, DUnit.name, List.lookup]
  · exfalso
    revert h
    cases du <;> cases pu <;>
      simp [Tie.consistencyGuards, Tie.holderSetGuards, Tie.addGuards, Tie.divideGuards, Tie.dated, Tie.enclosingName, Tie.denominatorName, Guards.calculateDivide_raises, isDated, unitWeight, Generated.unitWeightTable,
        Generated.isoformatUnits, Generated.isocalendarUnits, DUnit.name, List.lookup, h1]

-- non-vacuity: a request the code serves and one it refuses
example : Guards.calculateAdd_raises .month .year 1 = false := by decide
example : Guards.calculateAdd_raises .year .month 1 = true := by decide
example : Guards.calculateDivide_raises .year .month 1 = false ∧ Guards.calculateDivide_period .year = "this_year" := by decide
example : Guards.checkPeriodConsistency_raises .day .month 1 = true := by decide

end OFCore
