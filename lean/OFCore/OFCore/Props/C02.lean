import OFCore.Props.C01
import OFCore.Lemmas.EngineSys
import OFCore.Lemmas.EngineMarkAll
/-!
# C02 — what was calculated before never corrupts what is calculated or kept next

Part 1 (rule systems in which no variable depends on itself — `VarRanked`): a request returns
its meaning from every reachable state, hence the same value whatever was requested before, in
whatever order, and the same as on a fresh simulation.

Part 2 (ALL rule systems, including spiralling and faulty ones, any `max_spiral_loops`): ghost
provenance.  Every result and cache entry of the model carries a bit `g` — true for a substituted
spiral default, for a hit on an entry stored with `g = true`, and for a formula one of whose reads
had `g = true`.  No decision of the machine reads it.  Invariant: every entry with `g = false` is
the pure, context-free meaning; everything marked is purged when the top-level request returns.

The full statement "every retained value is reproducible" is FALSE of the code (open finding
F-C02b: frames above the earlier occurrence of the spiralling variable keep a tainted value);
`C02_retained_tainted_counterexample` exhibits it in the model, the corpus of the check replays
it on the implementation.  `C02_whole_stack_marking_retains_only_meanings` proves the full
statement for the what-if machine that marks the WHOLE stack at a spiral (`Sys.markAll`, the
repair that was tried and not landed): F-C02b is the only obstacle.
-/
set_option linter.unusedSectionVars false
namespace OFCore
open OFCore.Engine

variable {P : Type} [DecidableEq P]

/-- Order independence: after ANY two sequences of earlier requests (successful or failed), a
    request returns the same value, which is also what the initial (fresh) state returns. -/
theorem C02_order_independent (sys : Sys P) (hk : SlotCoherent sys) (rk : Nat → Nat) (hr : VarRanked sys rk) (hmsl : 1 ≤ sys.msl)
    (n : Nat) (krs₁ krs₂ : List (Node P × Res))
    (h₁ : ∀ kr ∈ krs₁, den sys n kr.1.1 kr.1.2 = some kr.2)
    (h₂ : ∀ kr ∈ krs₂, den sys n kr.1.1 kr.1.2 = some kr.2)
    (k : Node P) (r : Res) (hd : den sys n k.1 k.2 = some r) :
    ∃ s₁ s₂ s₁' s₂' s₀',
      requests sys n St.init (krs₁.map (·.1)) = some (krs₁.map (·.2), s₁) ∧
      requests sys n St.init (krs₂.map (·.1)) = some (krs₂.map (·.2), s₂) ∧
      request sys n s₁ k = some (r, false, s₁') ∧
      request sys n s₂ k = some (r, false, s₂') ∧
      request sys n St.init k = some (r, false, s₀') := by
  obtain ⟨hc0, hs0, hi0⟩ := C01_init_consistent sys
  obtain ⟨s₁, e1, c1, st1, i1⟩ := C01_requests_eq_den sys hk rk hr hmsl n krs₁ h₁ St.init hc0 hs0 hi0
  obtain ⟨s₂, e2, c2, st2, i2⟩ := C01_requests_eq_den sys hk rk hr hmsl n krs₂ h₂ St.init hc0 hs0 hi0
  obtain ⟨s₁', f1, _⟩ := C01_calculate_eq_den sys hk rk hr hmsl n s₁ c1 st1 i1 k.1 k.2 r hd
  obtain ⟨s₂', f2, _⟩ := C01_calculate_eq_den sys hk rk hr hmsl n s₂ c2 st2 i2 k.1 k.2 r hd
  obtain ⟨s₀', f0, _⟩ := C01_calculate_eq_den sys hk rk hr hmsl n St.init hc0 hs0 hi0 k.1 k.2 r hd
  exact ⟨s₁, s₂, s₁', s₂', s₀', e1, e2, f1, f2, f0⟩

/-- After every top-level request (all systems, success or failure): the evaluation stack is
    empty again, nothing is left marked, every entry that was marked during the request has been
    deleted and every other entry is kept as it was. -/
theorem C02_stack_and_purge (sys : Sys P) (n : Nat) (s : St P) (hs : s.stack = []) (k : Node P)
    (r : Res) (g : Bool) (s' : St P) (h : request sys n s k = some (r, g, s')) :
    s'.stack = [] ∧ s'.inval = [] ∧
    ∃ s₁, run sys n s k.1 k.2 = some (r, g, s₁) ∧
      ∀ j, lookup s'.cache j = if j ∈ s₁.inval.map sys.slot then none else lookup s₁.cache j := by
  unfold request at h
  cases hrun : run sys n s k.1 k.2 with
  | none => rw [hrun] at h; cases h
  | some res =>
    obtain ⟨r1, g1, s1⟩ := res
    rw [hrun] at h
    simp only [Option.some.injEq, Prod.mk.injEq] at h
    obtain ⟨rfl, rfl, rfl⟩ := h
    have hst := run_stack sys n s k.1 k.2 r1 g1 s1 hrun
    rw [hs] at hst
    rw [if_pos hst]
    refine ⟨by rw [(purge_spec sys s1 k).2.1, hst], (purge_spec sys s1 k).1, s1, rfl, fun j => (purge_spec sys s1 j).2.2⟩

/-- Marked entries are purged: nothing that was in `invalidated_caches` is readable afterwards. -/
theorem C02_marked_purged (sys : Sys P) (n : Nat) (s : St P) (hs : s.stack = []) (k : Node P)
    (r : Res) (g : Bool) (s' s₁ : St P) (h : request sys n s k = some (r, g, s'))
    (hrun : run sys n s k.1 k.2 = some (r, g, s₁)) : ∀ j ∈ s₁.inval, lookup s'.cache (sys.slot j) = none := by
  obtain ⟨_, _, s₁', h1, h2⟩ := C02_stack_and_purge sys n s hs k r g s' h
  rw [hrun] at h1
  simp only [Option.some.injEq, Prod.mk.injEq, true_and] at h1
  subst h1
  intro j hj
  rw [h2 (sys.slot j), if_pos (List.mem_map_of_mem hj)]

/-- Ghost provenance invariant, for ALL rule systems and any spiral limit: along any sequence of
    top-level requests from the initial state, every retained entry whose ghost bit is false is
    the pure meaning of its node — what any simulation with these inputs computes for it when no
    spiral interferes. -/
theorem C02_untainted_is_meaning (sys : Sys P) (hk : SlotCoherent sys) (n : Nat) (ks : List (Node P))
    (rs : List Res) (s' : St P) (h : requests sys n St.init ks = some (rs, s')) :
    ∀ v p x, lookup s'.cache (sys.slot (v, p)) = some (x, false) → ∃ m, den sys m v p = some (.ok x) := by
  have h0 : GClean sys (St.init : St P).cache := by intro v p x hj; simp [St.init, lookup] at hj
  exact gclean_requests sys hk n ks St.init rs s' h0 h

/-- … and every untainted RESULT is the meaning too. -/
theorem C02_untainted_result_is_meaning (sys : Sys P) (hk : SlotCoherent sys) (n : Nat) (s : St P) (hc : GClean sys s.cache)
    (k : Node P) (x : Val) (s' : St P) (h : request sys n s k = some (.ok x, false, s')) :
    ∃ m, den sys m k.1 k.2 = some (.ok x) := by
  unfold request at h
  cases hrun : run sys n s k.1 k.2 with
  | none => rw [hrun] at h; cases h
  | some res =>
    obtain ⟨r1, g1, s1⟩ := res
    rw [hrun] at h
    simp only [Option.some.injEq, Prod.mk.injEq] at h
    obtain ⟨rfl, rfl, _⟩ := h
    exact (run_clean sys hk n s k.1 k.2 _ _ s1 hc hrun).2 rfl x rfl

/-- For systems without self-dependent variables nothing is ever tainted and every retained value
    is exactly what a fresh simulation with the same inputs returns for it (partial: the clause
    "given the other retained values" and systems with spirals are carried by the correspondence
    and the oracle; the full statement fails on F-C02b). -/
theorem C02_fresh_agrees_partial (sys : Sys P) (hk : SlotCoherent sys) (rk : Nat → Nat) (hr : VarRanked sys rk) (hmsl : 1 ≤ sys.msl)
    (n : Nat) (krs : List (Node P × Res)) (h : ∀ kr ∈ krs, den sys n kr.1.1 kr.1.2 = some kr.2) :
    ∃ s, requests sys n St.init (krs.map (·.1)) = some (krs.map (·.2), s) ∧
      ∀ v p x g, lookup s.cache (sys.slot (v, p)) = some (x, g) → g = false ∧
        ∃ m s₀', request sys m St.init (v, p) = some (.ok x, false, s₀') := by
  obtain ⟨hc0, hs0, hi0⟩ := C01_init_consistent sys
  obtain ⟨s, e, c, _, _⟩ := C01_requests_eq_den sys hk rk hr hmsl n krs h St.init hc0 hs0 hi0
  refine ⟨s, e, ?_⟩
  intro v p x g hj
  obtain ⟨hg, m, hm⟩ := c v p x g hj
  obtain ⟨s₀', f0, _⟩ := C01_calculate_eq_den sys hk rk hr hmsl m St.init hc0 hs0 hi0 v p _ hm
  exact ⟨hg, m, s₀', f0⟩

/-! ## the open finding, in the model -/

/-- `v0 = 6 + 3·v0@last_month`, `v1 = 7 + 3·v0`, input `v0@1 = 8`, `max_spiral_loops = 1`;
    periods are month numbers -/
def spiralSys : Sys Nat where
  formula v p := if v = 0 then some (.op2 0 (.const [6]) (.op1 3 (.ref 0 (p - 1))))
                 else if v = 1 then some (.op2 0 (.const [7]) (.op1 3 (.ref 0 p))) else none
  input v p := if v = 0 ∧ p = 1 then some [8] else none
  dflt _ := [0]
  post _ x := x
  f1 o x := x.map (· * (o : Int))
  f2 _ x y := List.zipWith (· + ·) x y
  armed _ := false
  msl := 1
  noStore _ := false
  ckey _ p := p

/-- Requesting `v1@4` substitutes the default for `v0@3`, purges `v0@4`, but KEEPS the tainted
    `v1@4 = 25` (its frame lies above the earlier occurrence of the spiralling variable), although
    the meaning of `v1@4` is `889`: the retained value is not reproducible (finding F-C02b). -/
theorem C02_retained_tainted_counterexample :
    ∃ s', request spiralSys 10 St.init (1, 4) = some (.ok [25], true, s') ∧
      lookup s'.cache (1, 4) = some ([25], true) ∧ lookup s'.cache (0, 4) = none ∧
      den spiralSys 10 1 4 = some (.ok [889]) := by
  refine ⟨⟨[((1, 4), ([25], true))], [], []⟩, ?_, ?_, ?_, ?_⟩
  · simp [request, run, runE, spiralSys, lookup, store, markSpiral, purge, St.init, Sys.slot]
  all_goals simp [den, denE, spiralSys, lookup]

/-- What a spiral cut marks (`invalidate_spiral_variables`), for all systems: when `v` is requested
    at a new period while `max_spiral_loops` frames of `v` are already on the stack, the default is
    substituted (tainted, not stored) and the frames marked for deletion are the requested node and
    the most recent frames of the stack down to, and including, the `max_spiral_loops`-th earlier
    frame of `v` — a prefix `seg` of the stack that holds exactly that many frames of `v` and ends
    with one.  The OLDER frames (`older`) are not marked by this cut: they complete with a value
    derived from the substituted default and keep it (finding F-C02b, kind (i) of the taint origin). -/
theorem C02_spiral_marks_segment (sys : Sys P) (hm : sys.markAll = false) (n : Nat) (s : St P) (v : Nat) (p : P)
    (hl : lookup s.cache (sys.slot (v, p)) = none) (hin : sys.input v p = none) (hns : (v, p) ∉ s.stack)
    (hmsl : 1 ≤ sys.msl) (hsp : sys.msl ≤ (s.stack.filter (fun k => k.1 = v)).length) :
    ∃ seg older, s.stack = seg ++ older ∧
      run sys (n+1) s v p = some (.ok (sys.dflt v), true, { s with inval := (v, p) :: seg ++ s.inval }) ∧
      (seg.filter (fun k => k.1 = v)).length = sys.msl ∧ ∃ k, seg.getLast? = some k ∧ k.1 = v := by
  obtain ⟨older, hold⟩ := markSpiral_prefix v s.stack sys.msl
  obtain ⟨h1, h2⟩ := markSpiral_count v s.stack sys.msl hmsl hsp
  refine ⟨markSpiral v sys.msl s.stack, older, hold.symm, ?_, h1, h2⟩
  simp [run, hl, hin, hns, hsp, hm]


/-- the cut of the counterexample: `v0@3` is requested while `v0@4` (its first earlier frame) and,
    older, `v1@4` are on the stack: `v0@3` and `v0@4` are marked, `v1@4` is not -/
example : ∃ seg older, ([(0, 4), (1, 4)] : List (Node Nat)) = seg ++ older ∧ older = [(1, 4)] ∧
    run spiralSys 5 ⟨[], [(0, 4), (1, 4)], []⟩ 0 3 =
      some (.ok [0], true, ⟨[], [(0, 4), (1, 4)], (0, 3) :: seg ++ []⟩) :=
  ⟨[(0, 4)], [(1, 4)], rfl, rfl, by simp [run, spiralSys, lookup, markSpiral, Sys.slot]⟩

/-- What-if (candidate repair of F-C02b, `Sys.markAll = true`: a spiral marks every frame on the
    stack): for ALL rule systems, any spiral limit and any sequence of top-level requests,
    successful or not, NO retained entry is tainted, and every retained value is the meaning of
    its node — what a fresh simulation with these inputs computes for it when no spiral
    interferes.  This is the full retained-value clause of C02; the code (`markAll = false`)
    fails it, see the counterexample above. -/
theorem C02_whole_stack_marking_retains_only_meanings (sys : Sys P) (hk : SlotCoherent sys)
    (hm : sys.markAll = true) (n : Nat) (ks : List (Node P)) (rs : List Res) (s' : St P)
    (h : requests sys n St.init ks = some (rs, s')) :
    ∀ v p x g, lookup s'.cache (sys.slot (v, p)) = some (x, g) →
      g = false ∧ ∃ m, den sys m v p = some (.ok x) := by
  intro v p x g hl
  have hg : g = false := requests_no_taint sys hm n ks St.init rs s'
    (fun j y g' hj => by simp [St.init, lookup] at hj) rfl rfl h _ x g hl
  subst hg
  exact ⟨rfl, C02_untainted_is_meaning sys hk n ks rs s' h v p x hl⟩

/-- the same rule system under the what-if machine: the request of the counterexample returns the
    same (spiral-affected) value but RETAINS nothing derived from the substituted default -/
example : ∃ s', request { spiralSys with markAll := true } 10 St.init (1, 4) = some (.ok [25], true, s') ∧
    lookup s'.cache (1, 4) = none ∧ lookup s'.cache (0, 4) = none := by
  refine ⟨⟨[], [], []⟩, ?_, rfl, rfl⟩
  simp [request, run, runE, spiralSys, lookup, store, markSpiral, purge, St.init, Sys.slot]


/-! ## the other entry points between the requests: `get_array`, `delete_arrays` -/

/-- Deleting stored values (any of them: `delete_arrays` of one period, of all periods contained in
    a period, of every period) keeps the store consistent: what remains is still nothing but
    untainted meanings. -/
theorem C02_delete_keeps_consistency (sys : Sys P) (c : Cache P) (f : Node P → Bool) :
    (Cons sys c → Cons sys (c.filter (fun e => f e.1))) ∧
    (GClean sys c → GClean sys (c.filter (fun e => f e.1))) := by
  constructor
  · intro hc v p x g h
    rw [lookup_filter_key] at h
    split at h
    · exact hc v p x g h
    · cases h
  · intro hc v p x h
    rw [lookup_filter_key] at h
    split at h
    · exact hc v p x h
    · cases h

/-- Hence (no self-dependent variable) a value deleted between two requests is simply computed
    again: after ANY deletion of computed values, from any reachable state, a request returns its
    meaning — the same value as before the deletion, and as on a fresh simulation. -/
theorem C02_delete_then_request (sys : Sys P) (hk : SlotCoherent sys) (rk : Nat → Nat) (hr : VarRanked sys rk) (hmsl : 1 ≤ sys.msl)
    (n : Nat) (s : St P) (hc : Cons sys s.cache) (hs : s.stack = []) (hi : s.inval = []) (f : Node P → Bool)
    (v : Nat) (p : P) (r : Res) (hd : den sys n v p = some r) :
    ∃ s', request sys n { s with cache := s.cache.filter (fun e => f e.1) } (v, p) = some (r, false, s') ∧
      Cons sys s'.cache ∧ s'.stack = [] ∧ s'.inval = [] :=
  C01_calculate_eq_den sys hk rk hr hmsl n { s with cache := s.cache.filter (fun e => f e.1) }
    ((C02_delete_keeps_consistency sys s.cache f).1 hc) hs hi v p r hd

/-- `delete_arrays(v, q)` of the model is such a deletion -/
theorem C02_deleteCached_is_filter (d : RuleSys.Decl) (v : Nat) (q : Option Period) (c : Cache Period) :
    ∃ f : Node Period → Bool, RuleSys.deleteCached d v q c = c.filter (fun e => f e.1) :=
  ⟨fun k => !(k.1 = v && (match q with | none => true | some q => RuleSys.deletes (RuleSys.isEternalVar d v) q k.2)), rfl⟩

/-- `get_array` never computes: from a consistent store it returns nothing, or the meaning of the
    node (a computed value, an input, or a neutralised variable's default). -/
theorem C02_get_array_is_meaning (sys : Sys Period) (s : St Period) (hc : Cons sys s.cache) (k : Node Period) (x : Val)
    (h : RuleSys.getArray sys s k = some x) : ∃ n, den sys n k.1 k.2 = some (.ok x) := by
  unfold RuleSys.getArray at h
  split at h
  · rename_i y g hy
    cases h
    exact (hc k.1 k.2 _ g hy).2
  · exact ⟨1, by simp [den, h]⟩

/-- a one-variable system over real periods, for the examples -/
def RuleSys.MONTH1 : Period := ⟨.month, ⟨2018, 1, 1⟩, 1⟩
def faultySysC02 : Sys Period where
  formula _ _ := none
  input _ _ := none
  dflt _ := [0]
  post _ x := x
  f1 _ x := x
  f2 _ x _ := x
  armed _ := false
  msl := 1
  noStore _ := false
  ckey _ p := p

example : RuleSys.getArray (faultySysC02) ⟨[((1, RuleSys.MONTH1), ([11], false))], [], []⟩ (1, RuleSys.MONTH1) = some [11] := by
  simp [RuleSys.getArray, lookup, Sys.slot, faultySysC02]

end OFCore
