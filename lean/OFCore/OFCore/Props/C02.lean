import OFCore.Props.C01
namespace OFCore
theorem C02_placeholder : True := trivial
end OFCore
