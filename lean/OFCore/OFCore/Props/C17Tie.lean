import OFCore.HolderStore
import OFCore.GeneratedEngine
import OFCore.Lemmas.HolderStore
/-!
# C17 — the two-tier store model reads and writes exactly as the code's source says (translator tie)

`Generated.Engine.holder_get_array` and `holder_set_to_disk` are regenerated on every run from the source of
`Holder.get_array` and of the tail of `Holder._set` (`harness/ofverif/translate.py`, kinds `holderlookup` /
`holderstore`).  `HolderStore.Holder.get` / `.set` are the functions the refinement theorems of C17
(`Lemmas/HolderStore.lean`: the two-tier store refines a plain map) are about.  `diskable` of the model stands
for both `_on_disk_storable` and the presence of `_disk_storage`: the disk store of a holder that may not
store on disk stays empty (only `_set` writes to it, and only under `_on_disk_storable`).
-/
namespace OFCore.HolderStore
open OFCore.Generated
variable {P K V : Type} [DecidableEq K]

/-- **tie**: a read of the model is the lookup the current source of `Holder.get_array` performs on what the
    two stores hold for the period -/
theorem C17_tie_get_array (key : P → K) (h : Holder K V) (p : P) :
    h.get key p = Engine.holder_get_array (tget h.mem (key p)) (tget h.disk (key p)) h.diskable := by
  unfold Holder.get Engine.holder_get_array
  cases tget h.mem (key p) <;> simp

/-- **tie**: a write of the model goes to the store the current source of `Holder._set` chooses -/
theorem C17_tie_set_store (key : P → K) (h : Holder K V) (p : P) (x : V) (pressure : Bool) :
    h.set key p x pressure =
      if Engine.holder_set_to_disk h.diskable (tget h.mem (key p)) pressure
      then { h with disk := tput h.disk (key p) x }
      else { h with mem := tput h.mem (key p) x } := by
  unfold Holder.set Engine.holder_set_to_disk
  cases hd : h.diskable <;> cases hm : tget h.mem (key p) <;> cases pressure <;> simp

/-- the lookup the current source of `Holder.get_array` performs, applied to the two stores as ANY history of
    writes and deletions under ANY pressure schedule left them, returns what a plain finite map holds after the
    same history — the refinement theorem restated with the translated code as the reader -/
theorem C17_code_lookup_refines_map (key : P → K) (ops : List (Op P V)) (h : Holder K V) (p : P) :
    Engine.holder_get_array (tget (h.run key ops).mem (key p)) (tget (h.run key ops).disk (key p)) (h.run key ops).diskable
      = specRun key h.view ops (key p) := by
  rw [← C17_tie_get_array, get_eq_view, view_run]

/-- **tie**: the model uses ONE key function for reads, writes and deletions; the current source of
    `InMemoryStorage.get`, `put` and `delete` touches the dictionary under the same key in all three, that key is the
    normalised period for a dated store and does not depend on the period for an eternal one -/
theorem C17_tie_storage_keys {K : Type} (norm : K → K) (eternity : K) (eternal : Bool) (p q : K) :
    Engine.memory_storage_key_get norm eternity eternal p = Engine.memory_storage_key_put norm eternity eternal p ∧
    Engine.memory_storage_key_delete norm eternity eternal p = Engine.memory_storage_key_put norm eternity eternal p ∧
    (eternal = false → Engine.memory_storage_key_put norm eternity eternal p = norm p) ∧
    (eternal = true → Engine.memory_storage_key_put norm eternity eternal p =
        Engine.memory_storage_key_put norm eternity eternal q) := by
  unfold Engine.memory_storage_key_get Engine.memory_storage_key_put Engine.memory_storage_key_delete
  cases eternal <;> simp

/-- the code's lookup on concrete contents: memory wins, the disk answers only when memory is silent and a disk
    store exists -/
example : Engine.holder_get_array (some 1) (some 2) true = some 1 ∧ Engine.holder_get_array none (some 2) true = some 2 ∧
    Engine.holder_get_array (none : Option Nat) (some 2) false = none := by decide
example : Engine.holder_set_to_disk true (none : Option Nat) true = true ∧
    Engine.holder_set_to_disk true (some 1) true = false ∧ Engine.holder_set_to_disk false (none : Option Nat) true = false := by decide
end OFCore.HolderStore
