import OFCore.GeneratedScale
/-!
# C08 — the scale model adds a bracket exactly as the code's source says (translator tie)

`OFCore.Generated.Scale.rate_add_bracket` / `amount_add_bracket` are regenerated on every run from the
source of `RateTaxScaleLike.add_bracket` / `AmountTaxScaleLike.add_bracket` (`translate.py`: the
if/else over `threshold in self.thresholds`, `index`, `+=`, `bisect_left`, the two parallel `insert`s,
translated statement by statement to the paired list of the model).  `addBracket` is the function
every scale of `C08_…` / `C09_…` is built with (`build`, insertion-order independence).
-/
namespace OFCore.Sca
open OFCore.Generated

theorem C08_tie_rate_add_bracket (s : Scale) (t x : Rat) :
    addBracket s t x = Generated.Scale.rate_add_bracket s t x := by
  first
  | rfl
  | (unfold addBracket Generated.Scale.rate_add_bracket; split <;> simp_all)

theorem C08_tie_amount_add_bracket (s : Scale) (t x : Rat) :
    addBracket s t x = Generated.Scale.amount_add_bracket s t x := by
  first
  | rfl
  | (unfold addBracket Generated.Scale.amount_add_bracket; split <;> simp_all)

example : Generated.Scale.rate_add_bracket [(0, 1), (10, 2)] 5 3 = [(0, 1), (5, 3), (10, 2)] := by decide +kernel
example : Generated.Scale.rate_add_bracket [(0, 1), (10, 2)] 10 3 = [(0, 1), (10, 5)] := by decide +kernel
end OFCore.Sca
