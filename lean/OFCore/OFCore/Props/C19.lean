import OFCore.Lemmas.Dump
/-!
# C19 — a dumped simulation restores to the same values and entity structure

Model: `OFCore/Dump.lean` (`dump`, `restore`, the repaired code: F-C19a group count = `len(ids)`,
F-C17/F-C19b `allow_pickle`, F-C19c person count from the persons' own ids, F-C19d role-less
entity). The keys of a dumped store are *period texts*: their round trip is C05
(`parse_text`, `C05_print_injective`, imported, not re-proved).

Hypotheses of the round trip, `Dumpable sys s` (`Lemmas/Dump.lean`): the simulation belongs to
the system (same entities, person first; every holder's variable is the system's variable of
that name); entity keys and holder names are unique; `count = len(ids)`; role keys are
injective and every member's role is a role of its entity; every known key of every holder is
`ETERNITY` (eternal variable) or one definition period, unit-aligned, starting on a valid date,
inside C05's text domain (four-digit years); every array has the population's length and the
variable's type. All of them are invariants of `SimulationBuilder` / `Holder._set`. They are
required of *every* key of the simulation, not only of the `(v, p)` looked at: the file name of
a key outside C05's domain does not parse back and `restore_simulation` raises as a whole,
and an unaligned key prints like the aligned one and overwrites its file.

All statements are for arbitrary populations, stores and numbers of variables (no bound).
-/
namespace OFCore.Dump
open OFCore

/-! ## a concrete simulation (non-vacuity of the hypotheses) -/

def exCol : EnumT := ⟨"Col", ["red", "green", "blue"]⟩
def exPerson : EntityDecl := ⟨"person", true, []⟩
def exHousehold : EntityDecl := ⟨"household", false, [⟨"parent", 0⟩, ⟨"child", 1⟩]⟩
def exF : VarDecl := ⟨"f_m", "person", .float, .month, false, .float 0⟩
def exE : VarDecl := ⟨"e_et", "person", .enum exCol, .eternity, false, .enum exCol 1⟩
def exH : VarDecl := ⟨"hy", "household", .int, .year, false, .int 0⟩
def exW : VarDecl := ⟨"w", "person", .bool, .week, false, .bool false⟩
def exN : VarDecl := ⟨"n", "person", .str, .month, true, .str ""⟩
def exSys : System := ⟨exPerson, [exHousehold], [exF, exE, exH, exW, exN]⟩

/-- two persons; households `h1` (both persons, with explicitly assigned positions `[1, 0]`:
    the reference person is listed second, so the positions are *not* the order of appearance
    `[0, 1]`) and `h2` (a trailing empty group); a monthly
    float, an eternal enum, a rolling-year group variable kept on disk, a weekly boolean -/
def exHouseholdPop : Pop :=
  { entity := exHousehold, ids := ["h1", "h2"], count := 2, membersEntityId := [0, 0],
    membersRole := [.role ⟨"parent", 0⟩, .role ⟨"child", 1⟩], membersPosition := [1, 0] }

def exSim : Sim :=
  { pops := [{ entity := exPerson, ids := ["a", "b"], count := 2 }, exHouseholdPop],
    holders := [
      { var := exF, mem := [(⟨.month, ⟨2018, 1, 1⟩, 1⟩, .plain (.floats [3, 1/4]))] },
      { var := exE, mem := [(Period.eternity, .enum exCol [2, 0])] },
      { var := exH, disk := some [(⟨.year, ⟨2018, 3, 1⟩, 1⟩, .plain (.ints [5, 7]))] },
      { var := exW, mem := [(⟨.week, ⟨2018, 1, 1⟩, 1⟩, .plain (.bools [true, false]))] }] }

theorem exSim_dumpable : Dumpable exSys exSim where
  same_system := rfl
  keys_nodup := by decide
  names_nodup := by decide
  pop_ok := by
    intro pop hp
    simp only [exSim, List.mem_cons, List.not_mem_nil, or_false] at hp
    rcases hp with rfl | rfl
    · exact ⟨rfl, by unfold RoleKeysInjective; decide, by decide⟩
    · exact ⟨rfl, by unfold RoleKeysInjective; decide, by decide⟩
  holder_ok := by
    intro h hh
    simp only [exSim, List.mem_cons, List.not_mem_nil, or_false] at hh
    rcases hh with rfl | rfl | rfl | rfl
    · refine ⟨by decide, rfl, rfl, ⟨?_, ?_⟩⟩
      · intro p hp
        simp only [Holder.known, keys, List.map_cons, List.map_nil, List.append_nil,
          List.mem_singleton] at hp
        subst hp
        exact ⟨rfl, rfl, by decide, rfl, by decide, by decide,
          by intro h; rcases h with h | h <;> cases h⟩
      · intro p hp v hv
        simp only [Holder.known, keys, List.map_cons, List.map_nil, List.append_nil,
          List.mem_singleton] at hp
        subst hp
        have : v = .plain (.floats [3, 1/4]) := by
          have h2 : some (Vec.plain (.floats [3, 1/4])) = some v := hv
          injection h2 with h2; exact h2.symm
        subst this
        exact ⟨rfl, rfl⟩
    · refine ⟨by decide, rfl, rfl, ⟨?_, ?_⟩⟩
      · intro p hp
        simp only [Holder.known, keys, List.map_cons, List.map_nil, List.append_nil,
          List.mem_singleton] at hp
        subst hp
        exact rfl
      · intro p hp v hv
        simp only [Holder.known, keys, List.map_cons, List.map_nil, List.append_nil,
          List.mem_singleton] at hp
        subst hp
        have : v = .enum exCol [2, 0] := by
          have h2 : some (Vec.enum exCol [2, 0]) = some v := hv
          injection h2 with h2; exact h2.symm
        subst this
        exact ⟨rfl, rfl⟩
    · refine ⟨by decide, rfl, rfl, ⟨?_, ?_⟩⟩
      · intro p hp
        simp only [Holder.known, keys, List.map_cons, List.map_nil, List.nil_append,
          List.mem_singleton] at hp
        subst hp
        exact ⟨rfl, rfl, by decide, rfl, by decide, by decide,
          by intro h; rcases h with h | h <;> cases h⟩
      · intro p hp v hv
        simp only [Holder.known, keys, List.map_cons, List.map_nil, List.nil_append,
          List.mem_singleton] at hp
        subst hp
        have : v = .plain (.ints [5, 7]) := by
          have h2 : some (Vec.plain (.ints [5, 7])) = some v := hv
          injection h2 with h2; exact h2.symm
        subst this
        exact ⟨rfl, rfl⟩
    · refine ⟨by decide, rfl, rfl, ⟨?_, ?_⟩⟩
      · intro p hp
        simp only [Holder.known, keys, List.map_cons, List.map_nil, List.append_nil,
          List.mem_singleton] at hp
        subst hp
        exact ⟨rfl, rfl, by decide,
          (by show weekday0 (ord ⟨2018, 1, 1⟩) = 0; decide +kernel), by decide, by decide,
          fun _ => by decide +kernel⟩
      · intro p hp v hv
        simp only [Holder.known, keys, List.map_cons, List.map_nil, List.append_nil,
          List.mem_singleton] at hp
        subst hp
        have : v = .plain (.bools [true, false]) := by
          have h2 : some (Vec.plain (.bools [true, false])) = some v := hv
          injection h2 with h2; exact h2.symm
        subst this
        exact ⟨rfl, rfl⟩

end OFCore.Dump

namespace OFCore
open Dump

/-! ## the round trip -/

/-- **Master statement.** A dumpable simulation can be dumped, the dump can be restored under
    the same system, and the restored simulation is observationally the original: same entity
    structure (`PopView`: key, ids, count, members_entity_id, members_role, members_position),
    same variables with a holder, same known periods, same `get_array` for every variable and
    every period. -/
theorem C19_restore_dump (sys : System) (s : Sim) (hd : Dumpable sys s) :
    ∃ fs r, dump s = .ok fs ∧ restore sys fs = .ok r ∧ r.view = s.view :=
  ⟨_, s.reloaded, hd.dump_eq, hd.restore_eq _ hd.dump_eq, hd.view_reloaded⟩

example : ∃ fs r, dump exSim = .ok fs ∧ restore exSys fs = .ok r ∧ r.view = exSim.view :=
  C19_restore_dump exSys exSim exSim_dumpable

/-- `restore (dump s)` holds, for every `(v, p)` known in `s`, an equal vector of the same type
    (a `Vec` carries its dtype family and, for an enum, its enumeration: equality of vectors is
    equality of both), and knows it; the populations have equal ids, counts, memberships, role
    objects and positions. Uses C05 for the store keys (`KeyOk.parse`: `parse_text`;
    `KeyOk.text_inj`: `C05_print_injective` — two distinct keys of one holder never share a
    file), role-key injectivity (`decode_encode_role`) and the enum re-wrap
    (`decodeFile_strip`). -/
theorem C19_roundtrip (sys : System) (s : Sim) (hd : Dumpable sys s) (fs : FS)
    (hfs : dump s = .ok fs) :
    ∃ r, restore sys fs = .ok r ∧
      r.pops.map Pop.view = s.pops.map Pop.view ∧
      ∀ v p, s.knows v p = true →
        r.knows v p = true ∧ ∃ a, s.read v p = some a ∧ r.read v p = some a := by
  refine ⟨s.reloaded, hd.restore_eq fs hfs, ?_, ?_⟩
  · have := hd.view_reloaded
    exact congrArg View.pops this
  · intro v p hk
    have hview := hd.view_reloaded
    have hknows : s.reloaded.knows = s.knows := congrArg View.knows hview
    have hread : s.reloaded.read = s.read := congrArg View.read hview
    rw [hknows, hread]
    refine ⟨hk, ?_⟩
    unfold Sim.knows at hk
    unfold Sim.read
    cases hf : s.holder? v with
    | none => rw [hf] at hk; cases hk
    | some h =>
      rw [hf] at hk
      simp only [decide_eq_true_eq] at hk
      have hh : h ∈ s.holders := List.mem_of_find?_eq_some hf
      exact ⟨_, (hd.holder_ok h hh).2.2.2.getArray_known hk, (hd.holder_ok h hh).2.2.2.getArray_known hk⟩

example : exSim.knows "hy" ⟨.year, ⟨2018, 3, 1⟩, 1⟩ = true ∧
    exSim.read "hy" ⟨.year, ⟨2018, 3, 1⟩, 1⟩ = some (.plain (.ints [5, 7])) := by decide

/-- **Structure, field by field.** Every group population comes back with the same entity,
    identifiers, count, `members_entity_id`, role objects and `members_position`. Positions are
    a component of their own: the statement holds for *arbitrary* positions (no relation to the
    memberships is assumed — `Dumpable` does not mention them), in particular for positions
    assigned from a survey's own ranking that differ from the order of appearance
    (`defaultPositions`), which the engine's `value_from_first_person` / `value_nth_person`
    read. -/
theorem C19_structure_fields (sys : System) (s : Sim) (hd : Dumpable sys s) (fs : FS)
    (hfs : dump s = .ok fs) :
    ∃ r, restore sys fs = .ok r ∧
      ∀ pop ∈ s.pops, pop.entity.isPerson = false →
        ∃ pop' ∈ r.pops, pop'.entity = pop.entity ∧ pop'.ids = pop.ids ∧ pop'.count = pop.count ∧
          pop'.membersEntityId = pop.membersEntityId ∧ pop'.membersRole = pop.membersRole ∧
          pop'.membersPosition = pop.membersPosition := by
  refine ⟨s.reloaded, hd.restore_eq fs hfs, ?_⟩
  intro pop hp hg
  exact ⟨pop.normal, List.mem_map.2 ⟨pop, hp, rfl⟩, (hd.pop_ok pop hp).normal_fields hg⟩

/-- the example's positions are not the order of appearance, and they come back unchanged -/
example : (∀ pop ∈ exSim.pops, pop.entity.key = "household" →
      pop.membersPosition = [1, 0] ∧ defaultPositions pop.membersEntityId = [0, 1]) ∧
    (∀ pop ∈ exSim.reloaded.pops, pop.entity.key = "household" → pop.membersPosition = [1, 0]) := by
  decide

/-- For *every* directory: the positions and the memberships of a restored group population
    are the contents of `members_position.npy` and `members_entity_id.npy`, each read from its
    own file — neither is recomputed from the other (an implementation that re-derived the
    positions from the memberships in order of appearance would lose assigned positions). -/
theorem C19_positions_from_file (fs : FS) (e : EntityDecl) (pop : Pop) (hg : e.isPerson = false)
    (h : restoreEntity fs e = .ok pop) :
    ∃ d, alookup e.key fs.ents = some d ∧
      readInts d "members_position.npy" = .ok pop.membersPosition ∧
      readInts d "members_entity_id.npy" = .ok pop.membersEntityId := by
  obtain ⟨d, h1, _, h3, h4⟩ := restoreEntity_files fs e pop hg h
  exact ⟨d, h1, h3, h4⟩

example : ∃ fs pop, dump exSim = .ok fs ∧ restoreEntity fs exHousehold = .ok pop ∧
    pop.membersPosition = [1, 0] ∧ pop.membersPosition ≠ defaultPositions pop.membersEntityId := by
  refine ⟨_, exHouseholdPop.normal, exSim_dumpable.dump_eq, ?_, ?_⟩
  · exact restoreEntity_entityFiles _ exHouseholdPop (by decide)
  · decide

/-- The restored simulation knows no `(variable, period)` the original did not. -/
theorem C19_no_extra (sys : System) (s : Sim) (hd : Dumpable sys s) (fs : FS) (r : Sim)
    (hfs : dump s = .ok fs) (hr : restore sys fs = .ok r) :
    ∀ v p, r.knows v p = true → s.knows v p = true := by
  rw [hd.restore_eq fs hfs] at hr
  injection hr with hr
  intro v p hk
  rw [← hr] at hk
  have hknows : s.reloaded.knows = s.knows := congrArg View.knows hd.view_reloaded
  rw [hknows] at hk
  exact hk

/-- Calculations on the restored simulation return what they return on the original: *any*
    deterministic function of the observable state (entity structure, holders, known periods,
    `get_array`) — in particular any sequence of requests evaluated by an engine that reads the
    simulation only through these — gives the same result on both. That the real engine is
    such a function of the state and of the rule system alone is C01's theorem
    (`C01_calculate_eq_den`: a calculated value is the meaning `den` of the rule system on the
    inputs and the cache); here it is exercised by the correspondence check, which runs further
    calculations on both real simulations. -/
theorem C19_calculations_agree {α : Type} (sys : System) (s : Sim) (hd : Dumpable sys s)
    (fs : FS) (r : Sim) (hfs : dump s = .ok fs) (hr : restore sys fs = .ok r)
    (engine : View → α) : engine r.view = engine s.view := by
  rw [hd.restore_eq fs hfs] at hr
  injection hr with hr
  rw [← hr, hd.view_reloaded]

example : ∀ engine : View → Nat, ∀ fs r, dump exSim = .ok fs → restore exSys fs = .ok r →
    engine r.view = engine exSim.view :=
  fun engine fs r h1 h2 => C19_calculations_agree exSys exSim exSim_dumpable fs r h1 h2 engine

/-! ## dumping the restored simulation again; foreign files; empty directories -/

/-- The restored simulation is itself dumpable, and *dump, restore, dump the restored
    simulation, restore that* ends on a simulation observationally equal to the original.
    (Restoring the same directory twice is the same function applied to the same argument:
    `restore` does not change the directory — in the model by construction; on the real code the
    correspondence check restores every second dump twice.) -/
theorem C19_redump (sys : System) (s : Sim) (hd : Dumpable sys s) :
    ∃ fs r fs2 r2, dump s = .ok fs ∧ restore sys fs = .ok r ∧ Dumpable sys r ∧
      dump r = .ok fs2 ∧ restore sys fs2 = .ok r2 ∧ r2.view = s.view :=
  ⟨_, s.reloaded, _, s.reloaded.reloaded, hd.dump_eq, hd.restore_eq _ hd.dump_eq, hd.reloaded,
    hd.reloaded.dump_eq, hd.reloaded.restore_eq _ hd.reloaded.dump_eq,
    hd.reloaded.view_reloaded.trans hd.view_reloaded⟩

example : ∃ fs r fs2 r2, dump exSim = .ok fs ∧ restore exSys fs = .ok r ∧ Dumpable exSys r ∧
    dump r = .ok fs2 ∧ restore exSys fs2 = .ok r2 ∧ r2.view = exSim.view :=
  C19_redump exSys exSim exSim_dumpable

/-- Files and sub-directories whose name does not end with `.npy` (notes, hidden files,
    back-ups), put into the variable directories of *any* dump directory, change nothing of
    what `restore_simulation` returns — success or error. -/
theorem C19_restore_ignores_other_files (sys : System) (fs : FS)
    (extras : String → List (List Char × Arr))
    (hex : ∀ n, ∀ e ∈ extras n, stripNpy e.1 = none) :
    restore sys (addExtras extras fs) = restore sys fs :=
  restore_addExtras sys fs extras hex

example : stripNpy "notes.txt".toList = none ∧ stripNpy ".hidden".toList = none ∧
    stripNpy "2018-01.npy.bak".toList = none ∧ stripNpy "npy".toList = none ∧
    stripNpy ".npy".toList = some [] := by decide

/-- A variable directory without any file (a holder that knew nothing, or a directory made by
    hand) restores to a holder whose store is unchanged: nothing becomes known. -/
theorem C19_empty_directory (sys : System) (fs : FS) (s : Sim) (n : String) (var : VarDecl)
    (pop : Pop) (hv : sys.var? n = some var) (hp : s.pop? var.entity = some pop)
    (hd : alookup n fs.vars = some []) :
    restoreHolder sys fs s n = .ok (s.setHolder ((s.holder? n).getD { var := var })) := by
  unfold restoreHolder
  rw [hv]
  simp only [hp, hd, Option.getD_some, loadStore_nil]

example : exSys.var? "n" = some exN ∧ exSim.reloaded.pop? exN.entity ≠ none := by decide

/-! ## what happens to a value stored under a twelve-month period -/

/-- A twelve-month key and the one-year key with the same start write **the same file**
    (`Period.__str__` prints both as a year, C05's `canon`); the file name reads back as the
    one-year period, which covers the same days. Restored into a *year* variable the value is
    known under the one-year key; restored into a *month* variable `_set` refuses it
    (`PeriodMismatchError`) and `restore_simulation` raises. No public call stores under a
    twelve-month key (`Holder._set` refuses sizes > 1), which is why `Dumpable` excludes it. -/
theorem C19_twelve_months_key (d : Date) (hv : d.Valid) (hd1 : d.d = 1)
    (hy : 1000 ≤ d.y ∧ d.y ≤ 9999) :
    fileName ⟨.month, d, 12⟩ = fileName ⟨.year, d, 1⟩ ∧
    parseName (fileName ⟨.month, d, 12⟩) = .ok (some (⟨.year, d, 1⟩, fileName ⟨.year, d, 1⟩)) ∧
    (Period.mk .year d 1).lo = (Period.mk .month d 12).lo ∧
    (Period.mk .year d 1).hi = (Period.mk .month d 12).hi ∧
    ∀ (var : VarDecl) (v : Vec) (c : Nat), v.length = c → v.vtype = var.vtype →
      var.neutralized = false →
      (var.defUnit = .year →
        loadStore var c (Holder.files { var := var, mem := [(⟨.month, d, 12⟩, v)] } c []) []
          = .ok [(⟨.year, d, 1⟩, v)]) ∧
      (var.defUnit = .month →
        loadStore var c (Holder.files { var := var, mem := [(⟨.month, d, 12⟩, v)] } c []) []
          = .error "PeriodMismatchError") := by
  have htext : (Period.mk .month d 12).text = (Period.mk .year d 1).text := by
    simp [Period.text]
  have hname : fileName ⟨.month, d, 12⟩ = fileName ⟨.year, d, 1⟩ := by
    unfold fileName; rw [htext]
  have hparse : parsePeriod (Period.mk .month d 12).text = .ok ⟨.year, d, 1⟩ := by
    rw [parse_text ⟨.month, d, 12⟩ ⟨fun h => (by cases h), hv, (by show (1 : Int) ≤ 12; omega)⟩ hd1
      ⟨hy.1, hy.2, fun h => by rcases h with h | h <;> cases h⟩]
    simp [canon]
  have hpn : parseName (fileName ⟨.month, d, 12⟩)
      = .ok (some (⟨.year, d, 1⟩, fileName ⟨.year, d, 1⟩)) := by
    unfold parseName
    rw [stripNpy_fileName]
    simp only [hparse, hname]
  refine ⟨hname, hpn, rfl, by simp [Period.hi], ?_⟩
  intro var v c hlen hty hneu
  have hfiles : ∀ hne : var.defUnit ≠ .eternity,
      Holder.files { var := var, mem := [(⟨.month, d, 12⟩, v)] } c []
        = [(fileName ⟨.year, d, 1⟩, v.strip)] := by
    intro hne
    simp [Holder.files, Holder.known, keys, Holder.saved, Holder.getArray, hneu, Holder.raw,
      VarDecl.key, hne, alookup, upsertAll, upsert, hname]
  have hdir : ∀ hne : var.defUnit ≠ .eternity,
      parseDir [(fileName ⟨.year, d, 1⟩, v.strip)]
        = .ok [(⟨.year, d, 1⟩, fileName ⟨.year, d, 1⟩)] := by
    intro hne
    simp [parseDir, keys, mapE, ← hname, hpn, upsertAll, upsert]
  constructor
  · intro hu
    have hne : var.defUnit ≠ .eternity := by rw [hu]; decide
    rw [hfiles hne]
    unfold loadStore
    rw [hdir hne]
    simp [keys, mapE, loadOne, VarDecl.key, alookup, ← hty, decodeFile_strip, hlen, hu,
      upsertAll, upsert]
  · intro hu
    have hne : var.defUnit ≠ .eternity := by rw [hu]; decide
    rw [hfiles hne]
    unfold loadStore
    rw [hdir hne]
    simp [keys, mapE, loadOne, VarDecl.key, alookup, ← hty, decodeFile_strip, hlen, hu]

example : (⟨2018, 3, 1⟩ : Date).Valid ∧ fileName ⟨.month, ⟨2018, 3, 1⟩, 12⟩ = "year:2018-03.npy".toList := by
  decide +kernel

/-! ## the ingredients, stated on their own -/

/-- Enum arrays are saved as their plain index array and re-wrapped on restore with the
    enumeration of the *system's* variable; every array decodes, under its own type, to
    itself. -/
theorem C19_enum_rewrap (e : EnumT) (idx : List Int) :
    (Vec.enum e idx).strip = .ints idx ∧
    decodeFile (.enum e) (.ints idx) = .ok (.enum e idx) ∧
    ∀ v : Vec, decodeFile v.vtype v.strip = .ok v :=
  ⟨rfl, rfl, decodeFile_strip⟩

/-- Roles travel as their keys and come back as the same role objects when the keys of the
    entity's roles are pairwise distinct … -/
theorem C19_role_keys (roles : List Role) (hinj : RoleKeysInjective roles) (r : Role)
    (hr : r ∈ roles) : decodeRole roles (encodeRole roles (.role r)) = .role r :=
  decode_encode_role roles hinj r hr

/-- … and the hypothesis is needed: with two roles under one key the second comes back as
    the first. -/
theorem C19_role_keys_needed :
    decodeRole [⟨"a", 0⟩, ⟨"a", 1⟩] (encodeRole [⟨"a", 0⟩, ⟨"a", 1⟩] (.role ⟨"a", 1⟩))
      = .role ⟨"a", 0⟩ := by decide

example : RoleKeysInjective exHousehold.roles ∧ (⟨"child", 1⟩ : Role) ∈ exHousehold.roles := by
  unfold RoleKeysInjective; decide

/-- Repaired F-C19a / F-C19c, for *every* directory: whenever `restore_simulation` succeeds,
    the count of each population is the number of its identifiers (not
    `max(members_entity_id) + 1`, which forgets a trailing empty group; not the member count of
    the last group entity, which does not exist in a person-only system), and the populations
    are those of the system's entities. -/
theorem C19_restored_count (sys : System) (fs : FS) (r : Sim) (h : restore sys fs = .ok r) :
    (∀ pop ∈ r.pops, pop.count = pop.ids.length) ∧
    r.pops.map (fun p => p.entity) = sys.person :: sys.groups := by
  unfold restore at h
  cases hg : mapE (restoreEntity fs) sys.groups with
  | error e => rw [hg] at h; cases h
  | ok gs =>
    rw [hg] at h
    simp only at h
    cases hp : restoreEntity fs sys.person with
    | error e => rw [hp] at h; cases h
    | ok pp =>
      rw [hp] at h
      simp only at h
      have hpops : r.pops = pp :: gs :=
        foldE_inv (restoreHolder sys fs) (fun s => s.pops = pp :: gs) _ _ r rfl
          (fun s a s' _ hs hstep => by rw [restoreHolder_pops sys fs s s' a hstep]; exact hs) h
      rw [hpops]
      constructor
      · intro pop hmem
        rcases List.mem_cons.1 hmem with hmem | hmem
        · rw [hmem]; exact (restoreEntity_count fs _ pp hp).1
        · exact mapE_forall (restoreEntity fs) (fun b => b.count = b.ids.length) sys.groups gs hg
            (fun a b _ hab => (restoreEntity_count fs a b hab).1) pop hmem
      · rw [List.map_cons, (restoreEntity_count fs _ pp hp).2]
        congr 1
        have key : ∀ (es : List EntityDecl) (ps : List Pop),
            mapE (restoreEntity fs) es = .ok ps → ps.map (fun p => p.entity) = es := by
          intro es
          induction es with
          | nil => intro ps hps; unfold mapE at hps; injection hps with hps; rw [← hps]; rfl
          | cons a t ih =>
            intro ps hps
            unfold mapE at hps
            cases hfa : restoreEntity fs a with
            | error e => rw [hfa] at hps; cases hps
            | ok b =>
              rw [hfa] at hps
              simp only at hps
              cases hr : mapE (restoreEntity fs) t with
              | error e => rw [hr] at hps; cases hps
              | ok bs =>
                rw [hr] at hps
                injection hps with hps
                rw [← hps, List.map_cons, (restoreEntity_count fs a b hfa).2, ih bs hr]
        exact key _ _ hg

/-- the trailing empty household `h2` of the example survives (count 2 = two identifiers) -/
example : (dump exSim).bind (restore exSys) = .ok exSim.reloaded ∧
    (exSim.reloaded.pops.map (fun p => (p.entity.key, p.count))) = [("person", 2), ("household", 2)] := by
  refine ⟨?_, by decide⟩
  rw [exSim_dumpable.dump_eq]
  exact exSim_dumpable.restore_eq _ exSim_dumpable.dump_eq

/-! ## the branches that raise -/

/-- `dump_simulation` refuses a directory that is not empty. -/
theorem C19_dump_refuses_nonempty (target : FS) (s : Sim) (h : target.isEmpty = false) :
    dumpInto target s = .error "ValueError: directory is not empty" := by
  unfold dumpInto; rw [h]; rfl

example : dumpInto { vars := [("x", [])] } exSim = .error "ValueError: directory is not empty" :=
  C19_dump_refuses_nonempty _ _ rfl

/-- A top-level directory that is not a variable of the system makes `restore_simulation`
    raise (`VariableNotFoundError`). -/
theorem C19_restore_unknown_variable (sys : System) (fs : FS) (n : String)
    (hn : n ∈ keys fs.vars) (hv : sys.var? n = none) : ∃ e, restore sys fs = .error e := by
  apply restore_error_of_holder sys fs n hn
  intro s
  unfold restoreHolder
  rw [hv]
  exact ⟨_, rfl⟩

example : ("zz" : String) ∈ keys ({ vars := [("zz", [])] } : FS).vars ∧ exSys.var? "zz" = none := by
  decide

/-- A `*.npy` file whose name is not a period makes `restore_simulation` raise. -/
theorem C19_restore_bad_file_name (sys : System) (fs : FS) (n : String)
    (dir : List (List Char × Arr)) (f core : List Char) (e : String)
    (hn : n ∈ keys fs.vars) (hdir : alookup n fs.vars = some dir) (hf : f ∈ keys dir)
    (hs : stripNpy f = some core) (hp : parsePeriod core = .error e) :
    ∃ e', restore sys fs = .error e' := by
  apply restore_error_of_holder sys fs n hn
  apply restoreHolder_error_of_loadStore
  intro var c mem
  rw [hdir]
  simp only [Option.getD_some]
  unfold loadStore parseDir
  have hpn : parseName f = .error e := by
    unfold parseName; rw [hs]; simp only [hp]
  obtain ⟨e', he'⟩ := mapE_error parseName (keys dir) f e hf hpn
  rw [he']
  exact ⟨e', rfl⟩

example : stripNpy "2018-13.npy".toList = some "2018-13".toList ∧
    parsePeriod "2018-13".toList = .error "period" := by decide +kernel

/-- a back-up of a dumped file made inside the dump, `2018-01.copy.npy`: what precedes the `.npy` suffix is cut at
    the LAST dot, and `2018-01.copy` is not a period — the restore raises rather than read the back-up as `2018-01` -/
example : stripNpy "2018-01.copy.npy".toList = some "2018-01.copy".toList ∧
    parsePeriod "2018-01.copy".toList = .error "period" ∧ parsePeriod "2018.01".toList = .error "period" := by
  decide +kernel

/-- A file whose period does not have the variable's definition unit makes
    `restore_simulation` raise (`PeriodMismatchError` of `Holder._set`): the step of the loop
    of `_restore_holder`, for every directory and file table. -/
theorem C19_restore_period_mismatch (var : VarDecl) (c : Nat) (dir : List (List Char × Arr))
    (files : List (Period × List Char)) (p : Period) (hne : var.defUnit ≠ .eternity)
    (hu : var.defUnit ≠ p.unit ∨ p.size > 1) : ∃ e, loadOne var c dir files p = .error e := by
  unfold loadOne
  cases alookup (var.key p) files with
  | none => exact ⟨_, rfl⟩
  | some f =>
    simp only
    cases alookup f dir with
    | none => exact ⟨_, rfl⟩
    | some a =>
      simp only
      cases decodeFile var.vtype a with
      | error e => exact ⟨e, rfl⟩
      | ok v =>
        simp only
        split
        · exact ⟨_, rfl⟩
        · split
          · exact ⟨_, rfl⟩
          · rw [if_pos ⟨hne, hu⟩]; exact ⟨_, rfl⟩

example : exF.defUnit ≠ .eternity ∧ (exF.defUnit ≠ (Period.mk .year ⟨2018, 1, 1⟩ 1).unit ∨
    (Period.mk .year ⟨2018, 1, 1⟩ 1).size > 1) := by decide

end OFCore
