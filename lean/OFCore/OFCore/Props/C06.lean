import OFCore.Lemmas.Param
/-!
# C06 — a parameter's value at a date is its latest entry; edits touch only their span

Model: `OFCore/Param.lean` (`pget`, `ofData`, `update`/`updateCall`, `updates`, `PNode.atInstant`,
`childrenAt`, `scaleAt`). Every theorem is for all histories, all dates, all values (an arbitrary
type `V`, null = `none`), with no bound on any size. Dates are proleptic ordinals; the code compares
zero-padded ISO strings, whose order is the order of the ordinals (`Lemmas/Calendar.lean`,
`ord_lt_of_lex`).
-/
namespace OFCore
open OFCore.Param

variable {V : Type}

/-! ## Reading -/

/-- The value at `d` is the value of the most recent entry on or before `d` (such an entry exists
    as soon as some entry is dated `≤ d`), and is undefined (`None`) before the first entry. -/
theorem C06_get_latest (l : List (Entry V)) (hl : Sorted l) (d : Int) :
    (∀ e, IsLatest l d e → pget l d = e.val) ∧
    ((∃ e ∈ l, e.date ≤ d) → ∃ e, IsLatest l d e) ∧
    ((∀ e ∈ l, d < e.date) → pget l d = none) :=
  ⟨fun _ h => pget_of_isLatest hl h, exists_isLatest hl, pget_none_of_all_later l d⟩

example : Sorted [(⟨10, some 1⟩ : Entry Nat), ⟨5, none⟩, ⟨0, some 3⟩] := by decide
example : IsLatest [(⟨10, some 1⟩ : Entry Nat), ⟨5, none⟩, ⟨0, some 3⟩] 7 ⟨5, none⟩ := by
  refine ⟨by simp, by decide, ?_⟩
  intro e he hd
  simp only [List.mem_cons, List.not_mem_nil, or_false] at he
  rcases he with rfl | rfl | rfl
  · exact absurd hd (by decide)
  · decide
  · decide
example : pget [(⟨10, some 1⟩ : Entry Nat), ⟨5, none⟩, ⟨0, some 3⟩] 7 = none
    ∧ pget [(⟨10, some 1⟩ : Entry Nat), ⟨5, none⟩, ⟨0, some 3⟩] 12 = some 1
    ∧ pget [(⟨10, some 1⟩ : Entry Nat), ⟨5, none⟩, ⟨0, some 3⟩] (-1) = none := by decide

/-! ## Construction -/

/-- `Parameter.__init__`: whatever the declaration order of the (distinct) date keys, the list
    built is strictly decreasing and holds exactly the declared entries that are not `expected`
    placeholders. -/
theorem C06_sorted_init (items : List (Int × Item V)) (hnd : (items.map (·.1)).Nodup) :
    Sorted (ofData items) ∧
    ∀ d v, (⟨d, v⟩ : Entry V) ∈ ofData items ↔ (d, Item.value v) ∈ items := by
  refine ⟨sorted_keepValues _ (descKeys_sortDesc items hnd), ?_⟩
  intro d v
  unfold ofData
  rw [mem_keepValues, mem_sortDesc]

/-- Reading a freshly built parameter, stated on the declared mapping itself: the value of the
    declared (non-placeholder) entry with the greatest date `≤ q`; `None` when every declared
    entry is later than `q`. -/
theorem C06_init_get (items : List (Int × Item V)) (hnd : (items.map (·.1)).Nodup) (q : Int) :
    (∀ d v, (d, Item.value v) ∈ items → d ≤ q →
        (∀ d' v', (d', Item.value v') ∈ items → d' ≤ q → d' ≤ d) → pget (ofData items) q = v) ∧
    ((∀ d v, (d, Item.value v) ∈ items → q < d) → pget (ofData items) q = none) := by
  obtain ⟨hs, hm⟩ := C06_sorted_init items hnd
  constructor
  · intro d v hmem hd hmax
    have : IsLatest (ofData items) q ⟨d, v⟩ :=
      ⟨(hm d v).mpr hmem, hd, fun e' he' hd' => hmax e'.date e'.val ((hm e'.date e'.val).mp he') hd'⟩
    exact pget_of_isLatest hs this
  · intro h
    exact pget_none_of_all_later _ _ (fun e he => h e.date e.val ((hm e.date e.val).mp he))

example : ofData [(5, Item.value (some 2)), (20, Item.value none), (12, Item.expected), (10, Item.value (some 1))]
    = [(⟨20, none⟩ : Entry Nat), ⟨10, some 1⟩, ⟨5, some 2⟩] := by decide
example : ([(5, Item.value (some 2)), (20, Item.value none), (12, Item.expected)] : List (Int × Item Nat)).map (·.1)
    |>.Nodup := by decide

/-! ## One update -/

/-- An update over `[a, b]` keeps the dates strictly decreasing. -/
theorem C06_update_sorted (l : List (Entry V)) (hl : Sorted l) (a b : Int) (hab : a ≤ b) (v : Option V) :
    Sorted (update l a (some b) v) := by
  have h0 := sortedBelow_of_sorted hl
  have h1 : SortedBelow (max (bound l) (b + 2)) l := sortedBelow_mono h0 (by omega)
  rw [update_eq_upd l a b v h1]
  exact sorted_of_sortedBelow (sorted_upd l a (b + 1) v (by omega) h1 (by omega))

/-- Flagship: after `update(start=a, stop=b, value=v)` the parameter reads `v` on every day of
    `[a, b]` and what it read before on every other day — whatever entries existed before.
    (No `a ≤ b` is needed for this clause: a reversed range is the empty range.) -/
theorem C06_update_pointwise (l : List (Entry V)) (hl : Sorted l) (a b : Int) (v : Option V) (d : Int) :
    pget (update l a (some b) v) d = if a ≤ d ∧ d ≤ b then v else pget l d := by
  have h0 := sortedBelow_of_sorted hl
  rw [update_eq_upd l a b v h0, pget_upd l a (b + 1) v h0 d]
  by_cases h : a ≤ d ∧ d ≤ b
  · rw [if_pos h, if_pos ⟨h.1, by omega⟩]
  · rw [if_neg h, if_neg (show ¬ (a ≤ d ∧ d < b + 1) from fun c => h ⟨c.1, by omega⟩)]

theorem C06_update_inside (l : List (Entry V)) (hl : Sorted l) (a b : Int) (v : Option V) (d : Int)
    (h1 : a ≤ d) (h2 : d ≤ b) : pget (update l a (some b) v) d = v := by
  rw [C06_update_pointwise l hl, if_pos ⟨h1, h2⟩]

theorem C06_update_outside (l : List (Entry V)) (hl : Sorted l) (a b : Int) (v : Option V) (d : Int)
    (h : d < a ∨ b < d) : pget (update l a (some b) v) d = pget l d := by
  rw [C06_update_pointwise l hl, if_neg (show ¬ (a ≤ d ∧ d ≤ b) by omega)]

/-- The open-ended form `update(start=a, value=v)`: `v` from `a` on, unchanged before; sorted. -/
theorem C06_update_open (l : List (Entry V)) (hl : Sorted l) (a : Int) (v : Option V) :
    Sorted (update l a none v) ∧
    ∀ d, pget (update l a none v) d = if a ≤ d then v else pget l d := by
  have h0 := sortedBelow_of_sorted hl
  constructor
  · show Sorted (⟨a, v⟩ :: skipFrom l a)
    rw [sorted_cons_iff]
    exact sorted_skipFrom l a h0
  · intro d
    show pget (⟨a, v⟩ :: skipFrom l a) d = _
    simp only [pget]
    by_cases h : a ≤ d
    · rw [if_pos h, if_pos h]
    · rw [if_neg h, if_neg h]
      exact pget_skipFrom l a d h0 (by omega)

example : update [(⟨10, some 1⟩ : Entry Nat), ⟨5, some 2⟩, ⟨0, some 3⟩] 4 (some 7) (some 9)
    = [⟨10, some 1⟩, ⟨8, some 2⟩, ⟨4, some 9⟩, ⟨0, some 3⟩] := by decide
example : update [(⟨10, some 1⟩ : Entry Nat), ⟨5, some 2⟩] 6 (some 9) none
    = [⟨10, some 1⟩, ⟨6, none⟩, ⟨5, some 2⟩] := by decide
example : update [(⟨10, some 1⟩ : Entry Nat), ⟨5, some 2⟩] 7 none (some 4)
    = [⟨7, some 4⟩, ⟨5, some 2⟩] := by decide
example : update ([] : List (Entry Nat)) 3 (some 5) (some 1) = [⟨6, none⟩, ⟨3, some 1⟩] := by decide

/-- The three call forms run the same update; the two misuses are refused. -/
theorem C06_update_call_forms (l : List (Entry V)) (a b : Int) (v : Option V) :
    updateCall l (some (a, b)) none none v = .ok (update l a (some b) v) ∧
    updateCall l none (some a) (some b) v = .ok (update l a (some b) v) ∧
    updateCall l none (some a) none v = .ok (update l a none v) := ⟨rfl, rfl, rfl⟩

theorem C06_update_call_refused (l : List (Entry V)) (p : Option (Int × Int)) (s e : Option Int)
    (v : Option V) :
    (∃ msg, updateCall l p s e v = .error msg) ↔
      (p.isSome ∧ (s.isSome ∨ e.isSome)) ∨ (p = none ∧ s = none) := by
  unfold updateCall
  cases p with
  | none => cases s <;> simp
  | some pe =>
    obtain ⟨ps, pe⟩ := pe
    cases s <;> cases e <;> simp

example : ∃ msg, updateCall ([] : List (Entry Nat)) (some (1, 2)) (some 1) none none = .error msg := ⟨_, rfl⟩

/-! ## Every finite sequence of updates -/

/-- By induction over the sequence: after any finite sequence of well-formed updates (closed
    ranges with `a ≤ b`, or open-ended) the list is still sorted and the value read at `d` is
    obtained from the original value by letting each update, in order, overwrite it iff its
    range contains `d`. -/
theorem C06_updates_fold (l : List (Entry V)) (hl : Sorted l) (us : List (Upd V))
    (hus : ∀ u ∈ us, u.WF) :
    Sorted (updates l us) ∧ ∀ d, pget (updates l us) d = us.foldl (specStep d) (pget l d) := by
  induction us generalizing l with
  | nil => exact ⟨hl, fun _ => rfl⟩
  | cons u us ih =>
    have hu := hus u (List.mem_cons_self ..)
    have hstep : Sorted (applyUpd l u) ∧ ∀ d, pget (applyUpd l u) d = specStep d (pget l d) u := by
      obtain ⟨a, b, v⟩ := u
      cases b with
      | none =>
        obtain ⟨h1, h2⟩ := C06_update_open l hl a v
        refine ⟨h1, fun d => ?_⟩
        rw [show applyUpd l ⟨a, none, v⟩ = update l a none v from rfl, h2 d]
        simp [specStep, Upd.covers]
      | some b =>
        refine ⟨C06_update_sorted l hl a b hu v, fun d => ?_⟩
        rw [show applyUpd l ⟨a, some b, v⟩ = update l a (some b) v from rfl,
          C06_update_pointwise l hl a b v d]
        simp [specStep, Upd.covers]
    obtain ⟨h1, h2⟩ := ih (applyUpd l u) hstep.1 (fun u' hu' => hus u' (List.mem_cons_of_mem _ hu'))
    refine ⟨h1, fun d => ?_⟩
    show pget (updates (applyUpd l u) us) d = _
    rw [h2 d, hstep.2 d]
    rfl

/-- A date that no update of the sequence covers reads as before. -/
theorem C06_updates_untouched (l : List (Entry V)) (hl : Sorted l) (us : List (Upd V))
    (hus : ∀ u ∈ us, u.WF) (d : Int) (h : ∀ u ∈ us, ¬ u.covers d) :
    pget (updates l us) d = pget l d := by
  rw [(C06_updates_fold l hl us hus).2 d]
  exact foldl_specStep_untouched d _ us h

/-- A date reads the value of the last update that covers it. -/
theorem C06_updates_last_wins (l : List (Entry V)) (hl : Sorted l) (us₁ us₂ : List (Upd V)) (u : Upd V)
    (hus : ∀ u' ∈ us₁ ++ u :: us₂, u'.WF) (d : Int) (hu : u.covers d)
    (h : ∀ u' ∈ us₂, ¬ u'.covers d) :
    pget (updates l (us₁ ++ u :: us₂)) d = u.v := by
  rw [(C06_updates_fold l hl _ hus).2 d, List.foldl_append, List.foldl_cons]
  have : specStep d (List.foldl (specStep d) (pget l d) us₁) u = u.v := by
    unfold specStep; rw [if_pos hu]
  rw [this]
  exact foldl_specStep_untouched d _ us₂ h

example : updates [(⟨10, some 1⟩ : Entry Nat), ⟨0, some 3⟩]
      [⟨4, some 7, some 9⟩, ⟨6, none, none⟩, ⟨2, some 4, some 8⟩]
    = [⟨6, none⟩, ⟨5, some 9⟩, ⟨2, some 8⟩, ⟨0, some 3⟩] := by decide
example : ∀ u ∈ [(⟨4, some 7, some 9⟩ : Upd Nat), ⟨6, none, none⟩, ⟨2, some 4, some 8⟩], u.WF := by decide

/-! ## Clones: histories over several objects -/

/-- One step. `clone()` appends a copy of its source and changes no existing object; an update
    changes the addressed object (by `f`, the single-object update) and no other. `σ`/`U`/`f` are
    arbitrary: parameters with `applyUpd`, trees with an update of one of their parameters, … -/
theorem C06_clone_step {σ U : Type} (f : σ → U → σ) (st : List σ) :
    (∀ s x, st[s]? = some x → runOp f st (.clone s) = st ++ [x]) ∧
    (∀ i u x, st[i]? = some x → (runOp f st (.upd i u))[i]? = some (f x u)) ∧
    (∀ (op : HOp U) j, j < st.length → op.target ≠ some j → (runOp f st op)[j]? = st[j]?) := by
  refine ⟨?_, ?_, fun op j hj h => getElem?_runOp_of_ne f st op j hj h⟩
  · intro s x h; simp [runOp, h]
  · intro i u x h
    obtain ⟨hi, hx⟩ := List.getElem?_eq_some_iff.mp h
    simp only [runOp, h]
    rw [List.getElem?_set_self hi]

/-- For every history of clones and updates: an object to which no update of the history is
    addressed has, at the end, the content it had at the start — hence every read of it (at any
    date, `pget`, `atInstant`, `scaleAt`) is unchanged, whatever was done to its clones, its
    source or any other object, in any interleaving. -/
theorem C06_clone_independent {σ U : Type} (f : σ → U → σ) (st : List σ) (ops : List (HOp U)) (j : Nat)
    (hj : j < st.length) (h : ∀ op ∈ ops, op.target ≠ some j) :
    (runOps f st ops)[j]? = st[j]? :=
  getElem?_runOps_of_ne f st ops j hj h

/-- For every history starting from one object `x0`: each object at the end is `x0` with the
    object's *own* updates replayed in order — those addressed to it, and those its source had
    received before the clone was taken; updates addressed elsewhere do not appear. -/
theorem C06_clone_trace {σ U : Type} (f : σ → U → σ) (x0 : σ) (ops : List (HOp U)) :
    runOps f [x0] ops = (runOps snoc [[]] ops).map (fun us => us.foldl f x0) := by
  have := runOps_map_trace f x0 [[]] ops
  simpa using this

/-- Parameters: after any history of clones and well-formed updates starting from a sorted
    parameter, every object is sorted and reads, at every date, what the pointwise theorem
    (`C06_updates_fold`) says for its own updates alone. -/
theorem C06_clone_history (l0 : List (Entry V)) (hl : Sorted l0) (ops : List (HOp (Upd V)))
    (hwf : ∀ i u, HOp.upd i u ∈ ops → u.WF) :
    runOps applyUpd [l0] ops = (runOps snoc [[]] ops).map (updates l0) ∧
    ∀ us ∈ runOps snoc [[]] ops,
      Sorted (updates l0 us) ∧ ∀ d, pget (updates l0 us) d = us.foldl (specStep d) (pget l0 d) := by
  refine ⟨C06_clone_trace applyUpd l0 ops, ?_⟩
  intro us hus
  apply C06_updates_fold l0 hl us
  intro u hu
  rcases mem_trace_runOps [[]] ops us hus u hu with ⟨us', h1, h2⟩ | ⟨i, hi⟩
  · simp only [List.mem_singleton] at h1
    subst h1
    cases h2
  · exact hwf i u hi

-- clone, update the clone over [4, 7], update the original from 12 on: each keeps its own
example : runOps applyUpd [[(⟨10, some 1⟩ : Entry Nat), ⟨0, some 3⟩]]
      [.clone 0, .upd 1 ⟨4, some 7, some 9⟩, .upd 0 ⟨12, none, none⟩, .clone 1]
    = [[⟨12, none⟩, ⟨10, some 1⟩, ⟨0, some 3⟩],
       [⟨10, some 1⟩, ⟨8, some 3⟩, ⟨4, some 9⟩, ⟨0, some 3⟩],
       [⟨10, some 1⟩, ⟨8, some 3⟩, ⟨4, some 9⟩, ⟨0, some 3⟩]] := by decide
example : runOps snoc [([] : List Nat)] [.clone 0, .upd 1 7, .upd 0 8, .clone 1, .upd 2 9]
    = [[8], [7], [7, 9]] := by decide
example : ∀ op ∈ [(HOp.clone 0 : HOp (Upd Nat)), .upd 1 ⟨4, some 7, some 9⟩, .clone 1], op.target ≠ some 0 := by decide

/-! ## Nodes -/

/-- A parameter is defined at `d` iff its latest entry on or before `d` exists and is not null. -/
theorem C06_defined_iff (l : List (Entry V)) (hl : Sorted l) (d : Int) :
    (PNode.param l).definedAt d = true ↔ ∃ e x, IsLatest l d e ∧ e.val = some x := by
  show (pget l d).isSome = true ↔ _
  constructor
  · intro h
    by_cases hex : ∃ e ∈ l, e.date ≤ d
    · obtain ⟨e, he⟩ := exists_isLatest hl hex
      rw [pget_of_isLatest hl he] at h
      obtain ⟨x, hx⟩ := Option.isSome_iff_exists.mp h
      exact ⟨e, x, he, hx⟩
    · have : pget l d = none := pget_none_of_all_later l d (fun e he => by
        have h' : ¬ e.date ≤ d := fun c => hex ⟨e, he, c⟩
        omega)
      rw [this] at h
      cases h
  · rintro ⟨e, x, he, hx⟩
    rw [pget_of_isLatest hl he, hx]
    rfl

/-- A node evaluated at `d` is a node-at-instant whose members are exactly the children defined
    at `d`, in declaration order, each with its own value at `d`. -/
theorem C06_node_members (cs : List (String × PNode V)) (d : Int) :
    ∃ m, (PNode.node cs).atInstant d = some (Snap.node m) ∧
      (∀ k, k ∈ m.map (·.1) ↔ ∃ c, (k, c) ∈ cs ∧ c.definedAt d = true) ∧
      m.map (·.1) = (cs.filter (fun p => p.2.definedAt d)).map (·.1) ∧
      (∀ k s, (k, s) ∈ m ↔ ∃ c, (k, c) ∈ cs ∧ c.atInstant d = some s) := by
  refine ⟨childrenAt cs d, by simp [PNode.atInstant], ?_, keys_childrenAt cs d, mem_childrenAt cs d⟩
  intro k
  rw [keys_childrenAt]
  simp only [List.mem_map, List.mem_filter]
  constructor
  · rintro ⟨⟨k', c⟩, ⟨hm, hd⟩, rfl⟩
    exact ⟨c, hm, hd⟩
  · rintro ⟨c, hm, hd⟩
    exact ⟨(k, c), ⟨hm, hd⟩, rfl⟩

example : (childrenAt [("a", PNode.param [(⟨10, some 1⟩ : Entry Nat)]), ("b", .param [⟨12, none⟩, ⟨5, some 2⟩]),
      ("sub", .node [("c", .param [⟨11, some 3⟩])])] 10).map (·.1) = ["a", "b", "sub"] := by decide
example : (childrenAt [("a", PNode.param [(⟨10, some 1⟩ : Entry Nat)]), ("b", .param [⟨12, none⟩, ⟨5, some 2⟩]),
      ("sub", .node [("c", .param [⟨11, some 3⟩])])] 12).map (·.1) = ["a", "sub"] := by decide

/-- Access by name — what `node_at.name`, `node_at[name]` and `name in node_at` rest on: with
    distinct child names, looking `k` up in the node at `d` gives the value at `d` of the child
    named `k`, and nothing (the access raises, `in` is false) when no child is named `k` or that
    child is not defined at `d`. -/
theorem C06_node_lookup (cs : List (String × PNode V)) (d : Int) (k : String)
    (hnd : (cs.map (·.1)).Nodup) :
    (childrenAt cs d).lookup k = (cs.lookup k).bind (fun c => c.atInstant d) :=
  lookup_childrenAt cs d k hnd

/-- `add_child` refuses exactly the names already present; an accepted child comes last, and at
    every date the node then exposes what it exposed before plus that child iff it is defined. -/
theorem C06_node_add_child (cs : List (String × PNode V)) (name : String) (c : PNode V) (d : Int) :
    (addChild cs name c = .ok (cs ++ [(name, c)]) ↔ name ∉ cs.map (·.1)) ∧
    ((∃ e, addChild cs name c = .error e) ↔ name ∈ cs.map (·.1)) ∧
    childrenAt (cs ++ [(name, c)]) d =
      childrenAt cs d ++ (match c.atInstant d with | some s => [(name, s)] | none => []) := by
  refine ⟨(addChild_ok_iff cs name c).1, (addChild_ok_iff cs name c).2, ?_⟩
  rw [childrenAt_append]
  congr 1

/-- `merge` of a node whose child names are distinct and disjoint from the receiver's appends
    its children in order; at every date the merged node exposes the members of both. -/
theorem C06_node_merge (cs other : List (String × PNode V))
    (hdisj : ∀ k ∈ other.map (·.1), k ∉ cs.map (·.1)) (hnd : (other.map (·.1)).Nodup) (d : Int) :
    mergeChildren cs other = .ok (cs ++ other) ∧
    childrenAt (cs ++ other) d = childrenAt cs d ++ childrenAt other d :=
  ⟨mergeChildren_ok cs other hdisj hnd, childrenAt_append cs other d⟩

example : (childrenAt [("a", PNode.param [(⟨10, some 1⟩ : Entry Nat)]), ("2", .param [⟨12, none⟩, ⟨5, some 2⟩])] 12).lookup "2" = none
    ∧ (childrenAt [("a", PNode.param [(⟨10, some 1⟩ : Entry Nat)]), ("2", .param [⟨12, none⟩, ⟨5, some 2⟩])] 11).lookup "2"
        = some (Snap.val 2) := by
  constructor <;> rfl
example : (mergeChildren [("a", PNode.param [(⟨10, some 1⟩ : Entry Nat)])] [("b", .param []), ("c", .node [])]).toOption.map (·.map (·.1))
    = some ["a", "b", "c"] := by decide
example : ∃ e, addChild [("a", PNode.param [(⟨10, some 1⟩ : Entry Nat)])] "a" (.param []) = .error e := ⟨_, rfl⟩

/-- `merge` of two groups with distinct, disjoint child names succeeds in either direction, and the two merged
    groups expose the same member under every name at every date (they differ by the order of the members only). -/
theorem C06_node_merge_comm (cs other : List (String × PNode V)) (hcs : (cs.map (·.1)).Nodup)
    (hot : (other.map (·.1)).Nodup) (hdisj : ∀ k ∈ other.map (·.1), k ∉ cs.map (·.1)) (d : Int) (k : String) :
    mergeChildren cs other = .ok (cs ++ other) ∧ mergeChildren other cs = .ok (other ++ cs) ∧
    (childrenAt (cs ++ other) d).lookup k = (childrenAt (other ++ cs) d).lookup k := by
  have hdisj' : ∀ k ∈ cs.map (·.1), k ∉ other.map (·.1) := fun k hk ho => hdisj k ho hk
  refine ⟨mergeChildren_ok cs other hdisj hot, mergeChildren_ok other cs hdisj' hcs, ?_⟩
  have hnd1 : ((cs ++ other).map (·.1)).Nodup := by
    rw [List.map_append, List.nodup_append]
    exact ⟨hcs, hot, fun a ha b hb hab => hdisj b hb (hab ▸ ha)⟩
  have hnd2 : ((other ++ cs).map (·.1)).Nodup := by
    rw [List.map_append, List.nodup_append]
    exact ⟨hot, hcs, fun a ha b hb hab => hdisj a ha (hab ▸ hb)⟩
  rw [lookup_childrenAt _ d k hnd1, lookup_childrenAt _ d k hnd2, List.lookup_append, List.lookup_append]
  by_cases h1 : k ∈ cs.map (·.1)
  · rw [lookup_none_of_not_mem k other (hdisj' k h1)]
    cases cs.lookup k <;> rfl
  · rw [lookup_none_of_not_mem k cs h1]
    cases other.lookup k <;> rfl

/-! ## Keys spelled `YYYY` / `YYYY-MM` / `YYYY-MM-DD`, and construction from YAML-like data -/

/-- A key takes effect on its FIRST day whatever its spelling (`2015` on 1 January 2015, `2015-03` on 1 March),
    two keys are never confused, and the ticks the model keeps order like the key texts the code compares
    (`SKey.lt` = the order of the zero-padded texts, a proper prefix being smaller). -/
theorem C06_key_spelling :
    (∀ o q sp, fine o sp ≤ 3 * q ↔ o ≤ q) ∧
    (∀ o o' sp sp', fine o sp = fine o' sp' → o = o' ∧ sp = sp') ∧
    (∀ a b : SKey, a.WF → b.WF → a.lt b → a.tick < b.tick) :=
  ⟨fine_le_iff, fine_inj, fine_lt_of_lex⟩

example : (⟨2014, 12, 31⟩ : SKey).tick < (⟨2015, 0, 0⟩ : SKey).tick ∧ (⟨2015, 0, 0⟩ : SKey).tick < (⟨2015, 1, 0⟩ : SKey).tick
    ∧ (⟨2015, 1, 0⟩ : SKey).tick < (⟨2015, 1, 1⟩ : SKey).tick ∧ (⟨2015, 1, 1⟩ : SKey).tick = 3 * 735599 := by decide +kernel
example : (⟨2015, 2, 0⟩ : SKey).WF ∧ (⟨2015, 0, 0⟩ : SKey).lt ⟨2015, 1, 0⟩ := by decide +kernel

/-- The flagship statement holds whatever the spellings of the existing keys: after `update(start=a, stop=b,
    value=v)` on a history in ticks the parameter reads `v` on every day of `[a, b]` and what it read before
    on every other day, and stays sorted; likewise for the open-ended form. -/
theorem C06_update_spelled (l : List (Entry V)) (hl : Sorted l) (a b : Int) (v : Option V) :
    (∀ d, pget (updateFine l a (some b) v) (3 * d) = if a ≤ d ∧ d ≤ b then v else pget l (3 * d)) ∧
    (a ≤ b → Sorted (updateFine l a (some b) v)) ∧
    Sorted (updateFine l a none v) ∧
    (∀ d, pget (updateFine l a none v) (3 * d) = if a ≤ d then v else pget l (3 * d)) :=
  ⟨pget_updateFine l hl a b v, fun hab => sorted_updateFine l hl a b hab v,
    (updateFine_open l hl a v).1, (updateFine_open l hl a v).2⟩

-- keys `2015` (tick 3·735599 − 2), `2015-03-01`; update of 1 Jan .. 31 Jan 2015: the text `2015` sorts before
-- `2015-01-01` and stays in the list, shadowed by the new entry; its value is re-opened on 1 February
example : updateFine [(⟨3 * 735658, some 2⟩ : Entry Nat), ⟨3 * 735599 - 2, some 1⟩] 735599 (some 735629) (some 9)
    = [⟨3 * 735658, some 2⟩, ⟨3 * 735630, some 1⟩, ⟨3 * 735599, some 9⟩, ⟨3 * 735599 - 2, some 1⟩] := by decide +kernel

/-- What each accepted spelling of a dated value denotes (`ParameterAtInstant.__init__` and the `expected`
    test of `Parameter.__init__`). -/
theorem C06_data_items (t : String) (b : Bool) (y : Y) (tok : Option String) (hy : y.valTok = some tok) :
    itemOf (.num t) = .ok (.value (some t)) ∧ itemOf .null = .ok (.value none) ∧
    itemOf (.bool b) = .ok (.value (some (if b then "T" else "F"))) ∧
    itemOf (.str "expected") = .ok .expected ∧
    itemOf (.map [(.name "value", y)]) = .ok (.value tok) ∧
    itemOf (.map [(.name "value", y), (.name "metadata", .map [])]) = .ok (.value tok) ∧
    itemOf (.map [(.name "unit", .str "u"), (.name "value", y)]) = .ok (.value tok) ∧
    itemOf (.map [(.name "expected", .bool true)]) = .ok .expected ∧
    (∃ e, itemOf (.str t) = .error e) ∨ t = "expected" := by
  by_cases ht : t = "expected"
  · exact Or.inr ht
  · refine Or.inl ⟨rfl, rfl, rfl, rfl, ?_, ?_, ?_, rfl, ?_⟩
    · simp [itemOf, lookupName, YKey.isName, keysWithin, YKey.within, atInstantKeys, metaOk, hy]
    · simp [itemOf, lookupName, YKey.isName, keysWithin, YKey.within, atInstantKeys, metaOk, hy]
    · simp [itemOf, lookupName, YKey.isName, keysWithin, YKey.within, atInstantKeys, metaOk, hy]
    · simp [itemOf, ht]

/-- Which object `helpers._parse_child` builds: a mapping with `values` is a Parameter, else one with
    `brackets` a ParameterScale, else one whose keys are all instants a Parameter, else a ParameterNode;
    anything that is not a mapping is refused. -/
theorem C06_data_kind (rat : String → Option Rat) (kvs : List (YKey × Y)) (t : PNode String)
    (h : parseChild rat (.map kvs) = .ok t) :
    (hasName kvs "values" = true → ∃ l, t = .param l) ∧
    (hasName kvs "values" = false → hasName kvs "brackets" = true → ∃ m bs, t = .scale m bs) ∧
    (hasName kvs "values" = false → hasName kvs "brackets" = false → kvs.all (fun p => p.1.isInstant) = true →
        ∃ l, t = .param l) ∧
    (hasName kvs "values" = false → hasName kvs "brackets" = false → kvs.all (fun p => p.1.isInstant) = false →
        ∃ cs, t = .node cs) ∧
    (∀ y, (∀ kvs', y ≠ Y.map kvs') → ∃ e, parseChild rat y = .error e) := by
  refine ⟨?_, ?_, ?_, ?_, ?_⟩
  · intro hv
    simp only [parseChild, hv, if_true] at h
    cases hb : buildParam kvs with
    | error e => rw [hb] at h; cases h
    | ok l => rw [hb] at h; cases h; exact ⟨l, rfl⟩
  · intro hv hb
    simp only [parseChild, hv, hb, Bool.false_eq_true, if_false, if_true] at h
    split at h
    · cases h
    · split at h
      · cases h
      · cases hs : scaleBrackets rat kvs with
        | error e => rw [hs] at h; cases h
        | ok bs => rw [hs] at h; cases h; exact ⟨_, bs, rfl⟩
  · intro hv hb ha
    simp only [parseChild, hv, hb, ha, Bool.false_eq_true, if_false, if_true] at h
    cases hp : buildParam kvs with
    | error e => rw [hp] at h; cases h
    | ok l => rw [hp] at h; cases h; exact ⟨l, rfl⟩
  · intro hv hb ha
    simp only [parseChild, hv, hb, ha, Bool.false_eq_true, if_false] at h
    split at h
    · cases h
    · cases hn : nodeKids rat kvs [] with
      | error e => rw [hn] at h; cases h
      | ok cs => rw [hn] at h; cases h; exact ⟨cs, rfl⟩
  · intro y hy
    cases y with
    | null => exact ⟨_, rfl⟩
    | bool b => exact ⟨_, rfl⟩
    | num t => exact ⟨_, rfl⟩
    | str s => exact ⟨_, rfl⟩
    | list xs => exact ⟨_, rfl⟩
    | map kvs' => exact absurd rfl (hy kvs')

/-- Construct, then read: a mapping whose keys are instant texts (any spelling, any declaration order,
    distinct), each with a readable value, builds a parameter whose dates are strictly decreasing and whose
    value on day `q` is that of the declared (non-`expected`) key with the greatest tick among those whose
    first day is on or before `q` — `None` when every such key starts later. -/
theorem C06_data_get (rat : String → Option Rat) (kvs : List (YKey × Y)) (its : List (Int × Item String))
    (hi : paramItems kvs = .ok its) (hnd : (kvs.map (fun p => keyTick p.1)).Nodup) (q : Int) :
    ∃ l, parseChild rat (.map kvs) = .ok (.param l) ∧ Sorted l ∧
      (∀ o sp t y v, (YKey.date o sp t, y) ∈ kvs → itemOf y = .ok (.value v) → o ≤ q →
        (∀ o' sp' t' y' v', (YKey.date o' sp' t', y') ∈ kvs → itemOf y' = .ok (.value v') → o' ≤ q →
          fine o' sp' ≤ fine o sp) → pget l (3 * q) = v) ∧
      ((∀ o sp t y v, (YKey.date o sp t, y) ∈ kvs → itemOf y = .ok (.value v) → q < o) → pget l (3 * q) = none) := by
  obtain ⟨hd, hkeys, hmem⟩ := paramItems_spec kvs its hi
  have hnd' : (its.map (·.1)).Nodup := by rw [hkeys]; exact hnd
  obtain ⟨hs, _⟩ := C06_sorted_init its hnd'
  obtain ⟨g1, g2⟩ := C06_init_get its hnd' (3 * q)
  refine ⟨ofData its, parseChild_dates rat kvs hd its hi, hs, ?_, ?_⟩
  · intro o sp t y v hm hy hq hmax
    apply g1 (fine o sp) v ((hmem _).mpr ⟨o, sp, t, y, _, hm, hy, rfl⟩) ((fine_le_iff o q sp).mpr hq)
    intro d' v' hm' hd'
    obtain ⟨o', sp', t', y', i', hm'', hy', heq⟩ := (hmem _).mp hm'
    simp only [Prod.mk.injEq] at heq
    obtain ⟨rfl, rfl⟩ := heq
    exact hmax o' sp' t' y' v' hm'' hy' ((fine_le_iff o' q sp').mp hd')
  · intro hall
    apply g2
    intro d v hm
    obtain ⟨o, sp, t, y, i, hm', hy, heq⟩ := (hmem _).mp hm
    simp only [Prod.mk.injEq] at heq
    obtain ⟨rfl, rfl⟩ := heq
    have := hall o sp t y v hm' hy
    have h2 := fine_le_iff o q sp
    omega

/-- the declaration with `values:` (description, metadata, unit, reference, documentation beside it) builds
    the same parameter as the mapping under `values` alone -/
theorem C06_data_values (rat : String → Option Rat) (kvs vkvs : List (YKey × Y)) (x : YKey × Y)
    (hne : vkvs = x :: vkvs.tail) (hv : lookupName kvs "values" = some (.map vkvs))
    (hk : keysWithin kvs (commonKeys ++ ["values"]) = true) (hm : metaOk kvs = true)
    (its : List (Int × Item String)) (hi : paramItems vkvs = .ok its) :
    parseChild rat (.map kvs) = parseChild rat (.map vkvs) := by
  rw [parseChild_values rat kvs vkvs x hne hv hk hm its hi,
    parseChild_dates rat vkvs (paramItems_spec vkvs its hi).1 its hi]

/-- the values list a successful construction of a parameter yields -/
def builtEntries (r : Except String (PNode String)) : Option (List (Entry String)) :=
  match r with
  | .ok (.param l) => some l
  | .ok (.scale _ _) => none
  | .ok (.node _) => none
  | .error _ => none

/-- the child names a successful construction of a group yields -/
def builtNames (r : Except String (PNode String)) : Option (List String) :=
  match r with
  | .ok (.node cs) => some (cs.map (·.1))
  | .ok (.param _) => none
  | .ok (.scale _ _) => none
  | .error _ => none

example : builtEntries (parseChild (fun _ => none) (.map [(.date 735964 .year "2016", .map [(.name "value", .num "7")]),
      (.date 735599 .day "2015-01-01", .num "5"), (.date 735599 .month "2015-01", .str "expected")]))
    = some [⟨3 * 735964 - 2, some "7"⟩, ⟨3 * 735599, some "5"⟩] := by decide +kernel
example : builtEntries (parseChild (fun _ => none) (.map [(.name "description", .str "x"), (.name "values", .map [(.date 735599 .day "2015-01-01", .num "5")])]))
    = some [⟨3 * 735599, some "5"⟩] := by decide +kernel
example : (parseChild (fun _ => none) (.map [(.name "values", .map [])])).toOption = none
    ∧ (parseChild (fun _ => none) (.map [(.date 735599 .day "2015-01-01", .map [(.name "valeu", .num "5")])])).toOption = none
    ∧ (parseChild (fun _ => none) (.map [(.int 2015, .num "5")])).toOption = none
    ∧ (parseChild (fun _ => none) (.num "5")).toOption = none := by decide +kernel

/-- A group built from a mapping: its children are the non-reserved keys, in order, each named by the text of
    its key (`str(key)`: an integer key by its decimal text) and built from its own data; the names are
    distinct (a repeated name is refused); hence at every date the group exposes exactly those keys whose
    child is defined at that date. -/
theorem C06_data_node (rat : String → Option Rat) (kvs : List (YKey × Y)) (cs : List (String × PNode String))
    (h : parseChild rat (.map kvs) = .ok (.node cs)) (d : Int) :
    cs.map (·.1) = (kvs.filter (fun p => !p.1.within commonKeys)).map (·.1.text) ∧
    (∀ k c, (k, c) ∈ cs → ∃ p ∈ kvs, p.1.within commonKeys = false ∧ p.1.text = k ∧ parseChild rat p.2 = .ok c) ∧
    (cs.map (·.1)).Nodup ∧
    (childrenAt cs d).map (·.1) = (cs.filter (fun p => p.2.definedAt d)).map (·.1) := by
  have hk : nodeKids rat kvs [] = .ok cs := by
    simp only [parseChild] at h
    split at h
    · cases hb : buildParam kvs with
      | error e => rw [hb] at h; cases h
      | ok l => rw [hb] at h; cases h
    · split at h
      · split at h
        · cases h
        · split at h
          · cases h
          · cases hs : scaleBrackets rat kvs with
            | error e => rw [hs] at h; cases h
            | ok bs => rw [hs] at h; cases h
      · split at h
        · cases hb : buildParam kvs with
          | error e => rw [hb] at h; cases h
          | ok l => rw [hb] at h; cases h
        · split at h
          · cases h
          · cases hn : nodeKids rat kvs [] with
            | error e => rw [hn] at h; cases h
            | ok cs' => rw [hn] at h; cases h; rfl
  obtain ⟨new, h1, h2, h3, h4⟩ := nodeKids_spec rat kvs [] cs hk
  simp only [List.nil_append] at h1
  subst h1
  exact ⟨h2, h3, h4 List.nodup_nil, keys_childrenAt cs d⟩

example : builtNames (parseChild (fun _ => none) (.map [(.name "a", .map [(.date 735599 .day "2015-01-01", .num "1")]),
      (.name "description", .str "x"), (.int 2, .map [(.date 735600 .day "2015-01-02", .num "2")])]))
    = some ["a", "2"] := by decide +kernel
example : (parseChild (fun _ => none) (.map [(.name "2", .map [(.name "x", .map [])]), (.int 2, .map [(.name "x", .map [])])])).toOption.isNone
    = true := by decide +kernel

/-- The children a group does NOT expose at `d` are exactly those not defined at `d`, and reaching for one
    (`node_at.k`) raises an error that names it: `<node name>[k]`. -/
theorem C06_node_absent (name : String) (cs : List (String × PNode V)) (d : Int) :
    (absentAt name cs d).map (·.1) = (cs.filter (fun p => !p.2.definedAt d)).map (·.1) ∧
    (∀ k n, (k, n) ∈ absentAt name cs d → n = composeItem name k) ∧
    ((childrenAt cs d).map (·.1)).length + (absentAt name cs d).length = cs.length := by
  refine ⟨(absentAt_keys name cs d).1, (absentAt_keys name cs d).2, ?_⟩
  rw [List.length_map]
  exact length_childrenAt_absentAt name cs d

example : absentAt "n" [("a", PNode.param [(⟨10, some 1⟩ : Entry Nat)]), ("b", .param [⟨12, none⟩, ⟨5, some 2⟩])] 12
    = [("b", "n[b]")] := by decide

/-- `get_descendants()` of a group: every child followed by its own descendants, in order; adding or merging
    children appends theirs. -/
theorem C06_descendants (name : String) (cs cs' : List (String × PNode V)) (k : String) (c : PNode V) :
    (PNode.node ((k, c) :: cs)).descNames name
      = composeChild name k :: (c.descNames (composeChild name k) ++ (PNode.node cs).descNames name) ∧
    (PNode.node (cs ++ cs')).descNames name = (PNode.node cs).descNames name ++ (PNode.node cs').descNames name ∧
    (PNode.param ([] : List (Entry V))).descNames name = [] := by
  refine ⟨by simp [PNode.descNames, descAll], ?_, by simp [PNode.descNames]⟩
  simp only [PNode.descNames]
  exact descAll_append name cs cs'

example : (PNode.node [("a", PNode.param ([] : List (Entry Nat))), ("g", .node [("x", .param []), ("s", .scale false [])])]).descNames "n"
    = ["n.a", "n.g", "n.g.x", "n.g.s"] := by decide

/-- A scale built from data: `brackets` must be a list, every key reserved or `brackets`; the scale is of the
    single-amount kind iff `metadata.type` is `single_amount`; it has one bracket per element of the list, in order. -/
theorem C06_data_scale (rat : String → Option Rat) (kvs : List (YKey × Y)) (m : Bool) (bs : List Bracket)
    (hv : hasName kvs "values" = false) (h : parseChild rat (.map kvs) = .ok (.scale m bs)) :
    m = isSingleAmount kvs ∧ scaleBrackets rat kvs = .ok bs ∧ keysWithin kvs (commonKeys ++ ["brackets"]) = true ∧
    (∀ xs, bracketList rat xs = .ok bs → bs.length = xs.length) := by
  simp only [parseChild, hv, Bool.false_eq_true, if_false] at h
  split at h
  · split at h
    · cases h
    · rename_i hk
      split at h
      · cases h
      · cases hs : scaleBrackets rat kvs with
        | error e => rw [hs] at h; cases h
        | ok bs' =>
          rw [hs] at h
          simp only [Except.ok.injEq, PNode.scale.injEq] at h
          obtain ⟨rfl, rfl⟩ := h
          exact ⟨rfl, rfl, by simpa using hk, fun xs hx => bracketList_length rat xs _ hx⟩
  · split at h
    · cases hb : buildParam kvs with
      | error e => rw [hb] at h; cases h
      | ok l => rw [hb] at h; cases h
    · split at h
      · cases h
      · cases hn : nodeKids rat kvs [] with
        | error e => rw [hn] at h; cases h
        | ok cs => rw [hn] at h; cases h

/-! ## Directories of YAML files -/

/-- the mapping entry a YAML file stands for: its stem, its content -/
def fileAsPair : DirEnt → YKey × Y
  | .file stem _ y => (.name stem, y)
  | .dir name _ => (.name name, .map [])

/-- Loading a directory whose entries are YAML files (`.yaml` / `.yml`, no `index`, no stem that is a reserved
    key) builds the same group as the mapping `{stem: content, …}` in listing order — members, names and
    refusals (a stem used twice: `a.yaml` beside `a.yml`) included. -/
theorem C06_dir_files (rat : String → Option Rat) (es : List DirEnt) (acc : List (String × PNode String))
    (hfiles : ∀ e ∈ es, ∃ stem ext y, e = DirEnt.file stem ext y ∧ yamlExts.contains ext = true ∧
      (stem == "index") = false ∧ commonKeys.contains stem = false) :
    buildDir rat es acc = nodeKids rat (es.map fileAsPair) acc := by
  induction es generalizing acc with
  | nil => simp [buildDir, nodeKids]
  | cons e r ih =>
    obtain ⟨stem, ext, y, rfl, hext, hidx, hres⟩ := hfiles _ (List.mem_cons_self ..)
    have hr : ∀ e ∈ r, ∃ stem ext y, e = DirEnt.file stem ext y ∧ yamlExts.contains ext = true ∧
        (stem == "index") = false ∧ commonKeys.contains stem = false :=
      fun e he => hfiles e (List.mem_cons_of_mem _ he)
    simp only [buildDir, buildEnt, hext, Bool.not_true, Bool.false_eq_true, if_false, hidx, List.map_cons, fileAsPair,
      nodeKids, YKey.within, hres, YKey.text]
    cases parseChild rat y with
    | error e => rfl
    | ok c =>
      simp only
      cases addChild acc stem c with
      | error e => rfl
      | ok acc' => exact ih acc' hr

/-- Files of other types are ignored; `index.yaml` / `index.yml` adds no member and is accepted exactly when
    its content is empty or a mapping of reserved keys (with a mapping for `metadata`); a sub-directory is a
    member group built from its own listing. -/
theorem C06_dir_entries (rat : String → Option Rat) (stem ext name : String) (y : Y) (sub r : List DirEnt)
    (acc : List (String × PNode String)) :
    (yamlExts.contains ext = false → buildDir rat (.file stem ext y :: r) acc = buildDir rat r acc) ∧
    (yamlExts.contains ext = true → indexOk y = true → buildDir rat (.file "index" ext y :: r) acc = buildDir rat r acc) ∧
    (yamlExts.contains ext = true → indexOk y = false → ∃ e, buildDir rat (.file "index" ext y :: r) acc = .error e) ∧
    (∀ cs, buildDir rat sub [] = .ok cs → name ∉ acc.map (·.1) →
      buildDir rat (.dir name sub :: r) acc = buildDir rat r (acc ++ [(name, .node cs)])) := by
  refine ⟨?_, ?_, ?_, ?_⟩
  · intro h; simp only [buildDir, buildEnt, h, Bool.not_false, if_true]
  · intro h hi; simp only [buildDir, buildEnt, h, hi, Bool.not_true, Bool.false_eq_true, if_false, beq_self_eq_true, if_true]
  · intro h hi
    refine ⟨"index: unexpected property", ?_⟩
    simp only [buildDir, buildEnt, h, hi, Bool.not_true, Bool.false_eq_true, if_false, beq_self_eq_true, if_true]
  · intro cs hcs hn
    have := (addChild_ok_iff acc name (.node cs)).1.mpr hn
    simp only [buildDir, buildEnt, hcs, this]

example : builtNames ((buildDir (fun _ => none) [.file "a" ".yaml" (.map [(.date 735599 .day "2015-01-01", .num "1")]),
      .file "index" ".yml" (.map [(.name "description", .str "x")]), .file "notes" ".txt" (.num "5"),
      .dir "sub" [.file "c" ".yml" (.map [])]] []).map .node) = some ["a", "sub"] := by decide +kernel
example : ((buildDir (fun _ => none) [.file "a" ".yaml" (.map []), .file "a" ".yml" (.map [])] []).toOption.isNone
    ∧ (buildDir (fun _ => none) [.file "a" ".yaml" (.map []), .dir "a" []] []).toOption.isNone
    ∧ (buildDir (fun _ => none) [.file "index" ".yaml" (.map [(.name "foo", .num "1")])] []).toOption.isNone) = true := by
  decide +kernel

/-! ## Scales -/

/-- Which class of scale is built at `d`. -/
theorem C06_scale_kind (m : Bool) (bs : List Bracket) (d : Int) :
    (m = true → (scaleAt m bs d).kind = .singleAmount) ∧
    (m = false → (∃ b ∈ bs, (pget b.amount d).isSome) → (scaleAt m bs d).kind = .marginalAmount) ∧
    (m = false → (∀ b ∈ bs, pget b.amount d = none) → (∃ b ∈ bs, (pget b.averageRate d).isSome) →
        (scaleAt m bs d).kind = .linearAverageRate) ∧
    (m = false → (∀ b ∈ bs, pget b.amount d = none) → (∀ b ∈ bs, pget b.averageRate d = none) →
        (scaleAt m bs d).kind = .marginalRate) := by
  have hany : ∀ f : Bracket → List (Entry Rat),
      (bs.any (fun b => hasAt (f b) d) = true ↔ ∃ b ∈ bs, (pget (f b) d).isSome) := by
    intro f; simp [hasAt]
  have hnone : ∀ f : Bracket → List (Entry Rat), (∀ b ∈ bs, pget (f b) d = none) →
      ¬ (bs.any (fun b => hasAt (f b) d) = true) := by
    intro f h c
    obtain ⟨b, hb, hs⟩ := (hany f).mp c
    rw [h b hb] at hs; cases hs
  refine ⟨?_, ?_, ?_, ?_⟩
  · rintro rfl; rfl
  · rintro rfl h
    show scaleKindAt false bs d = _
    unfold scaleKindAt
    rw [if_neg (by decide), if_pos ((hany (·.amount)).mpr h)]
  · rintro rfl h1 h2
    show scaleKindAt false bs d = _
    unfold scaleKindAt
    rw [if_neg (by decide), if_neg (hnone (·.amount) h1), if_pos ((hany (·.averageRate)).mpr h2)]
  · rintro rfl h1 h2
    show scaleKindAt false bs d = _
    unfold scaleKindAt
    rw [if_neg (by decide), if_neg (hnone (·.amount) h1), if_neg (hnone (·.averageRate) h2)]

/-- The scale at `d` has strictly increasing thresholds, which are exactly the thresholds at `d`
    of the brackets whose threshold and value (rate / amount / average rate, by kind) are both
    defined at `d` — a bracket with a null or not-yet-started threshold or value is dropped —
    and stores for each threshold the sum of the values of the brackets that have it. -/
theorem C06_scale_brackets (m : Bool) (bs : List Bracket) (d : Int) :
    ((scaleAt m bs d).rows.map (·.1)).Pairwise (· < ·) ∧
    (∀ t, t ∈ (scaleAt m bs d).rows.map (·.1) ↔
        ∃ b ∈ bs, pget b.threshold d = some t ∧ ∃ x, pget (b.field (scaleAt m bs d).kind) d = some x) ∧
    (∀ t, rowVal (scaleAt m bs d).rows t = contribSum (scaleAt m bs d).kind d bs t) := by
  refine ⟨rowsSorted_addAll _ d bs [] (by simp [RowsSorted]), ?_, ?_⟩
  · intro t
    show t ∈ (addAll _ d bs []).map (·.1) ↔ _
    rw [mem_keys_addAll]
    simp only [List.map_nil, List.not_mem_nil, false_or, bracketPair_eq_some]
    constructor
    · rintro ⟨b, hb, x, h1, h2⟩; exact ⟨b, hb, h1, x, h2⟩
    · rintro ⟨b, hb, h1, x, h2⟩; exact ⟨b, hb, x, h1, h2⟩
  · intro t
    show rowVal (addAll _ d bs []) t = _
    rw [rowVal_addAll]
    simp only [rowVal, Rat.zero_add]
    rfl

example : (scaleAt false
    [⟨[⟨1, some 10⟩], [⟨1, some (1/2)⟩], [], []⟩,
     ⟨[⟨5, none⟩, ⟨1, some 0⟩], [⟨1, some (1/4)⟩], [], []⟩,
     ⟨[⟨3, some 10⟩], [⟨1, some (1/4)⟩], [], []⟩] 3).rows = [(0, 1/4), (10, 3/4)] := by decide +kernel
example : (scaleAt false
    [⟨[⟨1, some 10⟩], [⟨1, some (1/2)⟩], [], []⟩,
     ⟨[⟨5, none⟩, ⟨1, some 0⟩], [⟨1, some (1/4)⟩], [], []⟩] 5).rows = [(10, 1/2)] := by decide +kernel

end OFCore
