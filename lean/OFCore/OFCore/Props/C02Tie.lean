import OFCore.Engine
import OFCore.GeneratedEngine
/-!
# C02 / C01 — the machine detects cycles and spirals exactly as the code's source says (translator tie)

`OFCore.Generated.Engine.checkForCycle` is regenerated on every run from the source of
`Simulation._check_for_cycle` (`harness/ofverif/translate.py`): the list comprehension over
`self.tracer.stack[:-1]`, the membership test that raises `CycleError`, the comparison with
`max_spiral_loops` that raises `SpiralError`.  The machine of `Engine.lean` keeps the frames BELOW the
current one in `s.stack` (it pushes the current frame only when it runs the formula), so `below = s.stack`.
-/
namespace OFCore.Engine
open OFCore.Generated
variable {P : Type} [DecidableEq P]

private theorem prev_contains (stack : List (Node P)) (v : Nat) (p : P) :
    ((stack.filter (fun k => k.1 == v)).map (fun k => k.2)).contains p = true ↔ (v, p) ∈ stack := by
  simp only [List.contains_iff_mem, List.mem_map, List.mem_filter, beq_iff_eq]
  constructor
  · rintro ⟨⟨a, b⟩, ⟨hm, ha⟩, hb⟩
    simp only at ha hb
    subst ha; subst hb; exact hm
  · intro h; exact ⟨(v, p), ⟨h, rfl⟩, rfl⟩

/-- the code's test, read off its source, is the test the machine performs -/
theorem C02_tie_cycle_test (stack : List (Node P)) (v : Nat) (p : P) (msl : Nat) :
    Engine.checkForCycle stack v p msl =
      if (v, p) ∈ stack then 1 else if msl ≤ (stack.filter (fun k => k.1 = v)).length then 2 else 0 := by
  unfold Engine.checkForCycle
  by_cases h : (v, p) ∈ stack
  · simp [h, (prev_contains stack v p).2 h]
  · have h' : ((stack.filter (fun k => k.1 == v)).map (fun k => k.2)).contains p = false := by
      cases hc : ((stack.filter (fun k => k.1 == v)).map (fun k => k.2)).contains p
      · rfl
      · exact absurd ((prev_contains stack v p).1 hc) h
    have hf : (stack.filter (fun k => k.1 == v)) = (stack.filter (fun k => decide (k.1 = v))) := by
      congr 1
    simp [h, h', hf]

/-- a request that misses the cache, has no input, and on which the code raises `CycleError`
    is refused by the machine with the cycle error, the state untouched -/
theorem C02_tie_run_cycle (sys : Sys P) (n : Nat) (s : St P) (v : Nat) (p : P)
    (hc : lookup s.cache (sys.slot (v, p)) = none) (hi : sys.input v p = none)
    (h : Engine.checkForCycle s.stack v p sys.msl = 1) :
    run sys (n + 1) s v p = some (.error .cycle, false, s) := by
  rw [C02_tie_cycle_test] at h
  unfold run
  by_cases hm : (v, p) ∈ s.stack
  · simp [hc, hi, hm]
  · by_cases hs : sys.msl ≤ (s.stack.filter (fun k => k.1 = v)).length <;> simp [hm, hs] at h

/-- … and one on which the code raises `SpiralError` is answered by the machine with the default,
    flagged as substituted, not stored, the frames marked -/
theorem C02_tie_run_spiral (sys : Sys P) (n : Nat) (s : St P) (v : Nat) (p : P)
    (hc : lookup s.cache (sys.slot (v, p)) = none) (hi : sys.input v p = none)
    (h : Engine.checkForCycle s.stack v p sys.msl = 2) :
    run sys (n + 1) s v p = some (.ok (sys.dflt v), true,
      { s with inval := (v, p) :: markSpiral v (if sys.markAll then s.stack.length + 1 else sys.msl) s.stack ++ s.inval }) := by
  rw [C02_tie_cycle_test] at h
  unfold run
  by_cases hm : (v, p) ∈ s.stack
  · simp [hm] at h
  · by_cases hs : sys.msl ≤ (s.stack.filter (fun k => k.1 = v)).length
    · simp [hc, hi, hm, hs]
    · simp [hm, hs] at h

/-- … and when the code raises neither, the machine neither refuses nor substitutes: a variable
    without formula in force gets its default, cast and stored -/
theorem C02_tie_run_no_formula (sys : Sys P) (n : Nat) (s : St P) (v : Nat) (p : P)
    (hc : lookup s.cache (sys.slot (v, p)) = none) (hi : sys.input v p = none)
    (h : Engine.checkForCycle s.stack v p sys.msl = 0) (hf : sys.formula v p = none) :
    run sys (n + 1) s v p = some (.ok (sys.post v (sys.dflt v)), false,
      { s with cache := store sys s.cache (sys.slot (v, p)) (sys.post v (sys.dflt v)) false }) := by
  rw [C02_tie_cycle_test] at h
  unfold run
  by_cases hm : (v, p) ∈ s.stack
  · simp [hm] at h
  · by_cases hs : sys.msl ≤ (s.stack.filter (fun k => k.1 = v)).length
    · simp [hm, hs] at h
    · simp [hc, hi, hm, hs, hf]

example : Engine.checkForCycle [((1 : Nat), (5 : Nat)), (2, 5)] 1 5 1 = 1 := by decide
example : Engine.checkForCycle [((1 : Nat), (4 : Nat)), (2, 5)] 1 5 1 = 2 := by decide
example : Engine.checkForCycle [((1 : Nat), (4 : Nat)), (2, 5)] 3 5 1 = 0 := by decide
/-- `holder.delete_arrays(period)` of one marked (variable, period): its storage slot is dropped -/
def deleteSlot (sys : Sys P) (s : St P) (k : Node P) : St P :=
  { s with cache := s.cache.filter (fun e => !(e.1 == sys.slot k)) }

theorem foldl_deleteSlot (sys : Sys P) : ∀ (l : List (Node P)) (s : St P),
    l.foldl (deleteSlot sys) s =
      { s with cache := s.cache.filter (fun e => !((l.map sys.slot).contains e.1)) } := by
  intro l
  induction l with
  | nil =>
    intro s; cases s
    simp only [List.foldl_nil, List.map_nil, List.contains_nil, Bool.not_false]
    congr 1
    exact (List.filter_eq_self.mpr (fun _ _ => rfl)).symm
  | cons k r ih =>
    intro s
    rw [List.foldl_cons, ih]
    simp only [deleteSlot, List.filter_filter, List.map_cons, List.contains_cons]
    congr 1
    apply List.filter_congr
    intro e _
    cases h1 : (e.1 == sys.slot k) <;> cases h2 : (List.map sys.slot r).contains e.1 <;> simp

/-- **tie**: what a top-level request does after the run — purge when the stack is empty — is what the current
    source of `Simulation.purge_cache_of_invalid_values` does: nothing while a calculation is in progress, else
    delete the slot of every marked (variable, period) and reset the marks -/
theorem C02_tie_purge (sys : Sys P) (s : St P) :
    (if s.stack = [] then purge sys s else s) =
      Engine.purge_cache_of_invalid_values s.stack s.inval (deleteSlot sys) (fun st => { st with inval := [] }) s := by
  unfold Engine.purge_cache_of_invalid_values
  by_cases h : s.stack = []
  · simp [h, foldl_deleteSlot, purge]
  · simp [h]

end OFCore.Engine
