import OFCore.Lemmas.TaxScale
/-!
# C09 — tax-scale transformations preserve the amounts they are meant to preserve

Model: `OFCore/TaxScale.lean` (repaired tree: F-C09a, F-C09b, F-C09c).  `calcMR ε f none s x` is
`MarginalRateTaxScale.calc` with the threshold perturbation `ε ≥ 0` and factor `f`
(`0 < f + ε`); `ε = 0`, `f = 1` is the textbook reading.  Scales are strictly sorted, as
`add_bracket` builds them (`C08_built_sorted`).  All statements are for scales of any length,
all bases, all factors named.

**Non-mutation of the operands** ("none of the non-in-place operations alters the scale it was
applied to") is trivially true of a pure model: that clause is carried by the correspondence
only (`harness/ofverif/props/c09.py` snapshots thresholds and rates of every operand before and
after each operation), and is labelled so in the evidence.
-/
namespace OFCore
open OFCore.Sca

/-! ## combination -/

/-- `a.add_tax_scale(b)`: the tax of the combined scale is the sum of the taxes, for every base,
every receiver `a` and every operand `b` whose thresholds are `≥ 0` (the operand may start below
the receiver, the receiver may be empty); the result is again sorted -/
theorem C09_combine_sum (ε f : Rat) (hf : 0 < f + ε) (a b : Scale) (ha : StrictSorted a) (hb : StrictSorted b)
    (hnn : ∀ c ∈ b, 0 ≤ c.1) (x : Rat) :
    calcMR ε f none (addTaxScale a b) x = calcMR ε f none a x + calcMR ε f none b x ∧
    StrictSorted (addTaxScale a b) := by
  obtain ⟨e1, e2⟩ := addTaxScaleGo_spec (thrMap ε f none) (thrMap_strictMono ε f hf) b hb
    (tailNZ_of_nonneg hb hnn) x a ha
  refine ⟨?_, e2⟩
  unfold addTaxScale
  rw [calc_eq_incr ε f hf _ e2, calc_eq_incr ε f hf a ha, e1]
  unfold calcMR
  rw [decide_eq_true hf]

/-- F-C09a's input: operand starting below the receiver -/
example : calcMR 0 1 none (addTaxScale [(100, 1/8)] [(0, 1/4)]) 50
    = calcMR 0 1 none [(100, 1/8)] 50 + calcMR 0 1 none [(0, 1/4)] 50 :=
  (C09_combine_sum 0 1 (by decide +kernel) _ _ (by decide +kernel) (by decide +kernel)
    (by intro c hc; simp at hc; subst hc; decide +kernel) 50).1
example : addTaxScale [(100, 1/8)] [(0, 1/4)] = [(0, 1/4), (100, 3/8)] ∧
    calcMR 0 1 none (addTaxScale [(100, 1/8)] [(0, 1/4)]) 50 = 25/2 ∧
    addTaxScale [] [(0, 1/4)] = [(0, 1/4)] := by decide +kernel

/-- sequences: adding the scales `bs` one after the other -/
theorem C09_combine_sequence (ε f : Rat) (hf : 0 < f + ε) (bs : List Scale)
    (hbs : ∀ b ∈ bs, StrictSorted b ∧ ∀ c ∈ b, 0 ≤ c.1) (x : Rat) :
    ∀ a, StrictSorted a →
      calcMR ε f none (bs.foldl addTaxScale a) x = calcMR ε f none a x + (bs.map (fun b => calcMR ε f none b x)).sum ∧
      StrictSorted (bs.foldl addTaxScale a) := by
  induction bs with
  | nil => intro a ha; simp [ha]
  | cons b bs ih =>
    intro a ha
    obtain ⟨hb, hnn⟩ := hbs b List.mem_cons_self
    obtain ⟨e1, e2⟩ := C09_combine_sum ε f hf a b ha hb hnn x
    obtain ⟨f1, f2⟩ := ih (fun c hc => hbs c (List.mem_cons_of_mem _ hc)) (addTaxScale a b) e2
    refine ⟨?_, f2⟩
    simp only [List.foldl_cons, List.map_cons, List.sum_cons]
    rw [f1, e1]; ring

example : calcMR 0 1 none ([[(0, 1/4)], [(50, 1/8), (200, 1/2)]].foldl addTaxScale [(100, 1/8)]) 300
    = calcMR 0 1 none [(100, 1/8)] 300 + ([[(0, 1/4)], [(50, 1/8), (200, 1/2)]].map (fun b => calcMR 0 1 none b 300)).sum :=
  (C09_combine_sequence 0 1 (by decide +kernel) _ (by
    intro b hb
    simp at hb
    rcases hb with e | e <;> subst e <;> exact ⟨by decide +kernel, by decide +kernel⟩) 300 _ (by decide +kernel)).1

/-- `combine_tax_scales(node, combined)`: the marginal-rate children are added, in order, to the
accumulator — `[(0, 0)]` when none is given —, other children are skipped -/
theorem C09_combine_tax_scales (ε f : Rat) (hf : 0 < f + ε) (children : List (Option Scale)) (combined : Option Scale)
    (hch : ∀ b, some b ∈ children → StrictSorted b ∧ ∀ c ∈ b, 0 ≤ c.1) (hne : children ≠ [])
    (hc : ∀ c ∈ combined, StrictSorted c) (x : Rat) :
    ∃ r, combineTaxScales children combined = some r ∧
      calcMR ε f none r x = (match combined with | some c => calcMR ε f none c x | none => 0)
        + ((children.filterMap id).map (fun b => calcMR ε f none b x)).sum := by
  have key : ∀ (cs : List (Option Scale)), (∀ b, some b ∈ cs → StrictSorted b ∧ ∀ c ∈ b, 0 ≤ c.1) →
      ∀ a, StrictSorted a →
      cs.foldl addChild a = (cs.filterMap id).foldl addTaxScale a := by
    intro cs
    induction cs with
    | nil => intro _ a _; rfl
    | cons c cs ih =>
      intro h a ha
      cases c with
      | none => simp only [List.foldl_cons, List.filterMap_cons, id, addChild]; exact ih (fun b hb => h b (List.mem_cons_of_mem _ hb)) a ha
      | some b =>
        simp only [List.foldl_cons, List.filterMap_cons, id, addChild]
        obtain ⟨hb, hnn⟩ := h b List.mem_cons_self
        exact ih (fun b hb => h b (List.mem_cons_of_mem _ hb)) _ (C09_combine_sum ε f hf a b ha hb hnn x).2
  have h0 : addBracket [] 0 0 = [(0, 0)] := by decide +kernel
  have hs0 : StrictSorted [((0 : Rat), (0 : Rat))] := by simp [StrictSorted]
  have hall : ∀ b ∈ children.filterMap id, StrictSorted b ∧ ∀ c ∈ b, 0 ≤ c.1 := by
    intro b hb
    rw [List.mem_filterMap] at hb
    obtain ⟨o, ho, e⟩ := hb
    simp only [id] at e
    subst e
    exact hch b ho
  cases children with
  | nil => exact absurd rfl hne
  | cons c cs =>
    cases combined with
    | none =>
      refine ⟨_, rfl, ?_⟩
      simp only [h0]
      rw [key (c :: cs) hch _ hs0, (C09_combine_sequence ε f hf _ hall x _ hs0).1]
      have : calcMR ε f none [(0, 0)] x = 0 := by
        simp [calcMR, mapT, clipSum, brTerm]
      rw [this]
    | some a =>
      have ha := hc a rfl
      refine ⟨_, rfl, ?_⟩
      simp only
      rw [key (c :: cs) hch _ ha, (C09_combine_sequence ε f hf _ hall x _ ha).1]

theorem C09_combine_tax_scales_empty (combined : Option Scale) : combineTaxScales [] combined = combined := rfl

example : combineTaxScales [some [(0, 1/4)], none, some [(50, 1/8)]] none = some [(0, 1/4), (50, 3/8)] := by
  decide +kernel
example : ∃ r, combineTaxScales [some [(0, 1/4)], none, some [(50, 1/8)]] (some [(100, 1/2)]) = some r ∧
    calcMR 0 1 none r 200 = (match (some [(100, 1/2)] : Option Scale) with | some c => calcMR 0 1 none c 200 | none => 0)
      + (([some [(0, 1/4)], none, some [(50, 1/8)]].filterMap id).map (fun b => calcMR 0 1 none b 200)).sum :=
  C09_combine_tax_scales 0 1 (by decide +kernel) _ _ (by
    intro b hb
    simp at hb
    rcases hb with e | e <;> subst e <;> exact ⟨by decide +kernel, by decide +kernel⟩) (by simp)
    (by intro c hc; simp at hc; subst hc; decide +kernel) 200

/-! ## inverse -/

/-- `inverse()` of a scale starting at threshold 0 with all rates below one exists and maps
every net amount back to the gross amount it came from (`x ≥ 0`) -/
theorem C09_inverse (r0 : Rat) (rest : Scale) (hs : StrictSorted ((0, r0) :: rest))
    (hr : ∀ c ∈ (0, r0) :: rest, c.2 < 1) (x : Rat) (hx : 0 ≤ x) :
    ∃ inv, inverse ((0, r0) :: rest) = .ok inv ∧
      calcMR 0 1 none inv (x - calcMR 0 1 none ((0, r0) :: rest) x) = x := by
  refine ⟨_, inverse_eq r0 rest hs hr, ?_⟩
  rw [calcMR_textbook, calcMR_textbook]
  have := inv_calc rest 0 0 0 r0 x hs hr hx
  have e : (1 - 0) * 0 + 0 + (x - 0) - clipSum none true ((0, r0) :: rest) x
      = x - clipSum none true ((0, r0) :: rest) x := by ring
  rw [e] at this
  rw [this]; ring

example : ∃ inv, inverse ((0, 1/4) :: [(100, 1/2)]) = .ok inv ∧
    calcMR 0 1 none inv (200 - calcMR 0 1 none ((0, 1/4) :: [(100, 1/2)]) 200) = 200 :=
  C09_inverse _ _ (by decide +kernel) (by
    intro c hc; simp at hc; rcases hc with e | e <;> subst e <;> decide +kernel) 200 (by decide +kernel)
example : inverse [(0, 1/4), (100, 1/2)] = .ok [(0, 4/3), (75, 2)] := by decide +kernel

/-- where `inverse` raises: a non-empty scale whose first threshold is not 0 (unbound
`previous_rate`), or a rate equal to one in the first bracket (division by zero) -/
theorem C09_inverse_errors (t r : Rat) (rest : Scale) :
    (t ≠ 0 → ∃ e, inverse ((t, r) :: rest) = .error e) ∧ (t = 0 → r = 1 → ∃ e, inverse ((t, r) :: rest) = .error e) := by
  constructor
  · intro h; simp [inverse, inverseGo, h]
  · intro h1 h2; simp [inverse, inverseGo, h1, h2]

/-! ## scalings -/

/-- multiplying all thresholds by `k > 0`: the tax on the scaled base is the scaled tax -/
theorem C09_mul_thresholds (ε f : Rat) (k : Rat) (hk : 0 < k) (s : Scale) (x : Rat) :
    calcMR ε f none (multiplyThresholds s k none) (k * x) = k * calcMR ε f none s x := by
  unfold calcMR
  rw [← clipSum_scaleT k hk]
  congr 1
  simp only [multiplyThresholds, mapT, rnd, List.map_map]
  apply List.map_congr_left
  intro c _
  simp only [Function.comp, thrMap_none]
  congr 1
  ring

example : calcMR 0 1 none (multiplyThresholds [(0, 1/4), (10, 1/2)] (3/2) none) (3/2 * 20) = 3/2 * calcMR 0 1 none [(0, 1/4), (10, 1/2)] 20 :=
  C09_mul_thresholds 0 1 (3/2) (by decide +kernel) _ 20

/-- `scale_tax_scales(k)` is `copy().multiply_thresholds(k)` -/
theorem C09_scale_tax_scales (ε f : Rat) (k : Rat) (hk : 0 < k) (s : Scale) (x : Rat) :
    calcMR ε f none (scaleTaxScales s k) (k * x) = k * calcMR ε f none s x :=
  C09_mul_thresholds ε f k hk s x

/-- multiplying all rates by any factor multiplies every tax by that factor -/
theorem C09_mul_rates (ε f : Rat) (k : Rat) (s : Scale) (x : Rat) :
    calcMR ε f none (multiplyRates s k) x = k * calcMR ε f none s x := by
  unfold calcMR
  rw [← clipSum_scaleR]
  congr 1
  simp [multiplyRates, mapT, List.map_map, Function.comp]

example : calcMR 0 1 none (multiplyRates [(0, 1/4), (10, 1/2)] (-3)) 20 = -3 * calcMR 0 1 none [(0, 1/4), (10, 1/2)] 20 :=
  C09_mul_rates 0 1 (-3) _ 20

/-! ## average rates and back, copy -/

/-- `to_average().to_marginal()` on a sorted scale whose first threshold is `≥ 0` (repaired
`to_average`): both conversions succeed, the result is the same scale — preceded by a bracket
`(0, 0)` when the first threshold is positive — and it taxes every base identically, with any
factor and rounding -/
theorem C09_average_marginal_roundtrip (t0 r0 : Rat) (rest : Scale) (hs : StrictSorted ((t0, r0) :: rest))
    (h0 : 0 ≤ t0) :
    ∃ a m, toAverage ((t0, r0) :: rest) = .ok a ∧ toMarginal a = .ok m ∧
      m = (if 0 < t0 then (0, 0) :: (t0, r0) :: rest else (t0, r0) :: rest) ∧
      ∀ (ε f : Rat) (rd : Option Nat) (x : Rat), calcMR ε f rd m x = calcMR ε f rd ((t0, r0) :: rest) x := by
  obtain ⟨a, h1, h2⟩ := avg_roundtrip t0 r0 rest hs h0
  refine ⟨a, _, h1, h2, rfl, ?_⟩
  intro ε f rd x
  by_cases hp : 0 < t0
  · simp only [hp, if_true]
    unfold calcMR
    simp only [mapT, List.map_cons]
    have : thrMap ε f rd 0 = rnd rd 0 := by simp [thrMap]
    exact clipSum_zero_head rd _ _ _ _ x
  · simp only [hp, if_false]

/-- F-C09b's and F-C09c's inputs -/
example : (toAverage [(50, 1/8), (100, 1/4)] >>= toMarginal) = .ok [(0, 0), (50, 1/8), (100, 1/4)] ∧
    (toAverage [(0, 1/8)] >>= toMarginal) = .ok [(0, 1/8)] ∧
    toAverage [(7, 1/8)] = .ok ⟨[(0, 0), (7, 0)], some (1/8)⟩ := by decide +kernel
example : ∃ a m, toAverage ((50, 1/8) :: [(100, 1/4)]) = .ok a ∧ toMarginal a = .ok m ∧
    m = (if (0 : Rat) < 50 then (0, 0) :: (50, 1/8) :: [(100, 1/4)] else (50, 1/8) :: [(100, 1/4)]) ∧
    ∀ (ε f : Rat) (rd : Option Nat) (x : Rat), calcMR ε f rd m x = calcMR ε f rd ((50, 1/8) :: [(100, 1/4)]) x :=
  C09_average_marginal_roundtrip 50 (1/8) _ (by decide +kernel) (by decide +kernel)

/-- a copy taxes every base identically (it *is* the same bracket list; independence of the
copy from later changes of the original is an aliasing fact, carried by the correspondence) -/
theorem C09_copy (s : Scale) : copy s = s ∧ ∀ (ε f : Rat) (rd : Option Nat) (x : Rat), calcMR ε f rd (copy s) x = calcMR ε f rd s x :=
  ⟨rfl, fun _ _ _ _ => rfl⟩

example : copy [(0, 1/4), (10, 1/2)] = [(0, 1/4), (10, 1/2)] := (C09_copy _).1

/-! ## round 2 -/

/-- `combine_bracket(rate, lo, hi)` — the step `add_tax_scale` is made of, also callable directly, `lo` defaulting
to 0 and `hi` to "none" — adds `rate` on `[lo, hi)` (on `[lo, ∞)` without `hi`) to the tax of every base, for every
sorted receiver (empty, or starting above `lo`, included) -/
theorem C09_combine_bracket (ε f : Rat) (hf : 0 < f + ε) (s : Scale) (hs : StrictSorted s) (rate lo : Rat) (hi : Option Rat)
    (hlh : ∀ h ∈ hi, lo < h ∧ h ≠ 0) (x : Rat) :
    calcMR ε f none (combineBracket s rate lo hi) x
      = calcMR ε f none s x + rate * interLen ((f + ε) * lo) (hi.map (fun h => (f + ε) * h)) x ∧
    StrictSorted (combineBracket s rate lo hi) := by
  obtain ⟨e1, e2⟩ := combineBracket_spec (thrMap ε f none) s hs rate lo hi hlh x
  refine ⟨?_, e2⟩
  rw [calc_eq_incr ε f hf _ e2, calc_eq_incr ε f hf s hs, e1]
  congr 1
  cases hi with
  | none =>
    simp only [Option.map, thrMap_none, pp, interLen]
    congr 1
    by_cases h : x ≤ (f + ε) * lo
    · rw [if_pos h, max_eq_right (by linarith)]; ring
    · rw [if_neg h, max_eq_left (by linarith)]; ring
  | some h =>
    obtain ⟨hlt, _⟩ := hlh h rfl
    have := mul_lt_mul_of_pos_left hlt hf
    simp only [Option.map, thrMap_none, interLen]
    congr 1
    unfold pp
    grind

example : calcMR 0 1 none (combineBracket [(50, 1/4), (100, 1/2)] (1/8) 25 (some 75)) 60
    = calcMR 0 1 none [(50, 1/4), (100, 1/2)] 60 + 1/8 * interLen ((1 + 0) * 25) ((some (75 : Rat)).map (fun h => (1 + 0) * h)) 60 :=
  (C09_combine_bracket 0 1 (by decide +kernel) _ (by decide +kernel) _ _ _
    (by intro h hh; simp at hh; subst hh; decide +kernel) 60).1
example : combineBracketD [(0, 1/4), (100, 1/2)] (1/8) none none = [(0, 3/8), (100, 5/8)] ∧
    combineBracket [] (1/8) 25 none = [(25, 1/8)] := by decide +kernel

/-- as tax functions, combination is commutative … -/
theorem C09_combine_comm (ε f : Rat) (hf : 0 < f + ε) (a b : Scale) (ha : StrictSorted a) (hb : StrictSorted b)
    (hna : ∀ c ∈ a, 0 ≤ c.1) (hnb : ∀ c ∈ b, 0 ≤ c.1) (x : Rat) :
    calcMR ε f none (addTaxScale a b) x = calcMR ε f none (addTaxScale b a) x := by
  rw [(C09_combine_sum ε f hf a b ha hb hnb x).1, (C09_combine_sum ε f hf b a hb ha hna x).1]; ring

/-- bracket splitting keeps exactly the thresholds of the two scales -/
theorem C09_combine_thresholds (a b : Scale) (ha : StrictSorted a) (hb : StrictSorted b) (hnn : ∀ c ∈ b, 0 ≤ c.1) (u : Rat) :
    hasT (addTaxScale a b) u = (hasT a u || hasT b u) :=
  addTaxScaleGo_hasT b hb (tailNZ_of_nonneg hb hnn) u a ha

example : thresholds (addTaxScale [(0, 1/4), (100, 1/2)] [(50, 1/8), (100, 1/8), (300, 1)]) = [0, 50, 100, 300] := by decide +kernel

/-- … and associative -/
theorem C09_combine_assoc (ε f : Rat) (hf : 0 < f + ε) (a b c : Scale) (ha : StrictSorted a) (hb : StrictSorted b)
    (hc : StrictSorted c) (hnb : ∀ d ∈ b, 0 ≤ d.1) (hnc : ∀ d ∈ c, 0 ≤ d.1) (x : Rat) :
    calcMR ε f none (addTaxScale (addTaxScale a b) c) x = calcMR ε f none (addTaxScale a (addTaxScale b c)) x := by
  obtain ⟨e1, s1⟩ := C09_combine_sum ε f hf a b ha hb hnb x
  obtain ⟨e2, s2⟩ := C09_combine_sum ε f hf b c hb hc hnc x
  have hn2 : ∀ d ∈ addTaxScale b c, 0 ≤ d.1 := by
    intro d hd
    have h1 : hasT (addTaxScale b c) d.1 = true := hasT_iff.mpr ⟨d, hd, rfl⟩
    rw [C09_combine_thresholds b c hb hc hnc, Bool.or_eq_true] at h1
    rcases h1 with h | h
    · obtain ⟨e, he, ee⟩ := hasT_iff.mp h; rw [← ee]; exact hnb e he
    · obtain ⟨e, he, ee⟩ := hasT_iff.mp h; rw [← ee]; exact hnc e he
  rw [(C09_combine_sum ε f hf _ c s1 hc hnc x).1, e1, (C09_combine_sum ε f hf a _ ha s2 hn2 x).1, e2]; ring

example : calcMR 0 1 none (addTaxScale (addTaxScale [(0, 1/4)] [(50, 1/8)]) [(20, 1/2), (70, 0)]) 100
    = calcMR 0 1 none (addTaxScale [(0, 1/4)] (addTaxScale [(50, 1/8)] [(20, 1/2), (70, 0)])) 100 :=
  C09_combine_assoc 0 1 (by decide +kernel) _ _ _ (by decide +kernel) (by decide +kernel) (by decide +kernel)
    (by decide +kernel) (by decide +kernel) 100
example : calcMR 0 1 none (addTaxScale [(100, 1/8)] [(0, 1/4), (30, 1/2)]) 50 = calcMR 0 1 none (addTaxScale [(0, 1/4), (30, 1/2)] [(100, 1/8)]) 50 :=
  C09_combine_comm 0 1 (by decide +kernel) _ _ (by decide +kernel) (by decide +kernel) (by decide +kernel) (by decide +kernel) 50

/-! ### scalings with rounding, vectors, descriptive attributes -/

/-- `multiply_thresholds(k, decimals=d)`: every threshold is the rounded product, the rates are untouched, the
brackets stay in (weak) order for `k > 0` — so the result still computes its textbook definition (`C08_marginal_rate_def`) -/
theorem C09_mul_thresholds_rounded (k : Rat) (hk : 0 < k) (d : Nat) (s : Scale) (hs : StrictSorted s) :
    thresholds (multiplyThresholds s k (some d)) = (thresholds s).map (fun t => roundDec d (t * k)) ∧
    rates (multiplyThresholds s k (some d)) = rates s ∧
    WSorted (multiplyThresholds s k (some d)) ∧
    ∀ (ε f : Rat), 0 < f + ε → ∀ x, calcMR ε f none (multiplyThresholds s k (some d)) x
      = specMR none (mapT (fun t => (f + ε) * t) (multiplyThresholds s k (some d))) x := by
  have hw : WSorted (multiplyThresholds s k (some d)) := by
    have : multiplyThresholds s k (some d) = mapT (fun t => roundDec d (t * k)) s := rfl
    rw [this]
    exact mapT_wsorted (fun a b hab => roundDec_mono d (mul_le_mul_of_nonneg_right hab hk.le)) hs.wsorted
  refine ⟨by simp [thresholds, multiplyThresholds, rnd], by simp [rates, multiplyThresholds], hw, ?_⟩
  intro ε f hf x
  unfold calcMR
  rw [decide_eq_true hf]
  exact clipSum_eq_specMR none _ (mapT_wsorted (fun a b hab => by
    simp only [thrMap_none]; exact mul_le_mul_of_nonneg_left hab hf.le) hw) x

example : multiplyThresholds [(0, 1/16), (1, 1/4), (3, 1/2), (17, 1)] (1/8) (some 2) = [(0, 1/16), (3/25, 1/4), (19/50, 1/2), (53/25, 1)] := by
  decide +kernel

/-- the inverse on a vector of gross amounts: element by element back to the gross amount -/
theorem C09_inverse_vector (r0 : Rat) (rest : Scale) (hs : StrictSorted ((0, r0) :: rest))
    (hr : ∀ c ∈ (0, r0) :: rest, c.2 < 1) (xs : List Rat) (hx : ∀ x ∈ xs, 0 ≤ x) :
    ∃ inv, inverse ((0, r0) :: rest) = .ok inv ∧
      calcMRVec 0 1 none inv (List.zipWith (· - ·) xs (calcMRVec 0 1 none ((0, r0) :: rest) xs)) = xs := by
  obtain ⟨inv, h1, _⟩ := C09_inverse r0 rest hs hr 0 (le_refl 0)
  refine ⟨inv, h1, ?_⟩
  have hv : ∀ (s : Scale) (ys : List Rat), calcMRVec 0 1 none s ys = ys.map (calcMR 0 1 none s) := by
    intro s ys; unfold calcMRVec calcMR; exact clipSumVec_eq_map _ _ _ _
  rw [hv, hv]
  induction xs with
  | nil => rfl
  | cons x xs ih =>
    simp only [List.map_cons, List.zipWith_cons_cons]
    obtain ⟨inv', h1', h2'⟩ := C09_inverse r0 rest hs hr x (hx x List.mem_cons_self)
    rw [h1] at h1'
    injection h1' with e
    rw [e, h2']
    rw [← e, ih (fun y hy => hx y (List.mem_cons_of_mem _ hy))]

example : ∃ inv, inverse ((0, 1/4) :: [(100, 1/2)]) = .ok inv ∧
    calcMRVec 0 1 none inv (List.zipWith (· - ·) [0, 40, 200] (calcMRVec 0 1 none ((0, 1/4) :: [(100, 1/2)]) [0, 40, 200])) = [0, 40, 200] :=
  C09_inverse_vector _ _ (by decide +kernel) (by
    intro c hc; simp at hc; rcases hc with e | e <;> subst e <;> decide +kernel) _ (by decide +kernel)

/-- descriptive attributes: every operation that returns a new scale carries `option` and `unit` over; the name is
kept by `copy`, `scale_tax_scales`, `to_average`, `to_marginal` (a scale's name is never empty) and by the multiplications
without a `new_name`, replaced by a non-empty `new_name`, and `inverse` appends a prime; in place a `new_name` is refused -/
theorem C09_meta (m : Meta) (hname : m.name ≠ "") :
    metaCopy m = m ∧ metaScaleTaxScales m = .ok m ∧ metaConvert m = m ∧
    (metaInverse m).option = m.option ∧ (metaInverse m).unit = m.unit ∧ (metaInverse m).name = m.name ++ "'" ∧
    metaMultiply m false none = .ok m ∧ metaMultiply m false (some "") = .ok m ∧
    (∀ n, n ≠ "" → metaMultiply m false (some n) = .ok ⟨n, m.option, m.unit⟩) ∧
    metaMultiply m true none = .ok m ∧ (∀ n, ∃ e, metaMultiply m true (some n) = .error e) := by
  obtain ⟨name, option, unit⟩ := m
  simp only at hname
  have hq : (name ++ "'") ≠ "" := by
    intro h
    have := congrArg String.length h
    simp at this
  refine ⟨rfl, rfl, ?_, rfl, rfl, ?_, ?_, ?_, ?_, rfl, fun n => ⟨_, rfl⟩⟩
  · simp [metaConvert, metaInit, strOr, hname]
  · simp [metaInverse, metaInit, strOr, hq]
  · simp [metaMultiply, metaInit, strOr, hname]
  · simp [metaMultiply, metaInit, strOr, hname]
  · intro n hn
    simp [metaMultiply, metaInit, strOr, hn]

example : metaMultiply ⟨"scale", some "main-option", some "currency"⟩ false (some "renamed") = .ok ⟨"renamed", some "main-option", some "currency"⟩ ∧
    metaInverse ⟨"scale", none, some "currency"⟩ = ⟨"scale'", none, some "currency"⟩ ∧
    metaCombine (some "first-child") none = some ⟨"first-child", none, none⟩ ∧ metaInit none none none = ⟨"Untitled TaxScale", none, none⟩ := by
  decide +kernel

/-- `calc` with the threshold factor `k = f + ε > 0` is the textbook `calc` seen through the change of unit `x ↦ k·x` -/
theorem C09_calc_factor_scaling (ε f : Rat) (hf : 0 < f + ε) (s : Scale) (x : Rat) :
    calcMR ε f none s x = (f + ε) * calcMR 0 1 none s (x / (f + ε)) := by
  rw [calcMR_textbook]
  unfold calcMR
  rw [decide_eq_true hf]
  have hk : (f + ε) ≠ 0 := ne_of_gt hf
  have hx : x = (f + ε) * (x / (f + ε)) := by field_simp
  have hm : mapT (thrMap ε f none) s = mapT (fun t => (f + ε) * t) s := rfl
  rw [hm]
  conv => lhs; rw [hx]
  exact clipSum_scaleT (f + ε) hf true s (x / (f + ε))

/-- the inverse law holds with the code's perturbation too: for every `ε`, `f` with `f + ε > 0` (the same factor on both
scales), `inverse()` of a scale starting at 0 with rates below one maps the net of every gross amount `x ≥ 0` back to `x` -/
theorem C09_inverse_any_factor (ε f : Rat) (hf : 0 < f + ε) (r0 : Rat) (rest : Scale) (hs : StrictSorted ((0, r0) :: rest))
    (hr : ∀ c ∈ (0, r0) :: rest, c.2 < 1) (x : Rat) (hx : 0 ≤ x) :
    ∃ inv, inverse ((0, r0) :: rest) = .ok inv ∧
      calcMR ε f none inv (x - calcMR ε f none ((0, r0) :: rest) x) = x := by
  have hk : (f + ε) ≠ 0 := ne_of_gt hf
  obtain ⟨inv, h1, h2⟩ := C09_inverse r0 rest hs hr (x / (f + ε)) (div_nonneg hx hf.le)
  refine ⟨inv, h1, ?_⟩
  rw [C09_calc_factor_scaling ε f hf inv, C09_calc_factor_scaling ε f hf ((0, r0) :: rest) x]
  have e : (x - (f + ε) * calcMR 0 1 none ((0, r0) :: rest) (x / (f + ε))) / (f + ε)
      = x / (f + ε) - calcMR 0 1 none ((0, r0) :: rest) (x / (f + ε)) := by
    field_simp
  rw [e, h2]
  field_simp

example : ∃ inv, inverse ((0, 1/4) :: [(100, 1/2)]) = .ok inv ∧
    calcMR (1/4503599627370496) 1 none inv (200 - calcMR (1/4503599627370496) 1 none ((0, 1/4) :: [(100, 1/2)]) 200) = 200 :=
  C09_inverse_any_factor _ 1 (by decide +kernel) _ _ (by decide +kernel) (by
    intro c hc; simp at hc; rcases hc with e | e <;> subst e <;> decide +kernel) 200 (by decide +kernel)

/-- what `to_average()` produces (sorted scale, first threshold `≥ 0`, repaired code): its finite thresholds are 0 and the
thresholds of the scale; each average rate times its threshold is the tax of the scale at that threshold (the AVERAGE rate
up to there; rate 0 at 0 and at a positive first threshold); the `Inf` bracket carries the rate of the last bracket -/
theorem C09_to_average_def (t0 r0 : Rat) (rest : Scale) (hs : StrictSorted ((t0, r0) :: rest)) (h0 : 0 ≤ t0) :
    ∃ a, toAverage ((t0, r0) :: rest) = .ok a ∧
      (∀ c ∈ a.fin, c.2 * c.1 = calcMR 0 1 none ((t0, r0) :: rest) c.1) ∧
      (∀ u, hasT a.fin u = (decide (u = 0) || hasT ((t0, r0) :: rest) u)) ∧
      a.top = some (lastRate r0 rest) := by
  obtain ⟨a, h1, h2, h3, h4⟩ := toAverage_spec t0 r0 rest hs h0
  refine ⟨a, h1, ?_, h4, h2⟩
  intro c hc
  rw [calcMR_textbook]
  exact h3 c hc

example : toAverage [(50, 1/8), (100, 1/4), (300, 1/2)] = .ok ⟨[(0, 0), (50, 0), (100, 1/16), (300, 3/16)], some (1/2)⟩ ∧
    calcMR 0 1 none [(50, 1/8), (100, 1/4), (300, 1/2)] 300 = 3/16 * 300 := by decide +kernel

end OFCore
