import OFCore.Lemmas.TextRound
/-!
# C05 — period and instant text forms round-trip and are canonical

`Period.text` is `Period.__str__`, `parsePeriod` is `periods.period(str)`, `instantText` /
`parseInstant` are `Instant.__str__` / `periods.instant(str)` (model: `PeriodText.lean`, ASCII).
All theorems hold for every aligned period with a year in 1000..9999 and every size ≥ 1
(unbounded), at the level of characters.
-/
namespace OFCore

/-- start aligned to the period's own unit: first of month for month and year units, Monday for
    week units -/
def OwnAligned (p : Period) : Prop :=
  match p.unit with
  | .month => p.start.d = 1
  | .year => p.start.d = 1
  | .week => weekday0 (ord p.start) = 0
  | .day => True
  | .weekday => True
  | .eternity => True

/-- the claim domain of the round trip: four-digit years, also for the ISO year that week and
    weekday periods are printed with -/
def InTextDomain (p : Period) : Prop :=
  1000 ≤ p.start.y ∧ p.start.y ≤ 9999 ∧
  ((p.unit = .week ∨ p.unit = .weekday) → 1000 ≤ (toIso p.start).1 ∧ (toIso p.start).1 ≤ 9999)

theorem parse_text (p : Period) (hwf : p.WF) (hal : OwnAligned p) (hdom : InTextDomain p) :
    parsePeriod p.text = .ok (canon p) := by
  obtain ⟨u, ⟨y, m, d⟩, n⟩ := p
  obtain ⟨hu, hv, hn⟩ := hwf
  obtain ⟨hy1, hy2, hiy⟩ := hdom
  simp only at hu hv hn hy1 hy2 hiy
  have hv' := hv
  obtain ⟨_, hm1, hm2, hd1, hd2⟩ := hv'
  simp only at hm1 hm2 hd1 hd2
  obtain ⟨Y, rfl⟩ := Int.eq_ofNat_of_zero_le (show 0 ≤ y by omega)
  obtain ⟨M, rfl⟩ := Int.eq_ofNat_of_zero_le (show 0 ≤ m by omega)
  obtain ⟨D, rfl⟩ := Int.eq_ofNat_of_zero_le (show 0 ≤ d by omega)
  cases u
  · exact text_parse_weekday _ hv hy2 (hiy (Or.inr rfl)) n hn
  · exact text_parse_week _ hv hy2 hal (hiy (Or.inl rfl)) n hn
  · exact text_parse_day Y M D n hn (by omega) (by omega) hv
  · have hD : (D : Int) = 1 := hal
    rw [hD]; exact text_parse_month Y M n hn (by omega) (by omega) (by omega) (by omega)
  · have hD : (D : Int) = 1 := hal
    rw [hD]; exact text_parse_year Y M n hn (by omega) (by omega) (by omega) (by omega)
  · exact absurd rfl hu

/-- Printing an aligned period and parsing the text back yields a period covering exactly the
    same days, with the same unit except that twelve months print as one year, and printing
    that again yields the same text. -/
theorem C05_parse_print (p : Period) (hwf : p.WF) (hal : OwnAligned p) (hdom : InTextDomain p) :
    ∃ p', parsePeriod p.text = .ok p' ∧ p'.lo = p.lo ∧ p'.hi = p.hi ∧ p'.text = p.text ∧
      (p' = p ∨ (p.unit = .month ∧ p.size = 12 ∧ p' = ⟨.year, p.start, 1⟩)) := by
  refine ⟨canon p, parse_text p hwf hal hdom, ?_⟩
  unfold canon
  split
  · rename_i h
    obtain ⟨hu, hs⟩ := h
    refine ⟨rfl, ?_, ?_, Or.inr ⟨hu, hs, rfl⟩⟩
    · simp only [Period.hi, hu, hs, Int.mul_one]
    · simp only [Period.text, hu, hs, reduceCtorEq, and_self, or_true, true_or, if_true, if_false]
  · exact ⟨rfl, rfl, rfl, Or.inl rfl⟩

example : (Period.mk .month ⟨2015, 3, 1⟩ 12).WF ∧ OwnAligned ⟨.month, ⟨2015, 3, 1⟩, 12⟩ ∧
    InTextDomain ⟨.month, ⟨2015, 3, 1⟩, 12⟩ ∧
    parsePeriod (Period.mk .month ⟨2015, 3, 1⟩ 12).text = .ok ⟨.year, ⟨2015, 3, 1⟩, 1⟩ := by
  refine ⟨by decide, rfl, ⟨by decide, by decide, by intro h; rcases h with h | h <;> cases h⟩, by decide +kernel⟩

/-- Two aligned periods of the same unit that differ in start or size never print the same. -/
theorem C05_print_injective (p q : Period) (hp : p.WF) (hq : q.WF) (hap : OwnAligned p)
    (haq : OwnAligned q) (hdp : InTextDomain p) (hdq : InTextDomain q) (hu : p.unit = q.unit)
    (ht : p.text = q.text) : p = q := by
  have h1 := parse_text p hp hap hdp
  have h2 := parse_text q hq haq hdq
  rw [ht, h2] at h1
  injection h1 with h1
  unfold canon at h1
  obtain ⟨pu, ps, pn⟩ := p
  obtain ⟨qu, qs, qn⟩ := q
  simp only at hu h1
  subst hu
  split at h1 <;> split at h1
  · rename_i a b; simp only [Period.mk.injEq, true_and, and_true] at h1
    rw [h1, a.2, b.2]
  · rename_i a b; injection h1 with h _ _; rw [a.1] at h; cases h
  · rename_i a b; injection h1 with h _ _; rw [b.1] at h; cases h
  · exact h1.symm

/-- Every instant prints as an ISO date that parses back to itself. -/
theorem C05_instant_roundtrip (c : Date) (hv : c.Valid) (h1 : 1000 ≤ c.y) (h2 : c.y ≤ 9999) :
    parseInstant (instantText c) = .ok c := by
  obtain ⟨y, m, d⟩ := c
  have hv' := hv
  obtain ⟨_, hm1, hm2, hd1, hd2⟩ := hv'
  simp only at hm1 hm2 hd1 hd2 h1 h2
  obtain ⟨Y, rfl⟩ := Int.eq_ofNat_of_zero_le (show 0 ≤ y by omega)
  obtain ⟨M, rfl⟩ := Int.eq_ofNat_of_zero_le (show 0 ≤ m by omega)
  obtain ⟨D, rfl⟩ := Int.eq_ofNat_of_zero_le (show 0 ≤ d by omega)
  have := dim_le (Y : Int) M
  have hp4 : pad 4 Y = natDigits Y := by
    unfold pad
    have : (natDigits Y).length = 4 := by rw [natDigits4 Y (by omega) (by omega)]; rfl
    simp only [this, Nat.sub_self, List.replicate_zero, List.nil_append]
  unfold parseInstant instantText
  simp only [Int.toNat_natCast, hp4, List.append_assoc, List.cons_append, List.nil_append]
  have hl := lex_ymd Y M D (by omega) (by omega) (by omega) (by omega) (by omega) (by omega)
  simp only [List.append_assoc, List.cons_append, List.nil_append] at hl
  rw [hl]
  have hd := dateOk_mk Y M D (by omega) (by omega) hm1 hm2 hd1 hd2
  simp only [tokDate, hd, if_true]

/-- A string that spells an impossible calendar date (day beyond the month's length, week 53
    of a 52-week year, year 0) is rejected, as a period and as an instant. -/
theorem C05_reject_impossible_date (cs : List Char) (tok : Tok) (hl : lexIso cs = some tok)
    (hne : lower cs ≠ "eternity".toList) (hbad : tokDate tok = none) :
    (∃ e, parsePeriod cs = .error e) ∧ ∃ e', parseInstant cs = .error e' := by
  refine ⟨⟨"parse", ?_⟩, "parse", ?_⟩
  · unfold parsePeriod
    rw [if_neg hne, if_pos (by rw [hl]; rfl)]
    unfold parseIsoPeriod
    simp only [hl, hbad]
  · unfold parseInstant; simp only [hl, hbad]

example : lexIso "2015-02-30".toList = some (.ymd 2015 2 30) ∧ tokDate (.ymd 2015 2 30) = none ∧
    lexIso "2016-W53".toList = some (.yw 2016 53) ∧ tokDate (.yw 2016 53) = none := by decide +kernel

/-- A string that is neither `eternity` nor a bare ISO date is split on ':' and handed to the
    `unit:date[:size]` reader; without any ':' it is rejected. -/
theorem C05_unit_form_dispatch (cs : List Char) (h1 : lower cs ≠ "eternity".toList)
    (h2 : lexIso cs = none) :
    (∀ u mid rest, splitOn ':' cs = u :: mid :: rest → parsePeriod cs = parseUnitForm u mid rest) ∧
    (':' ∉ cs → ∃ e, parsePeriod cs = .error e) := by
  constructor
  · intro u mid rest hs
    unfold parsePeriod
    rw [if_neg h1, if_neg (by rw [h2]; simp), hs]
  · intro hn
    unfold parsePeriod
    rw [if_neg h1, if_neg (by rw [h2]; simp), splitOn_none ':' cs hn]
    exact ⟨_, rfl⟩

/-- Decision logic of the `unit:date[:size]` form: an unknown unit (or `eternity`), a date part
    that is not an ISO date, a non-integer size and extra fields are all rejected. -/
theorem C05_reject_malformed (u mid : List Char) (rest : List (List Char)) :
    ((unitOfName? (String.ofList u) = none ∨ unitOfName? (String.ofList u) = some .eternity) →
        ∃ e, parseUnitForm u mid rest = .error e) ∧
    (2 ≤ rest.length → ∃ e, parseUnitForm u mid rest = .error e) ∧
    (∀ s, rest = [s] → pyInt s = none → ∃ e, parseUnitForm u mid rest = .error e) ∧
    (lexIso mid = none → ∃ e, parseUnitForm u mid rest = .error e) := by
  refine ⟨?_, ?_, ?_, ?_⟩
  · intro hu
    unfold parseUnitForm
    split
    · exact ⟨_, rfl⟩
    · rcases hu with hu | hu <;> rw [hu] <;> exact ⟨_, rfl⟩
  · intro hr
    have hsz : sizeField rest = .error "period" := by
      match rest, hr with
      | _ :: _ :: _, _ => rfl
    unfold parseUnitForm
    split
    · exact ⟨_, rfl⟩
    · split
      · exact ⟨_, rfl⟩
      · exact ⟨_, rfl⟩
      · split
        · exact ⟨_, rfl⟩
        · rw [hsz]; exact ⟨_, rfl⟩
  · intro s hrs hpi
    have hsz : sizeField rest = .error "period" := by
      rw [hrs]; simp only [sizeField, hpi]
    unfold parseUnitForm
    split
    · exact ⟨_, rfl⟩
    · split
      · exact ⟨_, rfl⟩
      · exact ⟨_, rfl⟩
      · split
        · exact ⟨_, rfl⟩
        · rw [hsz]; exact ⟨_, rfl⟩
  · intro hm
    unfold parseUnitForm
    rw [hm]; exact ⟨_, rfl⟩

example : pyInt "1.5".toList = none ∧ pyInt "x".toList = none ∧ pyInt "".toList = none ∧
    unitOfName? "months" = none ∧ lexIso "2015-13".toList = none := by decide +kernel

/-- how coarse a dated unit is: a year is coarser than a month, a month than a week, a week than a
    day or a weekday (a calendar fact, independent of the code's `unit_weights`) -/
def coarseness : DUnit → Nat
  | .year => 4 | .month => 3 | .week => 2 | .day => 1 | .weekday => 1 | .eternity => 5

/-- the code's test (the weights regenerated from the source, plus the week-in-month clause of
    repair F-C05) decides exactly "the unit is finer than the date's precision" -/
theorem C05_finer_test_exact (unit base : DUnit) (hu : unit ≠ .eternity) (hb : base ≠ .eternity) :
    finerThanDate unit base = true ↔ coarseness unit < coarseness base := by
  cases unit <;> cases base <;> first
    | exact absurd rfl hu
    | exact absurd rfl hb
    | decide +kernel

/-- A unit finer than the precision of the date given is rejected: `month:2014`, `day:2014-03`,
    `week:2015-01`, `weekday:2015-W01` … — every unit, every date text, every size field. -/
theorem C05_reject_finer_unit (u mid : List Char) (rest : List (List Char))
    (unit : DUnit) (base : Period)
    (hu : unitOfName? (String.ofList u) = some unit) (hb : parseIsoPeriod mid = .ok base)
    (hbe : base.unit ≠ .eternity)
    (hfiner : coarseness unit < coarseness base.unit) : ∃ e, parseUnitForm u mid rest = .error e := by
  unfold parseUnitForm
  split
  · exact ⟨_, rfl⟩
  · rw [hu]
    cases hunit : unit with
    | eternity => exact ⟨_, rfl⟩
    | _ =>
      all_goals
        simp only [hb]
        split
        · exact ⟨_, rfl⟩
        · have hf : finerThanDate unit base.unit = true :=
            (C05_finer_test_exact unit base.unit (by rw [hunit]; decide) hbe).2 hfiner
          rw [hunit] at hf
          rw [if_pos hf]; exact ⟨_, rfl⟩

/-- the case that was accepted before the repair (F-C05) -/
theorem C05_week_in_month_rejected :
    parsePeriod "week:2015-01".toList = .error "period" ∧ parsePeriod "week:2015-01:3".toList = .error "period" ∧
    parsePeriod "month:2015-W01".toList = .ok ⟨.month, ⟨2014, 12, 29⟩, 1⟩ := by decide +kernel

/-! ## `periods.instant(value)` / `periods.period(value)` on every accepted argument type -/

/-- An `int` year builds the same instant and the same period as its decimal text: `period(2021)` is
    `period("2021")`, the calendar year 2021. -/
theorem C05_int_is_its_text (y : Nat) (h1 : 1000 ≤ y) (h2 : y ≤ 9999) :
    periodOf (.int y) = .ok ⟨.year, ⟨y, 1, 1⟩, 1⟩ ∧
    periodOf (.str (intText y)) = periodOf (.int y) ∧
    instantOf (.str (intText y)) = instantOf (.int y) := by
  have hl := lex_y y h1 h2
  have hd := dateOk_mk y 1 1 (by omega) (by omega) (by omega) (by omega) (by omega) (by have := dim_ge (y : Int) 1; omega)
  refine ⟨rfl, ?_, ?_⟩
  · show parsePeriod (intText y) = _
    rw [intText_nat, parse_plain' _ _ hl, iso_y y h1 h2]; rfl
  · show parseInstant (intText y) = _
    rw [intText_nat]; unfold parseInstant; rw [hl]
    simp only [tokDate, hd, if_true]; rfl

example : periodOf (.int 2021) = parsePeriod "2021".toList := by decide +kernel

/-- A sequence of one to three integers is padded with ones, a longer one is cut after the third:
    `instant((2021,))` is 1 January 2021, `instant((2021, 9))` is 1 September 2021; the empty sequence
    is refused.  A one-element sequence is the `int`, a three-element one is the `Instant` itself. -/
theorem C05_instant_of_sequence (y m d : Int) (more : List Int) :
    instantOf (.seq []) = .error "instant" ∧
    instantOf (.seq [y]) = .ok ⟨y, 1, 1⟩ ∧ instantOf (.seq [y]) = instantOf (.int y) ∧
    instantOf (.seq [y, m]) = .ok ⟨y, m, 1⟩ ∧
    instantOf (.seq (y :: m :: d :: more)) = .ok ⟨y, m, d⟩ ∧
    instantOf (.seq [y, m, d]) = instantOf (.instant ⟨y, m, d⟩) :=
  ⟨rfl, rfl, rfl, rfl, rfl, rfl⟩

/-- An `Instant`, a `datetime.date` and an `int` year become the one-day period (the calendar year)
    beginning there: its days are exactly that day (that year). -/
theorem C05_period_of_instant (c : Date) (y : Int) :
    (∃ p, periodOf (.instant c) = .ok p ∧ p.unit = .day ∧ p.lo = ord c ∧ p.hi = ord c) ∧
    (∃ p, periodOf (.date c) = .ok p ∧ p.unit = .day ∧ p.lo = ord c ∧ p.hi = ord c) ∧
    (∃ p, periodOf (.int y) = .ok p ∧ p.unit = .year ∧ p.lo = ord ⟨y, 1, 1⟩ ∧ p.hi = ord ⟨y, 12, 31⟩) := by
  refine ⟨⟨_, rfl, rfl, rfl, ?_⟩, ⟨_, rfl, rfl, rfl, ?_⟩, ⟨_, rfl, rfl, rfl, ?_⟩⟩
  · simp only [Period.hi]; omega
  · simp only [Period.hi]; omega
  · rw [hi_year_jan]; congr 2; omega

/-- The two constructors agree: whenever `period(value)` builds a period from something that also
    reads as an instant (everything but the `unit:date[:size]` texts and `eternity`), `instant(value)`
    is the start of that period. -/
theorem C05_period_starts_at_instant (v : PyVal) (p : Period) (h : periodOf v = .ok p)
    (hs : ∀ cs, v = .str cs → (lexIso cs).isSome) : instantOf v = .ok p.start := by
  cases v with
  | none => cases h
  | int i => injection h with h; subst h; rfl
  | str cs =>
    have hl := hs cs rfl
    cases hlex : lexIso cs with
    | none => rw [hlex] at hl; cases hl
    | some t =>
      have h' : parsePeriod cs = .ok p := h
      rw [parse_plain' cs t hlex] at h'
      unfold parseIsoPeriod at h'
      simp only [hlex] at h'
      show parseInstant cs = _
      unfold parseInstant
      simp only [hlex]
      cases hd : tokDate t with
      | none => simp only [hd] at h'; cases h'
      | some c =>
        cases hu : tokUnit t with
        | none => simp only [hd, hu] at h'; cases h'
        | some u => simp only [hd, hu] at h'; injection h' with h'; subst h'; rfl
  | instant c => injection h with h; subst h; rfl
  | period q => injection h with h; subst h; rfl
  | date c => injection h with h; subst h; rfl
  | seq xs => cases h
  | other => cases h

example : periodOf (.str "2022-W02-7".toList) = .ok ⟨.weekday, ⟨2022, 1, 16⟩, 1⟩ ∧
    instantOf (.str "2022-W02-7".toList) = .ok ⟨2022, 1, 16⟩ := by decide +kernel

/-- What is not period-like is refused: `None`, a sequence (even one `instant` accepts), any other object. -/
theorem C05_period_refuses (xs : List Int) :
    (∃ e, periodOf .none = .error e) ∧ (∃ e, periodOf (.seq xs) = .error e) ∧ (∃ e, periodOf .other = .error e) ∧
    (∃ e, instantOf .none = .error e) ∧ (∃ e, instantOf .other = .error e) :=
  ⟨⟨_, rfl⟩, ⟨_, rfl⟩, ⟨_, rfl⟩, ⟨_, rfl⟩, ⟨_, rfl⟩⟩

/-- `instant_date`: `None` stays `None`; an instant gives its calendar date exactly when it is one
    (real month and day, year 1..9999), and is refused otherwise. -/
theorem C05_instant_date (c : Date) :
    instantDate none = .ok none ∧
    (c.Valid ∧ c.y ≤ 9999 → instantDate (some c) = .ok (some c)) ∧
    (¬ (c.Valid ∧ c.y ≤ 9999) → ∃ e, instantDate (some c) = .error e) := by
  refine ⟨rfl, ?_, ?_⟩
  · intro hv; simp only [instantDate]; rw [if_pos ((dateOk_iff c).2 hv)]
  · intro hv; simp only [instantDate]
    rw [if_neg (fun hh => hv ((dateOk_iff c).1 hh))]; exact ⟨_, rfl⟩

example : instantDate (some ⟨2021, 2, 29⟩) = .error "date" ∧ instantDate (some ⟨2020, 2, 29⟩) = .ok (some ⟨2020, 2, 29⟩) := by
  decide +kernel

/-- An `Instant` (or a `datetime.date`) builds the same period as its own text: `period(Instant((2021, 9, 16)))`
    is `period("2021-09-16")`, that one day. -/
theorem C05_instant_is_its_text (c : Date) (hv : c.Valid) (h1 : 1000 ≤ c.y) (h2 : c.y ≤ 9999) :
    periodOf (.str (instantText c)) = periodOf (.instant c) ∧
    periodOf (.str (instantText c)) = periodOf (.date c) ∧
    instantOf (.str (instantText c)) = instantOf (.instant c) := by
  refine ⟨?_, ?_, C05_instant_roundtrip c hv h1 h2⟩
  all_goals
    obtain ⟨y, m, d⟩ := c
    have hv' := hv
    obtain ⟨_, hm1, hm2, hd1, hd2⟩ := hv'
    simp only at hm1 hm2 hd1 hd2 h1 h2
    obtain ⟨Y, rfl⟩ := Int.eq_ofNat_of_zero_le (show 0 ≤ y by omega)
    obtain ⟨M, rfl⟩ := Int.eq_ofNat_of_zero_le (show 0 ≤ m by omega)
    obtain ⟨D, rfl⟩ := Int.eq_ofNat_of_zero_le (show 0 ≤ d by omega)
    have := dim_le (Y : Int) M
    have hp4 : pad 4 Y = natDigits Y := by
      unfold pad
      have : (natDigits Y).length = 4 := by rw [natDigits4 Y (by omega) (by omega)]; rfl
      simp only [this, Nat.sub_self, List.replicate_zero, List.nil_append]
    show parsePeriod (instantText _) = _
    unfold instantText
    simp only [Int.toNat_natCast, hp4, List.append_assoc, List.cons_append, List.nil_append]
    have hl := lex_ymd Y M D (by omega) (by omega) (by omega) (by omega) (by omega) (by omega)
    have hi := iso_ymd Y M D (by omega) (by omega) hv
    simp only [List.append_assoc, List.cons_append] at hl hi
    rw [parse_plain' _ _ hl, hi]; rfl

example : periodOf (.instant ⟨2021, 9, 16⟩) = parsePeriod "2021-09-16".toList := by decide +kernel

end OFCore
